import PytmeModel.Model.Common
/-!
C06 — rigid transforms (array version and coordinate version).

Mirrors
* `NumpyFFTWBackend._rigid_transform_matrix` (tme/backends/npfftw_backend.py): the homogeneous
  product `T(-t) · C(c) · R⁻¹ · C(-c)`, divided by its corner entry;
* `scipy.ndimage.affine_transform` *coordinate contract*: `out[o] = interp(in, M[:d,:d]·o + M[:d,d])`,
  `mode="constant"` (zero outside); on-grid sources are read exactly, off-grid ones are
  interpolated (order 1 modelled exactly: `linInterp`, `rigidLinear`, `rigidLinearArr` — partition of unity, grid points,
  integer shifts, affine exactness and the mass / first-moment rule of translations are theorems of `Props/C06.lean`;
  the spline orders are not modelled);
* `NumpyFFTWBackend.rigid_transform`: centre `(n-1)/2` (geometric) or a given centre (centre of mass),
  data and mask resampled through the *same* matrix;
* `matching_utils.rigid_transform` (coordinate version, both `use_geometric_center` branches, mask);
* `Structure.rigid_transform` / `Density.rigid_transform` are thin wrappers around the two; the Density wrapper
  ends with a clean-up of interpolation noise (`cleanNoise`, relative to the data's magnitude since the repair).

Vectors are `Fin d → α`, matrices `Fin d → Fin d → α` for any dimension `d`; the scalar type is
generic (executed at `Int` for the grid group in doubled coordinates and at `Rat` for everything else).
-/
namespace Pm.C06

/-- `Σ_{i<d} f i` over `Fin d` by structural recursion on `d`. -/
def sumFin {α : Type} [Add α] [Zero α] : (d : Nat) → (Fin d → α) → α
  | 0, _ => 0
  | d+1, f => sumFin d (fun i => f i.castSucc) + f (Fin.last d)

/-- `∀ i < d, p i` as a Boolean. -/
def allFin : (d : Nat) → (Fin d → Bool) → Bool
  | 0, _ => true
  | d+1, p => allFin d (fun i => p i.castSucc) && p (Fin.last d)

abbrev Vec (d : Nat) (α : Type) := Fin d → α
abbrev Mat (d : Nat) (α : Type) := Fin d → Fin d → α

section algebra
variable {α : Type} [Add α] [Mul α] [Sub α] [Neg α] [Zero α] [One α]

def matMul {n : Nat} (A B : Mat n α) : Mat n α := fun i k => sumFin n (fun j => A i j * B j k)
def matVec {n : Nat} (A : Mat n α) (v : Vec n α) : Vec n α := fun i => sumFin n (fun j => A i j * v j)
def ident (n : Nat) : Mat n α := fun i j => if i = j then 1 else 0
def transpose {n : Nat} (A : Mat n α) : Mat n α := fun i j => A j i

/-- `identity(d+1)` with `[:d, d] = b`  (`translation_matrix`, `center_matrix`) -/
def transMat {d : Nat} (b : Vec d α) : Mat (d+1) α := fun i j =>
  if h : i.val < d ∧ j.val = d then b ⟨i.val, h.1⟩ else ident (d+1) i j

/-- `identity(d+1)` with `[:d, :d] = A`  (`rmat`) -/
def embedRot {d : Nat} (A : Mat d α) : Mat (d+1) α := fun i j =>
  if h : i.val < d ∧ j.val < d then A ⟨i.val, h.1⟩ ⟨j.val, h.2⟩ else ident (d+1) i j

/-- `_rigid_transform_matrix` before the final normalisation: the statements are executed in the
order of the code (`matrix = matrix · X` four times); `rinv` is `linalg.inv(rotation_matrix)`
(an external call: it enters as a parameter with the contract `rinv · R = 1`). -/
def rigidMatrixRaw {d : Nat} (rinv : Mat d α) (t c : Option (Vec d α)) : Mat (d+1) α :=
  let m0 : Mat (d+1) α := ident (d+1)
  let m1 := match t with
    | some t => matMul m0 (transMat (fun i => - t i))
    | none => m0
  let m2 := match c with
    | some c => matMul m1 (transMat c)
    | none => m1
  let m3 := matMul m2 (embedRot rinv)
  match c with
    | some c => matMul m3 (transMat (fun i => - c i))
    | none => m3

/-- `matrix /= matrix[ndim, ndim]` -/
def rigidMatrix [Div α] {d : Nat} (rinv : Mat d α) (t c : Option (Vec d α)) : Mat (d+1) α :=
  let m := rigidMatrixRaw rinv t c
  fun i j => m i j / m (Fin.last d) (Fin.last d)

/-- scipy `affine_transform` with a homogeneous `(d+1)×(d+1)` matrix: the input coordinate that
output voxel `o` is read from is `M[:d,:d]·o + M[:d,d]`. -/
def affineSrc {d : Nat} (M : Mat (d+1) α) (o : Vec d α) : Vec d α :=
  fun i => sumFin d (fun j => M i.castSucc j.castSucc * o j) + M i.castSucc (Fin.last d)

/-- the pull-back the property speaks of: `R⁻¹(o − c) + c − t` -/
def pullback {d : Nat} (rinv : Mat d α) (t c : Vec d α) (o : Vec d α) : Vec d α :=
  fun i => matVec rinv (fun j => o j - c j) i + c i - t i

/-- the forward map: the inverse of `pullback`.  NB the translation of the *array* version acts in the
input frame (before the rotation): `x ↦ R(x + t − c) + c`; it is `R(x − c) + c` for `t = 0` and `x + t`
for `R = 1`, which are the two cases the property speaks of. -/
def forward {d : Nat} (R : Mat d α) (t c : Vec d α) (x : Vec d α) : Vec d α :=
  fun i => matVec R (fun j => x j + t j - c j) i + c i

end algebra

/-! ## the grid group: exact resampling in doubled integer coordinates -/

/-- twice the source coordinate of output voxel `o` for the geometric centre `c = (n-1)/2`:
`2·(R⁻¹(o − c) + c − t) = R⁻¹(2o − (n−1)) + (n−1) − 2t`, all integers. -/
def pull2 {d : Nat} (n : Fin d → Nat) (rinv : Mat d Int) (t : Vec d Int) (o : Vec d Int) : Vec d Int :=
  fun i => matVec rinv (fun j => 2 * o j - ((n j : Int) - 1)) i + ((n i : Int) - 1) - 2 * t i

/-- twice the position the voxel `x` is moved to: `R(2x + 2t − (n−1)) + (n−1)` -/
def push2 {d : Nat} (n : Fin d → Nat) (R : Mat d Int) (t : Vec d Int) (x : Vec d Int) : Vec d Int :=
  fun i => matVec R (fun j => 2 * x j + 2 * t j - ((n j : Int) - 1)) i + ((n i : Int) - 1)

def inBox {d : Nat} (n : Fin d → Nat) (x : Vec d Int) : Bool :=
  allFin d (fun i => decide (0 ≤ x i) && decide (x i < (n i : Int)))

def isEven {d : Nat} (s2 : Vec d Int) : Bool := allFin d (fun i => s2 i % 2 == 0)

/-- read an array (a total function, `0` outside its box = `mode="constant"`, `cval=0`) at the doubled
coordinate `s2`; `none` when the position is not a grid point (then the value is interpolated, which
this function does not model). -/
def resample {α : Type} [Zero α] {d : Nat} (n : Fin d → Nat) (f : Vec d Int → α) (s2 : Vec d Int) : Option α :=
  if isEven s2 then
    let s : Vec d Int := fun i => s2 i / 2
    some (if inBox n s then f s else 0)
  else none

/-- `affine_transform(input, matrix(R⁻¹, t, (n−1)/2), mode="constant")[o]` for integer matrices -/
def gridTransform {α : Type} [Zero α] {d : Nat} (n : Fin d → Nat) (rinv : Mat d Int) (t : Vec d Int)
    (f : Vec d Int → α) (o : Vec d Int) : Option α :=
  resample n f (pull2 n rinv t o)

/-- `rigid_transform(arr, R, arr_mask, translation, use_geometric_center=True)`: data and mask go
through the same matrix (the only difference in the code is `prefilter`, which does not change
where a value is read from). -/
def rigidGrid {α : Type} [Zero α] {d : Nat} (n : Fin d → Nat) (rinv : Mat d Int) (t : Vec d Int)
    (f : Vec d Int → α) (mask : Option (Vec d Int → α)) :
    (Vec d Int → Option α) × Option (Vec d Int → Option α) :=
  (gridTransform n rinv t f, mask.map (fun g => gridTransform n rinv t g))

/-! ### "data prefiltered, mask not"

The data goes through `affine_transform(prefilter=True)`: the spline *interpolates*, so at grid points it
returns the samples themselves (orders 0–3).  The mask goes through `prefilter=False`: for orders 2 and 3 the
samples are then used directly as B-spline coefficients, i.e. the value returned at a grid point is the
B-spline smoothing of the mask, `1/8·(1,6,1)` per axis for order 2 and `1/6·(1,4,1)` for order 3, with
scipy's mirror extension of the coefficients about the edge samples.  Orders 0 and 1 are unaffected. -/

/-- B-spline values at the integer offsets −1, 0, 1 -/
def bsplineTaps (order : Nat) : List (Int × Rat) :=
  if order = 2 then [(-1, 1/8), (0, 3/4), (1, 1/8)]
  else if order = 3 then [(-1, 1/6), (0, 2/3), (1, 1/6)]
  else [(0, 1)]

/-- all taps (mirrored index, weight) around `idx`; axis 0 first -/
def smoothTaps (order : Nat) : List Nat → List Nat → List (List Nat × Rat)
  | n :: ns, i :: is =>
      let rest := smoothTaps order ns is
      (bsplineTaps order).flatMap (fun (kw : Int × Rat) =>
        rest.map (fun (jw : List Nat × Rat) => (reflectIdx n ((i : Int) + kw.1) :: jw.1, kw.2 * jw.2)))
  | _, _ => [([], 1)]

/-- what an un-prefiltered spline of the given order returns at the grid points of `m` -/
def smoothMask (order : Nat) (m : Arr Rat) : Arr Rat :=
  Arr.ofFn m.shape (fun idx =>
    (smoothTaps order m.shape idx).foldl (fun acc (jw : List Nat × Rat) => acc + jw.2 * m.getD jw.1 0) 0)

/-- the mask output of `rigid_transform` on the grid group, any order ≤ 3: the smoothed mask, moved by the
same map as the data -/
def maskGridOf {d : Nat} (n : Fin d → Nat) (rinv : Mat d Int) (t : Vec d Int) (sm : Arr Rat) :
    Vec d Int → Option Rat :=
  gridTransform n rinv t (fun idx => sm.getI (List.ofFn idx) 0)

def maskGrid {d : Nat} (order : Nat) (n : Fin d → Nat) (rinv : Mat d Int) (t : Vec d Int) (m : Arr Rat) :
    Vec d Int → Option Rat :=
  maskGridOf n rinv t (smoothMask order m)

/-- `_rigid_transform`: the resampled array is written into the leading corner `output[:data.shape]` of the
caller's (possibly larger) buffer — the padded template buffers of the scoring loops; the rest of the buffer
is left as it was. -/
def writeCorner {α : Type} {d : Nat} (n : Fin d → Nat) (buf : Vec d Int → α) (res : Vec d Int → Option α) :
    Vec d Int → Option α :=
  fun o => if inBox n o then res o else some (buf o)

/-- `rigid_transform(arr, R, translation, use_geometric_center=True, out=buffer)` -/
def rigidGridInto {α : Type} [Zero α] {d : Nat} (n : Fin d → Nat) (rinv : Mat d Int) (t : Vec d Int)
    (f : Vec d Int → α) (buf : Vec d Int → α) : Vec d Int → Option α :=
  writeCorner n buf (gridTransform n rinv t f)

/-! ## order-1 (linear) interpolation, `mode="constant"` — exact over `Rat` -/

/-- per-axis interpolation nodes and weights of scipy's order-1 spline at coordinate `x`:
`floor x` with weight `1 − frac`, `floor x + 1` with weight `frac`. -/
def linNodes (x : Rat) : List (Int × Rat) :=
  let fl := x.floor
  let fr := x - (fl : Rat)
  [(fl, 1 - fr), (fl + 1, fr)]

/-- all `2^d` corner combinations `(index list, weight)`; axis 0 first -/
def linCorners : List Rat → List (List Int × Rat)
  | [] => [([], 1)]
  | x :: xs =>
    let rest := linCorners xs
    (linNodes x).flatMap (fun (nw : Int × Rat) => rest.map (fun (iw : List Int × Rat) => (nw.1 :: iw.1, nw.2 * iw.2)))

/-- scipy `mode="constant"`: a coordinate outside `[0, n−1]` on any axis yields `cval = 0` and nothing
is interpolated beyond the edge; inside, the corners are read (a corner index equal to `n` only
occurs with weight `0`). -/
def linInterp (a : Arr Rat) (src : List Rat) : Rat :=
  if src.length ≠ a.shape.length then 0 else
  if (List.zip src a.shape).all (fun (xn : Rat × Nat) => decide (0 ≤ xn.1) && decide (xn.1 ≤ ((xn.2 : Int) - 1 : Int))) then
    (linCorners src).foldl (fun acc (iw : List Int × Rat) => acc + iw.2 * a.getI iw.1 0) 0
  else 0

/-- `NumpyFFTWBackend.center_of_mass(arr, cutoff)`: values `≤ cutoff` are nullified, then
`Σ arr·grid_i / Σ arr` per axis (a zero denominator is numpy's NaN; here `x/0 = 0`, never compared). -/
def centerOfMass (a : Arr Rat) (cutoff : Rat) : List Rat :=
  let idxs := allIdx a.shape
  let w : List Nat → Rat := fun idx => let v := a.getD idx 0; if v > cutoff then v else 0
  let den := idxs.foldl (fun acc idx => acc + w idx) 0
  (List.range a.shape.length).map (fun ax =>
    idxs.foldl (fun acc idx => acc + w idx * ((idx.getD ax 0 : Nat) : Rat) / den) 0)

/-- default arguments of the four entry points (compared with `inspect.signature` on every run):
`use_geometric_center` and the interpolation `order`. -/
def defaultGeometric : List (String × Bool) :=
  [("NumpyFFTWBackend.rigid_transform", false), ("Density.rigid_transform", true),
   ("Structure.rigid_transform", false), ("matching_utils.rigid_transform", false)]
def defaultOrder : List (String × Nat) :=
  [("NumpyFFTWBackend.rigid_transform", 3), ("Density.rigid_transform", 3)]

/-! ## coordinate version: `matching_utils.rigid_transform` -/

section coords
variable {α : Type} [Add α] [Mul α] [Sub α] [Neg α] [Zero α] [One α] [Div α] [NatCast α]

/-- `coordinates.mean(axis=1)` for `N` points (columns) in `d` dimensions -/
def mean {N d : Nat} (x : Fin N → Vec d α) : Vec d α :=
  fun i => sumFin N (fun k => x k i) / (N : α)

/-- `use_geometric_center=False` branch (the default, used by `Structure.rigid_transform`):
```
center = coordinates.mean(axis=1) if center is None else center
coordinates = coordinates - center[:, None]
out = R @ coordinates
translation = translation + (center - out.mean(axis=1))
out += translation[:, None]
```
the mask points are moved with the same centre and the same final translation. -/
def coordsCore {N M d : Nat} (x : Fin N → Vec d α) (R : Mat d α) (t c : Vec d α) (mask : Fin M → Vec d α) :
    (Fin N → Vec d α) × (Fin M → Vec d α) :=
  let out0 : Fin N → Vec d α := fun k => matVec R (fun j => x k j - c j)
  let m0 := mean out0
  let tr : Vec d α := fun i => t i + (c i - m0 i)
  (fun k i => out0 k i + tr i,
   fun k i => matVec R (fun j => mask k j - c j) i + tr i)

def coordsTransform {N M d : Nat} (x : Fin N → Vec d α) (R : Mat d α) (t : Vec d α)
    (center : Option (Vec d α)) (mask : Fin M → Vec d α) :
    (Fin N → Vec d α) × (Fin M → Vec d α) :=
  coordsCore x R t (center.getD (mean x)) mask

/-- the tail of `matching_utils.rigid_transform` that only runs when `use_geometric_center=False` and the
dtype of `coordinates` differs from the dtype of `out`:
```
np.subtract(out.mean(axis=1), out.astype(int).mean(axis=1), out=translation)
out += translation[:, None]
```
`trunc` is `astype(int)` (truncation toward zero).  The mask is *not* shifted by the code. -/
def coordsDtypeFix {N d : Nat} (trunc : α → α) (out : Fin N → Vec d α) : Fin N → Vec d α :=
  let m1 := mean out
  let m2 := mean (fun k i => trunc (out k i))
  fun k i => out k i + (m1 i - m2 i)

end coords

section coordsGeo
variable {α : Type} [Add α] [Mul α] [Sub α] [Neg α] [Zero α] [One α] [Div α] [NatCast α] [Max α] [Min α]

def maxFin : (N : Nat) → (Fin (N+1) → α) → α
  | 0, f => f 0
  | N+1, f => max (maxFin N (fun k => f k.castSucc)) (f (Fin.last (N+1)))

def minFin : (N : Nat) → (Fin (N+1) → α) → α
  | 0, f => f 0
  | N+1, f => min (minFin N (fun k => f k.castSucc)) (f (Fin.last (N+1)))

/-- `use_geometric_center=True` branch:
```
center = coordinates.mean(axis=1) if center is None else center
out = R @ coordinates
axis_max, axis_min = out.max(axis=1), out.min(axis=1)
translation = translation + center - axis_max + ((axis_max - axis_min) // 2)
out += translation[:, None]
```
`halfFloor x = x // 2` (floor division of the scalar type). -/
def coordsGeoCore {N M d : Nat} (halfFloor : α → α) (x : Fin (N+1) → Vec d α) (R : Mat d α) (t c : Vec d α)
    (mask : Fin M → Vec d α) : (Fin (N+1) → Vec d α) × (Fin M → Vec d α) :=
  let out0 : Fin (N+1) → Vec d α := fun k => matVec R (x k)
  let amax : Vec d α := fun i => maxFin N (fun k => out0 k i)
  let amin : Vec d α := fun i => minFin N (fun k => out0 k i)
  let tr : Vec d α := fun i => t i + (c i - amax i + halfFloor (amax i - amin i))
  (fun k i => out0 k i + tr i,
   fun k i => matVec R (mask k) i + tr i)

def coordsTransformGeo {N M d : Nat} (halfFloor : α → α) (x : Fin (N+1) → Vec d α) (R : Mat d α) (t : Vec d α)
    (center : Option (Vec d α)) (mask : Fin M → Vec d α) :
    (Fin (N+1) → Vec d α) × (Fin M → Vec d α) :=
  coordsGeoCore halfFloor x R t (center.getD (mean x)) mask

end coordsGeo

/-! ## `Density.rigid_transform`: removal of interpolation noise after the transform -/
section clean
variable {α : Type} [Mul α] [Neg α] [Zero α] [Max α] [LT α] [DecidableLT α]

/-- `np.abs(v)` -/
def absV (v : α) : α := max v (-v)

/-- `np.abs(out).max(initial=0)` -/
def absMax (l : List α) : α := l.foldr (fun v m => max (absV v) m) 0

/-- the tail of `Density.rigid_transform` (floating dtypes; integer data is returned as the backend wrote it):
```
eps = np.finfo(ret.data.dtype).eps * np.abs(ret.data).max(initial=0)
ret.data[np.abs(ret.data) < eps] = 0
```
on the flattened output. -/
def cleanNoise (eps : α) (l : List α) : List α :=
  let m := absMax l
  l.map (fun v => if absV v < eps * m then 0 else v)

/-- the tail as it was before the repair: `ret.data[np.abs(ret.data) < eps] = 0` (absolute threshold) -/
def cleanNoiseAbs (eps : α) (l : List α) : List α :=
  l.map (fun v => if absV v < eps then 0 else v)

end clean

/-- `astype(int)` on rationals: truncation toward zero -/
def truncRat (x : Rat) : Rat := if x ≥ 0 then ((x.floor : Int) : Rat) else ((-((-x).floor) : Int) : Rat)

/-- `x // 2` on rationals (numpy floor division of floats) -/
def halfFloorRat (x : Rat) : Rat := ((x / 2).floor : Int)

/-! ## small helpers used by the driver and in examples -/

/-- matrix from rows (missing entries read `0`) -/
def matOfRows {α : Type} [Zero α] (d : Nat) (rows : List (List α)) : Mat d α :=
  fun i j => (rows.getD i.val []).getD j.val 0

def vecOfList {α : Type} [Zero α] (d : Nat) (l : List α) : Vec d α := fun i => l.getD i.val 0

def listOfVec {α : Type} {d : Nat} (v : Vec d α) : List α := List.ofFn v

def rowsOfMat {α : Type} {d : Nat} (A : Mat d α) : List (List α) := List.ofFn (fun i => List.ofFn (A i))

/-- a dense array read as a total function with zero extension -/
def fnOfArr {α : Type} [Zero α] {d : Nat} (a : Arr α) : Vec d Int → α := fun idx => a.getI (List.ofFn idx) 0

/-! ## order-1 rigid transform of a whole array; mass and first moments -/

/-- `rigid_transform(arr, R, translation=t, order=1)` at output voxel `o` with centre `c`: the array linearly
interpolated (`linInterp`: `mode="constant"`, `cval=0`) at the position the homogeneous matrix assigns to `o` -/
def rigidLinear {d : Nat} (a : Arr Rat) (rinv : Mat d Rat) (t c : Vec d Rat) (o : Vec d Rat) : Rat :=
  linInterp a (listOfVec (affineSrc (rigidMatrix rinv (some t) (some c)) o))

/-- a voxel index as a rational position -/
def ratIdx (idx : List Nat) : List Rat := idx.map (fun (z : Nat) => ((z : Int) : Rat))

/-- the whole output array (`out` has the shape of `arr`) -/
def rigidLinearArr {d : Nat} (a : Arr Rat) (rinv : Mat d Rat) (t c : Vec d Rat) : Arr Rat :=
  Arr.ofFn a.shape (fun idx => rigidLinear a rinv t c (vecOfList d (ratIdx idx)))

/-- `Σ_x a[x]` -/
def mass (a : Arr Rat) : Rat := (allIdx a.shape).foldl (fun acc idx => acc + a.getD idx 0) 0

/-- `Σ_x x_ax · a[x]`: the first moment along axis `ax` (centre of mass times mass) -/
def moment (a : Arr Rat) (ax : Nat) : Rat :=
  (allIdx a.shape).foldl (fun acc idx => acc + ((idx.getD ax 0 : Nat) : Rat) * a.getD idx 0) 0

end Pm.C06
