/-!
Shared, import-free vocabulary of the executable model (DESIGN.md §5).
Everything here is total and computable; proofs live in `PytmeModel/Proofs` and
`PytmeModel/Props` and may import single Mathlib modules.
-/
namespace Pm

/-- `Σ_{i<n} f i` by structural recursion. -/
def sumRange {α} [Add α] [Zero α] (n : Nat) (f : Nat → α) : α :=
  match n with
  | 0 => 0
  | k+1 => sumRange k f + f k

/-- ceil division (Python: `int(np.ceil(N / k))` on integers). -/
def cdiv (N k : Nat) : Nat := (N + k - 1) / k

/-- number of elements of a shape -/
def prodL : List Nat → Nat
  | [] => 1
  | s :: ss => s * prodL ss

/-- row-major flat index of `idx` in `shape`. -/
def flatIdx : List Nat → List Nat → Nat
  | _ :: ss, i :: is => i * prodL ss + flatIdx ss is
  | _, _ => 0

/-- inverse of `flatIdx`: the multi-index of flat position `k`. -/
def unflat : List Nat → Nat → List Nat
  | [], _ => []
  | _ :: ss, k => (k / prodL ss) :: unflat ss (k % prodL ss)

/-- `idx` addresses an element of an array of shape `shape`. -/
def inShape : List Nat → List Nat → Bool
  | [], [] => true
  | s :: ss, i :: is => decide (i < s) && inShape ss is
  | _, _ => false

/-- all multi-indices of a shape in row-major order -/
def allIdx (shape : List Nat) : List (List Nat) :=
  (List.range (prodL shape)).map (unflat shape)

/-- dense row-major n-D array -/
structure Arr (α : Type) where
  shape : List Nat
  data : Array α

namespace Arr
variable {α : Type}

def ofFn (shape : List Nat) (f : List Nat → α) : Arr α :=
  ⟨shape, Array.ofFn (n := prodL shape) (fun k => f (unflat shape k.val))⟩

/-- read with a default outside the shape (`0` is the zero-extension the properties speak of) -/
def getD (a : Arr α) (idx : List Nat) (d : α) : α :=
  if inShape a.shape idx then a.data.getD (flatIdx a.shape idx) d else d

/-- read at a signed multi-index; anything out of range yields `d` -/
def getI (a : Arr α) (idx : List Int) (d : α) : α :=
  if idx.all (fun i => decide (0 ≤ i)) then a.getD (idx.map Int.toNat) d else d

def toList (a : Arr α) : List α := a.data.toList

def map {β : Type} (f : α → β) (a : Arr α) : Arr β := ⟨a.shape, a.data.map f⟩

end Arr

/-- numpy `mode="reflect"` source index for a (possibly out of range) position. -/
def reflectIdx (n : Nat) (i : Int) : Nat :=
  if n ≤ 1 then 0 else
  let P : Int := 2 * ((n : Int) - 1)
  let j := i % P
  if j < n then j.toNat else (P - j).toNat

/-- numpy roll: `out[(i + s) mod N] = in[i]`, i.e. `out[i] = in[(i - s) mod N]` -/
def rollSrc (N : Nat) (s : Int) (i : Nat) : Nat := (((i : Int) - s) % (N : Int)).toNat

end Pm
