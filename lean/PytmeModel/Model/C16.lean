import PytmeModel.Model.Common
/-!
C16 — a failing worker fails the whole search; no shared memory is left behind.

Control-flow model of `tme/matching_exhaustive.py`:

* `handler`      = `device_memory_handler` (`sys.exc_info()` on entry, `try: with SharedMemoryManager()`,
                   `except Exception` → capture, `finally` → `_handle_traceback` re-raises `Exception(value)`);
* `scanP`        = the body of `scan` as program points / allocations in program order
                   (`to_backend`, the user's template / target filters (`Compose`), setup, `template_filter`,
                   analyzer instances, `Parallel` over the rotation chunks of `_split_rotations_on_jobs`,
                   `_postprocess` per returned analyzer, `merge`); every single `to_sharedarr` is a program
                   point of its own (creating a segment can fail: `/dev/shm` exhausted);
* `runPool`      = `joblib.Parallel(n_jobs)`: tasks complete in a schedule-chosen order, the first failure
                   aborts the pool; tasks still in flight are killed (`Policy.kill`, what loky does:
                   `terminate(kill_workers=True)`) or allowed to finish (`Policy.drain`);
* `scanSubsets`  = `scan_subsets`: tiles × `subset_by_slice` in the parent, one decorated `scan` per tile;
* `World`        = the ledger of live shared-memory segments (`/dev/shm/psm_*`) with their owning manager,
                   the trace of program points reached, and a version stamp of the caller's arrays.

A fault plan is the list of program points at which an `Exception` is raised.
-/
namespace Pm.C16

inductive Phase
  | subset | toBackend | setupPre | setupPost | analyzerInit | scoreEntry | rotate | callback
  | postprocess | merge | outerMerge
  | filter     -- a user filter of `matching_data.template_filter` (idx 0) / `target_filter` (idx 1) is applied
  | alloc      -- the idx-th `be.to_sharedarr(arr, shared_memory_handler)` of this tile's `scan`
  | collect    -- `tuple(callback._postprocess(...))`: the idx-th analyzer's `__iter__` copies its results out
deriving DecidableEq, Repr, Inhabited

/-- a program point: phase × tile × index (rotation index for `rotate`/`callback`, first rotation of the
chunk for `scoreEntry`, instance / job number for `analyzerInit` / `postprocess`, which filter for `filter`,
serial number of the allocation inside its `scan` for `alloc`, job number for `collect`, else 0) -/
structure Pos where
  phase : Phase
  tile : Nat
  idx : Nat
deriving DecidableEq, Repr, Inhabited

abbrev Plan := List Pos

inductive Exc
  | fault (p : Pos)      -- the injected failure (any `Exception` subclass)
  | badArg               -- `n_jobs = 0`: joblib's ValueError / ZeroDivisionError of the chunking
  | ambient              -- the exception the caller was handling when it called `scan`
  | wrapped (e : Exc)    -- `raise Exception(last_value)` of `_handle_traceback`
deriving DecidableEq, Repr, Inhabited

/-- the original cause below the `Exception(...)` wrappers -/
def Exc.root : Exc → Exc
  | .wrapped e => e.root
  | e => e

def Exc.wraps : Exc → Nat
  | .wrapped e => e.wraps + 1
  | _ => 0

/-- a shared-memory segment: the manager that tracks it (`none` = created by
`shared_memory.SharedMemory(create=True)` outside any manager) and a serial number -/
structure Seg where
  mgr : Option Nat
  serial : Nat
deriving DecidableEq, Repr, Inhabited

structure World where
  live : List Seg := []
  nalloc : Nat := 0
  trace : List Pos := []
  inputs : Nat := 0
deriving Repr, Inhabited

inductive Step
  | point (p : Pos)
  | alloc (n : Nat)        -- n × `be.to_sharedarr(arr, shared_memory_handler)`
  | write (priv : Bool)    -- in-place write into the arrays `MatchingData` holds (private copy or the caller's)
  | fail (e : Exc)
deriving DecidableEq, Repr, Inhabited

/-- `to_sharedarr`: through the manager when the handler is one, else an untracked segment -/
def allocSegs (mgr : Option Nat) (n : Nat) (w : World) : World :=
  { w with live := w.live ++ (List.range n).map (fun i => ⟨mgr, w.nalloc + i⟩), nalloc := w.nalloc + n }

def step (plan : Plan) (mgr : Option Nat) : Step → World → Option Exc × World
  | .point p, w =>
      let w' := { w with trace := w.trace ++ [p] }
      if plan.contains p then (some (.fault p), w') else (none, w')
  | .alloc n, w => (none, allocSegs mgr n w)
  | .write priv, w => (none, if priv then w else { w with inputs := w.inputs + 1 })
  | .fail e, w => (some e, w)

/-- straight-line code: stops at the first raise -/
def execSteps (plan : Plan) (mgr : Option Nat) : List Step → World → Option Exc × World
  | [], w => (none, w)
  | s :: ss, w =>
    match step plan mgr s w with
    | (none, w') => execSteps plan mgr ss w'
    | (some e, w') => (some e, w')

/-- does this step raise under the plan (independent of the world) -/
def Step.bad (plan : Plan) : Step → Bool
  | .point p => plan.contains p
  | .fail _ => true
  | _ => false

def Step.pts : Step → List Pos
  | .point p => [p]
  | _ => []

def ptsOf (ss : List Step) : List Pos := ss.flatMap Step.pts

/-! ## worker pool -/

/-- take element `i` (clamped) out of the non-empty list `x :: xs` -/
def extract {α : Type} : Nat → α → List α → α × List α
  | 0, x, xs => (x, xs)
  | _ + 1, x, [] => (x, [])
  | i + 1, x, y :: ys => let r := extract i y ys; (r.1, x :: r.2)

/-- the order in which the tasks complete, as chosen by the schedule (`picks`): always a permutation -/
def pickOrder {α : Type} : List Nat → List α → List α
  | _, [] => []
  | [], xs => xs
  | k :: ks, x :: xs =>
      let r := extract (k % (xs.length + 1)) x xs
      r.1 :: pickOrder ks r.2

/-- how many other tasks can be in flight when a task fails: none on joblib's sequential path, else up to
`njobs` (the failing worker may already have fetched its next task before the parent tears the pool down) -/
def inFlight (njobs : Nat) : Nat := if njobs ≤ 1 then 0 else njobs

/-- `joblib.Parallel(n_jobs = njobs)` over tasks listed in completion order.  `full` runs a task to its
end, `part` is what a task still in flight has done when the pool is torn down (tasks not yet started
never start). -/
def runPool {τ : Type} (full : τ → World → Option Exc × World) (part : τ → World → World)
    (njobs : Nat) : List τ → World → Option Exc × World
  | [], w => (none, w)
  | t :: rest, w =>
    match full t w with
    | (none, w') => runPool full part njobs rest w'
    | (some e, w') => (some e, (rest.take (inFlight njobs)).foldl (fun w s => part s w) w')

/-- n_jobs = 1 is joblib's sequential path: submission order, whatever the schedule says -/
def poolOrder {α : Type} (njobs : Nat) (picks : List Nat) (tasks : List α) : List α :=
  if njobs ≤ 1 then tasks else pickOrder picks tasks

def enumFrom {α : Type} : Nat → List α → List (Nat × α)
  | _, [] => []
  | n, x :: xs => (n, x) :: enumFrom (n + 1) xs

/-! ## `scan` -/

structure Cfg where
  ntiles : Nat        -- number of (target split × template split) pairs
  nrot : Nat          -- number of rotations
  outer : Nat         -- job_schedule[0]
  inner : Nat         -- job_schedule[1] = n_jobs of scan
  hasCb : Bool        -- callback_class is not None
  shared : Bool       -- getattr(callback_class, "shared", True)
  jpc : Nat           -- jobs_per_callback_class
  setupSegs : Nat     -- segments the setup function allocates
  cbSegs : Nat        -- segments one analyzer instance allocates when constructed
  postSegs : Nat      -- segments one analyzer allocates in _postprocess
  copies : Bool       -- conversion to the backend copies the arrays (`attr_value.copy()`)
  tfilter : Bool := false   -- `matching_data.template_filter` is a `Compose`
  gfilter : Bool := false   -- `matching_data.target_filter` is a `Compose`
deriving Repr, Inhabited

/-- `n_callback_classes = max(n_jobs // jobs_per_callback_class, 1)` with `jobs_per_callback_class = 1`
for shared analyzers -/
def nCallbackClasses (cfg : Cfg) : Nat := max (cfg.inner / (if cfg.shared then 1 else cfg.jpc)) 1

/-- `_split_rotations_on_jobs`: global rotation indices of job `j` out of `n` -/
def chunk (R n j : Nat) : List Nat :=
  let per := R / n
  let lo := j * per
  let hi := if j + 1 = n then R else lo + per
  (List.range (hi - lo)).map (· + lo)

def rotSteps (cfg : Cfg) (t g : Nat) : List Step :=
  .point ⟨.rotate, t, g⟩ :: (if cfg.hasCb then [.point ⟨.callback, t, g⟩] else [])

/-- one call of the scoring function (`corr_scoring`, `flc_scoring`, `mcc_scoring`) -/
def jobSteps (cfg : Cfg) (t j : Nat) : List Step :=
  let c := chunk cfg.nrot cfg.inner j
  .point ⟨.scoreEntry, t, c.headD cfg.nrot⟩ :: c.flatMap (rotSteps cfg t)

/-- `n` consecutive `be.to_sharedarr(arr, shared_memory_handler)` calls, the first one being allocation
number `k0` of this `scan`: each is a program point (it raises when the segment cannot be created) followed
by the segment -/
def allocSteps (t k0 n : Nat) : List Step :=
  (List.range n).flatMap (fun i => [.point ⟨.alloc, t, k0 + i⟩, .alloc 1])

/-- `_setup_template_filter_apply_target_filter`: the template filter is evaluated first, then the target filter -/
def filterSteps (cfg : Cfg) (t : Nat) : List Step :=
  (if cfg.tfilter then [.point ⟨.filter, t, 0⟩] else []) ++ (if cfg.gfilter then [.point ⟨.filter, t, 1⟩] else [])

def initSteps (cfg : Cfg) (t k : Nat) : List Step :=
  .point ⟨.analyzerInit, t, k⟩ :: allocSteps t (cfg.setupSegs + 1 + k * cfg.cbSegs) cfg.cbSegs

def preSteps (cfg : Cfg) (t : Nat) : List Step :=
  (.point ⟨.toBackend, t, 0⟩ :: filterSteps cfg t) ++
  ([.point ⟨.setupPre, t, 0⟩, .write cfg.copies] ++ allocSteps t 0 cfg.setupSegs ++
   (.point ⟨.setupPost, t, 0⟩ :: allocSteps t cfg.setupSegs 1)) ++
  (if cfg.hasCb then (List.range (nCallbackClasses cfg)).flatMap (initSteps cfg t) else [])

/-- number of the first allocation made after the pool of scoring jobs -/
def postBase (cfg : Cfg) : Nat :=
  cfg.setupSegs + 1 + (if cfg.hasCb then nCallbackClasses cfg * cfg.cbSegs else 0)

def postJobSteps (cfg : Cfg) (t j : Nat) : List Step :=
  (.point ⟨.postprocess, t, j⟩ :: allocSteps t (postBase cfg + j * cfg.postSegs) cfg.postSegs) ++
  [.point ⟨.collect, t, j⟩]

def postSteps (cfg : Cfg) (t : Nat) : List Step :=
  if cfg.hasCb then (List.range cfg.inner).flatMap (postJobSteps cfg t) ++ [.point ⟨.merge, t, 0⟩] else []

def jobsOf (cfg : Cfg) (t : Nat) : List (Nat × List Step) :=
  enumFrom 0 ((List.range cfg.inner).map (jobSteps cfg t))

/-- schedule of one `scan`: completion order of its jobs, and how far jobs in flight got when a sibling failed -/
structure TileSched where
  picks : List Nat := []
  jobKill : List Nat := []
deriving Repr, Inhabited

def jobFull (plan : Plan) (t : Nat) (j : Nat × List Step) (w : World) : Option Exc × World :=
  execSteps plan (some t) j.2 w

def jobPart (plan : Plan) (t : Nat) (ts : TileSched) (j : Nat × List Step) (w : World) : World :=
  (execSteps plan (some t) (j.2.take (ts.jobKill.getD j.1 0)) w).2

/-- body of `scan` for tile `t` (everything inside `with SharedMemoryManager() as smh`) -/
def scanBody (cfg : Cfg) (plan : Plan) (ts : TileSched) (t : Nat) (w : World) : Option Exc × World :=
  match execSteps plan (some t) (preSteps cfg t) w with
  | (some e, w1) => (some e, w1)
  | (none, w1) =>
    if cfg.inner = 0 then (some .badArg, w1) else
    match runPool (jobFull plan t) (jobPart plan t ts) cfg.inner
            (poolOrder cfg.inner ts.picks (jobsOf cfg t)) w1 with
    | (some e, w2) => (some e, w2)
    | (none, w2) => execSteps plan (some t) (postSteps cfg t) w2

/-- `SharedMemoryManager.__exit__`: every segment the manager tracks is unlinked -/
def release (id : Nat) (w : World) : World :=
  { w with live := w.live.filter (fun s => s.mgr != some id) }

/-- `device_memory_handler` -/
def handler (ambient : Option Exc) (id : Nat) (body : World → Option Exc × World) (w : World) :
    Option Exc × World :=
  let r := body w                 -- try: with SharedMemoryManager() as smh: func(...)
  let w2 := release id r.2        -- the `with` block is left, normally or not
  match r.1 with
  | some e => (some (.wrapped e), w2)          -- except Exception → captured; finally → raise Exception(value)
  | none =>
    match ambient with
    | some a => (some (.wrapped a), w2)        -- exc_info read on entry is re-raised after a *successful* run
    | none => (none, w2)

/-- `scan(...)` called directly (tile 0) -/
def scanDirect (cfg : Cfg) (plan : Plan) (ambient : Option Exc) (ts : TileSched) (w : World) :
    Option Exc × World :=
  handler ambient 0 (scanBody cfg plan ts 0) w

/-! ## `scan_subsets` -/

inductive Policy | kill | drain
deriving DecidableEq, Repr, Inhabited

/-- how far a tile in flight got when the pool was torn down: a prefix of its (sequentialised) steps;
`exited` = its manager still got to run `__exit__` -/
structure Progress where
  steps : Nat := 0
  exited : Bool := false
deriving Repr, Inhabited

structure Sched where
  outerPicks : List Nat := []
  tiles : List TileSched := []
  progress : List Progress := []
deriving Repr, Inhabited

def flatSteps (cfg : Cfg) (t : Nat) : List Step :=
  preSteps cfg t ++ (jobsOf cfg t).flatMap (·.2) ++ postSteps cfg t

/-- in workers `sys.exc_info()` is empty; with `outer = 1` the tiles run in the caller's thread -/
def ambientFor (cfg : Cfg) (ambient : Option Exc) : Option Exc := if cfg.outer = 1 then ambient else none

def tileFull (cfg : Cfg) (plan : Plan) (ambient : Option Exc) (sch : Sched) (t : Nat) (w : World) :
    Option Exc × World :=
  -- parent: matching_data.subset_by_slice(...) while dispatching the task
  match execSteps plan none [.point ⟨.subset, t, 0⟩] w with
  | (some e, w1) => (some e, w1)
  | (none, w1) => handler (ambientFor cfg ambient) t (scanBody cfg plan (sch.tiles.getD t {}) t) w1

def tilePart (cfg : Cfg) (plan : Plan) (ambient : Option Exc) (pol : Policy) (sch : Sched) (t : Nat)
    (w : World) : World :=
  match pol with
  | .drain => (tileFull cfg plan ambient sch t w).2
  | .kill =>
    let pr := sch.progress.getD t {}
    let w1 := (execSteps plan none [.point ⟨.subset, t, 0⟩] w).2
    let w2 := (execSteps plan (some t) ((flatSteps cfg t).take pr.steps) w1).2
    if pr.exited then release t w2 else w2

def outerPost (cfg : Cfg) : List Step := if cfg.hasCb then [.point ⟨.outerMerge, 0, 0⟩] else []

def scanSubsets (cfg : Cfg) (plan : Plan) (ambient : Option Exc) (pol : Policy) (sch : Sched) (w : World) :
    Option Exc × World :=
  if cfg.outer = 0 then (some .badArg, w) else
  match runPool (tileFull cfg plan ambient sch) (tilePart cfg plan ambient pol sch) cfg.outer
          (poolOrder cfg.outer sch.outerPicks (List.range cfg.ntiles)) w with
  | (some e, w1) => (some e, w1)
  | (none, w1) => execSteps plan none (outerPost cfg) w1

/-- every program point of a fault-free run, in sequential program order -/
def allPoints (cfg : Cfg) : List Pos :=
  (List.range cfg.ntiles).flatMap (fun t => ⟨.subset, t, 0⟩ :: ptsOf (flatSteps cfg t)) ++ ptsOf (outerPost cfg)

def scanPoints (cfg : Cfg) : List Pos := ptsOf (flatSteps cfg 0)

end Pm.C16
