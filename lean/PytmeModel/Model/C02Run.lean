import PytmeModel.Model.C02
import PytmeModel.Model.C04
/-!
C02 — the run of `scan_subsets` on top of the job enumeration (`Pm.C02.enumJobs`) and of C04's analyzer / `merge` model:
every rotation chunk of a job is aggregated by an analyzer of its own (`Pm.C04.run`), `scan` merges its analyzers
(`callback_class.merge(callbacks, …)`), `scan_subsets` merges the `scan` results in job order
(`callback_class.merge(results, …)`, entries may be `None`, single-entry shortcut on the raw list length).
Imports model files only (no Mathlib): the compiled driver runs these functions.
-/
namespace Pm.C02
open Pm.C04

/-- what the scoring function emits (score array in the job's cropped frame, rotation key) for a rotation, given
the slices of the job — a function: the array for a rotation does not depend on the rotations scored before it
(`history_free`) -/
abbrev ScoreFn (R K : Type) := List (Nat × Nat) → List (Nat × Nat) → R → Arr Int × K

/-- the analyzers of one `scan` call: one per rotation chunk, all with the job's offset and cropped shape -/
def jobTiles {R K : Type} (score : ScoreFn R K) (J : Job R) : List (Tile K) :=
  J.chunks.map (fun c => ⟨J.offset, J.outShape, c.map (score J.targetSlice J.templateSlice)⟩)

/-- the return value of `scan`: `callback_class.merge(callbacks, …)` -/
def scanJob {R K : Type} [DecidableEq K] (thr : Int) (score : ScoreFn R K) (J : Job R) : Option (Store K) :=
  merge thr ((jobTiles score J).map (tileStore thr))

/-- the return value of `scan_subsets`: `callback_class.merge(results, …)` over the jobs in order -/
def scanSubsetsRun {R K : Type} [DecidableEq K] (thr : Int) (score : ScoreFn R K) (jobs : List (Job R)) : Option (Store K) :=
  mergeOpt thr (jobs.map (scanJob thr score))

end Pm.C02
