import PytmeModel.Model.Common
import PytmeModel.Model.C18
/-!
C18 — the pure decision logic of the two command-line scripts (`scripts/postprocess.py`, `scripts/match_template.py`):
what the glue between argument parsing, the library calls and the result file decides, as executable functions.
Every function here is run by the driver and compared with the script's own function called in-process.
-/
namespace Pm.C18

/-! ## postprocess.py -/

def maxL : List Nat → Nat
  | [] => 0
  | x :: xs => max x (maxL xs)

/-- `if args.mask_edges and args.min_boundary_distance == 0: args.min_boundary_distance = np.ceil(max(template.shape) / 2)` -/
def effDist (maskEdges : Bool) (d : Nat) (tshape : List Nat) : Nat :=
  if maskEdges && d == 0 then (maxL tshape + 1) / 2 else d

/-- a voxel is at least `d` away from both faces of every axis (`keptAt` on each axis; lengths must agree) -/
def inWindow (d : Nat) : List Nat → List Nat → Bool
  | [], [] => true
  | n :: ns, x :: xs => keptAt d n x && inWindow d ns xs
  | _, _ => false

/-- distance of a voxel to the nearest face of the score map (min over axes of `min x (n - 1 - x)`); `none` without axes -/
def borderDist : List Nat → List Nat → Option Nat
  | [n], [x] => some (min x (n - 1 - x))
  | n :: ns, x :: xs => (borderDist ns xs).map (min (min x (n - 1 - x)))
  | _, _ => none

/-- `--minimum_score` / `--maximum_score` (both inclusive, either may be absent) -/
def inRange (lo hi : Option Int) (s : Int) : Bool :=
  (match lo with | none => true | some l => decide (l ≤ s)) &&
  (match hi with | none => true | some h => decide (s ≤ h))

/-- a voxel of the score map (scores in exact units: the harness uses dyadic values, scaled to integers) -/
structure Vox where
  pos : List Nat
  score : Int
deriving Repr, DecidableEq

/-- the values the voxel list carries: the stored scores, multiplied by the `--target_mask` when there is one -/
def maskedVals (scores : List Int) (mask : Option (List Int)) : List Int :=
  match mask with
  | none => scores
  | some m => List.zipWith (· * ·) scores m

/-- the voxel list of a C-ordered score map, multiplied by the optional `--target_mask` -/
def voxOf (shape : List Nat) (scores : List Int) (mask : Option (List Int)) : List Vox :=
  List.zipWith Vox.mk (allIdx shape) (maskedVals scores mask)

/-- `centered_mask(scores.copy(), shape - 2 d)` when `d > 0`: everything outside the window becomes 0 -/
def maskVox (d : Nat) (shape : List Nat) (v : Vox) : Vox :=
  if 0 < d && !(inWindow d shape v.pos) then { v with score := 0 } else v

def insertDesc (v : Vox) : List Vox → List Vox
  | [] => [v]
  | w :: ws => if w.score < v.score then v :: w :: ws else w :: insertDesc v ws

/-- descending by score, stable -/
def sortDesc : List Vox → List Vox
  | [] => []
  | v :: vs => insertDesc v (sortDesc vs)

/-- the peak caller's own filters (`PeakCaller.__call__`): boundary distance (skipped when 0), score range -/
def survive (d : Nat) (shape : List Nat) (lo hi : Option Int) (v : Vox) : Bool :=
  (d == 0 || inWindow d shape v.pos) && inRange lo hi v.score

/-- the survivors of a score map irrespective of any limit on their number -/
def survivors (d : Nat) (shape : List Nat) (lo hi : Option Int) (vox : List Vox) : List Vox :=
  (vox.map (maskVox d shape)).filter (survive d shape lo hi)

/-- score-map branch of `postprocess.main` with `--peak_caller PeakCallerSort --min_distance 0`: mask, take the `k` best voxels
(`call_peaks`: before any filter), then the boundary and score filters -/
def ppCall (k d : Nat) (shape : List Nat) (lo hi : Option Int) (vox : List Vox) : List Vox :=
  ((sortDesc (vox.map (maskVox d shape))).take k).filter (survive d shape lo hi)

/-- the score filter `postprocess.main` applies to the orientation list (`orientations[scores >= min]`, then `<= max`);
the only filter a peak-list result sees -/
def scoreFilter (lo hi : Option Int) (l : List Vox) : List Vox := l.filter (fun v => inRange lo hi v.score)

/-- what `postprocess.main` writes for a score-map result -/
def ppMain (k d : Nat) (shape : List Nat) (lo hi : Option Int) (vox : List Vox) : List Vox :=
  scoreFilter lo hi (ppCall k d shape lo hi vox)

def int64Max : Nat := 9223372036854775807

/-- `parse_args`: with `--minimum_score` or `--n_false_positives` the limit is lifted, otherwise 1000 unless given -/
def ppNumberOfPeaks (hasMin hasNfp : Bool) (n : Option Nat) : Nat :=
  if hasMin || hasNfp then int64Max else match n with
    | none => 1000
    | some n => n

/-- `args.background_file` as a list (`None` becomes `[None]`) -/
def bgList (bg : Option (List String)) : List (Option String) :=
  match bg with
  | none => [none]
  | some l => l.map some

/-- `parse_args`: `--background_file` absent, given once (used for every input) or once per input -/
def ppBackground (bg : Option (List String)) (nInputs : Nat) : Except String (List (Option String)) :=
  match bgList bg with
  | [x] => .ok (List.replicate nInputs x)
  | l => if l.length == 0 || l.length == nInputs then .ok l else .error "ValueError"

/-- `args.subtomogram_box_size += args.subtomogram_box_size % 2` (output format relion) -/
def relionBox (n : Nat) : Nat := n + n % 2

/-! ## the result tuple: one definition for writer (`match_template.main`) and reader (`postprocess.main`) -/

inductive Member where
  | scores | offset | rotations | rotationMapping      -- MaxScoreOverRotations
  | translations | peakRotations | peakScores | details -- peak callers
  | info                                                -- (target origin, template origin, sampling rate, args)
deriving Repr, DecidableEq

/-- what `match_template.main` hands to `write_pickle`: the analyzer's tuple, then `candidates.append(meta)` -/
def writerLayout (peakCalling : Bool) : List Member :=
  let analyzer : List Member := if peakCalling then [.translations, .peakRotations, .peakScores, .details]
    else [.scores, .offset, .rotations, .rotationMapping]
  analyzer ++ [.info]

/-- `ndim` of a member for a `D`-dimensional target (`none`: not an array) -/
def memberNdim (D : Nat) : Member → Option Nat
  | .scores => some D
  | .offset => some 1
  | .rotations => some D
  | .rotationMapping => none
  | .translations => some 2
  | .peakRotations => some 3
  | .peakScores => some 1
  | .details => some 1
  | .info => none

/-- `postprocess.main`: `data[0].ndim == data[2].ndim` decides "output is MaxScoreOverRotations" -/
def readerIsScoreMap (D : Nat) (data : List Member) : Bool :=
  match data[0]?, data[2]? with
  | some a, some b => memberNdim D a == memberNdim D b
  | _, _ => false

/-- the names `postprocess.main` gives to the positions (`scores, offset, rotation_array, rotation_mapping, meta = data`;
`translation, rotation, *_ = data`, `candidates[0], candidates[2], candidates[3]`, `data[-1]`) -/
def readerNames (isScoreMap : Bool) : List Member :=
  if isScoreMap then [.scores, .offset, .rotations, .rotationMapping, .info]
  else [.translations, .peakRotations, .peakScores, .details, .info]

/-! ## match_template.py -/

/-- the rotation options (angles in 1/1000 degree) -/
structure RotArgs where
  angular : Option Int
  noOptimized : Bool
  coneAngle : Option Int
  coneSampling : Option Int
  axisAngle : Int
  axisSampling : Option Int
  axisSymmetry : Int
deriving Repr, DecidableEq

/-- which rotation set `parse_rotation_logic` produces -/
inductive RotPlan where
  /-- `-a >= 180`: the identity alone (the grid sampler is still called first, its result discarded) -/
  | identity (angular : Int) (optimized : Bool)
  /-- `get_rotation_matrices(angular_sampling, dim, use_optimized_set)` -/
  | grid (angular : Int) (optimized : Bool)
  /-- `get_rotations_around_vector(cone_angle, cone_sampling, axis_angle, axis_sampling, n_symmetry)` -/
  | cone (coneAngle coneSampling : Option Int) (axisAngle : Int) (axisSampling : Option Int) (nSym : Int)
deriving Repr, DecidableEq

def optOr (a b : Option Int) : Option Int :=
  match a with
  | some x => some x
  | none => b

def rotPlan (a : RotArgs) : RotPlan :=
  match a.angular with
  | some s => if 180000 ≤ s then .identity s (!a.noOptimized) else .grid s (!a.noOptimized)
  | none => .cone a.coneAngle a.coneSampling a.axisAngle (optOr a.axisSampling a.coneSampling) a.axisSymmetry

/-- the side effect of `parse_rotation_logic` on its namespace (`args.axis_sampling = args.cone_sampling`) -/
def rotArgsAfter (a : RotArgs) : RotArgs :=
  match a.angular with
  | some _ => a
  | none => { a with axisSampling := optOr a.axisSampling a.coneSampling }

/-- one call of `compute_parallelization_schedule`: `shape2` (template box) and `shape1_padding` -/
structure SchedCall where
  box : List Nat
  padding : List Nat
deriving Repr, DecidableEq

/-- the library's answer: splits per axis and (outer jobs, inner cores); `none` = "no suitable schedule" -/
abbrev SchedAns := Option (List Nat × (Nat × Nat))

structure SchedOut where
  calls : List SchedCall
  result : SchedAns          -- `none`: the script exits with -1
  padEdgesAfter : Bool       -- `args.pad_edges` when `compute_schedule` returns
deriving Repr, DecidableEq

def zerosLike (l : List Nat) : List Nat := l.map (fun _ => 0)

def schedCall (tmpl : List Nat) (padFourier padEdges : Bool) : SchedCall :=
  let box := if padFourier then tmpl else zerosLike tmpl
  ⟨box, if padEdges then tmpl else zerosLike box⟩

/-- `compute_schedule`: a first call with the user's `--pad_edges`; when that splits the target and the edges were not padded,
`args.pad_edges` is switched on and the schedule is computed once more with the padding -/
def scheduleOn (cps : SchedCall → SchedAns) (tmpl : List Nat) (padFourier argPadEdges : Bool) (first : SchedAns) : SchedOut :=
  match first with
  | none => ⟨[schedCall tmpl padFourier argPadEdges], none, argPadEdges⟩
  | some (splits, sch) =>
    if !argPadEdges && 1 < prodL splits then
      ⟨[schedCall tmpl padFourier argPadEdges, schedCall tmpl padFourier true], cps (schedCall tmpl padFourier true), true⟩
    else ⟨[schedCall tmpl padFourier argPadEdges], some (splits, sch), argPadEdges⟩

def schedule (cps : SchedCall → SchedAns) (tmpl : List Nat) (padFourier argPadEdges : Bool) : SchedOut :=
  scheduleOn cps tmpl padFourier argPadEdges (cps (schedCall tmpl padFourier argPadEdges))

/-- `numpy.allclose(a, b)` (rtol 1e-5, atol 1e-8) for one pair of values given in units of `1/scale` -/
def closeQ (scale : Nat) (a b : Int) : Bool :=
  decide ((a - b).natAbs * 100000000 ≤ scale + 1000 * b.natAbs)

def all2 (p : Int → Int → Bool) : List Int → List Int → Bool
  | x :: xs, y :: ys => p x y && all2 p xs ys
  | _, _ => true

/-- `numpy.allclose` on two 1-D sequences with numpy's broadcasting (`none`: "operands could not be broadcast") -/
def allcloseL (scale : Nat) (a b : List Int) : Option Bool :=
  if a.length == b.length then some (all2 (closeQ scale) a b)
  else match a, b with
    | [x], _ => some (b.all (closeQ scale x))
    | _, [y] => some (a.all (fun x => closeQ scale x y))
    | _, _ => none

/-- `numpy.round(x, 2)` of a value given in 1/1000: round half to even, result in 1/100 -/
def roundCenti (milli : Int) : Int :=
  let q := milli / 10
  let r := milli % 10
  if r < 5 then q else if 5 < r then q + 1 else if q % 2 == 0 then q else q + 1

inductive MaskCheck where
  | noMask | ok | shapeMismatch | samplingMismatch | broadcastError
deriving Repr, DecidableEq

/-- `load_and_validate_mask`: no path - `None`; shape first, then the sampling rate rounded to two decimals -/
def maskCheck (hasPath : Bool) (mShape tShape : List Int) (mRateMilli tRateMilli : List Int) : MaskCheck :=
  if !hasPath then .noMask else
  match allcloseL 1 mShape tShape with
  | none => .broadcastError
  | some false => .shapeMismatch
  | some true =>
    match allcloseL 100 (mRateMilli.map roundCenti) (tRateMilli.map roundCenti) with
    | none => .broadcastError
    | some false => .samplingMismatch
    | some true => .ok

inductive ArgCheck where
  | ok | needWedgeAxes | tiltNeitherFileNorRange | needTiltAngles
deriving Repr, DecidableEq

/-- the cross-option checks at the end of `match_template.parse_args` (in the order of the code) -/
def mtValidate (hasTilt tiltIsFile tiltIsNumber hasWedgeAxes hasCtf : Bool) : ArgCheck :=
  if hasTilt && !hasWedgeAxes then .needWedgeAxes
  else if hasTilt && !tiltIsFile && !tiltIsNumber then .tiltNeitherFileNorRange
  else if hasCtf && !hasTilt then .needTiltAngles
  else .ok

/-- `if args.interpolation_order < 0: args.interpolation_order = None` -/
def mtInterpolation (o : Int) : Option Int := if o < 0 then none else some o

/-- what `match_template.main` passes on for the padding / centring flags: `scan_subsets(pad_target_edges, pad_fourier,
pad_template_filter)`, whether the template is centred, and the analyzer's `min_distance = max(template.shape) // 3`
(`tmpl`: the template box `MatchingData` reports, `tshape`: the shape of the - possibly centred - template) -/
structure ScanFlags where
  padTargetEdges : Bool
  padFourier : Bool
  padTemplateFilter : Bool
  centre : Bool
  minDistance : Nat
deriving Repr, DecidableEq

def scanFlags (padEdges padFourier padFilter noCentering : Bool) (cps : SchedCall → SchedAns) (tmpl tshape : List Nat) : ScanFlags :=
  ⟨(schedule cps tmpl padFourier padEdges).padEdgesAfter, padFourier, padFilter, !noCentering, maxL tshape / 3⟩

/-- `callback_class`: score aggregation unless `-p` -/
def callbackName (peakCalling : Bool) : String :=
  if peakCalling then "PeakCallerMaximumFilter" else "MaxScoreOverRotations"

/-- `if callback_class == MaxScoreOverRotations: if target_mask is not None and args.score != "MCC": scores *= target_mask` -/
def maskApplied (peakCalling hasTargetMask isMCC : Bool) : Bool := !peakCalling && hasTargetMask && !isMCC

/-! ## backend selection in `match_template.main` -/

/-- the backends the options admit: CPU `numpyfftw, pytorch, jax, mlx`, with `--use_gpu` `pytorch, cupy, jax`; mixed precision
only with `cupy` / `numpyfftw` -/
def beSelection (useGpu mixed : Bool) : List String :=
  let sel := if useGpu then ["pytorch", "cupy", "jax"] else ["numpyfftw", "pytorch", "jax", "mlx"]
  if mixed then sel.filter (fun x => x == "cupy" || x == "numpyfftw") else sel

def bePreference (useGpu : Bool) : List String :=
  if useGpu then ["cupy", "pytorch", "jax"] else ["numpyfftw", "pytorch", "jax", "mlx"]

inductive BackendChoice where
  /-- `--backend` names a backend that is not importable (argparse / `ValueError`) -/
  | rejected
  /-- no admissible backend: the loop over the preferences falls through, the backend stays what it was -/
  | unchanged
  /-- `be.change_backend(name)` (`device` for pytorch) -/
  | chosen (name : String) (device : Option String)
deriving Repr, DecidableEq

def candidateBackends (available : List String) (req : Option String) (useGpu mixed peakCalling : Bool) : Option (List String) :=
  let av0 : Option (List String) := match req with
    | some r => if available.contains r then some [r] else none
    | none => some available
  av0.map fun av =>
    let av := av.filter (beSelection useGpu mixed).contains
    if peakCalling then
      let av := av.filter (· != "jax")
      if useGpu && av.contains "pytorch" then ["pytorch"] else av
    else av

def selectBackend (available : List String) (req : Option String) (useGpu mixed peakCalling : Bool) : BackendChoice :=
  match candidateBackends available req useGpu mixed peakCalling with
  | none => .rejected
  | some av =>
    match (bePreference useGpu).find? av.contains with
    | none => .unchanged
    | some p => .chosen p (if p == "pytorch" then some (if useGpu then "cuda" else "cpu") else none)

/-- `if pref == "pytorch" and args.interpolation_order == 3: args.interpolation_order = 1` (after `mtInterpolation`) -/
def backendInterpolation (c : BackendChoice) (o : Option Int) : Option Int :=
  match c with
  | .chosen "pytorch" _ => if o == some 3 then some 1 else o
  | _ => o

/-! ## background subtraction (`postprocess.load_match_template_output`) -/

/-- a normalised score: a fraction `num / den` (`den > 0`), or `+inf` (numpy's answer to a positive numerator over zero) -/
inductive BgVal where
  | fin (num : Int) (den : Nat)
  | inf
deriving Repr, DecidableEq

/-- `data[0] = (fg - bg) / (1 - bg)`, then `np.fmax(data[0], 0)`, for one voxel with `fg = a/b`, `bg = c/e` (`b, e > 0`):
the quotient is `(a e - c b) / (b (e - c))`; where `bg = 1` numpy yields `inf` / `-inf` / `nan`, of which `fmax(., 0)` keeps
`inf` and turns the others into 0 -/
def bgNorm (fg bg : Int × Nat) : BgVal :=
  let num : Int := fg.1 * bg.2 - bg.1 * fg.2
  let den : Int := fg.2 * ((bg.2 : Int) - bg.1)
  if den == 0 then (if 0 < num then .inf else .fin 0 1)
  else if den < 0 then (if 0 ≤ num then .fin 0 1 else .fin (-num) (-den).toNat)
  else (if num ≤ 0 then .fin 0 1 else .fin num den.toNat)

/-! ## merging several results (`postprocess.merge_outputs`, the loop; the score normalisation it calls is not part of it) -/

/-- `indices = new_scores > data[0]; entities[indices] = index + 1; data[0][indices] = new_scores[indices]` for one voxel -/
def mergeStep (cur : Int × Nat) (new : Int) (label : Nat) : Int × Nat :=
  if cur.1 < new then (new, label) else cur

def mergeVoxelFrom (cur : Int × Nat) (label : Nat) : List Int → Int × Nat
  | [] => cur
  | x :: xs => mergeVoxelFrom (mergeStep cur x label) (label + 1) xs

/-- one voxel through the loop: it starts from the first input's value with entity 0, then every input (the first one again
included) is compared in the order of the command line, input `i` carrying the label `i + 1` -/
def mergeVoxel (all : List Int) : Int × Nat :=
  match all with
  | [] => (0, 0)
  | first :: _ => mergeVoxelFrom (first, 0) 1 all

end Pm.C18
