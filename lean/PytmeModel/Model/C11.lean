import PytmeModel.Model.Common
/-!
C11 — orientation tables: text / RELION STAR / Dynamo writers and readers, index-based
subsetting, extraction windows.

Mirrors `tme/orientations.py` (after the `fix:` commits of this property):
`Orientations._to_text/_from_text`, `_to_relion_star/_parse_star/_from_relion_star`,
`_to_dynamo_tbl/_from_tbl`, `__post_init__` (shape validation), `__getitem__`, `copy`, `__iter__`,
`get_extraction_slices` (float → int picks, windows, `keep_peaks`, the returned subset), and the format selection
of `to_file` / `from_file` (by name or inferred from the file name).

Text is modelled as `List Char` (what `infile.read()` returns), numbers travel as the *tokens*
`str(np.float32)` / `str(np.float64)` produced by numpy: printing a float and parsing the token
back is numpy's (trusted, exercised by the harness on the real code).
-/
namespace Pm.C11

abbrev Str := List Char

/-! ## Python string primitives -/

/-- `str.isspace()` for one character (the set used by `strip()`, `split()` and `\s`) -/
def isWs (c : Char) : Bool :=
  let n := c.toNat
  (9 ≤ n && n ≤ 13) || (28 ≤ n && n ≤ 32) || n == 0x85 || n == 0xa0 || n == 0x1680 ||
  (0x2000 ≤ n && n ≤ 0x200a) || n == 0x2028 || n == 0x2029 || n == 0x202f || n == 0x205f ||
  n == 0x3000

/-- split at every character satisfying `p` (`"".split(sep) = [""]`) -/
def splitBy (p : Char → Bool) : Str → List Str
  | [] => [[]]
  | c :: cs =>
    if p c then [] :: splitBy p cs
    else match splitBy p cs with
      | [] => [[c]]
      | t :: ts => (c :: t) :: ts

/-- `s.split(sep)` for a one-character separator -/
def splitOn (sep : Char) (s : Str) : List Str := splitBy (· == sep) s

/-- `s.split()` : runs of non-whitespace -/
def splitWs (s : Str) : List Str := (splitBy isWs s).filter (fun t => !t.isEmpty)

/-- `sep.join(parts)` -/
def joinSep (sep : Char) : List Str → Str
  | [] => []
  | [t] => t
  | t :: t' :: ts => t ++ sep :: joinSep sep (t' :: ts)

def lstrip (s : Str) : Str := s.dropWhile isWs
def rstrip (s : Str) : Str := (s.reverse.dropWhile isWs).reverse
/-- `s.strip()` -/
def strip (s : Str) : Str := rstrip (lstrip s)

/-- `p in s` (substring test; the empty string is in every string) -/
def isInfix (p : Str) : Str → Bool
  | [] => p.isEmpty
  | c :: cs => p.isPrefixOf (c :: cs) || isInfix p cs

/-- `s.replace(p, "")` for non-empty `p` (left to right, non-overlapping); the `Nat` counts the
characters of a match still to be skipped -/
def removeAux (p : Str) : Nat → Str → Str
  | _, [] => []
  | k+1, _ :: cs => removeAux p k cs
  | 0, c :: cs => if p.isPrefixOf (c :: cs) then removeAux p (p.length - 1) cs else c :: removeAux p 0 cs
def removeAll (p s : Str) : Str := if p.isEmpty then s else removeAux p 0 s

/-- lexicographic comparison by code point (Python `str.__lt__`) -/
def strLt : Str → Str → Bool
  | _, [] => false
  | [], _ :: _ => true
  | a :: as, b :: bs => a.toNat < b.toNat || (a.toNat == b.toNat && strLt as bs)

/-- insert for a stable *descending* sort: `x` precedes every element already present,
so it goes in front of the first element whose key is not larger -/
def insertDesc (x : Str × Nat) : List (Str × Nat) → List (Str × Nat)
  | [] => [x]
  | y :: ys => if strLt x.1 y.1 then y :: insertDesc x ys else x :: y :: ys

/-- `sorted(zip(names, range(len(names))), key=lambda x: x[0], reverse=True)` -/
def sortDesc (l : List (Str × Nat)) : List (Str × Nat) := l.foldr insertDesc []

/-- positions `0..` attached to names -/
def withPos (names : List Str) : List (Str × Nat) := names.zip (List.range names.length)

/-- the `sort_order` tuple -/
def sortOrder (names : List Str) : List Nat := (sortDesc (withPos names)).map (·.2)

inductive Err | valueError | indexError | keyError
deriving DecidableEq, Repr

def Err.name : Err → String
  | .valueError => "ValueError" | .indexError => "IndexError" | .keyError => "KeyError"

/-- `row[..., order]` for one row -/
def pick (row : List Str) (order : List Nat) : Except Err (List Str) :=
  order.mapM (fun i => match row[i]? with | some t => pure t | none => throw .indexError)

/-! ## text format -/

def alphabet : Str :=
  ['a','b','c','d','e','f','g','h','i','j','k','l','m','n','o','p','q','r','s','t','u','v','w','x','y','z']
/-- `ascii_lowercase[::-1]` -/
def naming : Str :=
  ['z','y','x','w','v','u','t','s','r','q','p','o','n','m','l','k','j','i','h','g','f','e','d','c','b','a']

def eulerS : Str := ['e','u','l','e','r']
def eulerPrefix : Str := ['e','u','l','e','r','_']
def scoreS : Str := ['s','c','o','r','e']
def detailS : Str := ['d','e','t','a','i','l']

/-- `x in ascii_lowercase` -/
def isTransName (h : Str) : Bool := isInfix h alphabet
/-- `"euler" in x` -/
def isEulerName (h : Str) : Bool := isInfix eulerS h
/-- `"euler" in x and x.replace("euler_", "") in ascii_lowercase` -/
def isSortedEulerName (h : Str) : Bool := isEulerName h && isTransName (removeAll eulerPrefix h)

def transNames (d : Nat) : List Str := (naming.take d).map (fun c => [c])
def eulerNames (r : Nat) : List Str := (naming.take r).map (fun c => eulerPrefix ++ [c])

/-- header written by `_to_text` for `d` translation and `r` angle columns -/
def textHeader (d r : Nat) : List Str := transNames d ++ eulerNames r ++ [scoreS, detailS]

/-- one orientation as tokens -/
structure Row where
  trans : List Str
  rot : List Str
  score : Str
  detail : Str
deriving DecidableEq, Repr

def Row.tokens (row : Row) : List Str := row.trans ++ row.rot ++ [row.score, row.detail]

/-- lines each terminated by a newline -/
def renderLines (sep : Char) (table : List (List Str)) : Str :=
  table.flatMap (fun toks => joinSep sep toks ++ ['\n'])

/-- `_to_text` -/
def writeText (d r : Nat) (rows : List Row) : Str :=
  renderLines '\t' (textHeader d r :: rows.map Row.tokens)

/-- `[x.strip().split(sep) for x in text.split("\n")]` -/
def parseLines (sep : Char) (text : Str) : List (List Str) :=
  (splitOn '\n' text).map (fun l => splitOn sep (strip l))

/-- `tuple(candidate[i] for i, x in enumerate(header) if pred(x))` -/
def selectCols (pred : Str → Bool) : List Str → List Str → Except Err (List Str)
  | [], _ => pure []
  | h :: hs, [] => if pred h then throw .indexError else selectCols pred hs []
  | h :: hs, c :: cs =>
    if pred h then do let rest ← selectCols pred hs cs; pure (c :: rest)
    else selectCols pred hs cs

/-- what `_from_text` returns, as tokens (`0.0` / `-1.0` for the float defaults) -/
structure Table where
  trans : List (List Str)
  transCols : Nat
  rot : List (List Str)
  rotCols : Nat
  score : List Str
  detail : List Str
deriving DecidableEq, Repr

def zeroTok : Str := ['0','.','0']
def minusOneTok : Str := ['-','1','.','0']

def readRow (header cand : List Str) : Except Err Row := do
  let t ← selectCols isTransName header cand
  let r ← selectCols isEulerName header cand
  pure ⟨t, r, cand.getD (cand.length - 2) [], cand.getD (cand.length - 1) []⟩

/-- `_from_text` on the parsed lines (`header :: data`) -/
def readTable (header : List Str) (data : List (List Str)) : Except Err Table := do
  let rows ← (data.filter (fun c => decide (1 < c.length))).mapM (readRow header)
  let n := rows.length
  let nT := (header.filter isTransName).length
  let nR := (header.filter isEulerName).length
  let onlyTrans := nT == header.length
  let rot0 : List (List Str) × Nat :=
    if onlyTrans then (List.replicate n (List.replicate nT zeroTok), nT) else (rows.map (·.rot), nR)
  let score := if onlyTrans then List.replicate n zeroTok else rows.map (·.score)
  let detail := if onlyTrans then List.replicate n minusOneTok else rows.map (·.detail)
  let rot1 : List (List Str) × Nat :=
    if n * rot0.2 == 0 && n != 0 then (List.replicate n (List.replicate nT zeroTok), nT) else rot0
  let tOrder := sortOrder (header.filter isTransName)
  let rOrder := sortOrder (header.filter isSortedEulerName)
  let trans ← (rows.map (·.trans)).mapM (pick · tOrder)
  -- numpy checks the column index against the axis length even when there are no rows
  if rOrder.any (fun i => decide (rot1.2 ≤ i)) then throw .indexError
  let rot ← rot1.1.mapM (pick · rOrder)
  pure ⟨trans, tOrder.length, rot, rOrder.length, score, detail⟩

/-- `_from_text` -/
def readText (text : Str) : Except Err Table :=
  match parseLines '\t' text with
  | [] => throw .indexError
  | header :: data => readTable header data

/-- the reader before `fix: text orientation reader accepts files without data rows`:
`np.vstack([])` raises -/
def readTextOld (text : Str) : Except Err Table :=
  match parseLines '\t' text with
  | [] => throw .indexError
  | header :: data =>
    if (data.filter (fun c => decide (1 < c.length))).isEmpty then throw .valueError
    else readTable header data

/-- the table `_from_text` is expected to give back for written rows -/
def Table.ofRows (d r : Nat) (rows : List Row) : Table :=
  ⟨rows.map (·.trans), d, rows.map (·.rot), r, rows.map (·.score), rows.map (·.detail)⟩

/-! ## Dynamo table -/

def tok (s : String) : Str := s.toList

def t0 : Str := ['0']
def t1 : Str := ['1']
def t3 : Str := ['3']

/-- the 38 columns written by `_to_dynamo_tbl` (`ang` = Euler angles after conversion) -/
def tblTokens (index : Str) (ang trans : List Str) (score sampling : Str) : List Str :=
  [index, t1, t0, t0, t0, t0] ++ ang ++ [score, score, t0, t0,
   ['-','9','0'], ['9','0'], ['-','6','0'], ['6','0'], t0, t0, t0, t0, t0, t0] ++
  trans.reverse ++ [t0, t0, t0, t0, t0, t0, t0, t0, sampling, t3, t0, t0]

structure TblRow where
  index : Str
  ang : List Str
  trans : List Str
  score : Str
deriving DecidableEq, Repr

def TblRow.tokens (sampling : Str) (r : TblRow) : List Str := tblTokens r.index r.ang r.trans r.score sampling

/-- `_to_dynamo_tbl` -/
def writeTbl (sampling : Str) (rows : List TblRow) : Str :=
  renderLines ' ' (rows.map (TblRow.tokens sampling))

/-- `_to_dynamo_tbl(filename, name_prefix, sampling_rate, subtomogram_size)` with all its keyword arguments:
`name_prefix` and `subtomogram_size` are accepted and never reach the table -/
def writeTblOpts (_namePrefix : Option Str) (sampling : Str) (_size : Option Str) (rows : List TblRow) : Str :=
  writeTbl sampling rows

/-- what `_from_tbl` extracts from one row: angles 6,7,8; score 9; translation 25,24,23 -/
structure TblOut where
  trans : List Str
  ang : List Str
  score : Str
deriving DecidableEq, Repr

def getTok (peak : List Str) (i : Nat) : Except Err Str :=
  match peak[i]? with | some t => pure t | none => throw .indexError

def readTblRow (peak : List Str) : Except Err TblOut := do
  let a6 ← getTok peak 6; let a7 ← getTok peak 7; let a8 ← getTok peak 8
  let s ← getTok peak 9
  let z ← getTok peak 25; let y ← getTok peak 24; let x ← getTok peak 23
  pure ⟨[z, y, x], [a6, a7, a8], s⟩

/-- `_from_tbl` -/
def readTbl (text : Str) : Except Err (List TblOut) :=
  let data := ((splitOn '\n' text).filter (fun l => !(strip l).isEmpty)).map (fun l => splitOn ' ' (strip l))
  match data with
  | [] => pure []
  | first :: _ => if first.length != 38 then throw .valueError else data.mapM readTblRow

/-! ## RELION STAR -/

def opticsHeader : List Str := [
  ['#',' ','v','e','r','s','i','o','n',' ','3','0','0','0','1'], ['d','a','t','a','_','o','p','t','i','c','s'], [], ['l','o','o','p','_'], ['_','r','l','n','O','p','t','i','c','s','G','r','o','u','p'],
  ['_','r','l','n','O','p','t','i','c','s','G','r','o','u','p','N','a','m','e'], ['_','r','l','n','S','p','h','e','r','i','c','a','l','A','b','e','r','r','a','t','i','o','n'], ['_','r','l','n','V','o','l','t','a','g','e'], ['_','r','l','n','I','m','a','g','e','S','i','z','e'],
  ['_','r','l','n','I','m','a','g','e','D','i','m','e','n','s','i','o','n','a','l','i','t','y'], ['_','r','l','n','I','m','a','g','e','P','i','x','e','l','S','i','z','e']]

def cX : Str := ['_','r','l','n','C','o','o','r','d','i','n','a','t','e','X']
def cY : Str := ['_','r','l','n','C','o','o','r','d','i','n','a','t','e','Y']
def cZ : Str := ['_','r','l','n','C','o','o','r','d','i','n','a','t','e','Z']
def cRot : Str := ['_','r','l','n','A','n','g','l','e','R','o','t']
def cTilt : Str := ['_','r','l','n','A','n','g','l','e','T','i','l','t']
def cPsi : Str := ['_','r','l','n','A','n','g','l','e','P','s','i']
def cOptics : Str := ['_','r','l','n','O','p','t','i','c','s','G','r','o','u','p']
def dataParticles : Str := ['d','a','t','a','_','p','a','r','t','i','c','l','e','s']

/-- `name` argument: absent, one string for all rows, or one per row -/
inductive NameArg
  | none
  | single (s : Str)
  | many (l : List Str)
deriving DecidableEq, Repr

def NameArg.column : NameArg → Option Str
  | .none => Option.none
  | .single _ => some (['_','r','l','n','M','i','c','r','o','g','r','a','p','h','N','a','m','e'])
  | .many _ => some (['_','r','l','n','I','m','a','g','e','N','a','m','e'])

def NameArg.at : NameArg → Nat → Except Err (Option Str)
  | .none, _ => pure Option.none
  | .single s, _ => pure (some s)
  | .many l, i => match l[i]? with | some s => pure (some s) | Option.none => throw .indexError

def particleHeader (name : NameArg) (ctf : Option Str) : List Str :=
  [dataParticles, [], ['l','o','o','p','_'], cX, cY, cZ] ++ name.column.toList ++ [cRot, cTilt, cPsi, cOptics] ++
  (match ctf with | some _ => [['_','r','l','n','C','t','f','I','m','a','g','e']] | Option.none => [])

structure StarRow where
  trans : List Str      -- zyx order, as stored
  ang : List Str        -- after conversion to the file's convention
deriving DecidableEq, Repr

/-- one particle line: `f"{translation}{name}\t{angles}\t1{ctf}\n"` without the newline -/
def starLine (r : StarRow) (name : Option Str) (ctf : Option Str) : Str :=
  joinSep '\t' r.trans.reverse ++ (match name with | some s => '\t' :: s | Option.none => []) ++
  '\t' :: joinSep '\t' r.ang ++ ['\t', '1'] ++ (match ctf with | some s => '\t' :: s | Option.none => [])

def starLines (name : NameArg) (ctf : Option Str) : Nat → List StarRow → Except Err (List Str)
  | _, [] => pure []
  | i, r :: rs => do
    let nm ← name.at i
    let rest ← starLines name ctf (i + 1) rs
    pure (starLine r nm ctf :: rest)

/-- `_to_relion_star` (`size` = `str(int(subtomogram_size))`, `sampling` = `str(float(sampling_rate))`) -/
def writeStar (size sampling : Str) (name : NameArg) (ctf : Option Str) (rows : List StarRow) :
    Except Err Str := do
  let body ← starLines name ctf 0 rows
  let optics := joinSep '\t' [t1, ['o','p','t','i','c','s','G','r','o','u','p','1'], ['2','.','7','0','0','0','0','0'], ['3','0','0','.','0','0','0','0','0','0'], size, t3, sampling]
  pure ((opticsHeader ++ [optics] ++ [[], ['#',' ','v','e','r','s','i','o','n',' ','3','0','0','0','1']] ++ particleHeader name ctf ++ body).flatMap
    (fun l => l ++ ['\n']))

/-- `re.sub(r"\s*#.*", "", x)` -/
def stripComment (s : Str) : Str :=
  if s.contains '#' then rstrip (s.takeWhile (· != '#')) else s

abbrev Dict := List (Str × List Str)

def Dict.set (d : Dict) (k : Str) (v : List Str) : Dict :=
  if d.any (·.1 == k) then d.map (fun e => if e.1 == k then (k, v) else e) else d ++ [(k, v)]

abbrev Cats := List (Str × Dict)

def Cats.get? (c : Cats) (k : Str) : Option Dict := (c.find? (·.1 == k)).map (·.2)
def Cats.set (c : Cats) (k : Str) (v : Dict) : Cats :=
  if c.any (·.1 == k) then c.map (fun e => if e.1 == k then (k, v) else e) else c ++ [(k, v)]

/-- `zip(*block)` : columns, truncated to the shortest row -/
def transpose (block : List (List Str)) : List (List Str) :=
  match block with
  | [] => []
  | _ =>
    let w := block.foldl (fun m r => min m r.length) (block.headD []).length
    (List.range w).map (fun j => block.map (fun r => r.getD j []))

/-- `{header: list(column) for header, column in zip(headers, columns)}` -/
def buildDict (headers : List Str) (cols : List (List Str)) : Dict :=
  (headers.zip cols).foldl (fun d hc => Dict.set d hc.1 hc.2) []

def flushMid (d : Dict) (block : List (List Str)) : Dict :=
  buildDict (d.map (fun e => stripComment e.1)) (transpose block)

/-- final flush (after `fix: STAR reader returns empty columns …`) -/
def flushEnd (d : Dict) (block : List (List Str)) : Dict :=
  let headers := d.map (fun e => stripComment e.1)
  buildDict headers (if block.isEmpty then List.replicate headers.length [] else transpose block)

structure PState where
  ret : Cats
  category : Option Str
  block : List (List Str)

def startsWith (p s : Str) : Bool := p.isPrefixOf s

def splitLine (delim : Option Char) (line : Str) : List Str :=
  match delim with
  | Option.none => splitWs line
  | some c => splitOn c line

def parseStep (delim : Option Char) (st : PState) (line : Str) : Except Err PState :=
  if startsWith ['d','a','t','a'] line then
    let (ret, block) :=
      match st.category with
      | some cat =>
        if cat != line then
          match st.ret.get? cat with
          | some d => (st.ret.set cat (flushMid d st.block), [])
          | Option.none => (st.ret, st.block)   -- unreachable: the current category is always present
        else (st.ret, st.block)
      | Option.none => (st.ret, st.block)
    let ret := if (ret.get? line).isSome then ret else ret.set line []
    pure ⟨ret, some line, block⟩
  else if startsWith ['_'] line then
    match st.category with
    | Option.none => throw .keyError
    | some cat =>
      match st.ret.get? cat with
      | Option.none => throw .keyError
      | some d => pure { st with ret := st.ret.set cat (Dict.set d line []) }
  else if startsWith ['l','o','o','p'] line then pure st
  else
    let sp := splitLine delim line
    pure (if sp.isEmpty then st else { st with block := st.block ++ [sp] })

def parseFold (delim : Option Char) : PState → List Str → Except Err PState
  | st, [] => pure st
  | st, l :: ls => do let st' ← parseStep delim st l; parseFold delim st' ls

/-- `_parse_star` -/
def parseStar (delim : Option Char) (text : Str) : Except Err Cats := do
  let lines := (splitOn '\n' text).filter (fun l => match l with | [] => false | c :: _ => c != '#')
  let st ← parseFold delim ⟨[], Option.none, []⟩ lines
  match st.category with
  | Option.none => throw .keyError
  | some cat =>
    match st.ret.get? cat with
    | Option.none => throw .keyError
    | some d => pure (st.ret.set cat (flushEnd d st.block))

def Dict.col (d : Dict) (k : Str) : Except Err (List Str) :=
  match d.find? (·.1 == k) with | some e => pure e.2 | Option.none => throw .keyError

structure StarOut where
  trans : List (List Str)   -- columns Z, Y, X
  ang : List (List Str)     -- columns Rot, Tilt, Psi
deriving DecidableEq, Repr

/-- `ret.get("data_particles")` of the parsed file -/
def particles (delim : Option Char) (text : Str) : Except Err Dict := do
  let cats ← parseStar delim text
  match cats.get? dataParticles with
  | Option.none => throw .valueError
  | some d => pure d

/-- the three coordinate columns in z, y, x order (converted to numbers before the angles are looked at) -/
def Dict.transCols (d : Dict) : Except Err (List (List Str)) := do
  let z ← d.col cZ; let y ← d.col cY; let x ← d.col cX
  pure [z, y, x]

def Dict.angCols (d : Dict) : Except Err (List (List Str)) := do
  let a ← d.col cRot; let b ← d.col cTilt; let c ← d.col cPsi
  pure [a, b, c]

/-- `_from_relion_star` up to the numeric conversion: the three coordinate columns in z, y, x order
and the three angle columns -/
def readStar (delim : Option Char) (text : Str) : Except Err StarOut := do
  let d ← particles delim text
  pure ⟨← d.transCols, ← d.angCols⟩

/-! ## index-based subsetting (`__getitem__`) -/

/-- numpy integer-array indexing of an axis of length `n` -/
def normIndex (n : Nat) (i : Int) : Except Err Nat :=
  if 0 ≤ i ∧ i < n then pure i.toNat
  else if i < 0 ∧ -(n : Int) ≤ i then pure (i + n).toNat
  else throw .indexError

def takeIdx {α : Type} (l : List α) (idx : List Int) : Except Err (List α) :=
  idx.mapM (fun i => do
    let k ← normIndex l.length i
    match l[k]? with | some x => pure x | Option.none => throw .indexError)

/-- rows where the mask is true -/
def maskSel {α : Type} : List α → List Bool → List α
  | x :: xs, b :: bs => if b then x :: maskSel xs bs else maskSel xs bs
  | _, _ => []

/-- numpy boolean-array indexing: the mask must have the length of the axis — except that numpy
accepts a mask of length 0 on any axis (it selects nothing) -/
def takeMask {α : Type} (l : List α) (mask : List Bool) : Except Err (List α) :=
  if mask.length != l.length && !mask.isEmpty then throw .indexError else pure (maskSel l mask)

/-- the four arrays of an `Orientations` object -/
structure Orient (τ ρ σ δ : Type) where
  translations : List τ
  rotations : List ρ
  scores : List σ
  details : List δ
deriving DecidableEq

def Orient.getIdx {τ ρ σ δ : Type} (o : Orient τ ρ σ δ) (idx : List Int) : Except Err (Orient τ ρ σ δ) := do
  pure ⟨← takeIdx o.translations idx, ← takeIdx o.rotations idx, ← takeIdx o.scores idx, ← takeIdx o.details idx⟩

def Orient.getMask {τ ρ σ δ : Type} (o : Orient τ ρ σ δ) (m : List Bool) : Except Err (Orient τ ρ σ δ) := do
  pure ⟨← takeMask o.translations m, ← takeMask o.rotations m, ← takeMask o.scores m, ← takeMask o.details m⟩

/-! ## extraction windows (`get_extraction_slices`), one axis -/

/-- `np.divide(extraction_shape, 2).astype(int)` -/
def rightPad (e : Nat) : Int := ((e / 2 : Nat) : Int)
/-- `right_pad + extraction_shape % 2` -/
def leftPad (e : Nat) : Int := rightPad e + ((e % 2 : Nat) : Int)

def obsBeg (e : Nat) (p : Int) : Int := max (p - leftPad e) 0
def obsEnd (T e : Nat) (p : Int) : Int := min (p + rightPad e) T
def candBeg (e : Nat) (p : Int) : Int := leftPad e - (p - obsBeg e p)
def candEnd (T e : Nat) (p : Int) : Int := leftPad e + (obsEnd T e p - p)

/-- the per-axis test of `keep_peaks` -/
def keepAxis (T e : Nat) (p : Int) : Bool :=
  candBeg e p == 0 && candEnd T e p - e == 0

/-- one pick, all axes: `(cand_beg, cand_end, obs_beg, obs_end)` per axis -/
def windowAxes : List Nat → List Nat → List Int → List (Int × Int × Int × Int)
  | T :: Ts, e :: es, p :: ps => (candBeg e p, candEnd T e p, obsBeg e p, obsEnd T e p) :: windowAxes Ts es ps
  | _, _, _ => []

def keepPick : List Nat → List Nat → List Int → Bool
  | T :: Ts, e :: es, p :: ps => keepAxis T e p && keepPick Ts es ps
  | _, _, _ => true

/-- all picks; with `drop` only the kept ones (their positions are returned as well) -/
def extraction (T e : List Nat) (peaks : List (List Int)) (drop : Bool) :
    List (Nat × List (Int × Int × Int × Int)) :=
  ((List.range peaks.length).zip peaks).filterMap (fun (i, p) =>
    if !drop || keepPick T e p then some (i, windowAxes T e p) else none)

/-- `peaks = self.translations.astype(int)` for one finite coordinate `m * 2^e` (a float32 is such a value with
`|m| < 2^24`): C conversion, truncation towards zero -/
def truncPick (m e : Int) : Int :=
  if 0 ≤ e then m * 2 ^ e.toNat else Int.tdiv m (2 ^ (-e).toNat)

/-- all coordinates of all picks -/
def truncPeaks (ts : List (List (Int × Int))) : List (List Int) :=
  ts.map (fun row => row.map (fun x => truncPick x.1 x.2))

/-- the boolean array `keep_peaks` of `get_extraction_slices` (every pick when nothing is dropped) -/
def keepMask (T e : List Nat) (peaks : List (List Int)) (drop : Bool) : List Bool :=
  peaks.map (fun p => !drop || keepPick T e p)

/-- `subset = self[keep_peaks]`: the rows of the orientation set returned next to the slices -/
def extractionSubset {τ ρ σ δ : Type} (o : Orient τ ρ σ δ) (T e : List Nat) (peaks : List (List Int)) (drop : Bool) :
    Except Err (Orient τ ρ σ δ) :=
  o.getMask (keepMask T e peaks drop)

/-- `np.arange(self.scores.size)` -/
def arange (n : Nat) : List Int := (List.range n).map Int.ofNat

/-- `copy()` : `self[np.arange(self.scores.size)]` -/
def Orient.copy {τ ρ σ δ : Type} (o : Orient τ ρ σ δ) : Except Err (Orient τ ρ σ δ) :=
  o.getIdx (arange o.scores.length)

/-- `len(list(iter(self)))` : `zip` of the four arrays stops at the shortest -/
def Orient.iterRows {τ ρ σ δ : Type} (o : Orient τ ρ σ δ) : List (τ × ρ × σ × δ) :=
  o.translations.zip (o.rotations.zip (o.scores.zip o.details))

/-! ## constructor validation (`__post_init__`) -/

/-- `__post_init__` on the *shapes* of the four arrays (what `np.array(x).astype(np.float32).shape` gives):
`shape[0]` of a 0-d array is an `IndexError` (raised while the set of row counts is built, before any other test),
unequal row counts, then `translations.ndim != 2`, then `rotations.ndim != 2` are `ValueError`s; the rank of
`scores` / `details` is not looked at -/
def postInit (t r s d : List Nat) : Except Err Unit :=
  match t, r, s, d with
  | nt :: _, nr :: _, ns :: _, nd :: _ =>
    if !(nt == nr && nr == ns && ns == nd) then throw .valueError
    else if t.length != 2 then throw .valueError
    else if r.length != 2 then throw .valueError
    else pure ()
  | _, _, _, _ => throw .indexError

/-! ## format dispatch (`to_file` / `from_file`) -/

/-- the three formats behind `to_file` / `from_file` -/
inductive Fmt | text | relion | dynamo
deriving DecidableEq, Repr

def Fmt.name : Fmt → String
  | .text => "text" | .relion => "relion" | .dynamo => "dynamo"

/-- `str.lower()` for one ASCII character (file names are ASCII in the harness) -/
def lowerChar (c : Char) : Char :=
  if 65 ≤ c.toNat ∧ c.toNat ≤ 90 then Char.ofNat (c.toNat + 32) else c
/-- `s.lower()` -/
def lower (s : Str) : Str := s.map lowerChar

/-- `s.endswith(suf)` -/
def endsWith (s suf : Str) : Bool := suf.reverse.isPrefixOf s.reverse

def extStar : Str := ['.','s','t','a','r']
def extTbl : Str := ['.','t','b','l']
def nmText : Str := ['t','e','x','t']
def nmRelion : Str := ['r','e','l','i','o','n']
def nmDynamo : Str := ['d','y','n','a','m','o']
def nmTbl : Str := ['t','b','l']

/-- the format both `to_file` and `from_file` infer from the file name when none is given -/
def inferFmt (fname : Str) : Fmt :=
  if endsWith (lower fname) extStar then .relion
  else if endsWith (lower fname) extTbl then .dynamo
  else .text

/-- `to_file`: which writer runs (`mapping.get(file_format)`, `ValueError` for unknown names) -/
def writeFmt (fname : Str) : Option Str → Except Err Fmt
  | Option.none => pure (inferFmt fname)
  | some nm =>
    if nm == nmText then pure .text else if nm == nmRelion then pure .relion
    else if nm == nmDynamo then pure .dynamo else throw .valueError

/-- `from_file`: which reader runs (after `fix: from_file accepts the documented format name
"dynamo"`; the historical key `"tbl"` is still accepted) -/
def readFmt (fname : Str) : Option Str → Except Err Fmt
  | Option.none => pure (inferFmt fname)
  | some nm =>
    if nm == nmText then pure .text else if nm == nmRelion then pure .relion
    else if nm == nmDynamo || nm == nmTbl then pure .dynamo else throw .valueError

/-- `from_file` before that fix: the documented name `"dynamo"` was not a key of its mapping -/
def readFmtOld (fname : Str) : Option Str → Except Err Fmt
  | Option.none => pure (inferFmt fname)
  | some nm =>
    if nm == nmText then pure .text else if nm == nmRelion then pure .relion
    else if nm == nmTbl then pure .dynamo else throw .valueError

end Pm.C11
