import PytmeModel.Model.Common
/-!
C03 — the per-voxel update of `NumpyFFTWBackend.max_score_over_rotations` (and of the strict comparison in
`MaxScoreOverRotations.merge`) as a fold over the submissions of one voxel.

`indices = scores > max_scores; max_scores[indices] = scores[indices]; rotations[indices] = rotation_index`

Values are integers (ranks of the scores: the comparison is the only operation applied to them), a submission
is `(value, rotation id)`, the stored state of a voxel is `(best value so far, id that produced it)`; the
analyzer starts every voxel at `(score_threshold, -1)`.
-/
namespace Pm.C03

/-- one submission at one voxel: strict improvement replaces value and rotation id, anything else keeps both -/
def strictStep (cur : Int × Int) (s : Int × Int) : Int × Int :=
  if s.1 > cur.1 then s else cur

/-- all submissions of one voxel, in the order in which the rotations are scored -/
def strictFold (thr : Int) (subs : List (Int × Int)) : Int × Int :=
  subs.foldl strictStep (thr, -1)

/-- the same for a whole map: `maps[r]` is the score array of rotation `ids[r]`, voxel `k` reads `maps[r][k]` -/
def strictFoldMaps (thr : Int) (size : Nat) (ids : List Int) (maps : List (List Int)) : List (Int × Int) :=
  (List.range size).map (fun k => strictFold thr ((maps.zip ids).map (fun (m, i) => (m.getD k thr, i))))

end Pm.C03
