import PytmeModel.Model.Common
/-!
C17 — refinement scores (scratch-state machines), the `optimize_match` wrapper and the
Kabsch alignment wrapper.

Mirrors (tme/matching_optimization.py, as repaired by the `fix:` commits of C17):
* `_format_rigid_transform`, `score_translation`, `score_angles`           → `formatPose`, `poseOf…`
* `_MatchDensityToDensity.score` window arithmetic                         → `flcWindow` (+ `flcWindowOld`)
* `_MatchDensityToDensity.score / rotate_array / FLC.__call__` buffers      → `d2dStep` (+ `d2dStepOld`)
* `_MatchCoordinatesToDensity.score`, `_MatchCoordinatesToCoordinates.score`,
  `CrossCorrelation.__call__`, `NormalizedCrossCorrelation.__call__`        → `c2dStep`
* `optimize_match` (bounds assembly, decision after the optimiser)          → `effBounds`, `optimizeWrap`
* `Structure.align_structures` (everything around `numpy.linalg.svd`)       → `kabschRotation`, `alignAll`
* `matching_utils.rigid_transform` (coordinate branch)                      → `rigidCoords`

Numerical kernels (matmul, `map_coordinates`, the score formulas, scipy optimisers, SVD) enter
as *parameters*; the model fixes which buffer is written from what and read by whom.
-/
namespace Pm.C17

/-! ## pose → (translation, angles) -/

/-- `_format_rigid_transform`: `split = len(x) // 2; x[:split], x[split:]` -/
def formatPose {α : Type} (x : List α) : List α × List α :=
  (x.take (x.length / 2), x.drop (x.length / 2))

/-- `score_translation(x) = score((*x, *[0 for _ in x]))` -/
def poseOfTranslation {α : Type} (z : α) (t : List α) : List α := t ++ List.replicate t.length z
/-- `score_angles(x) = score((*[0 for _ in x], *x))` -/
def poseOfAngles {α : Type} (z : α) (a : List α) : List α := List.replicate a.length z ++ a

/-! ## python slices and the density-to-density overlap window -/

/-- python `slice(start, stop)` on an axis of length `n` (negative = from the end, then clipped):
selected indices are `lo ≤ i < hi`. -/
def pySlice (n : Nat) (start stop : Int) : Nat × Nat :=
  let norm (x : Int) : Nat := if x < 0 then (x + n).toNat else min x.toNat n
  let lo := norm start
  let hi := norm stop
  (lo, max lo hi)

def sliceLen (n : Nat) (start stop : Int) : Nat := (pySlice n start stop).2 - (pySlice n start stop).1

/-- `astype(int)` of a translation given as the exact ratio `num/den` of the float -/
def truncRatio (num : Int) (den : Nat) : Int := Int.tdiv num den

/-- per-axis windows: template `[tLo,tHi)`, target `[gLo,gHi)` (as python slice bounds) -/
structure Win where
  tLo : Int
  tHi : Int
  gLo : Int
  gHi : Int
deriving DecidableEq, Repr

/-- `_MatchDensityToDensity.score` after `fix: … window is empty when the template lies outside`:
`n` template extent, `N` target extent, `v` voxel translation. -/
def flcWindow (n N : Nat) (v : Int) : Win :=
  let c : Int := ((n / 2 : Nat) : Int)      -- astype(int) of shape/2
  let rp : Int := (n : Int) - c
  let tc := v + c
  let ts := tc - c
  let te := tc + rp
  let oLo := min (max ts 0) (N : Int)
  let oHi := max (min te (N : Int)) oLo
  { tLo := oLo - ts, tHi := (n : Int) - (te - oHi), gLo := oLo, gHi := oHi }

/-- the pinned code (no clamping: a negative stop is read from the other end by python) -/
def flcWindowOld (n N : Nat) (v : Int) : Win :=
  let c : Int := ((n / 2 : Nat) : Int)
  let rp : Int := (n : Int) - c
  let tc := v + c
  let ts := tc - c
  let te := tc + rp
  { tLo := max ts 0 - ts, tHi := (n : Int) - (te - min te (N : Int)), gLo := max ts 0, gHi := min te (N : Int) }

def windows : List Nat → List Nat → List Int → List Win
  | n :: ns, N :: Ns, v :: vs => flcWindow n N v :: windows ns Ns vs
  | _, _, _ => []

/-- number of template / target voxels a window selects on its axis -/
def Win.tLen (w : Win) (n : Nat) : Nat := sliceLen n w.tLo w.tHi
def Win.gLen (w : Win) (N : Nat) : Nat := sliceLen N w.gLo w.gHi

/-! ## buffers -/

/-- numpy `out=`: the produced values overwrite the leading cells of the buffer -/
def writeOut {α : Type} (buf vals : List α) : List α := vals ++ buf.drop vals.length
/-- `buf.fill(v)` -/
def fillWith {α : Type} (buf : List α) (v : α) : List α := List.replicate buf.length v

/-! ## coordinates → density / coordinates → coordinates score objects -/

/-- which `__call__` the class has -/
inductive CallKind
  | plain        -- CrossCorrelation, LaplaceCrossCorrelation: reads `self.denominator`, never writes it
  | normalised   -- NormalizedCrossCorrelation(+Mean): guard, then writes `self.denominator`, then reads it
  | generic      -- Masked CC, PLSQ, MI, Envelope, Chamfer, NormalVectorScore: reads the buffers only
deriving DecidableEq, Repr

/-- the three families of score objects (which `score` method, hence which step function) -/
inductive Family | c2d | c2c | d2d
deriving DecidableEq, Repr

def familyOf : String → Option Family
  | "c2d" => some .c2d | "c2c" => some .c2c | "d2d" => some .d2d | _ => none

def callKindOf : String → Option CallKind
  | "plain" => some .plain | "normalised" => some .normalised | "generic" => some .generic | _ => none

/-- a registry row as extracted by reflection: (name, family, `__call__` kind) is covered by the model when
its family has a step function and (for the coordinate families) its `__call__` kind is one of the three -/
def rowCovered (row : String × String × String) : Bool :=
  match familyOf row.2.1 with
  | some .d2d => true
  | some _ => (callKindOf row.2.2).isSome
  | none => false

structure C2DStatic (α β : Type) where
  kind : CallKind
  rigid : List α → List α              -- pose ↦ transformed coordinates (`rigid_transform(..., out=)`)
  rigidMask : List α → List α          -- pose ↦ transformed mask coordinates
  interp : List α → List α             -- positions ↦ interpolated target values (new array)
  denomOf : List α → α                 -- ‖weights‖·‖values‖
  denomPos : α → Bool                  -- `denominator > 0`
  one : α                              -- initial `self.denominator`
  final : List α → List α → Option (List α) → α → β   -- formula(values, rotated, mask_rotated, denominator)
  zero : β                             -- early `return 0.0`

structure C2DState (α : Type) where
  rotated : List α                     -- `template_rotated` / `template_coordinates_rotated`
  maskRotated : Option (List α)        -- `template_mask_rotated` (None without mask coordinates)
  targetValues : List α                -- `_target_values`
  denominator : α

/-- one `score(x)` call -/
def c2dStep {α β : Type} (S : C2DStatic α β) (st : C2DState α) (x : List α) : β × C2DState α :=
  let rot := writeOut st.rotated (S.rigid x)
  let mrot := st.maskRotated.map (fun m => writeOut m (S.rigidMask x))
  let tv := S.interp rot
  let st1 : C2DState α := { rotated := rot, maskRotated := mrot, targetValues := tv, denominator := st.denominator }
  match S.kind with
  | .plain => (S.final tv rot mrot st1.denominator, st1)
  | .generic => (S.final tv rot mrot st1.denominator, st1)
  | .normalised =>
      let d := S.denomOf tv
      if S.denomPos d then
        let st2 := { st1 with denominator := d }
        (S.final tv rot mrot st2.denominator, st2)
      else (S.zero, st1)

/-- what a *fresh* object computes for pose `x` (no state) -/
def c2dPure {α β : Type} (S : C2DStatic α β) (hasMask : Bool) (x : List α) : β :=
  let rot := S.rigid x
  let mrot := if hasMask then some (S.rigidMask x) else none
  let tv := S.interp rot
  match S.kind with
  | .plain => S.final tv rot mrot S.one
  | .generic => S.final tv rot mrot S.one
  | .normalised =>
      let d := S.denomOf tv
      if S.denomPos d then S.final tv rot mrot d else S.zero

/-- all values returned along a history of poses -/
def c2dRun {α β : Type} (S : C2DStatic α β) : C2DState α → List (List α) → List β × C2DState α
  | st, [] => ([], st)
  | st, x :: xs =>
      let (v, st') := c2dStep S st x
      let (vs, st'') := c2dRun S st' xs
      (v :: vs, st'')

/-! ## density → density score object (FLC) -/

structure D2DStatic (α β : Type) where
  shape : List Nat                     -- template shape
  targetShape : List Nat
  rotateMask : Bool
  mask0 : List α                       -- initial `template_mask_rot` (= the mask)
  zeroA : α
  mkGrid : List Nat → List α           -- `np.indices(shape) - center`
  affine : List α → List α → List α    -- pose, grid ↦ `Rᵀ·grid + (subvoxel + center)`
  interpT : List α → List α            -- positions ↦ template values
  interpM : List α → List α            -- positions ↦ mask values
  normalize : List α → List α → List α -- `normalize_template(template_rot, mask_rot)` (in place)
  voxel : List α → List Int            -- pose ↦ `astype(int)` of the translation
  final : List α → List α → List Win → β

structure D2DState (α : Type) where
  cache : Option (List Nat × List α)   -- (`_previous_center`, `grid`); none before the first call
  gridOut : List α
  templateRot : List α
  maskRot : List α
  wins : List Win

def centerOf (shape : List Nat) : List Nat := shape.map (· / 2)

/-- the grid part of `rotate_array` for an array of shape `arrShape`: cached grid is reused when the
*centre* is unchanged -/
def gridFor {α β : Type} (S : D2DStatic α β) (st : D2DState α) (arrShape : List Nat) :
    Option (List Nat × List α) × List α × List α :=
  let c := centerOf arrShape
  match st.cache with
  | some (pc, g) =>
      if pc = c then (st.cache, g, st.gridOut)
      else let g' := S.mkGrid arrShape; (some (c, g'), g', fillWith g' S.zeroA)
  | none => let g' := S.mkGrid arrShape; (some (c, g'), g', fillWith g' S.zeroA)

/-- one `score(x)` call of the repaired code -/
def d2dStep {α β : Type} (S : D2DStatic α β) (st : D2DState α) (x : List α) : β × D2DState α :=
  let tr0 := fillWith st.templateRot S.zeroA
  let wins := windows S.shape S.targetShape (S.voxel x)
  let mr0 := if S.rotateMask then fillWith st.maskRot S.zeroA else st.maskRot
  let (cache, grid, go0) := gridFor S st S.shape
  let go := writeOut go0 (S.affine x grid)
  let tr := writeOut tr0 (S.interpT go)
  let mr := if S.rotateMask then writeOut mr0 (S.interpM go) else mr0
  let trn := S.normalize tr mr
  (S.final trn mr wins, { cache := cache, gridOut := go, templateRot := trn, maskRot := mr, wins := wins })

/-- the pinned code: the interpolated mask goes into the *template* buffer -/
def d2dStepOld {α β : Type} (S : D2DStatic α β) (st : D2DState α) (x : List α) : β × D2DState α :=
  let tr0 := fillWith st.templateRot S.zeroA
  let wins := windows S.shape S.targetShape (S.voxel x)
  let mr0 := if S.rotateMask then fillWith st.maskRot S.zeroA else st.maskRot
  let (cache, grid, go0) := gridFor S st S.shape
  let go := writeOut go0 (S.affine x grid)
  let tr := writeOut tr0 (S.interpT go)
  let tr' := if S.rotateMask then writeOut tr (S.interpM go) else tr
  let trn := S.normalize tr' mr0
  (S.final trn mr0 wins, { cache := cache, gridOut := go, templateRot := trn, maskRot := mr0, wins := wins })

def d2dPure {α β : Type} (S : D2DStatic α β) (x : List α) : β :=
  let go := S.affine x (S.mkGrid S.shape)
  let tr := S.interpT go
  let mr := if S.rotateMask then S.interpM go else S.mask0
  S.final (S.normalize tr mr) mr (windows S.shape S.targetShape (S.voxel x))

def d2dRun {α β : Type} (S : D2DStatic α β) : D2DState α → List (List α) → List β × D2DState α
  | st, [] => ([], st)
  | st, x :: xs =>
      let (v, st') := d2dStep S st x
      let (vs, st'') := d2dRun S st' xs
      (v :: vs, st'')

/-! ## optimize_match: bounds assembly and the decision after the optimiser -/

inductive Method | de | basinhopping | minimize
deriving DecidableEq, Repr

abbrev Bound := Int × Int

/-- constants of the code in model units (10⁻⁶): `np.finfo(np.float32).min/.max/.resolution`, 180°, ndim -/
structure Consts where
  fmin : Int
  fmax : Int
  res : Int
  half : Int
  ndim : Nat

/-- the `bounds` list handed to the optimiser (none = unbounded) -/
def effBounds (c : Consts) (m : Method) (bt br : Option (List Bound)) : Option (List Bound) :=
  let dflT := List.replicate c.ndim (c.fmin, c.fmax)
  let bt1 := if m = .de ∧ bt.isNone then some dflT else bt
  let bt2 := if bt1.isNone ∧ br.isSome then some dflT else bt1
  let br1 := if br.isNone ∧ bt2.isSome then some (List.replicate c.ndim (-c.half, c.half)) else br
  match bt2, br1 with
  | some t, some r => some ((t ++ r).map (fun b => if b = (0, 0) then (-c.res, c.res) else b))
  | _, _ => none

def inBound (b : Bound) (v : Int) : Bool := decide (b.1 ≤ v) && decide (v ≤ b.2)

def inBounds : List Bound → List Int → Bool
  | [], [] => true
  | b :: bs, v :: vs => inBound b v && inBounds bs vs
  | _, _ => false

/-- `x0 = zeros(2·ndim) if x0 is None else x0` -/
def startPose (c : Consts) (x0 : Option (List Int)) : List Int :=
  match x0 with
  | some x => x
  | none => List.replicate (2 * c.ndim) 0

/-- decision after the optimiser (repaired): keep the refined pose unless the start scored better,
in which case the start *and its score* are returned.  Scores are minimised. -/
def optimizeWrap (x0 : List Int) (initial : Int) (resX : List Int) (resFun : Int) : List Int × Int :=
  if initial < resFun then (x0, initial) else (resX, resFun)

/-- the pinned code: zeros instead of the start, and the refined (worse) score -/
def optimizeWrapOld (_x0 : List Int) (initial : Int) (resX : List Int) (resFun : Int) : List Int × Int :=
  if initial < resFun then (List.replicate resX.length 0, resFun) else (resX, resFun)

/-- the whole call with the score function and the optimiser as parameters -/
def optimizeMatch (c : Consts) (m : Method) (bt br : Option (List Bound)) (x0 : Option (List Int))
    (score : List Int → Int) (opt : Option (List Bound) → List Int → List Int × Int) : List Int × Int :=
  let b := effBounds c m bt br
  let s := startPose c x0
  let r := opt b s
  optimizeWrap s (score s) r.1 r.2

/-! ## rigid motions of point sets and the Kabsch wrapper (scalar-polymorphic, 3-D) -/

structure V3 (α : Type) where
  x : α
  y : α
  z : α
deriving DecidableEq, Repr

structure M3 (α : Type) where
  a11 : α
  a12 : α
  a13 : α
  a21 : α
  a22 : α
  a23 : α
  a31 : α
  a32 : α
  a33 : α
deriving DecidableEq, Repr

section Lin
variable {α : Type} [Add α] [Sub α] [Mul α] [Neg α]

def V3.add (p q : V3 α) : V3 α := ⟨p.x + q.x, p.y + q.y, p.z + q.z⟩
def V3.sub (p q : V3 α) : V3 α := ⟨p.x - q.x, p.y - q.y, p.z - q.z⟩
def V3.smul (k : α) (p : V3 α) : V3 α := ⟨k * p.x, k * p.y, k * p.z⟩

/-- row vector times matrix (`np.dot(points, R)` with points as rows) -/
def V3.mulM (p : V3 α) (R : M3 α) : V3 α :=
  ⟨p.x * R.a11 + p.y * R.a21 + p.z * R.a31,
   p.x * R.a12 + p.y * R.a22 + p.z * R.a32,
   p.x * R.a13 + p.y * R.a23 + p.z * R.a33⟩

/-- matrix times column vector (`np.matmul(R, coordinates)` with points as columns) -/
def M3.mulV (R : M3 α) (p : V3 α) : V3 α :=
  ⟨R.a11 * p.x + R.a12 * p.y + R.a13 * p.z,
   R.a21 * p.x + R.a22 * p.y + R.a23 * p.z,
   R.a31 * p.x + R.a32 * p.y + R.a33 * p.z⟩

def M3.mul (A B : M3 α) : M3 α :=
  ⟨A.a11 * B.a11 + A.a12 * B.a21 + A.a13 * B.a31, A.a11 * B.a12 + A.a12 * B.a22 + A.a13 * B.a32,
   A.a11 * B.a13 + A.a12 * B.a23 + A.a13 * B.a33,
   A.a21 * B.a11 + A.a22 * B.a21 + A.a23 * B.a31, A.a21 * B.a12 + A.a22 * B.a22 + A.a23 * B.a32,
   A.a21 * B.a13 + A.a22 * B.a23 + A.a23 * B.a33,
   A.a31 * B.a11 + A.a32 * B.a21 + A.a33 * B.a31, A.a31 * B.a12 + A.a32 * B.a22 + A.a33 * B.a32,
   A.a31 * B.a13 + A.a32 * B.a23 + A.a33 * B.a33⟩

def M3.det (A : M3 α) : α :=
  A.a11 * (A.a22 * A.a33 - A.a23 * A.a32) - A.a12 * (A.a21 * A.a33 - A.a23 * A.a31)
    + A.a13 * (A.a21 * A.a32 - A.a22 * A.a31)

/-- `Vh[2, :] *= -1` -/
def M3.negRow3 (A : M3 α) : M3 α := { A with a31 := -A.a31, a32 := -A.a32, a33 := -A.a33 }

def vsum (zero : α) : List (V3 α) → V3 α
  | [] => ⟨zero, zero, zero⟩
  | p :: ps => V3.add p (vsum zero ps)

/-- `rotation = (Vhᵀ·Uᵀ)ᵀ = U·Vh`, last row of `Vh` negated when the determinant is negative -/
def kabschRotation (neg : α → Bool) (U Vh : M3 α) : M3 α :=
  let R := M3.mul U Vh
  if neg (M3.det R) then M3.mul U (M3.negRow3 Vh) else R

/-- `align_structures` after the SVD: `inv n = 1/n`; returns the aligned query points -/
def alignAll (zero invN : α) (R : M3 α) (reference query : List (V3 α)) : List (V3 α) :=
  let rm := V3.smul invN (vsum zero reference)
  let qm := V3.smul invN (vsum zero query)
  let t := V3.sub rm (V3.mulM qm R)
  query.map (fun q => V3.add (V3.mulM (V3.add (V3.sub q qm) qm) R) t)

/-- `matching_utils.rigid_transform(use_geometric_center=False)`, equal dtypes:
`out = R·(x − c); out += t + (c − mean(out))` with `c = mean(x)` -/
def rigidCoords (zero invN : α) (R : M3 α) (t : V3 α) (pts : List (V3 α)) : List (V3 α) :=
  let c := V3.smul invN (vsum zero pts)
  let out := pts.map (fun p => M3.mulV R (V3.sub p c))
  let om := V3.smul invN (vsum zero out)
  let t' := V3.add t (V3.sub c om)
  out.map (fun p => V3.add p t')

/-- squared deviation summed over paired points (RMSD² · n) -/
def sqDev (zero : α) : List (V3 α) → List (V3 α) → α
  | p :: ps, q :: qs =>
      let d := V3.sub p q
      (d.x * d.x + d.y * d.y + d.z * d.z) + sqDev zero ps qs
  | _, _ => zero

end Lin

/-! ## score formulas whose optimum at the planted pose is exact arithmetic -/

/-- Σ vᵢ·wᵢ -/
def dot {α : Type} [Add α] [Mul α] (zero : α) : List α → List α → α
  | v :: vs, w :: ws => v * w + dot zero vs ws
  | _, _ => zero

/-- `PartialLeastSquareDifference.__call__` without the sign: Σ (vᵢ − wᵢ)² -/
def plsq {α : Type} [Add α] [Sub α] [Mul α] (zero : α) : List α → List α → α
  | v :: vs, w :: ws => (v - w) * (v - w) + plsq zero vs ws
  | _, _ => zero

/-! ## several score objects alive at once -/

/-- a pool of objects (index ↦ state) driven by a schedule of (object, pose): a call steps the
addressed object only — the code keeps every scratch buffer (rotated coordinates, interpolated
values, denominator, rotation grid, rotated template / mask, windows) on the instance, nothing on
the class or the module -/
def poolRun {ι σ π β : Type} [DecidableEq ι] (step : ι → σ → π → β × σ) :
    (ι → σ) → List (ι × π) → List β × (ι → σ)
  | st, [] => ([], st)
  | st, (i, x) :: rest =>
      let r := step i (st i) x
      let q := poolRun step (fun j => if j = i then r.2 else st j) rest
      (r.1 :: q.1, q.2)

end Pm.C17
