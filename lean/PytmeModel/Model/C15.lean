import PytmeModel.Model.Common
/-!
C15 — Density box operations (`tme/density.py`).

Mirrors, as the code is: `Density.adjust_box` (crop with python slice semantics, `_pad_slice`,
origin shift), `Density.pad` (centred / appended box arithmetic), `Density.trim_box` (axis
projections), `Density.minimum_enclosing_box` (the cube side of
`matching_utils.minimum_enclosing_box` enters as a recorded oracle value with a contract),
`Density.centered` (frame only: shape and origin), `Density.resample` (extents, rate, origin;
the interpolation is not modelled), `Density.__init__` / `copy` / `empty` on a tiny heap
(which buffers are fresh).

Voxel values live in `α`, coordinates (origin, sampling rate) in `β`; the driver instantiates both
with `Int` (coordinates in units of a fixed dyadic quantum), the theorems are for every commutative
ring `β`.
-/
namespace Pm.C15

/-! ## one axis -/

/-- numpy normalisation of one bound of a basic slice on an axis of length `n`:
negative counts from the end, then clip to `[0, n]`. -/
def pyNorm (n : Nat) (x : Int) : Nat := if x < 0 then (x + n).toNat else min x.toNat n

/-- `a[start:stop]` on an axis of length `n`: first selected index and number selected. -/
def pySlice (n : Nat) (start stop : Int) : Nat × Nat :=
  (pyNorm n start, pyNorm n stop - pyNorm n start)

/-- what `adjust_box` does on one axis: `len` source voxels starting at `src` are kept, preceded by
`left` and followed by `right` padded voxels. -/
structure AxisPlan where
  src : Nat
  len : Nat
  left : Nat
  right : Nat
deriving Repr, DecidableEq

/-- `adjust_box` + `_pad_slice` on one axis of length `n` for `slice(start, stop)`:
`crop = slice(max(start,0), min(stop,n))` (python semantics, so a negative `stop` counts from the
end); `left_pad = -min(start,0)`; `right_pad = max(stop - start*(start>0) - len(crop), 0)`. -/
def adjustAxis (n : Nat) (start stop : Int) : AxisPlan :=
  let c := pySlice n (max start 0) (min stop n)
  let rp : Int := stop - (if start > 0 then start else 0) - (c.2 : Int)
  ⟨c.1, c.2, (-(min start 0)).toNat, (max rp 0).toNat⟩

def AxisPlan.newLen (p : AxisPlan) : Nat := p.left + p.len + p.right

/-- source index of new position `j` (`none` = padded voxel) -/
def AxisPlan.srcOf (p : AxisPlan) (j : Nat) : Option Nat :=
  if p.left ≤ j ∧ j < p.left + p.len then some (p.src + (j - p.left)) else none

/-- `Density.pad`: the box handed to `adjust_box` for one axis.
centred: `overhang = new - n; p = overhang // 2; (-p, n + p + overhang % 2)`; else `(0, new)`. -/
def padBoxAxis (center : Bool) (n new : Nat) : Int × Int :=
  if center then
    let ov : Int := (new : Int) - n
    (-(ov / 2), (n : Int) + ov / 2 + ov % 2)
  else (0, new)

/-- `Density.minimum_enclosing_box` on one axis: `lo`/`hi` smallest/largest coordinate above the
cut-off (inclusive), `side` the cube side returned by `matching_utils.minimum_enclosing_box`. -/
def meboxAxis (side lo hi : Nat) : Int × Int :=
  let diff : Int := max ((side : Int) - ((hi : Int) - lo)) 0
  ((lo : Int) - diff / 2, (hi : Int) + diff / 2 + diff % 2)

/-- round half to even of `num / den` (python `round`, `numpy.round`), `den > 0` -/
def roundHalfEven (num den : Nat) : Nat :=
  let q := num / den
  let r := num % den
  if 2 * r < den then q else if den < 2 * r then q + 1 else if q % 2 = 0 then q else q + 1

/-- `Density.resample` extent on one axis: `round(n * old/new)`, rates as numerators `a` (old),
`b` (new) over a common denominator. -/
def resampleLen (n a b : Nat) : Nat := roundHalfEven (n * a) b

/-! ## n-D -/

abbrev Box := List (Int × Int)

def plans (shape : List Nat) (box : Box) : List AxisPlan :=
  List.zipWith (fun n b => adjustAxis n b.1 b.2) shape box

/-- multi-index of the source voxel, `none` when any axis is in the padded region -/
def srcIdx : List AxisPlan → List Nat → Option (List Nat)
  | [], [] => some []
  | p :: ps, j :: js =>
      match p.srcOf j, srcIdx ps js with
      | some s, some ss => some (s :: ss)
      | _, _ => none
  | _, _ => none

/-- data after `adjust_box(box, pad_kwargs={"constant_values": pad})` -/
def adjustData {α : Type} (a : Arr α) (box : Box) (pad : α) : Arr α :=
  let ps := plans a.shape box
  Arr.ofFn (ps.map AxisPlan.newLen) (fun idx =>
    match srcIdx ps idx with
    | some s => a.getD s pad
    | none => pad)

/-- coordinate frame: per axis (origin, sampling rate) -/
abbrev Frame (β : Type) := List (β × β)

/-- `origin - (-start) * sampling_rate` per axis -/
def adjustFrame {β : Type} [Add β] [Mul β] [IntCast β] (f : Frame β) (box : Box) : Frame β :=
  List.zipWith (fun (or : β × β) (b : Int × Int) => (or.1 + (b.1 : β) * or.2, or.2)) f box

/-- physical coordinate `origin + index * sampling_rate` per axis -/
def phys {β : Type} [Add β] [Mul β] [IntCast β] (f : Frame β) (idx : List Nat) : List β :=
  List.zipWith (fun (or : β × β) (i : Nat) => or.1 + (((i : Int) : β)) * or.2) f idx

structure Dens (α β : Type) where
  data : Arr α
  frame : Frame β

namespace Dens
variable {α β : Type} [Add β] [Mul β] [IntCast β]

def adjustBox (d : Dens α β) (box : Box) (pad : α) : Dens α β :=
  ⟨adjustData d.data box pad, adjustFrame d.frame box⟩

def padBox (center : Bool) (shape newShape : List Nat) : Box :=
  List.zipWith (padBoxAxis center) shape newShape

/-- `Density.pad(new_shape, center, padding_value)` (rank already checked by the caller) -/
def pad (d : Dens α β) (newShape : List Nat) (center : Bool) (v : α) : Dens α β :=
  d.adjustBox (padBox center d.data.shape newShape) v

end Dens

/-- `Density.__init__` / the `origin` and `sampling_rate` setters / `resample`'s argument handling:
`x = np.repeat(x, ndim // x.size)` and then the size test (`none` = `ValueError` / `ZeroDivisionError`). -/
def broadcastAxes {β : Type} (ndim : Nat) (l : List β) : Option (List β) :=
  if l.length = 0 then none else
  let r := l.flatMap (fun x => List.replicate (ndim / l.length) x)
  if r.length = ndim then some r else none

/-- the `origin` / `sampling_rate` *setters* of an existing object: `x = np.repeat(np.asarray(x), ndim // x.size)` and, unlike
`__init__`, no size test (`none` = `ZeroDivisionError` for an empty argument). -/
def setterAxes {β : Type} (ndim : Nat) (l : List β) : Option (List β) :=
  if l.length = 0 then none else some (l.flatMap (fun x => List.replicate (ndim / l.length) x))

/-! ## trim_box -/

section trim
variable {α : Type} [LT α] [DecidableLT α]

/-- `np.max(data, all axes but ax)[i] > cutoff` -/
def axisHit (a : Arr α) (cutoff : α) (ax i : Nat) : Bool :=
  (allIdx a.shape).any (fun idx => idx[ax]? == some i && decide (cutoff < a.getD idx cutoff))

/-- first `i` in `k, k+1, …, k+fuel-1` with `p i` -/
def firstHitFrom (p : Nat → Bool) : Nat → Nat → Option Nat
  | 0, _ => none
  | f+1, k => if p k then some k else firstHitFrom p f (k + 1)

def firstHit (p : Nat → Bool) (n : Nat) : Option Nat := firstHitFrom p n 0

/-- last `i < n` with `p i` -/
def lastHit (p : Nat → Bool) : Nat → Option Nat
  | 0 => none
  | n+1 => if p n then some n else lastHit p n

/-- `starts.append(max(0, valid[0] - margin)); stops.append(min(n, valid[-1] + margin + 1))` -/
def trimAxis (a : Arr α) (cutoff : α) (margin : Int) (ax n : Nat) : Option (Int × Int) :=
  match firstHit (axisHit a cutoff ax) n, lastHit (axisHit a cutoff ax) n with
  | some f, some l => some (max 0 ((f : Int) - margin), min (n : Int) ((l : Int) + margin + 1))
  | _, _ => none

def trimBoxAux (a : Arr α) (cutoff : α) (margin : Int) : Nat → List Nat → Option Box
  | _, [] => some []
  | ax, n :: ns =>
      match trimAxis a cutoff margin ax n, trimBoxAux a cutoff margin (ax + 1) ns with
      | some b, some bs => some (b :: bs)
      | _, _ => none

/-- `Density.trim_box(cutoff, margin)`; `none` = `ValueError` (nothing above the cut-off) -/
def trimBox (a : Arr α) (cutoff : α) (margin : Int) : Option Box :=
  trimBoxAux a cutoff margin 0 a.shape

/-- smallest / largest coordinate above the cut-off on every axis (`to_pointcloud` min / max) -/
def extentAux (a : Arr α) (cutoff : α) : Nat → List Nat → Option (List (Nat × Nat))
  | _, [] => some []
  | ax, n :: ns =>
      match firstHit (axisHit a cutoff ax) n, lastHit (axisHit a cutoff ax) n,
            extentAux a cutoff (ax + 1) ns with
      | some f, some l, some r => some ((f, l) :: r)
      | _, _, _ => none

/-- `Density.minimum_enclosing_box(cutoff)` given the recorded cube side -/
def mebox (a : Arr α) (cutoff : α) (side : Nat) : Option Box :=
  (extentAux a cutoff 0 a.shape).map (fun e => e.map (fun lh => meboxAxis side lh.1 lh.2))

end trim

/-! ## `centered`: frame only (copy → minimum_enclosing_box → adjust_box → odd pad) -/

/-- shape handed to `pad` inside `centered`: `max(box shape, own shape)` made odd -/
def centeredShape (own boxed : List Nat) : List Nat :=
  List.zipWith (fun a b => let m := max a b; m + (1 - m % 2)) boxed own

/-! ## resample: extents, rate, origin (no voxel values) -/

structure Geo (β : Type) where
  shape : List Nat
  origin : List β
  rate : List Nat      -- numerators over the caller's common denominator
deriving Repr, DecidableEq

/-- `ret = self.copy(); ret.data = zoom(...)/fourier crop; ret.sampling_rate = new` -/
def resample {β : Type} (g : Geo β) (newRate : List Nat) : Geo β :=
  ⟨List.zipWith (fun (n : Nat) (ab : Nat × Nat) => resampleLen n ab.1 ab.2) g.shape (List.zip g.rate newRate),
   g.origin, newRate⟩

/-! ## histories of the geometry (extents, origin, rate) that may contain resampling

Voxel values are interpolated by `resample` and not followed; extents, origin and rate are.  Origin and
rates are integers over one common unit (the harness uses 2⁻¹²). -/

inductive GOp where
  | resample (newRate : List Nat)
  | box (b : Box)      -- `adjust_box(b)`; `pad` and trimming enter as the box they hand to `adjust_box`
  | copy
deriving Repr

/-- one operation on the geometry.  `box`: extents `max (stop - start) 0` (stops ≥ 0, `adjustBox_extents`),
`origin - (-start)·rate` with the rate in force, rate kept. -/
def geoStep (g : Geo Int) : GOp → Geo Int
  | .resample nr => resample g nr
  | .box b =>
      ⟨b.map (fun p => (max (p.2 - p.1) 0).toNat),
       List.zipWith (fun (or : Int × Nat) (p : Int × Int) => or.1 + p.1 * (or.2 : Int)) (List.zip g.origin g.rate) b,
       g.rate⟩
  | .copy => g

def geoRun (g : Geo Int) : List GOp → Geo Int
  | [] => g
  | op :: ops => geoRun (geoStep g op) ops

/-- all intermediate geometries (for the harness) -/
def geoStates (g : Geo Int) : List GOp → List (Geo Int)
  | [] => []
  | op :: ops => geoStep g op :: geoStates (geoStep g op) ops

/-- physical coordinate `origin + index·rate` per axis (indices may be negative: a voxel cut away) -/
def gphys (g : Geo Int) (idx : List Int) : List Int :=
  List.zipWith (fun (or : Int × Nat) (i : Int) => or.1 + i * (or.2 : Int)) (List.zip g.origin g.rate) idx

/-- index, in the grid the operations started from, of the position `idx` of the grid they end in
(box operations and copies; a resampling starts a new grid) -/
def gtrace : List GOp → List Int → List Int
  | [], idx => idx
  | .box b :: ops, idx => List.zipWith (fun (i : Int) (p : Int × Int) => i + p.1) (gtrace ops idx) b
  | _ :: ops, idx => gtrace ops idx

def GOp.isResample : GOp → Bool
  | .resample _ => true
  | _ => false

/-- the rate in force after a history: the one asked for by the last resampling, else the initial one -/
def lastRate (r0 : List Nat) : List GOp → List Nat
  | [] => r0
  | .resample nr :: ops => lastRate nr ops
  | _ :: ops => lastRate r0 ops

/-! ## histories -/

inductive Op (α : Type) where
  | adjust (box : Box) (pad : α)
  | pad (newShape : List Nat) (center : Bool) (v : α)
  | trim (cutoff : α) (margin : Int) (pad : α)     -- `d.adjust_box(d.trim_box(cutoff, margin))`
  | copy                                          -- `d = d.copy()`

section hist
variable {α β : Type} [LT α] [DecidableLT α]

/-- the box an operation hands to `adjust_box` (`none`: the operation raises, or is not a box op) -/
def boxOf (shape : List Nat) (data : Arr α) : Op α → Option (Box × α)
  | .adjust box pad => if box.length = shape.length then some (box, pad) else none
  | .pad ns c v => if ns.length = shape.length then some (Dens.padBox c shape ns, v) else none
  | .trim cutoff margin pad => (trimBox data cutoff margin).map (fun b => (b, pad))
  | .copy => none

variable [Add β] [Mul β] [IntCast β]

/-- one operation; `none` = the operation raised (the python object is left unchanged) -/
def step (d : Dens α β) : Op α → Option (Dens α β)
  | .copy => some d
  | op => (boxOf d.data.shape d.data op).map (fun bp => d.adjustBox bp.1 bp.2)

/-- run a history, stopping at the first operation that raises -/
def runFrom (d : Dens α β) : List (Op α) → Option (Dens α β)
  | [] => some d
  | op :: ops => (step d op).bind (fun d' => runFrom d' ops)

/-- all intermediate states (for the harness) -/
def runStates (d : Dens α β) : List (Op α) → List (Option (Dens α β))
  | [] => []
  | op :: ops =>
      match step d op with
      | some d' => some d' :: runStates d' ops
      | none => none :: runStates d ops      -- the failed call left the object unchanged

/-- index in the *initial* array of the voxel found at `idx` after the history (`none`: padded
somewhere on the way, or the history raised) -/
def traceFrom (d : Dens α β) : List (Op α) → List Nat → Option (List Nat)
  | [], idx => some idx
  | .copy :: ops, idx => traceFrom d ops idx
  | op :: ops, idx =>
      match boxOf d.data.shape d.data op with
      | some bp =>
          (traceFrom (d.adjustBox bp.1 bp.2) ops idx).bind (fun mid => srcIdx (plans d.data.shape bp.1) mid)
      | none => none

end hist


/-! ## point clouds, `empty`, centre of mass, `to_memmap` / `to_numpy` (deepen3) -/

section cloud
variable {α : Type} [LT α] [DecidableLT α]

/-- `Density.to_pointcloud(threshold)`: `np.array(np.where(data > threshold))` — the indices above the
threshold in row-major order (numpy returns them transposed: one row per axis). -/
def toPointcloud (a : Arr α) (thr : α) : List (List Nat) :=
  (allIdx a.shape).filter (fun idx => decide (thr < a.getD idx thr))

end cloud

/-- `Density.empty`: `np.zeros_like(data)`, origin and sampling rate copied.  `Density.rigid_transform`
starts from `self.empty` and only fills the data (interpolation, not modelled): its box bookkeeping is this. -/
def Dens.empty {α β : Type} [Zero α] (d : Dens α β) : Dens α β :=
  ⟨Arr.ofFn d.data.shape (fun _ => 0), d.frame⟩

/-- `where(arr > cutoff, arr, 0)` on one value; `cutoff=None` means `min(arr) - 1`, i.e. every voxel keeps its value. -/
def comV (cutoff : Option Int) (v : Int) : Int :=
  match cutoff with
  | none => v
  | some c => if c < v then v else 0

/-- weight of a voxel in `center_of_mass(arr, cutoff)` -/
def comW (a : Arr Int) (cutoff : Option Int) (idx : List Nat) : Int := comV cutoff (a.getD idx 0)

/-- `denominator = sum(arr)` -/
def comDen (a : Arr Int) (cutoff : Option Int) : Int :=
  ((allIdx a.shape).map (comW a cutoff)).sum

/-- numerator of the centre of mass on axis `ax`: `sum(arr * grid_ax)` -/
def comNum (a : Arr Int) (cutoff : Option Int) (ax : Nat) : Int :=
  ((allIdx a.shape).map (fun idx => comW a cutoff idx * ((idx.getD ax 0 : Nat) : Int))).sum

/-- `Density.center_of_mass(arr, cutoff)` for integer-valued data as exact fractions: numerators per axis and
the common denominator (the library divides in floating point; `0` denominator = nan / inf there). -/
def centerOfMass (a : Arr Int) (cutoff : Option Int) : List Int × Int :=
  ((List.range a.shape.length).map (comNum a cutoff), comDen a cutoff)

/-! ## `core_mask`: iterated binary erosion -/

/-- `scipy.ndimage.binary_erosion(mask)` with its defaults: cross-shaped structuring element (the voxel and its two
neighbours on every axis), everything outside the array counts as background (`border_value=0`). -/
def erode (m : Arr Bool) : Arr Bool :=
  Arr.ofFn m.shape (fun idx =>
    m.getD idx false &&
    (List.range m.shape.length).all (fun ax =>
      let i := idx.getD ax 0
      decide (0 < i) && m.getD (idx.set ax (i - 1)) false && m.getD (idx.set ax (i + 1)) false))

/-- `while eroded_mask.sum() > 0: core_indices += eroded_mask; eroded_mask = binary_erosion(eroded_mask)` -/
def coreLoop : Nat → Arr Bool → Arr Nat → Arr Nat
  | 0, _, acc => acc
  | f + 1, m, acc =>
      if m.data.toList.any id then
        coreLoop f (erode m) (Arr.ofFn acc.shape (fun idx => acc.getD idx 0 + (if m.getD idx false then 1 else 0)))
      else acc

/-- `Density.core_mask()`: how many erosions a voxel of `data > 0` survives (the loop ends after at most as many rounds
as there are voxels: every round removes at least one). -/
def coreMask (a : Arr Int) : Arr Nat :=
  coreLoop (prodL a.shape + 1) (Arr.ofFn a.shape (fun idx => decide (0 < a.getD idx 0))) (Arr.ofFn a.shape (fun _ => 0))

/-! ## a tiny heap for `__init__`, `copy`, `empty`, `adjust_box` — which buffers are fresh -/

structure Heap (γ : Type) where
  cells : List γ

namespace Heap
variable {γ : Type} [Inhabited γ]
def alloc (h : Heap γ) (v : γ) : Heap γ × Nat := (⟨h.cells ++ [v]⟩, h.cells.length)
def read (h : Heap γ) (a : Nat) : γ := h.cells.getD a default
def write (h : Heap γ) (a : Nat) (v : γ) : Heap γ := ⟨h.cells.set a v⟩
end Heap

/-- addresses of the buffers a `Density` object holds -/
structure DRef where
  data : Nat
  origin : Nat
  rate : Nat
  md : Nat
deriving Repr, DecidableEq

def DRef.refs (d : DRef) : List Nat := [d.data, d.origin, d.rate, d.md]

section heap
variable {γ : Type} [Inhabited γ]

/-- `Density.__init__`: `data` and `metadata` are kept by reference; `origin` and `sampling_rate`
go through `np.repeat`, which always allocates. -/
def construct (h : Heap γ) (data origin rate md : Nat) : Heap γ × DRef :=
  let (h1, o) := h.alloc (h.read origin)
  let (h2, r) := h1.alloc (h1.read rate)
  (h2, ⟨data, o, r, md⟩)

/-- `Density.copy`: `data.copy()`, `deepcopy(origin[:])`, `sampling_rate` passed *by reference*,
`deepcopy(metadata)`, then `__init__`. -/
def copyD (h : Heap γ) (d : DRef) : Heap γ × DRef :=
  let (h1, x) := h.alloc (h.read d.data)
  let (h2, o) := h1.alloc (h1.read d.origin)
  let (h3, m) := h2.alloc (h2.read d.md)
  construct h3 x o d.rate m

/-- `Density.empty`: `zeros_like(data)`, `deepcopy(origin)`, `deepcopy(sampling_rate)`, a new dict -/
def emptyD (h : Heap γ) (d : DRef) : Heap γ × DRef :=
  let (h1, x) := h.alloc (h.read d.data)
  let (h2, o) := h1.alloc (h1.read d.origin)
  let (h3, r) := h2.alloc (h2.read d.rate)
  let (h4, m) := h3.alloc (h3.read d.md)
  construct h4 x o r m

/-- `Density.adjust_box` (in place): `data[crop].copy()` then `np.pad` (fresh), `origin - …` (fresh);
`sampling_rate` and `metadata` stay the same objects. -/
def adjustD (h : Heap γ) (d : DRef) : Heap γ × DRef :=
  let (h1, x) := h.alloc (h.read d.data)
  let (h2, o) := h1.alloc (h1.read d.origin)
  (h2, { d with data := x, origin := o })

/-- `Density.to_memmap` (data not yet a memmap) / `Density.to_numpy` (data a memmap): the data are written to a
new buffer with equal content; `origin`, `sampling_rate`, `metadata` stay the same objects.  When the data already
are of the requested kind nothing changes (`fresh = false`). -/
def remapD (h : Heap γ) (d : DRef) (fresh : Bool) : Heap γ × DRef :=
  if fresh then
    let (h1, x) := h.alloc (h.read d.data)
    (h1, { d with data := x })
  else (h, d)

end heap

end Pm.C15
