import PytmeModel.Model.Common
/-!
# C09 — model of the PDB / mmCIF writers and readers of `tme/structure.py`, `tme/parser.py`

Strings are `List Char`.  Numbers that travel through decimal text are kept as *validated
decimal text* (`Dec`: sign, integer part, list of fractional digits): the float → decimal
rounding (`f"{x:.3f}"`) and decimal → float (`float()`, `np.float32`) conversions are CPython's /
numpy's and stay in the harness canonicaliser.

The model mirrors the code as it is after the two `fix:` commits of the C09 worktree
(`_format_string` writes "." for an empty value; the original-file records are reused by
`_write_mmcif` only when their ids match):

* `_write_pdb`      → `pdbLine`, `writePdb`       (slice assignment into 80 blanks, column table `pdbWriterCols`)
* `PDBParser`       → `fileLines`, `readPdbRaw`   (column table `pdbReaderCols`)
* `_load_pdb`       → `loadPdb`                   (strip, `int`, `float` with the all-zero fall-back)
* `_format_string`  → `formatString`
* `_write_mmcif`    → `cifColumns`, `reuseOriginal`, `writeLoop`, `writeCif`
* `MMCIFParser`     → `consolidate`, `splitBlocks`, `splitLine`, `reunite`, `loopToDict`, `parseCif`
* `_load_mmcif`     → `loadCif`
* `from_file`       → `filterAtoms`
-/
namespace Pm.C09

abbrev Str := List Char

/-! ## Python string helpers -/

/-- characters removed by `str.strip()` / separating `str.split()` (ASCII range) -/
def isWs (c : Char) : Bool :=
  c = ' ' || c = '\t' || c = '\n' || c = '\r' || c = '\x0b' || c = '\x0c' ||
  c = '\x1c' || c = '\x1d' || c = '\x1e' || c = '\x1f'

def lstrip (s : Str) : Str := s.dropWhile isWs
def rstrip (s : Str) : Str := (s.reverse.dropWhile isWs).reverse
def strip (s : Str) : Str := rstrip (lstrip s)

def spaces (n : Nat) : Str := List.replicate n ' '
/-- `f"{s:<w}"`, `s.ljust(w)` -/
def ljust (w : Nat) (s : Str) : Str := s ++ spaces (w - s.length)
/-- `f"{s:>w}"` -/
def rjust (w : Nat) (s : Str) : Str := spaces (w - s.length) ++ s
/-- `l[lo:hi]` for `0 ≤ lo ≤ hi` -/
def slice (l : Str) (lo hi : Nat) : Str := (l.drop lo).take (hi - lo)
/-- `l[lo:hi] = s` on a list of characters -/
def splice (l : Str) (lo hi : Nat) (s : Str) : Str := l.take lo ++ s ++ l.drop hi

def startsWith (p s : Str) : Bool := p.isPrefixOf s

/-- `s.split(c)` (always at least one piece) -/
def splitOnAux (c : Char) : Str → Str → List Str
  | [], cur => [cur.reverse]
  | x :: xs, cur => if x = c then cur.reverse :: splitOnAux c xs [] else splitOnAux c xs (x :: cur)
def splitOn (c : Char) (s : Str) : List Str := splitOnAux c s []

/-- `sep.join(parts)` -/
def joinWith (sep : Str) : List Str → Str
  | [] => []
  | [a] => a
  | a :: rest => a ++ sep ++ joinWith sep rest

/-- `s.split()` : maximal runs of non-whitespace -/
def splitWsAux : Str → Str → List Str
  | [], cur => if cur.isEmpty then [] else [cur.reverse]
  | x :: xs, cur =>
    if isWs x then (if cur.isEmpty then splitWsAux xs [] else cur.reverse :: splitWsAux xs [])
    else splitWsAux xs (x :: cur)
def splitWs (s : Str) : List Str := splitWsAux s []

/-! ## integers and decimals as text -/

def digitChar (d : Nat) : Char := Char.ofNat (48 + d)

def showNatAux : Nat → Nat → Str
  | 0, n => [digitChar (n % 10)]
  | f + 1, n => if n < 10 then [digitChar n] else showNatAux f (n / 10) ++ [digitChar (n % 10)]
/-- `str(n)` -/
def showNat (n : Nat) : Str := showNatAux n n
/-- `str(i)` -/
def showInt (i : Int) : Str := if i < 0 then '-' :: showNat i.natAbs else showNat i.natAbs

def digitVal? (c : Char) : Option Nat :=
  if 48 ≤ c.toNat ∧ c.toNat ≤ 57 then some (c.toNat - 48) else none

def parseNatAux : Str → Nat → Option Nat
  | [], acc => some acc
  | c :: cs, acc => match digitVal? c with
    | some d => parseNatAux cs (acc * 10 + d)
    | none => none
def parseNat (s : Str) : Option Nat := if s.isEmpty then none else parseNatAux s 0
/-- `int(s)` on stripped text (underscore grouping is not modelled) -/
def parseInt (s : Str) : Option Int :=
  match s with
  | '-' :: r => (parseNat r).map (fun n => - (n : Int))
  | '+' :: r => (parseNat r).map (fun n => (n : Int))
  | _ => (parseNat s).map (fun n => (n : Int))

/-- a decimal numeral `[-]ip.frac` kept as text: the exact rational is `± (ip + 0.frac)` -/
structure Dec where
  neg : Bool
  ip : Nat
  frac : List Nat
  deriving DecidableEq, Repr, Inhabited

def Dec.zero : Dec := ⟨false, 0, []⟩

/-- `f"{x:.kf}"` once the harness has rounded `x` to `k = frac.length` places -/
def showDec (d : Dec) : Str :=
  (if d.neg then ['-'] else []) ++ showNat d.ip ++ ['.'] ++ d.frac.map digitChar

def parseDigits : Str → Option (List Nat)
  | [] => some []
  | c :: cs => match digitVal? c, parseDigits cs with
    | some d, some ds => some (d :: ds)
    | _, _ => none

/-- `float(s)` restricted to plain decimals `[+-]digits[.digits]` / `[+-].digits`
(exponents, inf, nan: not modelled → `none`, like a syntax error) -/
def parseDec (s : Str) : Option Dec :=
  let (neg, r) : Bool × Str := match s with
    | '-' :: r => (true, r)
    | '+' :: r => (false, r)
    | _ => (false, s)
  let ipS := r.takeWhile (· ≠ '.')
  match r.dropWhile (· ≠ '.') with
  | [] => (parseNat ipS).map (fun n => ⟨neg, n, []⟩)
  | _ :: fpS =>
    if ipS.isEmpty && fpS.isEmpty then none else
    match (if ipS.isEmpty then some 0 else parseNat ipS), parseDigits fpS with
    | some n, some ds => some ⟨neg, n, ds⟩
    | _, _ => none

/-! ## atoms -/

structure Atom where
  record : Str
  serial : Int
  name : Str
  alt : Str
  resName : Str
  chain : Str
  resSeq : Int
  ins : Str
  x : Dec
  y : Dec
  z : Dec
  occ : Dec
  b : Dec
  seg : Str
  elem : Str
  charge : Str
  deriving DecidableEq, Repr, Inhabited

/-- `""`, `"."` and `"?"` all mean *no value* -/
def noVal (s : Str) : Bool := s.isEmpty || s == ['.'] || s == ['?']
def normStr (s : Str) : Str := if noVal s then [] else s

/-! ## PDB: fixed columns -/

inductive F | record | serial | name | alt | resName | chain | resSeq | ins | x | y | z | occ | b | seg | elem | charge
  deriving DecidableEq, Repr

def F.all : List F := [.record, .serial, .name, .alt, .resName, .chain, .resSeq, .ins, .x, .y, .z, .occ, .b, .seg, .elem, .charge]

def F.id : F → String
  | .record => "record_type" | .serial => "atom_serial_number" | .name => "atom_name"
  | .alt => "alternate_location_indicator" | .resName => "residue_name" | .chain => "chain_identifier"
  | .resSeq => "residue_sequence_number" | .ins => "code_for_residue_insertion"
  | .x => "x" | .y => "y" | .z => "z" | .occ => "occupancy" | .b => "temperature_factor"
  | .seg => "segment_identifier" | .elem => "element_symbol" | .charge => "charge"

structure Col where
  f : F
  lo : Nat
  hi : Nat
  deriving DecidableEq, Repr

/-- the slice assignments of `Structure._write_pdb`, in source order (extracted from the
source on every run and compared with this constant) -/
def pdbWriterCols : List Col :=
  [⟨.record, 0, 6⟩, ⟨.serial, 6, 11⟩, ⟨.name, 12, 16⟩, ⟨.alt, 16, 17⟩, ⟨.resName, 17, 20⟩,
   ⟨.chain, 21, 22⟩, ⟨.resSeq, 22, 26⟩, ⟨.ins, 26, 27⟩, ⟨.x, 30, 38⟩, ⟨.y, 38, 46⟩, ⟨.z, 46, 54⟩,
   ⟨.occ, 54, 60⟩, ⟨.b, 60, 66⟩, ⟨.seg, 72, 76⟩, ⟨.elem, 76, 78⟩, ⟨.charge, 78, 80⟩]

/-- the slices read by `PDBParser.parse_input` -/
def pdbReaderCols : List Col :=
  [⟨.record, 0, 6⟩, ⟨.serial, 6, 11⟩, ⟨.name, 12, 16⟩, ⟨.alt, 16, 17⟩, ⟨.resName, 17, 20⟩,
   ⟨.chain, 21, 22⟩, ⟨.resSeq, 22, 26⟩, ⟨.ins, 26, 27⟩, ⟨.x, 30, 38⟩, ⟨.y, 38, 46⟩, ⟨.z, 46, 54⟩,
   ⟨.occ, 54, 60⟩, ⟨.b, 60, 66⟩, ⟨.seg, 74, 76⟩, ⟨.elem, 76, 78⟩, ⟨.charge, 78, 80⟩]

def pdbWidth : Nat := 80

/-- the f-string written into each column (`chain[0]`: the first character) -/
def fieldText (a : Atom) : F → Str
  | .record => ljust 6 a.record
  | .serial => rjust 5 (showInt a.serial)
  | .name => ljust 4 a.name
  | .alt => ljust 1 a.alt
  | .resName => ljust 3 a.resName
  | .chain => ljust 1 (a.chain.take 1)
  | .resSeq => rjust 4 (showInt a.resSeq)
  | .ins => ljust 1 a.ins
  | .x => rjust 8 (showDec a.x)
  | .y => rjust 8 (showDec a.y)
  | .z => rjust 8 (showDec a.z)
  | .occ => rjust 6 (showDec a.occ)
  | .b => rjust 6 (showDec a.b)
  | .seg => rjust 4 a.seg
  | .elem => ljust 2 a.elem
  | .charge => rjust 2 a.charge

def writeCols (cols : List Col) (txt : F → Str) (line : Str) : Str :=
  cols.foldl (fun l c => splice l c.lo c.hi (txt c.f)) line

/-- one coordinate line of `_write_pdb` -/
def pdbLine (a : Atom) : Str := writeCols pdbWriterCols (fieldText a) (spaces pdbWidth)

/-- `chain[0]` needs a non-empty chain (`IndexError` otherwise) -/
def pdbWritable (a : Atom) : Bool := !a.chain.isEmpty

/-- `line[16] = text`, `line[26] = text` are *item* assignments: they behave like the slice
assignment only when `text` is one character, which is all this model represents -/
def pdbRepresentable (a : Atom) : Bool := a.alt.length ≤ 1 && a.ins.length ≤ 1

/-- `_write_pdb`: the lines and `END`, joined by newlines (`none`: `IndexError` on an empty chain) -/
def writePdb (atoms : List Atom) : Option Str :=
  if atoms.all pdbWritable then some (joinWith ['\n'] (atoms.map pdbLine ++ ["END".toList])) else none

/-- `Parser.__init__`: non-empty lines that do not start with `#` -/
def fileLines (text : Str) : List Str :=
  (splitOn '\n' text).filter (fun l => !l.isEmpty && l.head? != some '#')

/-- the text fields of one record, before any conversion -/
structure Raw where
  record : Str
  serial : Str
  name : Str
  alt : Str
  resName : Str
  chain : Str
  resSeq : Str
  ins : Str
  x : Str
  y : Str
  z : Str
  occ : Str
  b : Str
  seg : Str
  elem : Str
  charge : Str
  deriving DecidableEq, Repr, Inhabited

def colOf (cols : List Col) (f : F) : Col := (cols.find? (·.f = f)).getD ⟨f, 0, 0⟩

def readField (cols : List Col) (line : Str) (f : F) : Str :=
  let c := colOf cols f
  slice line c.lo c.hi

def isAtomLine (line : Str) : Bool := startsWith "ATOM".toList line || startsWith "HETATM".toList line

/-- the body of the `ATOM`/`HETATM` branch; `line[16]`, `line[21]`, `line[26]` raise on a short line -/
def readPdbLine (line : Str) : Option Raw :=
  if line.length ≤ 26 then none else
  let g := readField pdbReaderCols line
  some ⟨g .record, g .serial, g .name, g .alt, g .resName, g .chain, g .resSeq, g .ins,
        g .x, g .y, g .z, g .occ, g .b, g .seg, g .elem, g .charge⟩

def readPdbRaw (text : Str) : Option (List Raw) :=
  ((fileLines text).filter isAtomLine).mapM readPdbLine

/-- float columns: one unparsable entry sets the whole column to 0 -/
def floatColumn (l : List Str) : List Dec :=
  match l.mapM (fun s => parseDec (strip s)) with
  | some ds => ds
  | none => l.map (fun _ => Dec.zero)

/-- integer columns: `0 if x == "." else int(x)`, raising on anything else -/
def intCell (s : Str) : Option Int :=
  let t := strip s
  if t == ['.'] then some 0 else parseInt t

def zipAtoms : List Raw → List Int → List Int → List Dec → List Dec → List Dec → List Dec → List Dec → List Atom
  | r :: rs, s :: ss, q :: qs, x :: xs, y :: ys, z :: zs, o :: os, b :: bs =>
    { record := strip r.record, serial := s, name := strip r.name, alt := strip r.alt,
      resName := strip r.resName, chain := strip r.chain, resSeq := q, ins := strip r.ins,
      x := x, y := y, z := z, occ := o, b := b, seg := strip r.seg, elem := strip r.elem,
      charge := strip r.charge } :: zipAtoms rs ss qs xs ys zs os bs
  | _, _, _, _, _, _, _, _ => []

/-- `_load_pdb` / `_load_mmcif` typing of raw text rows (`none` = the conversion raises) -/
def convert (raws : List Raw) : Option (List Atom) := do
  let serials ← raws.mapM (fun r => intCell r.serial)
  let resSeqs ← raws.mapM (fun r => intCell r.resSeq)
  let xs ← raws.mapM (fun r => parseDec (strip r.x))
  let ys ← raws.mapM (fun r => parseDec (strip r.y))
  let zs ← raws.mapM (fun r => parseDec (strip r.z))
  let occ := floatColumn (raws.map (·.occ))
  let b := floatColumn (raws.map (·.b))
  pure (zipAtoms raws serials resSeqs xs ys zs occ b)

/-- `Structure._load_pdb` -/
def loadPdb (text : Str) : Option (List Atom) := do
  convert (← readPdbRaw text)

/-! ## mmCIF writer -/

/-- `_format_string` (with the `fix:` for empty values) -/
def formatString (s : Str) : Str :=
  if (strip s).isEmpty then ['.']
  else if s.contains ' ' then '\'' :: (s ++ ['\''])
  else if s.count '\'' = 1 then '"' :: (s ++ ['"'])
  else s

def cifNames : List String :=
  ["group_PDB", "id", "type_symbol", "label_atom_id", "label_alt_id", "label_comp_id", "label_asym_id",
   "label_entity_id", "label_seq_id", "pdbx_PDB_ins_code", "Cartn_x", "Cartn_y", "Cartn_z", "occupancy",
   "B_iso_or_equiv", "pdbx_formal_charge", "auth_seq_id", "auth_comp_id", "auth_asym_id", "auth_atom_id",
   "pdbx_PDB_model_num"]

/-- the 21 values `_write_mmcif` collects for one atom -/
def cifRow (a : Atom) : List Str :=
  [a.record, showInt a.serial, a.elem, a.name, a.alt, a.resName, a.chain.take 1, ['1'], showInt a.resSeq,
   a.ins, showDec a.x, showDec a.y, showDec a.z, showDec a.occ, showDec a.b, a.charge, showInt a.resSeq,
   a.resName, a.chain.take 1, a.name, ['1']]

abbrev Table := List (Str × List Str)

def nthCol (rows : List (List Str)) (j : Nat) : List Str := rows.map (fun r => r.getD j [])

/-- `data` of `_write_mmcif` : column name ↦ values -/
def cifColumns (atoms : List Atom) : Table :=
  let rows := atoms.map cifRow
  (List.range cifNames.length).map (fun j => ((cifNames.getD j "").toList, nthCol rows j))

def lookup (t : Table) (k : Str) : Option (List Str) := (t.find? (·.1 == k)).map (·.2)

def setCol (t : Table) (k : Str) (v : List Str) : Table :=
  if t.any (·.1 == k) then t.map (fun kv => if kv.1 == k then (k, v) else kv) else t ++ [(k, v)]

/-- Python list indexing with a possibly negative index -/
def pyIndex (l : List Str) (i : Int) : Option Str :=
  if 0 ≤ i then l[i.toNat]? else if -i ≤ l.length then l[(l.length - (-i).toNat)]? else none

/-- the `try:` block of `_write_mmcif`: records of the original file selected by
`atom_serial_number - 1`, kept only if the file's ids are pairwise distinct and the selected ones are the
structure's, coordinates replaced.
`none` = some exception → the freshly built columns are used -/
def reuseOriginal (orig : Table) (atoms : List Atom) (data : Table) : Option Table := do
  -- `fix:` the ids of the original file must be unique: with duplicates (serial numbers all 0, merged files)
  -- position `id - 1` carries the id of several atoms and all of them would be written with one atom's records
  let oids ← lookup orig "id".toList
  if ¬ oids.Nodup then none
  let idx := atoms.map (fun a => a.serial - 1)
  let sel ← orig.mapM (fun kv => do pure (kv.1, ← idx.mapM (pyIndex kv.2)))
  let ids ← lookup sel "id".toList
  if ids ≠ atoms.map (fun a => showInt a.serial) then none
  let t := setCol sel "Cartn_x".toList ((lookup data "Cartn_x".toList).getD [])
  let t := setCol t "Cartn_y".toList ((lookup data "Cartn_y".toList).getD [])
  pure (setCol t "Cartn_z".toList ((lookup data "Cartn_z".toList).getD []))

def maxLen : List Str → Nat
  | [] => 0
  | s :: r => max s.length (maxLen r)

/-- rows of a loop: every value formatted, left-justified to its column width + 1, concatenated;
`zip(*columns)` stops at the shortest column -/
def loopRows (cols : List (List Str)) : List Str :=
  let fcols := cols.map (·.map formatString)
  let padded := fcols.map (fun c => c.map (ljust (maxLen c + 1)))
  let n := match padded.map List.length with
    | [] => 0
    | l :: ls => ls.foldl min l
  (List.range n).map (fun i => (padded.map (fun c => c.getD i [])).flatten)

/-- one `loop_` category as `_write_mmcif` prints it -/
def writeLoop (category : Str) (t : Table) : Str :=
  "#\nloop_\n".toList ++ (t.map (fun kv => '_' :: category ++ ['.'] ++ kv.1 ++ ['\n'])).flatten
    ++ joinWith ['\n'] (loopRows (t.map (·.2))) ++ ['\n']

/-- the `atom_site` block written by `_write_mmcif`; `orig` is the `atom_site` table of
`metadata["filepath"]` when that file parses as mmCIF.  `none`: `chain_identifier[index][0]` raises
`IndexError` on an empty chain identifier (before anything is written) -/
def writeCif (orig : Option Table) (atoms : List Atom) : Option Str :=
  if !atoms.all pdbWritable then none else
  let data := cifColumns atoms
  let t := match orig with
    | some o => (reuseOriginal o atoms data).getD data
    | none => data
  some (writeLoop "atom_site".toList t)

/-! ## mmCIF reader -/

def removeDq (s : Str) : Str := s.filter (· ≠ '"')

/-- `_consolidate_strings` (`none`: `IndexError` on an unterminated / leading text field) -/
def consolidate : Nat → List Str → List Str → Option (List Str)
  | 0, _, acc => some acc.reverse
  | _, [], acc => some acc.reverse
  | fuel + 1, line :: rest, acc =>
    if startsWith [';'] line then
      let body := rest.takeWhile (fun l => !startsWith [';'] l)
      match rest.dropWhile (fun l => !startsWith [';'] l), acc with
      | _ :: rest', last :: acc' =>
        let s := joinWith [' '] (strip (line.drop 1) :: body)
        consolidate fuel rest' ((last ++ " \"".toList ++ removeDq s ++ ['"']) :: acc')
      | _, _ => none
    else consolidate fuel rest (removeDq line :: acc)

structure Block where
  category : Str
  lines : List Str
  deriving Repr, Inhabited

def firstDot (line : Str) : Str := (splitOn '.' line).headD []

/-- `_split_in_blocks` (`none`: `category[1:]` on `None`, `lines[0]` past the end) -/
def splitBlocksAux : List Str → Option Str → List Str → List Block → Option (List Block)
  | [], cat, block, acc =>
    if block.isEmpty then some acc.reverse else
    match cat with
    | some c => some ((⟨c.drop 1, block.reverse⟩ :: acc).reverse)
    | none => none
  | line :: rest, cat, block, acc =>
    if startsWith "data_".toList line then splitBlocksAux rest cat block acc else
    -- `if line.startswith("_")`
    let (cat1, block1, acc1) :=
      if startsWith ['_'] line ∧ some (firstDot line) ≠ cat then
        (some (firstDot line), ([] : List Str),
          match cat with
          | some c => if c.isEmpty then acc else ⟨c.drop 1, block.reverse⟩ :: acc
          | none => acc)
      else (cat, block, acc)
    -- `if line.startswith("loop_")`
    if startsWith "loop_".toList line then
      match rest with
      | [] => none
      | nxt :: _ =>
        let acc2 := match cat1 with
          | some c => if c.isEmpty then acc1 else ⟨c.drop 1, block1.reverse⟩ :: acc1
          | none => acc1
        splitBlocksAux rest (some (firstDot nxt)) [line] acc2
    else splitBlocksAux rest cat1 (line :: block1) acc1

def splitBlocks (lines : List Str) : Option (List Block) := splitBlocksAux lines none [] []

/-- the quote-aware branch of `_split_line`: split on single blanks outside `"…"`, drop empties -/
def splitQuotedAux : Str → Str → Bool → List Str
  | [], cur, _ => if cur.isEmpty then [] else [cur.reverse]
  | c :: cs, cur, inStr =>
    if c = ' ' ∧ !inStr then
      (if cur.isEmpty then splitQuotedAux cs [] inStr else cur.reverse :: splitQuotedAux cs [] inStr)
    else if c = '"' then splitQuotedAux cs (c :: cur) (!inStr)
    else splitQuotedAux cs (c :: cur) inStr

/-- `_split_line` -/
def splitLine (line : Str) : List Str :=
  if line.any (fun c => c = '\'' || c = '"') then splitQuotedAux (strip line) [] false else splitWs line

/-- "reunites broken lines" -/
def reuniteAux (n : Nat) : List Str → List (List Str) → List (List Str)
  | cur, [] => [cur]
  | cur, nxt :: rest => if cur.length + nxt.length ≤ n then reuniteAux n (cur ++ nxt) rest else cur :: reuniteAux n nxt rest
def reunite (n : Nat) : List (List Str) → List (List Str)
  | [] => []
  | a :: rest => reuniteAux n a rest

/-- second dot-separated piece, right-stripped: `line.split(".")[1].rstrip()` -/
def nameOf (line : Str) : Option Str := ((splitOn '.' line)[1]?).map rstrip

/-- `_loop_block_to_dict` (duplicate column names are not modelled → `none`) -/
def loopToDict (b : Block) : Option Table := do
  let tail := b.lines.drop 1
  let pre := '_' :: b.category
  let hdr := tail.takeWhile (startsWith pre)
  let (nameLines, body) := if hdr.length = tail.length then (([] : List Str), b.lines) else (hdr, tail.drop hdr.length)
  let names ← nameLines.mapM nameOf
  if ¬ names.Nodup then none
  let rows := reunite names.length (body.map splitLine)
  pure ((List.range names.length).map (fun j =>
    (names.getD j [], (rows.filter (fun r => j < r.length)).map (fun r => r.getD j []))))

/-- the `atom_site` category of `MMCIFParser(file)`; `none` = the parser raises or the category
is absent / not a loop -/
def parseCif (text : Str) : Option Table := do
  let ls := fileLines text
  let ls ← consolidate (ls.length + 1) ls []
  let blocks ← splitBlocks ls
  -- later blocks of the same category overwrite earlier ones (dict assignment)
  let b ← (blocks.reverse.find? (fun b => b.category == "atom_site".toList))
  if b.lines.head? ≠ some "loop_".toList then none
  loopToDict b

/-- a column of `_load_mmcif`: `result["atom_site"].get(key, ["."])`, broadcast when of length 1 -/
def cifCol (t : Table) (n : Nat) (k : String) : List Str :=
  let c := (lookup t k.toList).getD [['.']]
  if c.length = 1 then List.replicate n (c.headD []) else c

def zipRaw : List Str → List Str → List Str → List Str → List Str → List Str → List Str → List Str →
    List Str → List Str → List Str → List Str → List Str → List Str → List Str → List Str → List Raw
  | a :: as, b :: bs, c :: cs, d :: ds, e :: es, f :: fs, g :: gs, h :: hs,
    i :: is, j :: js, k :: ks, l :: ls, m :: ms, n :: ns, o :: os, p :: ps =>
    ⟨a, b, c, d, e, f, g, h, i, j, k, l, m, n, o, p⟩ :: zipRaw as bs cs ds es fs gs hs is js ks ls ms ns os ps
  | _, _, _, _, _, _, _, _, _, _, _, _, _, _, _, _ => []

/-- `Structure._load_mmcif` followed by the length check of `Structure.__post_init__`
(`none` = raises) -/
def loadCifTable (t : Table) : Option (List Atom) := do
  let xs ← lookup t "Cartn_x".toList
  let ys ← lookup t "Cartn_y".toList
  let zs ← lookup t "Cartn_z".toList
  let mapped := ["group_PDB", "id", "label_atom_id", "label_alt_id", "label_comp_id", "label_asym_id",
    "label_seq_id", "pdbx_PDB_ins_code", "occupancy", "B_iso_or_equiv", "pdbx_PDB_model_num", "type_symbol",
    "pdbx_formal_charge"]
  let lens := mapped.map (fun k => ((lookup t k.toList).getD [['.']]).length)
  let n := lens.foldl max 0
  let c := cifCol t n
  let n3 := xs.length
  if ¬ (ys.length = n3 ∧ zs.length = n3) then none
  let cols := mapped.map c
  if ¬ cols.all (fun col => col.length = n3) then none
  let raws := zipRaw (c "group_PDB") (c "id") (c "label_atom_id") (c "label_alt_id") (c "label_comp_id")
    (c "label_asym_id") (c "label_seq_id") (c "pdbx_PDB_ins_code") xs ys zs (c "occupancy") (c "B_iso_or_equiv")
    (c "pdbx_PDB_model_num") (c "type_symbol") (c "pdbx_formal_charge")
  convert raws

def loadCif (text : Str) : Option (List Atom) := do loadCifTable (← parseCif text)

/-- the sixteen column names `_load_mmcif` asks for: Cartn_x/y/z and the values of its `atom_site_mapping`
(extracted from the source on every run and compared with this constant) -/
def cifReadNames : List Str :=
  ["Cartn_x", "Cartn_y", "Cartn_z", "group_PDB", "id", "label_atom_id", "label_alt_id", "label_comp_id", "label_asym_id",
   "label_seq_id", "pdbx_PDB_ins_code", "occupancy", "B_iso_or_equiv", "pdbx_PDB_model_num", "type_symbol",
   "pdbx_formal_charge"].map String.toList

/-! ## filters of `Structure.from_file` -/

/-- an empty filter set means "no filter" -/
def keepAtom (keepNonAtom : Bool) (elems resNames : List Str) (a : Atom) : Bool :=
  (elems.isEmpty || elems.contains a.elem) && (resNames.isEmpty || resNames.contains a.resName) &&
  (keepNonAtom || a.record == "ATOM".toList)

def filterAtoms (keepNonAtom : Bool) (elems resNames : List Str) (atoms : List Atom) : List Atom :=
  atoms.filter (keepAtom keepNonAtom elems resNames)

end Pm.C09
