import PytmeModel.Model.C10
/-!
C10, kernels — the weight types of `Structure.to_volume` that are not point weights, and the file-level filters.

* `van_der_waals_radius` (`_position_to_vdw_sphere`): the voxel set of one atom is an integer predicate (`inSphere`);
  the slice arithmetic of the code (`start/stop`, `start_index/stop_index`) is mirrored by `vdwAxis`.
* `scattering_factors` / `lowpass_scattering_factors` (`_position_to_scattering_factors`): the SUPPORT (which voxels
  receive a contribution) is modelled in integers; the spline values are floats and are not modelled.
* `gaussian` (`_position_to_molmap`): the deposit BEFORE the Gaussian filter (own origin, padding, shape) is modelled;
  the filter is float-valued and is not modelled.
* `Structure.from_file(filter_by_elements, filter_by_residues, keep_non_atom_records)` as used by
  `Density.from_structure` on a path.
-/
namespace Pm.C10

/-- `Elements._elements[...].vdwr` (picometres).  `none` = NaN in the table.  Compared with the repository by
reflection on every run (`ctx.obligation "vdwr-table"`). -/
def vdwrTable : List (String × Option Nat) := [
  ("H", some 110), ("HE", some 140), ("LI", some 182), ("BE", some 153), ("B", some 192), ("C", some 170),
  ("N", some 155), ("O", some 152), ("F", some 147), ("NE", some 154), ("NA", some 227), ("MG", some 173),
  ("AL", some 184), ("SI", some 210), ("P", some 180), ("S", some 180), ("CL", some 175), ("AR", some 188),
  ("K", some 275), ("CA", some 231), ("SC", some 215), ("TI", some 211), ("V", some 207), ("CR", some 206),
  ("MN", some 205), ("FE", some 204), ("CO", some 200), ("NI", some 197), ("CU", some 196), ("ZN", some 201),
  ("GA", some 187), ("GE", some 211), ("AS", some 185), ("SE", some 190), ("BR", some 185), ("KR", some 202),
  ("RB", some 303), ("SR", some 249), ("Y", some 232), ("ZR", some 223), ("NB", some 218), ("MO", some 217),
  ("TC", some 216), ("RU", some 213), ("RH", some 210), ("PD", some 210), ("AG", some 211), ("CD", some 218),
  ("IN", some 193), ("SN", some 217), ("SB", some 206), ("TE", some 206), ("I", some 198), ("XE", some 216),
  ("CS", some 343), ("BA", some 268), ("LA", some 243), ("CE", some 242), ("PR", some 240), ("ND", some 239),
  ("PM", some 238), ("SM", some 236), ("EU", some 235), ("GD", some 234), ("TB", some 233), ("DY", some 231),
  ("HO", some 230), ("ER", some 229), ("TM", some 227), ("YB", some 226), ("LU", some 224), ("HF", some 223),
  ("TA", some 222), ("W", some 218), ("RE", some 216), ("OS", some 216), ("IR", some 213), ("PT", some 213),
  ("AU", some 214), ("HG", some 223), ("TL", some 196), ("PB", some 202), ("BI", some 207), ("PO", some 197),
  ("AT", some 202), ("RN", some 220), ("FR", some 348), ("RA", some 283), ("AC", some 247), ("TH", some 245),
  ("PA", some 243), ("U", some 241), ("NP", some 239), ("PU", some 243), ("AM", some 244), ("CM", some 245),
  ("BK", some 244), ("CF", some 245), ("ES", some 245), ("FM", some 245), ("MD", some 246), ("NO", some 246),
  ("LR", some 246), ("RF", none), ("DB", none), ("SG", none), ("BH", none), ("HS", none),
  ("MT", none), ("DS", none), ("RG", none), ("CN", none), ("NH", none), ("FL", none),
  ("MC", none), ("LV", none), ("TS", none), ("OG", none)]

/-- `self._elements[sym].vdwr`: symbols that are no key get `_default.vdwr = 0` -/
def vdwrOf (sym : String) : Option Nat :=
  match vdwrTable.find? (fun e => e.1 == sym) with
  | none => some 0
  | some e => e.2

/-- `np.ceil` on an exact value -/
def ceilQ (q : Rat) : Int := -((-q).floor)

/-- `np.ceil(np.divide(vdwr, sampling_rate * 100)).astype(int)`, one entry per axis -/
def vdwRadius (vdwr : Nat) (rate : List Rat) : List Int :=
  rate.map (fun r => ceilQ ((vdwr : Rat) / (r * 100)))

/-- `Σ (d_i / k_i)²` -/
def sphereSum : List Int → List Int → Rat
  | d :: ds, k :: ks => ((d : Rat) / (k : Rat)) * ((d : Rat) / (k : Rat)) + sphereSum ds ks
  | _, _ => 0

/-- the footprint predicate `np.linalg.norm(mgrid / k, axis=0) <= 1` at offset `d` from the atom's voxel; a zero radius
makes the quotient `0/0 = nan` and `nan <= 1` is False, so nothing is deposited -/
def inSphere (k d : List Int) : Bool :=
  k.all (fun x => decide (0 < x)) && decide (sphereSum d k ≤ 1)

/-- the footprint ARRAY of shape `2k+1`: entry `j` (0-based) is the predicate at offset `j - k` -/
def footprintAt (k j : List Int) : Int := if inSphere k (List.zipWith (· - ·) j k) then 1 else 0

/-- one axis of the slice arithmetic of `_position_to_vdw_sphere` -/
structure AxisSlice where
  start : Int      -- volume slice
  stop : Int
  startIdx : Int   -- footprint slice
  stopIdx : Int
deriving Repr

def vdwAxis (p k n : Int) : AxisSlice :=
  { start := max (p - k) 0
    stop := min (p + k + 1) n
    startIdx := max (-(p - k)) 0
    stopIdx := (2 * k + 1) + min (n - (p + k + 1)) 0 }

/-- Python slice `a[lo:hi]` on an axis of length `len` with `lo, hi ≥ 0`: the selected indices are `lo ≤ i < min hi len`;
number of selected elements -/
def sliceLen (lo hi len : Int) : Int := max (min hi len - min lo len) 0

/-- the two slices have the same length (otherwise `+=` raises a broadcast error), no negative bound (which Python
would wrap around) -/
def AxisSlice.ok (s : AxisSlice) (k n : Int) : Bool :=
  decide (0 ≤ s.start) && decide (0 ≤ s.stop) && decide (0 ≤ s.startIdx) && decide (0 ≤ s.stopIdx) &&
  decide (sliceLen s.start s.stop n = sliceLen s.startIdx s.stopIdx (2 * k + 1))


/-- `volume[volume_slice] += footprint[index_slice]` seen from voxel `v`: the footprint index that is added to `v`
(per axis), if `v` lies in the volume slice -/
def vdwSrc : List Int → List Int → List Int → List Int → Option (List Int)
  | p :: ps, k :: ks, n :: ns, v :: vs =>
    let s := vdwAxis p k n
    if s.start ≤ v ∧ v < min s.stop n then
      match vdwSrc ps ks ns vs with
      | some js => some ((s.startIdx + (v - s.start)) :: js)
      | none => none
    else none
  | [], [], [], [] => some []
  | _, _, _, _ => none

/-- contribution of one atom (voxel `p`, radii `k`) to voxel `v` of a volume of shape `shape` -/
def vdwContribution (shape p k v : List Int) : Int :=
  match vdwSrc p k shape v with
  | some j => footprintAt k j
  | none => 0

def slicesOk : List Int → List Int → List Int → Bool
  | p :: ps, k :: ks, n :: ns => (vdwAxis p k n).ok k n && slicesOk ps ks ns
  | _, _, _ => true

/-- `_position_to_vdw_sphere`: `placedK` = (voxel, radii) of the atoms that passed the bounds filter -/
def vdwDeposit (shape : List Int) (placedK : List (List Int × List Int)) : Except String (Arr Int) :=
  if placedK.all (fun pk => slicesOk pk.1 pk.2 shape) then
    .ok (Arr.ofFn (toNats shape) (fun v =>
      (placedK.map (fun pk => vdwContribution shape pk.1 pk.2 (v.map Int.ofNat))).sum))
  else .error "Broadcast"

/-! ## scattering factors: support -/

/-- `starts = max(ceil(point - radius), 0)`, `stops = min(floor(point + radius), shape)`; the voxels are `range(start, stop)` -/
def scatRange (p : Int) (R : Rat) (n : Int) : Int × Int :=
  (max (ceilQ ((p : Rat) - R)) 0, min (((p : Rat) + R).floor) n)

def rangeEmpty (r : Int × Int) : Bool := decide (r.2 ≤ r.1)

inductive ScatSupport
  | box (ranges : List (Int × Int))   -- the full product of the ranges
  | point                             -- `if not len(distances)`: the value at distance 0 goes to the atom's voxel
  | indexError                        -- an empty `range` elsewhere: `np.meshgrid` yields float arrays, `np.add.at` raises
deriving Repr

/-- `np.meshgrid(*ranges)` (indexing "xy") has the length of the SECOND range as its first extent, and that is what
`len(distances)` looks at -/
def scatSupport (p : List Int) (R : List Rat) (shape : List Int) : ScatSupport :=
  let rs := zip3 scatRange p R shape
  if rangeEmpty (rs.getD 1 (0, 0)) then .point
  else if rs.any rangeEmpty then .indexError
  else .box rs

def inRanges : List (Int × Int) → List Int → Bool
  | r :: rs, v :: vs => (decide (r.1 ≤ v) && decide (v < r.2)) && inRanges rs vs
  | [], [] => true
  | _, _ => false

/-- does voxel `v` receive a contribution from the atom at voxel `p` -/
def scatCovers (p : List Int) (R : List Rat) (shape v : List Int) : Bool :=
  match scatSupport p R shape with
  | .box rs => inRanges rs v
  | .point => v == p
  | .indexError => false

/-- per-axis radius in voxels: `vdwr / (sampling_rate * 100)` -/
def scatRadius (vdwr : Nat) (rate : List Rat) : List Rat := rate.map (fun r => (vdwr : Rat) / (r * 100))

/-- number of atoms that contribute to each voxel (`placedR` = voxel and radii of the atoms inside) -/
def scatCount (shape : List Int) (placedR : List (List Int × List Rat)) : Except String (Arr Int) :=
  if placedR.any (fun pr => match scatSupport pr.1 pr.2 shape with | .indexError => true | _ => false) then
    .error "IndexError"
  else .ok (Arr.ofFn (toNats shape) (fun v =>
    (placedR.map (fun pr => if scatCovers pr.1 pr.2 shape (v.map Int.ofNat) then (1 : Int) else 0)).sum))

/-! ## gaussian (`_position_to_molmap`): the deposit before the filter -/

structure Molmap where
  origin : List Rat
  shape : List Int
  positions : List (List Int)
  grid : Arr Int

/-- `coords` in z,y,x order (the code reverses the x,y,z columns), `pad` the padding in voxels (float-derived in the
code; a parameter here), weights = atomic numbers -/
def molmap (nd : Nat) (pad : Nat) (rate : List Rat) (coords : List (List Rat)) (weights : List Int) : Molmap :=
  let origin := zip3 (fun (m : Rat) (r : Rat) (_ : Unit) => m - (pad : Rat) * r)
    ((List.range nd).map (fun k => minQ (col 0 k coords))) rate (List.replicate nd ())
  let pos := coords.map (idxOf origin rate)
  let shape := (List.range nd).map (fun k => maxL (col 0 k pos) + (pad : Int) + 1)
  ⟨origin, shape, pos, deposit (toNats shape) (List.zipWith (fun p w => (toNats p, w)) pos weights)⟩

/-! ## `to_volume` with every weight type -/

inductive WKind
  | point (wt : WType)
  | vdw
  | scattering       -- `scattering_factors` and `lowpass_scattering_factors` (same support)
  | gaussian (pad : Nat)
  | unknown          -- any other string: `NotImplementedError` before anything else
deriving Repr

structure OutK where
  shape : List Int
  origin : List Rat
  rate : List Rat
  outside : Nat
  positions : List (List Int)   -- voxels of the atoms inside, in input order
  grid : Arr Int                -- point: weights; vdw: number of spheres covering; scattering: number of supports covering;
                                -- gaussian: atomic numbers before the filter

/-- the radius table entry of a kept atom (NaN entries are refused before) -/
def vdwrD (sym : String) : Nat := (vdwrOf sym).getD 0

def toVolumeK (nd : Nat) (atoms : List Atom) (shape : Option (List Int)) (rate : Option (List Rat))
    (origin : Option (List Rat)) (chain : Option String) (wk : WKind) : Except String OutK :=
  match wk with
  | .unknown => .error "NotImplemented"
  | .point wt =>
    match toVolume nd atoms shape rate origin chain wt with
    | .error e => .error e
    | .ok o => .ok ⟨o.shape, o.origin, o.rate, o.outside, o.kept.map (·.1), o.grid⟩
  | _ =>
    match resolveRate nd rate with
    | none => .error "BadRate"
    | some r =>
      let sub := subsetByChain chain atoms
      if sub.isEmpty && !(origin.isSome && shape.isSome) then .error "Empty"
      else
        let fr := frame nd (sub.map (fun a => a.xyz.reverse)) shape r origin
        let all := sub.map (fun a => (posOf r fr a.xyz.reverse, a.elem))
        let kept := all.filter (fun pe => inBox fr.shape pe.1)
        let outside := sub.length - kept.length
        match wk with
        | .vdw =>
          if kept.any (fun pe => (vdwrOf pe.2).isNone) then .error "NaNRadius"
          else
            match vdwDeposit fr.shape (kept.map (fun pe => (pe.1, vdwRadius (vdwrD pe.2) r))) with
            | .error e => .error e
            | .ok g => .ok ⟨fr.shape, fr.origin, r, outside, kept.map (·.1), g⟩
        | .scattering =>
          if kept.any (fun pe => (vdwrOf pe.2).isNone) then .error "NaNRadius"
          else
            match scatCount fr.shape (kept.map (fun pe => (pe.1, scatRadius (vdwrD pe.2) r))) with
            | .error e => .error e
            | .ok g => .ok ⟨fr.shape, fr.origin, r, outside, kept.map (·.1), g⟩
        | .gaussian pad =>
          -- weights come from the atoms that passed the bounds filter, positions from ALL atoms of the subset:
          -- `np.add.at` broadcasts a single weight to every atom and raises when the lengths differ otherwise
          let kw := kept.map (fun pe => weightOf .atomicNumber pe.2)
          let ws : Option (List Int) :=
            if kept.length = sub.length then some kw
            else match kw with
              | [w] => some (List.replicate sub.length w)
              | _ => none
          match ws with
          | none => .error "Mismatch"
          | some ws =>
            if sub.isEmpty then .error "Empty"
            else
              let m := molmap nd pad r (sub.map (fun a => a.xyz.reverse)) ws
              .ok ⟨m.shape, m.origin, r, outside, m.positions, m.grid⟩
        | _ => .error "unreachable"

/-! ## `Structure.from_file` filters (as used by `Density.from_structure(path, …)`) -/

structure Rec where
  atom : Atom
  resname : String
  record : String     -- "ATOM" / "HETATM"

/-- `if filter_by_elements:` — `None` and the EMPTY set both mean "no filter" -/
def setFilter (s : Option (List String)) (x : String) : Bool :=
  match s with
  | none => true
  | some [] => true
  | some l => l.contains x

/-- the `keep` mask of `Structure.from_file` -/
def fileKeep (elems residues : Option (List String)) (keepNonAtom : Bool) (r : Rec) : Bool :=
  setFilter elems r.atom.elem && setFilter residues r.resname && (keepNonAtom || r.record == "ATOM")

/-- `Density.from_structure(path, shape, sampling_rate, origin, weight_type, …, chain, filter_by_elements,
filter_by_residues)` after the file is parsed into records -/
def fromFileK (nd : Nat) (recs : List Rec) (elems residues : Option (List String)) (shape : Option (List Int))
    (rate : Option (List Rat)) (origin : Option (List Rat)) (chain : Option String) (wk : WKind) : Except String OutK :=
  toVolumeK nd ((recs.filter (fileKeep elems residues false)).map (·.atom)) shape rate origin chain wk

/-! ## the statement for the van der Waals volume, as a function (used by the harness on the *real* outputs):
voxel `v` holds the number of atoms inside the box whose sphere (radius `ceil(vdwr/(100·rate))` voxels per axis,
centred on `round((zyx − origin)/rate)`) contains `v` — no slices involved -/
def specVdw (origin rate : List Rat) (shape : List Int) (atoms : List (List Rat × Nat)) (v : List Int) : Int :=
  ((atoms.filter (fun a =>
    let p := idxOf origin rate a.1.reverse
    inBox shape p && inSphere (vdwRadius a.2 rate) (List.zipWith (· - ·) v p))).length : Int)

end Pm.C10
