import PytmeModel.Model.Common
/-!
C08 — density files: EM byte layout, MRC header fields, row-wise binary sub-box reader,
gzip sniffing, format dispatch by file name, memory-mapped vs in-memory reads.

Mirrors `tme/density.py`: `Density.from_file`, `_load_mrc`, `_load_em`, `_validate_slices`,
`_read_binary_subset`, `_load_hdf5` (slicing only), `to_file`, `_save_mrc`, `_save_em`,
`is_gzipped` — after the `fix:` commits of this property (EM dimension order, EM sub-box dtype,
exact full-box shortcut, memmap on compressed input, float32 payload for dtypes without an EM
type code, sub-box axes under a permuted `mapc/mapr/maps`).  The pre-fix variants are kept
(`emHeaderOld`, `allcloseShape`, `emWriteDtypeOld`, `mrcCrsBoxOld`) for the `…_current_defect`
witnesses.

A file is a list of bytes (`Nat < 256`).  A voxel is its bit pattern, a `Nat < 256^b` (`b` =
item size), so "exactly, as 32-bit floats" is identity of bit patterns.  Floating-point casts
(`astype(float32)`), `mrcfile`, `h5py` and `gzip` are outside the model; `gzip` enters as a
pair of functions with a contract.
-/
namespace Pm.C08

abbrev Bytes := List Nat

/-! ## little-endian words -/

/-- the `b` little-endian bytes of `v` (numpy `"<u{b}"`.tobytes()) -/
def leBytes : Nat → Nat → Bytes
  | 0, _ => []
  | b+1, v => (v % 256) :: leBytes b (v / 256)

/-- value of a little-endian byte string -/
def leVal : Bytes → Nat
  | [] => 0
  | x :: xs => x + 256 * leVal xs

/-- two's complement: int32 → its unsigned 32-bit pattern and back -/
def i32ToU (x : Int) : Nat := (x % 4294967296).toNat
def uToI32 (n : Nat) : Int := if n < 2147483648 then (n : Int) else (n : Int) - 4294967296

/-- bytes `[off, off+len)` of a file (python `f.seek(off); f.read(len)`; short at EOF) -/
def rd (f : Bytes) (off len : Nat) : Bytes := (f.drop off).take len

/-- the token of `b` bytes at byte offset `off` (`np.frombuffer(..., dtype)[k]`) -/
def rdTok (f : Bytes) (off b : Nat) : Nat :=
  leVal ((List.range b).map (fun t => f.getD (off + t) 0))

/-- `n` consecutive tokens starting at `off` (`np.frombuffer(f.read(n*b), dtype)`) -/
def readRow (f : Bytes) (off n b : Nat) : List Nat :=
  (List.range n).map (fun k => rdTok f (off + k * b) b)

/-- payload: tokens in row-major order, each as `b` little-endian bytes (`data.tobytes()`) -/
def payload (b : Nat) (data : List Nat) : Bytes := data.flatMap (leBytes b)

/-! ## gzip sniffing (`is_gzipped`) and the gzip contract -/

/-- `f.read(2) == b"\x1f\x8b"` -/
def isGz (f : Bytes) : Bool := f.take 2 == [31, 139]

/-- what `gzip` has to satisfy: output carries the magic number and decompresses to the input -/
structure GzipContract (gz gunz : Bytes → Bytes) : Prop where
  magic : ∀ x, isGz (gz x) = true
  inv : ∀ x, gunz (gz x) = x

/-- bytes handed to the parser: gunzipped iff the magic number is present
(`func = gzip_open if is_gzipped(filename) else open`) -/
def openMaybeGz (gunz : Bytes → Bytes) (f : Bytes) : Bytes := if isGz f then gunz f else f

/-- `to_file(..., gzip)` at byte level: `gzip_open(filename, "wb")` or `open` -/
def writeMaybeGz (gz : Bytes → Bytes) (gzip : Bool) (content : Bytes) : Bytes :=
  if gzip then gz content else content

/-! ## format dispatch by file name (`to_file` / `from_file`) -/

inductive Fmt | mrc | em | h5
deriving DecidableEq, Repr

def endsWith (s suf : List Char) : Bool := suf.isSuffixOf s

/-- `to_file`: ".gz" appended when `gzip` and not already there -/
def finalName (name : List Char) (gzip : Bool) : List Char :=
  if gzip && !(endsWith name ".gz".toList) then name ++ ".gz".toList else name

/-- writer selected by `to_file` for the (final) file name -/
def saveFmt (name : List Char) : Fmt :=
  if endsWith name "em".toList || endsWith name "em.gz".toList then .em
  else if endsWith name "h5".toList || endsWith name "h5.gz".toList then .h5
  else .mrc

/-- reader selected by `from_file` -/
def loadFmt (name : List Char) : Fmt :=
  if endsWith name "em".toList || endsWith name "em.gz".toList then .em
  else if endsWith name "h5".toList || endsWith name "h5.gz".toList then .h5
  else .mrc

/-! ## EM files -/

/-- `DATA_TYPE_MAPPING` of `_save_em`: numpy dtype name → EM type code (default 5) -/
def emSaveTable : List (String × Nat) :=
  [("int8", 1), ("int16", 2), ("int32", 3), ("float32", 5), ("float64", 6), ("complex64", 8), ("complex128", 9)]

/-- `DATA_TYPE_CODING` of `_load_em`: EM type code → numpy dtype name -/
def emLoadTable : List (Nat × String) :=
  [(1, "int8"), (2, "int16"), (3, "int32"), (5, "float32"), (6, "float64"), (8, "complex64"), (9, "complex128")]

def dtypeSize : String → Option Nat
  | "int8" => some 1 | "int16" => some 2 | "int32" => some 4 | "float32" => some 4
  | "float64" => some 8 | "complex64" => some 8 | "complex128" => some 16
  | _ => none

def emCodeOf (dtype : String) : Nat := ((emSaveTable.find? (·.1 == dtype)).map (·.2)).getD 5
def emDtypeOf (code : Nat) : Option String := (emLoadTable.find? (·.1 == code)).map (·.2)
def emItemsize (code : Nat) : Option Nat := (emDtypeOf code).bind dtypeSize

/-- the dtype `_save_em` puts on disk (after `fix: store dtypes without an EM type code as float32`):
a dtype that has an EM type code is written as it is, every other one (unsigned, half precision,
64-bit integers, bool, non-native byte order — the harness names those `…-be`) is cast to float32 -/
def emWriteDtype (dtype : String) : String :=
  if emSaveTable.any (·.1 == dtype) then dtype else "float32"

/-- the type code `_save_em` writes for a density held as `dtype` -/
def emWriteCode (dtype : String) : Nat := emCodeOf (emWriteDtype dtype)

/-- before that fix: the code defaulted to 5 (float32) while the payload stayed in `dtype` -/
def emWriteDtypeOld (dtype : String) : String := dtype

/-- `b" " * n` -/
def spaces (n : Nat) : Bytes := List.replicate n 32

/-- 40 int32 user parameters, all zero except index 6 = sampling rate in 1/1000 Å -/
def emUserParams (rateMilli : Int) : Bytes :=
  payload 4 ((List.range 40).map (fun i => if i = 6 then i32ToU rateMilli else 0))

/-- the 512-byte EM header written by `_save_em`; `shape` is the numpy shape (slowest axis
first), the header lists the dimensions fastest axis first -/
def emHeader (code : Nat) (shape : List Nat) (rateMilli : Int) : Bytes :=
  [0, 0, 0, code] ++ shape.reverse.flatMap (leBytes 4) ++ spaces 80 ++
    emUserParams rateMilli ++ spaces 256

/-- the header as written before `fix: write EM header dimensions fastest axis first` -/
def emHeaderOld (code : Nat) (shape : List Nat) (rateMilli : Int) : Bytes :=
  [0, 0, 0, code] ++ shape.flatMap (leBytes 4) ++ spaces 80 ++
    emUserParams rateMilli ++ spaces 256

/-- `_save_em` -/
def emEncode (code b : Nat) (shape : List Nat) (rateMilli : Int) (data : List Nat) : Bytes :=
  emHeader code shape rateMilli ++ payload b data

def emEncodeOld (code b : Nat) (shape : List Nat) (rateMilli : Int) (data : List Nat) : Bytes :=
  emHeaderOld code shape rateMilli ++ payload b data

structure EmParsed where
  code : Nat
  shape : List Nat
  rateMilli : Int
  hdr : Nat
deriving DecidableEq, Repr

/-- header part of `_load_em`: type code at byte 3, three int32 dimensions reversed into numpy
order, 80 bytes skipped, 40 int32 user parameters, 256 bytes skipped -/
def emParse (f : Bytes) : Option EmParsed :=
  if f.length < 512 then none else
  let dims := (List.range 3).map (fun i => rdTok f (4 + 4 * i) 4)
  some ⟨f.getD 3 0, dims.reverse, uToI32 (rdTok f (96 + 4 * 6) 4), 512⟩

/-- `_load_em(subset=None, use_memmap=False)`: `frombuffer(f.read(prod(shape)*b)).reshape(shape)` -/
def emDecode (f : Bytes) : Option (EmParsed × List Nat) :=
  match emParse f with
  | none => none
  | some p =>
    match emItemsize p.code with
    | none => none
    | some b =>
      if f.length < p.hdr + prodL p.shape * b then none
      else some (p, readRow f p.hdr (prodL p.shape) b)

/-- `_load_em(subset=None, use_memmap=True)`: `np.memmap(f, offset=512)` maps everything up
to the end of the file, `reshape` then demands exactly `prod(shape)` items -/
def emDecodeMemmap (f : Bytes) : Option (EmParsed × List Nat) :=
  match emParse f with
  | none => none
  | some p =>
    match emItemsize p.code with
    | none => none
    | some b =>
      if b = 0 then none else
      let n := (f.length - p.hdr) / b
      if n ≠ prodL p.shape then none else some (p, readRow f p.hdr n b)

/-- sampling rate returned by `_load_em` in 1/1000 Å: 0 is "missing" and becomes 1 Å -/
def emRateOut (rateMilli : Int) : Int := if rateMilli = 0 then 1000 else rateMilli

/-! ## sub-box reads -/

/-- a box is a list of `(start, stop)` per axis -/
abbrev Box := List (Int × Int)

/-- `_validate_slices`: `none` = accepted, `some e` = the ValueError raised -/
def validateSlices (box : Box) (shape : List Nat) : Option String :=
  if box.length ≠ shape.length then some "Length"
  else if (List.zip box shape).any (fun (s, n) => decide (s.2 > (n : Int)) || decide (s.1 > (n : Int))) then some "Exceeds"
  else if box.any (fun s => decide (s.2 < 0) || decide (s.1 < 0)) then some "Negative"
  else none

/-- per-axis extents `stop - start` -/
def boxShape (box : Box) : List Int := box.map (fun s => s.2 - s.1)

/-- the full-volume shortcut after `fix: take the full-volume shortcut only when … exactly` -/
def isFullBox (box : Box) (shape : List Nat) : Bool := boxShape box == shape.map (fun (n : Nat) => (n : Int))

/-- the shortcut before the fix: `np.allclose(subset_shape, data_shape)` on integers, i.e.
`|a - b| ≤ 1e-8 + 1e-5·|b|`, which for integers is `100000·|a-b| ≤ b` -/
def allcloseShape (sub : List Int) (shape : List Nat) : Bool :=
  sub.length == shape.length &&
  (List.zip sub shape).all (fun (a, n) => decide (100000 * (a - (n : Int)).natAbs ≤ n))

/-- byte offset of row `(z, y)` starting at column `x0` -/
def rowOffset (header ny nx b z y x0 : Nat) : Nat :=
  header + z * ny * (nx * b) + y * (nx * b) + x0 * b

/-- `_read_binary_subset` on a 3-D file: for z, for y: seek, read one row, store it -/
def readRows (f : Bytes) (header ny nx b z0 z1 y0 y1 x0 x1 : Nat) : List Nat :=
  (List.range (z1 - z0)).flatMap (fun i =>
    (List.range (y1 - y0)).flatMap (fun j =>
      readRow f (rowOffset header ny nx b (z0 + i) (y0 + j) x0) (x1 - x0) b))

inductive Res (α : Type) | ok (v : α) | err (e : String)
deriving Repr

/-- `_read_binary_subset`: rank check, `_validate_slices`, negative extents (numpy refuses to
allocate), short reads (`frombuffer`/assignment fail), then the row loop. -/
def readSubset (f : Bytes) (header : Nat) (shape : List Nat) (b : Nat) (box : Box) : Res (Arr Nat) :=
  match shape with
  | [_, ny, nx] =>
    match validateSlices box shape with
    | some e => .err e
    | none =>
      match box with
      | [(z0, z1), (y0, y1), (x0, x1)] =>
        if z1 < z0 ∨ y1 < y0 ∨ x1 < x0 then .err "NegativeExtent" else
        let (z0, z1, y0, y1, x0, x1) := (z0.toNat, z1.toNat, y0.toNat, y1.toNat, x0.toNat, x1.toNat)
        if z0 < z1 ∧ y0 < y1 ∧ x0 < x1 ∧
            f.length < rowOffset header ny nx b (z1 - 1) (y1 - 1) x0 + (x1 - x0) * b then .err "ShortRead"
        else .ok ⟨[z1 - z0, y1 - y0, x1 - x0], (readRows f header ny nx b z0 z1 y0 y1 x0 x1).toArray⟩
      | _ => .err "Length"
  | _ => .err "NotImplemented"

/-- numpy basic slicing of a 3-D row-major array with in-range `start ≤ stop` (the reference
every sub-box read is compared with; also what `h5py` / `memmap[subset]` do) -/
def sliceArr (a : Arr Nat) (box : Box) : Arr Nat :=
  Arr.ofFn (boxShape box |>.map Int.toNat)
    (fun idx => a.getD (List.zipWith (fun (s : Int × Int) i => s.1.toNat + i) box idx) 0)

/-- a sub-box read of a binary file with a fixed-size header (`_load_mrc` / `_load_em` with
`subset`): full-box shortcut first, otherwise the row reader. `full` is what the
format's own full reader returns. -/
def loadSubset (f : Bytes) (header : Nat) (shape : List Nat) (b : Nat) (box : Box) : Res (Arr Nat) :=
  if isFullBox box shape then
    (if f.length < header + prodL shape * b then .err "ShortRead"
     else .ok ⟨shape, (readRow f header (prodL shape) b).toArray⟩)
  else readSubset f header shape b box

/-- `_load_mrc` completes a short `subset` tuple with full slices and ignores extra entries
(standard axis order) -/
def mrcPadBox (box : Box) (shape : List Nat) : Box :=
  (List.range shape.length).map (fun i => box.getD i (0, (shape.getD i 0 : Int)))

/-! ## MRC header fields (`_save_mrc` through `mrcfile`, `_load_mrc`) -/

/-- `np.rint` on rationals: round half to even -/
def rint (q : Rat) : Int :=
  let fl := q.floor
  let r := q - (fl : Rat)
  if r < 1/2 then fl else if 1/2 < r then fl + 1 else if fl % 2 = 0 then fl else fl + 1

/-- header words the round trip depends on (x, y, z order as in the file) -/
structure MrcFields where
  nxyz : List Nat          -- nx, ny, nz          (words 1-3)
  mode : Nat               -- 2 = float32         (word 4)
  nstart : List Int        -- nxstart, nystart, nzstart (words 5-7)
  mxyz : List Nat          -- mx, my, mz          (words 8-10)
  cella : List Rat         -- cell edge x, y, z   (words 11-13)
  mapcrs : List Nat        -- mapc, mapr, maps    (words 17-19)
  origin : List Rat        -- origin x, y, z      (words 50-52)
  nsymbt : Nat             -- extended header bytes (word 24)
deriving DecidableEq, Repr

def zipMul (a : List Rat) (b : List Nat) : List Rat := List.zipWith (fun x (n : Nat) => x * (n : Rat)) a b
def zipDiv (a : List Rat) (b : List Nat) : List Rat := List.zipWith (fun x (n : Nat) => x / (n : Rat)) a b

/-- `_save_mrc`: `shape`, `origin`, `rate` in numpy (z, y, x) order -/
def mrcFields (shape : List Nat) (origin rate : List Rat) : MrcFields :=
  { nxyz := shape.reverse
    mode := 2
    nstart := (List.zipWith (fun o s => rint (o / s)) origin rate).reverse
    mxyz := shape.reverse
    cella := zipMul rate.reverse shape.reverse
    mapcrs := [1, 2, 3]
    origin := origin.reverse
    nsymbt := 0 }

/-- `np.allclose(v, 0)` for exact numbers: every `|v_i| ≤ 1e-8` -/
def allTiny (v : List Rat) : Bool := v.all (fun x => decide (-(1 / 100000000 : Rat) ≤ x ∧ x ≤ 1 / 100000000))

structure MrcParsed where
  shape : List Nat
  origin : List Rat
  rate : List Rat
  header : Nat
  crs : List Nat
deriving DecidableEq, Repr

/-- header part of `_load_mrc` (standard axis order; a non-standard or malformed
`mapc/mapr/maps` is reported as such) -/
def mrcRead (h : MrcFields) : Res MrcParsed :=
  let crs := h.mapcrs.map (· - 1)
  if !(crs.contains 0 && crs.contains 1 && crs.contains 2) then .err "MalformedCRS" else
  let origin := h.origin.reverse
  let start := h.nstart.reverse
  let rate := (zipDiv h.cella h.mxyz).reverse
  let origin := if allTiny origin && !(start.all (· == 0))
    then List.zipWith (fun (s : Int) r => (s : Rat) * r) start rate else origin
  .ok ⟨h.nxyz.reverse, origin, rate, 1024 + h.nsymbt, crs⟩

/-! ## MRC files with a non-standard `mapc/mapr/maps`

`_load_mrc` returns `np.transpose(data, crs)` (`crs = (mapc-1, mapr-1, maps-1)`), so axis `k` of
what the caller sees is file axis `crs[k]`; a sub-box is given in the caller's axes. -/

/-- `[l[p[0]], l[p[1]], …]` (`np.take(l, p)`; the shape of `np.transpose(a, p)`) -/
def permute {α : Type} (p : List Nat) (l : List α) (d : α) : List α := p.map (fun i => l.getD i d)

/-- `np.argsort(p)` for a permutation `p` of `0..n-1`: the position of `j` in `p` -/
def invPerm (p : List Nat) : List Nat := (List.range p.length).map (fun j => p.idxOf j)

/-- `np.transpose(a, p)`: `out[idx] = a[j]` with `j[p[k]] = idx[k]` -/
def transposeArr (a : Arr Nat) (p : List Nat) : Arr Nat :=
  Arr.ofFn (permute p a.shape 0) (fun idx => a.getD (permute (invPerm p) idx 0) 0)

/-- the box handed to the row reader, in file axes (after `fix: sub-box of an MRC file with permuted
MAPC/MAPR/MAPS …`): file axis `j` is the caller's axis `argsort(crs)[j]`; missing entries are full -/
def mrcCrsBox (crs : List Nat) (box : Box) (shape : List Nat) : Box :=
  (List.range shape.length).map (fun j => box.getD ((invPerm crs).getD j 0) (0, (shape.getD j 0 : Int)))

/-- before the fix: file axis `j` got the caller's entry `crs[j]` (right only when `crs∘crs = id`) -/
def mrcCrsBoxOld (crs : List Nat) (box : Box) (shape : List Nat) : Box :=
  (List.range shape.length).map (fun j => box.getD (crs.getD j 0) (0, (shape.getD (crs.getD j 0) 0 : Int)))

/-- `_load_mrc(subset=box)` for any axis order: row reader on the file-order box, then the same
transposition as the full read -/
def mrcLoadSubsetCrs (f : Bytes) (header : Nat) (shape : List Nat) (b : Nat) (crs : List Nat) (box : Box) :
    Res (Arr Nat) :=
  match loadSubset f header shape b (mrcCrsBox crs box shape) with
  | .ok a => .ok (transposeArr a crs)
  | .err e => .err e

def mrcLoadSubsetCrsOld (f : Bytes) (header : Nat) (shape : List Nat) (b : Nat) (crs : List Nat) (box : Box) :
    Res (Arr Nat) :=
  match loadSubset f header shape b (mrcCrsBoxOld crs box shape) with
  | .ok a => .ok (transposeArr a crs)
  | .err e => .err e

/-! ## deepen3: the `subset` argument as python slices, MRC data modes, header read under a permuted
`mapc/mapr/maps`, EM files with an unknown type code, non-3-D EM headers -/

/-- a python `slice(start, stop, step)`; `none` = `None` -/
structure PySlice where
  start : Option Int
  stop : Option Int
  step : Option Int
deriving DecidableEq, Repr

/-- what the binary readers take from a slice: `x.stop - x.start` / `.start` / `.stop` — the step is never
looked at, `None` makes the subtraction raise `TypeError` (`none`) -/
def sliceBounds (s : PySlice) : Option (Int × Int) :=
  match s.start, s.stop with
  | some a, some b => some (a, b)
  | _, _ => none

/-- the box `_load_em` works with (`none` = `TypeError`) -/
def emSliceBox (sl : List PySlice) : Option Box := sl.mapM sliceBounds

/-- `_load_mrc` (standard axis order): short tuples are completed with `slice(0, n)`, extra entries are never
looked at; then `x.stop - x.start` for every entry kept -/
def mrcSliceBox (sl : List PySlice) (shape : List Nat) : Option Box :=
  ((List.range shape.length).map (fun i => sl.getD i ⟨some 0, some (shape.getD i 0 : Int), none⟩)).mapM sliceBounds

/-- `Density.from_file(name.em, subset=sl)` at the level of `_load_em` -/
def emLoadSlices (f : Bytes) (header : Nat) (shape : List Nat) (b : Nat) (sl : List PySlice) : Res (Arr Nat) :=
  match emSliceBox sl with
  | none => .err "TypeError"
  | some box => loadSubset f header shape b box

/-- `Density.from_file(name.mrc, subset=sl)` at the level of `_load_mrc` (standard axis order) -/
def mrcLoadSlices (f : Bytes) (header : Nat) (shape : List Nat) (b : Nat) (sl : List PySlice) : Res (Arr Nat) :=
  match mrcSliceBox sl shape with
  | none => .err "TypeError"
  | some box => loadSubset f header shape b box

/-- python `slice.indices(n)` for a positive step: `(start, stop, step)` normalised (`None` → 0 / n, negative
→ `+ n`, everything clipped into `[0, n]`); `none` for step ≤ 0 (h5py refuses those) -/
def pyIndices (n : Nat) (s : PySlice) : Option (Nat × Nat × Nat) :=
  let st := s.step.getD 1
  if st ≤ 0 then none else
  let norm (v : Int) : Nat := if v < 0 then (v + n).toNat else min v.toNat n
  some ((s.start.map norm).getD 0, (s.stop.map norm).getD n, st.toNat)

/-- the indices `range(start, stop, step)` selects -/
def pyRange (t : Nat × Nat × Nat) : List Nat :=
  (List.range ((t.2.1 - t.1 + t.2.2 - 1) / t.2.2)).map (fun k => t.1 + k * t.2.2)

/-- numpy / h5py basic slicing `a[sl]` with a tuple of slices (what `_load_hdf5` does with `subset`): missing
trailing entries are full, too many entries raise -/
def pySliceArr (a : Arr Nat) (sl : List PySlice) : Res (Arr Nat) :=
  if a.shape.length < sl.length then .err "IndexError" else
  match ((List.range a.shape.length).map (fun i => pyIndices (a.shape.getD i 0) (sl.getD i ⟨none, none, none⟩))).mapM id with
  | none => .err "Step"
  | some ts =>
    let sel := ts.map pyRange
    .ok (Arr.ofFn (sel.map List.length)
      (fun idx => a.getD (List.zipWith (fun (r : List Nat) i => r.getD i 0) sel idx) 0))

/-- `mrcfile.utils.dtype_from_mode`: MRC data mode → numpy dtype name and item size (everything else raises
`ValueError`, so `from_file` falls back to `skimage`) -/
def mrcModeTable : List (Nat × String × Nat) :=
  [(0, "int8", 1), (1, "int16", 2), (2, "float32", 4), (4, "complex64", 8), (6, "uint16", 2), (12, "float16", 2)]

def mrcModeDtype (mode : Nat) : Option String := (mrcModeTable.find? (·.1 == mode)).map (·.2.1)
def mrcModeSize (mode : Nat) : Option Nat := (mrcModeTable.find? (·.1 == mode)).map (·.2.2)

/-- `mrcfile.utils.mode_from_dtype` (the writer's side; `uint8` is widened to mode 6) -/
def mrcModeOfDtype (dtype : String) : Option Nat :=
  if dtype == "uint8" then some 6 else (mrcModeTable.find? (·.2.1 == dtype)).map (·.1)

/-- `_load_mrc` on the header for any `mapc/mapr/maps`: shape and origin are taken through the permutation
(`np.transpose(data, crs)`, `np.take(origin, crs)`), the sampling rate is **not** -/
def mrcReadCrs (h : MrcFields) : Res MrcParsed :=
  match mrcRead h with
  | .err e => .err e
  | .ok p =>
    if p.crs == [0, 1, 2] then .ok p
    else .ok ⟨permute p.crs p.shape 0, permute p.crs p.origin 0, p.rate, p.header, p.crs⟩

/-- item size `_load_em` reads with: a type code outside `DATA_TYPE_CODING` gives `data_type = None`, which
numpy takes for float64 (`np.dtype(None)`), so such a file is read as 8-byte items (the code is read as a
signed byte; 128…255 are negative and unknown just the same) -/
def emReadItemsize (code : Nat) : Nat := (emItemsize code).getD 8

/-- sub-box read of an EM file whatever its type code (`_load_em` with `subset`, not the full box) -/
def emLoadSubsetAny (f : Bytes) (box : Box) : Res (Arr Nat) :=
  match emParse f with
  | none => .err "Malformed"
  | some p => loadSubset f p.hdr p.shape (emReadItemsize p.code) box

/-- `np.array(shape[::-1], "<i4")` of a density of any rank: the EM header `_save_em` writes has
`500 + 4·rank` bytes -/
def emHeaderLen (rank : Nat) : Nat := 4 + 4 * rank + 80 + 160 + 256

/-! ### truncated files: what the row loop does when a read comes back short

`f.read(row_bytes)` returns what is left, `np.frombuffer` refuses a byte count that is not a multiple of the item
size, and the assignment `subset_data[z, y] = row` *broadcasts* a row of exactly one item over the whole row (any
other count is refused).  `readSubset` above reports every short read as `ShortRead`; the functions below follow the
code item by item and coincide with it on every file that holds the whole payload (`readSubsetExact_eq_readSubset`). -/

/-- one `seek` + `read` + `frombuffer` + row assignment; `none` = `ValueError` -/
def readRowExact (f : Bytes) (off k b : Nat) : Option (List Nat) :=
  let avail := min (k * b) (f.length - off)
  if avail % b ≠ 0 then none else
  let m := avail / b
  if m = k then some (readRow f off k b)
  else if m = 1 then some (List.replicate k (rdTok f off b))
  else none

/-- concatenation of the parts if none failed -/
def optFlat (l : List (Option (List Nat))) : Option (List Nat) :=
  l.foldr (fun o acc => match o, acc with
    | some a, some r => some (a ++ r)
    | _, _ => none) (some [])

def readRowsExact (f : Bytes) (header ny nx b z0 z1 y0 y1 x0 x1 : Nat) : Option (List Nat) :=
  optFlat ((List.range (z1 - z0)).map (fun i =>
    optFlat ((List.range (y1 - y0)).map (fun j =>
      readRowExact f (rowOffset header ny nx b (z0 + i) (y0 + j) x0) (x1 - x0) b))))

/-- `_read_binary_subset`, short reads as coded -/
def readSubsetExact (f : Bytes) (header : Nat) (shape : List Nat) (b : Nat) (box : Box) : Res (Arr Nat) :=
  match shape with
  | [_, ny, nx] =>
    match validateSlices box shape with
    | some e => .err e
    | none =>
      match box with
      | [(z0, z1), (y0, y1), (x0, x1)] =>
        if z1 < z0 ∨ y1 < y0 ∨ x1 < x0 then .err "NegativeExtent" else
        let (z0, z1, y0, y1, x0, x1) := (z0.toNat, z1.toNat, y0.toNat, y1.toNat, x0.toNat, x1.toNat)
        match readRowsExact f header ny nx b z0 z1 y0 y1 x0 x1 with
        | none => .err "ShortRead"
        | some rows => .ok ⟨[z1 - z0, y1 - y0, x1 - x0], rows.toArray⟩
      | _ => .err "Length"
  | _ => .err "NotImplemented"

/-- `_load_mrc` / `_load_em` with `subset` on a possibly truncated file -/
def loadSubsetExact (f : Bytes) (header : Nat) (shape : List Nat) (b : Nat) (box : Box) : Res (Arr Nat) :=
  if isFullBox box shape then
    (if f.length < header + prodL shape * b then .err "ShortRead"
     else .ok ⟨shape, (readRow f header (prodL shape) b).toArray⟩)
  else readSubsetExact f header shape b box

/-! ### the EM sampling-rate word in exact arithmetic -/

/-- `int(self.sampling_rate[0] * 1000)` for an exact rate: truncation toward zero -/
def emRateMilliOf (q : Rat) : Int := if 0 ≤ q then (q * 1000).floor else -((-q * 1000).floor)

/-- the sampling rate `_load_em` reports (Å): `user_params[6] / 1000`, 0 replaced by 1 Å -/
def emRateRead (m : Int) : Rat := if m = 0 then 1 else (m : Rat) / 1000

/-! ### `use_memmap` on compressed input -/

/-- `_load_mrc` / `_load_em`: `use_memmap` is dropped (with a warning) iff the file carries the gzip magic number -/
def effMemmap (f : Bytes) (useMemmap : Bool) : Bool := useMemmap && !isGz f

end Pm.C08
