import PytmeModel.Model.C09
import PytmeModel.Proofs.C09
import PytmeModel.Proofs.C09Cif
import Mathlib.Data.List.Nodup

/-! Helper lemmas for C09, part 3: `_write_mmcif` re-using the records of the original mmCIF file
(`reuseOriginal`), and `_load_mmcif` on a selection of the rows of a table. -/
namespace Pm.C09

/-! ## tables -/

/-- all columns have `n` entries (what `_loop_block_to_dict` returns when every row is complete) -/
def Rect (t : Table) (n : Nat) : Prop := ∀ kv ∈ t, kv.2.length = n

instance (t : Table) (n : Nat) : Decidable (Rect t n) := by unfold Rect; infer_instance

theorem lookup_mem {t : Table} {k : Str} {c : List Str} (h : lookup t k = some c) : (k, c) ∈ t := by
  unfold lookup at h
  cases hf : t.find? (·.1 == k) with
  | none => rw [hf] at h; cases h
  | some kv =>
    rw [hf] at h
    simp only [Option.map_some, Option.some.injEq] at h
    have h1 := List.find?_some hf
    have h2 := List.mem_of_find?_eq_some hf
    simp only [beq_iff_eq] at h1
    obtain ⟨a, b⟩ := kv
    simp only at h h1
    subst h; subst h1; exact h2

theorem lookup_length {t : Table} {n : Nat} (hr : Rect t n) {k : Str} {c : List Str} (h : lookup t k = some c) :
    c.length = n := hr _ (lookup_mem h)

theorem lookup_map (t : Table) (f : List Str → List Str) (k : Str) :
    lookup (t.map (fun kv => (kv.1, f kv.2))) k = (lookup t k).map f := by
  unfold lookup
  induction t with
  | nil => rfl
  | cons kv rest ih =>
    simp only [List.map_cons, List.find?_cons]
    split
    · rfl
    · exact ih

theorem lookup_replace (t : Table) (k k' : Str) (v : List Str) :
    lookup (t.map (fun kv => if kv.1 == k then (k, v) else kv)) k' =
      if k' = k then (if t.any (·.1 == k) then some v else none) else lookup t k' := by
  unfold lookup
  induction t with
  | nil => simp
  | cons kv rest ih =>
    by_cases h1 : kv.1 = k <;> by_cases h2 : k' = k
    · subst h2; simp [h1]
    · have b3 : (k == k') = false := by simp [Ne.symm h2]
      have b4 : (kv.1 == k') = false := by rw [h1]; exact b3
      have b1 : (kv.1 == k) = true := by simp [h1]
      simp only [List.map_cons, b1, if_true, List.find?_cons, b3, b4, h2, if_false] at ih ⊢
      exact ih
    · subst h2
      have b1 : (kv.1 == k') = false := by simp [h1]
      simp only [List.map_cons, b1, Bool.false_eq_true, if_false, List.find?_cons, List.any_cons, Bool.false_or,
        if_true] at ih ⊢
      exact ih
    · have b1 : (kv.1 == k) = false := by simp [h1]
      by_cases h5 : kv.1 = k'
      · simp [h2, h5]
      · have b5 : (kv.1 == k') = false := by simp [h5]
        simp only [List.map_cons, b1, Bool.false_eq_true, if_false, List.find?_cons, b5, h2] at ih ⊢
        exact ih

theorem lookup_setCol (t : Table) (k k' : Str) (v : List Str) :
    lookup (setCol t k v) k' = if k' = k then some v else lookup t k' := by
  unfold setCol
  split
  · rename_i hany
    rw [lookup_replace, hany]; simp
  · rename_i hany
    unfold lookup
    rw [List.find?_append]
    by_cases h2 : k' = k
    · subst h2
      have : t.find? (·.1 == k') = none := by
        rw [List.find?_eq_none]
        intro x hx hx'
        exact hany (List.any_eq_true.mpr ⟨x, hx, hx'⟩)
      simp [this]
    · have : ((k == k') = false) := by simp [Ne.symm h2]
      cases hf : t.find? (·.1 == k') with
      | none => simp [this, h2]
      | some x => simp [h2]

/-! ## Python list indexing by `atom_serial_number - 1` -/

/-- the row a (possibly negative) Python index addresses in a list of `n` entries -/
def resolve (n : Nat) (i : Int) : Option Nat :=
  if 0 ≤ i then (if i.toNat < n then some i.toNat else none)
  else if -i ≤ n then some (n - (-i).toNat) else none

theorem resolve_lt {n : Nat} {i : Int} {j : Nat} (h : resolve n i = some j) : j < n := by
  unfold resolve at h
  split at h
  · split at h
    · cases h; assumption
    · cases h
  · split at h
    · cases h; omega
    · cases h

theorem pyIndex_eq (l : List Str) (i : Int) :
    pyIndex l i = (resolve l.length i).map (fun j => l.getD j []) := by
  unfold pyIndex resolve
  split
  · split
    · rename_i h; simp [List.getD_eq_getElem?_getD, h]
    · rename_i h; simp at h; simp [h]
  · split
    · rename_i h1 h2
      have : l.length - (-i).toNat < l.length := by omega
      simp [List.getD_eq_getElem?_getD, this]
    · rfl

/-- the rows `js` of a table, in that order -/
def selRows (js : List Nat) (t : Table) : Table := t.map (fun kv => (kv.1, js.map (fun j => kv.2.getD j [])))

theorem mapM_pyIndex (c : List Str) (idx : List Int) :
    idx.mapM (pyIndex c) = (idx.mapM (resolve c.length)).map (fun js => js.map (fun j => c.getD j [])) := by
  induction idx with
  | nil => rfl
  | cons i rest ih =>
    simp only [List.mapM_cons, ih, pyIndex_eq]
    cases resolve c.length i with
    | none => rfl
    | some j =>
      cases List.mapM (resolve c.length) rest with
      | none => rfl
      | some js => rfl

theorem mapM_sel_some (t : Table) (n : Nat) (h : Rect t n) (idx : List Int) (js : List Nat)
    (hjs : idx.mapM (resolve n) = some js) :
    t.mapM (fun kv => do pure (kv.1, ← idx.mapM (pyIndex kv.2))) = some (selRows js t) := by
  induction t with
  | nil => rfl
  | cons kv rest ih =>
    have hk := h kv (List.mem_cons_self ..)
    simp only [List.mapM_cons, ih (fun x hx => h x (List.mem_cons_of_mem _ hx))]
    simp only [mapM_pyIndex, hk, hjs]
    rfl

theorem mapM_sel_none (t : Table) (n : Nat) (h : Rect t n) (idx : List Int) (hne : t ≠ [])
    (hjs : idx.mapM (resolve n) = none) :
    t.mapM (fun kv => do pure (kv.1, ← idx.mapM (pyIndex kv.2))) = none := by
  cases t with
  | nil => exact absurd rfl hne
  | cons kv rest =>
    have hk := h kv (List.mem_cons_self ..)
    simp only [List.mapM_cons, mapM_pyIndex, hk, hjs]
    rfl

theorem lookup_selRows (js : List Nat) (t : Table) (k : Str) :
    lookup (selRows js t) k = (lookup t k).map (fun c => js.map (fun j => c.getD j [])) :=
  lookup_map t (fun c => js.map (fun j => c.getD j [])) k

/-- the table `_write_mmcif` prints when it re-uses the rows `js` of the original file -/
def reuseTable (orig : Table) (js : List Nat) (data : Table) : Table :=
  setCol (setCol (setCol (selRows js orig) "Cartn_x".toList ((lookup data "Cartn_x".toList).getD []))
    "Cartn_y".toList ((lookup data "Cartn_y".toList).getD [])) "Cartn_z".toList ((lookup data "Cartn_z".toList).getD [])

/-- **when and what `_write_mmcif` re-uses** (original table with complete rows): exactly when the ids of
the original file are pairwise distinct, `atom_serial_number - 1` addresses a row of the file for every
atom, and the id found there is the atom's serial number; the rows are then those, the three coordinate
columns replaced -/
theorem reuseOriginal_rect (orig : Table) (n : Nat) (hr : Rect orig n) (oids : List Str)
    (hid : lookup orig "id".toList = some oids) (atoms : List Atom) (data : Table) :
    reuseOriginal orig atoms data =
      if ¬ oids.Nodup then none else
      match (atoms.map (fun a => a.serial - 1)).mapM (resolve n) with
      | none => none
      | some js =>
        if js.map (fun j => oids.getD j []) ≠ atoms.map (fun a => showInt a.serial) then none
        else some (reuseTable orig js data) := by
  have hne : orig ≠ [] := by
    intro e; rw [e] at hid; cases hid
  unfold reuseOriginal
  simp only [hid, Option.bind_eq_bind, Option.bind_some]
  by_cases hnd : oids.Nodup
  · simp only [hnd, not_true_eq_false, if_false]
    cases hjs : (atoms.map (fun a => a.serial - 1)).mapM (resolve n) with
    | none =>
      have := mapM_sel_none orig n hr _ hne hjs
      simp only [Option.bind_eq_bind] at this
      simp only [this, Option.bind_none]
    | some js =>
      have := mapM_sel_some orig n hr _ js hjs
      simp only [Option.bind_eq_bind] at this
      simp only [this, Option.bind_some, lookup_selRows, hid, Option.map_some]
      split <;> rfl
  · simp only [hnd, not_false_eq_true, if_true]
    rfl

/-! ## `_load_mmcif` on a table with complete rows -/

/-- a column of the table, or the placeholder column `_load_mmcif` substitutes when it is absent -/
def colOr (t : Table) (n : Nat) (k : String) : List Str :=
  match lookup t k.toList with
  | some c => c
  | none => List.replicate n ['.']

theorem colOr_length {t : Table} {n : Nat} (hr : Rect t n) (k : String) : (colOr t n k).length = n := by
  unfold colOr
  cases h : lookup t k.toList with
  | none => simp
  | some c => exact lookup_length hr h

theorem getD_len_le {t : Table} {n : Nat} (hn : 0 < n) (hr : Rect t n) (k : String) :
    ((lookup t k.toList).getD [['.']]).length ≤ n := by
  cases h : lookup t k.toList with
  | none => simp; omega
  | some c => simp [lookup_length hr h]

theorem cifCol_rect {t : Table} {n : Nat} (hn : 0 < n) (hr : Rect t n) (k : String) :
    cifCol t n k = colOr t n k := by
  unfold cifCol colOr
  cases h : lookup t k.toList with
  | none => simp
  | some c =>
    have hl := lookup_length hr h
    simp only [Option.getD_some]
    split
    · rename_i h1
      have : n = 1 := by omega
      subst this
      cases c with
      | nil => simp at h1
      | cons x xs =>
        cases xs with
        | nil => rfl
        | cons _ _ => simp at h1
    · rfl

theorem foldl_max_le (l : List Nat) (a n : Nat) (ha : a ≤ n) (h : ∀ x ∈ l, x ≤ n) : l.foldl max a ≤ n := by
  induction l generalizing a with
  | nil => exact ha
  | cons x xs ih =>
    have := h x (List.mem_cons_self ..)
    exact ih (max a x) (by omega) (fun y hy => h y (List.mem_cons_of_mem _ hy))

theorem foldl_max_ge (l : List Nat) (a : Nat) : a ≤ l.foldl max a ∧ ∀ x ∈ l, x ≤ l.foldl max a := by
  induction l generalizing a with
  | nil => simp
  | cons x xs ih =>
    obtain ⟨h1, h2⟩ := ih (max a x)
    refine ⟨by simp only [List.foldl_cons]; omega, ?_⟩
    intro y hy
    rcases List.mem_cons.mp hy with rfl | hy
    · simp only [List.foldl_cons]; omega
    · exact h2 y hy

theorem foldl_max_eq (l : List Nat) (n : Nat) (h : ∀ x ∈ l, x ≤ n) (hm : n ∈ l) : l.foldl max 0 = n :=
  Nat.le_antisymm (foldl_max_le l 0 n (Nat.zero_le _) h) ((foldl_max_ge l 0).2 n hm)

/-- **`_load_mmcif` on complete rows**: the typing of the rows made of the sixteen columns the reader asks
for, an absent column standing as "." in every row -/
theorem loadCifTable_rect (t : Table) (n : Nat) (hn : 0 < n) (hr : Rect t n) (ids xs ys zs : List Str)
    (hid : lookup t "id".toList = some ids) (hx : lookup t "Cartn_x".toList = some xs)
    (hy : lookup t "Cartn_y".toList = some ys) (hz : lookup t "Cartn_z".toList = some zs) :
    loadCifTable t = convert (zipRaw (colOr t n "group_PDB") (colOr t n "id") (colOr t n "label_atom_id")
      (colOr t n "label_alt_id") (colOr t n "label_comp_id") (colOr t n "label_asym_id") (colOr t n "label_seq_id")
      (colOr t n "pdbx_PDB_ins_code") xs ys zs (colOr t n "occupancy") (colOr t n "B_iso_or_equiv")
      (colOr t n "pdbx_PDB_model_num") (colOr t n "type_symbol") (colOr t n "pdbx_formal_charge")) := by
  have hxl := lookup_length hr hx
  have hyl := lookup_length hr hy
  have hzl := lookup_length hr hz
  have l := getD_len_le hn hr
  have h1 : ((lookup t "id".toList).getD [['.']]).length = n := by rw [hid]; exact lookup_length hr hid
  have hmax : List.foldl max 0 (["group_PDB", "id", "label_atom_id", "label_alt_id", "label_comp_id", "label_asym_id",
      "label_seq_id", "pdbx_PDB_ins_code", "occupancy", "B_iso_or_equiv", "pdbx_PDB_model_num", "type_symbol",
      "pdbx_formal_charge"].map (fun k => ((lookup t k.toList).getD [['.']]).length)) = n := by
    apply foldl_max_eq
    · intro x hx
      obtain ⟨k, _, rfl⟩ := List.mem_map.mp hx
      exact l k
    · exact List.mem_map.mpr ⟨"id", by simp, h1⟩
  have hall : (["group_PDB", "id", "label_atom_id", "label_alt_id", "label_comp_id", "label_asym_id",
      "label_seq_id", "pdbx_PDB_ins_code", "occupancy", "B_iso_or_equiv", "pdbx_PDB_model_num", "type_symbol",
      "pdbx_formal_charge"].map (cifCol t n)).all (fun col => col.length = xs.length) = true := by
    rw [List.all_eq_true]
    intro c hc
    obtain ⟨k, _, rfl⟩ := List.mem_map.mp hc
    rw [cifCol_rect hn hr, colOr_length hr, hxl]; simp
  unfold loadCifTable
  rw [hx, hy, hz]
  simp only [Option.bind_eq_bind, Option.bind_some]
  rw [hmax]
  rw [if_neg (by rw [hyl, hzl, hxl]; simp), if_neg (by rw [hall]; simp)]
  simp only [cifCol_rect hn hr]

/-! ## typing rows one by one -/

theorem zipRaw_map' {α : Type} (l : List α) (f0 f1 f2 f3 f4 f5 f6 f7 f8 f9 f10 f11 f12 f13 f14 f15 : α → Str) :
    zipRaw (l.map f0) (l.map f1) (l.map f2) (l.map f3) (l.map f4) (l.map f5) (l.map f6) (l.map f7)
      (l.map f8) (l.map f9) (l.map f10) (l.map f11) (l.map f12) (l.map f13) (l.map f14) (l.map f15)
    = l.map (fun a => ⟨f0 a, f1 a, f2 a, f3 a, f4 a, f5 a, f6 a, f7 a, f8 a, f9 a, f10 a, f11 a, f12 a,
        f13 a, f14 a, f15 a⟩) := by
  induction l with
  | nil => simp [zipRaw]
  | cons a rest ih => simp only [List.map_cons, zipRaw, ih]

/-- the atom `_load_pdb` / `_load_mmcif` build from the text fields of a row and its converted numbers -/
def mkAtom (r : Raw) (s q : Int) (x y z o b : Dec) : Atom :=
  { record := strip r.record, serial := s, name := strip r.name, alt := strip r.alt,
    resName := strip r.resName, chain := strip r.chain, resSeq := q, ins := strip r.ins,
    x := x, y := y, z := z, occ := o, b := b, seg := strip r.seg, elem := strip r.elem,
    charge := strip r.charge }

theorem zipAtoms_map' {α : Type} (l : List α) (R : α → Raw) (fs fq : α → Int) (fx fy fz fo fb : α → Dec) :
    zipAtoms (l.map R) (l.map fs) (l.map fq) (l.map fx) (l.map fy) (l.map fz) (l.map fo) (l.map fb)
    = l.map (fun a => mkAtom (R a) (fs a) (fq a) (fx a) (fy a) (fz a) (fo a) (fb a)) := by
  induction l with
  | nil => simp [zipAtoms]
  | cons a rest ih => simp only [List.map_cons, zipAtoms, ih, mkAtom]

theorem eq_map_range_getD {α : Type} (l : List α) (d : α) (n : Nat) (h : l.length = n) :
    l = (List.range n).map (fun i => l.getD i d) := by
  subst h
  have := map_range_getD l d id
  simpa using this.symm

theorem zipAtoms_getD (raws : List Raw) (ss qs : List Int) (xs ys zs os bs : List Dec) (n : Nat)
    (h0 : raws.length = n) (h1 : ss.length = n) (h2 : qs.length = n) (h3 : xs.length = n) (h4 : ys.length = n)
    (h5 : zs.length = n) (h6 : os.length = n) (h7 : bs.length = n) (j : Nat) (hj : j < n) :
    (zipAtoms raws ss qs xs ys zs os bs).getD j default =
      mkAtom (raws.getD j default) (ss.getD j 0) (qs.getD j 0) (xs.getD j Dec.zero) (ys.getD j Dec.zero)
        (zs.getD j Dec.zero) (os.getD j Dec.zero) (bs.getD j Dec.zero) := by
  rw [eq_map_range_getD raws default n h0, eq_map_range_getD ss 0 n h1, eq_map_range_getD qs 0 n h2,
    eq_map_range_getD xs Dec.zero n h3, eq_map_range_getD ys Dec.zero n h4, eq_map_range_getD zs Dec.zero n h5,
    eq_map_range_getD os Dec.zero n h6, eq_map_range_getD bs Dec.zero n h7, zipAtoms_map']
  simp [List.getD_eq_getElem?_getD, hj]

theorem zipAtoms_length (raws : List Raw) (ss qs : List Int) (xs ys zs os bs : List Dec) (n : Nat)
    (h0 : raws.length = n) (h1 : ss.length = n) (h2 : qs.length = n) (h3 : xs.length = n) (h4 : ys.length = n)
    (h5 : zs.length = n) (h6 : os.length = n) (h7 : bs.length = n) :
    (zipAtoms raws ss qs xs ys zs os bs).length = n := by
  rw [eq_map_range_getD raws default n h0, eq_map_range_getD ss 0 n h1, eq_map_range_getD qs 0 n h2,
    eq_map_range_getD xs Dec.zero n h3, eq_map_range_getD ys Dec.zero n h4, eq_map_range_getD zs Dec.zero n h5,
    eq_map_range_getD os Dec.zero n h6, eq_map_range_getD bs Dec.zero n h7, zipAtoms_map']
  simp

theorem mapM_some_getD {α β : Type} {f : α → Option β} {l : List α} {r : List β} (h : l.mapM f = some r)
    (da : α) (db : β) : r.length = l.length ∧ ∀ j, j < l.length → f (l.getD j da) = some (r.getD j db) := by
  induction l generalizing r with
  | nil =>
    simp only [List.mapM_nil, Option.pure_def, Option.some.injEq] at h
    subst h; simp
  | cons a rest ih =>
    simp only [List.mapM_cons, Option.bind_eq_bind] at h
    cases hfa : f a with
    | none => rw [hfa] at h; cases h
    | some b =>
      cases hr : rest.mapM f with
      | none => rw [hfa, hr] at h; cases h
      | some r' =>
        rw [hfa, hr] at h
        simp only [Option.bind_some, Option.pure_def, Option.some.injEq] at h
        subst h
        obtain ⟨h1, h2⟩ := ih hr
        refine ⟨by simp [h1], ?_⟩
        intro j hj
        cases j with
        | zero => simpa using hfa
        | succ j =>
          have := h2 j (by simpa using hj)
          simpa using this

theorem floatColumn_length (l : List Str) : (floatColumn l).length = l.length := by
  unfold floatColumn
  cases h : l.mapM (fun s => parseDec (strip s)) with
  | none => simp
  | some ds => exact (mapM_some_getD h [] Dec.zero).1

/-- what `convert` (the typing of `_load_pdb` / `_load_mmcif`) returns, row by row -/
theorem convert_some_pointwise {raws : List Raw} {os : List Atom} (h : convert raws = some os) :
    os.length = raws.length ∧ ∀ j, j < raws.length →
      intCell (raws.getD j default).serial = some (os.getD j default).serial ∧
      intCell (raws.getD j default).resSeq = some (os.getD j default).resSeq ∧
      parseDec (strip (raws.getD j default).x) = some (os.getD j default).x ∧
      parseDec (strip (raws.getD j default).y) = some (os.getD j default).y ∧
      parseDec (strip (raws.getD j default).z) = some (os.getD j default).z ∧
      os.getD j default = mkAtom (raws.getD j default) (os.getD j default).serial (os.getD j default).resSeq
        (os.getD j default).x (os.getD j default).y (os.getD j default).z
        ((floatColumn (raws.map (·.occ))).getD j Dec.zero) ((floatColumn (raws.map (·.b))).getD j Dec.zero) := by
  unfold convert at h
  simp only [Option.bind_eq_bind] at h
  obtain ⟨ss, hss, h⟩ := Option.bind_eq_some_iff.mp h
  obtain ⟨qs, hqs, h⟩ := Option.bind_eq_some_iff.mp h
  obtain ⟨xs, hxs, h⟩ := Option.bind_eq_some_iff.mp h
  obtain ⟨ys, hys, h⟩ := Option.bind_eq_some_iff.mp h
  obtain ⟨zs, hzs, h⟩ := Option.bind_eq_some_iff.mp h
  simp only [Option.pure_def, Option.some.injEq] at h
  obtain ⟨l1, p1⟩ := mapM_some_getD hss default 0
  obtain ⟨l2, p2⟩ := mapM_some_getD hqs default 0
  obtain ⟨l3, p3⟩ := mapM_some_getD hxs default Dec.zero
  obtain ⟨l4, p4⟩ := mapM_some_getD hys default Dec.zero
  obtain ⟨l5, p5⟩ := mapM_some_getD hzs default Dec.zero
  have l6 : (floatColumn (raws.map (·.occ))).length = raws.length := by rw [floatColumn_length]; simp
  have l7 : (floatColumn (raws.map (·.b))).length = raws.length := by rw [floatColumn_length]; simp
  subst h
  refine ⟨zipAtoms_length _ _ _ _ _ _ _ _ raws.length rfl l1 l2 l3 l4 l5 l6 l7, ?_⟩
  intro j hj
  have ho := zipAtoms_getD raws ss qs xs ys zs _ _ raws.length rfl l1 l2 l3 l4 l5 l6 l7 j hj
  rw [ho]
  simp only [mkAtom]
  exact ⟨p1 j hj, p2 j hj, p3 j hj, p4 j hj, p5 j hj, trivial⟩

/-! ## occupancy / B columns: all entries numbers, or none -/

/-- `_load_mmcif` replaces a float column by zeros as soon as one entry is no number; a selection of rows
is typed like the whole file only if the column is uniform: every entry a number, or none -/
def Uniform (l : List Str) : Prop :=
  (∀ v ∈ l, (parseDec (strip v)).isSome = true) ∨ (∀ v ∈ l, parseDec (strip v) = none)

instance (l : List Str) : Decidable (Uniform l) := by unfold Uniform; infer_instance

theorem mapM_of_isSome {α β : Type} (f : α → Option β) (l : List α) (h : ∀ v ∈ l, (f v).isSome = true) :
    ∃ r, l.mapM f = some r := by
  induction l with
  | nil => exact ⟨[], rfl⟩
  | cons a rest ih =>
    obtain ⟨r, hr⟩ := ih (fun v hv => h v (List.mem_cons_of_mem _ hv))
    obtain ⟨b, hb⟩ := Option.isSome_iff_exists.mp (h a (List.mem_cons_self ..))
    exact ⟨b :: r, by simp [List.mapM_cons, hb, hr]⟩

theorem floatColumn_sel (l : List Str) (hu : Uniform l) {α : Type} (sel : List α) (hne : sel ≠ []) (g : α → Nat)
    (hg : ∀ p ∈ sel, g p < l.length) :
    floatColumn (sel.map (fun p => l.getD (g p) [])) = sel.map (fun p => (floatColumn l).getD (g p) Dec.zero) := by
  rcases hu with hu | hu
  · obtain ⟨ds, hds⟩ := mapM_of_isSome _ l hu
    obtain ⟨_, pw⟩ := mapM_some_getD hds [] Dec.zero
    have e : floatColumn l = ds := by unfold floatColumn; rw [hds]
    rw [e]
    exact floatColumn_map sel _ _ (fun p hp => pw (g p) (hg p hp))
  · have e : floatColumn l = l.map (fun _ => Dec.zero) := by
      unfold floatColumn
      cases hm : l.mapM (fun s => parseDec (strip s)) with
      | none => rfl
      | some ds =>
        obtain ⟨_, pw⟩ := mapM_some_getD hm [] Dec.zero
        cases sel with
        | nil => exact absurd rfl hne
        | cons p _ =>
          have hp := hg p (List.mem_cons_self ..)
          have := pw (g p) hp
          rw [hu _ (getD_mem l (g p) [] hp)] at this
          cases this
    rw [e]
    unfold floatColumn
    cases sel with
    | nil => exact absurd rfl hne
    | cons p rest =>
      have hp := hg p (List.mem_cons_self ..)
      have h1 : parseDec (strip (l.getD (g p) [])) = none := hu _ (getD_mem l (g p) [] hp)
      simp only [List.map_cons, List.mapM_cons, h1]
      simp only [Option.bind_eq_bind, Option.bind_none, List.map_map, List.cons.injEq]
      refine ⟨by simp [List.getD_eq_getElem?_getD, hp], ?_⟩
      apply List.map_congr_left
      intro q hq
      have := hg q (List.mem_cons_of_mem _ hq)
      simp [List.getD_eq_getElem?_getD, this]

/-! ## typing a selection of rows with new coordinates -/

/-- the atom `o` at the coordinates of `a` -/
def withCoords (o a : Atom) : Atom := { o with x := a.x, y := a.y, z := a.z }

/-- row `p.1` of the file with the coordinates of atom `p.2` written into it -/
def movedRaw (raws : List Raw) (p : Nat × Atom) : Raw :=
  { raws.getD p.1 default with x := showDec p.2.x, y := showDec p.2.y, z := showDec p.2.z }

theorem getD_map_occ (raws : List Raw) (j : Nat) : (raws.getD j default).occ = (raws.map (·.occ)).getD j [] := by
  by_cases h : j < raws.length
  · simp [List.getD_eq_getElem?_getD, h]
  · simp only [List.getD_eq_getElem?_getD]
    rw [List.getElem?_eq_none (by omega), List.getElem?_eq_none (by simp; omega)]
    rfl

theorem getD_map_b (raws : List Raw) (j : Nat) : (raws.getD j default).b = (raws.map (·.b)).getD j [] := by
  by_cases h : j < raws.length
  · simp [List.getD_eq_getElem?_getD, h]
  · simp only [List.getD_eq_getElem?_getD]
    rw [List.getElem?_eq_none (by omega), List.getElem?_eq_none (by simp; omega)]
    rfl

/-- **typing commutes with selecting rows.**  If the rows `raws` of a file type to the atoms `os`, then any
non-empty selection of its rows (any order, repetitions allowed), each with new coordinates written into
it, types to the corresponding atoms of `os` at the new coordinates - provided the occupancy and B
columns of the file are uniform (otherwise the whole-column fall-back of `_load_mmcif` makes the typing
of a row depend on the other rows) -/
theorem convert_sel (raws : List Raw) (os : List Atom) (h : convert raws = some os)
    (ho : Uniform (raws.map (·.occ))) (hb : Uniform (raws.map (·.b)))
    (sel : List (Nat × Atom)) (hne : sel ≠ []) (hlt : ∀ p ∈ sel, p.1 < raws.length)
    (hdec : ∀ p ∈ sel, DecOk p.2.x ∧ DecOk p.2.y ∧ DecOk p.2.z) :
    convert (sel.map (movedRaw raws)) = some (sel.map (fun p => withCoords (os.getD p.1 default) p.2)) := by
  obtain ⟨_, pw⟩ := convert_some_pointwise h
  have dec : ∀ d : Dec, DecOk d → parseDec (strip (showDec d)) = some d := by
    intro d hd; rw [strip_clean (showDec_clean d hd), parseDec_showDec d hd]
  unfold convert
  rw [mapM_map_some sel (movedRaw raws) (fun r => intCell r.serial) (fun p => (os.getD p.1 default).serial)
        (fun p hp => (pw p.1 (hlt p hp)).1),
      mapM_map_some sel (movedRaw raws) (fun r => intCell r.resSeq) (fun p => (os.getD p.1 default).resSeq)
        (fun p hp => (pw p.1 (hlt p hp)).2.1),
      mapM_map_some sel (movedRaw raws) (fun r => parseDec (strip r.x)) (fun p => p.2.x)
        (fun p hp => dec _ (hdec p hp).1),
      mapM_map_some sel (movedRaw raws) (fun r => parseDec (strip r.y)) (fun p => p.2.y)
        (fun p hp => dec _ (hdec p hp).2.1),
      mapM_map_some sel (movedRaw raws) (fun r => parseDec (strip r.z)) (fun p => p.2.z)
        (fun p hp => dec _ (hdec p hp).2.2)]
  have e1 : (sel.map (movedRaw raws)).map (·.occ) = sel.map (fun p => (raws.map (·.occ)).getD p.1 []) := by
    rw [List.map_map]; apply List.map_congr_left; intro p _; exact getD_map_occ raws p.1
  have e2 : (sel.map (movedRaw raws)).map (·.b) = sel.map (fun p => (raws.map (·.b)).getD p.1 []) := by
    rw [List.map_map]; apply List.map_congr_left; intro p _; exact getD_map_b raws p.1
  rw [e1, e2, floatColumn_sel _ ho sel hne (·.1) (by simpa using hlt),
    floatColumn_sel _ hb sel hne (·.1) (by simpa using hlt)]
  simp only [Option.bind_eq_bind, Option.bind_some, Option.pure_def, Option.some.injEq]
  rw [zipAtoms_map']
  apply List.map_congr_left
  intro p hp
  have := (pw p.1 (hlt p hp)).2.2.2.2.2
  rw [this]
  rfl

/-! ## the re-used table -/

/-- the sixteen texts `_load_mmcif` types for each row of a table with complete rows -/
def rawsOf (t : Table) (n : Nat) : List Raw :=
  zipRaw (colOr t n "group_PDB") (colOr t n "id") (colOr t n "label_atom_id")
    (colOr t n "label_alt_id") (colOr t n "label_comp_id") (colOr t n "label_asym_id") (colOr t n "label_seq_id")
    (colOr t n "pdbx_PDB_ins_code") (colOr t n "Cartn_x") (colOr t n "Cartn_y") (colOr t n "Cartn_z")
    (colOr t n "occupancy") (colOr t n "B_iso_or_equiv")
    (colOr t n "pdbx_PDB_model_num") (colOr t n "type_symbol") (colOr t n "pdbx_formal_charge")

theorem loadCifTable_rawsOf (t : Table) (n : Nat) (hn : 0 < n) (hr : Rect t n) (ids xs ys zs : List Str)
    (hid : lookup t "id".toList = some ids) (hx : lookup t "Cartn_x".toList = some xs)
    (hy : lookup t "Cartn_y".toList = some ys) (hz : lookup t "Cartn_z".toList = some zs) :
    loadCifTable t = convert (rawsOf t n) := by
  rw [loadCifTable_rect t n hn hr ids xs ys zs hid hx hy hz]
  unfold rawsOf
  have e1 : colOr t n "Cartn_x" = xs := by unfold colOr; rw [hx]
  have e2 : colOr t n "Cartn_y" = ys := by unfold colOr; rw [hy]
  have e3 : colOr t n "Cartn_z" = zs := by unfold colOr; rw [hz]
  rw [e1, e2, e3]

/-- row `j` of `rawsOf` -/
def rawRow (t : Table) (n : Nat) (j : Nat) : Raw :=
  let g := fun (k : String) => (colOr t n k).getD j []
  ⟨g "group_PDB", g "id", g "label_atom_id", g "label_alt_id", g "label_comp_id", g "label_asym_id", g "label_seq_id",
   g "pdbx_PDB_ins_code", g "Cartn_x", g "Cartn_y", g "Cartn_z", g "occupancy", g "B_iso_or_equiv",
   g "pdbx_PDB_model_num", g "type_symbol", g "pdbx_formal_charge"⟩

theorem rawsOf_eq (t : Table) (n : Nat) (hr : Rect t n) : rawsOf t n = (List.range n).map (rawRow t n) := by
  unfold rawsOf
  have e := fun k => eq_map_range_getD (colOr t n k) [] n (colOr_length hr k)
  rw [e "group_PDB", e "id", e "label_atom_id", e "label_alt_id", e "label_comp_id", e "label_asym_id",
    e "label_seq_id", e "pdbx_PDB_ins_code", e "Cartn_x", e "Cartn_y", e "Cartn_z", e "occupancy",
    e "B_iso_or_equiv", e "pdbx_PDB_model_num", e "type_symbol", e "pdbx_formal_charge", zipRaw_map']
  apply List.map_congr_left
  intro j hj
  have hj' := List.mem_range.mp hj
  simp only [rawRow]

theorem rawsOf_length (t : Table) (n : Nat) (hr : Rect t n) : (rawsOf t n).length = n := by
  rw [rawsOf_eq t n hr]; simp

theorem rawsOf_getD (t : Table) (n : Nat) (hr : Rect t n) (j : Nat) (hj : j < n) :
    (rawsOf t n).getD j default = rawRow t n j := by
  rw [rawsOf_eq t n hr]; simp [List.getD_eq_getElem?_getD, hj]

theorem rawsOf_occ (t : Table) (n : Nat) (hr : Rect t n) : (rawsOf t n).map (·.occ) = colOr t n "occupancy" := by
  rw [rawsOf_eq t n hr, List.map_map]
  exact (eq_map_range_getD (colOr t n "occupancy") [] n (colOr_length hr _)).symm

theorem rawsOf_b (t : Table) (n : Nat) (hr : Rect t n) : (rawsOf t n).map (·.b) = colOr t n "B_iso_or_equiv" := by
  rw [rawsOf_eq t n hr, List.map_map]
  exact (eq_map_range_getD (colOr t n "B_iso_or_equiv") [] n (colOr_length hr _)).symm

theorem lookup_reuse_other (orig : Table) (js : List Nat) (data : Table) (k : Str)
    (h1 : k ≠ "Cartn_x".toList) (h2 : k ≠ "Cartn_y".toList) (h3 : k ≠ "Cartn_z".toList) :
    lookup (reuseTable orig js data) k = (lookup orig k).map (fun c => js.map (fun j => c.getD j [])) := by
  unfold reuseTable
  rw [lookup_setCol, if_neg h3, lookup_setCol, if_neg h2, lookup_setCol, if_neg h1, lookup_selRows]

theorem colOr_reuse_other (orig : Table) (n : Nat) (js : List Nat) (hjs : ∀ j ∈ js, j < n) (data : Table) (k : String)
    (h1 : k.toList ≠ "Cartn_x".toList) (h2 : k.toList ≠ "Cartn_y".toList) (h3 : k.toList ≠ "Cartn_z".toList) :
    colOr (reuseTable orig js data) js.length k = js.map (fun j => (colOr orig n k).getD j []) := by
  unfold colOr
  rw [lookup_reuse_other orig js data _ h1 h2 h3]
  cases lookup orig k.toList with
  | some c => rfl
  | none =>
    simp only [Option.map_none]
    apply List.ext_getElem
    · simp
    · intro i hi1 hi2
      have : js[i]'(by simpa using hi2) < n := hjs _ (List.getElem_mem _)
      simp [List.getD_eq_getElem?_getD, this]

theorem lookup_cifColumns (atoms : List Atom) (j : Nat) (hj : j < 21) :
    lookup (cifColumns atoms) (cifNames.getD j "").toList = some (atoms.map (fun a => (cifRow a).getD j [])) := by
  have e : cifColumns atoms = (List.range 21).map (fun j =>
      ((cifNames.getD j "").toList, atoms.map (fun a => (cifRow a).getD j []))) := by
    unfold cifColumns
    have : cifNames.length = 21 := rfl
    rw [this]
    apply List.map_congr_left
    intro j _
    simp [nthCol, List.map_map]
  rw [e]
  unfold lookup
  interval_cases j <;> rfl

theorem colOr_reuse_xyz (orig : Table) (js : List Nat) (atoms : List Atom) :
    colOr (reuseTable orig js (cifColumns atoms)) js.length "Cartn_x" = atoms.map (fun a => showDec a.x) ∧
    colOr (reuseTable orig js (cifColumns atoms)) js.length "Cartn_y" = atoms.map (fun a => showDec a.y) ∧
    colOr (reuseTable orig js (cifColumns atoms)) js.length "Cartn_z" = atoms.map (fun a => showDec a.z) := by
  have kx : lookup (cifColumns atoms) "Cartn_x".toList = _ := lookup_cifColumns atoms 10 (by decide)
  have ky : lookup (cifColumns atoms) "Cartn_y".toList = _ := lookup_cifColumns atoms 11 (by decide)
  have kz : lookup (cifColumns atoms) "Cartn_z".toList = _ := lookup_cifColumns atoms 12 (by decide)
  have nxy : "Cartn_x".toList ≠ "Cartn_y".toList := by decide
  have nxz : "Cartn_x".toList ≠ "Cartn_z".toList := by decide
  have nyz : "Cartn_y".toList ≠ "Cartn_z".toList := by decide
  unfold colOr reuseTable
  refine ⟨?_, ?_, ?_⟩
  · rw [lookup_setCol, if_neg nxz, lookup_setCol, if_neg nxy, lookup_setCol, if_pos rfl, kx]
    simp [cifRow]
  · rw [lookup_setCol, if_neg nyz, lookup_setCol, if_pos rfl, ky]
    simp [cifRow]
  · rw [lookup_setCol, if_pos rfl, kz]
    simp [cifRow]

theorem mem_setCol {t : Table} {k : Str} {v : List Str} {kv : Str × List Str} (h : kv ∈ setCol t k v) :
    kv = (k, v) ∨ kv ∈ t := by
  unfold setCol at h
  split at h
  · obtain ⟨x, hx, e⟩ := List.mem_map.mp h
    split at e
    · exact Or.inl e.symm
    · exact Or.inr (e ▸ hx)
  · rcases List.mem_append.mp h with h | h
    · exact Or.inr h
    · exact Or.inl (by simpa using h)

theorem rect_setCol {t : Table} {m : Nat} (hr : Rect t m) (k : Str) (v : List Str) (hv : v.length = m) :
    Rect (setCol t k v) m := by
  intro kv hkv
  rcases mem_setCol hkv with rfl | h
  · exact hv
  · exact hr kv h

theorem rect_selRows (js : List Nat) (t : Table) : Rect (selRows js t) js.length := by
  intro kv hkv
  obtain ⟨x, _, rfl⟩ := List.mem_map.mp hkv
  simp

theorem rect_reuseTable (orig : Table) (js : List Nat) (atoms : List Atom) (hl : js.length = atoms.length) :
    Rect (reuseTable orig js (cifColumns atoms)) js.length := by
  have kx : lookup (cifColumns atoms) "Cartn_x".toList = _ := lookup_cifColumns atoms 10 (by decide)
  have ky : lookup (cifColumns atoms) "Cartn_y".toList = _ := lookup_cifColumns atoms 11 (by decide)
  have kz : lookup (cifColumns atoms) "Cartn_z".toList = _ := lookup_cifColumns atoms 12 (by decide)
  unfold reuseTable
  rw [kx, ky, kz]
  exact rect_setCol (rect_setCol (rect_setCol (rect_selRows js orig) _ _ (by simp [hl])) _ _ (by simp [hl])) _ _
    (by simp [hl])

theorem map_zip_left {α β γ : Type} (l1 : List α) (l2 : List β) (h : l1.length = l2.length) (g : α → γ) :
    l1.map g = (l1.zip l2).map (fun p => g p.1) := by
  induction l1 generalizing l2 with
  | nil => simp
  | cons a l1 ih =>
    cases l2 with
    | nil => simp at h
    | cons b l2 => simp only [List.zip_cons_cons, List.map_cons, ih l2 (by simpa using h)]

theorem map_zip_right {α β γ : Type} (l1 : List α) (l2 : List β) (h : l1.length = l2.length) (g : β → γ) :
    l2.map g = (l1.zip l2).map (fun p => g p.2) := by
  induction l1 generalizing l2 with
  | nil => cases l2 with
    | nil => simp
    | cons _ _ => simp at h
  | cons a l1 ih =>
    cases l2 with
    | nil => simp at h
    | cons b l2 => simp only [List.zip_cons_cons, List.map_cons, ih l2 (by simpa using h)]

/-- the rows `_load_mmcif` types when it reads a re-used table: the selected rows of the original file
with the structure's coordinates written into them -/
theorem rawsOf_reuse (orig : Table) (n : Nat) (hr : Rect orig n) (js : List Nat) (atoms : List Atom)
    (hl : js.length = atoms.length) (hjs : ∀ j ∈ js, j < n) :
    rawsOf (reuseTable orig js (cifColumns atoms)) js.length = (js.zip atoms).map (movedRaw (rawsOf orig n)) := by
  obtain ⟨ex, ey, ez⟩ := colOr_reuse_xyz orig js atoms
  have o := fun (k : String) h1 h2 h3 =>
    (colOr_reuse_other orig n js hjs (cifColumns atoms) k h1 h2 h3).trans
      (map_zip_left js atoms hl (fun j => (colOr orig n k).getD j []))
  conv_lhs => unfold rawsOf
  rw [ex, ey, ez, map_zip_right js atoms hl (fun a => showDec a.x), map_zip_right js atoms hl (fun a => showDec a.y),
    map_zip_right js atoms hl (fun a => showDec a.z),
    o "group_PDB" (by decide) (by decide) (by decide), o "id" (by decide) (by decide) (by decide),
    o "label_atom_id" (by decide) (by decide) (by decide), o "label_alt_id" (by decide) (by decide) (by decide),
    o "label_comp_id" (by decide) (by decide) (by decide), o "label_asym_id" (by decide) (by decide) (by decide),
    o "label_seq_id" (by decide) (by decide) (by decide), o "pdbx_PDB_ins_code" (by decide) (by decide) (by decide),
    o "occupancy" (by decide) (by decide) (by decide), o "B_iso_or_equiv" (by decide) (by decide) (by decide),
    o "pdbx_PDB_model_num" (by decide) (by decide) (by decide), o "type_symbol" (by decide) (by decide) (by decide),
    o "pdbx_formal_charge" (by decide) (by decide) (by decide), zipRaw_map']
  apply List.map_congr_left
  intro p hp
  have hp1 : p.1 < n := hjs _ (List.of_mem_zip hp).1
  unfold movedRaw
  rw [rawsOf_getD orig n hr p.1 hp1]
  rfl

theorem lookup_reuse_xyz (orig : Table) (js : List Nat) (data : Table) :
    (∃ c, lookup (reuseTable orig js data) "Cartn_x".toList = some c) ∧
    (∃ c, lookup (reuseTable orig js data) "Cartn_y".toList = some c) ∧
    (∃ c, lookup (reuseTable orig js data) "Cartn_z".toList = some c) := by
  have nxy : "Cartn_x".toList ≠ "Cartn_y".toList := by decide
  have nxz : "Cartn_x".toList ≠ "Cartn_z".toList := by decide
  have nyz : "Cartn_y".toList ≠ "Cartn_z".toList := by decide
  unfold reuseTable
  refine ⟨?_, ?_, ?_⟩
  · rw [lookup_setCol, if_neg nxz, lookup_setCol, if_neg nxy, lookup_setCol, if_pos rfl]; exact ⟨_, rfl⟩
  · rw [lookup_setCol, if_neg nyz, lookup_setCol, if_pos rfl]; exact ⟨_, rfl⟩
  · rw [lookup_setCol, if_pos rfl]; exact ⟨_, rfl⟩

/-- **`_load_mmcif` on a re-used table**: the atoms of the original file at the selected rows, at the
structure's coordinates -/
theorem loadCifTable_reuse (orig : Table) (n : Nat) (hn : 0 < n) (hr : Rect orig n) (ids xs ys zs : List Str)
    (hid : lookup orig "id".toList = some ids) (hx : lookup orig "Cartn_x".toList = some xs)
    (hy : lookup orig "Cartn_y".toList = some ys) (hz : lookup orig "Cartn_z".toList = some zs)
    (os : List Atom) (hload : loadCifTable orig = some os)
    (ho : Uniform (colOr orig n "occupancy")) (hb : Uniform (colOr orig n "B_iso_or_equiv"))
    (js : List Nat) (atoms : List Atom) (hl : js.length = atoms.length) (hne : atoms ≠ []) (hjs : ∀ j ∈ js, j < n)
    (hdec : ∀ a ∈ atoms, DecOk a.x ∧ DecOk a.y ∧ DecOk a.z) :
    loadCifTable (reuseTable orig js (cifColumns atoms)) =
      some ((js.zip atoms).map (fun p => withCoords (os.getD p.1 default) p.2)) := by
  have hm : 0 < js.length := by rw [hl]; exact List.length_pos_iff.mpr hne
  obtain ⟨⟨cx, hcx⟩, ⟨cy, hcy⟩, ⟨cz, hcz⟩⟩ := lookup_reuse_xyz orig js (cifColumns atoms)
  have hidT : lookup (reuseTable orig js (cifColumns atoms)) "id".toList = some (ids.map id |> fun c => js.map (fun j => c.getD j [])) := by
    rw [lookup_reuse_other orig js _ _ (by decide) (by decide) (by decide), hid]; simp
  rw [loadCifTable_rawsOf _ js.length hm (rect_reuseTable orig js atoms hl) _ cx cy cz hidT hcx hcy hcz,
    rawsOf_reuse orig n hr js atoms hl hjs]
  have hconv : convert (rawsOf orig n) = some os := by
    rw [← loadCifTable_rawsOf orig n hn hr ids xs ys zs hid hx hy hz]; exact hload
  apply convert_sel (rawsOf orig n) os hconv (by rw [rawsOf_occ orig n hr]; exact ho)
    (by rw [rawsOf_b orig n hr]; exact hb)
  · intro e
    have := congrArg List.length e
    simp [List.length_zip, hl] at this
    exact hne this
  · intro p hp
    rw [rawsOf_length orig n hr]
    exact hjs _ (List.of_mem_zip hp).1
  · intro p hp
    exact hdec _ (List.of_mem_zip hp).2

/-! ## the re-used table survives the file syntax -/

theorem tokOk_showInt (i : Int) : TokOk (showInt i) := ⟨showInt_clean i, by
  unfold showInt; split
  · intro hm; rcases List.mem_cons.mp hm with e | hm
    · exact absurd e (by decide)
    · obtain ⟨d, hd, e⟩ := showNat_digits _ _ hm; revert e; interval_cases d <;> decide
  · intro hm; obtain ⟨d, hd, e⟩ := showNat_digits _ _ hm; revert e; interval_cases d <;> decide⟩

theorem tokOk_showDec (d : Dec) (hd : DecOk d) : TokOk (showDec d) := ⟨showDec_clean d hd, by
  unfold showDec
  simp only [List.mem_append, List.mem_map, not_or]
  refine ⟨⟨⟨by split <;> simp, ?_⟩, by simp⟩, ?_⟩
  · intro hm; obtain ⟨k, hk, e⟩ := showNat_digits _ _ hm; revert e; interval_cases k <;> decide
  · rintro ⟨x, hx, e⟩; have := hd x hx; revert e; interval_cases x <;> decide⟩

theorem lineStartOk_cons (c : Char) (rest : Str)
    (h : c ≠ '#' ∧ c ≠ ';' ∧ c ≠ '_' ∧ c ≠ 'd' ∧ c ≠ 'l') : lineStartOk (c :: rest) = true := by
  obtain ⟨h1, h2, h3, h4, h5⟩ := h
  simp [lineStartOk, startsWith, List.isPrefixOf, Ne.symm h1, Ne.symm h2, Ne.symm h3, Ne.symm h4, Ne.symm h5]

theorem showDec_head (d : Dec) : ∃ c rest, showDec d = c :: rest ∧ (c = '-' ∨ IsDigit c) := by
  unfold showDec
  obtain ⟨c, t, h, hc⟩ := showNat_head d.ip
  cases d.neg
  · exact ⟨c, t ++ ['.'] ++ d.frac.map digitChar, by simp [h], Or.inr hc⟩
  · exact ⟨'-', showNat d.ip ++ ['.'] ++ d.frac.map digitChar, by simp, Or.inl rfl⟩

theorem lineStartOk_showDec (d : Dec) : lineStartOk (showDec d) = true := by
  obtain ⟨c, rest, e, hc⟩ := showDec_head d
  rw [e]
  apply lineStartOk_cons
  rcases hc with rfl | ⟨k, hk, rfl⟩
  · decide
  · interval_cases k <;> decide

theorem showDec_ne_nil (d : Dec) : showDec d ≠ [] := by
  obtain ⟨c, rest, e, _⟩ := showDec_head d
  rw [e]; simp

/-- one column of the re-used table -/
def reuseCol (js : List Nat) (dx dy dz : List Str) (kv : Str × List Str) : Str × List Str :=
  if kv.1 == "Cartn_z".toList then ("Cartn_z".toList, dz)
  else if kv.1 == "Cartn_y".toList then ("Cartn_y".toList, dy)
  else if kv.1 == "Cartn_x".toList then ("Cartn_x".toList, dx)
  else (kv.1, js.map (fun j => kv.2.getD j []))

theorem reuseCol_fst (js : List Nat) (dx dy dz : List Str) (kv : Str × List Str) :
    (reuseCol js dx dy dz kv).1 = kv.1 := by
  unfold reuseCol
  split
  · rename_i h; exact (beq_iff_eq.mp h).symm
  · split
    · rename_i h; exact (beq_iff_eq.mp h).symm
    · split
      · rename_i h; exact (beq_iff_eq.mp h).symm
      · rfl

theorem any_of_lookup {t : Table} {k : Str} {c : List Str} (h : lookup t k = some c) :
    t.any (·.1 == k) = true :=
  List.any_eq_true.mpr ⟨(k, c), lookup_mem h, by simp⟩

theorem setCol_present (t : Table) (k : Str) (v : List Str) (h : t.any (·.1 == k) = true) :
    setCol t k v = t.map (fun kv => if kv.1 == k then (k, v) else kv) := by
  unfold setCol; rw [if_pos h]

theorem reuseTable_eq_map (orig : Table) (js : List Nat) (data : Table) (xs ys zs : List Str)
    (hx : lookup orig "Cartn_x".toList = some xs) (hy : lookup orig "Cartn_y".toList = some ys)
    (hz : lookup orig "Cartn_z".toList = some zs) :
    reuseTable orig js data = orig.map (reuseCol js ((lookup data "Cartn_x".toList).getD [])
      ((lookup data "Cartn_y".toList).getD []) ((lookup data "Cartn_z".toList).getD [])) := by
  have ax := any_of_lookup hx
  have ay := any_of_lookup hy
  have az := any_of_lookup hz
  unfold reuseTable selRows
  rw [setCol_present _ "Cartn_x".toList _ (by rw [List.any_map]; exact ax), List.map_map,
    setCol_present _ "Cartn_y".toList _ (by
      rw [List.any_map]
      obtain ⟨kv, hkv, e⟩ := List.any_eq_true.mp ay
      refine List.any_eq_true.mpr ⟨kv, hkv, ?_⟩
      have e' : kv.1 = "Cartn_y".toList := beq_iff_eq.mp e
      simp [Function.comp, e']), List.map_map,
    setCol_present _ "Cartn_z".toList _ (by
      rw [List.any_map]
      obtain ⟨kv, hkv, e⟩ := List.any_eq_true.mp az
      refine List.any_eq_true.mpr ⟨kv, hkv, ?_⟩
      have e' : kv.1 = "Cartn_z".toList := beq_iff_eq.mp e
      simp [Function.comp, e']), List.map_map]
  apply List.map_congr_left
  intro kv _
  have nxy : ("Cartn_x".toList == "Cartn_y".toList) = false := by decide
  have nxz : ("Cartn_x".toList == "Cartn_z".toList) = false := by decide
  have nyz : ("Cartn_y".toList == "Cartn_z".toList) = false := by decide
  simp only [Function.comp, reuseCol]
  generalize "Cartn_x".toList = X at nxy nxz nyz ⊢
  generalize "Cartn_y".toList = Y at nxy nxz nyz ⊢
  generalize "Cartn_z".toList = Z at nxy nxz nyz ⊢
  generalize (lookup data X).getD [] = dx
  generalize (lookup data Y).getD [] = dy
  generalize (lookup data Z).getD [] = dz
  by_cases h1 : kv.1 = X
  · subst h1
    simp only [beq_self_eq_true, if_true, nxy, nxz, Bool.false_eq_true, if_false]
  · have b1 : (kv.1 == X) = false := by simp [h1]
    by_cases h2 : kv.1 = Y
    · subst h2
      simp only [b1, beq_self_eq_true, if_true, nyz, Bool.false_eq_true, if_false]
    · have b2 : (kv.1 == Y) = false := by simp [h2]
      by_cases h3 : kv.1 = Z
      · subst h3
        simp only [b1, b2, beq_self_eq_true, if_true, Bool.false_eq_true, if_false]
      · have b3 : (kv.1 == Z) = false := by simp [h3]
        simp only [b1, b2, b3, Bool.false_eq_true, if_false]

theorem reuseCol_snd_cases (js : List Nat) (dx dy dz : List Str) (kv : Str × List Str) :
    (reuseCol js dx dy dz kv).2 = dz ∨ (reuseCol js dx dy dz kv).2 = dy ∨ (reuseCol js dx dy dz kv).2 = dx ∨
    (reuseCol js dx dy dz kv).2 = js.map (fun j => kv.2.getD j []) := by
  unfold reuseCol
  split
  · exact Or.inl rfl
  · split
    · exact Or.inr (Or.inl rfl)
    · split
      · exact Or.inr (Or.inr (Or.inl rfl))
      · exact Or.inr (Or.inr (Or.inr rfl))

/-- the re-used table is again a loop table that survives the file syntax, with no empty value -/
theorem loopOk_reuse (orig : Table) (n : Nat) (h : LoopOk orig n) (hnev : ∀ kv ∈ orig, ∀ v ∈ kv.2, v ≠ [])
    (xs ys zs : List Str) (hx : lookup orig "Cartn_x".toList = some xs) (hy : lookup orig "Cartn_y".toList = some ys)
    (hz : lookup orig "Cartn_z".toList = some zs)
    (js : List Nat) (atoms : List Atom) (hl : js.length = atoms.length) (hne : atoms ≠ []) (hjs : ∀ j ∈ js, j < n)
    (hdec : ∀ a ∈ atoms, DecOk a.x ∧ DecOk a.y ∧ DecOk a.z) :
    LoopOk (reuseTable orig js (cifColumns atoms)) js.length ∧
    ∀ kv ∈ reuseTable orig js (cifColumns atoms), ∀ v ∈ kv.2, v ≠ [] := by
  have kx : lookup (cifColumns atoms) "Cartn_x".toList = _ := lookup_cifColumns atoms 10 (by decide)
  have ky : lookup (cifColumns atoms) "Cartn_y".toList = _ := lookup_cifColumns atoms 11 (by decide)
  have kz : lookup (cifColumns atoms) "Cartn_z".toList = _ := lookup_cifColumns atoms 12 (by decide)
  have ex : (fun a : Atom => (cifRow a).getD 10 []) = fun a => showDec a.x := by funext a; simp [cifRow]
  have ey : (fun a : Atom => (cifRow a).getD 11 []) = fun a => showDec a.y := by funext a; simp [cifRow]
  have ez : (fun a : Atom => (cifRow a).getD 12 []) = fun a => showDec a.z := by funext a; simp [cifRow]
  rw [reuseTable_eq_map orig js _ xs ys zs hx hy hz, kx, ky, kz, ex, ey, ez]
  simp only [Option.getD_some]
  generalize hdx : atoms.map (fun a => showDec a.x) = dx
  generalize hdy : atoms.map (fun a => showDec a.y) = dy
  generalize hdz : atoms.map (fun a => showDec a.z) = dz
  -- what every column of the new table satisfies
  have good : ∀ c : List Str, (c = dz ∨ c = dy ∨ c = dx ∨ ∃ kv ∈ orig, c = js.map (fun j => kv.2.getD j [])) →
      c.length = js.length ∧ (∀ v ∈ c, TokOk v) ∧ (∀ v ∈ c, v ≠ []) := by
    have hd : ∀ (f : Atom → Dec), (∀ a ∈ atoms, DecOk (f a)) →
        (atoms.map (fun a => showDec (f a))).length = js.length ∧
        (∀ v ∈ atoms.map (fun a => showDec (f a)), TokOk v) ∧ (∀ v ∈ atoms.map (fun a => showDec (f a)), v ≠ []) := by
      intro f hf
      refine ⟨by simp [hl], ?_, ?_⟩
      · intro v hv; obtain ⟨a, ha, rfl⟩ := List.mem_map.mp hv; exact tokOk_showDec _ (hf a ha)
      · intro v hv; obtain ⟨a, _, rfl⟩ := List.mem_map.mp hv; exact showDec_ne_nil _
    intro c hc
    rcases hc with rfl | rfl | rfl | ⟨kv, hkv, rfl⟩
    · rw [← hdz]; exact hd (·.z) (fun a ha => (hdec a ha).2.2)
    · rw [← hdy]; exact hd (·.y) (fun a ha => (hdec a ha).2.1)
    · rw [← hdx]; exact hd (·.x) (fun a ha => (hdec a ha).1)
    · have hm : ∀ v ∈ js.map (fun j => kv.2.getD j []), v ∈ kv.2 := by
        intro v hv
        obtain ⟨j, hj, rfl⟩ := List.mem_map.mp hv
        exact getD_mem kv.2 j [] (by rw [h.len kv hkv]; exact hjs j hj)
      exact ⟨by simp, fun v hv => h.vals kv hkv v (hm v hv), fun v hv => hnev kv hkv v (hm v hv)⟩
  have colcases : ∀ kv ∈ orig, ((reuseCol js dx dy dz kv).2 = dz ∨ (reuseCol js dx dy dz kv).2 = dy ∨
      (reuseCol js dx dy dz kv).2 = dx ∨ ∃ kv' ∈ orig, (reuseCol js dx dy dz kv).2 = js.map (fun j => kv'.2.getD j [])) := by
    intro kv hkv
    rcases reuseCol_snd_cases js dx dy dz kv with e | e | e | e
    · exact Or.inl e
    · exact Or.inr (Or.inl e)
    · exact Or.inr (Or.inr (Or.inl e))
    · exact Or.inr (Or.inr (Or.inr ⟨kv, hkv, e⟩))
  refine ⟨⟨by rw [hl]; exact List.length_pos_iff.mpr hne, by simpa using h.cols, ?_, ?_, ?_, ?_, ?_⟩, ?_⟩
  · intro kv' hkv'
    obtain ⟨kv, hkv, rfl⟩ := List.mem_map.mp hkv'
    rw [reuseCol_fst]; exact h.names kv hkv
  · rw [List.map_map]
    have : ((fun x : Str × List Str => x.1) ∘ reuseCol js dx dy dz) = (·.1) := by
      funext kv; exact reuseCol_fst js dx dy dz kv
    rw [this]; exact h.nodup
  · intro kv' hkv'
    obtain ⟨kv, hkv, rfl⟩ := List.mem_map.mp hkv'
    exact (good _ (colcases kv hkv)).1
  · intro kv' hkv'
    obtain ⟨kv, hkv, rfl⟩ := List.mem_map.mp hkv'
    exact (good _ (colcases kv hkv)).2.1
  · obtain ⟨kv0, trest, ht⟩ : ∃ kv0 trest, orig = kv0 :: trest := by
      cases horig : orig with
      | nil => exact absurd horig h.cols
      | cons a b => exact ⟨a, b, rfl⟩
    have hstart := h.start
    rw [ht] at hstart ⊢
    simp only [List.map_cons, List.headD_cons] at hstart ⊢
    have hk0 : kv0 ∈ orig := by rw [ht]; exact List.mem_cons_self ..
    intro v hv
    have hsd : ∀ (f : Atom → Dec), v ∈ atoms.map (fun a => showDec (f a)) → lineStartOk v = true := by
      intro f hv
      obtain ⟨a, _, rfl⟩ := List.mem_map.mp hv
      exact lineStartOk_showDec _
    rcases reuseCol_snd_cases js dx dy dz kv0 with e | e | e | e <;> rw [e] at hv
    · rw [← hdz] at hv; exact hsd (·.z) hv
    · rw [← hdy] at hv; exact hsd (·.y) hv
    · rw [← hdx] at hv; exact hsd (·.x) hv
    · obtain ⟨j, hj, rfl⟩ := List.mem_map.mp hv
      exact hstart _ (getD_mem kv0.2 j [] (by rw [h.len kv0 hk0]; exact hjs j hj))
  · intro kv' hkv'
    obtain ⟨kv, hkv, rfl⟩ := List.mem_map.mp hkv'
    exact (good _ (colcases kv hkv)).2.2

/-! ## small facts used by the re-use theorems -/

theorem loadCifTable_some_xyz {t : Table} {os : List Atom} (h : loadCifTable t = some os) :
    ∃ xs ys zs, lookup t "Cartn_x".toList = some xs ∧ lookup t "Cartn_y".toList = some ys ∧
      lookup t "Cartn_z".toList = some zs := by
  unfold loadCifTable at h
  cases hx : lookup t "Cartn_x".toList with
  | none => rw [hx] at h; cases h
  | some xs =>
    cases hy : lookup t "Cartn_y".toList with
    | none => rw [hx, hy] at h; cases h
    | some ys =>
      cases hz : lookup t "Cartn_z".toList with
      | none => rw [hx, hy, hz] at h; cases h
      | some zs => exact ⟨xs, ys, zs, rfl, rfl, rfl⟩

theorem mapM_some_mem {α β : Type} {f : α → Option β} {l : List α} {r : List β} (h : l.mapM f = some r) :
    ∀ y ∈ r, ∃ x ∈ l, f x = some y := by
  induction l generalizing r with
  | nil =>
    simp only [List.mapM_nil, Option.pure_def, Option.some.injEq] at h
    subst h; simp
  | cons a rest ih =>
    simp only [List.mapM_cons, Option.bind_eq_bind] at h
    obtain ⟨b, hb, h⟩ := Option.bind_eq_some_iff.mp h
    obtain ⟨r', hr', h⟩ := Option.bind_eq_some_iff.mp h
    simp only [Option.pure_def, Option.some.injEq] at h
    subst h
    intro y hy
    rcases List.mem_cons.mp hy with rfl | hy
    · exact ⟨a, List.mem_cons_self .., hb⟩
    · obtain ⟨x, hx, e⟩ := ih hr' y hy
      exact ⟨x, List.mem_cons_of_mem _ hx, e⟩

theorem map_eq_zip {α β γ : Type} {l1 : List α} {l2 : List β} {f : α → γ} {g : β → γ}
    (h : l1.map f = l2.map g) : ∀ p ∈ l1.zip l2, f p.1 = g p.2 := by
  induction l1 generalizing l2 with
  | nil => simp
  | cons a l1 ih =>
    cases l2 with
    | nil => simp
    | cons b l2 =>
      simp only [List.map_cons, List.cons.injEq] at h
      intro p hp
      simp only [List.zip_cons_cons, List.mem_cons] at hp
      rcases hp with rfl | hp
      · exact h.1
      · exact ih h.2 p hp

theorem map_tok_id (t : Table) (h : ∀ kv ∈ t, ∀ v ∈ kv.2, v ≠ []) :
    t.map (fun kv => (kv.1, kv.2.map tok)) = t := by
  have : ∀ kv ∈ t, (fun kv : Str × List Str => (kv.1, kv.2.map tok)) kv = kv := by
    intro kv hkv
    have : kv.2.map tok = kv.2 := by
      have e : ∀ v ∈ kv.2, tok v = id v := by
        intro v hv
        unfold tok
        cases v with
        | nil => exact absurd rfl (h kv hkv _ hv)
        | cons _ _ => rfl
      rw [List.map_congr_left e, List.map_id]
    simp only [this]
  rw [List.map_congr_left this, List.map_id']

theorem withCoords_serial (o a : Atom) : (withCoords o a).serial = o.serial := rfl

theorem withCoords_idem (o a : Atom) : withCoords (withCoords o a) a = withCoords o a := rfl

end Pm.C09
