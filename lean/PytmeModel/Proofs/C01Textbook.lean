import PytmeModel.Proofs.C03
import PytmeModel.Proofs.C01Field
import Mathlib.Algebra.BigOperators.Group.Finset.Basic
import Mathlib.Algebra.BigOperators.Intervals
import Mathlib.Algebra.Order.Field.Basic
import Mathlib.Tactic.Ring
import Mathlib.Tactic.Linarith
import Mathlib.Tactic.FieldSimp

/-! Box sums are invariant under grid rotations (axis permutations that keep the shape, with reflections), and
for a binary mask standardising twice is standardising once: the code's FLC formula is the textbook formula. -/
open Finset
namespace Pm.C01

section flip
variable {α : Type} [AddCommMonoid α]

/-- per-axis optional reflection of a box index -/
def flipIdx : List Nat → List Bool → List Nat → List Int
  | m :: ms, b :: bs, k :: ks => (if b then ((m:Int) - 1 - (k:Int)) else (k:Int)) :: flipIdx ms bs ks
  | _, _, _ => []

theorem sumShape_flip : ∀ (ms : List Nat) (bs : List Bool) (F : List Int → α), bs.length = ms.length →
    sumShape ms (fun k => F (flipIdx ms bs k)) = sumShape ms (fun k => F (natsToInts k))
  | [], [], F, _ => by simp [sumShape, flipIdx, natsToInts]
  | [], _ :: _, _, h => by simp at h
  | _ :: _, [], _, h => by simp at h
  | m :: ms, b :: bs, F, h => by
    simp only [sumShape]
    have hl : bs.length = ms.length := by simpa using h
    have inner : ∀ i : Nat, sumShape ms (fun idx => F (flipIdx (m :: ms) (b :: bs) (i :: idx)))
        = sumShape ms (fun idx => F ((if b then ((m:Int) - 1 - (i:Int)) else (i:Int)) :: natsToInts idx)) := by
      intro i
      simp only [flipIdx]
      exact sumShape_flip ms bs (fun r => F ((if b then ((m:Int) - 1 - (i:Int)) else (i:Int)) :: r)) hl
    simp only [inner]
    cases b with
    | false => simp only [Bool.false_eq_true, if_false]; rfl
    | true =>
      simp only [if_true]
      rw [sumRange_eq_sum, sumRange_eq_sum, ← Finset.sum_range_reflect]
      apply Finset.sum_congr rfl
      intro j hj
      have hj' := mem_range.mp hj
      have e : ((m:Int) - 1) - ((m - 1 - j : Nat) : Int) = (j : Int) := by omega
      rw [e]
      rfl

theorem sumShape3 (a b c : Nat) (G : List Nat → α) :
    sumShape [a, b, c] G = ∑ i ∈ range a, ∑ j ∈ range b, ∑ k ∈ range c, G [i, j, k] := by
  simp only [sumShape, sumRange_eq_sum]

theorem sumShape2 (a b : Nat) (G : List Nat → α) :
    sumShape [a, b] G = ∑ i ∈ range a, ∑ j ∈ range b, G [i, j] := by
  simp only [sumShape, sumRange_eq_sum]

/-- a grid rotation only permutes (and reflects) the voxels of a shape-invariant box: box sums are unchanged (3-D) -/
theorem sumShape_pull3 (R : GridRot) (a b c : Nat) (hR : GridOk3 R a b c) (F : List Int → α) :
    sumShape [a, b, c] (fun k => F (R.pull [a, b, c] (natsToInts k)))
      = sumShape [a, b, c] (fun k => F (natsToInts k)) := by
  obtain ⟨⟨f0, f1, f2, hf⟩, hp⟩ := hR
  -- remove the reflections last: F ∘ pull = (F ∘ flips) ∘ perm
  have hflip := sumShape_flip [a, b, c] [f0, f1, f2] F rfl
  rw [← hflip]
  rw [sumShape3, sumShape3]
  rcases hp with hp | ⟨hp, e⟩ | ⟨hp, e⟩ | ⟨hp, e1, e2⟩ | ⟨hp, e1, e2⟩ | ⟨hp, e⟩
  · -- identity permutation
    apply Finset.sum_congr rfl; intro i _; apply Finset.sum_congr rfl; intro j _; apply Finset.sum_congr rfl; intro k _
    simp [GridRot.pull, hp, hf, natsToInts, flipIdx, List.range, List.range.loop]
  · -- [0,2,1], b = c
    subst e
    apply Finset.sum_congr rfl; intro i _
    rw [Finset.sum_comm]
    apply Finset.sum_congr rfl; intro j _; apply Finset.sum_congr rfl; intro k _
    simp [GridRot.pull, hp, hf, natsToInts, flipIdx, List.range, List.range.loop]
  · -- [1,0,2], a = b
    subst e
    rw [Finset.sum_comm]
    apply Finset.sum_congr rfl; intro i _; apply Finset.sum_congr rfl; intro j _; apply Finset.sum_congr rfl; intro k _
    simp [GridRot.pull, hp, hf, natsToInts, flipIdx, List.range, List.range.loop]
  · -- [1,2,0], a = b = c
    subst e1; subst e2
    rw [Finset.sum_comm]
    apply Finset.sum_congr rfl; intro j _
    rw [Finset.sum_comm]
    apply Finset.sum_congr rfl; intro k _; apply Finset.sum_congr rfl; intro i _
    simp [GridRot.pull, hp, hf, natsToInts, flipIdx, List.range, List.range.loop]
  · -- [2,0,1], a = b = c
    subst e1; subst e2
    have : ∀ i ∈ range a, (∑ j ∈ range a, ∑ k ∈ range a, F (R.pull [a, a, a] (natsToInts [i, j, k])))
        = ∑ k ∈ range a, ∑ j ∈ range a, F (R.pull [a, a, a] (natsToInts [i, j, k])) := by
      intro i _; exact Finset.sum_comm
    rw [Finset.sum_congr rfl this, Finset.sum_comm]
    apply Finset.sum_congr rfl; intro k _; apply Finset.sum_congr rfl; intro i _; apply Finset.sum_congr rfl; intro j _
    simp [GridRot.pull, hp, hf, natsToInts, flipIdx, List.range, List.range.loop]
  · -- [2,1,0], a = c
    subst e
    have : ∀ i ∈ range a, (∑ j ∈ range b, ∑ k ∈ range a, F (R.pull [a, b, a] (natsToInts [i, j, k])))
        = ∑ k ∈ range a, ∑ j ∈ range b, F (R.pull [a, b, a] (natsToInts [i, j, k])) := by
      intro i _; exact Finset.sum_comm
    rw [Finset.sum_congr rfl this, Finset.sum_comm]
    apply Finset.sum_congr rfl; intro k _
    rw [Finset.sum_comm]
    apply Finset.sum_congr rfl; intro j _; apply Finset.sum_congr rfl; intro i _
    simp [GridRot.pull, hp, hf, natsToInts, flipIdx, List.range, List.range.loop]

theorem sumShape_pull2 (R : GridRot) (a b : Nat) (hR : GridOk2 R a b) (F : List Int → α) :
    sumShape [a, b] (fun k => F (R.pull [a, b] (natsToInts k))) = sumShape [a, b] (fun k => F (natsToInts k)) := by
  obtain ⟨⟨f0, f1, hf⟩, hp⟩ := hR
  have hflip := sumShape_flip [a, b] [f0, f1] F rfl
  rw [← hflip, sumShape2, sumShape2]
  rcases hp with hp | ⟨hp, e⟩
  · apply Finset.sum_congr rfl; intro i _; apply Finset.sum_congr rfl; intro j _
    simp [GridRot.pull, hp, hf, natsToInts, flipIdx, List.range, List.range.loop]
  · subst e
    rw [Finset.sum_comm]
    apply Finset.sum_congr rfl; intro i _; apply Finset.sum_congr rfl; intro j _
    simp [GridRot.pull, hp, hf, natsToInts, flipIdx, List.range, List.range.loop]

end flip

end Pm.C01

namespace Pm.C01
open Pm.C03

section rotstats
variable {α : Type} [Field α] [LinearOrder α] [IsStrictOrderedRing α]

/-- pointwise operations commute with a grid rotation of fields -/
theorem rotF_map2 {β γ δ : Type} (R : GridRot) (ms : List Nat) (op : β → γ → δ) (g : List Int → β) (w : List Int → γ) :
    (fun x => op (rotF R ms g x) (rotF R ms w x)) = rotF R ms (fun x => op (g x) (w x)) := by
  funext x; simp only [rotF]; split <;> rfl

/-- summing a rotated field over the box = summing the field (3-D grid rotations) -/
theorem sumShape_rot3 (R : GridRot) (a b c : Nat) (hR : GridOk3 R a b c) (Q : List Int → α) :
    sumShape [a, b, c] (fun k => rotF R [a, b, c] Q (natsToInts k)) = sumShape [a, b, c] (fun k => Q (natsToInts k)) := by
  rw [← sumShape_pull3 R a b c hR Q]
  apply sumShape_congr
  intro k hk
  simp [rotF, natsToInts_length, inShape_length hk]

theorem sumShape_rot2 (R : GridRot) (a b : Nat) (hR : GridOk2 R a b) (Q : List Int → α) :
    sumShape [a, b] (fun k => rotF R [a, b] Q (natsToInts k)) = sumShape [a, b] (fun k => Q (natsToInts k)) := by
  rw [← sumShape_pull2 R a b hR Q]
  apply sumShape_congr
  intro k hk
  simp [rotF, natsToInts_length, inShape_length hk]

end rotstats

section idem
variable {α : Type} [Field α] [LinearOrder α] [IsStrictOrderedRing α]

/-- what a rotation of template fields has to provide for the statistics to be rotation invariant -/
structure RotSum (ms : List Nat) (rot : (List Int → α) → (List Int → α)) : Prop where
  sum : ∀ Q : List Int → α, sumShape ms (fun k => rot Q (natsToInts k)) = sumShape ms (fun k => Q (natsToInts k))
  map2 : ∀ (op : α → α → α) (g w : List Int → α), (fun x => op (rot g x) (rot w x)) = rot (fun x => op (g x) (w x))

theorem rotSum_grid3 (R : GridRot) (a b c : Nat) (hR : GridOk3 R a b c) : RotSum (α := α) [a, b, c] (rotF R [a, b, c]) :=
  ⟨sumShape_rot3 R a b c hR, fun op g w => rotF_map2 R [a, b, c] op g w⟩
theorem rotSum_grid2 (R : GridRot) (a b : Nat) (hR : GridOk2 R a b) : RotSum (α := α) [a, b] (rotF R [a, b]) :=
  ⟨sumShape_rot2 R a b hR, fun op g w => rotF_map2 R [a, b] op g w⟩
theorem rotSum_id (ms : List Nat) : RotSum (α := α) ms id := ⟨fun _ => rfl, fun _ _ _ => rfl⟩

variable (sqrt : α → α) (eps : α)

theorem maskSum_rot (ms : List Nat) (rot) (hr : RotSum (α := α) ms rot) (w : List Int → α) :
    maskSum (ordOps sqrt eps) ms (rot w) = maskSum (ordOps sqrt eps) ms w := by
  unfold maskSum; rw [boxSum_ord, boxSum_ord, hr.sum]

/-- the template statistics do not change when template and mask are rotated together -/
theorem normStats_rot (ms : List Nat) (rot) (hr : RotSum (α := α) ms rot) (g w : List Int → α) (n : α) :
    normStats (ordOps sqrt eps) ms (rot g) (rot w) n = normStats (ordOps sqrt eps) ms g w n := by
  unfold normStats
  have e1 : (fun k => (ordOps sqrt eps).mul (rot g (natsToInts k)) (rot w (natsToInts k)))
      = fun k => rot (fun x => (ordOps sqrt eps).mul (g x) (w x)) (natsToInts k) := by
    funext k; exact congrFun (hr.map2 _ g w) _
  have e2 : (fun k => (ordOps sqrt eps).mul ((ordOps sqrt eps).sq (rot g (natsToInts k))) (rot w (natsToInts k)))
      = fun k => rot (fun x => (ordOps sqrt eps).mul ((ordOps sqrt eps).sq (g x)) (w x)) (natsToInts k) := by
    funext k
    exact congrFun (hr.map2 (fun a b => (ordOps sqrt eps).mul ((ordOps sqrt eps).sq a) b) g w) _
  simp only [e1, e2, boxSum_ord, hr.sum]

theorem normT_rot (ms : List Nat) (rot) (hr : RotSum (α := α) ms rot) (st : α × α) (g w : List Int → α) :
    normT (ordOps sqrt eps) st (rot g) (rot w) = rot (normT (ordOps sqrt eps) st g w) :=
  hr.map2 (normApply (ordOps sqrt eps) st) g w

theorem sqrt_one (hs : SqrtOk sqrt) : sqrt 1 = 1 := by
  have h1 := hs.sq 1 (by norm_num)
  have h0 := hs.nonneg 1
  nlinarith [sq_nonneg (sqrt 1 - 1), sq_nonneg (sqrt 1 + 1)]

/-- **Standardising twice under a binary mask is standardising once.**  For a mask with `w² = w`, positive mass and a
template that is not constant under it, the standardised template has mean 0 and standard deviation 1 under the
mask, and standardising it again returns it unchanged. -/
theorem normT_idempotent_binary (hs : SqrtOk sqrt) (ms : List Nat) (g w : List Int → α)
    (hbin : ∀ x, w x * w x = w x)
    (hn : 0 < sumShape ms (fun k => w (natsToInts k)))
    (hvar : 0 < (Win.mk ms (fun k => w (natsToInts k)) (fun k => g (natsToInts k)) (fun k => g (natsToInts k))).B) :
    let n := sumShape ms (fun k => w (natsToInts k))
    let gh := normT (ordOps sqrt eps) (normStats (ordOps sqrt eps) ms g w n) g w
    normStats (ordOps sqrt eps) ms gh w n = (0, 1) ∧ normT (ordOps sqrt eps) (0, 1) gh w = gh := by
  intro n gh
  set W : Win α := ⟨ms, fun k => w (natsToInts k), fun k => g (natsToInts k), fun k => g (natsToInts k)⟩ with hW
  have hWn : W.n = n := rfl
  have hnn : W.n ≠ 0 := ne_of_gt hn
  have hw' : ∀ k, inShape W.ms k = true → 0 ≤ W.w k := by
    intro k _
    have := hbin (natsToInts k)
    show 0 ≤ w (natsToInts k)
    rw [← this]; exact mul_self_nonneg _
  have hB0 : 0 ≤ W.B := sumShape_nonneg _ _ (fun k hk => mul_nonneg (hw' k hk) (mul_self_nonneg _))
  have hBn : 0 ≤ W.B / W.n := div_nonneg hB0 (le_of_lt hn)
  -- statistics of g
  have e_gw : boxSum (ordOps sqrt eps) ms (fun k => (ordOps sqrt eps).mul (g (natsToInts k)) (w (natsToInts k)))
      = sumShape ms (fun k => W.w k * W.h k) := by
    rw [boxSum_ord]; apply sumShape_congr; intro k _; simp [ordOps, W]; ring
  have e_g2w : boxSum (ordOps sqrt eps) ms
      (fun k => (ordOps sqrt eps).mul ((ordOps sqrt eps).sq (g (natsToInts k))) (w (natsToInts k)))
      = sumShape ms (fun k => W.w k * (W.h k * W.h k)) := by
    rw [boxSum_ord]; apply sumShape_congr; intro k _; simp [ordOps, Ops.sq, W]; ring
  have e_st : normStats (ordOps sqrt eps) ms g w n = (W.mu, sqrt (W.B / W.n)) := by
    unfold normStats
    simp only [e_gw, e_g2w]
    have emu : (ordOps sqrt eps).div (sumShape ms (fun k => W.w k * W.h k)) n = W.mu := rfl
    rw [emu]
    have evar : (ordOps sqrt eps).sub ((ordOps sqrt eps).div (sumShape ms (fun k => W.w k * (W.h k * W.h k))) n)
        ((ordOps sqrt eps).sq W.mu) = W.B / W.n := by
      have := W.var_formula_h hnn
      simp only [ordOps, Ops.sq]
      rw [← this]; unfold Win.mu; rw [hWn]; ring
    rw [evar, max0_of_nonneg sqrt eps _ hBn]
    rfl
  set σ := sqrt (W.B / W.n) with hσdef
  have hσσ : σ * σ = W.B / W.n := hs.sq _ hBn
  have hσpos : 0 < σ := by
    rcases (hs.nonneg (W.B / W.n)).lt_or_eq with h | h
    · exact h
    · exfalso
      have hz : σ = 0 := by rw [hσdef]; exact h.symm
      have : W.B / W.n = 0 := by rw [← hσσ, hz]; ring
      rcases div_eq_zero_iff.mp this with h' | h'
      · rw [h'] at hvar; exact lt_irrefl _ hvar
      · exact hnn h'
  have hσne : σ ≠ 0 := ne_of_gt hσpos
  -- the standardised template at box voxels
  have hgh : ∀ x, gh x = (g x - W.mu) / σ * w x := by
    intro x
    show normApply (ordOps sqrt eps) (normStats (ordOps sqrt eps) ms g w n) (g x) (w x) = _
    rw [e_st]
    simp [normApply, ordOps]
  -- its mean under the mask is 0
  have hmean : sumShape ms (fun k => gh (natsToInts k) * w (natsToInts k)) = 0 := by
    have e : (fun k => gh (natsToInts k) * w (natsToInts k)) = fun k => (1 / σ) * (W.w k * (W.h k - W.mu)) := by
      funext k
      rw [hgh, mul_assoc, hbin (natsToInts k)]
      simp only [W]
      ring
    rw [e, sumShape_mul_left, W.centered_sum_zero hnn]; ring
  -- its second moment under the mask is n
  have hsq : sumShape ms (fun k => (gh (natsToInts k) * gh (natsToInts k)) * w (natsToInts k)) = W.n := by
    have e : (fun k => (gh (natsToInts k) * gh (natsToInts k)) * w (natsToInts k))
        = fun k => (1 / (σ * σ)) * (W.w k * ((W.h k - W.mu) * (W.h k - W.mu))) := by
      funext k
      rw [hgh]
      have hb := hbin (natsToInts k)
      have hb3 : w (natsToInts k) * w (natsToInts k) * w (natsToInts k) = w (natsToInts k) := by rw [hb, hb]
      have r : ((g (natsToInts k) - W.mu) / σ * w (natsToInts k) * ((g (natsToInts k) - W.mu) / σ * w (natsToInts k))) * w (natsToInts k)
          = ((g (natsToInts k) - W.mu) / σ) * ((g (natsToInts k) - W.mu) / σ) * (w (natsToInts k) * w (natsToInts k) * w (natsToInts k)) := by ring
      rw [r, hb3]
      simp only [W]
      field_simp
    rw [e, sumShape_mul_left]
    have : sumShape ms (fun k => W.w k * ((W.h k - W.mu) * (W.h k - W.mu))) = W.B := rfl
    rw [this, hσσ]
    field_simp
  constructor
  · unfold normStats
    have a1 : boxSum (ordOps sqrt eps) ms (fun k => (ordOps sqrt eps).mul (gh (natsToInts k)) (w (natsToInts k))) = 0 := by
      rw [boxSum_ord]; exact hmean
    have a2 : boxSum (ordOps sqrt eps) ms
        (fun k => (ordOps sqrt eps).mul ((ordOps sqrt eps).sq (gh (natsToInts k))) (w (natsToInts k))) = W.n := by
      rw [boxSum_ord]; exact hsq
    simp only [a1, a2]
    have d0 : (ordOps sqrt eps).div 0 n = 0 := by simp [ordOps]
    have d1 : (ordOps sqrt eps).div W.n n = 1 := by
      show W.n / n = 1
      rw [hWn]; exact div_self (ne_of_gt hn)
    rw [d0, d1]
    have v : (ordOps sqrt eps).sub 1 ((ordOps sqrt eps).sq 0) = 1 := by simp [ordOps, Ops.sq]
    rw [v, max0_of_nonneg sqrt eps 1 (by norm_num)]
    show ((0:α), sqrt 1) = (0, 1)
    rw [sqrt_one sqrt hs]
  · funext x
    show normApply (ordOps sqrt eps) (0, 1) (gh x) (w x) = gh x
    simp only [normApply, ordOps, sub_zero, div_one]
    rw [hgh, mul_assoc, hbin x]

end idem
end Pm.C01
