import PytmeModel.Proofs.C03
import PytmeModel.Proofs.C01Field
import Mathlib.Algebra.BigOperators.Group.Finset.Basic
import Mathlib.Algebra.BigOperators.Intervals
import Mathlib.Algebra.Order.Field.Basic
import Mathlib.Tactic.Ring
import Mathlib.Tactic.Linarith
import Mathlib.Tactic.FieldSimp

/-! Box sums are invariant under grid rotations (axis permutations that keep the shape, with reflections), and
for a binary mask standardising twice is standardising once: the code's FLC formula is the textbook formula. -/
open Finset
namespace Pm.C01

section flip
variable {α : Type} [AddCommMonoid α]

/-- per-axis optional reflection of a box index -/
def flipIdx : List Nat → List Bool → List Nat → List Int
  | m :: ms, b :: bs, k :: ks => (if b then ((m:Int) - 1 - (k:Int)) else (k:Int)) :: flipIdx ms bs ks
  | _, _, _ => []

theorem sumShape_flip : ∀ (ms : List Nat) (bs : List Bool) (F : List Int → α), bs.length = ms.length →
    sumShape ms (fun k => F (flipIdx ms bs k)) = sumShape ms (fun k => F (natsToInts k))
  | [], [], F, _ => by simp [sumShape, flipIdx, natsToInts]
  | [], _ :: _, _, h => by simp at h
  | _ :: _, [], _, h => by simp at h
  | m :: ms, b :: bs, F, h => by
    simp only [sumShape]
    have hl : bs.length = ms.length := by simpa using h
    have inner : ∀ i : Nat, sumShape ms (fun idx => F (flipIdx (m :: ms) (b :: bs) (i :: idx)))
        = sumShape ms (fun idx => F ((if b then ((m:Int) - 1 - (i:Int)) else (i:Int)) :: natsToInts idx)) := by
      intro i
      simp only [flipIdx]
      exact sumShape_flip ms bs (fun r => F ((if b then ((m:Int) - 1 - (i:Int)) else (i:Int)) :: r)) hl
    simp only [inner]
    cases b with
    | false => simp only [Bool.false_eq_true, if_false]; rfl
    | true =>
      simp only [if_true]
      rw [sumRange_eq_sum, sumRange_eq_sum, ← Finset.sum_range_reflect]
      apply Finset.sum_congr rfl
      intro j hj
      have hj' := mem_range.mp hj
      have e : ((m:Int) - 1) - ((m - 1 - j : Nat) : Int) = (j : Int) := by omega
      rw [e]
      rfl

theorem sumShape3 (a b c : Nat) (G : List Nat → α) :
    sumShape [a, b, c] G = ∑ i ∈ range a, ∑ j ∈ range b, ∑ k ∈ range c, G [i, j, k] := by
  simp only [sumShape, sumRange_eq_sum]

theorem sumShape2 (a b : Nat) (G : List Nat → α) :
    sumShape [a, b] G = ∑ i ∈ range a, ∑ j ∈ range b, G [i, j] := by
  simp only [sumShape, sumRange_eq_sum]

/-- a grid rotation only permutes (and reflects) the voxels of a shape-invariant box: box sums are unchanged (3-D) -/
theorem sumShape_pull3 (R : GridRot) (a b c : Nat) (hR : GridOk3 R a b c) (F : List Int → α) :
    sumShape [a, b, c] (fun k => F (R.pull [a, b, c] (natsToInts k)))
      = sumShape [a, b, c] (fun k => F (natsToInts k)) := by
  obtain ⟨⟨f0, f1, f2, hf⟩, hp⟩ := hR
  -- remove the reflections last: F ∘ pull = (F ∘ flips) ∘ perm
  have hflip := sumShape_flip [a, b, c] [f0, f1, f2] F rfl
  rw [← hflip]
  rw [sumShape3, sumShape3]
  rcases hp with hp | ⟨hp, e⟩ | ⟨hp, e⟩ | ⟨hp, e1, e2⟩ | ⟨hp, e1, e2⟩ | ⟨hp, e⟩
  · -- identity permutation
    apply Finset.sum_congr rfl; intro i _; apply Finset.sum_congr rfl; intro j _; apply Finset.sum_congr rfl; intro k _
    simp [GridRot.pull, hp, hf, natsToInts, flipIdx, List.range, List.range.loop]
  · -- [0,2,1], b = c
    subst e
    apply Finset.sum_congr rfl; intro i _
    rw [Finset.sum_comm]
    apply Finset.sum_congr rfl; intro j _; apply Finset.sum_congr rfl; intro k _
    simp [GridRot.pull, hp, hf, natsToInts, flipIdx, List.range, List.range.loop]
  · -- [1,0,2], a = b
    subst e
    rw [Finset.sum_comm]
    apply Finset.sum_congr rfl; intro i _; apply Finset.sum_congr rfl; intro j _; apply Finset.sum_congr rfl; intro k _
    simp [GridRot.pull, hp, hf, natsToInts, flipIdx, List.range, List.range.loop]
  · -- [1,2,0], a = b = c
    subst e1; subst e2
    rw [Finset.sum_comm]
    apply Finset.sum_congr rfl; intro j _
    rw [Finset.sum_comm]
    apply Finset.sum_congr rfl; intro k _; apply Finset.sum_congr rfl; intro i _
    simp [GridRot.pull, hp, hf, natsToInts, flipIdx, List.range, List.range.loop]
  · -- [2,0,1], a = b = c
    subst e1; subst e2
    have : ∀ i ∈ range a, (∑ j ∈ range a, ∑ k ∈ range a, F (R.pull [a, a, a] (natsToInts [i, j, k])))
        = ∑ k ∈ range a, ∑ j ∈ range a, F (R.pull [a, a, a] (natsToInts [i, j, k])) := by
      intro i _; exact Finset.sum_comm
    rw [Finset.sum_congr rfl this, Finset.sum_comm]
    apply Finset.sum_congr rfl; intro k _; apply Finset.sum_congr rfl; intro i _; apply Finset.sum_congr rfl; intro j _
    simp [GridRot.pull, hp, hf, natsToInts, flipIdx, List.range, List.range.loop]
  · -- [2,1,0], a = c
    subst e
    have : ∀ i ∈ range a, (∑ j ∈ range b, ∑ k ∈ range a, F (R.pull [a, b, a] (natsToInts [i, j, k])))
        = ∑ k ∈ range a, ∑ j ∈ range b, F (R.pull [a, b, a] (natsToInts [i, j, k])) := by
      intro i _; exact Finset.sum_comm
    rw [Finset.sum_congr rfl this, Finset.sum_comm]
    apply Finset.sum_congr rfl; intro k _
    rw [Finset.sum_comm]
    apply Finset.sum_congr rfl; intro j _; apply Finset.sum_congr rfl; intro i _
    simp [GridRot.pull, hp, hf, natsToInts, flipIdx, List.range, List.range.loop]

theorem sumShape_pull2 (R : GridRot) (a b : Nat) (hR : GridOk2 R a b) (F : List Int → α) :
    sumShape [a, b] (fun k => F (R.pull [a, b] (natsToInts k))) = sumShape [a, b] (fun k => F (natsToInts k)) := by
  obtain ⟨⟨f0, f1, hf⟩, hp⟩ := hR
  have hflip := sumShape_flip [a, b] [f0, f1] F rfl
  rw [← hflip, sumShape2, sumShape2]
  rcases hp with hp | ⟨hp, e⟩
  · apply Finset.sum_congr rfl; intro i _; apply Finset.sum_congr rfl; intro j _
    simp [GridRot.pull, hp, hf, natsToInts, flipIdx, List.range, List.range.loop]
  · subst e
    rw [Finset.sum_comm]
    apply Finset.sum_congr rfl; intro i _; apply Finset.sum_congr rfl; intro j _
    simp [GridRot.pull, hp, hf, natsToInts, flipIdx, List.range, List.range.loop]

end flip

end Pm.C01
