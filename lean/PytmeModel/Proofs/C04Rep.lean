import PytmeModel.Proofs.C04Merge

/-! `Represents`: a store holds the aggregate of a collection of partial problems (C04). -/
namespace Pm.C04
set_option linter.unusedSectionVars false
variable {K : Type} [DecidableEq K]

/-- rotation `k` was submitted, to some tile covering `p`, with an array holding `v` at `p` -/
def Attains (ts : List (Tile K)) (p : List Nat) (k : K) (v : Int) : Prop :=
  ∃ t ∈ ts, ∃ q a, localIdx t.offset t.shape p = some q ∧ (a, k) ∈ t.hist ∧ a.getD q 0 = v

theorem Attains.mono {ts ts' : List (Tile K)} {p : List Nat} {k : K} {v : Int}
    (h : Attains ts p k v) (hsub : ∀ t ∈ ts, t ∈ ts') : Attains ts' p k v := by
  obtain ⟨t, ht, r⟩ := h
  exact ⟨t, hsub t ht, r⟩

/-- value / identifier pair at the absolute voxel `p` is what the property demands for the tiles `ts`,
identifiers read through the table `tab` -/
def CellOK (thr : Int) (tab : Table K) (ts : List (Tile K)) (p : List Nat) (v r : Int) : Prop :=
  v = specMax thr (allVals ts p) ∧
  ((r = -1 ∧ v = thr) ∨ ∃ k i, lookup k tab = some i ∧ r = (i : Int) ∧ Attains ts p k v ∧ thr < v)

/-- The store `S` (scores, offset, identifiers, table) is a correct aggregate, with threshold `thr`, of
everything submitted through the tiles `ts` — on its box; and nothing was submitted outside its box. -/
structure Represents (thr : Int) (S : Store K) (ts : List (Tile K)) : Prop where
  table_ok : TableOK S.table
  keys : ∀ k, (lookup k S.table).isSome ↔ ∃ t ∈ ts, ∃ a, (a, k) ∈ t.hist
  outside : ∀ p, localIdx S.offset S.scores.shape p = none → allVals ts p = []
  cell : ∀ p q, localIdx S.offset S.scores.shape p = some q →
    CellOK thr S.table ts p (S.scores.getD q 0) (S.rots.getD q 0)

theorem allVals_append (a b : List (Tile K)) (p : List Nat) : allVals (a ++ b) p = allVals a p ++ allVals b p := by
  simp [allVals, List.flatMap_append]

theorem allVals_single (t : Tile K) (p : List Nat) : allVals [t] p = tileVals t p := by
  simp [allVals]

/-- the analyzer of one tile represents that tile -/
theorem tile_represents (thr : Int) (t : Tile K) : Represents thr (tileStore thr t) [t] := by
  have inv := inv_run t.shape thr t.hist
  have hshape : (tileStore thr t).scores.shape = t.shape := inv.shape_sc
  refine ⟨inv.table_ok, ?_, ?_, ?_⟩
  · intro k
    have := inv.keys k
    simp only [tileStore, State.toStore] at this ⊢
    rw [this]; simp
  · intro p h
    rw [hshape] at h
    simp only [tileStore, State.toStore] at h
    simp [allVals_single, tileVals, h]
  · intro p q h
    rw [hshape] at h
    simp only [tileStore, State.toStore] at h ⊢
    have hq := localIdx_inShape h
    refine ⟨?_, ?_⟩
    · rw [inv.score q hq, allVals_single]; simp [tileVals, h]
    · rcases inv.rot q hq with hl | ⟨a, k, i, hm, hl, hr, hv, ht⟩
      · exact Or.inl hl
      · exact Or.inr ⟨k, i, hl, hr, ⟨t, List.mem_singleton.mpr rfl, q, a, h, hm, hv⟩, ht⟩

/-! ## one pass of the merge loop at one voxel -/

theorem mergeStep_shape (out : List Nat) (new : Table K) (acc : Arr Int × Arr Int) (S : Store K) :
    (mergeStep out new acc S).1.shape = out ∧ (mergeStep out new acc S).2.shape = out := ⟨rfl, rfl⟩

theorem mergeStep_cell {thr : Int} {out : List Nat} {new : Table K} {acc : Arr Int × Arr Int} {S : Store K}
    {done ts : List (Tile K)} {p : List Nat}
    (hp : inShape out p = true) (rep : Represents thr S ts)
    (hnew : ∀ k i, lookup k S.table = some i → (lookup k new).isSome)
    (c : CellOK thr new done p (acc.1.getD p 0) (acc.2.getD p 0)) :
    CellOK thr new (done ++ ts) p ((mergeStep out new acc S).1.getD p 0) ((mergeStep out new acc S).2.getD p 0) := by
  obtain ⟨cv, cr⟩ := c
  have hge : thr ≤ acc.1.getD p 0 := by rw [cv]; exact le_specMax _ _
  have hsub : ∀ t ∈ done, t ∈ done ++ ts := fun t h => List.mem_append_left _ h
  have hsub' : ∀ t ∈ ts, t ∈ done ++ ts := fun t h => List.mem_append_right _ h
  have keep : ∀ (r : Int), ((r = -1 ∧ acc.1.getD p 0 = thr) ∨ ∃ k i, lookup k new = some i ∧ r = (i : Int) ∧
        Attains done p k (acc.1.getD p 0) ∧ thr < acc.1.getD p 0) →
      ((r = -1 ∧ acc.1.getD p 0 = thr) ∨ ∃ k i, lookup k new = some i ∧ r = (i : Int) ∧
        Attains (done ++ ts) p k (acc.1.getD p 0) ∧ thr < acc.1.getD p 0) := by
    rintro r (h | ⟨k, i, a, b, c, d⟩)
    · exact Or.inl h
    · exact Or.inr ⟨k, i, a, b, c.mono hsub, d⟩
  simp only [mergeStep]
  rw [Arr.getD_ofFn _ _ _ _ hp, Arr.getD_ofFn _ _ _ _ hp]
  cases hl : localIdx S.offset S.scores.shape p with
  | none =>
    simp only []
    refine ⟨?_, keep _ cr⟩
    rw [allVals_append, rep.outside p hl, List.append_nil]; exact cv
  | some q =>
    simp only []
    obtain ⟨sv, sr⟩ := rep.cell p q hl
    have hmax : specMax thr (allVals (done ++ ts) p) = max (acc.1.getD p 0) (S.scores.getD q 0) := by
      rw [allVals_append, specMax_append, ← cv, sv, max_specMax _ hge]
    by_cases hgt : S.scores.getD q 0 > acc.1.getD p 0
    · simp only [hgt, if_true]
      refine ⟨by rw [hmax]; omega, ?_⟩
      rcases sr with ⟨_, h2⟩ | ⟨k, i, hk, hr, hat, ht⟩
      · omega
      · right
        have hs := hnew k i hk
        obtain ⟨j, hj⟩ := Option.isSome_iff_exists.mp hs
        exact ⟨k, j, hj, by rw [hr]; exact lutGet_lookupTable rep.table_ok hk hj, hat.mono hsub', ht⟩
    · simp only [hgt, if_false]
      exact ⟨by rw [hmax]; omega, keep _ cr⟩

theorem mergeFold_cell {thr : Int} {out : List Nat} {new : Table K} {p : List Nat} (hp : inShape out p = true) :
    ∀ (pairs : List (Store K × List (Tile K))) (acc : Arr Int × Arr Int) (done : List (Tile K)),
    (∀ pr ∈ pairs, Represents thr pr.1 pr.2) →
    (∀ pr ∈ pairs, ∀ k i, lookup k pr.1.table = some i → (lookup k new).isSome) →
    CellOK thr new done p (acc.1.getD p 0) (acc.2.getD p 0) →
    let F := (pairs.map Prod.fst).foldl (mergeStep out new) acc
    CellOK thr new (done ++ (pairs.map Prod.snd).flatten) p (F.1.getD p 0) (F.2.getD p 0) := by
  intro pairs
  induction pairs with
  | nil => intro acc done _ _ c; simpa using c
  | cons pr pairs ih =>
    intro acc done hrep hnew c
    have c' := mergeStep_cell (out := out) (acc := acc) hp (hrep pr List.mem_cons_self) (hnew pr List.mem_cons_self) c
    have := ih (mergeStep out new acc pr.1) (done ++ pr.2)
      (fun x hx => hrep x (List.mem_cons_of_mem _ hx)) (fun x hx => hnew x (List.mem_cons_of_mem _ hx)) c'
    simpa [List.append_assoc] using this

theorem mergeFold_shape (out : List Nat) (new : Table K) : ∀ (ss : List (Store K)) (acc : Arr Int × Arr Int),
    acc.1.shape = out → acc.2.shape = out →
    (ss.foldl (mergeStep out new) acc).1.shape = out ∧ (ss.foldl (mergeStep out new) acc).2.shape = out := by
  intro ss
  induction ss with
  | nil => intro acc h1 h2; exact ⟨h1, h2⟩
  | cons S ss ih => intro acc _ _; exact ih _ rfl rfl

theorem allVals_flatten_nil (tss : List (List (Tile K))) (p : List Nat)
    (h : ∀ ts ∈ tss, allVals ts p = []) : allVals tss.flatten p = [] := by
  induction tss with
  | nil => rfl
  | cons ts tss ih =>
    rw [List.flatten_cons, allVals_append, h ts List.mem_cons_self, ih (fun x hx => h x (List.mem_cons_of_mem _ hx))]
    rfl

theorem flatten_map_singleton {α : Type} (l : List α) : (l.map (fun x => [x])).flatten = l := by
  induction l with
  | nil => rfl
  | cons x l ih => simp [ih]

/-- the general path of `merge` (any number of stores of equal rank): the result represents
everything its inputs represent -/
theorem mergeMany_represents {thr : Int} {d : Nat} (pairs : List (Store K × List (Tile K)))
    (hrep : ∀ pr ∈ pairs, Represents thr pr.1 pr.2) (hd : SameDim d (pairs.map Prod.fst)) :
    Represents thr (mergeMany thr (pairs.map Prod.fst)) (pairs.map Prod.snd).flatten := by
  have hnew : ∀ pr ∈ pairs, ∀ k i, lookup k pr.1.table = some i → (lookup k (newTable (pairs.map Prod.fst))).isSome := by
    intro pr hpr k i hk
    rw [newTable_keys]
    exact ⟨pr.1, List.mem_map.mpr ⟨pr, hpr, rfl⟩, by simp [hk]⟩
  have hshape := mergeFold_shape (outShape (pairs.map Prod.fst)) (newTable (pairs.map Prod.fst)) (pairs.map Prod.fst)
    (Arr.ofFn (outShape (pairs.map Prod.fst)) (fun _ => thr), Arr.ofFn (outShape (pairs.map Prod.fst)) (fun _ => -1)) rfl rfl
  refine ⟨newTable_ok _, ?_, ?_, ?_⟩
  · intro k
    simp only [mergeMany]
    rw [newTable_keys]
    constructor
    · rintro ⟨S, hS, hk⟩
      obtain ⟨pr, hpr, rfl⟩ := List.mem_map.mp hS
      obtain ⟨t, ht, a, ha⟩ := ((hrep pr hpr).keys k).mp hk
      exact ⟨t, List.mem_flatten.mpr ⟨pr.2, List.mem_map.mpr ⟨pr, hpr, rfl⟩, ht⟩, a, ha⟩
    · rintro ⟨t, ht, a, ha⟩
      obtain ⟨ts, hts, htm⟩ := List.mem_flatten.mp ht
      obtain ⟨pr, hpr, rfl⟩ := List.mem_map.mp hts
      exact ⟨pr.1, List.mem_map.mpr ⟨pr, hpr, rfl⟩, ((hrep pr hpr).keys k).mpr ⟨t, htm, a, ha⟩⟩
  · intro p hp
    simp only [mergeMany] at hp
    rw [hshape.1, localIdx_zero] at hp
    have hout : ¬ inShape (outShape (pairs.map Prod.fst)) p = true := by
      intro h; simp [h] at hp
    apply allVals_flatten_nil
    intro ts hts
    obtain ⟨pr, hpr, rfl⟩ := List.mem_map.mp hts
    apply (hrep pr hpr).outside
    cases hl : localIdx pr.1.offset pr.1.scores.shape p with
    | none => rfl
    | some q =>
      exfalso; apply hout
      exact localIdx_inShape_of_le hl (boxEnd_le_outShape hd (List.mem_map.mpr ⟨pr, hpr, rfl⟩))
  · intro p q hl
    simp only [mergeMany] at hl ⊢
    rw [hshape.1, localIdx_zero] at hl
    by_cases hp : inShape (outShape (pairs.map Prod.fst)) p = true
    · simp [hp] at hl; subst hl
      have c0 : CellOK thr (newTable (pairs.map Prod.fst)) ([] : List (Tile K)) p
          ((Arr.ofFn (outShape (pairs.map Prod.fst)) (fun _ => thr)).getD p 0)
          ((Arr.ofFn (outShape (pairs.map Prod.fst)) (fun _ => (-1 : Int))).getD p 0) := by
        rw [Arr.getD_ofFn _ _ _ _ hp, Arr.getD_ofFn _ _ _ _ hp]
        exact ⟨rfl, Or.inl ⟨rfl, rfl⟩⟩
      have := mergeFold_cell hp pairs (Arr.ofFn (outShape (pairs.map Prod.fst)) (fun _ => thr), Arr.ofFn (outShape (pairs.map Prod.fst)) (fun _ => (-1 : Int))) [] hrep hnew c0
      simpa using this
    · simp [hp] at hl

end Pm.C04
