import PytmeModel.Proofs.C05
import PytmeModel.Proofs.Common

/-! Helper lemmas for C05: `_postprocess` puts peaks into the frame of the score map. -/
namespace Pm.C05

/-- the shapes `_postprocess` is called with: a non-empty FFT grid that contains the
convolution box, which contains the output window -/
structure AxOk (ax : Axis) : Prop where
  fast_pos : 0 < ax.fast
  out_nonneg : 0 ≤ ax.out
  out_le : ax.out ≤ ax.conv
  conv_le : ax.conv ≤ ax.fast

theorem cropStart_bounds {ax : Axis} (h : AxOk ax) :
    0 ≤ cropStart ax ∧ cropStart ax + ax.out ≤ ax.conv := by
  unfold cropStart
  have h1 : (0 : Int) ≤ (ax.conv : Int) - ax.out := by have := h.out_le; omega
  rw [Int.tdiv_eq_ediv_of_nonneg h1]
  have := h.out_nonneg
  omega

theorem emod_shift_back (p s N : Int) : ((p + s) % N - s) % N = p % N := by
  rw [Int.sub_emod, Int.emod_emod, ← Int.sub_emod]
  congr 1; ring

theorem emod_shift_fwd (x s N : Int) : ((x - s) % N + s) % N = x % N := by
  rw [Int.add_emod, Int.emod_emod, ← Int.add_emod]
  congr 1; ring

/-- **soundness, one axis**: a kept peak lands inside the output window, exactly where the score map
(`roll` by `shift`, cut to `conv`, crop at `cropStart`) shows the raw voxel it came from. -/
theorem ppAxis_sound {ax : Axis} (h : AxOk ax) {p t : Int} (hp0 : 0 ≤ p) (hp1 : p < ax.fast)
    (ht : ppAxis true ax p = some t) :
    0 ≤ t ∧ t < ax.out ∧ ((mapSrc ax t.toNat : Nat) : Int) = p := by
  unfold ppAxis at ht
  simp only [if_true] at ht
  split at ht
  · rename_i hw
    simp only [Option.some.injEq] at ht
    obtain ⟨hs0, _⟩ := cropStart_bounds h
    refine ⟨by omega, by omega, ?_⟩
    unfold mapSrc rollSrc
    have ht0 : 0 ≤ t := by omega
    have e1 : ((t.toNat : Int) + cropStart ax) = (p + ax.shift) % (ax.fast : Int) := by
      rw [Int.toNat_of_nonneg ht0]; omega
    have hw0 : 0 ≤ (p + ax.shift) % (ax.fast : Int) := by omega
    rw [e1, Int.toNat_of_nonneg hw0, emod_shift_back]
    have hfast : (0 : Int) < ax.fast := by have := h.fast_pos; omega
    rw [Int.emod_eq_of_lt hp0 hp1]
    exact Int.toNat_of_nonneg hp0
  · simp at ht

/-- **completeness, one axis**: every index `t` of the output window — the first and the last
included — is produced by the raw voxel the score map shows at `t`. -/
theorem ppAxis_complete {ax : Axis} (h : AxOk ax) {t : Nat} (ht : (t : Int) < ax.out) :
    ppAxis true ax (mapSrc ax t : Nat) = some (t : Int) := by
  obtain ⟨hs0, hs1⟩ := cropStart_bounds h
  have hfast : (0 : Int) < ax.fast := by have := h.fast_pos; omega
  have hcl : (ax.conv : Int) ≤ ax.fast := by have := h.conv_le; omega
  unfold ppAxis mapSrc rollSrc
  simp only [if_true]
  have hx0 : 0 ≤ (t : Int) + cropStart ax := by omega
  have hm0 : 0 ≤ ((((t : Int) + cropStart ax).toNat : Int) - ax.shift) % (ax.fast : Int) :=
    Int.emod_nonneg _ (by omega)
  rw [Int.toNat_of_nonneg hm0, Int.toNat_of_nonneg hx0, emod_shift_fwd,
      Int.emod_eq_of_lt hx0 (by omega)]
  rw [if_pos (by omega)]
  congr 1; omega

/-- raw positions and reported positions correspond axis by axis -/
def FrameOk : List Axis → List Int → List Int → Prop
  | ax :: axs, p :: ps, t :: ts =>
      (0 ≤ t ∧ t < ax.out ∧ ((mapSrc ax t.toNat : Nat) : Int) = p) ∧ FrameOk axs ps ts
  | [], [], [] => True
  | _, _, _ => False

/-- raw position inside the FFT grid -/
def RawOk : List Axis → List Int → Prop
  | ax :: axs, p :: ps => (0 ≤ p ∧ p < ax.fast) ∧ RawOk axs ps
  | [], [] => True
  | _, _ => False

theorem ppPos_sound : ∀ (axs : List Axis) (p t : List Int), (∀ ax ∈ axs, AxOk ax) → RawOk axs p →
    ppPos true axs p = some t → FrameOk axs p t
  | [], [], t, _, _, h => by simp [ppPos] at h; subst h; trivial
  | [], _ :: _, _, _, hr, _ => by simp [RawOk] at hr
  | _ :: _, [], _, _, hr, _ => by simp [RawOk] at hr
  | ax :: axs, p :: ps, t, hax, hr, h => by
      unfold ppPos at h
      split at h
      · rename_i q qs hq hqs
        simp only [Option.some.injEq] at h; subst h
        exact ⟨ppAxis_sound (hax ax (by simp)) hr.1.1 hr.1.2 hq,
               ppPos_sound axs ps qs (fun a ha => hax a (List.mem_cons_of_mem _ ha)) hr.2 hqs⟩
      · simp at h

/-- output indices inside the window -/
def OutOk : List Axis → List Nat → Prop
  | ax :: axs, t :: ts => (t : Int) < ax.out ∧ OutOk axs ts
  | [], [] => True
  | _, _ => False

/-- the raw multi-index the score map shows at output index `t` -/
def mapSrcN : List Axis → List Nat → List Int
  | ax :: axs, t :: ts => ((mapSrc ax t : Nat) : Int) :: mapSrcN axs ts
  | _, _ => []

theorem ppPos_complete : ∀ (axs : List Axis) (t : List Nat), (∀ ax ∈ axs, AxOk ax) → OutOk axs t →
    ppPos true axs (mapSrcN axs t) = some (t.map Int.ofNat)
  | [], [], _, _ => by simp [ppPos]
  | [], _ :: _, _, h => by simp [OutOk] at h
  | _ :: _, [], _, h => by simp [OutOk] at h
  | ax :: axs, t :: ts, hax, h => by
      simp only [mapSrcN, ppPos, List.map_cons]
      rw [ppAxis_complete (hax ax (by simp)) h.1,
          ppPos_complete axs ts (fun a ha => hax a (List.mem_cons_of_mem _ ha)) h.2]
      rfl

theorem rawOk_of_inShape : ∀ (axes : List Axis) (c : List Nat),
    inShape (axes.map (·.fast)) c = true → RawOk axes (c.map Int.ofNat)
  | [], [], _ => trivial
  | [], _ :: _, h => by simp [inShape] at h
  | _ :: _, [], h => by simp [inShape] at h
  | ax :: axs, c :: cs, h => by
      rw [List.map_cons, inShape_cons] at h
      have h1 : (c : Int) < (ax.fast : Int) := by exact_mod_cast h.1
      exact ⟨⟨Int.natCast_nonneg c, h1⟩, rawOk_of_inShape axs cs h.2⟩

theorem postprocess_mem {wrap : Bool} {axes : List Axis} {peaks : List Peak} {q : Peak}
    (h : q ∈ postprocess wrap axes peaks) :
    ∃ p ∈ peaks, ppPos wrap axes p.pos = some q.pos ∧ q.rot = p.rot ∧ q.score = p.score := by
  unfold postprocess at h
  rw [List.mem_filterMap] at h
  obtain ⟨p, hp, hq⟩ := h
  cases hpp : ppPos wrap axes p.pos with
  | none => rw [hpp] at hq; simp at hq
  | some t =>
    rw [hpp] at hq
    simp only [Option.map_some, Option.some.injEq] at hq
    subst hq
    exact ⟨p, hp, hpp, rfl, rfl⟩

theorem postprocess_length (wrap : Bool) (axes : List Axis) (peaks : List Peak) :
    (postprocess wrap axes peaks).length ≤ peaks.length := by
  unfold postprocess; exact List.length_filterMap_le _ _

end Pm.C05
