import PytmeModel.Model.C17Scores
import PytmeModel.Proofs.C17
import Mathlib.Tactic.Ring
import Mathlib.Tactic.Linarith
import Mathlib.Tactic.FieldSimp
import Mathlib.Algebra.Order.Field.Basic

/-! Helper lemmas for the score-formula theorems of `Props/C17.lean`. -/
namespace Pm.C17

section ordered
variable {α : Type} [Field α] [LinearOrder α] [IsStrictOrderedRing α]

theorem dot_self_nonneg : ∀ (v : List α), 0 ≤ dot 0 v v
  | [] => by simp [dot]
  | a :: v => by
      simp only [dot]
      have := dot_self_nonneg v
      nlinarith [mul_self_nonneg a]

omit [LinearOrder α] [IsStrictOrderedRing α] in
theorem dot_comm : ∀ (v w : List α), dot 0 v w = dot 0 w v
  | [], [] => rfl
  | [], _ :: _ => rfl
  | _ :: _, [] => rfl
  | a :: v, b :: w => by simp only [dot, dot_comm v w]; ring

/-- Cauchy–Schwarz plus a norm bound: `⟨v,w⟩ ≤ ⟨w,w⟩` whenever `‖v‖ ≤ ‖w‖` -/
theorem dot_le_of_norm_le (v w : List α) (h : v.length = w.length) (hn : dot 0 v v ≤ dot 0 w w) :
    dot 0 v w ≤ dot 0 w w := by
  have h1 := dot_sq_le v w h
  have h2 := dot_self_nonneg w
  have h3 := dot_self_nonneg v
  by_contra hc
  have hc' : dot 0 w w < dot 0 v w := not_le.mp hc
  have : dot 0 w w * dot 0 w w < dot 0 v w * dot 0 v w := mul_self_lt_mul_self h2 hc'
  nlinarith [mul_le_mul_of_nonneg_right hn h2]

/-- a quotient by a positive square root of a Cauchy–Schwarz bound is at most one -/
theorem div_root_le_one (num dsq s : α) (hs : 0 < s) (hsq : s ^ 2 = dsq) (h : num ^ 2 ≤ dsq) :
    num / s ≤ 1 := by
  rw [div_le_one hs]
  by_contra hc
  have hc' : s < num := not_le.mp hc
  have : s * s < num * num := mul_self_lt_mul_self hs.le hc'
  nlinarith

theorem neg_one_le_div_root (num dsq s : α) (hs : 0 < s) (hsq : s ^ 2 = dsq) (h : num ^ 2 ≤ dsq) :
    -1 ≤ num / s := by
  have := div_root_le_one (-num) dsq s hs hsq (by simpa using h)
  rw [neg_div] at this
  linarith

theorem div_root_self (a s : α) (ha : 0 < a) (hs : 0 < s) (hsq : s ^ 2 = a * a) : a / s = 1 := by
  have : s = a := by
    have h : (s - a) * (s + a) = 0 := by ring_nf; rw [hsq]; ring
    rcases mul_eq_zero.mp h with h | h
    · linarith
    · linarith
  rw [this]; exact div_self ha.ne'

theorem plsq_eq_zero : ∀ (v w : List α), v.length = w.length → plsq 0 v w = 0 → v = w
  | [], [], _, _ => rfl
  | [], _ :: _, h, _ => by simp at h
  | _ :: _, [], h, _ => by simp at h
  | a :: v, b :: w, h, h0 => by
      simp only [plsq] at h0
      have h1 := plsq_nonneg_aux v w
      have h2 := mul_self_nonneg (a - b)
      have h3 : (a - b) * (a - b) = 0 := by linarith
      have h4 : plsq 0 v w = 0 := by linarith
      have h5 : a = b := by
        have := mul_self_eq_zero.mp h3
        linarith
      rw [h5, plsq_eq_zero v w (by simpa using h) h4]

end ordered

/-! ## Envelope -/

theorem cnt_cons (x a : Int) (v : List Int) : cnt x (a :: v) = cnt x v + (if a = x then 1 else 0) := by
  unfold cnt
  rw [List.count_cons]
  by_cases h : a = x <;> simp [h]

theorem cnt_nonneg (x : Int) (v : List Int) : 0 ≤ cnt x v := by unfold cnt; omega

theorem sumI_add_cnt : ∀ v : List Int, (∀ x ∈ v, x = -1 ∨ x = 0 ∨ x = 1) →
    sumI v + cnt (-1) v = cnt 1 v
  | [], _ => by simp [sumI, cnt]
  | a :: v, h => by
      have ih := sumI_add_cnt v (fun x hx => h x (List.mem_cons_of_mem _ hx))
      have ha := h a List.mem_cons_self
      rw [cnt_cons, cnt_cons]
      simp only [sumI]
      rcases ha with rfl | rfl | rfl <;> simp <;> omega

theorem cnt_total : ∀ v : List Int, (∀ x ∈ v, x = -1 ∨ x = 0 ∨ x = 1) →
    cnt (-1) v + cnt 0 v + cnt 1 v = v.length
  | [], _ => by simp [cnt]
  | a :: v, h => by
      have ih := cnt_total v (fun x hx => h x (List.mem_cons_of_mem _ hx))
      have ha := h a List.mem_cons_self
      rw [cnt_cons, cnt_cons, cnt_cons]
      simp only [List.length_cons]
      rcases ha with rfl | rfl | rfl <;> simp <;> omega

theorem cnt_append (x : Int) (l r : List Int) : cnt x (l ++ r) = cnt x l + cnt x r := by
  unfold cnt; rw [List.count_append]; omega

theorem sumI_append : ∀ (l r : List Int), sumI (l ++ r) = sumI l + sumI r
  | [], r => by simp [sumI]
  | a :: l, r => by simp only [List.cons_append, sumI, sumI_append l r]; omega

/-! ## Chamfer -/

section chamfer
variable {α : Type} [Field α] [LinearOrder α] [IsStrictOrderedRing α]

omit [IsStrictOrderedRing α] in
theorem nnSq_cons (p q0 q : List α) (qs : List (List α)) :
    nnSq 0 p q0 (q :: qs) = min (plsq 0 p q) (nnSq 0 p q0 qs) := rfl

omit [IsStrictOrderedRing α] in
theorem nnSq_le_of_mem (p q0 : List α) : ∀ (qs : List (List α)), ∀ q ∈ q0 :: qs, nnSq 0 p q0 qs ≤ plsq 0 p q
  | [], q, hq => by
      have : q = q0 := by simpa using hq
      subst this; exact le_refl _
  | r :: rs, q, hq => by
      rw [nnSq_cons]
      have : q = q0 ∨ q = r ∨ q ∈ rs := by simpa using hq
      rcases this with h | h | h
      · exact (min_le_right _ _).trans (nnSq_le_of_mem p q0 rs q (by simp [h]))
      · subst h; exact min_le_left _ _
      · exact (min_le_right _ _).trans (nnSq_le_of_mem p q0 rs q (by simp [h]))

omit [IsStrictOrderedRing α] in
theorem nnSq_attained (p q0 : List α) : ∀ (qs : List (List α)), ∃ q ∈ q0 :: qs, nnSq 0 p q0 qs = plsq 0 p q
  | [] => ⟨q0, by simp, rfl⟩
  | r :: rs => by
      obtain ⟨q, hq, he⟩ := nnSq_attained p q0 rs
      rw [nnSq_cons]
      rcases min_choice (plsq 0 p r) (nnSq 0 p q0 rs) with h | h
      · exact ⟨r, by simp, h⟩
      · refine ⟨q, ?_, h.trans he⟩
        have : q = q0 ∨ q ∈ rs := by simpa using hq
        rcases this with h' | h' <;> simp [h']

end chamfer

/-! ## centred Cauchy–Schwarz (MaskedCrossCorrelation with one common mask) -/

section centred
variable {α : Type} [Field α]

theorem sumL_map_sub (c : α) : ∀ v : List α, sumL 0 (v.map (· - c)) = sumL 0 v - (v.length : α) * c
  | [] => by simp [sumL]
  | a :: v => by
      simp only [List.map_cons, sumL, sumL_map_sub c v, List.length_cons]
      push_cast; ring

theorem dot_centred (a b : α) : ∀ (v w : List α), v.length = w.length →
    dot 0 (v.map (· - a)) (w.map (· - b)) =
      dot 0 v w - b * sumL 0 v - a * sumL 0 w + (v.length : α) * a * b
  | [], [], _ => by simp [dot, sumL]
  | [], _ :: _, h => by simp at h
  | _ :: _, [], h => by simp at h
  | x :: v, y :: w, h => by
      have ih := dot_centred a b v w (by simpa using h)
      simp only [List.map_cons, dot, sumL, ih, List.length_cons]
      push_cast; ring

theorem dot_centred_mean (v w : List α) (h : v.length = w.length) (hn : (v.length : α) ≠ 0) :
    dot 0 (v.map (· - sumL 0 v / (v.length : α))) (w.map (· - sumL 0 w / (v.length : α))) =
      dot 0 v w - sumL 0 v * sumL 0 w / (v.length : α) := by
  rw [dot_centred _ _ v w h]
  field_simp
  ring

end centred

/-! ## MaskedCrossCorrelation on exact integer coordinates -/

theorem inVolQ_asRatio : ∀ (shape : List Nat) (p : List Int), inVolQ shape (asRatio p) = inVol shape p
  | [], [] => rfl
  | [], _ :: _ => rfl
  | _ :: _, [] => rfl
  | n :: ns, a :: p => by
      have ih := inVolQ_asRatio ns p
      simp only [asRatio, List.map_cons] at ih ⊢
      simp only [inVolQ, inVol, ih]
      simp

theorem cellOf_asRatio (p : List Int) : cellOf (asRatio p) = p := by
  induction p with
  | nil => rfl
  | cons a p ih =>
    simp only [cellOf, asRatio, List.map_cons, List.map_map] at ih ⊢
    rw [ih]
    simp [truncRatio]

section
variable {α : Type} [Field α] [LinearOrder α] [IsStrictOrderedRing α]

omit [LinearOrder α] [IsStrictOrderedRing α] in
theorem sumL_map_one (M : List Int → α) : ∀ (P : List (List Int)), (∀ p ∈ P, M p = 1) →
    sumL 0 (P.map M) = (P.length : α)
  | [], _ => by simp [sumL]
  | p :: P, h => by
      have ih := sumL_map_one M P (fun q hq => h q (List.mem_cons_of_mem _ hq))
      simp only [List.map_cons, sumL, ih, h p List.mem_cons_self, List.length_cons]
      push_cast; ring

omit [IsStrictOrderedRing α] in
theorem mccParts_integer_aux (eps : α) (shape : List Nat) (T M : List Int → α) (P : List (List Int)) (w : List α)
    (hin : ∀ p ∈ P, inVol shape p = true) (hM : ∀ p ∈ P, M p = 1) (hlen : P.length = w.length)
    (heps : eps ≤ (P.length : α)) :
    mccParts 0 eps shape T M (P.map asRatio) (P.map asRatio) w =
      mccCore 0 (P.length : α) (P.map T) w (P.map T) w := by
  have hf : (P.map asRatio).filter (inVolQ shape) = P.map asRatio := by
    apply List.filter_eq_self.mpr
    intro q hq
    obtain ⟨p, hp, rfl⟩ := List.mem_map.mp hq
    rw [inVolQ_asRatio]; exact hin p hp
  have hz : ((P.map asRatio).zip w).filter (fun pw => inVolQ shape pw.1) = (P.map asRatio).zip w := by
    apply List.filter_eq_self.mpr
    intro q hq
    have := (List.of_mem_zip hq).1
    obtain ⟨p, hp, he⟩ := List.mem_map.mp this
    rw [← he, inVolQ_asRatio]; exact hin p hp
  have hc : (P.map asRatio).map cellOf = P := by
    rw [List.map_map]
    conv_rhs => rw [← List.map_id P]
    apply List.map_congr_left
    intro p _; simp [cellOf_asRatio]
  have hl : (P.map asRatio).length = w.length := by simpa using hlen
  have e2 : ((P.map asRatio).zip w).map (·.2) = w := List.map_snd_zip (by omega)
  have e3 : ((P.map asRatio).zip w).map (fun pw => T (cellOf pw.1)) = P.map T := by
    have : ((P.map asRatio).zip w).map (fun pw => T (cellOf pw.1)) =
        (((P.map asRatio).zip w).map (·.1)).map (fun q => T (cellOf q)) := by rw [List.map_map]; rfl
    rw [this, List.map_fst_zip (by omega), List.map_map]
    apply List.map_congr_left
    intro p _; simp [cellOf_asRatio]
  have e4 : ((P.map asRatio).zip w).map (fun pw => pw.2 * M (cellOf pw.1)) = w := by
    conv_rhs => rw [← e2]
    apply List.map_congr_left
    intro q hq
    have := (List.of_mem_zip hq).1
    obtain ⟨p, hp, he⟩ := List.mem_map.mp this
    rw [← he, cellOf_asRatio, hM p hp, mul_one]
  simp only [mccParts, hf, hz, hc, e2, e3, e4, sumL_map_one M P hM, max_eq_left heps]

end

/-! ## FLC with a full mask -/
section
variable {α : Type} [Field α]

theorem dot3_ones_right : ∀ (a b : List α), a.length = b.length →
    dot3 0 a b (List.replicate a.length 1) = dot 0 a b
  | [], [], _ => rfl
  | [], _ :: _, h => by simp at h
  | _ :: _, [], h => by simp at h
  | x :: a, y :: b, h => by
      simp only [List.length_cons, List.replicate_succ, dot3, dot, mul_one,
        dot3_ones_right a b (by simpa using h)]

theorem dot3_ones_left : ∀ (a b : List α), a.length = b.length →
    dot3 0 (List.replicate a.length 1) a b = dot 0 a b
  | [], [], _ => rfl
  | [], _ :: _, h => by simp at h
  | _ :: _, [], h => by simp at h
  | x :: a, y :: b, h => by
      simp only [List.length_cons, List.replicate_succ, dot3, dot, one_mul,
        dot3_ones_left a b (by simpa using h)]

theorem dot_ones_right : ∀ (a : List α), dot 0 a (List.replicate a.length 1) = sumL 0 a
  | [] => rfl
  | x :: a => by simp only [List.length_cons, List.replicate_succ, dot, sumL, mul_one, dot_ones_right a]

theorem dot_map_sub_left (c : α) : ∀ (a b : List α), a.length = b.length →
    dot 0 (a.map (· - c)) b = dot 0 a b - c * sumL 0 b
  | [], [], _ => by simp [dot, sumL]
  | [], _ :: _, h => by simp at h
  | _ :: _, [], h => by simp at h
  | x :: a, y :: b, h => by
      simp only [List.map_cons, dot, sumL, dot_map_sub_left c a b (by simpa using h)]; ring

theorem dot3_ones_right' (L : Nat) (a b : List α) (ha : a.length = L) (hb : b.length = L) :
    dot3 0 a b (List.replicate L 1) = dot 0 a b := by
  subst ha; exact dot3_ones_right a b hb.symm

theorem dot3_ones_left' (L : Nat) (a b : List α) (ha : a.length = L) (hb : b.length = L) :
    dot3 0 (List.replicate L 1) a b = dot 0 a b := by
  subst ha; exact dot3_ones_left a b hb.symm

theorem dot_ones_right' (L : Nat) (a : List α) (ha : a.length = L) :
    dot 0 a (List.replicate L 1) = sumL 0 a := by
  subst ha; exact dot_ones_right a
end

section
variable {α : Type} [Field α] [LinearOrder α] [IsStrictOrderedRing α]

/-- FLC with a full mask and the whole template inside the target: the three parts in closed form -/
theorem flcCore_full (g f : List α) (h : g.length = f.length) (hn : (g.length : α) ≠ 0) :
    flcCore 0 (g.length : α) g (List.replicate g.length 1) g (List.replicate g.length 1) f =
      (dot 0 g f - sumL 0 g * sumL 0 f / (g.length : α),
       (dot 0 g g - sumL 0 g * sumL 0 g / (g.length : α)) / (g.length : α),
       (dot 0 f f - sumL 0 f * sumL 0 f / (g.length : α)) / (g.length : α)) := by
  have hpos : (0 : α) < (g.length : α) := lt_of_le_of_ne (Nat.cast_nonneg _) (Ne.symm hn)
  have e1 := dot_centred_mean g g rfl hn
  have e3 := dot_centred_mean f f rfl (h ▸ hn)
  rw [← h] at e3
  have n1 := dot_self_nonneg (g.map (· - sumL 0 g / (g.length : α)))
  have n3 := dot_self_nonneg (f.map (· - sumL 0 f / (g.length : α)))
  simp only [flcCore]
  rw [dot3_ones_right' g.length g g rfl rfl, dot_ones_right' g.length g rfl,
    dot3_ones_left' g.length _ f (by simp) h.symm, dot_map_sub_left _ g f h,
    dot3_ones_right' g.length f f h.symm h.symm, dot_ones_right' g.length f h.symm]
  have v1 : dot 0 g g / (g.length : α) - sumL 0 g / (g.length : α) * (sumL 0 g / (g.length : α)) =
      (dot 0 g g - sumL 0 g * sumL 0 g / (g.length : α)) / (g.length : α) := by field_simp
  have v3 : dot 0 f f / (g.length : α) - sumL 0 f / (g.length : α) * (sumL 0 f / (g.length : α)) =
      (dot 0 f f - sumL 0 f * sumL 0 f / (g.length : α)) / (g.length : α) := by field_simp
  rw [v1, v3, ← e1, ← e3, max_eq_left (div_nonneg n1 hpos.le), max_eq_left (div_nonneg n3 hpos.le)]
  congr 1
  ring

theorem flc_full_sq_le_aux (g f : List α) (h : g.length = f.length) (hn : (g.length : α) ≠ 0) :
    (flcCore 0 (g.length : α) g (List.replicate g.length 1) g (List.replicate g.length 1) f).1 ^ 2 ≤
      ((g.length : α) * (flcCore 0 (g.length : α) g (List.replicate g.length 1) g (List.replicate g.length 1) f).2.1) *
        ((g.length : α) * (flcCore 0 (g.length : α) g (List.replicate g.length 1) g (List.replicate g.length 1) f).2.2) := by
  rw [flcCore_full g f h hn]
  simp only []
  rw [mul_div_cancel₀ _ hn, mul_div_cancel₀ _ hn]
  have e1 := dot_centred_mean g g rfl hn
  have e2 := dot_centred_mean g f h hn
  have e3 := dot_centred_mean f f rfl (h ▸ hn)
  rw [← h] at e3
  rw [← e1, ← e2, ← e3]
  exact dot_sq_le _ _ (by simp [h])

theorem flc_full_planted_aux (g : List α) (hn : (g.length : α) ≠ 0) :
    (flcCore 0 (g.length : α) g (List.replicate g.length 1) g (List.replicate g.length 1) g).1 =
      (g.length : α) * (flcCore 0 (g.length : α) g (List.replicate g.length 1) g (List.replicate g.length 1) g).2.1 ∧
    (flcCore 0 (g.length : α) g (List.replicate g.length 1) g (List.replicate g.length 1) g).2.1 =
      (flcCore 0 (g.length : α) g (List.replicate g.length 1) g (List.replicate g.length 1) g).2.2 ∧
    0 ≤ (flcCore 0 (g.length : α) g (List.replicate g.length 1) g (List.replicate g.length 1) g).1 := by
  rw [flcCore_full g g rfl hn]
  simp only []
  rw [mul_div_cancel₀ _ hn]
  refine ⟨rfl, trivial, ?_⟩
  rw [← dot_centred_mean g g rfl hn]
  exact dot_self_nonneg _

end
/-! ## FLC with a binary mask -/
section
variable {α : Type} [Field α] [DecidableEq α]

/-- the entries of `a` where the binary mask is 1 -/
def pick : List α → List α → List α
  | x :: a, b :: m => if b = 1 then x :: pick a m else pick a m
  | _, _ => []

theorem pick_map (h : α → α) : ∀ (a m : List α), pick (a.map h) m = (pick a m).map h
  | [], _ => by simp [pick]
  | _ :: _, [] => by simp [pick]
  | x :: a, b :: m => by
      simp only [List.map_cons, pick]
      split <;> simp [pick_map h a m]

theorem dot3_pick : ∀ (a b m : List α), (∀ x ∈ m, x = 0 ∨ x = 1) →
    dot3 0 a b m = dot 0 (pick a m) (pick b m)
  | [], _, _, _ => by simp [dot3, pick, dot]
  | _ :: _, [], _, _ => by simp [dot3, pick, dot]
  | _ :: _, _ :: _, [], _ => by simp [dot3, pick, dot]
  | x :: a, y :: b, c :: m, h => by
      have ih := dot3_pick a b m (fun z hz => h z (List.mem_cons_of_mem _ hz))
      rcases h c List.mem_cons_self with rfl | rfl
      · simp [dot3, pick, ih]
      · simp [dot3, pick, dot, ih]

theorem dot3_pick_left : ∀ (a b m : List α), (∀ x ∈ m, x = 0 ∨ x = 1) →
    dot3 0 m a b = dot 0 (pick a m) (pick b m)
  | [], _, _, _ => by simp [dot3, pick, dot]
  | _ :: _, [], m, _ => by cases m <;> simp [dot3, pick, dot]
  | _ :: _, _ :: _, [], _ => by simp [dot3, pick, dot]
  | x :: a, y :: b, c :: m, h => by
      have ih := dot3_pick_left a b m (fun z hz => h z (List.mem_cons_of_mem _ hz))
      rcases h c List.mem_cons_self with rfl | rfl
      · simp [dot3, pick, ih]
      · simp [dot3, pick, dot, ih]

theorem dot_pick : ∀ (a m : List α), (∀ x ∈ m, x = 0 ∨ x = 1) → dot 0 a m = sumL 0 (pick a m)
  | [], _, _ => by simp [dot, pick, sumL]
  | _ :: _, [], _ => by simp [dot, pick, sumL]
  | x :: a, c :: m, h => by
      have ih := dot_pick a m (fun z hz => h z (List.mem_cons_of_mem _ hz))
      rcases h c List.mem_cons_self with rfl | rfl
      · simp [dot, pick, ih]
      · simp [dot, pick, sumL, ih]

theorem sumL_mask : ∀ (a m : List α), a.length = m.length → (∀ x ∈ m, x = 0 ∨ x = 1) →
    sumL 0 m = ((pick a m).length : α)
  | [], [], _, _ => by simp [sumL, pick]
  | [], _ :: _, h, _ => by simp at h
  | _ :: _, [], h, _ => by simp at h
  | x :: a, c :: m, hl, h => by
      have ih := sumL_mask a m (by simpa using hl) (fun z hz => h z (List.mem_cons_of_mem _ hz))
      rcases h c List.mem_cons_self with rfl | rfl
      · simp [sumL, pick, ih]
      · simp [sumL, pick, ih]; ring

theorem pick_length : ∀ (a b m : List α), a.length = m.length → b.length = m.length →
    (pick a m).length = (pick b m).length
  | [], [], [], _, _ => rfl
  | [], _, _ :: _, h, _ => by simp at h
  | _ :: _, _, [], h, _ => by simp at h
  | _, [], _ :: _, _, h => by simp at h
  | [], _ :: _, [], _, h => by simp at h
  | x :: a, y :: b, c :: m, h1, h2 => by
      have ih := pick_length a b m (by simpa using h1) (by simpa using h2)
      simp only [pick]
      split <;> simp [ih]
end

section
variable {α : Type} [Field α] [LinearOrder α] [IsStrictOrderedRing α]

omit [IsStrictOrderedRing α] in
/-- a binary template mask, whole template inside the target: FLC is the full-mask formula on the
masked voxels -/
theorem flcCore_binary (g m f : List α) (hb : ∀ x ∈ m, x = 0 ∨ x = 1) (hg : g.length = m.length)
    (hf : f.length = m.length) (n : α) :
    flcCore 0 n g m g m f =
      flcCore 0 n (pick g m) (List.replicate (pick g m).length 1) (pick g m)
        (List.replicate (pick g m).length 1) (pick f m) := by
  have hl : (pick f m).length = (pick g m).length := pick_length f g m hf hg
  simp only [flcCore]
  rw [dot_pick g m hb, dot3_pick g g m hb, dot3_pick_left _ f m hb, pick_map, dot3_pick f f m hb, dot_pick f m hb,
    dot_ones_right' _ (pick g m) rfl, dot3_ones_right' _ (pick g m) (pick g m) rfl rfl,
    dot3_ones_left' _ _ (pick f m) (by simp) hl, dot3_ones_right' _ (pick f m) (pick f m) hl hl,
    dot_ones_right' _ (pick f m) hl]

theorem flc_binary_sq_le_aux (g m f : List α) (hb : ∀ x ∈ m, x = 0 ∨ x = 1) (hg : g.length = m.length)
    (hf : f.length = m.length) (hn : sumL 0 m ≠ 0) :
    (flcCore 0 (sumL 0 m) g m g m f).1 ^ 2 ≤
      (sumL 0 m * (flcCore 0 (sumL 0 m) g m g m f).2.1) * (sumL 0 m * (flcCore 0 (sumL 0 m) g m g m f).2.2) := by
  rw [flcCore_binary g m f hb hg hf, sumL_mask g m hg hb]
  rw [sumL_mask g m hg hb] at hn
  exact flc_full_sq_le_aux (pick g m) (pick f m) (pick_length g f m hg hf) hn

end

section
variable {α : Type} [Field α] [LinearOrder α] [IsStrictOrderedRing α]
theorem flc_binary_planted_aux (g m : List α) (hb : ∀ x ∈ m, x = 0 ∨ x = 1) (hg : g.length = m.length)
    (hn : sumL 0 m ≠ 0) :
    (flcCore 0 (sumL 0 m) g m g m g).1 = sumL 0 m * (flcCore 0 (sumL 0 m) g m g m g).2.1 ∧
    (flcCore 0 (sumL 0 m) g m g m g).2.1 = (flcCore 0 (sumL 0 m) g m g m g).2.2 ∧
    0 ≤ (flcCore 0 (sumL 0 m) g m g m g).1 := by
  rw [flcCore_binary g m g hb hg hg, sumL_mask g m hg hb]
  rw [sumL_mask g m hg hb] at hn
  exact flc_full_planted_aux (pick g m) hn
end
/-! ## MaskedCrossCorrelation, integer coordinates, template partly outside -/

theorem filter_zip_fst {β : Type} (q : List Int → Bool) : ∀ (P : List (List Int)) (w : List β), P.length = w.length →
    ((P.zip w).filter (fun pw => q pw.1)).map (·.1) = P.filter q
  | [], [], _ => rfl
  | [], _ :: _, h => by simp at h
  | _ :: _, [], h => by simp at h
  | p :: P, x :: w, h => by
      have ih := filter_zip_fst q P w (by simpa using h)
      simp only [List.zip_cons_cons, List.filter_cons]
      by_cases hq : q p <;> simp [hq, ih]

section
variable {α : Type} [Field α] [LinearOrder α] [IsStrictOrderedRing α]

omit [IsStrictOrderedRing α] in
/-- integer coordinates, mask coordinates = template coordinates, target mask 1 wherever an in-volume
point lands — the pose may push any part of the template out of the volume: `mccParts` is `mccCore`
on the in-volume points -/
theorem mccParts_integer_partial_aux (eps : α) (shape : List Nat) (T M : List Int → α) (P : List (List Int)) (w : List α)
    (hM : ∀ p ∈ P, inVol shape p = true → M p = 1) (hlen : P.length = w.length) :
    mccParts 0 eps shape T M (P.map asRatio) (P.map asRatio) w =
      mccCore 0 (max (((P.zip w).filter (fun pw => inVol shape pw.1)).length : α) eps)
        (((P.zip w).filter (fun pw => inVol shape pw.1)).map (fun pw => T pw.1))
        (((P.zip w).filter (fun pw => inVol shape pw.1)).map (·.2))
        (((P.zip w).filter (fun pw => inVol shape pw.1)).map (fun pw => T pw.1))
        (((P.zip w).filter (fun pw => inVol shape pw.1)).map (·.2)) := by
  have hz : ((P.map asRatio).zip w).filter (fun pw => inVolQ shape pw.1) =
      ((P.zip w).filter (fun pw => inVol shape pw.1)).map (fun pw => (asRatio pw.1, pw.2)) := by
    rw [List.zip_map_left, List.filter_map]
    congr 1
    apply List.filter_congr
    intro pw _
    simp [Function.comp, inVolQ_asRatio]
  have hp : ((P.map asRatio).filter (inVolQ shape)).map cellOf =
      ((P.zip w).filter (fun pw => inVol shape pw.1)).map (·.1) := by
    rw [filter_zip_fst (inVol shape) P w hlen, List.filter_map, List.map_map]
    have : (inVolQ shape ∘ asRatio) = inVol shape := by funext p; simp [Function.comp, inVolQ_asRatio]
    rw [this]
    conv_rhs => rw [← List.map_id (List.filter (inVol shape) P)]
    apply List.map_congr_left
    intro p _; simp [cellOf_asRatio]
  simp only [mccParts, hz, hp, List.map_map]
  generalize hZ : (P.zip w).filter (fun pw => inVol shape pw.1) = Z
  have hZm : ∀ pw ∈ Z, M pw.1 = 1 := by
    intro pw hpw
    rw [← hZ] at hpw
    have h1 := List.mem_filter.mp hpw
    exact hM pw.1 (List.of_mem_zip h1.1).1 (by simpa using h1.2)
  have e1 : sumL 0 (Z.map (M ∘ fun pw => pw.1)) = (Z.length : α) := by
    clear hZ
    induction Z with
    | nil => simp [sumL]
    | cons a Z ih =>
      have := ih (fun pw hpw => hZm pw (List.mem_cons_of_mem _ hpw))
      simp only [List.map_cons, sumL, Function.comp, hZm a List.mem_cons_self, List.length_cons] at this ⊢
      rw [this]; push_cast; ring
  have e2 : Z.map ((fun pw => pw.2 * M (cellOf pw.1)) ∘ fun pw => (asRatio pw.1, pw.2)) = Z.map (·.2) := by
    apply List.map_congr_left
    intro pw hpw
    simp [Function.comp, cellOf_asRatio, hZm pw hpw]
  have e3 : Z.map ((fun pw => T (cellOf pw.1)) ∘ fun pw => (asRatio pw.1, pw.2)) = Z.map (fun pw => T pw.1) := by
    apply List.map_congr_left
    intro pw _
    simp [Function.comp, cellOf_asRatio]
  have e4 : Z.map ((fun x => x.2) ∘ fun pw => (asRatio pw.1, pw.2)) = Z.map (·.2) := by
    apply List.map_congr_left
    intro pw _; rfl
  have e5 : Z.map (T ∘ fun x => x.1) = Z.map (fun pw => T pw.1) := rfl
  rw [e1, e2, e3, e4, e5]
end
/-! ## FLC at any voxel translation -/
section
variable {α : Type} [Field α]

/-- entries selected by a Boolean list -/
def pickB : List α → List Bool → List α
  | x :: a, b :: s => if b then x :: pickB a s else pickB a s
  | _, _ => []

/-- entries not selected set to zero -/
def maskB : List α → List Bool → List α
  | x :: a, b :: s => (if b then x else 0) :: maskB a s
  | _, _ => []

theorem maskB_length : ∀ (a : List α) (s : List Bool), a.length = s.length → (maskB a s).length = a.length
  | [], [], _ => rfl
  | [], _ :: _, h => by simp at h
  | _ :: _, [], h => by simp at h
  | x :: a, b :: s, h => by simp [maskB, maskB_length a s (by simpa using h)]

omit [Field α] in
theorem pickB_map (h : α → α) : ∀ (a : List α) (s : List Bool), pickB (a.map h) s = (pickB a s).map h
  | [], _ => by simp [pickB]
  | _ :: _, [] => by simp [pickB]
  | x :: a, b :: s => by
      simp only [List.map_cons, pickB]
      cases b <;> simp [pickB_map h a s]

theorem dot3_pickB : ∀ (a b c : List α) (s : List Bool), a.length = s.length → b.length = s.length → c.length = s.length →
    dot3 0 (pickB a s) (pickB b s) (pickB c s) = dot3 0 a b (maskB c s)
  | [], _, _, [], _, _, _ => by simp [pickB, dot3]
  | [], _, _, _ :: _, h, _, _ => by simp at h
  | _ :: _, _, _, [], h, _, _ => by simp at h
  | _ :: _, [], _, _ :: _, _, h, _ => by simp at h
  | _ :: _, _ :: _, [], _ :: _, _, _, h => by simp at h
  | x :: a, y :: b, z :: c, t :: s, h1, h2, h3 => by
      have ih := dot3_pickB a b c s (by simpa using h1) (by simpa using h2) (by simpa using h3)
      cases t <;> simp [pickB, maskB, dot3, ih]

theorem dot3_pickB' : ∀ (a b c : List α) (s : List Bool), a.length = s.length → b.length = s.length → c.length = s.length →
    dot3 0 (pickB a s) (pickB b s) (pickB c s) = dot3 0 (maskB a s) (maskB b s) c
  | [], _, _, [], _, _, _ => by simp [pickB, maskB, dot3]
  | [], _, _, _ :: _, h, _, _ => by simp at h
  | _ :: _, _, _, [], h, _, _ => by simp at h
  | _ :: _, [], _, _ :: _, _, h, _ => by simp at h
  | _ :: _, _ :: _, [], _ :: _, _, _, h => by simp at h
  | x :: a, y :: b, z :: c, t :: s, h1, h2, h3 => by
      have ih := dot3_pickB' a b c s (by simpa using h1) (by simpa using h2) (by simpa using h3)
      cases t <;> simp [pickB, maskB, dot3, ih]

theorem dot_pickB : ∀ (a b : List α) (s : List Bool), a.length = s.length → b.length = s.length →
    dot 0 (pickB a s) (pickB b s) = dot 0 (maskB a s) b
  | [], _, [], _, _ => by simp [pickB, maskB, dot]
  | [], _, _ :: _, h, _ => by simp at h
  | _ :: _, _, [], h, _ => by simp at h
  | _ :: _, [], _ :: _, _, h => by simp at h
  | x :: a, y :: b, t :: s, h1, h2 => by
      have ih := dot_pickB a b s (by simpa using h1) (by simpa using h2)
      cases t <;> simp [pickB, maskB, dot, ih]

/-- the window sums of FLC are whole-template sums against the target zero-extended outside the window -/
theorem flcCore_window (n : α) (g m f : List α) (s : List Bool) (hg : g.length = s.length)
    (hm : m.length = s.length) (hf : f.length = s.length) [Max α] :
    flcCore 0 n g m (pickB g s) (pickB m s) (pickB f s) = flcCore 0 n g m g m (maskB f s) := by
  simp only [flcCore]
  rw [← pickB_map, dot3_pickB m _ f s hm (by simpa using hg) hf, dot3_pickB' f f m s hf hf hm,
    dot_pickB f m s hf hm]

omit [Field α] in
theorem filter_map_pickB {ι : Type} (p : ι → Bool) (h : ι → α) : ∀ (l : List ι),
    (l.filter p).map h = pickB (l.map h) (l.map p)
  | [] => rfl
  | a :: l => by
      simp only [List.filter_cons, List.map_cons, pickB]
      cases hp : p a <;> simp [filter_map_pickB p h l]
end

section
variable {α : Type} [Field α] [LinearOrder α] [IsStrictOrderedRing α]

theorem flc_window_sq_le_aux (g m f : List α) (s : List Bool) (hb : ∀ x ∈ m, x = 0 ∨ x = 1)
    (hg : g.length = s.length) (hm : m.length = s.length) (hf : f.length = s.length) (hn : sumL 0 m ≠ 0) :
    (flcCore 0 (sumL 0 m) g m (pickB g s) (pickB m s) (pickB f s)).1 ^ 2 ≤
      (sumL 0 m * (flcCore 0 (sumL 0 m) g m (pickB g s) (pickB m s) (pickB f s)).2.1) *
        (sumL 0 m * (flcCore 0 (sumL 0 m) g m (pickB g s) (pickB m s) (pickB f s)).2.2) := by
  rw [flcCore_window (sumL 0 m) g m f s hg hm hf]
  exact flc_binary_sq_le_aux g m (maskB f s) hb (hg.trans hm.symm)
    ((maskB_length f s hf).trans (hf.trans hm.symm)) hn

theorem flcOf_sq_le_aux (shape tshape : List Nat) (g m : List Nat → α) (f : List Int → α) (v : List Int)
    (hb : ∀ i ∈ allIdx shape, m i = 0 ∨ m i = 1)
    (hn : (flcOf 0 shape tshape g m f v).2.2.2 ≠ 0) :
    (flcOf 0 shape tshape g m f v).1 ^ 2 ≤
      ((flcOf 0 shape tshape g m f v).2.2.2 * (flcOf 0 shape tshape g m f v).2.1) *
        ((flcOf 0 shape tshape g m f v).2.2.2 * (flcOf 0 shape tshape g m f v).2.2.1) := by
  simp only [flcOf] at hn ⊢
  rw [filter_map_pickB, filter_map_pickB, filter_map_pickB]
  apply flc_window_sq_le_aux _ _ _ _ _ (by simp) (by simp) (by simp) hn
  intro x hx
  obtain ⟨i, hi, rfl⟩ := List.mem_map.mp hx
  exact hb i hi

theorem flcOf_planted_aux (shape tshape : List Nat) (g m : List Nat → α) (f : List Int → α) (v : List Int)
    (hb : ∀ i ∈ allIdx shape, m i = 0 ∨ m i = 1)
    (hsel : (allIdx shape).filter (flcInWin shape (windows shape tshape v)) = allIdx shape)
    (hfg : ∀ i ∈ allIdx shape, f (flcTgt (windows shape tshape v) i) = g i)
    (hn : (flcOf 0 shape tshape g m f v).2.2.2 ≠ 0) :
    (flcOf 0 shape tshape g m f v).1 =
        (flcOf 0 shape tshape g m f v).2.2.2 * (flcOf 0 shape tshape g m f v).2.1 ∧
      (flcOf 0 shape tshape g m f v).2.1 = (flcOf 0 shape tshape g m f v).2.2.1 ∧
      0 ≤ (flcOf 0 shape tshape g m f v).1 := by
  simp only [flcOf] at hn ⊢
  rw [hsel]
  have e : (allIdx shape).map (fun i => f (flcTgt (windows shape tshape v) i)) = (allIdx shape).map g :=
    List.map_congr_left hfg
  rw [e]
  apply flc_binary_planted_aux _ _ _ (by simp) hn
  intro x hx
  obtain ⟨i, hi, rfl⟩ := List.mem_map.mp hx
  exact hb i hi
end
end Pm.C17
