import PytmeModel.Model.C13
import Mathlib.Tactic.Linarith

/-! `topk_indices`: the selection is a prefix of a sorted permutation of the (value, index) pairs -/
namespace Pm.C13

/-- the selected (value, flat index) pairs -/
def topkPairs (vals : List Int) (k : Nat) : List (Int × Nat) := ((valIdx vals).mergeSort geVal).take k

theorem geVal_trans (a b c : Int × Nat) : geVal a b = true → geVal b c = true → geVal a c = true := by
  unfold geVal; simp only [decide_eq_true_eq]; omega

theorem geVal_total (a b : Int × Nat) : (geVal a b || geVal b a) = true := by
  unfold geVal; simp only [Bool.or_eq_true, decide_eq_true_eq]; omega

theorem sorted_all (vals : List Int) : ((valIdx vals).mergeSort geVal).Pairwise (fun a b => geVal a b = true) :=
  List.pairwise_mergeSort geVal_trans geVal_total _

theorem topkFlat_eq (vals : List Int) (k : Nat) (fl : List Nat) (h : topkFlat vals k = some fl) :
    fl = (topkPairs vals k).map (·.2) ∧ k ≤ vals.length ∧ 0 < vals.length := by
  unfold topkFlat at h
  split at h
  · cases h
  · rename_i hc
    simp only [Option.some.injEq] at h
    exact ⟨h.symm, by omega, by omega⟩

theorem topkPairs_mem (vals : List Int) (k : Nat) (p : Int × Nat) (h : p ∈ topkPairs vals k) :
    vals[p.2]? = some p.1 := by
  have := List.mem_of_mem_take h
  rw [List.mem_mergeSort] at this
  exact List.mem_zipIdx_iff_getElem?.mp this

theorem topkPairs_length (vals : List Int) (k : Nat) (h : k ≤ vals.length) : (topkPairs vals k).length = k := by
  unfold topkPairs valIdx
  simp [List.length_take, List.length_mergeSort, h]

theorem topkPairs_sorted (vals : List Int) (k : Nat) :
    (topkPairs vals k).Pairwise (fun a b => b.1 ≤ a.1) := by
  have h := (sorted_all vals).sublist (List.take_sublist k _)
  refine h.imp ?_
  intro a b hab
  simpa [geVal] using hab

theorem allIdx_nodup (vals : List Int) : (((valIdx vals).mergeSort geVal).map (·.2)).Nodup := by
  have hp : List.Perm (((valIdx vals).mergeSort geVal).map (·.2)) ((valIdx vals).map (·.2)) :=
    (List.mergeSort_perm _ _).map _
  rw [hp.nodup_iff]
  unfold valIdx
  have : (vals.zipIdx).map (·.2) = List.range' 0 vals.length := by
    simpa using List.zipIdx_map_snd 0 vals
  rw [this]
  exact List.nodup_range'

theorem topkPairs_nodup (vals : List Int) (k : Nat) : ((topkPairs vals k).map (·.2)).Nodup :=
  (allIdx_nodup vals).sublist ((List.take_sublist k _).map _)

/-- a voxel that was not selected holds no more than any selected one -/
theorem topkPairs_dominates (vals : List Int) (k : Nat) (p : Int × Nat) (hp : p ∈ topkPairs vals k)
    (j : Nat) (v : Int) (hj : vals[j]? = some v) (hn : j ∉ (topkPairs vals k).map (·.2)) : v ≤ p.1 := by
  have hmem : (v, j) ∈ (valIdx vals).mergeSort geVal := by
    rw [List.mem_mergeSort]; exact List.mem_zipIdx_iff_getElem?.mpr hj
  have hsplit := List.take_append_drop k ((valIdx vals).mergeSort geVal)
  have hs := sorted_all vals
  rw [← hsplit, List.pairwise_append] at hs
  rw [← hsplit, List.mem_append] at hmem
  rcases hmem with hm | hm
  · exact absurd (List.mem_map.mpr ⟨(v, j), hm, rfl⟩) hn
  · have := hs.2.2 p hp (v, j) hm
    simpa [geVal] using this

end Pm.C13
