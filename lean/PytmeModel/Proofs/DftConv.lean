import PytmeModel.Model.C01
import PytmeModel.Proofs.Circ
import Mathlib.Algebra.BigOperators.Group.Finset.Basic
import Mathlib.Algebra.BigOperators.Ring.Finset
import Mathlib.Algebra.BigOperators.Intervals
import Mathlib.Tactic.Ring
import Mathlib.Tactic.Linarith

/-! The convolution theorem for the discrete Fourier transform, purely algebraically: over any commutative ring
and any `ω` with `ω^N = 1` (for ℂ: `ω = exp(-2πi/N)`), the transform of the circular convolution is the product of
the transforms.  This is the mathematical content behind "`irfftn(rfftn(a)·rfftn(b))` is `circ`"; what remains
trusted is that pyFFTW computes this transform and its inverse. -/
open Finset
namespace Pm.C01

variable {R : Type} [CommRing R]

/-- discrete Fourier transform of length `N` with respect to `ω` -/
def dftN (N : Nat) (ω : R) (a : Nat → R) (k : Nat) : R := ∑ j ∈ range N, a j * ω ^ (j * k)

/-- 1-D circular convolution on `ℤ/N` of sequences indexed by `0..N-1` -/
def cconvN (N : Nat) (a b : Nat → R) (u : Nat) : R := ∑ j ∈ range N, a j * b ((u + N - j) % N)

theorem pow_mod_of_pow_eq_one (ω : R) (N : Nat) (hω : ω ^ N = 1) (x : Nat) : ω ^ (x % N) = ω ^ x := by
  conv_rhs => rw [← Nat.div_add_mod x N]
  rw [pow_add, pow_mul, hω, one_pow, one_mul]

/-- for fixed `j < N`, `u ↦ (u + N - j) % N` permutes `0..N-1` and multiplies the character by `ω^(j k)` -/
theorem shifted_sum (N : Nat) (ω : R) (hω : ω ^ N = 1) (b : Nat → R) (j k : Nat) (hj : j < N) :
    ∑ u ∈ range N, b ((u + N - j) % N) * ω ^ (u * k) = ω ^ (j * k) * ∑ r ∈ range N, b r * ω ^ (r * k) := by
  rw [Finset.mul_sum]
  refine Finset.sum_nbij' (fun u => (u + N - j) % N) (fun r => (r + j) % N) ?_ ?_ ?_ ?_ ?_
  · intro u _; exact mem_range.mpr (Nat.mod_lt _ (by omega))
  · intro r _; exact mem_range.mpr (Nat.mod_lt _ (by omega))
  · intro u hu
    have hu' := mem_range.mp hu
    by_cases h : j ≤ u
    · have e1 : (u + N - j) % N = u - j := by
        have : u + N - j = (u - j) + N := by omega
        rw [this, Nat.add_mod_right, Nat.mod_eq_of_lt (by omega)]
      rw [e1]
      have : u - j + j = u := by omega
      rw [this, Nat.mod_eq_of_lt hu']
    · have e1 : (u + N - j) % N = u + N - j := Nat.mod_eq_of_lt (by omega)
      rw [e1]
      have : u + N - j + j = u + N := by omega
      rw [this, Nat.add_mod_right, Nat.mod_eq_of_lt hu']
  · intro r hr
    have hr' := mem_range.mp hr
    by_cases h : r + j < N
    · rw [Nat.mod_eq_of_lt h]
      have : r + j + N - j = r + N := by omega
      rw [this, Nat.add_mod_right, Nat.mod_eq_of_lt hr']
    · have e1 : (r + j) % N = r + j - N := by
        have : r + j = (r + j - N) + N := by omega
        rw [this, Nat.add_mod_right, Nat.mod_eq_of_lt (by omega)]
        omega
      rw [e1]
      have : r + j - N + N - j = r := by omega
      rw [this, Nat.mod_eq_of_lt hr']
  · intro u hu
    have hu' := mem_range.mp hu
    -- ω^(u k) = ω^(j k) · ω^(((u+N-j)%N) k)
    have key : ω ^ (u * k) = ω ^ (j * k) * ω ^ ((u + N - j) % N * k) := by
      rw [← pow_add, ← pow_mod_of_pow_eq_one ω N hω (u * k), ← pow_mod_of_pow_eq_one ω N hω (j * k + (u + N - j) % N * k)]
      congr 1
      have h1 : (j * k + (u + N - j) % N * k) % N = ((j + (u + N - j) % N) * k) % N := by ring_nf
      have hm : (j + (u + N - j) % N) % N = u % N := by
        rw [Nat.add_mod, Nat.mod_mod, ← Nat.add_mod]
        have : j + (u + N - j) = u + N := by omega
        rw [this, Nat.add_mod_right]
      rw [h1, Nat.mul_mod (j + (u + N - j) % N) k N, hm, ← Nat.mul_mod]
    rw [key]; ring

/-- **Convolution theorem.**  The length-`N` transform of the circular convolution is the product of the transforms. -/
theorem dft_cconv (N : Nat) (ω : R) (hω : ω ^ N = 1) (a b : Nat → R) (k : Nat) :
    dftN N ω (cconvN N a b) k = dftN N ω a k * dftN N ω b k := by
  unfold dftN cconvN
  calc ∑ u ∈ range N, (∑ j ∈ range N, a j * b ((u + N - j) % N)) * ω ^ (u * k)
      = ∑ u ∈ range N, ∑ j ∈ range N, a j * (b ((u + N - j) % N) * ω ^ (u * k)) := by
        apply Finset.sum_congr rfl; intro u _; rw [Finset.sum_mul]
        apply Finset.sum_congr rfl; intro j _; ring
    _ = ∑ j ∈ range N, ∑ u ∈ range N, a j * (b ((u + N - j) % N) * ω ^ (u * k)) := Finset.sum_comm
    _ = ∑ j ∈ range N, a j * (ω ^ (j * k) * ∑ r ∈ range N, b r * ω ^ (r * k)) := by
        apply Finset.sum_congr rfl; intro j hj
        rw [← Finset.mul_sum, shifted_sum N ω hω b j k (mem_range.mp hj)]
    _ = (∑ j ∈ range N, a j * ω ^ (j * k)) * ∑ r ∈ range N, b r * ω ^ (r * k) := by
        rw [Finset.sum_mul]; apply Finset.sum_congr rfl; intro j _; ring

/-- the model's `circ` in one dimension is this circular convolution -/
theorem circ1_eq_cconvN (N : Nat) (a b : List Int → R) (u : Nat) (hu : u < N) :
    circ [N] a b [(u : Int)] = cconvN N (fun j => a [(j : Int)]) (fun r => b [(r : Int)]) u := by
  unfold circ cconvN
  simp only [sumShape, sumRange_eq_sum, natsToInts, wrapSub, List.map_cons, List.map_nil]
  apply Finset.sum_congr rfl
  intro j hj
  have hj' := mem_range.mp hj
  congr 2
  have : ((u : Int) - (j : Int)) % (N : Int) = (((u + N - j) % N : Nat) : Int) := by
    have h1 : ((u + N - j : Nat) : Int) = (u : Int) - j + N := by omega
    rw [Int.natCast_mod, h1, Int.add_emod_right]
  simp [this]

/-- **1-D: `circ` is the function whose DFT is the product of the DFTs.** -/
theorem dft_circ1 (N : Nat) (ω : R) (hω : ω ^ N = 1) (a b : List Int → R) (k : Nat) :
    dftN N ω (fun u => circ [N] a b [(u : Int)]) k
      = dftN N ω (fun j => a [(j : Int)]) k * dftN N ω (fun r => b [(r : Int)]) k := by
  rw [← dft_cconv N ω hω]
  unfold dftN
  apply Finset.sum_congr rfl
  intro u hu
  dsimp only
  rw [circ1_eq_cconvN N a b u (mem_range.mp hu)]

end Pm.C01
