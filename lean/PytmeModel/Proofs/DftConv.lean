import PytmeModel.Model.C01
import PytmeModel.Proofs.Circ
import Mathlib.Algebra.BigOperators.Group.Finset.Basic
import Mathlib.Algebra.BigOperators.Ring.Finset
import Mathlib.Algebra.BigOperators.Intervals
import Mathlib.Tactic.Ring
import Mathlib.Tactic.Linarith

/-! The convolution theorem for the discrete Fourier transform, purely algebraically: over any commutative ring
and any `ω` with `ω^N = 1` (for ℂ: `ω = exp(-2πi/N)`), the transform of the circular convolution is the product of
the transforms.  This is the mathematical content behind "`irfftn(rfftn(a)·rfftn(b))` is `circ`"; what remains
trusted is that pyFFTW computes this transform and its inverse. -/
open Finset
namespace Pm.C01

variable {R : Type} [CommRing R]

/-- discrete Fourier transform of length `N` with respect to `ω` -/
def dftN (N : Nat) (ω : R) (a : Nat → R) (k : Nat) : R := ∑ j ∈ range N, a j * ω ^ (j * k)

/-- 1-D circular convolution on `ℤ/N` of sequences indexed by `0..N-1` -/
def cconvN (N : Nat) (a b : Nat → R) (u : Nat) : R := ∑ j ∈ range N, a j * b ((u + N - j) % N)

theorem pow_mod_of_pow_eq_one (ω : R) (N : Nat) (hω : ω ^ N = 1) (x : Nat) : ω ^ (x % N) = ω ^ x := by
  conv_rhs => rw [← Nat.div_add_mod x N]
  rw [pow_add, pow_mul, hω, one_pow, one_mul]

/-- for fixed `j < N`, `u ↦ (u + N - j) % N` permutes `0..N-1` and multiplies the character by `ω^(j k)` -/
theorem shifted_sum (N : Nat) (ω : R) (hω : ω ^ N = 1) (b : Nat → R) (j k : Nat) (hj : j < N) :
    ∑ u ∈ range N, b ((u + N - j) % N) * ω ^ (u * k) = ω ^ (j * k) * ∑ r ∈ range N, b r * ω ^ (r * k) := by
  rw [Finset.mul_sum]
  refine Finset.sum_nbij' (fun u => (u + N - j) % N) (fun r => (r + j) % N) ?_ ?_ ?_ ?_ ?_
  · intro u _; exact mem_range.mpr (Nat.mod_lt _ (by omega))
  · intro r _; exact mem_range.mpr (Nat.mod_lt _ (by omega))
  · intro u hu
    have hu' := mem_range.mp hu
    by_cases h : j ≤ u
    · have e1 : (u + N - j) % N = u - j := by
        have : u + N - j = (u - j) + N := by omega
        rw [this, Nat.add_mod_right, Nat.mod_eq_of_lt (by omega)]
      rw [e1]
      have : u - j + j = u := by omega
      rw [this, Nat.mod_eq_of_lt hu']
    · have e1 : (u + N - j) % N = u + N - j := Nat.mod_eq_of_lt (by omega)
      rw [e1]
      have : u + N - j + j = u + N := by omega
      rw [this, Nat.add_mod_right, Nat.mod_eq_of_lt hu']
  · intro r hr
    have hr' := mem_range.mp hr
    by_cases h : r + j < N
    · rw [Nat.mod_eq_of_lt h]
      have : r + j + N - j = r + N := by omega
      rw [this, Nat.add_mod_right, Nat.mod_eq_of_lt hr']
    · have e1 : (r + j) % N = r + j - N := by
        have : r + j = (r + j - N) + N := by omega
        rw [this, Nat.add_mod_right, Nat.mod_eq_of_lt (by omega)]
        omega
      rw [e1]
      have : r + j - N + N - j = r := by omega
      rw [this, Nat.mod_eq_of_lt hr']
  · intro u hu
    have hu' := mem_range.mp hu
    -- ω^(u k) = ω^(j k) · ω^(((u+N-j)%N) k)
    have key : ω ^ (u * k) = ω ^ (j * k) * ω ^ ((u + N - j) % N * k) := by
      rw [← pow_add, ← pow_mod_of_pow_eq_one ω N hω (u * k), ← pow_mod_of_pow_eq_one ω N hω (j * k + (u + N - j) % N * k)]
      congr 1
      have h1 : (j * k + (u + N - j) % N * k) % N = ((j + (u + N - j) % N) * k) % N := by ring_nf
      have hm : (j + (u + N - j) % N) % N = u % N := by
        rw [Nat.add_mod, Nat.mod_mod, ← Nat.add_mod]
        have : j + (u + N - j) = u + N := by omega
        rw [this, Nat.add_mod_right]
      rw [h1, Nat.mul_mod (j + (u + N - j) % N) k N, hm, ← Nat.mul_mod]
    rw [key]; ring

/-- **Convolution theorem.**  The length-`N` transform of the circular convolution is the product of the transforms. -/
theorem dft_cconv (N : Nat) (ω : R) (hω : ω ^ N = 1) (a b : Nat → R) (k : Nat) :
    dftN N ω (cconvN N a b) k = dftN N ω a k * dftN N ω b k := by
  unfold dftN cconvN
  calc ∑ u ∈ range N, (∑ j ∈ range N, a j * b ((u + N - j) % N)) * ω ^ (u * k)
      = ∑ u ∈ range N, ∑ j ∈ range N, a j * (b ((u + N - j) % N) * ω ^ (u * k)) := by
        apply Finset.sum_congr rfl; intro u _; rw [Finset.sum_mul]
        apply Finset.sum_congr rfl; intro j _; ring
    _ = ∑ j ∈ range N, ∑ u ∈ range N, a j * (b ((u + N - j) % N) * ω ^ (u * k)) := Finset.sum_comm
    _ = ∑ j ∈ range N, a j * (ω ^ (j * k) * ∑ r ∈ range N, b r * ω ^ (r * k)) := by
        apply Finset.sum_congr rfl; intro j hj
        rw [← Finset.mul_sum, shifted_sum N ω hω b j k (mem_range.mp hj)]
    _ = (∑ j ∈ range N, a j * ω ^ (j * k)) * ∑ r ∈ range N, b r * ω ^ (r * k) := by
        rw [Finset.sum_mul]; apply Finset.sum_congr rfl; intro j _; ring

/-- the model's `circ` in one dimension is this circular convolution -/
theorem circ1_eq_cconvN (N : Nat) (a b : List Int → R) (u : Nat) (hu : u < N) :
    circ [N] a b [(u : Int)] = cconvN N (fun j => a [(j : Int)]) (fun r => b [(r : Int)]) u := by
  unfold circ cconvN
  simp only [sumShape, sumRange_eq_sum, natsToInts, wrapSub, List.map_cons, List.map_nil]
  apply Finset.sum_congr rfl
  intro j hj
  have hj' := mem_range.mp hj
  congr 2
  have : ((u : Int) - (j : Int)) % (N : Int) = (((u + N - j) % N : Nat) : Int) := by
    have h1 : ((u + N - j : Nat) : Int) = (u : Int) - j + N := by omega
    rw [Int.natCast_mod, h1, Int.add_emod_right]
  simp [this]

/-- **1-D: `circ` is the function whose DFT is the product of the DFTs.** -/
theorem dft_circ1 (N : Nat) (ω : R) (hω : ω ^ N = 1) (a b : List Int → R) (k : Nat) :
    dftN N ω (fun u => circ [N] a b [(u : Int)]) k
      = dftN N ω (fun j => a [(j : Int)]) k * dftN N ω (fun r => b [(r : Int)]) k := by
  rw [← dft_cconv N ω hω]
  unfold dftN
  apply Finset.sum_congr rfl
  intro u hu
  dsimp only
  rw [circ1_eq_cconvN N a b u (mem_range.mp hu)]

/-! ### n dimensions: the separable transform, axis by axis -/

/-- n-D discrete Fourier transform on the box `Ns` (one root per axis), defined as the iteration of the 1-D
transform over the axes (what `rfftn`/`fftn` compute, up to the half-spectrum storage) -/
def dftS : List Nat → List R → (List Int → R) → List Nat → R
  | [], _, F, _ => F []
  | N :: Ns, ωs, F, ks =>
      dftN N (ωs.headD 1) (fun i => dftS Ns ωs.tail (fun idx => F ((i : Int) :: idx)) ks.tail) (ks.headD 0)

/-- every axis has a root of unity of its own length -/
def RootsOk : List Nat → List R → Prop
  | [], _ => True
  | N :: Ns, ωs => (ωs.headD 1) ^ N = 1 ∧ RootsOk Ns ωs.tail

/-- the n-D transform is additive over finite sums of fields -/
theorem dftS_sum : ∀ (Ns : List Nat) (ωs : List R) (M : Nat) (G : Nat → List Int → R) (ks : List Nat),
    dftS Ns ωs (fun idx => ∑ j ∈ range M, G j idx) ks = ∑ j ∈ range M, dftS Ns ωs (G j) ks
  | [], _, _, _, _ => rfl
  | N :: Ns, ωs, M, G, ks => by
    simp only [dftS, dftN]
    have : ∀ i, dftS Ns ωs.tail (fun idx => ∑ j ∈ range M, G j ((i : Int) :: idx)) ks.tail
        = ∑ j ∈ range M, dftS Ns ωs.tail (fun idx => G j ((i : Int) :: idx)) ks.tail :=
      fun i => dftS_sum Ns ωs.tail M (fun j idx => G j ((i : Int) :: idx)) ks.tail
    simp only [this, Finset.sum_mul]
    exact Finset.sum_comm

theorem dftS_congr : ∀ (Ns : List Nat) (ωs : List R) (F G : List Int → R) (ks : List Nat),
    (∀ idx : List Nat, inShape Ns idx = true → F (natsToInts idx) = G (natsToInts idx)) →
    dftS Ns ωs F ks = dftS Ns ωs G ks
  | [], _, F, G, _, h => h [] rfl
  | N :: Ns, ωs, F, G, ks, h => by
    simp only [dftS, dftN]
    apply Finset.sum_congr rfl
    intro i hi
    congr 1
    apply dftS_congr Ns ωs.tail _ _ ks.tail
    intro idx hidx
    have := h (i :: idx) (by simp [inShape, mem_range.mp hi, hidx])
    simpa [natsToInts] using this

/-- peeling the first axis off the model's circular convolution -/
theorem circ_cons (N : Nat) (Ns : List Nat) (a b : List Int → R) (i : Nat) (idx : List Int) :
    circ (N :: Ns) a b ((i : Int) :: idx)
      = ∑ j ∈ range N, circ Ns (fun x => a ((j : Int) :: x)) (fun x => b ((((i + N - j) % N : Nat) : Int) :: x)) idx := by
  unfold circ
  simp only [sumShape, sumRange_eq_sum]
  apply Finset.sum_congr rfl
  intro j hj
  have hj' := mem_range.mp hj
  apply sumShape_congr
  intro js _
  have e : ((i : Int) - (j : Int)) % (N : Int) = (((i + N - j) % N : Nat) : Int) := by
    have h1 : ((i + N - j : Nat) : Int) = (i : Int) - j + N := by omega
    rw [Int.natCast_mod, h1, Int.add_emod_right]
  simp [natsToInts, wrapSub, e]

/-- **Convolution theorem in n dimensions.**  On every box, for every choice of per-axis roots of unity, the
separable transform of the model's circular convolution `circ` is the pointwise product of the transforms. -/
theorem dftS_circ : ∀ (Ns : List Nat) (ωs : List R) (_ : RootsOk Ns ωs) (a b : List Int → R) (ks : List Nat),
    dftS Ns ωs (fun u => circ Ns a b u) ks = dftS Ns ωs a ks * dftS Ns ωs b ks
  | [], _, _, a, b, _ => by simp [dftS, circ, sumShape, natsToInts, wrapSub]
  | N :: Ns, ωs, hω, a, b, ks => by
    obtain ⟨hω0, hωt⟩ := hω
    -- abbreviations: transforms of the slices along the first axis
    set A : Nat → R := fun j => dftS Ns ωs.tail (fun x => a ((j : Int) :: x)) ks.tail with hA
    set B : Nat → R := fun r => dftS Ns ωs.tail (fun x => b ((r : Int) :: x)) ks.tail with hB
    have hrhs : dftS (N :: Ns) ωs a ks * dftS (N :: Ns) ωs b ks
        = dftN N (ωs.headD 1) A (ks.headD 0) * dftN N (ωs.headD 1) B (ks.headD 0) := rfl
    rw [hrhs, ← dft_cconv N (ωs.headD 1) hω0 A B]
    show dftN N (ωs.headD 1) (fun i => dftS Ns ωs.tail (fun idx => circ (N :: Ns) a b ((i : Int) :: idx)) ks.tail) (ks.headD 0)
      = dftN N (ωs.headD 1) (cconvN N A B) (ks.headD 0)
    unfold dftN
    apply Finset.sum_congr rfl
    intro i _
    congr 1
    beta_reduce
    have e1 : (fun idx => circ (N :: Ns) a b ((i : Int) :: idx))
        = fun idx => ∑ j ∈ range N, circ Ns (fun x => a ((j : Int) :: x))
            (fun x => b ((((i + N - j) % N : Nat) : Int) :: x)) idx := by
      funext idx; exact circ_cons N Ns a b i idx
    rw [e1, dftS_sum]
    unfold cconvN
    apply Finset.sum_congr rfl
    intro j _
    exact dftS_circ Ns ωs.tail hωt _ _ ks.tail

end Pm.C01
