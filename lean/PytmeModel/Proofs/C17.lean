import PytmeModel.Model.C17
import Mathlib.Tactic.Ring
import Mathlib.Tactic.Linarith
import Mathlib.Tactic.FieldSimp
import Mathlib.Algebra.QuadraticDiscriminant

/-! Helper definitions (contracts of the numerical kernels, state invariants) and lemmas for
`Props/C17.lean`. -/
namespace Pm.C17

/-! ## buffers -/

theorem writeOut_full {α : Type} (buf vals : List α) (h : vals.length = buf.length) :
    writeOut buf vals = vals := by
  unfold writeOut
  rw [List.drop_of_length_le (by omega)]
  simp

theorem fillWith_length {α : Type} (buf : List α) (v : α) : (fillWith buf v).length = buf.length := by
  simp [fillWith]

/-! ## python slices, overlap window -/

theorem sliceLen_inside (n : Nat) (s e : Int) (h0 : 0 ≤ s) (h1 : s ≤ e) (h2 : e ≤ n) :
    sliceLen n s e = (e - s).toNat := by
  unfold sliceLen pySlice
  simp only
  have a : ¬ s < 0 := by omega
  have b : ¬ e < 0 := by omega
  simp only [a, b, if_false]
  omega

theorem sliceLen_same (n : Nat) (s : Int) : sliceLen n s s = 0 := by
  unfold sliceLen pySlice
  simp only
  omega

theorem flcWindow_eq (n N : Nat) (v : Int) :
    flcWindow n N v =
      ⟨min (max v 0) (N : Int) - v,
       (n : Int) - (v + n - max (min (v + n) (N : Int)) (min (max v 0) (N : Int))),
       min (max v 0) (N : Int), max (min (v + n) (N : Int)) (min (max v 0) (N : Int))⟩ := by
  simp only [flcWindow, Win.mk.injEq]
  omega

theorem flcWindow_lens (n N : Nat) (v : Int) :
    (flcWindow n N v).tLen n = (flcWindow n N v).gLen N ∧
      ((v ≤ -(n : Int) ∨ (N : Int) ≤ v) → (flcWindow n N v).gLen N = 0) := by
  rw [Win.tLen, Win.gLen, flcWindow_eq]
  simp only
  by_cases h : -(n : Int) < v ∧ v < N
  · obtain ⟨h1, h2⟩ := h
    rw [sliceLen_inside _ _ _ (by omega) (by omega) (by omega),
      sliceLen_inside _ _ _ (by omega) (by omega) (by omega)]
    constructor
    · omega
    · intro h; omega
  · have e1 : (n : Int) - (v + n - max (min (v + n) (N : Int)) (min (max v 0) (N : Int))) =
        min (max v 0) (N : Int) - v := by omega
    have e2 : max (min (v + n) (N : Int)) (min (max v 0) (N : Int)) = min (max v 0) (N : Int) := by
      omega
    rw [e1, e2, sliceLen_same, sliceLen_same]
    exact ⟨rfl, fun _ => rfl⟩

/-! ## coordinate score objects -/

/-- contract of the numerical kernels: `rigid_transform(..., out=)` produces one value per cell of
the buffer it writes -/
structure C2DContract {α β : Type} (S : C2DStatic α β) (n m : Nat) : Prop where
  rigid : ∀ x, (S.rigid x).length = n
  rigidMask : ∀ x, (S.rigidMask x).length = m

/-- invariant of a score object: buffer sizes fixed at construction; `self.denominator` is still
its initial value for the classes that never write it -/
structure C2DWf {α β : Type} (S : C2DStatic α β) (hasMask : Bool) (n m : Nat) (st : C2DState α) :
    Prop where
  rot : st.rotated.length = n
  mask : match st.maskRotated with
    | some mm => hasMask = true ∧ mm.length = m
    | none => hasMask = false
  den : S.kind ≠ .normalised → st.denominator = S.one

theorem c2dStep_value_aux {α β : Type} (S : C2DStatic α β) (hasMask : Bool) (n m : Nat)
    (hc : C2DContract S n m) (st : C2DState α) (hw : C2DWf S hasMask n m st) (x : List α) :
    (c2dStep S st x).1 = c2dPure S hasMask x := by
  obtain ⟨hr, hm, hd⟩ := hw
  have e1 : writeOut st.rotated (S.rigid x) = S.rigid x :=
    writeOut_full _ _ (by rw [hc.rigid, hr])
  have e2 : st.maskRotated.map (fun mm => writeOut mm (S.rigidMask x)) =
      if hasMask then some (S.rigidMask x) else none := by
    cases hmr : st.maskRotated with
    | none => rw [hmr] at hm; simp [hm]
    | some mm =>
      rw [hmr] at hm
      obtain ⟨h1, h2⟩ := hm
      simp [h1, writeOut_full _ _ (by rw [hc.rigidMask, h2] : (S.rigidMask x).length = mm.length)]
  unfold c2dStep c2dPure
  simp only [e1, e2]
  cases hk : S.kind with
  | plain => simp only [hd (by rw [hk]; decide)]
  | generic => simp only [hd (by rw [hk]; decide)]
  | normalised => simp only; split <;> rfl

theorem c2dStep_wf_aux {α β : Type} (S : C2DStatic α β) (hasMask : Bool) (n m : Nat)
    (hc : C2DContract S n m) (st : C2DState α) (hw : C2DWf S hasMask n m st) (x : List α) :
    C2DWf S hasMask n m (c2dStep S st x).2 := by
  obtain ⟨hr, hm, hd⟩ := hw
  have e1 : writeOut st.rotated (S.rigid x) = S.rigid x :=
    writeOut_full _ _ (by rw [hc.rigid, hr])
  have hmask : match st.maskRotated.map (fun mm => writeOut mm (S.rigidMask x)) with
      | some mm => hasMask = true ∧ mm.length = m
      | none => hasMask = false := by
    cases hmr : st.maskRotated with
    | none => rw [hmr] at hm; simpa using hm
    | some mm =>
      rw [hmr] at hm
      obtain ⟨h1, h2⟩ := hm
      simp only [Option.map_some]
      refine ⟨h1, ?_⟩
      rw [writeOut_full _ _ (by rw [hc.rigidMask, h2])]; exact hc.rigidMask x
  unfold c2dStep
  simp only [e1]
  cases hk : S.kind with
  | plain => exact ⟨hc.rigid x, hmask, fun _ => hd (by rw [hk]; decide)⟩
  | generic => exact ⟨hc.rigid x, hmask, fun _ => hd (by rw [hk]; decide)⟩
  | normalised =>
    simp only
    split
    · exact ⟨hc.rigid x, hmask, fun h => absurd hk h⟩
    · exact ⟨hc.rigid x, hmask, fun h => absurd hk h⟩

/-! ## density-to-density score object -/

structure D2DContract {α β : Type} (S : D2DStatic α β) (L : Nat) : Prop where
  affine : ∀ x g, (S.affine x g).length = g.length
  interpT : ∀ p, (S.interpT p).length = L
  interpM : ∀ p, (S.interpM p).length = L
  normalize : ∀ t m, (S.normalize t m).length = t.length
  mask0 : S.mask0.length = L

/-- invariant: buffer sizes; an un-rotated mask buffer still holds the mask; a cached grid was
built for the template's shape and `grid_out` has its size -/
structure D2DWf {α β : Type} (S : D2DStatic α β) (L : Nat) (st : D2DState α) : Prop where
  tr : st.templateRot.length = L
  mr : st.maskRot.length = L
  mrConst : S.rotateMask = false → st.maskRot = S.mask0
  cache : ∀ pc g, st.cache = some (pc, g) →
    pc = centerOf S.shape ∧ g = S.mkGrid S.shape ∧ st.gridOut.length = g.length

/-- the grid handed to the interpolation is the template's grid, and `grid_out` is fully
overwritten -/
theorem gridFor_spec {α β : Type} (S : D2DStatic α β) (L : Nat) (st : D2DState α)
    (hw : D2DWf S L st) :
    (gridFor S st S.shape).1 = some (centerOf S.shape, S.mkGrid S.shape) ∧
      (gridFor S st S.shape).2.1 = S.mkGrid S.shape ∧
      (gridFor S st S.shape).2.2.length = (S.mkGrid S.shape).length := by
  unfold gridFor
  cases hcache : st.cache with
  | none => simp [fillWith]
  | some pg =>
    obtain ⟨pc, g⟩ := pg
    obtain ⟨h1, h2, h3⟩ := hw.cache pc g hcache
    simp only [h1, if_true]
    subst h2
    exact ⟨rfl, rfl, h3⟩

theorem d2dStep_value_aux {α β : Type} (S : D2DStatic α β) (L : Nat) (hc : D2DContract S L)
    (st : D2DState α) (hw : D2DWf S L st) (x : List α) :
    (d2dStep S st x).1 = d2dPure S x := by
  obtain ⟨g1, g2, g3⟩ := gridFor_spec S L st hw
  unfold d2dStep d2dPure
  generalize hgf : gridFor S st S.shape = gf at g1 g2 g3
  obtain ⟨cache, grid, go0⟩ := gf
  simp only at g1 g2 g3
  subst g2
  have ego : writeOut go0 (S.affine x (S.mkGrid S.shape)) = S.affine x (S.mkGrid S.shape) :=
    writeOut_full _ _ (by rw [hc.affine, g3])
  simp only [ego]
  have etr : writeOut (fillWith st.templateRot S.zeroA) (S.interpT (S.affine x (S.mkGrid S.shape)))
      = S.interpT (S.affine x (S.mkGrid S.shape)) :=
    writeOut_full _ _ (by rw [hc.interpT, fillWith_length, hw.tr])
  simp only [etr]
  cases hrm : S.rotateMask with
  | true =>
    have emr : writeOut (fillWith st.maskRot S.zeroA) (S.interpM (S.affine x (S.mkGrid S.shape)))
        = S.interpM (S.affine x (S.mkGrid S.shape)) :=
      writeOut_full _ _ (by rw [hc.interpM, fillWith_length, hw.mr])
    simp [emr]
  | false => simp [hw.mrConst hrm]

theorem d2dStep_wf_aux {α β : Type} (S : D2DStatic α β) (L : Nat) (hc : D2DContract S L)
    (st : D2DState α) (hw : D2DWf S L st) (x : List α) :
    D2DWf S L (d2dStep S st x).2 := by
  obtain ⟨g1, g2, g3⟩ := gridFor_spec S L st hw
  unfold d2dStep
  generalize hgf : gridFor S st S.shape = gf at g1 g2 g3
  obtain ⟨cache, grid, go0⟩ := gf
  simp only at g1 g2 g3
  subst g2
  have ego : writeOut go0 (S.affine x (S.mkGrid S.shape)) = S.affine x (S.mkGrid S.shape) :=
    writeOut_full _ _ (by rw [hc.affine, g3])
  have etr : writeOut (fillWith st.templateRot S.zeroA) (S.interpT (S.affine x (S.mkGrid S.shape)))
      = S.interpT (S.affine x (S.mkGrid S.shape)) :=
    writeOut_full _ _ (by rw [hc.interpT, fillWith_length, hw.tr])
  simp only [ego, etr]
  refine ⟨?_, ?_, ?_, ?_⟩
  · simp only [hc.normalize, hc.interpT]
  · cases hrm : S.rotateMask with
    | true =>
      simp only [if_true]
      rw [writeOut_full _ _ (by rw [hc.interpM, fillWith_length, hw.mr])]; exact hc.interpM _
    | false => simpa using hw.mr
  · intro hrm
    simp only [hrm, Bool.false_eq_true, if_false]
    exact hw.mrConst hrm
  · intro pc g h
    simp only at h
    rw [g1] at h
    simp only [Option.some.injEq, Prod.mk.injEq] at h
    obtain ⟨h1, h2⟩ := h
    refine ⟨h1.symm, h2.symm, ?_⟩
    rw [hc.affine, h2]

/-! ## optimize_match -/

theorem effBounds_length_aux (c : Consts) (m : Method) (bt br : Option (List Bound)) (b : List Bound)
    (ht : ∀ t, bt = some t → t.length = c.ndim) (hr : ∀ r, br = some r → r.length = c.ndim)
    (h : effBounds c m bt br = some b) : b.length = 2 * c.ndim := by
  unfold effBounds at h
  cases bt with
  | none =>
    cases br with
    | none =>
      cases m <;> simp at h
      subst h; simp; omega
    | some r =>
      have := hr r rfl
      cases m <;> simp at h <;> (subst h; simp; omega)
  | some t =>
    have h1 := ht t rfl
    cases br with
    | none =>
      cases m <;> simp at h <;> (subst h; simp; omega)
    | some r =>
      have h2 := hr r rfl
      cases m <;> simp at h <;> (subst h; simp; omega)

/-! ## rigid motions, Kabsch wrapper, exact optima -/

/-! ## 3-vectors -/
theorem V3.eq_iff {α : Type} (p q : V3 α) : p = q ↔ p.x = q.x ∧ p.y = q.y ∧ p.z = q.z := by
  cases p; cases q; simp

def M3.transpose {α : Type} (A : M3 α) : M3 α :=
  ⟨A.a11, A.a21, A.a31, A.a12, A.a22, A.a32, A.a13, A.a23, A.a33⟩

section ring
variable {α : Type} [CommRing α]

theorem vsum_map_affine (R : M3 α) (t : V3 α) (l : List (V3 α)) :
    vsum 0 (l.map (fun q => V3.add (V3.mulM q R) t)) =
      V3.add (V3.mulM (vsum 0 l) R) (V3.smul (l.length : α) t) := by
  induction l with
  | nil => simp [vsum, V3.add, V3.mulM, V3.smul]
  | cons p ps ih =>
    simp only [List.map_cons, vsum, ih, List.length_cons, Nat.cast_add, Nat.cast_one]
    rw [V3.eq_iff]
    simp only [V3.add, V3.mulM, V3.smul]
    refine ⟨?_, ?_, ?_⟩ <;> ring

theorem vsum_map_mulV_sub (R : M3 α) (c : V3 α) (l : List (V3 α)) :
    vsum 0 (l.map (fun p => M3.mulV R (V3.sub p c))) =
      M3.mulV R (V3.sub (vsum 0 l) (V3.smul (l.length : α) c)) := by
  induction l with
  | nil => simp [vsum, V3.sub, M3.mulV, V3.smul]
  | cons p ps ih =>
    simp only [List.map_cons, vsum, ih, List.length_cons, Nat.cast_add, Nat.cast_one]
    rw [V3.eq_iff]
    simp only [V3.add, V3.sub, M3.mulV, V3.smul]
    refine ⟨?_, ?_, ?_⟩ <;> ring

theorem mulV_eq_mulM_transpose (R : M3 α) (p : V3 α) : M3.mulV R p = V3.mulM p (M3.transpose R) := by
  rw [V3.eq_iff]; simp only [M3.mulV, V3.mulM, M3.transpose]; refine ⟨?_, ?_, ?_⟩ <;> ring

theorem det_mul (A B : M3 α) : M3.det (M3.mul A B) = M3.det A * M3.det B := by
  simp only [M3.det, M3.mul]; ring

theorem det_negRow3 (A : M3 α) : M3.det (M3.negRow3 A) = - M3.det A := by
  simp only [M3.det, M3.negRow3]; ring

theorem sqDev_self (l : List (V3 α)) : sqDev 0 l l = 0 := by
  induction l with
  | nil => rfl
  | cons p ps ih => simp [sqDev, ih, V3.sub]

theorem plsq_self (v : List α) : plsq 0 v v = 0 := by
  induction v with
  | nil => rfl
  | cons a v ih => simp [plsq, ih]


end ring

section field
variable {α : Type} [Field α]

/-- the Kabsch wrapper maps the query exactly onto a reference that is an affine image `q·R + t` of
it, whenever the rotation handed over by the SVD step is that `R` -/
theorem alignAll_affine (R : M3 α) (t : V3 α) (query : List (V3 α)) (hn : (query.length : α) ≠ 0) :
    alignAll 0 (1 / (query.length : α)) R (query.map (fun q => V3.add (V3.mulM q R) t)) query =
      query.map (fun q => V3.add (V3.mulM q R) t) := by
  unfold alignAll
  rw [vsum_map_affine]
  apply List.map_congr_left
  intro q _
  have h1 : (1 / (query.length : α)) * (query.length : α) = 1 := by field_simp
  generalize (query.length : α) = n at h1
  generalize (1 / n : α) = i at h1
  generalize vsum 0 query = S
  rw [V3.eq_iff]
  simp only [V3.add, V3.sub, V3.mulM, V3.smul]
  refine ⟨?_, ?_, ?_⟩
  · linear_combination (t.x) * h1
  · linear_combination (t.y) * h1
  · linear_combination (t.z) * h1

theorem rigidCoords_eq (R : M3 α) (t : V3 α) (pts : List (V3 α)) (hn : (pts.length : α) ≠ 0) :
    rigidCoords 0 (1 / (pts.length : α)) R t pts =
      pts.map (fun p =>
        V3.add (V3.add (M3.mulV R (V3.sub p (V3.smul (1 / (pts.length : α)) (vsum 0 pts))))
          (V3.smul (1 / (pts.length : α)) (vsum 0 pts))) t) := by
  unfold rigidCoords
  simp only [List.map_map]
  rw [vsum_map_mulV_sub]
  apply List.map_congr_left
  intro p _
  have h1 : (1 / (pts.length : α)) * (pts.length : α) = 1 := by field_simp
  generalize (pts.length : α) = n at h1
  generalize (1 / n : α) = i at h1
  generalize vsum 0 pts = S
  rw [V3.eq_iff]
  simp only [Function.comp, V3.add, V3.sub, M3.mulV, V3.smul]
  refine ⟨?_, ?_, ?_⟩
  · linear_combination (i * (R.a11 * S.x + R.a12 * S.y + R.a13 * S.z)) * h1
  · linear_combination (i * (R.a21 * S.x + R.a22 * S.y + R.a23 * S.z)) * h1
  · linear_combination (i * (R.a31 * S.x + R.a32 * S.y + R.a33 * S.z)) * h1

theorem plsq_scaled_expand : ∀ (v w : List α) (x : α), v.length = w.length →
    plsq 0 (v.map (· * x)) w = dot 0 v v * (x * x) + (-(2 * dot 0 v w)) * x + dot 0 w w
  | [], [], x, _ => by simp [plsq, dot]
  | [], _ :: _, _, h => by simp at h
  | _ :: _, [], _, h => by simp at h
  | a :: v, b :: w, x, h => by
      have ih := plsq_scaled_expand v w x (by simpa using h)
      simp only [List.map_cons, plsq, dot, ih]
      ring


end field

section ordered
variable {α : Type} [CommRing α] [LinearOrder α] [IsStrictOrderedRing α]

theorem kabsch_det_nonneg (U Vh : M3 α) :
    0 ≤ M3.det (kabschRotation (fun d => decide (d < 0)) U Vh) := by
  unfold kabschRotation
  simp only [decide_eq_true_eq]
  split
  · rename_i h
    rw [det_mul, det_negRow3]
    rw [det_mul] at h
    linarith
  · rename_i h
    exact not_lt.mp h

theorem plsq_nonneg_aux : ∀ (v w : List α), 0 ≤ plsq 0 v w
  | [], _ => by simp [plsq]
  | _ :: _, [] => by simp [plsq]
  | a :: v, b :: w => by
      simp only [plsq]
      have := plsq_nonneg_aux v w
      nlinarith [mul_self_nonneg (a - b)]

end ordered

section cs
variable {α : Type} [Field α] [LinearOrder α] [IsStrictOrderedRing α]

theorem dot_sq_le (v w : List α) (h : v.length = w.length) :
    dot 0 v w ^ 2 ≤ dot 0 v v * dot 0 w w := by
  have hq : ∀ x : α, 0 ≤ dot 0 v v * (x * x) + (-(2 * dot 0 v w)) * x + dot 0 w w := by
    intro x
    rw [← plsq_scaled_expand v w x h]
    exact plsq_nonneg_aux _ _
  have := discrim_le_zero hq
  unfold discrim at this
  nlinarith

end cs

end Pm.C17
