import PytmeModel.Model.C05Batch
import PytmeModel.Proofs.C05
import PytmeModel.Proofs.C05Fast
import PytmeModel.Proofs.C05Hist
import Mathlib.Tactic.Ring
import Mathlib.Tactic.Linarith

/-! Helper lemmas for C05: batch axes in the distance filter, `_filter_bucket`, `max_index_by_label`,
`_batchify`. -/
namespace Pm.C05

/-! ## rescaled batch axes -/

theorem d2_nil_left (q : List Int) : d2 [] q = 0 := by cases q <;> simp [d2]
theorem d2_nil_right (p : List Int) : d2 p [] = 0 := by cases p <;> simp [d2]

/-- rows that agree on every batch axis: the rescaling does not change their distance -/
theorem rescaleAux_d2_same (md : Nat) (bd : List Nat) : ∀ (p q : List Int) (i : Nat),
    (∀ j, bd.contains (i + j) = true → p[j]? = q[j]?) →
    d2 (rescaleAux md bd i p) (rescaleAux md bd i q) = d2 p q
  | [], q, i, _ => by simp [rescaleAux, d2_nil_left]
  | a :: as, [], i, _ => by simp [rescaleAux, d2_nil_right]
  | a :: as, b :: bs, i, h => by
      have ih := rescaleAux_d2_same md bd as bs (i + 1) (by
        intro j hj
        have := h (j + 1) (by rw [show i + (j + 1) = i + 1 + j by omega]; exact hj)
        simpa using this)
      simp only [rescaleAux, d2, ih]
      by_cases hc : bd.contains i = true
      · have hab : a = b := by
          have := h 0 (by rw [Nat.add_zero]; exact hc)
          simpa using this
        subst hab
        simp only [if_pos hc]
        ring
      · simp only [if_neg hc]

/-- rows that differ on a batch axis end up at least `2 * min_distance` apart -/
theorem rescaleAux_d2_diff (md : Nat) (bd : List Nat) : ∀ (p q : List Int) (i j : Nat)
    (hp : j < p.length) (hq : j < q.length), bd.contains (i + j) = true → p[j] ≠ q[j] →
    4 * ((md : Int) * (md : Int)) ≤ d2 (rescaleAux md bd i p) (rescaleAux md bd i q)
  | [], _, _, _, hp, _, _, _ => by simp at hp
  | _ :: _, [], _, _, _, hq, _, _ => by simp at hq
  | a :: as, b :: bs, i, 0, _, _, hc, hne => by
      simp only [List.getElem_cons_zero] at hne
      have hc' : bd.contains i = true := by simpa using hc
      simp only [rescaleAux, d2, hc', if_true]
      have h0 := d2_nonneg (rescaleAux md bd (i + 1) as) (rescaleAux md bd (i + 1) bs)
      have hsq : 1 ≤ (a - b) * (a - b) := by
        have : a - b ≠ 0 := sub_ne_zero.mpr hne
        rcases lt_or_gt_of_ne this with h | h
        · nlinarith
        · nlinarith
      have hm : 0 ≤ (md : Int) * (md : Int) := mul_self_nonneg _
      have : (a * (2 * (md : Int)) - b * (2 * (md : Int))) * (a * (2 * (md : Int)) - b * (2 * (md : Int)))
          = 4 * ((md : Int) * (md : Int)) * ((a - b) * (a - b)) := by ring
      rw [this]
      nlinarith
  | a :: as, b :: bs, i, j + 1, hp, hq, hc, hne => by
      simp only [List.getElem_cons_succ] at hne
      have ih := rescaleAux_d2_diff md bd as bs (i + 1) j (by simpa using hp) (by simpa using hq)
        (by rw [show i + 1 + j = i + (j + 1) by omega]; exact hc) hne
      simp only [rescaleAux, d2]
      have : 0 ≤ ((if bd.contains i = true then a * (2 * (md : Int)) else a) - (if bd.contains i = true then b * (2 * (md : Int)) else b)) *
          ((if bd.contains i = true then a * (2 * (md : Int)) else a) - (if bd.contains i = true then b * (2 * (md : Int)) else b)) :=
        mul_self_nonneg _
      linarith

theorem farB_comm (md : Nat) (bd : Option (List Nat)) (p q : List Int) : farB md bd p q = farB md bd q p := by
  cases bd <;> simp [farB, far_comm]

/-- inside one batch the C++ test is the test without batch axes -/
theorem farB_same (md : Nat) (bd : List Nat) (p q : List Int) (h : ∀ i ∈ bd, p[i]? = q[i]?) :
    farB md (some bd) p q = far md p q := by
  have e := rescaleAux_d2_same md bd p q 0 (by
    intro j hj
    apply h
    simpa using hj)
  simp only [farB, far, rescale, e]

/-- rows of different batches always pass the C++ test -/
theorem farB_diff {md : Nat} (hmd : 0 < md) (bd : List Nat) (p q : List Int) (i : Nat) (hi : i ∈ bd)
    (hp : i < p.length) (hq : i < q.length) (hne : p[i] ≠ q[i]) : farB md (some bd) p q = true := by
  simp only [farB, far, rescale]
  have := rescaleAux_d2_diff md bd p q 0 i hp hq (by simpa using hi) hne
  have h1 : (1 : Int) ≤ (md : Int) := by exact_mod_cast hmd
  apply decide_eq_true
  nlinarith

/-! ## greedy pass with batch axes -/

def FarPB (md : Nat) (bd : Option (List Nat)) (a b : Peak) : Prop := farB md bd a.pos b.pos = true

theorem greedyAuxB_pairwise (md : Nat) (bd : Option (List Nat)) : ∀ (rest kept : List Peak),
    kept.Pairwise (FarPB md bd) → (greedyAuxB md bd kept rest).Pairwise (FarPB md bd)
  | [], kept, h => by simpa [greedyAuxB] using h
  | x :: xs, kept, h => by
      unfold greedyAuxB
      split
      · rename_i hall
        apply greedyAuxB_pairwise md bd xs
        rw [List.pairwise_append]
        refine ⟨h, List.pairwise_singleton _ _, ?_⟩
        intro a ha b hb
        simp only [List.mem_singleton] at hb
        subst hb
        have := (List.all_eq_true.mp hall) a ha
        unfold FarPB; rw [farB_comm]; exact this
      · exact greedyAuxB_pairwise md bd xs kept h

theorem greedyAuxB_mem (md : Nat) (bd : Option (List Nat)) : ∀ (rest kept : List Peak) (p : Peak),
    p ∈ greedyAuxB md bd kept rest → p ∈ kept ∨ p ∈ rest
  | [], kept, p, h => by left; simpa [greedyAuxB] using h
  | x :: xs, kept, p, h => by
      unfold greedyAuxB at h
      split at h
      · rcases greedyAuxB_mem md bd xs _ p h with h1 | h1
        · rcases List.mem_append.mp h1 with h2 | h2
          · exact Or.inl h2
          · right; simp only [List.mem_singleton] at h2; simp [h2]
        · right; exact List.mem_cons_of_mem _ h1
      · rcases greedyAuxB_mem md bd xs _ p h with h1 | h1
        · exact Or.inl h1
        · right; exact List.mem_cons_of_mem _ h1

theorem greedyAuxB_kept (md : Nat) (bd : Option (List Nat)) : ∀ (rest kept : List Peak) (p : Peak),
    p ∈ kept → p ∈ greedyAuxB md bd kept rest
  | [], kept, p, h => by simpa [greedyAuxB] using h
  | x :: xs, kept, p, h => by
      unfold greedyAuxB
      split
      · exact greedyAuxB_kept md bd xs _ p (List.mem_append_left _ h)
      · exact greedyAuxB_kept md bd xs _ p h

/-- a row that is not reported has a reported row that fails the C++ test against it -/
theorem greedyAuxB_dropped (md : Nat) (bd : Option (List Nat)) : ∀ (rest kept : List Peak) (x : Peak),
    x ∈ rest → x ∉ greedyAuxB md bd kept rest →
    ∃ k ∈ greedyAuxB md bd kept rest, farB md bd x.pos k.pos = false
  | [], _, _, h, _ => by simp at h
  | y :: ys, kept, x, h, hn => by
      unfold greedyAuxB at hn ⊢
      split
      · rename_i hall
        rw [if_pos hall] at hn
        rcases List.mem_cons.mp h with rfl | h'
        · exact absurd (greedyAuxB_kept md bd ys _ x (by simp)) hn
        · exact greedyAuxB_dropped md bd ys _ x h' hn
      · rename_i hall
        rw [if_neg hall] at hn
        rcases List.mem_cons.mp h with rfl | h'
        · simp only [List.all_eq_true, not_forall] at hall
          obtain ⟨k, hk, hf⟩ := hall
          exact ⟨k, greedyAuxB_kept md bd ys _ k hk, by simpa using hf⟩
        · exact greedyAuxB_dropped md bd ys _ x h' hn

theorem greedyAuxB_none (md : Nat) : ∀ (rest kept : List Peak),
    greedyAuxB md none kept rest = greedyAux md kept rest
  | [], _ => by simp [greedyAuxB, greedyAux]
  | x :: xs, kept => by
      rw [greedyAuxB, greedyAux]
      simp only [farB]
      rw [greedyAuxB_none md xs, greedyAuxB_none md xs]
      rfl

/-! ## first occurrences (`unique(..., return_index=True)`) -/

theorem mem_firstOcc {flat : List Nat} {i : Nat} :
    i ∈ firstOcc flat ↔ i < flat.length ∧ (flat.take i).contains (flat.getD i 0) = false := by
  unfold firstOcc
  simp only [List.mem_filter, List.mem_range, Bool.not_eq_eq_eq_not, Bool.not_true]

theorem firstOcc_sorted (flat : List Nat) : (firstOcc flat).Pairwise (· < ·) :=
  List.Pairwise.filter _ List.pairwise_lt_range

theorem getD_mem_take {flat : List Nat} {i j : Nat} (hij : i < j) (hi : i < flat.length) :
    flat.getD i 0 ∈ flat.take j := by
  have hlen : i < (flat.take j).length := by simp; omega
  have : (flat.take j)[i] = flat.getD i 0 := by
    simp [List.getD_eq_getElem?_getD, List.getElem?_eq_getElem hi]
  rw [← this]
  exact List.getElem_mem hlen

theorem firstOcc_distinct {flat : List Nat} {i j : Nat} (hi : i ∈ firstOcc flat) (hj : j ∈ firstOcc flat)
    (hne : i ≠ j) : flat.getD i 0 ≠ flat.getD j 0 := by
  rw [mem_firstOcc] at hi hj
  intro heq
  rcases Nat.lt_or_gt_of_ne hne with h | h
  · have := getD_mem_take h hi.1
    rw [heq] at this
    have hc : (flat.take j).contains (flat.getD j 0) = true := by simpa using this
    rw [hj.2] at hc; exact Bool.noConfusion hc
  · have := getD_mem_take h hj.1
    rw [← heq] at this
    have hc : (flat.take i).contains (flat.getD i 0) = true := by simpa using this
    rw [hi.2] at hc; exact Bool.noConfusion hc

/-- every row has a kept row at or before it with the same value -/
theorem firstOcc_repr (flat : List Nat) : ∀ i, i < flat.length →
    ∃ j ∈ firstOcc flat, j ≤ i ∧ flat.getD j 0 = flat.getD i 0 := by
  intro i
  induction i using Nat.strong_induction_on with
  | _ i ih =>
    intro hi
    by_cases hc : (flat.take i).contains (flat.getD i 0) = true
    · have hm : flat.getD i 0 ∈ flat.take i := by simpa using hc
      obtain ⟨k, hk, hkv⟩ := List.getElem_of_mem hm
      have hk' : k < i ∧ k < flat.length := by simp at hk; omega
      have hkv' : flat.getD k 0 = flat.getD i 0 := by
        rw [← hkv]
        simp [List.getD_eq_getElem?_getD, List.getElem?_eq_getElem hk'.2]
      obtain ⟨j, hj, hjk, hjv⟩ := ih k hk'.1 hk'.2
      exact ⟨j, hj, by omega, by rw [hjv, hkv']⟩
    · exact ⟨i, mem_firstOcc.mpr ⟨hi, by simpa using hc⟩, Nat.le_refl _, rfl⟩

theorem firstOcc_zero {flat : List Nat} (h : flat ≠ []) : 0 ∈ firstOcc flat := by
  rw [mem_firstOcc]
  exact ⟨List.length_pos_iff.mpr h, by simp⟩

theorem bucketFlat_getD (b : List (List Nat)) (i : Nat) (hi : i < b.length) :
    (bucketFlat b).getD i 0 = dotN (b.getD i []) (bucketMult b) := by
  unfold bucketFlat
  simp [List.getD_eq_getElem?_getD, List.getElem?_eq_getElem hi]

/-! ## `max_index_by_label` -/

abbrev MEntry := Int × Int × Nat

theorem miblIns_keys (l s : Int) (i : Nat) : ∀ acc : List MEntry, ∀ k,
    k ∈ (miblIns l s i acc).map (·.1) ↔ k ∈ acc.map (·.1) ∨ k = l
  | [], k => by simp [miblIns]
  | e :: r, k => by
      unfold miblIns
      by_cases he : e.1 = l
      · rw [if_pos he]
        by_cases hs : e.2.1 < s
        · rw [if_pos hs]; simp only [List.map_cons, List.mem_cons]
          constructor
          · rintro (h | h)
            · exact Or.inr h
            · exact Or.inl (Or.inr h)
          · rintro ((h | h) | h)
            · left; rw [h, he]
            · exact Or.inr h
            · exact Or.inl h
        · rw [if_neg hs]; simp only [List.map_cons, List.mem_cons]
          constructor
          · intro h; exact Or.inl h
          · rintro (h | h)
            · exact h
            · left; rw [h, he]
      · rw [if_neg he]
        simp only [List.map_cons, List.mem_cons, miblIns_keys l s i r k]
        tauto

theorem miblIns_nodup (l s : Int) (i : Nat) : ∀ acc : List MEntry,
    (acc.map (·.1)).Nodup → ((miblIns l s i acc).map (·.1)).Nodup
  | [], _ => by simp [miblIns]
  | e :: r, h => by
      unfold miblIns
      simp only [List.map_cons, List.nodup_cons] at h
      by_cases he : e.1 = l
      · rw [if_pos he]
        by_cases hs : e.2.1 < s
        · rw [if_pos hs]; simp only [List.map_cons, List.nodup_cons]
          exact ⟨by rw [← he]; exact h.1, h.2⟩
        · rw [if_neg hs]; simp only [List.map_cons, List.nodup_cons]; exact h
      · rw [if_neg he]
        simp only [List.map_cons, List.nodup_cons]
        refine ⟨?_, miblIns_nodup l s i r h.2⟩
        rw [miblIns_keys]
        rintro (h1 | h1)
        · exact h.1 h1
        · exact he h1

/-- where an entry of the updated table comes from -/
theorem miblIns_mem (l s : Int) (i : Nat) : ∀ acc : List MEntry, (acc.map (·.1)).Nodup → ∀ e',
    e' ∈ miblIns l s i acc →
      (e' ∈ acc ∧ e'.1 ≠ l) ∨
      (∃ e ∈ acc, e.1 = l ∧ e' = if e.2.1 < s then (l, s, i) else e) ∨
      ((∀ e ∈ acc, e.1 ≠ l) ∧ e' = (l, s, i))
  | [], _, e', h => by
      simp only [miblIns, List.mem_singleton] at h
      right; right; exact ⟨by simp, h⟩
  | e :: r, hnd, e', h => by
      simp only [List.map_cons, List.nodup_cons] at hnd
      unfold miblIns at h
      by_cases he : e.1 = l
      · rw [if_pos he] at h
        rcases List.mem_cons.mp h with h1 | h1
        · right; left; exact ⟨e, by simp, he, h1⟩
        · left
          refine ⟨List.mem_cons_of_mem _ h1, ?_⟩
          intro hl
          apply hnd.1
          rw [he, ← hl]
          exact List.mem_map_of_mem h1
      · rw [if_neg he] at h
        rcases List.mem_cons.mp h with h1 | h1
        · left; rw [h1]; exact ⟨by simp, he⟩
        · rcases miblIns_mem l s i r hnd.2 e' h1 with h2 | ⟨e0, h2, h3, h4⟩ | ⟨h2, h3⟩
          · left; exact ⟨List.mem_cons_of_mem _ h2.1, h2.2⟩
          · right; left; exact ⟨e0, List.mem_cons_of_mem _ h2, h3, h4⟩
          · right; right
            refine ⟨?_, h3⟩
            intro e1 he1
            rcases List.mem_cons.mp he1 with rfl | h5
            · exact he
            · exact h2 e1 h5

/-- what a table entry `(label, score, row)` says after the first `n` rows -/
def MiblP (L S : List Int) (n : Nat) (e : MEntry) : Prop :=
  e.2.2 < n ∧ L[e.2.2]? = some e.1 ∧ S[e.2.2]? = some e.2.1 ∧
  ∀ i, i < n → L[i]? = some e.1 → ∀ t, S[i]? = some t → t ≤ e.2.1 ∧ (t = e.2.1 → e.2.2 ≤ i)

def MiblInv (L S : List Int) (n : Nat) (acc : List MEntry) : Prop :=
  (acc.map (·.1)).Nodup ∧ (∀ e ∈ acc, MiblP L S n e) ∧
  (∀ i, i < n → ∀ l, L[i]? = some l → l ∈ acc.map (·.1))

theorem miblInv_step {L S : List Int} {n : Nat} {acc : List MEntry} {l s : Int}
    (hl : L[n]? = some l) (hs : S[n]? = some s) (h : MiblInv L S n acc) :
    MiblInv L S (n + 1) (miblIns l s n acc) := by
  obtain ⟨hnd, hP, hcov⟩ := h
  refine ⟨miblIns_nodup l s n acc hnd, ?_, ?_⟩
  · intro e' he'
    rcases miblIns_mem l s n acc hnd e' he' with ⟨h1, h2⟩ | ⟨e, h1, h2, h3⟩ | ⟨h1, h2⟩
    · obtain ⟨p1, p2, p3, p4⟩ := hP e' h1
      refine ⟨by omega, p2, p3, ?_⟩
      intro i hi hli t ht
      by_cases hin : i = n
      · subst hin; rw [hl] at hli; exact absurd (Option.some.inj hli).symm h2
      · exact p4 i (by omega) hli t ht
    · obtain ⟨p1, p2, p3, p4⟩ := hP e h1
      by_cases hlt : e.2.1 < s
      · rw [if_pos hlt] at h3; subst h3
        refine ⟨by simp, by simpa using hl, by simpa using hs, ?_⟩
        intro i hi hli t ht
        by_cases hin : i = n
        · subst hin; rw [hs] at ht; simp only [Option.some.injEq] at ht
          exact ⟨by simp [ht], fun _ => by simp⟩
        · have := p4 i (by omega) (by rw [h2]; simpa using hli) t ht
          simp only
          constructor
          · omega
          · intro h; omega
      · rw [if_neg hlt] at h3; subst h3
        refine ⟨by omega, p2, p3, ?_⟩
        intro i hi hli t ht
        by_cases hin : i = n
        · subst hin; rw [hs] at ht; simp only [Option.some.injEq] at ht
          subst ht
          exact ⟨by omega, fun _ => by omega⟩
        · exact p4 i (by omega) hli t ht
    · subst h2
      refine ⟨by simp, by simpa using hl, by simpa using hs, ?_⟩
      intro i hi hli t ht
      by_cases hin : i = n
      · subst hin; rw [hs] at ht; simp only [Option.some.injEq] at ht
        exact ⟨by simp [ht], fun _ => by simp⟩
      · exfalso
        have := hcov i (by omega) l (by simpa using hli)
        obtain ⟨e, he, hk⟩ := List.mem_map.mp this
        exact h1 e he hk
  · intro i hi l' hl'
    rw [miblIns_keys]
    by_cases hin : i = n
    · subst hin; rw [hl] at hl'; right; exact (Option.some.inj hl').symm
    · left; exact hcov i (by omega) l' hl'

theorem miblGo_inv (L S : List Int) : ∀ (ls ss : List Int) (n : Nat) (acc : List MEntry),
    L.drop n = ls → S.drop n = ss → MiblInv L S n acc →
    MiblInv L S (n + min ls.length ss.length) (miblGo n ls ss acc)
  | [], _, n, acc, _, _, h => by simpa [miblGo] using h
  | _ :: _, [], n, acc, _, _, h => by simpa [miblGo] using h
  | l :: ls, s :: ss, n, acc, hL, hS, h => by
      have hl : L[n]? = some l := by
        have := congrArg (fun x => x[0]?) hL
        simpa using this
      have hs : S[n]? = some s := by
        have := congrArg (fun x => x[0]?) hS
        simpa using this
      have hL' : L.drop (n + 1) = ls := by
        have := congrArg List.tail hL
        simpa using this
      have hS' : S.drop (n + 1) = ss := by
        have := congrArg List.tail hS
        simpa using this
      have := miblGo_inv L S ls ss (n + 1) (miblIns l s n acc) hL' hS' (miblInv_step hl hs h)
      simp only [miblGo, List.length_cons]
      rw [show n + min (ls.length + 1) (ss.length + 1) = n + 1 + min ls.length ss.length by omega]
      exact this

theorem mibl_final (L S : List Int) (hlen : L.length = S.length) :
    MiblInv L S L.length (miblGo 0 L S []) := by
  have := miblGo_inv L S L S 0 [] (by simp) (by simp) ⟨by simp, by simp, by intro i hi; omega⟩
  simpa [hlen] using this

/-! ## `_batchify` -/

theorem batchAxes_length (bd cur : List Nat) : ∀ k i bi, (batchAxes bd cur k i bi).length = k
  | 0, _, _ => rfl
  | k + 1, i, bi => by
      unfold batchAxes
      split <;> simp [batchAxes_length bd cur k]

theorem batchAxes_congr (bd bd' cur : List Nat) : ∀ k i bi, (∀ x, i ≤ x → bd.contains x = bd'.contains x) →
    batchAxes bd cur k i bi = batchAxes bd' cur k i bi
  | 0, _, _, _ => rfl
  | k + 1, i, bi, h => by
      unfold batchAxes
      rw [h i (Nat.le_refl _), batchAxes_congr bd bd' cur k (i + 1) (bi + 1) (fun x hx => h x (by omega)),
        batchAxes_congr bd bd' cur k (i + 1) bi (fun x hx => h x (by omega))]

theorem getD_succ_tail (cur : List Nat) (n : Nat) : cur.getD (n + 1) 0 = cur.tail.getD n 0 := by
  cases cur <;> simp

theorem batchAxes_shift (bd cur : List Nat) : ∀ k i bi,
    batchAxes bd cur k i (bi + 1) = batchAxes bd cur.tail k i bi
  | 0, _, _ => rfl
  | k + 1, i, bi => by
      unfold batchAxes
      rw [batchAxes_shift bd cur k (i + 1) (bi + 1), batchAxes_shift bd cur k (i + 1) bi, getD_succ_tail]

theorem idxOf_cons_ne' {d a : Nat} (ds : List Nat) (h : ¬ d = a) : (d :: ds).idxOf a = ds.idxOf a + 1 := by
  have hb : (d == a) = false := by simp [h]
  rw [List.idxOf_cons, hb]; rfl

/-- ascending `batch_dims`: axis `a` is sliced at the index enumerated for it, all other axes are whole -/
theorem batchAxes_spec : ∀ (k : Nat) (bd cur : List Nat) (i : Nat), bd.Pairwise (· < ·) → (∀ x ∈ bd, i ≤ x) →
    batchAxes bd cur k i 0 = (List.range k).map (fun j =>
      if bd.contains (i + j) then some (cur.getD (bd.idxOf (i + j)) 0) else none)
  | 0, _, _, _, _, _ => rfl
  | k + 1, bd, cur, i, hs, hge => by
      rw [List.range_succ_eq_map, List.map_cons, List.map_map]
      unfold batchAxes
      by_cases hc : bd.contains i = true
      · rw [if_pos hc]
        cases bd with
        | nil => simp at hc
        | cons b bs =>
          have hb : b = i := by
            have h1 : i ≤ b := hge b (by simp)
            have hm : i ∈ b :: bs := by simpa using hc
            rcases List.mem_cons.mp hm with h | h
            · exact h.symm
            · have := (List.pairwise_cons.mp hs).1 i h; omega
          subst hb
          have hgt : ∀ x ∈ bs, b + 1 ≤ x := fun x hx => (List.pairwise_cons.mp hs).1 x hx
          rw [batchAxes_shift, batchAxes_congr (b :: bs) bs cur.tail k (b + 1) 0 (by
            intro x hx
            have : x ≠ b := by omega
            simp [this]),
            batchAxes_spec k bs cur.tail (b + 1) (List.pairwise_cons.mp hs).2 hgt]
          congr 1
          · simp
          · apply List.map_congr_left
            intro j _
            have hne : b + 1 + j ≠ b := by omega
            have hne' : ¬ b = b + 1 + j := by omega
            have hcc : (b :: bs).contains (b + 1 + j) = bs.contains (b + 1 + j) := by simp [hne]
            simp only [Function.comp, show b + Nat.succ j = b + 1 + j by omega]
            rw [hcc]
            by_cases hin : bs.contains (b + 1 + j) = true
            · rw [if_pos hin, if_pos hin, idxOf_cons_ne' bs hne', getD_succ_tail]
            · rw [if_neg hin, if_neg hin]
      · rw [if_neg hc]
        have hge' : ∀ x ∈ bd, i + 1 ≤ x := by
          intro x hx
          have := hge x hx
          have : x ≠ i := by
            intro h; subst h; apply hc; simpa using hx
          omega
        rw [batchAxes_spec k bd cur (i + 1) hs hge']
        congr 1
        · simp only [Nat.add_zero, hc]; rfl
        · apply List.map_congr_left
          intro j _
          simp only [Function.comp, show i + Nat.succ j = i + 1 + j by omega]

theorem mem_prodLists_forall2 : ∀ (ls : List (List Nat)) (v : List Nat),
    v ∈ prodLists ls ↔ List.Forall₂ (fun x l => x ∈ l) v ls
  | [], v => by
      simp only [prodLists, List.mem_singleton]
      constructor
      · rintro rfl; exact .nil
      · intro h; cases h; rfl
  | l :: ls, v => by
      rw [mem_prodLists_cons]
      constructor
      · rintro ⟨x, r, hx, hr, rfl⟩
        exact List.Forall₂.cons hx ((mem_prodLists_forall2 ls r).mp hr)
      · intro h
        cases h with
        | cons hx hr => exact ⟨_, _, hx, (mem_prodLists_forall2 ls _).mpr hr, rfl⟩

theorem forall2_map_right (R : Nat → List Nat → Prop) (f : Nat → List Nat) : ∀ (cur bd : List Nat),
    List.Forall₂ R cur (bd.map f) ↔ List.Forall₂ (fun x d => R x (f d)) cur bd
  | [], [] => ⟨fun _ => .nil, fun _ => .nil⟩
  | _ :: _, [] => ⟨fun h => (by simp only [List.map_nil] at h; cases h), fun h => (by cases h)⟩
  | [], _ :: _ => ⟨fun h => (by simp only [List.map_cons] at h; cases h), fun h => (by cases h)⟩
  | x :: xs, d :: ds => by
      constructor
      · intro h
        simp only [List.map_cons] at h
        cases h with
        | cons h1 h2 => exact .cons h1 ((forall2_map_right R f xs ds).mp h2)
      · intro h
        simp only [List.map_cons]
        cases h with
        | cons h1 h2 => exact .cons h1 ((forall2_map_right R f xs ds).mpr h2)

theorem forall2_idxOf {R : Nat → Nat → Prop} : ∀ {cur bd : List Nat}, List.Forall₂ R cur bd → ∀ a ∈ bd,
    R (cur.getD (bd.idxOf a) 0) a
  | _, _, .nil, a, h => by simp at h
  | _, _, .cons (a := x) (b := d) (l₁ := xs) (l₂ := ds) hxd hr, a, h => by
      by_cases had : d = a
      · subst had; simpa using hxd
      · have hin : a ∈ ds := by
          rcases List.mem_cons.mp h with h | h
          · exact absurd h.symm had
          · exact h
        rw [idxOf_cons_ne' _ had]
        simpa using forall2_idxOf hr a hin

theorem forall2_map_self {R : Nat → Nat → Prop} (g : Nat → Nat) : ∀ bd : List Nat, (∀ d ∈ bd, R (g d) d) →
    List.Forall₂ R (bd.map g) bd
  | [], _ => .nil
  | d :: ds, h => .cons (h d (by simp)) (forall2_map_self g ds (fun x hx => h x (by simp [hx])))

theorem getD_map_idxOf (g : Nat → Nat) : ∀ (bd : List Nat) (a : Nat), a ∈ bd →
    (bd.map g).getD (bd.idxOf a) 0 = g a
  | [], _, h => by simp at h
  | d :: ds, a, h => by
      by_cases had : d = a
      · subst had; simp
      · have hin : a ∈ ds := by
          rcases List.mem_cons.mp h with h | h
          · exact absurd h.symm had
          · exact h
        rw [idxOf_cons_ne' _ had]
        simpa using getD_map_idxOf g ds a hin

/-- the subsets yielded for ascending `batch_dims`, explicitly -/
theorem mem_batchify {shape bd : List Nat} (hs : bd.Pairwise (· < ·)) {sel : List (Option Nat)} :
    sel ∈ batchify shape (some bd) ↔ ∃ cur : List Nat,
      List.Forall₂ (fun x d => x < shape.getD d 0) cur bd ∧
      sel = (List.range shape.length).map (fun a =>
        if bd.contains a then some (cur.getD (bd.idxOf a) 0) else none) := by
  unfold batchify
  simp only [List.mem_map, mem_prodLists_forall2, forall2_map_right, List.mem_range]
  constructor
  · rintro ⟨cur, hc, rfl⟩
    refine ⟨cur, hc, ?_⟩
    rw [batchAxes_spec _ bd cur 0 hs (fun _ _ => Nat.zero_le _)]
    simp
  · rintro ⟨cur, hc, rfl⟩
    refine ⟨cur, hc, ?_⟩
    rw [batchAxes_spec _ bd cur 0 hs (fun _ _ => Nat.zero_le _)]
    simp

theorem inSel_of_getElem : ∀ (sel : List (Option Nat)) (idx : List Nat), sel.length = idx.length →
    (∀ (a v : Nat), sel[a]? = some (some v) → idx[a]? = some v) → inSel sel idx = true
  | [], [], _, _ => rfl
  | [], _ :: _, h, _ => by simp at h
  | _ :: _, [], h, _ => by simp at h
  | none :: r, i :: is, hl, h => by
      unfold inSel
      exact inSel_of_getElem r is (by simpa using hl) (fun a v hv => by simpa using h (a + 1) v (by simpa using hv))
  | some w :: r, i :: is, hl, h => by
      unfold inSel
      have h0 := h 0 w (by simp)
      simp only [List.getElem?_cons_zero, Option.some.injEq] at h0
      simp only [h0, decide_true, Bool.true_and]
      exact inSel_of_getElem r is (by simpa using hl) (fun a v hv => by simpa using h (a + 1) v (by simpa using hv))

theorem inSel_getElem : ∀ (sel : List (Option Nat)) (idx : List Nat), inSel sel idx = true →
    sel.length = idx.length ∧ ∀ (a v : Nat), sel[a]? = some (some v) → idx[a]? = some v
  | [], [], _ => ⟨rfl, by simp⟩
  | [], _ :: _, h => by simp [inSel] at h
  | none :: _, [], h => by simp [inSel] at h
  | some _ :: _, [], h => by simp [inSel] at h
  | none :: r, i :: is, h => by
      unfold inSel at h
      obtain ⟨h1, h2⟩ := inSel_getElem r is h
      refine ⟨by simp [h1], ?_⟩
      intro a v hv
      cases a with
      | zero => simp at hv
      | succ a => simpa using h2 a v (by simpa using hv)
  | some w :: r, i :: is, h => by
      unfold inSel at h
      simp only [Bool.and_eq_true, decide_eq_true_eq] at h
      obtain ⟨h1, h2⟩ := inSel_getElem r is h.2
      refine ⟨by simp [h1], ?_⟩
      intro a v hv
      cases a with
      | zero =>
        simp only [List.getElem?_cons_zero, Option.some.injEq] at hv ⊢
        omega
      | succ a => simpa using h2 a v (by simpa using hv)

/-- local index + offset is a global index of the subset -/
theorem selOffset_restores : ∀ (shape : List Nat) (sel : List (Option Nat)) (loc : List Nat),
    sel.length = shape.length → inShape (selShape shape sel) loc = true →
    inShape shape (List.zipWith (· + ·) loc (selOffset sel)) = true ∧
    inSel sel (List.zipWith (· + ·) loc (selOffset sel)) = true
  | [], [], loc, _, h => by
      cases loc with
      | nil => simp [selOffset, inShape, inSel]
      | cons _ _ => simp [selShape, inShape] at h
  | [], _ :: _, _, hl, _ => by simp at hl
  | _ :: _, [], _, hl, _ => by simp at hl
  | s :: ss, none :: r, [], _, h => by simp [selShape, inShape] at h
  | s :: ss, some v :: r, [], _, h => by simp [selShape, inShape] at h
  | s :: ss, none :: r, l :: ls, hl, h => by
      simp only [selShape] at h
      obtain ⟨h0, hr⟩ := inShape_cons.mp h
      obtain ⟨i1, i2⟩ := selOffset_restores ss r ls (by simpa using hl) hr
      simp only [selOffset] at i1 i2 ⊢
      simp only [List.map_cons, Option.getD_none, List.zipWith_cons_cons, Nat.add_zero, inSel, i2, and_true]
      exact inShape_cons.mpr ⟨h0, i1⟩
  | s :: ss, some v :: r, l :: ls, hl, h => by
      simp only [selShape] at h
      obtain ⟨h0, hr⟩ := inShape_cons.mp h
      obtain ⟨i1, i2⟩ := selOffset_restores ss r ls (by simpa using hl) hr
      have hv : v < s ∧ l = 0 := by
        split at h0
        · exact ⟨by assumption, by omega⟩
        · omega
      simp only [selOffset] at i1 i2 ⊢
      simp only [List.map_cons, Option.getD_some, List.zipWith_cons_cons, hv.2, Nat.zero_add, inSel, i2,
        decide_true, Bool.and_self, and_true]
      exact inShape_cons.mpr ⟨hv.1, i1⟩

/-- every global index of the subset is local index + offset -/
theorem selOffset_complete : ∀ (shape : List Nat) (sel : List (Option Nat)) (idx : List Nat),
    inShape shape idx = true → inSel sel idx = true →
    ∃ loc, inShape (selShape shape sel) loc = true ∧ List.zipWith (· + ·) loc (selOffset sel) = idx
  | [], [], [], _, _ => ⟨[], by simp [selShape, inShape], by simp [selOffset]⟩
  | [], _, _ :: _, h, _ => by simp [inShape] at h
  | _ :: _, _, [], h, _ => by simp [inShape] at h
  | [], none :: _, [], _, h => by simp [inSel] at h
  | [], some _ :: _, [], _, h => by simp [inSel] at h
  | _ :: _, [], _ :: _, _, h => by simp [inSel] at h
  | s :: ss, none :: r, i :: is, h, hs => by
      obtain ⟨h0, hr⟩ := inShape_cons.mp h
      unfold inSel at hs
      obtain ⟨loc, l1, l2⟩ := selOffset_complete ss r is hr hs
      refine ⟨i :: loc, ?_, ?_⟩
      · simp only [selShape]; exact inShape_cons.mpr ⟨h0, l1⟩
      · simp only [selOffset] at l2 ⊢
        simp [l2]
  | s :: ss, some v :: r, i :: is, h, hs => by
      obtain ⟨h0, hr⟩ := inShape_cons.mp h
      unfold inSel at hs
      simp only [Bool.and_eq_true, decide_eq_true_eq] at hs
      obtain ⟨loc, l1, l2⟩ := selOffset_complete ss r is hr hs.2
      refine ⟨0 :: loc, ?_, ?_⟩
      · simp only [selShape]
        have : v < s := by omega
        rw [if_pos this]
        exact inShape_cons.mpr ⟨by omega, l1⟩
      · simp only [selOffset] at l2 ⊢
        simp [l2, hs.1]

/-! ## `__call__` / `_update` with `batch_dims` -/

theorem filterPointsB_mem {md : Nat} {bd : Option (List Nat)} {xs : List Peak} {p : Peak}
    (h : p ∈ filterPointsB md bd xs) : p ∈ xs := by
  unfold filterPointsB at h
  split at h
  · exact h
  · rcases greedyAuxB_mem md bd xs [] p h with h1 | h1
    · simp at h1
    · exact h1

theorem updateB_mem {cfg : Cfg} {bd : List Nat} {st cands : List Peak} {p : Peak}
    (h : p ∈ updateB cfg bd st cands) : p ∈ st ∨ p ∈ cands := by
  unfold updateB at h
  have := filterPointsB_mem h
  simp only [List.mem_filterMap] at this
  obtain ⟨i, _, hi⟩ := this
  exact List.mem_append.mp (List.mem_of_getElem? hi)

/-- same batch → strictly farther apart than the minimum distance -/
def SepB (md : Nat) (bd : List Nat) (a b : Peak) : Prop :=
  (∀ i ∈ bd, a.pos[i]? = b.pos[i]?) → (md : Int) * (md : Int) < d2 a.pos b.pos

theorem filterPointsB_sepB {md : Nat} (hmd : 0 < md) (bd : List Nat) (xs : List Peak) :
    (filterPointsB md (some bd) xs).Pairwise (SepB md bd) := by
  unfold filterPointsB
  rw [if_neg (by omega)]
  refine (greedyAuxB_pairwise md (some bd) xs [] List.Pairwise.nil).imp ?_
  intro a b h hs
  unfold FarPB at h
  rw [farB_same md bd _ _ hs] at h
  exact far_sep h

theorem updateB_sepB {cfg : Cfg} (hmd : 0 < cfg.minDist) (bd : List Nat) (st cands : List Peak) :
    (updateB cfg bd st cands).Pairwise (SepB cfg.minDist bd) := by
  unfold updateB
  exact filterPointsB_sepB hmd bd _

theorem batchStep_sepB {cfg : Cfg} (hmd : 0 < cfg.minDist) (strat : Strategy) (bd : List Nat) (s : Sub)
    (st : List Peak) (sel : List (Option Nat)) (h : st.Pairwise (SepB cfg.minDist bd)) :
    (batchStep cfg strat bd s st sel).Pairwise (SepB cfg.minDist bd) := by
  unfold batchStep
  split
  · exact h
  · exact updateB_sepB hmd bd _ _

theorem foldl_batchStep_sepB {cfg : Cfg} (hmd : 0 < cfg.minDist) (strat : Strategy) (bd : List Nat) (s : Sub) :
    ∀ (sels : List (List (Option Nat))) (st : List Peak), st.Pairwise (SepB cfg.minDist bd) →
    (sels.foldl (batchStep cfg strat bd s) st).Pairwise (SepB cfg.minDist bd)
  | [], _, h => h
  | sel :: r, st, h => foldl_batchStep_sepB hmd strat bd s r _ (batchStep_sepB hmd strat bd s st sel h)

theorem runB_aux_sepB {cfg : Cfg} (hmd : 0 < cfg.minDist) (strat : Strategy) (bd : List Nat) :
    ∀ (subs : List Sub) (st : List Peak), st.Pairwise (SepB cfg.minDist bd) →
    (subs.foldl (submitB cfg strat bd) st).Pairwise (SepB cfg.minDist bd)
  | [], _, h => h
  | s :: r, st, h => runB_aux_sepB hmd strat bd r _ (foldl_batchStep_sepB hmd strat bd s _ st h)

/-- what a reported peak says about the submission it comes from -/
def SubmittedB (cfg : Cfg) (bd : List Nat) (s : Sub) (p : Peak) : Prop :=
  ∃ c : List Nat, inShape s.scores.shape c = true ∧ p.pos = c.map Int.ofNat ∧ p.rot = s.rot ∧
    p.score = s.scores.getD c 0 ∧ inWindow cfg p.score = true ∧
    (0 < cfg.minBoundary → inMarginB cfg.minBoundary bd 0 s.scores.shape c = true)

theorem callPeaks_inShape_det {cfg : Cfg} {strat : Strategy} {a : Arr Int} {o : Orc} (hs : strat ≠ .scipy)
    (hsize : a.data.size = prodL a.shape) (ho : o.callTopk = none) {c : List Nat}
    (hc : c ∈ callPeaks cfg strat a o) : inShape a.shape c = true := by
  cases strat with
  | sort =>
    simp only [callPeaks, callSort, ho, List.mem_map] at hc
    obtain ⟨i, hi, rfl⟩ := hc
    have := (selectTopk_none_ok a.data.toList (min cfg.nPeaks a.data.toList.length)).2.1 i hi
    apply inShape_unflat
    simp only [Array.length_toList] at this
    omega
  | maxFilter => exact callMaxFilter_inShape hc
  | fast => exact callFast_inShape hc
  | recursive => exact callRecursive_inShape hc
  | scipy => exact absurd rfl hs

theorem subArr_size (a : Arr Int) (sel : List (Option Nat)) :
    (subArr a sel).data.size = prodL (subArr a sel).shape := by
  simp [subArr, Arr.ofFn]

theorem batchStep_mem {cfg : Cfg} {strat : Strategy} (hs : strat ≠ .scipy) {bd : List Nat} {s : Sub}
    (ho : s.orc.callTopk = none) {st : List Peak} {sel : List (Option Nat)} (hsel : sel.length = s.scores.shape.length)
    {p : Peak} (h : p ∈ batchStep cfg strat bd s st sel) : p ∈ st ∨ SubmittedB cfg bd s p := by
  unfold batchStep at h
  split at h
  · exact Or.inl h
  · rcases updateB_mem h with h1 | h1
    · exact Or.inl h1
    · right
      unfold batchCands at h1
      simp only [List.mem_filter, List.mem_map] at h1
      obtain ⟨⟨g, hg, rfl⟩, hw⟩ := h1
      have hg' : g ∈ (callPeaks cfg strat (subArr s.scores sel) s.orc).map
          (fun c => List.zipWith (· + ·) c (selOffset sel)) ∧
          (0 < cfg.minBoundary → inMarginB cfg.minBoundary bd 0 s.scores.shape g = true) := by
        by_cases hmb : cfg.minBoundary > 0
        · rw [if_pos hmb] at hg
          exact ⟨(List.mem_filter.mp hg).1, fun _ => (List.mem_filter.mp hg).2⟩
        · rw [if_neg hmb] at hg
          exact ⟨hg, fun h0 => absurd h0 hmb⟩
      obtain ⟨c, hc, rfl⟩ := List.mem_map.mp hg'.1
      have hin := callPeaks_inShape_det hs (subArr_size s.scores sel) ho hc
      have := (selOffset_restores s.scores.shape sel c hsel hin).1
      exact ⟨_, this, rfl, rfl, rfl, hw, hg'.2⟩

theorem foldl_batchStep_mem {cfg : Cfg} {strat : Strategy} (hs : strat ≠ .scipy) {bd : List Nat} {s : Sub}
    (ho : s.orc.callTopk = none) : ∀ (sels : List (List (Option Nat))) (st : List Peak),
    (∀ sel ∈ sels, sel.length = s.scores.shape.length) → ∀ p ∈ sels.foldl (batchStep cfg strat bd s) st,
    p ∈ st ∨ SubmittedB cfg bd s p
  | [], _, _, p, h => Or.inl h
  | sel :: r, st, hl, p, h => by
      rcases foldl_batchStep_mem hs ho r _ (fun x hx => hl x (List.mem_cons_of_mem _ hx)) p h with h1 | h1
      · exact batchStep_mem hs ho (hl sel (by simp)) h1
      · exact Or.inr h1

theorem submitB_mem {cfg : Cfg} {strat : Strategy} (hs : strat ≠ .scipy) {bd : List Nat} {s : Sub}
    (ho : s.orc.callTopk = none) {st : List Peak} {p : Peak} (h : p ∈ submitB cfg strat bd st s) :
    p ∈ st ∨ SubmittedB cfg bd s p := by
  unfold submitB at h
  refine foldl_batchStep_mem hs ho _ st ?_ p h
  intro sel hsel
  simp only [batchify, List.mem_map] at hsel
  obtain ⟨cur, _, rfl⟩ := hsel
  exact batchAxes_length bd cur _ 0 0

theorem runB_aux_mem {cfg : Cfg} {strat : Strategy} (hs : strat ≠ .scipy) {bd : List Nat} :
    ∀ (subs : List Sub) (st : List Peak), (∀ s ∈ subs, s.orc.callTopk = none) →
    ∀ p ∈ subs.foldl (submitB cfg strat bd) st, p ∈ st ∨ ∃ s ∈ subs, SubmittedB cfg bd s p
  | [], _, _, p, h => Or.inl h
  | s :: r, st, ho, p, h => by
      rcases runB_aux_mem hs r _ (fun x hx => ho x (List.mem_cons_of_mem _ hx)) p h with h1 | ⟨s', hs', h1⟩
      · rcases submitB_mem hs (ho s (by simp)) h1 with h2 | h2
        · exact Or.inl h2
        · exact Or.inr ⟨s, by simp, h2⟩
      · exact Or.inr ⟨s', List.mem_cons_of_mem _ hs', h1⟩

theorem inMarginB_spec (mb : Nat) (bd : List Nat) : ∀ (k : Nat) (shape c : List Nat),
    inMarginB mb bd k shape c = true → ∀ i (h1 : i < shape.length) (h2 : i < c.length),
    bd.contains (k + i) = false → mb ≤ c[i] ∧ c[i] + mb < shape[i]
  | _, [], _, _, i, h1, _, _ => by simp at h1
  | _, _ :: _, [], _, i, _, h2, _ => by simp at h2
  | k, s :: ss, p :: ps, h, i, h1, h2, hb => by
      simp only [inMarginB, Bool.and_eq_true, Bool.or_eq_true, decide_eq_true_eq] at h
      cases i with
      | zero =>
        simp only [Nat.add_zero] at hb
        simp only [List.getElem_cons_zero]
        rcases h.1 with h0 | h0
        · rw [hb] at h0; exact Bool.noConfusion h0
        · omega
      | succ i =>
        simp only [List.getElem_cons_succ]
        exact inMarginB_spec mb bd (k + 1) ss ps h.2 i (by simpa using h1) (by simpa using h2)
          (by rw [show k + 1 + i = k + (i + 1) by omega]; exact hb)

theorem mergeB_mem {cfg : Cfg} {bd : List Nat} {off : Option (List Int)} :
    ∀ (parts : List (Option (List Peak))) (base : List Peak) (p : Peak), p ∈ mergeB cfg bd off base parts →
    p ∈ base ∨ ∃ c, some c ∈ parts ∧ ∃ q ∈ c, p = shiftPeak off q
  | [], _, _, h => Or.inl h
  | none :: r, base, p, h => by
      rcases mergeB_mem r base p h with h1 | ⟨c, hc, q, hq, e⟩
      · exact Or.inl h1
      · exact Or.inr ⟨c, List.mem_cons_of_mem _ hc, q, hq, e⟩
  | some c :: r, base, p, h => by
      rcases mergeB_mem r _ p h with h1 | ⟨c', hc, q, hq, e⟩
      · rcases updateB_mem h1 with h2 | h2
        · exact Or.inl h2
        · obtain ⟨q, hq, rfl⟩ := List.mem_map.mp h2
          exact Or.inr ⟨c, by simp, q, hq, rfl⟩
      · exact Or.inr ⟨c', List.mem_cons_of_mem _ hc, q, hq, e⟩

theorem mergeB_sepB {cfg : Cfg} (hmd : 0 < cfg.minDist) (bd : List Nat) (off : Option (List Int)) :
    ∀ (parts : List (Option (List Peak))) (base : List Peak), base.Pairwise (SepB cfg.minDist bd) →
    (mergeB cfg bd off base parts).Pairwise (SepB cfg.minDist bd)
  | [], _, h => h
  | none :: r, base, h => mergeB_sepB hmd bd off r base h
  | some _ :: r, _, _ => mergeB_sepB hmd bd off r _ (updateB_sepB hmd bd _ _)

theorem prodLists_length : ∀ ls : List (List Nat), (prodLists ls).length = (ls.map List.length).foldr (· * ·) 1
  | [] => rfl
  | l :: ls => by
      simp only [prodLists, List.map_cons, List.foldr_cons, ← prodLists_length ls]
      induction l with
      | nil => simp
      | cons x xs ih => simp only [List.flatMap_cons, List.length_append, List.length_map, ih, List.length_cons]; ring

end Pm.C05
