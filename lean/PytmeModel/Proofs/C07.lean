import PytmeModel.Model.C07
import Mathlib.Tactic.Ring
import Mathlib.Tactic.LinearCombination
import Mathlib.Tactic.Linarith
import Mathlib.Algebra.Order.Field.Basic

/-! Helper algebra for C07: 3×3 / 2×2 matrices over a commutative ring (associativity, transpose of a
product, multiplicativity of the determinant, closure of proper rotations under products). -/
namespace Pm.C07

section
variable {α : Type} [CommRing α]

theorem M3.mul_assoc (A B C : M3 α) : (A.mul B).mul C = A.mul (B.mul C) := by
  simp only [M3.mul, M3.mk.injEq]; and_intros <;> ring

theorem M3.id_mul (A : M3 α) : M3.id.mul A = A := by
  cases A; simp only [M3.mul, M3.id, M3.mk.injEq]; and_intros <;> ring

theorem M3.mul_id (A : M3 α) : A.mul M3.id = A := by
  cases A; simp only [M3.mul, M3.id, M3.mk.injEq]; and_intros <;> ring

theorem M3.tr_mul (A B : M3 α) : (A.mul B).tr = B.tr.mul A.tr := by
  simp only [M3.mul, M3.tr, M3.mk.injEq]; and_intros <;> ring

omit [CommRing α] in
theorem M3.tr_tr (A : M3 α) : A.tr.tr = A := rfl

theorem M3.tr_id : (M3.id : M3 α).tr = M3.id := rfl

theorem M3.det_mul (A B : M3 α) : (A.mul B).det = A.det * B.det := by
  simp only [M3.det, M3.mul]; ring

theorem M3.det_tr (A : M3 α) : A.tr.det = A.det := by
  simp only [M3.det, M3.tr]; ring

theorem M3.det_id : (M3.id : M3 α).det = 1 := by
  simp only [M3.det, M3.id]; ring

theorem M3.id_proper : (M3.id : M3 α).Proper :=
  ⟨⟨by rw [M3.tr_id, M3.id_mul], by rw [M3.tr_id, M3.id_mul]⟩, M3.det_id⟩

theorem M3.Orthonormal.mul {A B : M3 α} (hA : A.Orthonormal) (hB : B.Orthonormal) :
    (A.mul B).Orthonormal := by
  constructor
  · rw [M3.tr_mul, M3.mul_assoc, ← M3.mul_assoc A.tr, hA.1, M3.id_mul, hB.1]
  · rw [M3.tr_mul, M3.mul_assoc, ← M3.mul_assoc B, hB.2, M3.id_mul, hA.2]

theorem M3.Proper.mul {A B : M3 α} (hA : A.Proper) (hB : B.Proper) : (A.mul B).Proper :=
  ⟨hA.1.mul hB.1, by rw [M3.det_mul, hA.2, hB.2, one_mul]⟩

theorem M3.Orthonormal.det_sq {A : M3 α} (hA : A.Orthonormal) : A.det * A.det = 1 := by
  have := congrArg M3.det hA.1
  rw [M3.det_mul, M3.det_tr, M3.det_id] at this
  exact this

theorem rotX_proper (c s : α) (h : c * c + s * s = 1) : (rotX c s).Proper := by
  simp only [M3.Proper, M3.Orthonormal, rotX, M3.tr, M3.mul, M3.id, M3.det, M3.mk.injEq]
  and_intros <;> first | ring1 | linear_combination h

theorem rotY_proper (c s : α) (h : c * c + s * s = 1) : (rotY c s).Proper := by
  simp only [M3.Proper, M3.Orthonormal, rotY, M3.tr, M3.mul, M3.id, M3.det, M3.mk.injEq]
  and_intros <;> first | ring1 | linear_combination h

theorem rotZ_proper (c s : α) (h : c * c + s * s = 1) : (rotZ c s).Proper := by
  simp only [M3.Proper, M3.Orthonormal, rotZ, M3.tr, M3.mul, M3.id, M3.det, M3.mk.injEq]
  and_intros <;> first | ring1 | linear_combination h

theorem axisRot_proper (ax : Nat) (c s : α) (h : c * c + s * s = 1) : (axisRot ax c s).Proper := by
  unfold axisRot
  split
  · exact rotX_proper c s h
  · exact rotY_proper c s h
  · exact rotZ_proper c s h

end
section lookup
variable {ι β : Type} [LinearOrder β]

theorem runMin_cons (f : ι → β) (x y : ι) (ys : List ι) :
    runMin f x (y :: ys) = runMin f (if f y < f x then y else x) ys := rfl

/-- invariant of the running minimum -/
theorem runMin_le (f : ι → β) (xs : List ι) (x : ι) :
    (runMin f x xs = x ∨ runMin f x xs ∈ xs) ∧ f (runMin f x xs) ≤ f x ∧
      ∀ y ∈ xs, f (runMin f x xs) ≤ f y := by
  induction xs generalizing x with
  | nil => simp [runMin]
  | cons y ys ih =>
    rw [runMin_cons]
    simp only [List.mem_cons]
    by_cases h : f y < f x
    · simp only [h, if_true]
      obtain ⟨h1, h2, h3⟩ := ih y
      refine ⟨?_, le_trans h2 (le_of_lt h), ?_⟩
      · rcases h1 with h1 | h1
        · right; left; exact h1
        · right; right; exact h1
      · rintro z (rfl | hz)
        · exact h2
        · exact h3 z hz
    · simp only [h, if_false]
      obtain ⟨h1, h2, h3⟩ := ih x
      refine ⟨?_, h2, ?_⟩
      · rcases h1 with h1 | h1
        · left; exact h1
        · right; right; exact h1
      · rintro z (rfl | hz)
        · exact le_trans h2 (not_lt.mp h)
        · exact h3 z hz

theorem runMin_first (f : ι → β) (xs : List ι) (x : ι) :
    ∃ pre post, x :: xs = pre ++ runMin f x xs :: post ∧ ∀ y ∈ pre, f (runMin f x xs) < f y := by
  induction xs generalizing x with
  | nil => exact ⟨[], [], rfl, by simp⟩
  | cons y ys ih =>
    rw [runMin_cons]
    by_cases h : f y < f x
    · simp only [h, if_true]
      have hle := (runMin_le f ys y).2.1
      obtain ⟨pre, post, e, hp⟩ := ih y
      refine ⟨x :: pre, post, by rw [e]; rfl, ?_⟩
      intro z hz
      rcases List.mem_cons.mp hz with rfl | hz
      · exact lt_of_le_of_lt hle h
      · exact hp z hz
    · simp only [h, if_false]
      have ihx := ih x
      generalize runMin f x ys = r at ihx ⊢
      obtain ⟨pre, post, e, hp⟩ := ihx
      cases pre with
      | nil =>
        simp only [List.nil_append, List.cons.injEq] at e
        obtain ⟨rfl, rfl⟩ := e
        exact ⟨[], y :: ys, rfl, by simp⟩
      | cons p ps =>
        simp only [List.cons_append, List.cons.injEq] at e
        obtain ⟨rfl, rfl⟩ := e
        refine ⟨x :: y :: ps, post, rfl, ?_⟩
        intro z hz
        have hx : f r < f x := hp x List.mem_cons_self
        rcases List.mem_cons.mp hz with rfl | hz
        · exact hx
        · rcases List.mem_cons.mp hz with rfl | hz
          · exact lt_of_lt_of_le hx (not_lt.mp h)
          · exact hp z (List.mem_cons_of_mem _ hz)

end lookup

section lookupRing
variable {β : Type} [Ring β] [LinearOrder β] [IsStrictOrderedRing β]

theorem absDiff_eq_abs (a b : β) : absDiff a b = |a - b| := by
  unfold absDiff
  split
  · rename_i h; rw [abs_of_neg h]
  · rename_i h; rw [abs_of_nonneg (not_lt.mp h)]

end lookupRing

section m2
variable {α : Type} [CommRing α]

theorem M2.det_mul (A B : M2 α) : (A.mul B).det = A.det * B.det := by
  simp only [M2.det, M2.mul]; ring

theorem M2.det_tr (A : M2 α) : A.tr.det = A.det := by
  simp only [M2.det, M2.tr]; ring

theorem M2.det_id : (M2.id : M2 α).det = 1 := by
  simp only [M2.det, M2.id]; ring

theorem M2.Orthonormal.det_sq {A : M2 α} (hA : A.Orthonormal) : A.det * A.det = 1 := by
  have := congrArg M2.det hA.1
  rw [M2.det_mul, M2.det_tr, M2.det_id] at this
  exact this

end m2

/-- a square root of one in an ordered field is `±1` -/
theorem sq_one_cases {α : Type} [Field α] [LinearOrder α] [IsStrictOrderedRing α] (d : α) (h : d * d = 1) :
    d = 1 ∨ d = -1 := by
  have : (d - 1) * (d + 1) = 0 := by linear_combination h
  rcases mul_eq_zero.mp this with h0 | h0
  · left; linear_combination h0
  · right; linear_combination h0

theorem sum_map_const_nat {β : Type} (l : List β) (c : Nat) : (l.map (fun _ => c)).sum = l.length * c := by
  induction l with
  | nil => simp
  | cons x xs ih => simp only [List.map_cons, List.sum_cons, List.length_cons, ih]; ring

theorem linspace0_length (stop : Float) (num : Nat) : (linspace0 stop num).length = num := by
  unfold linspace0
  split
  · simp_all
  · split <;> simp_all

end Pm.C07
