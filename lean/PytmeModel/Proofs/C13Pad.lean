import PytmeModel.Model.C13
import PytmeModel.Model.C01
import PytmeModel.Model.C05
import PytmeModel.Proofs.Common
import Mathlib.Tactic.Ring
import Mathlib.Tactic.Linarith

/-! helper lemmas for the `_fourier_padding` / post-processing part of C13 -/
namespace Pm.C13

theorem baseShift_eq_C01 (pad : Bool) (m : Nat) : baseShift pad m = Pm.C01.fourierShift m pad := rfl

theorem tdiv_two_mul (x : Int) : Int.tdiv (2 * x) 2 = x := Int.mul_tdiv_cancel_left x (by decide)

theorem shiftAxis_nomask (pad g : Bool) (n m : Nat) (b : Bool) (h : ¬ shapeDiff n m b < 0) :
    shiftAxis pad g n m b = baseShift pad m := by
  unfold shiftAxis
  cases g
  · simp
  · simp only [if_true, h, if_false, Int.mul_zero, Int.sub_zero]
    exact tdiv_two_mul _

/-- a batch axis is never corrected -/
theorem shiftAxis_batch (pad g : Bool) (n m : Nat) : shiftAxis pad g n m true = baseShift pad m :=
  shiftAxis_nomask pad g n m true (by simp [shapeDiff])

/-- an axis on which the template fits is never corrected -/
theorem shiftAxis_fits (pad g : Bool) (n m : Nat) (b : Bool) (h : m ≤ n) : shiftAxis pad g n m b = baseShift pad m :=
  shiftAxis_nomask pad g n m b (by unfold shapeDiff; cases b <;> simp; omega)

/-- one axis (not a batch axis): the vector code computes what C01's per-axis model computes, as soon as the gate is open
whenever this axis needs it -/
theorem shiftAxis_eq_C01 (pad g : Bool) (n m : Nat) (hg : n < m → g = true) :
    shiftAxis pad g n m false = Pm.C01.fourierShiftFull n m pad := by
  by_cases hnm : n < m
  · rw [hg hnm]
    unfold shiftAxis shapeDiff Pm.C01.fourierShiftFull padOffset
    have hneg : (n : Int) - m < 0 := by omega
    simp only [if_true, hneg, Bool.false_eq_true, if_false]
    rw [baseShift_eq_C01]
    congr 1
    ring
  · rw [shiftAxis_fits pad g n m false (by omega)]
    unfold Pm.C01.fourierShiftFull
    have hneg : ¬ ((n : Int) - m < 0) := by omega
    simp only [hneg, if_false]
    rfl


/-- the three vectors have one entry per axis and no axis is a batch axis -/
def NoBatch : List Nat → List Nat → List Bool → Prop
  | [], [], [] => True
  | _ :: ns, _ :: ms, b :: bs => b = false ∧ NoBatch ns ms bs
  | _, _, _ => False

theorem noBatch_replicate : ∀ (ns ms : List Nat), ns.length = ms.length → NoBatch ns ms (List.replicate ns.length false)
  | [], [], _ => trivial
  | _ :: ns, _ :: ms, h => ⟨rfl, noBatch_replicate ns ms (by simpa using h)⟩
  | [], _ :: _, h => by simp at h
  | _ :: _, [], h => by simp at h

/-- the gate `np.sum(shape_mask)` is open as soon as one axis has the template larger than the target -/
def SomeLarger : List Nat → List Nat → Prop
  | n :: ns, m :: ms => n < m ∨ SomeLarger ns ms
  | _, _ => False

theorem anyNeg_of_someLarger : ∀ (ns ms : List Nat) (bs : List Bool), NoBatch ns ms bs → SomeLarger ns ms →
    (zip3With shapeDiff ns ms bs).any (· < 0) = true
  | n :: ns, m :: ms, b :: bs, ⟨hb, hr⟩, h => by
    subst hb
    simp only [zip3With, List.any_cons, Bool.or_eq_true, decide_eq_true_eq]
    rcases h with h | h
    · left; unfold shapeDiff; simp; omega
    · right; exact anyNeg_of_someLarger ns ms bs hr h
  | [], [], [], _, h => by cases h
  | [], _ :: _, _, h, _ => by cases h
  | _ :: _, [], _, h, _ => by cases h
  | [], [], _ :: _, h, _ => by cases h
  | _ :: _, _ :: _, [], h, _ => by cases h

theorem shifts_eq_C01_aux (pad g : Bool) : ∀ (ns ms : List Nat) (bs : List Bool), NoBatch ns ms bs →
    (SomeLarger ns ms → g = true) →
    zip3With (shiftAxis pad g) ns ms bs = Pm.C01.shiftsOfFull pad ns ms
  | n :: ns, m :: ms, b :: bs, ⟨hb, hr⟩, hg => by
    subst hb
    simp only [zip3With, Pm.C01.shiftsOfFull]
    rw [shiftAxis_eq_C01 pad g n m (fun h => hg (Or.inl h)),
      shifts_eq_C01_aux pad g ns ms bs hr (fun h => hg (Or.inr h))]
  | [], [], [], _, _ => rfl
  | [], _ :: _, _, h, _ => by cases h
  | _ :: _, [], _, h, _ => by cases h
  | [], [], _ :: _, h, _ => by cases h
  | _ :: _, _ :: _, [], h, _ => by cases h

/-- template fits on every axis -/
def Fits : List Nat → List Nat → Prop
  | [], [] => True
  | n :: ns, m :: ms => m ≤ n ∧ Fits ns ms
  | _, _ => False

theorem shiftsOfFull_fits (pad : Bool) : ∀ (ns ms : List Nat), Fits ns ms →
    Pm.C01.shiftsOfFull pad ns ms = Pm.C01.shiftsOf pad ms
  | [], [], _ => rfl
  | n :: ns, m :: ms, ⟨h, hr⟩ => by
    simp only [Pm.C01.shiftsOfFull, Pm.C01.shiftsOf, List.map_cons]
    have : Pm.C01.fourierShiftFull n m pad = Pm.C01.fourierShift m pad := by
      unfold Pm.C01.fourierShiftFull
      have : ¬ ((n : Int) - m < 0) := by omega
      simp [this]
    rw [this]
    have := shiftsOfFull_fits pad ns ms hr
    simp only [Pm.C01.shiftsOf] at this
    rw [this]
  | [], _ :: _, h => by cases h
  | _ :: _, [], h => by cases h

/-- shift with arbitrary batch axes: per axis, independent of the other axes -/
theorem shifts_any_batch (pad g : Bool) : ∀ (ns ms : List Nat) (bs : List Bool),
    (∀ n m b, (n, m, b) ∈ (ns.zip (ms.zip bs)) → b = true ∨ m ≤ n) →
    zip3With (shiftAxis pad g) ns ms bs = zip3With (fun _ m _ => baseShift pad m) ns ms bs
  | n :: ns, m :: ms, b :: bs, h => by
    simp only [zip3With]
    have h0 := h n m b (by simp)
    have : shiftAxis pad g n m b = baseShift pad m := by
      rcases h0 with rfl | h0
      · exact shiftAxis_batch pad g n m
      · exact shiftAxis_fits pad g n m b h0
    rw [this, shifts_any_batch pad g ns ms bs (fun n' m' b' hm => h n' m' b' (by simp [hm]))]
  | [], _, _, _ => by simp [zip3With]
  | _ :: _, [], _, _ => by simp [zip3With]
  | _ :: _, _ :: _, [], _ => by simp [zip3With]

/-- `conv_shape` per axis off batch axes is C01's `convLen` -/
theorem conv_eq_C01 (pad : Bool) : ∀ (ns ms : List Nat) (bs : List Bool), NoBatch ns ms bs →
    convShape (List.zipWith max ns ms) (List.zipWith (fourierPadAxis pad) ms bs)
      = List.zipWith (fun n m => Pm.C01.convLen n m pad) ns ms
  | n :: ns, m :: ms, b :: bs, ⟨hb, hr⟩ => by
    subst hb
    have ih := conv_eq_C01 pad ns ms bs hr
    unfold convShape at ih ⊢
    simp only [List.zipWith_cons_cons, ih]
    congr 1
    unfold convLen fourierPadAxis Pm.C01.convLen
    cases pad <;> simp
  | [], [], [], _ => rfl
  | [], _ :: _, _, h => by cases h
  | _ :: _, [], _, h => by cases h
  | [], [], _ :: _, h => by cases h
  | _ :: _, _ :: _, [], h => by cases h

end Pm.C13
