import PytmeModel.Proofs.C06Linear
import PytmeModel.Proofs.C06
import Mathlib.Algebra.BigOperators.Group.Finset.Basic
import Mathlib.Algebra.BigOperators.Ring.Finset
import Mathlib.Algebra.BigOperators.Group.Finset.Sigma
import Mathlib.Algebra.Order.AbsoluteValue.Basic

/-! Order-1 interpolation as a sum against hat functions, and what a sub-voxel translation does to the mass and the
first moments of an array (`Model/C06.lean`: `rigidLinearArr`, `mass`, `moment`). -/
set_option linter.unusedSimpArgs false
set_option linter.unusedSectionVars false
namespace Pm.C06
open Finset

section generic
variable {K : Type} [Field K] [LinearOrder K] [IsStrictOrderedRing K] [FloorRing K]

/-- the hat function `Λ(u) = max(0, 1 − |u|)`: the order-1 B-spline -/
def hat (u : K) : K := max 0 (1 - |u|)

theorem hat_nonneg (u : K) : 0 ≤ hat u := le_max_left _ _

theorem hat_neg (u : K) : hat (-u) = hat u := by simp [hat]

theorem hat_eq_zero {u : K} (h : 1 ≤ |u|) : hat u = 0 := by
  unfold hat; exact max_eq_left (by linarith)

theorem hat_floor (x : K) : hat (x - (⌊x⌋ : K)) = 1 - Int.fract x := by
  rw [Int.self_sub_floor]
  have h0 := Int.fract_nonneg x
  have h1 := Int.fract_lt_one x
  unfold hat
  rw [abs_of_nonneg h0]
  exact max_eq_right (by linarith)

theorem hat_floor_succ (x : K) : hat (x - ((⌊x⌋ + 1 : Int) : K)) = Int.fract x := by
  have h0 := Int.fract_nonneg x
  have h1 := Int.fract_lt_one x
  have : x - ((⌊x⌋ + 1 : Int) : K) = -(1 - Int.fract x) := by
    rw [← Int.self_sub_floor]; push_cast; ring
  rw [this, hat_neg]
  unfold hat
  rw [abs_of_nonneg (by linarith)]
  rw [max_eq_right (by linarith)]
  ring

theorem hat_far (x : K) (i : Int) (h1 : i ≠ ⌊x⌋) (h2 : i ≠ ⌊x⌋ + 1) : hat (x - (i : K)) = 0 := by
  apply hat_eq_zero
  have hl := Int.floor_le x
  have hu := Int.lt_floor_add_one x
  rcases lt_or_gt_of_ne h1 with h | h
  · have : (i : K) + 1 ≤ (⌊x⌋ : K) := by exact_mod_cast h
    rw [abs_of_nonneg (by linarith)]; linarith
  · have h' : ⌊x⌋ + 2 ≤ i := by omega
    have : (⌊x⌋ : K) + 2 ≤ (i : K) := by exact_mod_cast h'
    rw [abs_of_nonpos (by linarith)]; linarith

/-- one axis: the two-node formula is the sum over the whole axis of sample × hat function -/
theorem interp1_eq_sum (n : Nat) (G : Int → K) (hG : ∀ i : Int, ¬ (0 ≤ i ∧ i < (n : Int)) → G i = 0) (y : K) :
    (1 - Int.fract y) * G ⌊y⌋ + Int.fract y * G (⌊y⌋ + 1) =
      ∑ i ∈ range n, G (i : Int) * hat (y - (((i : Nat) : Int) : K)) := by
  classical
  set F : Int → K := fun j => G j * hat (y - (j : K)) with hF
  have hS : ∑ i ∈ range n, G (i : Int) * hat (y - (((i : Nat) : Int) : K)) = ∑ j ∈ (range n).image (Nat.cast : Nat → Int), F j := by
    rw [Finset.sum_image (fun a _ b _ h => by exact_mod_cast h)]
  have hmem : ∀ j : Int, j ∈ (range n).image (Nat.cast : Nat → Int) ↔ (0 ≤ j ∧ j < (n : Int)) := by
    intro j
    simp only [Finset.mem_image, Finset.mem_range]
    constructor
    · rintro ⟨a, ha, rfl⟩; exact ⟨by omega, by exact_mod_cast ha⟩
    · rintro ⟨h0, h1⟩; exact ⟨j.toNat, by omega, by omega⟩
  set S := (range n).image (Nat.cast : Nat → Int) with hSdef
  set T : Finset Int := {⌊y⌋, ⌊y⌋ + 1} with hT
  have h1 : ∑ j ∈ S, F j = ∑ j ∈ S ∪ T, F j := by
    apply Finset.sum_subset Finset.subset_union_left
    intro j _ hj
    simp only [hF, hG j (fun h => hj ((hmem j).2 h)), zero_mul]
  have h2 : ∑ j ∈ T, F j = ∑ j ∈ S ∪ T, F j := by
    apply Finset.sum_subset Finset.subset_union_right
    intro j _ hj
    simp only [hT, Finset.mem_insert, Finset.mem_singleton, not_or] at hj
    simp only [hF, hat_far y j hj.1 hj.2, mul_zero]
  rw [hS, h1, ← h2, hT, Finset.sum_pair (by omega)]
  simp only [hF, hat_floor, hat_floor_succ]
  ring

/-! ### sums over the voxels of a box -/

/-- `Σ_{x ∈ box} F x`, axis by axis -/
def boxSum : List Nat → (List Int → K) → K
  | [], F => F []
  | n :: ns, F => ∑ i ∈ range n, boxSum ns (fun is => F ((i : Int) :: is))

theorem boxSum_congr : ∀ (ns : List Nat) (F F' : List Int → K), (∀ is, InBoxL ns is → F is = F' is) →
    boxSum ns F = boxSum ns F'
  | [], F, F', h => h [] List.Forall₂.nil
  | n :: ns, F, F', h => by
      simp only [boxSum]
      refine Finset.sum_congr rfl (fun i hi => ?_)
      refine boxSum_congr ns _ _ (fun is his => h _ (List.Forall₂.cons ⟨by omega, ?_⟩ his))
      exact_mod_cast Finset.mem_range.1 hi

theorem boxSum_zero : ∀ (ns : List Nat), boxSum ns (fun _ => (0 : K)) = 0
  | [] => rfl
  | n :: ns => by simp only [boxSum, boxSum_zero ns, Finset.sum_const_zero]

theorem boxSum_add : ∀ (ns : List Nat) (F G : List Int → K),
    boxSum ns (fun is => F is + G is) = boxSum ns F + boxSum ns G
  | [], F, G => rfl
  | n :: ns, F, G => by
      simp only [boxSum]
      rw [← Finset.sum_add_distrib]
      exact Finset.sum_congr rfl (fun i _ => boxSum_add ns _ _)

theorem boxSum_mul_left (c : K) : ∀ (ns : List Nat) (F : List Int → K),
    boxSum ns (fun is => c * F is) = c * boxSum ns F
  | [], F => rfl
  | n :: ns, F => by
      simp only [boxSum]
      rw [Finset.mul_sum]
      exact Finset.sum_congr rfl (fun i _ => boxSum_mul_left c ns _)

theorem boxSum_mul_right (c : K) (ns : List Nat) (F : List Int → K) :
    boxSum ns (fun is => F is * c) = boxSum ns F * c := by
  rw [mul_comm, ← boxSum_mul_left]
  exact boxSum_congr ns _ _ (fun is _ => mul_comm _ _)

theorem boxSum_finset_sum {ι : Type} (s : Finset ι) : ∀ (ns : List Nat) (F : ι → List Int → K),
    boxSum ns (fun is => ∑ j ∈ s, F j is) = ∑ j ∈ s, boxSum ns (F j)
  | [], F => rfl
  | n :: ns, F => by
      simp only [boxSum]
      rw [Finset.sum_comm]
      exact Finset.sum_congr rfl (fun i _ => boxSum_finset_sum s ns _)

/-- Fubini for two boxes -/
theorem boxSum_comm : ∀ (ns ms : List Nat) (F : List Int → List Int → K),
    boxSum ns (fun o => boxSum ms (fun x => F o x)) = boxSum ms (fun x => boxSum ns (fun o => F o x))
  | [], ms, F => rfl
  | n :: ns, ms, F => by
      simp only [boxSum]
      rw [boxSum_finset_sum]
      exact Finset.sum_congr rfl (fun i _ => boxSum_comm ns ms _)

/-- the tensor-product hat function `Π_i Λ(y_i − x_i)` -/
def hatProd : List K → List Int → K
  | [], [] => 1
  | y :: ys, i :: is => hat (y - (i : K)) * hatProd ys is
  | _, _ => 0

theorem interpRec_zero (xs : List K) : interpRec xs (fun _ => (0 : K)) = 0 := by
  have := interpRec_smul (0 : K) xs (fun _ => (0 : K))
  simpa using this

/-- **hat-function form of order-1 interpolation**: for data that vanishes outside the box the interpolant at `ys` is
`Σ_{x ∈ box} g x · Π_i Λ(ys_i − x_i)` -/
theorem interpRec_eq_boxSum : ∀ (ns : List Nat) (ys : List K) (g : List Int → K), ys.length = ns.length →
    (∀ is, ¬ InBoxL ns is → g is = 0) → interpRec ys g = boxSum ns (fun x => g x * hatProd ys x)
  | [], [], g, _, _ => by simp [interpRec, boxSum, hatProd]
  | [], _ :: _, g, h, _ => by simp at h
  | _ :: _, [], g, h, _ => by simp at h
  | n :: ns, y :: ys, g, hlen, hg => by
      have hlen' : ys.length = ns.length := by simpa using hlen
      have hsub : ∀ (k : Int) (is : List Int), ¬ InBoxL ns is → g (k :: is) = 0 := fun k is his =>
        hg _ (fun h => his (List.forall₂_cons.1 h).2)
      have hout : ∀ k : Int, ¬ (0 ≤ k ∧ k < (n : Int)) → interpRec ys (fun is => g (k :: is)) = 0 := by
        intro k hk
        rw [interpRec_congr ys _ (fun _ => (0 : K)) (fun is _ => hg _ (fun h => hk (List.forall₂_cons.1 h).1))]
        exact interpRec_zero ys
      simp only [interpRec, boxSum]
      rw [interp1_eq_sum n (fun k => interpRec ys (fun is => g (k :: is))) hout y]
      refine Finset.sum_congr rfl (fun i _ => ?_)
      rw [interpRec_eq_boxSum ns ys (fun is => g ((i : Int) :: is)) hlen' (hsub _), ← boxSum_mul_right]
      exact boxSum_congr ns _ _ (fun is _ => by simp only [hatProd]; ring)

/-! ### a translation, seen from the input voxels -/

/-- the source positions `o − t` and the shifted positions `x + t` -/
def subL (o : List Int) (ts : List K) : List K := List.zipWith (fun (z : Int) (t : K) => (z : K) - t) o ts
def addL (x : List Int) (ts : List K) : List K := List.zipWith (fun (z : Int) (t : K) => (z : K) + t) x ts

/-- voxel coordinate `x` shifted by `t` stays inside an axis of `n` voxels: both grid neighbours `x + ⌊t⌋`, `x + ⌈t⌉`
of the shifted position are voxels of the output, and their sources `o − t` lie inside `[0, n − 1]` (outside,
`mode="constant"` returns `cval` instead of interpolating towards the edge) -/
def SuppOK (n : Nat) (t : K) (x : Int) : Prop :=
  0 ≤ x + ⌊t⌋ ∧ x + ⌈t⌉ ≤ (n : Int) - 1 ∧
    (0 : K) ≤ (x : K) + (⌊t⌋ : K) - t ∧ (x : K) + (⌈t⌉ : K) - t ≤ (((n : Int) - 1 : Int) : K)

def SuppL : List Nat → List K → List Int → Prop
  | [], [], [] => True
  | n :: ns, t :: ts, x :: xs => SuppOK n t x ∧ SuppL ns ts xs
  | _, _, _ => False

theorem hat_zero_outside (n : Nat) (t : K) (o x : Int) (hs : SuppOK n t x)
    (hout : ¬ (0 ≤ (o : K) - t ∧ (o : K) - t ≤ (((n : Int) - 1 : Int) : K))) : hat ((o : K) - t - (x : K)) = 0 := by
  by_contra hne
  have hlt : |(o : K) - t - (x : K)| < 1 := by
    by_contra h; exact hne (hat_eq_zero (not_lt.1 h))
  obtain ⟨l, u⟩ := abs_lt.1 hlt
  obtain ⟨_, _, s3, s4⟩ := hs
  have hfl := Int.floor_le t
  have hce := Int.le_ceil t
  have h1 : ⌊t⌋ ≤ o - x := by
    have : ((⌊t⌋ : Int) : K) < ((o - x + 1 : Int) : K) := by push_cast; linarith
    have := Int.cast_lt.1 this
    omega
  have h2 : o - x ≤ ⌈t⌉ := by
    have : ((o - x : Int) : K) < ((⌈t⌉ + 1 : Int) : K) := by push_cast; linarith
    have := Int.cast_lt.1 this
    omega
  have h1' : ((⌊t⌋ : Int) : K) ≤ ((o - x : Int) : K) := Int.cast_le.2 h1
  have h2' : ((o - x : Int) : K) ≤ ((⌈t⌉ : Int) : K) := Int.cast_le.2 h2
  push_cast at h1' h2'
  exact hout ⟨by linarith, by linarith⟩

theorem hatProd_zero_outside : ∀ (ns : List Nat) (ts : List K) (o x : List Int), SuppL ns ts x →
    o.length = ns.length → ¬ InsideL (subL o ts) ns → hatProd (subL o ts) x = 0
  | [], [], [], [], _, _, h => absurd List.Forall₂.nil h
  | [], [], _ :: _, _, _, h, _ => by simp at h
  | _ :: _, _ :: _, [], _, _, h, _ => by simp at h
  | [], [], [], _ :: _, h, _, _ => by simp [SuppL] at h
  | [], _ :: _, _, _, h, _, _ => by simp [SuppL] at h
  | _ :: _, [], _, _, h, _, _ => by simp [SuppL] at h
  | _ :: _, _ :: _, _ :: _, [], h, _, _ => by simp [SuppL] at h
  | n :: ns, t :: ts, o :: os, x :: xs, hs, hlen, hout => by
      obtain ⟨hs1, hs2⟩ := hs
      simp only [subL, List.zipWith_cons_cons, hatProd]
      by_cases hh : (0 ≤ (o : K) - t ∧ (o : K) - t ≤ (((n : Int) - 1 : Int) : K))
      · have : ¬ InsideL (subL os ts) ns := fun h => hout (List.Forall₂.cons hh h)
        have := hatProd_zero_outside ns ts os xs hs2 (by simpa using hlen) this
        simp only [subL] at this
        rw [this, mul_zero]
      · rw [hat_zero_outside n t o x hs1 hh, zero_mul]

theorem hatProd_symm : ∀ (ts : List K) (o x : List Int), o.length = ts.length → x.length = ts.length →
    hatProd (subL o ts) x = hatProd (addL x ts) o
  | [], [], [], _, _ => rfl
  | [], _ :: _, _, h, _ => by simp at h
  | [], [], _ :: _, _, h => by simp at h
  | _ :: _, [], _, h, _ => by simp at h
  | _ :: _, _ :: _, [], _, h => by simp at h
  | t :: ts, o :: os, x :: xs, h1, h2 => by
      have ih := hatProd_symm ts os xs (by simpa using h1) (by simpa using h2)
      simp only [subL, addL] at ih
      simp only [subL, addL, List.zipWith_cons_cons, hatProd, ih]
      congr 1
      rw [← hat_neg]; congr 1; ring

theorem relevant_addL_inBox : ∀ (ns : List Nat) (ts : List K) (x is : List Int), SuppL ns ts x →
    Relevant (addL x ts) is → InBoxL ns is
  | [], [], [], [], _, _ => List.Forall₂.nil
  | [], [], [], _ :: _, _, h => by simp [addL, Relevant] at h
  | [], [], _ :: _, _, h, _ => by simp [SuppL] at h
  | [], _ :: _, _, _, h, _ => by simp [SuppL] at h
  | _ :: _, [], _, _, h, _ => by simp [SuppL] at h
  | _ :: _, _ :: _, [], _, h, _ => by simp [SuppL] at h
  | _ :: _, _ :: _, _ :: _, [], _, h => by simp [addL, Relevant] at h
  | n :: ns, t :: ts, x :: xs, i :: is, hs, hr => by
      obtain ⟨⟨s1, s2, _, _⟩, hs2⟩ := hs
      simp only [addL, List.zipWith_cons_cons, Relevant] at hr
      obtain ⟨hi, hr'⟩ := List.forall₂_cons.1 hr
      refine List.Forall₂.cons ?_ (relevant_addL_inBox ns ts xs is hs2 hr')
      have hfc := Int.floor_le_ceil t
      rw [Int.floor_intCast_add, Int.fract_intCast_add] at hi
      rcases hi with rfl | ⟨rfl, hf⟩
      · exact ⟨s1, by omega⟩
      · have : ⌊t⌋ < ⌈t⌉ := Int.lt_ceil.2 (by
          have := Int.fract_nonneg t
          have h' : 0 < Int.fract t := lt_of_le_of_ne this (Ne.symm hf)
          rw [← Int.self_sub_floor] at h'
          linarith)
        exact ⟨by omega, by omega⟩

theorem length_of_inBoxL {ns : List Nat} {is : List Int} (h : InBoxL ns is) : is.length = ns.length :=
  (List.Forall₂.length_eq h).symm

/-- **a translation moves every affine functional of the array exactly.**  `out` is the order-1 resampling of `g` at
`o − t` (zero where that source lies outside the array); if the shifted support stays inside, then for every affine
weight `φ(o) = α + β·o`: `Σ_o φ(o)·out(o) = Σ_x φ(x + t)·g(x)`. -/
theorem shift_functional (ns : List Nat) (ts : List K) (g out : List Int → K)
    (hlen : ts.length = ns.length)
    (hg0 : ∀ is, ¬ InBoxL ns is → g is = 0)
    (hsupp : ∀ x, g x ≠ 0 → SuppL ns ts x)
    (hin : ∀ o, InsideL (subL o ts) ns → out o = interpRec (subL o ts) g)
    (hout : ∀ o, ¬ InsideL (subL o ts) ns → out o = 0)
    (α : K) (β : List K) :
    boxSum ns (fun o => (α + dotL β (o.map (fun (z : Int) => (z : K)))) * out o) =
      boxSum ns (fun x => (α + dotL β (addL x ts)) * g x) := by
  classical
  -- (i) hat-function form of every output voxel
  have hrep : ∀ o, InBoxL ns o → out o = boxSum ns (fun x => g x * hatProd (subL o ts) x) := by
    intro o ho
    have hol := length_of_inBoxL ho
    by_cases hi : InsideL (subL o ts) ns
    · rw [hin o hi]
      exact interpRec_eq_boxSum ns _ g (by simp [subL, List.length_zipWith, hol, hlen]) hg0
    · rw [hout o hi]
      symm
      rw [← boxSum_zero (K := K) ns]
      refine boxSum_congr ns _ _ (fun x _ => ?_)
      by_cases hx : g x = 0
      · rw [hx, zero_mul]
      · rw [hatProd_zero_outside ns ts o x (hsupp x hx) hol hi, mul_zero]
  set φ : List Int → K := fun o => α + dotL β (o.map (fun (z : Int) => (z : K))) with hφ
  calc boxSum ns (fun o => φ o * out o)
      = boxSum ns (fun o => boxSum ns (fun x => φ o * (g x * hatProd (subL o ts) x))) := by
        refine boxSum_congr ns _ _ (fun o ho => ?_)
        rw [hrep o ho, boxSum_mul_left]
    _ = boxSum ns (fun x => boxSum ns (fun o => φ o * (g x * hatProd (subL o ts) x))) := boxSum_comm ns ns _
    _ = boxSum ns (fun x => (α + dotL β (addL x ts)) * g x) := by
        refine boxSum_congr ns _ _ (fun x hx => ?_)
        have hxl := length_of_inBoxL hx
        by_cases hgx : g x = 0
        · have : boxSum ns (fun o => φ o * (g x * hatProd (subL o ts) x)) = boxSum ns (fun _ => (0 : K)) :=
            boxSum_congr ns _ _ (fun o _ => by rw [hgx, zero_mul, mul_zero])
          rw [this, boxSum_zero, hgx, mul_zero]
        · set φ' : List Int → K := fun o => if InBoxL ns o then φ o else 0 with hφ'
          have h1 : boxSum ns (fun o => φ o * (g x * hatProd (subL o ts) x)) =
              g x * boxSum ns (fun o => φ' o * hatProd (addL x ts) o) := by
            rw [← boxSum_mul_left]
            refine boxSum_congr ns _ _ (fun o ho => ?_)
            rw [hatProd_symm ts o x ((length_of_inBoxL ho).trans hlen.symm) (hxl.trans hlen.symm)]
            simp only [hφ', if_pos ho]; ring
          have h2 : boxSum ns (fun o => φ' o * hatProd (addL x ts) o) = interpRec (addL x ts) φ' :=
            (interpRec_eq_boxSum ns _ φ' (by simp [addL, List.length_zipWith, hxl, hlen])
              (fun is his => by simp only [hφ', if_neg his])).symm
          have h3 : interpRec (addL x ts) φ' = α + dotL β (addL x ts) :=
            interpRec_affine _ φ' α β (fun is his => by
              simp only [hφ', if_pos (relevant_addL_inBox ns ts x is (hsupp x hgx) his), hφ])
          rw [h1, h2, h3]; ring

end generic

/-! ## the executable model: `mass`, `moment`, order-1 output arrays over `ℚ` -/
section rat

theorem list_range_sum (f : Nat → Rat) : ∀ m, ((List.range m).map f).sum = ∑ k ∈ range m, f k
  | 0 => by simp
  | m + 1 => by rw [List.sum_range_succ, Finset.sum_range_succ, list_range_sum f m]

theorem sum_range_mul (n P : Nat) (H : Nat → Nat → Rat) :
    ∑ k ∈ range (n * P), H (k / P) (k % P) = ∑ i ∈ range n, ∑ j ∈ range P, H i j := by
  induction n with
  | zero => simp
  | succ n ih =>
    rw [Nat.succ_mul, Finset.sum_range_add, ih, Finset.sum_range_succ]
    congr 1
    refine Finset.sum_congr rfl (fun j hj => ?_)
    have hj' := Finset.mem_range.1 hj
    have hP : 0 < P := by omega
    rw [Nat.add_comm (n * P) j, Nat.add_mul_div_right _ _ hP, Nat.div_eq_of_lt hj', Nat.add_mul_mod_self_right,
      Nat.mod_eq_of_lt hj', Nat.zero_add]

/-- the row-major enumeration `allIdx` visits every voxel of the box exactly once -/
theorem sum_allIdx : ∀ (shape : List Nat) (F : List Int → Rat),
    ((allIdx shape).map (fun idx => F (idx.map (fun (z : Nat) => (z : Int))))).sum = boxSum shape F
  | [], F => by simp [allIdx, prodL, unflat, boxSum]
  | n :: ns, F => by
      have ih := fun (i : Nat) => sum_allIdx ns (fun is => F ((i : Int) :: is))
      simp only [allIdx, List.map_map] at ih ⊢
      rw [list_range_sum]
      simp only [prodL, boxSum, Function.comp, unflat, List.map_cons]
      rw [sum_range_mul n (prodL ns) (fun i j => F ((i : Int) :: (unflat ns j).map (fun (z : Nat) => (z : Int))))]
      refine Finset.sum_congr rfl (fun i _ => ?_)
      rw [← ih i, list_range_sum]
      rfl

theorem mass_eq (a : Arr Rat) : mass a = boxSum a.shape (fun x => a.getI x 0) := by
  unfold mass
  rw [foldl_add_eq_sum (fun idx => a.getD idx 0), zero_add, ← sum_allIdx]
  congr 1
  exact List.map_congr_left (fun idx _ => (getI_natCast a idx).symm)

theorem moment_eq (a : Arr Rat) (k : Nat) :
    moment a k = boxSum a.shape (fun x => ((x.getD k 0 : Int) : Rat) * a.getI x 0) := by
  unfold moment
  rw [foldl_add_eq_sum (fun idx => ((idx.getD k 0 : Nat) : Rat) * a.getD idx 0), zero_add, ← sum_allIdx]
  congr 1
  refine List.map_congr_left (fun idx _ => ?_)
  rw [getI_natCast]
  congr 1
  have : (idx.map (fun (z : Nat) => (z : Int))).getD k 0 = ((idx.getD k 0 : Nat) : Int) := by
    simp only [List.getD_eq_getElem?_getD, List.getElem?_map]
    cases idx[k]? <;> simp
  rw [this]; simp

/-- the unit vector `e_k` as a coefficient list picks coordinate `k` -/
theorem dotL_unit : ∀ (k : Nat) (v : List Rat), dotL (List.replicate k 0 ++ [1]) v = v.getD k 0
  | 0, [] => by simp
  | 0, a :: as => by simp
  | k + 1, [] => by simp
  | k + 1, a :: as => by
      have := dotL_unit k as
      simp only [List.replicate_succ, List.cons_append, dotL_cons, this]
      simp

/-- `shift_functional` for arrays: `out` is any array of the shape of `a` holding the order-1 resampling of `a` at
`o − t`; for every affine weight `Σ_o φ(o)·out[o] = Σ_x φ(x + t)·a[x]` when the shifted support stays inside -/
theorem shift_functional_arr (a out : Arr Rat) (ts : List Rat) (hlen : ts.length = a.shape.length)
    (hshape : out.shape = a.shape)
    (hout : ∀ idx, inShape a.shape idx = true →
      out.getD idx 0 = linInterp a (subL (idx.map (fun (z : Nat) => (z : Int))) ts))
    (hsupp : ∀ idx, inShape a.shape idx = true → a.getD idx 0 ≠ 0 →
      SuppL a.shape ts (idx.map (fun (z : Nat) => (z : Int))))
    (α : Rat) (β : List Rat) :
    boxSum a.shape (fun o => (α + dotL β (o.map (fun (z : Int) => (z : Rat)))) * out.getI o 0) =
      boxSum a.shape (fun x => (α + dotL β (addL x ts)) * a.getI x 0) := by
  rw [← shift_functional a.shape ts (fun is => a.getI is 0) (fun o => linInterp a (subL o ts)) hlen
    (fun is his => getI_of_not_inBox a is his) ?_ (fun o ho => linInterp_inside a _ ho)
    (fun o ho => linInterp_outside a _ ho) α β]
  · refine boxSum_congr _ _ _ (fun o ho => ?_)
    have ho' : InBoxL out.shape o := by rw [hshape]; exact ho
    obtain ⟨h1, h2⟩ := getI_of_inBox out o ho'
    rw [hshape] at h2
    rw [h1, hout _ h2, map_toNat_cast _ _ ho]
  · intro x hx
    have hb : InBoxL a.shape x := by
      by_contra h; exact hx (getI_of_not_inBox a x h)
    obtain ⟨h1, h2⟩ := getI_of_inBox a x hb
    have := hsupp _ h2 (by rw [← h1]; exact hx)
    rwa [map_toNat_cast _ _ hb] at this

/-- the weight the model gives to a corner is the tensor-product hat function at that corner -/
theorem linCorners_weight_hat : ∀ (xs : List Rat) (iw : List Int × Rat), iw ∈ linCorners xs → iw.2 = hatProd xs iw.1
  | [], iw, h => by
      simp only [linCorners, List.mem_singleton] at h
      rw [h]; rfl
  | x :: xs, iw, h => by
      simp only [linCorners, linNodes_eq, List.flatMap_cons, List.flatMap_nil, List.append_nil, List.mem_append,
        List.mem_map] at h
      rcases h with ⟨jw, hj, rfl⟩ | ⟨jw, hj, rfl⟩
      · simp only [hatProd, hat_floor, linCorners_weight_hat xs jw hj]
      · simp only [hatProd, hat_floor_succ, linCorners_weight_hat xs jw hj]

/-- hat-function form of the executable model, inside the array -/
theorem linInterp_eq_boxSum (a : Arr Rat) (src : List Rat) (hin : InsideL src a.shape) :
    linInterp a src = boxSum a.shape (fun x => a.getI x 0 * hatProd src x) := by
  rw [linInterp_inside a src hin]
  exact interpRec_eq_boxSum a.shape src _ (List.Forall₂.length_eq hin) (fun is his => getI_of_not_inBox a is his)

theorem shift_mass (a out : Arr Rat) (ts : List Rat) (hlen : ts.length = a.shape.length)
    (hshape : out.shape = a.shape)
    (hout : ∀ idx, inShape a.shape idx = true →
      out.getD idx 0 = linInterp a (subL (idx.map (fun (z : Nat) => (z : Int))) ts))
    (hsupp : ∀ idx, inShape a.shape idx = true → a.getD idx 0 ≠ 0 →
      SuppL a.shape ts (idx.map (fun (z : Nat) => (z : Int)))) :
    mass out = mass a := by
  have h := shift_functional_arr a out ts hlen hshape hout hsupp 1 []
  simp only [dotL_nil_left, add_zero, one_mul] at h
  rw [mass_eq, mass_eq, hshape]; exact h

theorem getD_addL (x : List Int) (ts : List Rat) (k : Nat) (h1 : k < x.length) (h2 : k < ts.length) :
    (addL x ts).getD k 0 = ((x.getD k 0 : Int) : Rat) + ts.getD k 0 := by
  simp only [addL, List.getD_eq_getElem?_getD, List.getElem?_zipWith, List.getElem?_eq_getElem h1,
    List.getElem?_eq_getElem h2]
  simp

theorem shift_moment (a out : Arr Rat) (ts : List Rat) (hlen : ts.length = a.shape.length)
    (hshape : out.shape = a.shape)
    (hout : ∀ idx, inShape a.shape idx = true →
      out.getD idx 0 = linInterp a (subL (idx.map (fun (z : Nat) => (z : Int))) ts))
    (hsupp : ∀ idx, inShape a.shape idx = true → a.getD idx 0 ≠ 0 →
      SuppL a.shape ts (idx.map (fun (z : Nat) => (z : Int))))
    (k : Nat) (hk : k < a.shape.length) :
    moment out k = moment a k + ts.getD k 0 * mass a := by
  have h := shift_functional_arr a out ts hlen hshape hout hsupp 0 (List.replicate k 0 ++ [1])
  simp only [dotL_unit, zero_add] at h
  rw [moment_eq, moment_eq, mass_eq, hshape, ← boxSum_mul_left, ← boxSum_add]
  have hl : boxSum a.shape (fun x => ((x.getD k 0 : Int) : Rat) * out.getI x 0) =
      boxSum a.shape (fun o => (o.map (fun (z : Int) => (z : Rat))).getD k 0 * out.getI o 0) := by
    refine boxSum_congr _ _ _ (fun o _ => ?_)
    congr 1
    simp only [List.getD_eq_getElem?_getD, List.getElem?_map]
    cases o[k]? <;> simp
  rw [hl, h]
  refine boxSum_congr _ _ _ (fun x hx => ?_)
  have hxl := length_of_inBoxL hx
  rw [getD_addL x ts k (by omega) (by omega)]
  ring

/-- the per-axis support condition, axis by axis, implies the list form -/
theorem suppL_ofFn : ∀ (d : Nat) (ns : List Nat) (t : Fin d → Rat) (x : List Int), ns.length = d → x.length = d →
    (∀ i : Fin d, SuppOK (ns.getD i.val 0) (t i) (x.getD i.val 0)) → SuppL ns (List.ofFn t) x
  | 0, [], t, [], _, _, _ => by simp [SuppL]
  | 0, _ :: _, _, _, h, _, _ => by simp at h
  | 0, [], _, _ :: _, _, h, _ => by simp at h
  | d + 1, [], _, _, h, _, _ => by simp at h
  | d + 1, _ :: _, _, [], _, h, _ => by simp at h
  | d + 1, n :: ns, t, x :: xs, h1, h2, h => by
      rw [List.ofFn_succ]
      refine ⟨by simpa using h 0, suppL_ofFn d ns (fun i => t i.succ) xs (by simpa using h1) (by simpa using h2) ?_⟩
      intro i
      simpa using h i.succ

theorem forall₂_ofFn {α β : Type} (R : α → β → Prop) : ∀ (d : Nat) (f : Fin d → α) (g : Fin d → β),
    List.Forall₂ R (List.ofFn f) (List.ofFn g) ↔ ∀ i, R (f i) (g i)
  | 0, f, g => by simp
  | d + 1, f, g => by
      rw [List.ofFn_succ, List.ofFn_succ, List.forall₂_cons, forall₂_ofFn R d, Fin.forall_fin_succ]

theorem inBoxL_ofFn {d : Nat} (n : Fin d → Nat) (s : Vec d Int) :
    InBoxL (List.ofFn n) (List.ofFn s) ↔ inBox n s = true := by
  rw [InBoxL, forall₂_ofFn, inBox_iff]

theorem ofFn_sub_eq_subL (d : Nat) (t : Fin d → Rat) (idx : List Nat) (h : idx.length = d) :
    List.ofFn (fun i : Fin d => vecOfList d (ratIdx idx) i - t i) =
      subL (idx.map (fun (z : Nat) => (z : Int))) (List.ofFn t) := by
  apply List.ext_getElem
  · simp [subL, h]
  · intro i h1 h2
    have hi : i < idx.length := by simp at h1; omega
    simp [vecOfList, ratIdx, subL, List.getElem_ofFn, List.getElem_zipWith, List.getD_eq_getElem?_getD,
      List.getElem?_eq_getElem hi]

/-- for non-negative data the backend's `center_of_mass(arr, cutoff=0)` is first moment / mass on every axis -/
theorem centerOfMass_eq (a : Arr Rat) (hpos : ∀ idx, inShape a.shape idx = true → 0 ≤ a.getD idx 0) :
    centerOfMass a 0 = (List.range a.shape.length).map (fun ax => moment a ax / mass a) := by
  have hall : ∀ idx, 0 ≤ a.getD idx 0 := by
    intro idx
    by_cases h : inShape a.shape idx = true
    · exact hpos idx h
    · simp [Arr.getD, h]
  have hw : ∀ idx, (if a.getD idx 0 > 0 then a.getD idx 0 else 0) = a.getD idx 0 := by
    intro idx
    split
    · rfl
    · rename_i h; exact le_antisymm (hall idx) (not_lt.1 h)
  unfold centerOfMass
  simp only [hw]
  apply List.map_congr_left
  intro ax _
  have hden : List.foldl (fun acc idx => acc + a.getD idx 0) 0 (allIdx a.shape) = mass a := rfl
  rw [hden, foldl_add_eq_sum (fun idx => a.getD idx 0 * ((idx.getD ax 0 : Nat) : Rat) / mass a), zero_add]
  unfold moment
  rw [foldl_add_eq_sum (fun idx => ((idx.getD ax 0 : Nat) : Rat) * a.getD idx 0), zero_add]
  simp only [div_eq_mul_inv]
  rw [← List.sum_map_mul_right]
  congr 1
  apply List.map_congr_left
  intro idx _
  ring

end rat

end Pm.C06
