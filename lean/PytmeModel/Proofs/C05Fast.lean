import PytmeModel.Proofs.C05Call

/-! Helper lemmas for C05: the block-wise strategy (`PeakCallerFast`) on the tiles of the
repaired `split_shape`. -/
namespace Pm.C05

/-! ## one axis: tiles are in bounds and cover the axis -/

theorem cdiv_pos' (N k : Nat) (hk : 0 < k) (hN : 0 < N) : 0 < cdiv N k := by
  unfold cdiv; exact Nat.div_pos (by omega) hk

theorem cdiv_le' (N k : Nat) (hk : 0 < k) (hkN : k ≤ N) : cdiv N k ≤ N := by
  unfold cdiv
  apply Nat.div_le_of_le_mul
  obtain ⟨k', rfl⟩ : ∃ k', k = k' + 1 := ⟨k - 1, by omega⟩
  obtain ⟨N', rfl⟩ : ∃ N', N = N' + 1 := ⟨N - 1, by omega⟩
  have : (k' + 1) * (N' + 1) = k' * N' + k' + N' + 1 := by ring
  have h2 : 0 ≤ k' * N' := Nat.zero_le _
  omega

theorem mul_cdiv_ge' (N k : Nat) (hk : 0 < k) : N ≤ k * cdiv N k := by
  unfold cdiv
  have h := Nat.lt_mul_div_succ (N + k - 1) hk
  have : k * ((N + k - 1) / k + 1) = k * ((N + k - 1) / k) + k := by ring
  omega

theorem nTiles_pos (n md : Nat) : 0 < nTiles n md := by unfold nTiles; omega

theorem nTiles_le {n md : Nat} (hn : 0 < n) : nTiles n md ≤ n := by
  unfold nTiles
  have : n / md ≤ n := Nat.div_le_self n md
  omega

theorem tileLen_le {n md : Nat} (hn : 0 < n) : tileLen n md ≤ n :=
  cdiv_le' n _ (nTiles_pos n md) (nTiles_le hn)

theorem tileLen_pos {n md : Nat} (hn : 0 < n) : 0 < tileLen n md :=
  cdiv_pos' n _ (nTiles_pos n md) hn

/-- every tile of the repaired `split_shape` lies inside the axis -/
theorem tileStarts_inBounds {n md s : Nat} (hs : s ∈ tileStarts n md) (hn : 0 < n) :
    s + tileLen n md ≤ n := by
  unfold tileStarts at hs
  simp only [List.mem_map, List.mem_range] at hs
  obtain ⟨j, _, rfl⟩ := hs
  have := tileLen_le (md := md) hn
  omega

/-- … and the tiles cover the axis -/
theorem tileStarts_cover {n md x : Nat} (hx : x < n) :
    ∃ s ∈ tileStarts n md, s ≤ x ∧ x < s + tileLen n md := by
  have hn : 0 < n := by omega
  have hL := tileLen_pos (md := md) hn
  have hLN := tileLen_le (md := md) hn
  have hkL : n ≤ nTiles n md * tileLen n md := mul_cdiv_ge' n (nTiles n md) (nTiles_pos n md)
  have h1 : x / tileLen n md * tileLen n md ≤ x := Nat.div_mul_le_self x _
  have h2 : x < tileLen n md * (x / tileLen n md + 1) := Nat.lt_mul_div_succ x hL
  have h3 : tileLen n md * (x / tileLen n md + 1) = x / tileLen n md * tileLen n md + tileLen n md := by ring
  have hj : x / tileLen n md < nTiles n md := by
    apply Nat.div_lt_of_lt_mul
    rw [Nat.mul_comm]; omega
  refine ⟨min (x / tileLen n md * tileLen n md) (n - tileLen n md), ?_, ?_, ?_⟩
  · unfold tileStarts
    simp only [List.mem_map, List.mem_range]
    exact ⟨x / tileLen n md, hj, rfl⟩
  · omega
  · omega

/-! ## n-D -/

theorem mem_prodLists_cons {l : List Nat} {ls : List (List Nat)} {v : List Nat} :
    v ∈ prodLists (l :: ls) ↔ ∃ x r, x ∈ l ∧ r ∈ prodLists ls ∧ v = x :: r := by
  simp only [prodLists, List.mem_flatMap, List.mem_map]
  constructor
  · rintro ⟨x, hx, r, hr, rfl⟩; exact ⟨x, r, hx, hr, rfl⟩
  · rintro ⟨x, r, hx, hr, rfl⟩; exact ⟨x, hx, r, hr, rfl⟩

theorem tile_inShape (md : Nat) : ∀ (shape st r : List Nat),
    st ∈ prodLists (shape.map (fun n => tileStarts n md)) →
    inShape (shape.map (fun n => tileLen n md)) r = true →
    inShape shape (List.zipWith (· + ·) st r) = true
  | [], st, r, hst, hr => by
      simp only [List.map_nil, prodLists, List.mem_singleton] at hst
      subst hst
      cases r with
      | nil => rfl
      | cons _ _ => simp [inShape] at hr
  | n :: ns, st, r, hst, hr => by
      rw [List.map_cons, mem_prodLists_cons] at hst
      obtain ⟨x, st', hx, hst', rfl⟩ := hst
      cases r with
      | nil => simp [inShape] at hr
      | cons r0 r' =>
        rw [List.map_cons, inShape_cons] at hr
        simp only [List.zipWith_cons_cons, inShape_cons]
        refine ⟨?_, tile_inShape md ns st' r' hst' hr.2⟩
        have hn : 0 < n := by
          rcases Nat.eq_zero_or_pos n with h0 | h0
          · subst h0
            have : tileLen 0 md = 0 := by simp [tileLen, cdiv, nTiles]
            omega
          · exact h0
        have := tileStarts_inBounds hx hn
        omega

theorem tile_cover_nd (md : Nat) : ∀ (shape c : List Nat), inShape shape c = true →
    ∃ st ∈ prodLists (shape.map (fun n => tileStarts n md)), ∃ r,
      inShape (shape.map (fun n => tileLen n md)) r = true ∧ c = List.zipWith (· + ·) st r
  | [], [], _ => ⟨[], by simp [prodLists], [], rfl, rfl⟩
  | [], _ :: _, h => by simp [inShape] at h
  | _ :: _, [], h => by simp [inShape] at h
  | n :: ns, x :: xs, h => by
      obtain ⟨hx, hr⟩ := inShape_cons.mp h
      obtain ⟨s, hs, hs1, hs2⟩ := tileStarts_cover (md := md) hx
      obtain ⟨st', hst', r', hr', hc'⟩ := tile_cover_nd md ns xs hr
      refine ⟨s :: st', ?_, (x - s) :: r', ?_, ?_⟩
      · rw [List.map_cons, mem_prodLists_cons]; exact ⟨s, st', hs, hst', rfl⟩
      · rw [List.map_cons, inShape_cons]; exact ⟨by omega, hr'⟩
      · simp only [List.zipWith_cons_cons, ← hc']
        congr 1; omega

theorem mem_boxIdx {starts lens c : List Nat} :
    c ∈ boxIdx starts lens ↔ ∃ r, inShape lens r = true ∧ c = List.zipWith (· + ·) starts r := by
  unfold boxIdx
  simp only [List.mem_map, mem_allIdx]
  constructor
  · rintro ⟨r, hr, rfl⟩; exact ⟨r, hr, rfl⟩
  · rintro ⟨r, hr, rfl⟩; exact ⟨r, hr, rfl⟩

theorem fastTileMax_inShape {md : Nat} {a : Arr Int} {c : List Nat} (hc : c ∈ fastTileMax md a) :
    inShape a.shape c = true := by
  unfold fastTileMax at hc
  simp only [List.mem_filterMap] at hc
  obtain ⟨st, hst, hmax⟩ := hc
  have := (argmaxOf_spec _ _ _ hmax).1
  obtain ⟨r, hr, rfl⟩ := mem_boxIdx.mp this
  exact tile_inShape md _ _ _ hst hr

theorem callFast_inShape {md : Nat} {a : Arr Int} {o : Option (List Nat)} {c : List Nat}
    (hc : c ∈ callFast md a o) : inShape a.shape c = true := by
  unfold callFast at hc
  simp only [List.mem_filter, List.mem_filterMap] at hc
  obtain ⟨⟨i, _, hi⟩, _⟩ := hc
  exact fastTileMax_inShape (List.mem_of_getElem? hi)

/-- some tile maximum is a global maximum -/
theorem fastTileMax_hasMax (md : Nat) {a : Arr Int} (hwf : WF a) : ∃ c ∈ fastTileMax md a, IsMaxAt a c := by
  obtain ⟨cs, hcs, hmax⟩ := exists_max hwf
  obtain ⟨st, hst, r, hr, hceq⟩ := tile_cover_nd md a.shape cs hcs
  have hmem : cs ∈ boxIdx st (a.shape.map (fun n => tileLen n md)) := mem_boxIdx.mpr ⟨r, hr, hceq⟩
  obtain ⟨c, hc⟩ := argmaxOf_isSome (fun i => a.getD i 0) _ (List.ne_nil_of_mem hmem)
  have hspec := argmaxOf_spec _ _ _ hc
  have hcin : inShape a.shape c = true := by
    obtain ⟨r', hr', rfl⟩ := mem_boxIdx.mp hspec.1
    exact tile_inShape md _ _ _ hst hr'
  refine ⟨c, ?_, hcin, ?_⟩
  · unfold fastTileMax
    simp only [List.mem_filterMap]
    exact ⟨st, hst, hc⟩
  · intro idx hidx
    have h1 := hmax idx hidx
    have h2 : a.getD cs 0 ≤ a.getD c 0 := hspec.2 cs hmem
    omega

theorem boxAll_of_forall (md : Nat) : ∀ (shape c : List Nat) (P : List Nat → Bool),
    inShape shape c = true → (∀ j, inShape shape j = true → P j = true) →
    boxAll (recheckBox md shape c) P = true
  | [], [], P, _, hP => by simpa [recheckBox, boxAll] using hP [] rfl
  | [], _ :: _, _, h, _ => by simp [inShape] at h
  | _ :: _, [], _, h, _ => by simp [inShape] at h
  | s :: ss, c :: cs, P, h, hP => by
      obtain ⟨_, hr⟩ := inShape_cons.mp h
      simp only [recheckBox, boxAll]
      rw [List.all_eq_true]
      intro o ho
      apply boxAll_of_forall md ss cs _ hr
      intro rest hrest
      apply hP
      simp only [List.mem_range] at ho
      exact inShape_cons.mpr ⟨by omega, hrest⟩

/-- what the theorems need from the `argsort` answer: it mentions every candidate -/
def PermOk (n : Nat) (perm : List Nat) : Prop := ∀ i, i < n → i ∈ perm

theorem mem_sortDesc (scores : List Int) (i : Nat) : i ∈ sortDesc scores ↔ i < scores.length := by
  unfold sortDesc; rw [mem_sortDescL]; simp

/-- the permutation `callFast` uses -/
def fastPerm (md : Nat) (a : Arr Int) (o : Option (List Nat)) : List Nat :=
  match o with
  | some l => l
  | none => sortDesc ((fastTileMax md a).map (fun c => a.getD c 0))

theorem fastPerm_none_ok (md : Nat) (a : Arr Int) : PermOk (fastTileMax md a).length (fastPerm md a none) := by
  intro i hi
  unfold fastPerm
  simp only
  rw [mem_sortDesc]; simpa using hi

theorem callFast_hasMax (md : Nat) {a : Arr Int} {o : Option (List Nat)} (hwf : WF a)
    (hperm : PermOk (fastTileMax md a).length (fastPerm md a o)) : ∃ c ∈ callFast md a o, IsMaxAt a c := by
  obtain ⟨c, hc, hmaxc⟩ := fastTileMax_hasMax md hwf
  refine ⟨c, ?_, hmaxc⟩
  obtain ⟨i, hi, hci⟩ := List.getElem_of_mem hc
  have hip := hperm i hi
  unfold callFast
  simp only [List.mem_filter, List.mem_filterMap]
  refine ⟨⟨i, ?_, ?_⟩, ?_⟩
  · cases o <;> exact hip
  · rw [List.getElem?_eq_getElem hi, hci]
  · apply boxAll_of_forall md _ _ _ hmaxc.1
    intro j hj
    simpa using hmaxc.2 j hj

end Pm.C05
