import PytmeModel.Model.C01
import PytmeModel.Proofs.Circ
import PytmeModel.Proofs.Common
import Mathlib.Algebra.BigOperators.Group.Finset.Basic
import Mathlib.Algebra.BigOperators.Intervals
import Mathlib.Algebra.Field.Defs
import Mathlib.Tactic.Ring
import Mathlib.Tactic.Linarith

/-! Score formulas over a field: box sums are reflection invariant, so standardising the *stored*
(reversed) template is the reversal of standardising the template. -/
open Finset
namespace Pm.C01

/-- scalar operations of a field, with an uninterpreted square root, comparison and epsilon -/
def fieldOps {α : Type} [Field α] (sqrt : α → α) (lt : α → α → Bool) (eps : α) : Ops α :=
  { zero := 0, one := 1, add := (· + ·), sub := (· - ·), mul := (· * ·), div := (· / ·),
    sqrt := sqrt, lt := lt, ofNat := fun n => (n : α), eps := eps }

theorem foldl_range_add {α} [AddCommMonoid α] (n : Nat) (h : Nat → α) :
    (List.range n).foldl (fun acc i => acc + h i) 0 = sumRange n h := by
  induction n with
  | zero => simp [sumRange]
  | succ k ih => simp [List.range_succ, List.foldl_append, ih, sumRange]

theorem boxSum_eq_sumShape {α : Type} [Field α] (sqrt : α → α) (lt : α → α → Bool) (eps : α) :
    ∀ (ms : List Nat) (F : List Nat → α), boxSum (fieldOps sqrt lt eps) ms F = sumShape ms F
  | [], F => rfl
  | m :: ms, F => by
    simp only [boxSum, sumShape]
    have : ∀ i, boxSum (fieldOps sqrt lt eps) ms (fun idx => F (i :: idx)) = sumShape ms (fun idx => F (i :: idx)) :=
      fun i => boxSum_eq_sumShape sqrt lt eps ms _
    simp only [this]
    exact foldl_range_add m _

/-- box sums are invariant under reflection of every axis -/
theorem sumShape_reflect {α} [AddCommMonoid α] : ∀ (ms : List Nat) (F : List Int → α),
    sumShape ms (fun k => F (revK ms k)) = sumShape ms (fun k => F (natsToInts k))
  | [], F => by simp [sumShape, revK, natsToInts]
  | m :: ms, F => by
    simp only [sumShape]
    have inner : ∀ i : Nat, sumShape ms (fun idx => F (revK (m :: ms) (i :: idx)))
        = sumShape ms (fun idx => F ((((m:Int) - 1) - (i:Int)) :: natsToInts idx)) := by
      intro i
      simp only [revK]
      exact sumShape_reflect ms (fun r => F ((((m:Int) - 1) - (i:Int)) :: r))
    simp only [inner]
    rw [sumRange_eq_sum, sumRange_eq_sum]
    rw [← Finset.sum_range_reflect]
    apply Finset.sum_congr rfl
    intro j hj
    have hj' := mem_range.mp hj
    have e : ((m:Int) - 1) - ((m - 1 - j : Nat) : Int) = (j : Int) := by omega
    rw [e]
    rfl

theorem natsToInts_length (k : List Nat) : (natsToInts k).length = k.length := by simp [natsToInts]

theorem revIdx_natsToInts : ∀ (ms k : List Nat), inShape ms k = true → revIdx ms (natsToInts k) = revK ms k
  | [], [], _ => rfl
  | [], _ :: _, h => by simp [inShape] at h
  | _ :: _, [], h => by simp [inShape] at h
  | m :: ms, k :: ks, h => by
    have := revIdx_natsToInts ms ks (inShape_cons.mp h).2
    simp only [natsToInts, List.map_cons, revIdx, revK] at *
    rw [this]; rfl

/-- summing a reversed field over the box = summing the field -/
theorem sumShape_rev {α} [AddCommMonoid α] (ms : List Nat) (Q : List Int → α) :
    sumShape ms (fun k => rev ms Q (natsToInts k)) = sumShape ms (fun k => Q (natsToInts k)) := by
  rw [← sumShape_reflect ms Q]
  apply sumShape_congr
  intro k hk
  simp only [rev, natsToInts_length, inShape_length hk, if_true]
  rw [revIdx_natsToInts ms k hk]

theorem rev_map2 {α β γ} (ms : List Nat) (op : α → β → γ) (g : List Int → α) (w : List Int → β) :
    (fun x => op (rev ms g x) (rev ms w x)) = rev ms (fun x => op (g x) (w x)) := by
  funext x; simp only [rev]; split <;> rfl

theorem rev_map1 {α β} (ms : List Nat) (op : α → β) (g : List Int → α) :
    (fun x => op (rev ms g x)) = rev ms (fun x => op (g x)) := by
  funext x; simp only [rev]; split <;> rfl

section
variable {α : Type} [Field α] (sqrt : α → α) (lt : α → α → Bool) (eps : α)

theorem boxSum_rev (ms : List Nat) (Q : List Int → α) :
    boxSum (fieldOps sqrt lt eps) ms (fun k => rev ms Q (natsToInts k))
      = boxSum (fieldOps sqrt lt eps) ms (fun k => Q (natsToInts k)) := by
  rw [boxSum_eq_sumShape, boxSum_eq_sumShape, sumShape_rev]

theorem maskSum_rev (ms : List Nat) (w : List Int → α) :
    maskSum (fieldOps sqrt lt eps) ms (rev ms w) = maskSum (fieldOps sqrt lt eps) ms w := by
  unfold maskSum; exact boxSum_rev sqrt lt eps ms w

/-- the template statistics are reflection invariant -/
theorem normStats_rev (ms : List Nat) (g w : List Int → α) (n : α) :
    normStats (fieldOps sqrt lt eps) ms (rev ms g) (rev ms w) n = normStats (fieldOps sqrt lt eps) ms g w n := by
  unfold normStats
  have e1 : (fun k => (fieldOps sqrt lt eps).mul (rev ms g (natsToInts k)) (rev ms w (natsToInts k)))
      = fun k => rev ms (fun x => (fieldOps sqrt lt eps).mul (g x) (w x)) (natsToInts k) := by
    funext k; exact congrFun (rev_map2 ms _ g w) _
  have e2 : (fun k => (fieldOps sqrt lt eps).mul ((fieldOps sqrt lt eps).sq (rev ms g (natsToInts k))) (rev ms w (natsToInts k)))
      = fun k => rev ms (fun x => (fieldOps sqrt lt eps).mul ((fieldOps sqrt lt eps).sq (g x)) (w x)) (natsToInts k) := by
    funext k
    exact congrFun (rev_map2 ms (fun a b => (fieldOps sqrt lt eps).mul ((fieldOps sqrt lt eps).sq a) b) g w) _
  simp only [e1, e2, boxSum_rev]

/-- standardising the stored (reversed) template under the stored mask = reversal of the standardised template -/
theorem normTemplate_rev (ms : List Nat) (g w : List Int → α) (n : α) :
    normTemplate (fieldOps sqrt lt eps) ms (rev ms g) (rev ms w) n
      = rev ms (normTemplate (fieldOps sqrt lt eps) ms g w n) := by
  unfold normTemplate
  rw [normStats_rev]
  funext x
  simp only [rev]
  split <;> rfl

/-- the closure the score formulas use *is* `normTemplate` -/
theorem normT_eq (o : Ops α) (ms : List Nat) (g w : List Int → α) (n : α) :
    normT o (normStats o ms g w n) g w = normTemplate o ms g w n := rfl

theorem normT_rev (o : Ops α) (st : α × α) (ms : List Nat) (g w : List Int → α) :
    normT o st (rev ms g) (rev ms w) = rev ms (normT o st g w) := by
  funext x; simp only [normT, rev]; split <;> rfl

theorem supp_normT (st : α × α) (ms : List Nat) (g w : List Int → α) (hw : ∀ j, OutOfBox ms j → w j = 0) :
    ∀ j, OutOfBox ms j → normT (fieldOps sqrt lt eps) st g w j = 0 := by
  intro j hj
  simp only [normT, normApply, fieldOps, hw j hj, mul_zero]

/-- the standardised template vanishes wherever the mask does -/
theorem supp_normTemplate (ms : List Nat) (g w : List Int → α) (n : α) (hw : ∀ j, OutOfBox ms j → w j = 0) :
    ∀ j, OutOfBox ms j → normTemplate (fieldOps sqrt lt eps) ms g w n j = 0 := by
  intro j hj
  simp only [normTemplate, normApply, fieldOps, hw j hj, mul_zero]
end

end Pm.C01
