import PytmeModel.Model.C16
import Mathlib.Tactic.Ring
import Mathlib.Tactic.Linarith

/-! Helper lemmas for C16: straight-line execution, the worker pool, the handler. -/
namespace Pm.C16

/-! ## straight-line steps -/

theorem step_fst_none (plan : Plan) (mgr : Option Nat) (s : Step) (w : World) :
    (step plan mgr s w).1 = none ↔ s.bad plan = false := by
  cases s with
  | point p => simp only [step, Step.bad]; split <;> simp_all
  | alloc n => simp [step, Step.bad]
  | write b => simp [step, Step.bad]
  | fail e => simp [step, Step.bad]

theorem execSteps_fst_none (plan : Plan) (mgr : Option Nat) (ss : List Step) (w : World) :
    (execSteps plan mgr ss w).1 = none ↔ ∀ s ∈ ss, s.bad plan = false := by
  induction ss generalizing w with
  | nil => simp [execSteps]
  | cons s ss ih =>
    have h := step_fst_none plan mgr s w
    unfold execSteps
    rcases hs : step plan mgr s w with ⟨_ | e, w'⟩
    · rw [hs] at h; simp only at h ⊢
      rw [ih w']; simp [h.mp trivial]
    · rw [hs] at h; simp only at h ⊢
      have : s.bad plan ≠ false := fun hb => by simpa using h.mpr hb
      simp [this]

/-- whatever a straight-line block raises is a fault of the plan at one of its points, or an explicit `fail` -/
theorem execSteps_some (plan : Plan) (mgr : Option Nat) (ss : List Step) (w : World) (e : Exc)
    (h : (execSteps plan mgr ss w).1 = some e) :
    (∃ p, Step.point p ∈ ss ∧ p ∈ plan ∧ e = .fault p) ∨ Step.fail e ∈ ss := by
  induction ss generalizing w with
  | nil => simp [execSteps] at h
  | cons s ss ih =>
    unfold execSteps at h
    rcases hs : step plan mgr s w with ⟨_ | e', w'⟩
    · rw [hs] at h; simp only at h
      rcases ih w' h with ⟨p, hp, hpl, he⟩ | hf
      · exact Or.inl ⟨p, List.mem_cons_of_mem _ hp, hpl, he⟩
      · exact Or.inr (List.mem_cons_of_mem _ hf)
    · rw [hs] at h; simp only at h
      have hee : e' = e := Option.some.inj h
      subst hee
      cases s with
      | point p =>
        simp only [step] at hs
        split at hs
        · rename_i hc
          simp only [Prod.mk.injEq, Option.some.injEq] at hs
          refine Or.inl ⟨p, List.mem_cons_self, ?_, ?_⟩
          · simpa using hc
          · exact hs.1.symm
        · simp at hs
      | alloc n => simp [step] at hs
      | write b => simp [step] at hs
      | fail e0 =>
        simp only [step, Prod.mk.injEq, Option.some.injEq] at hs
        refine Or.inr ?_
        rw [← hs.1]; exact List.mem_cons_self

/-- the ledger only grows by segments owned by `mgr` -/
def LiveExt (mgr : Option Nat) (w w' : World) : Prop :=
  ∃ l, w'.live = w.live ++ l ∧ ∀ s ∈ l, s.mgr = mgr

theorem LiveExt.refl (mgr : Option Nat) (w : World) : LiveExt mgr w w := ⟨[], by simp, by simp⟩

theorem LiveExt.trans {mgr : Option Nat} {a b c : World} (h1 : LiveExt mgr a b) (h2 : LiveExt mgr b c) :
    LiveExt mgr a c := by
  obtain ⟨l1, e1, o1⟩ := h1
  obtain ⟨l2, e2, o2⟩ := h2
  refine ⟨l1 ++ l2, by rw [e2, e1, List.append_assoc], ?_⟩
  intro s hs
  rcases List.mem_append.mp hs with h | h
  · exact o1 s h
  · exact o2 s h

theorem step_liveExt (plan : Plan) (mgr : Option Nat) (s : Step) (w : World) :
    LiveExt mgr w (step plan mgr s w).2 := by
  cases s with
  | point p => simp only [step]; split <;> exact ⟨[], by simp, by simp⟩
  | alloc n =>
    refine ⟨(List.range n).map (fun i => ⟨mgr, w.nalloc + i⟩), rfl, ?_⟩
    intro s hs
    obtain ⟨i, _, rfl⟩ := List.mem_map.mp hs
    rfl
  | write b => simp only [step]; split <;> exact ⟨[], by simp, by simp⟩
  | fail e => exact ⟨[], by simp [step], by simp⟩

theorem execSteps_liveExt (plan : Plan) (mgr : Option Nat) (ss : List Step) (w : World) :
    LiveExt mgr w (execSteps plan mgr ss w).2 := by
  induction ss generalizing w with
  | nil => exact LiveExt.refl _ _
  | cons s ss ih =>
    have h1 := step_liveExt plan mgr s w
    unfold execSteps
    rcases hs : step plan mgr s w with ⟨_ | e, w'⟩
    · rw [hs] at h1; exact h1.trans (ih w')
    · rw [hs] at h1; exact h1

/-- a step that writes into the caller's arrays -/
def Step.touches : Step → Bool
  | .write false => true
  | _ => false

theorem step_inputs (plan : Plan) (mgr : Option Nat) (s : Step) (w : World) (h : s.touches = false) :
    (step plan mgr s w).2.inputs = w.inputs := by
  cases s with
  | point p => simp only [step]; split <;> rfl
  | alloc n => rfl
  | write b => cases b <;> simp_all [step, Step.touches]
  | fail e => rfl

theorem execSteps_inputs (plan : Plan) (mgr : Option Nat) (ss : List Step) (w : World)
    (h : ∀ s ∈ ss, s.touches = false) : (execSteps plan mgr ss w).2.inputs = w.inputs := by
  induction ss generalizing w with
  | nil => rfl
  | cons s ss ih =>
    have h1 := step_inputs plan mgr s w (h s List.mem_cons_self)
    unfold execSteps
    rcases hs : step plan mgr s w with ⟨_ | e, w'⟩
    · rw [hs] at h1; simp only
      rw [ih w' (fun s hs => h s (List.mem_cons_of_mem _ hs))]; exact h1
    · rw [hs] at h1; exact h1

/-- the trace only grows -/
def TraceSub (w w' : World) : Prop := ∀ p ∈ w.trace, p ∈ w'.trace

theorem TraceSub.refl (w : World) : TraceSub w w := fun _ h => h
theorem TraceSub.trans {a b c : World} (h1 : TraceSub a b) (h2 : TraceSub b c) : TraceSub a c :=
  fun p h => h2 p (h1 p h)

theorem step_trace (plan : Plan) (mgr : Option Nat) (s : Step) (w : World) :
    (step plan mgr s w).2.trace = w.trace ++ s.pts := by
  cases s with
  | point p => simp only [step, Step.pts]; split <;> rfl
  | alloc n => simp [step, Step.pts, allocSegs]
  | write b => simp only [step, Step.pts]; split <;> simp
  | fail e => simp [step, Step.pts]

theorem execSteps_traceSub (plan : Plan) (mgr : Option Nat) (ss : List Step) (w : World) :
    TraceSub w (execSteps plan mgr ss w).2 := by
  induction ss generalizing w with
  | nil => exact TraceSub.refl _
  | cons s ss ih =>
    have h1 := step_trace plan mgr s w
    unfold execSteps
    rcases hs : step plan mgr s w with ⟨_ | e, w'⟩
    · rw [hs] at h1; simp only at h1 ⊢
      refine TraceSub.trans ?_ (ih w')
      intro p hp; rw [h1]; exact List.mem_append_left _ hp
    · rw [hs] at h1; simp only at h1 ⊢
      intro p hp; rw [h1]; exact List.mem_append_left _ hp

/-- a block that ran to its end has logged every one of its points, in order -/
theorem execSteps_trace_of_none (plan : Plan) (mgr : Option Nat) (ss : List Step) (w : World)
    (h : (execSteps plan mgr ss w).1 = none) :
    (execSteps plan mgr ss w).2.trace = w.trace ++ ptsOf ss := by
  induction ss generalizing w with
  | nil => simp [execSteps, ptsOf]
  | cons s ss ih =>
    have h1 := step_trace plan mgr s w
    unfold execSteps at h ⊢
    rcases hs : step plan mgr s w with ⟨_ | e, w'⟩
    · rw [hs] at h1 h; simp only at h1 h ⊢
      rw [ih w' h, h1]; simp [ptsOf, List.append_assoc]
    · rw [hs] at h; simp at h

/-- in a block without explicit `fail`, raising is exactly hitting a planned point -/
theorem any_bad_iff (plan : Plan) (ss : List Step) (hnf : ∀ s ∈ ss, ∀ e, s ≠ .fail e) :
    (∃ s ∈ ss, s.bad plan = true) ↔ ∃ p ∈ ptsOf ss, p ∈ plan := by
  constructor
  · rintro ⟨s, hs, hb⟩
    cases s with
    | point p =>
      refine ⟨p, ?_, by simpa [Step.bad] using hb⟩
      simp only [ptsOf, List.mem_flatMap]
      exact ⟨.point p, hs, by simp [Step.pts]⟩
    | alloc n => simp [Step.bad] at hb
    | write b => simp [Step.bad] at hb
    | fail e => exact absurd rfl (hnf _ hs e)
  · rintro ⟨p, hp, hpl⟩
    simp only [ptsOf, List.mem_flatMap] at hp
    obtain ⟨s, hs, hps⟩ := hp
    cases s with
    | point q =>
      simp only [Step.pts, List.mem_singleton] at hps
      subst hps
      exact ⟨.point p, hs, by simpa [Step.bad] using hpl⟩
    | alloc n => simp [Step.pts] at hps
    | write b => simp [Step.pts] at hps
    | fail e => simp [Step.pts] at hps

/-! ## the pool -/

theorem extract_mem {α : Type} (i : Nat) (x : α) (xs : List α) (a : α) :
    a ∈ x :: xs ↔ a = (extract i x xs).1 ∨ a ∈ (extract i x xs).2 := by
  induction i generalizing x xs with
  | zero => simp [extract]
  | succ i ih =>
    cases xs with
    | nil => simp [extract]
    | cons y ys =>
      simp only [extract]
      have := ih y ys
      simp only [List.mem_cons] at this ⊢
      constructor
      · rintro (h | h)
        · exact Or.inr (Or.inl h)
        · rcases this.mp h with h | h
          · exact Or.inl h
          · exact Or.inr (Or.inr h)
      · rintro (h | h | h)
        · exact Or.inr (this.mpr (Or.inl h))
        · exact Or.inl h
        · exact Or.inr (this.mpr (Or.inr h))

theorem extract_length {α : Type} (i : Nat) (x : α) (xs : List α) :
    (extract i x xs).2.length = xs.length := by
  induction i generalizing x xs with
  | zero => simp [extract]
  | succ i ih =>
    cases xs with
    | nil => simp [extract]
    | cons y ys => simp [extract, ih y ys]

/-- the schedule permutes the tasks: nothing is lost, nothing invented -/
theorem pickOrder_mem {α : Type} (picks : List Nat) (l : List α) (a : α) :
    a ∈ pickOrder picks l ↔ a ∈ l := by
  induction picks generalizing l with
  | nil => cases l <;> simp [pickOrder]
  | cons k ks ih =>
    cases l with
    | nil => simp [pickOrder]
    | cons x xs =>
      simp only [pickOrder]
      rw [extract_mem (k % (xs.length + 1)) x xs a, List.mem_cons, ih]

theorem pickOrder_length {α : Type} (picks : List Nat) (l : List α) :
    (pickOrder picks l).length = l.length := by
  induction picks generalizing l with
  | nil => cases l <;> simp [pickOrder]
  | cons k ks ih =>
    cases l with
    | nil => simp [pickOrder]
    | cons x xs => simp [pickOrder, ih, extract_length]

theorem poolOrder_mem {α : Type} (n : Nat) (picks : List Nat) (l : List α) (a : α) :
    a ∈ poolOrder n picks l ↔ a ∈ l := by
  unfold poolOrder; split
  · rfl
  · exact pickOrder_mem picks l a

section pool
variable {τ : Type} (full : τ → World → Option Exc × World) (part : τ → World → World) (njobs : Nat)

/-- the pool returns normally exactly when every task does (given that whether a task raises does not
depend on the world it starts in) -/
theorem runPool_fst_none (bad : τ → Bool) (hfull : ∀ t w, (full t w).1 = none ↔ bad t = false)
    (ts : List τ) (w : World) :
    (runPool full part njobs ts w).1 = none ↔ ∀ t ∈ ts, bad t = false := by
  induction ts generalizing w with
  | nil => simp [runPool]
  | cons t rest ih =>
    have h := hfull t w
    unfold runPool
    rcases hf : full t w with ⟨_ | e, w'⟩
    · rw [hf] at h; simp only at h ⊢
      rw [ih w']; simp [h.mp trivial]
    · rw [hf] at h; simp only at h ⊢
      have : bad t ≠ false := fun hb => by simpa using h.mpr hb
      simp [this]

/-- what the pool raises was raised by one of its tasks -/
theorem runPool_some (ts : List τ) (w : World) (e : Exc)
    (h : (runPool full part njobs ts w).1 = some e) : ∃ t ∈ ts, ∃ w0, (full t w0).1 = some e := by
  induction ts generalizing w with
  | nil => simp [runPool] at h
  | cons t rest ih =>
    unfold runPool at h
    rcases hf : full t w with ⟨_ | e', w'⟩
    · rw [hf] at h; simp only at h
      obtain ⟨t', ht', w0, hw0⟩ := ih w' h
      exact ⟨t', List.mem_cons_of_mem _ ht', w0, hw0⟩
    · rw [hf] at h; simp only at h
      exact ⟨t, List.mem_cons_self, w, by rw [hf, ← h]⟩

theorem foldl_part_inv (I : World → Prop) (hpart : ∀ t w, I w → I (part t w)) (l : List τ) (w : World)
    (hw : I w) : I (l.foldl (fun w s => part s w) w) := by
  induction l generalizing w with
  | nil => exact hw
  | cons s l ih => exact ih _ (hpart s w hw)

/-- an invariant kept by complete tasks and by the torn-down ones is kept by the pool -/
theorem runPool_inv (I : World → Prop) (hfull : ∀ t w, I w → I (full t w).2)
    (hpart : inFlight njobs = 0 ∨ ∀ t w, I w → I (part t w)) (ts : List τ) (w : World) (hw : I w) :
    I (runPool full part njobs ts w).2 := by
  induction ts generalizing w with
  | nil => exact hw
  | cons t rest ih =>
    have h := hfull t w hw
    unfold runPool
    rcases hf : full t w with ⟨_ | e, w'⟩
    · rw [hf] at h; exact ih w' h
    · rw [hf] at h; simp only at h ⊢
      rcases hpart with h0 | hp
      · rw [h0]; simpa using h
      · exact foldl_part_inv part I hp _ _ h

/-- when the pool returned normally no task was torn down: only complete tasks matter -/
theorem runPool_inv_of_none (I : World → Prop) (hfull : ∀ t w, I w → I (full t w).2)
    (ts : List τ) (w : World) (hw : I w) (hn : (runPool full part njobs ts w).1 = none) :
    I (runPool full part njobs ts w).2 := by
  induction ts generalizing w with
  | nil => exact hw
  | cons t rest ih =>
    have h := hfull t w hw
    unfold runPool at hn ⊢
    rcases hf : full t w with ⟨_ | e, w'⟩
    · rw [hf] at h hn; exact ih w' h hn
    · rw [hf] at hn; simp at hn

/-- a pool that returned normally ran every task to its end: all their points are in the trace -/
theorem runPool_trace_of_none (pts : τ → List Pos)
    (hfull : ∀ t w, TraceSub w (full t w).2 ∧ ((full t w).1 = none → ∀ p ∈ pts t, p ∈ (full t w).2.trace))
    (ts : List τ) (w : World) (hn : (runPool full part njobs ts w).1 = none) :
    TraceSub w (runPool full part njobs ts w).2 ∧
      ∀ t ∈ ts, ∀ p ∈ pts t, p ∈ (runPool full part njobs ts w).2.trace := by
  induction ts generalizing w with
  | nil => exact ⟨TraceSub.refl _, by simp⟩
  | cons t rest ih =>
    have h := hfull t w
    unfold runPool at hn ⊢
    rcases hf : full t w with ⟨_ | e, w'⟩
    · rw [hf] at h hn; simp only at h hn ⊢
      obtain ⟨hs, hp⟩ := ih w' hn
      refine ⟨h.1.trans hs, ?_⟩
      intro t' ht' p hpp
      rcases List.mem_cons.mp ht' with rfl | ht'
      · exact hs p (h.2 trivial p hpp)
      · exact hp t' ht' p hpp
    · rw [hf] at hn; simp at hn

end pool

/-! ## the handler -/

theorem handler_snd (amb : Option Exc) (id : Nat) (body : World → Option Exc × World) (w : World) :
    (handler amb id body w).2 = release id (body w).2 := by
  unfold handler
  dsimp only
  split
  · rfl
  · split <;> rfl

theorem handler_fst (amb : Option Exc) (id : Nat) (body : World → Option Exc × World) (w : World) :
    (handler amb id body w).1 =
      match (body w).1 with
      | some e => some (.wrapped e)
      | none => amb.map .wrapped := by
  unfold handler
  dsimp only
  split
  · rename_i h; rw [h]
  · rename_i h; rw [h]; split <;> rfl

theorem handler_fst_none (amb : Option Exc) (id : Nat) (body : World → Option Exc × World) (w : World) :
    (handler amb id body w).1 = none ↔ (body w).1 = none ∧ amb = none := by
  rw [handler_fst]
  rcases (body w).1 with _ | e
  · cases amb <;> simp
  · simp

/-- leaving the `with SharedMemoryManager()` block removes exactly what the body allocated -/
theorem handler_live (amb : Option Exc) (id : Nat) (body : World → Option Exc × World) (w : World)
    (hbody : LiveExt (some id) w (body w).2) (hw : ∀ s ∈ w.live, s.mgr ≠ some id) :
    (handler amb id body w).2.live = w.live := by
  obtain ⟨l, hl, ho⟩ := hbody
  rw [handler_snd]
  simp only [release, hl, List.filter_append]
  have h1 : w.live.filter (fun s => s.mgr != some id) = w.live := by
    rw [List.filter_eq_self]; intro s hs; simpa using hw s hs
  have h2 : l.filter (fun s => s.mgr != some id) = [] := by
    rw [List.filter_eq_nil_iff]; intro s hs; simp [ho s hs]
  rw [h1, h2, List.append_nil]

theorem handler_inputs (amb : Option Exc) (id : Nat) (body : World → Option Exc × World) (w : World) :
    (handler amb id body w).2.inputs = (body w).2.inputs := by
  rw [handler_snd]; rfl

theorem handler_trace (amb : Option Exc) (id : Nat) (body : World → Option Exc × World) (w : World) :
    (handler amb id body w).2.trace = (body w).2.trace := by
  rw [handler_snd]; rfl

/-- the handler wraps whatever it lets out exactly once -/
theorem handler_some (amb : Option Exc) (id : Nat) (body : World → Option Exc × World) (w : World) (e : Exc)
    (h : (handler amb id body w).1 = some e) :
    (∃ e0, (body w).1 = some e0 ∧ e = .wrapped e0) ∨ ((body w).1 = none ∧ ∃ a, amb = some a ∧ e = .wrapped a) := by
  rw [handler_fst] at h
  rcases hb : (body w).1 with _ | e0
  · rw [hb] at h
    cases amb with
    | none => simp at h
    | some a => simp only [Option.map_some, Option.some.injEq] at h; exact Or.inr ⟨rfl, a, rfl, h.symm⟩
  · rw [hb] at h; simp only [Option.some.injEq] at h
    exact Or.inl ⟨e0, rfl, h.symm⟩

/-! ## chunks of rotations -/

theorem mem_chunk (R n j g : Nat) :
    g ∈ chunk R n j ↔ j * (R / n) ≤ g ∧ g < (if j + 1 = n then R else j * (R / n) + R / n) := by
  simp only [chunk, List.mem_map, List.mem_range]
  constructor
  · rintro ⟨i, hi, rfl⟩; omega
  · rintro ⟨h1, h2⟩; exact ⟨g - j * (R / n), by omega, by omega⟩

/-- `_split_rotations_on_jobs` loses no rotation: every rotation index is in the chunk of some job -/
theorem chunk_cover (R n g : Nat) (hn : 1 ≤ n) (hg : g < R) : ∃ j < n, g ∈ chunk R n j := by
  by_cases hper : R / n = 0
  · refine ⟨n - 1, by omega, ?_⟩
    rw [mem_chunk, hper]
    have : n - 1 + 1 = n := by omega
    simp [this, hg]
  · have hpos : 0 < R / n := Nat.pos_of_ne_zero hper
    by_cases hlt : g / (R / n) < n - 1
    · refine ⟨g / (R / n), by omega, ?_⟩
      rw [mem_chunk]
      have hne : ¬ (g / (R / n) + 1 = n) := by omega
      simp only [hne, if_false]
      refine ⟨Nat.div_mul_le_self g (R / n), ?_⟩
      have := Nat.lt_div_mul_add (a := g) hpos
      linarith
    · refine ⟨n - 1, by omega, ?_⟩
      rw [mem_chunk]
      have : n - 1 + 1 = n := by omega
      simp only [this, if_true]
      refine ⟨?_, hg⟩
      have h1 : (n - 1) * (R / n) ≤ g / (R / n) * (R / n) := Nat.mul_le_mul_right _ (by omega)
      exact le_trans h1 (Nat.div_mul_le_self g (R / n))

/-- and no rotation is scored twice -/
theorem chunk_disjoint (R n i j g : Nat) (hi : i < n) (hj : j < n) (h1 : g ∈ chunk R n i)
    (h2 : g ∈ chunk R n j) : i = j := by
  rw [mem_chunk] at h1 h2
  by_contra hne
  rcases Nat.lt_or_gt_of_ne hne with hlt | hlt
  · have hne' : ¬ (i + 1 = n) := by omega
    simp only [hne', if_false] at h1
    have : (i + 1) * (R / n) ≤ j * (R / n) := Nat.mul_le_mul_right _ hlt
    have e : (i + 1) * (R / n) = i * (R / n) + R / n := by ring
    omega
  · have hne' : ¬ (j + 1 = n) := by omega
    simp only [hne', if_false] at h2
    have : (j + 1) * (R / n) ≤ i * (R / n) := Nat.mul_le_mul_right _ hlt
    have e : (j + 1) * (R / n) = j * (R / n) + R / n := by ring
    omega

theorem enumFrom_map_snd {α : Type} (n : Nat) (l : List α) : (enumFrom n l).map (·.2) = l := by
  induction l generalizing n with
  | nil => rfl
  | cons x xs ih => simp [enumFrom, ih]

theorem enumFrom_flatMap_snd {α : Type} (n : Nat) (l : List (List α)) :
    (enumFrom n l).flatMap (·.2) = l.flatten := by
  induction l generalizing n with
  | nil => rfl
  | cons x xs ih => simp [enumFrom, ih]

theorem mem_enumFrom_snd {α : Type} (n : Nat) (l : List α) (p : Nat × α) (h : p ∈ enumFrom n l) : p.2 ∈ l := by
  rw [← enumFrom_map_snd n l]; exact List.mem_map_of_mem h

/-! ## `scan` -/

theorem execSteps_live_noalloc (plan : Plan) (mgr : Option Nat) (ss : List Step) (w : World)
    (h : ∀ s ∈ ss, ∀ n, s ≠ .alloc n) : (execSteps plan mgr ss w).2.live = w.live := by
  induction ss generalizing w with
  | nil => rfl
  | cons s ss ih =>
    have h1 : (step plan mgr s w).2.live = w.live := by
      cases s with
      | point p => simp only [step]; split <;> rfl
      | alloc n => exact absurd rfl (h _ List.mem_cons_self n)
      | write b => simp only [step]; split <;> rfl
      | fail e => rfl
    unfold execSteps
    rcases hs : step plan mgr s w with ⟨_ | e, w'⟩
    · rw [hs] at h1; simp only
      rw [ih w' (fun s hs => h s (List.mem_cons_of_mem _ hs))]; exact h1
    · rw [hs] at h1; exact h1

/-- the steps of a block, in the world-independent sense: none of them raises -/
def StepsOK (plan : Plan) (ss : List Step) : Prop := ∀ s ∈ ss, s.bad plan = false

def BodyOK (cfg : Cfg) (plan : Plan) (t : Nat) : Prop :=
  StepsOK plan (preSteps cfg t) ∧ cfg.inner ≠ 0 ∧ (∀ j ∈ jobsOf cfg t, StepsOK plan j.2) ∧
    StepsOK plan (postSteps cfg t)

theorem jobFull_fst_none (plan : Plan) (t : Nat) (j : Nat × List Step) (w : World) :
    (jobFull plan t j w).1 = none ↔ (j.2.any (·.bad plan)) = false := by
  unfold jobFull
  rw [execSteps_fst_none, List.any_eq_false]
  simp

theorem scanBody_fst_none (cfg : Cfg) (plan : Plan) (ts : TileSched) (t : Nat) (w : World) :
    (scanBody cfg plan ts t w).1 = none ↔ BodyOK cfg plan t := by
  have hpre := execSteps_fst_none plan (some t) (preSteps cfg t) w
  unfold scanBody BodyOK StepsOK
  rcases hp : execSteps plan (some t) (preSteps cfg t) w with ⟨_ | e, w1⟩
  · rw [hp] at hpre; simp only at hpre ⊢
    have hpre' := hpre.mp trivial
    by_cases hi : cfg.inner = 0
    · simp [hi]
    · simp only [hi, if_false]
      have hpool := runPool_fst_none (jobFull plan t) (jobPart plan t ts) cfg.inner
        (fun j => j.2.any (·.bad plan)) (jobFull_fst_none plan t)
        (poolOrder cfg.inner ts.picks (jobsOf cfg t)) w1
      rcases hr : runPool (jobFull plan t) (jobPart plan t ts) cfg.inner
          (poolOrder cfg.inner ts.picks (jobsOf cfg t)) w1 with ⟨_ | e, w2⟩
      · rw [hr] at hpool; simp only at hpool ⊢
        have hj := hpool.mp trivial
        rw [execSteps_fst_none]
        constructor
        · intro hpost
          refine ⟨hpre', hi, ?_, hpost⟩
          intro j hj' s hs
          have := hj j ((poolOrder_mem _ _ _ _).mpr hj')
          rw [List.any_eq_false] at this
          simpa using this s hs
        · exact fun h => h.2.2.2
      · rw [hr] at hpool; simp only at hpool ⊢
        constructor
        · intro h; exact absurd h (by simp)
        · rintro ⟨_, _, hj, _⟩
          exfalso
          have : ∀ j ∈ poolOrder cfg.inner ts.picks (jobsOf cfg t), (j.2.any (·.bad plan)) = false := by
            intro j hj'
            rw [List.any_eq_false]
            intro s hs
            simpa using hj j ((poolOrder_mem _ _ _ _).mp hj') s hs
          simpa using hpool.mpr this
  · rw [hp] at hpre; simp only at hpre ⊢
    constructor
    · intro h; exact absurd h (by simp)
    · rintro ⟨h, _⟩; exact absurd (hpre.mpr h) (by simp)

theorem flatSteps_eq (cfg : Cfg) (t : Nat) :
    flatSteps cfg t = preSteps cfg t ++ ((List.range cfg.inner).map (jobSteps cfg t)).flatten ++ postSteps cfg t := by
  unfold flatSteps jobsOf
  rw [enumFrom_flatMap_snd]

theorem mem_jobsOf (cfg : Cfg) (t : Nat) (j : Nat × List Step) (h : j ∈ jobsOf cfg t) :
    ∃ i < cfg.inner, j.2 = jobSteps cfg t i := by
  have := mem_enumFrom_snd _ _ _ h
  obtain ⟨i, hi, he⟩ := List.mem_map.mp this
  exact ⟨i, List.mem_range.mp hi, he.symm⟩

theorem jobsOf_mem (cfg : Cfg) (t i : Nat) (hi : i < cfg.inner) : ∃ j ∈ jobsOf cfg t, j.2 = jobSteps cfg t i := by
  have h : jobSteps cfg t i ∈ (enumFrom 0 ((List.range cfg.inner).map (jobSteps cfg t))).map (·.2) := by
    rw [enumFrom_map_snd]; exact List.mem_map.mpr ⟨i, List.mem_range.mpr hi, rfl⟩
  obtain ⟨j, hj, he⟩ := List.mem_map.mp h
  exact ⟨j, hj, he⟩

/-- the body is fine exactly when no step of its sequentialised listing raises (and `n_jobs ≠ 0`) -/
theorem bodyOK_iff (cfg : Cfg) (plan : Plan) (t : Nat) :
    BodyOK cfg plan t ↔ cfg.inner ≠ 0 ∧ StepsOK plan (flatSteps cfg t) := by
  unfold BodyOK StepsOK
  rw [flatSteps_eq]
  constructor
  · rintro ⟨h1, h2, h3, h4⟩
    refine ⟨h2, ?_⟩
    intro s hs
    rcases List.mem_append.mp hs with hs | hs
    · rcases List.mem_append.mp hs with hs | hs
      · exact h1 s hs
      · obtain ⟨l, hl, hsl⟩ := List.mem_flatten.mp hs
        obtain ⟨i, hi, rfl⟩ := List.mem_map.mp hl
        obtain ⟨j, hj, he⟩ := jobsOf_mem cfg t i (List.mem_range.mp hi)
        exact h3 j hj s (he ▸ hsl)
    · exact h4 s hs
  · rintro ⟨h2, h⟩
    refine ⟨fun s hs => h s ?_, h2, ?_, fun s hs => h s ?_⟩
    · exact List.mem_append_left _ (List.mem_append_left _ hs)
    · intro j hj s hs
      obtain ⟨i, hi, he⟩ := mem_jobsOf cfg t j hj
      refine h s (List.mem_append_left _ (List.mem_append_right _ ?_))
      exact List.mem_flatten.mpr ⟨_, List.mem_map.mpr ⟨i, List.mem_range.mpr hi, rfl⟩, he ▸ hs⟩
    · exact List.mem_append_right _ hs

/-- the only kinds of steps a `scan` consists of -/
def Step.plain (c : Bool) (s : Step) : Prop := (∃ p, s = .point p) ∨ (∃ n, s = .alloc n) ∨ s = .write c

theorem allocSteps_plain (c : Bool) (t k0 n : Nat) : ∀ s ∈ allocSteps t k0 n, s.plain c := by
  intro s hs
  unfold allocSteps at hs
  obtain ⟨i, _, hi⟩ := List.mem_flatMap.mp hs
  simp only [List.mem_cons, List.not_mem_nil, or_false] at hi
  rcases hi with rfl | rfl
  · exact Or.inl ⟨_, rfl⟩
  · exact Or.inr (Or.inl ⟨_, rfl⟩)

theorem filterSteps_plain (cfg : Cfg) (t : Nat) : ∀ s ∈ filterSteps cfg t, s.plain cfg.copies := by
  intro s hs
  unfold filterSteps at hs
  rcases List.mem_append.mp hs with h | h
  · split at h
    · simp only [List.mem_cons, List.not_mem_nil, or_false] at h
      subst h; exact Or.inl ⟨_, rfl⟩
    · simp at h
  · split at h
    · simp only [List.mem_cons, List.not_mem_nil, or_false] at h
      subst h; exact Or.inl ⟨_, rfl⟩
    · simp at h

theorem preSteps_plain (cfg : Cfg) (t : Nat) : ∀ s ∈ preSteps cfg t, s.plain cfg.copies := by
  intro s hs
  unfold preSteps at hs
  rcases List.mem_append.mp hs with h | h
  · rcases List.mem_append.mp h with h | h
    · rcases List.mem_cons.mp h with rfl | h
      · exact Or.inl ⟨_, rfl⟩
      · exact filterSteps_plain cfg t s h
    · rcases List.mem_append.mp h with h | h
      · rcases List.mem_append.mp h with h | h
        · simp only [List.mem_cons, List.not_mem_nil, or_false] at h
          rcases h with rfl | rfl
          · exact Or.inl ⟨_, rfl⟩
          · exact Or.inr (Or.inr rfl)
        · exact allocSteps_plain _ _ _ _ s h
      · rcases List.mem_cons.mp h with rfl | h
        · exact Or.inl ⟨_, rfl⟩
        · exact allocSteps_plain _ _ _ _ s h
  · split at h
    · obtain ⟨k, _, hk⟩ := List.mem_flatMap.mp h
      unfold initSteps at hk
      rcases List.mem_cons.mp hk with rfl | hk
      · exact Or.inl ⟨_, rfl⟩
      · exact allocSteps_plain _ _ _ _ s hk
    · simp at h

theorem jobSteps_plain (cfg : Cfg) (t j : Nat) : ∀ s ∈ jobSteps cfg t j, s.plain cfg.copies := by
  intro s hs
  unfold jobSteps at hs
  rcases List.mem_cons.mp hs with rfl | h
  · exact Or.inl ⟨_, rfl⟩
  · obtain ⟨g, _, hg⟩ := List.mem_flatMap.mp h
    unfold rotSteps at hg
    rcases List.mem_cons.mp hg with rfl | hg
    · exact Or.inl ⟨_, rfl⟩
    · split at hg
      · simp only [List.mem_cons, List.not_mem_nil, or_false] at hg
        subst hg; exact Or.inl ⟨_, rfl⟩
      · simp at hg

theorem postSteps_plain (cfg : Cfg) (t : Nat) : ∀ s ∈ postSteps cfg t, s.plain cfg.copies := by
  intro s hs
  unfold postSteps at hs
  split at hs
  · rcases List.mem_append.mp hs with h | h
    · obtain ⟨k, _, hk⟩ := List.mem_flatMap.mp h
      unfold postJobSteps at hk
      rcases List.mem_append.mp hk with hk | hk
      · rcases List.mem_cons.mp hk with rfl | hk
        · exact Or.inl ⟨_, rfl⟩
        · exact allocSteps_plain _ _ _ _ s hk
      · simp only [List.mem_cons, List.not_mem_nil, or_false] at hk
        subst hk; exact Or.inl ⟨_, rfl⟩
    · simp only [List.mem_cons, List.not_mem_nil, or_false] at h
      subst h; exact Or.inl ⟨_, rfl⟩
  · simp at hs

theorem flatSteps_plain (cfg : Cfg) (t : Nat) : ∀ s ∈ flatSteps cfg t, s.plain cfg.copies := by
  intro s hs
  rw [flatSteps_eq] at hs
  rcases List.mem_append.mp hs with hs | hs
  · rcases List.mem_append.mp hs with hs | hs
    · exact preSteps_plain cfg t s hs
    · obtain ⟨l, hl, hsl⟩ := List.mem_flatten.mp hs
      obtain ⟨i, _, rfl⟩ := List.mem_map.mp hl
      exact jobSteps_plain cfg t i s hsl
  · exact postSteps_plain cfg t s hs

theorem flatSteps_nofail (cfg : Cfg) (t : Nat) : ∀ s ∈ flatSteps cfg t, ∀ e, s ≠ .fail e := by
  intro s hs e he
  subst he
  rcases flatSteps_plain cfg t _ hs with ⟨p, h⟩ | ⟨n, h⟩ | h <;> cases h

theorem bad_of_pt (plan : Plan) (ss : List Step) (p : Pos) (hp : p ∈ ptsOf ss) (hpl : p ∈ plan) :
    ∃ s ∈ ss, s.bad plan = true := by
  simp only [ptsOf, List.mem_flatMap] at hp
  obtain ⟨s, hs, hps⟩ := hp
  cases s with
  | point q =>
    simp only [Step.pts, List.mem_singleton] at hps
    subst hps
    exact ⟨.point p, hs, by simpa [Step.bad] using hpl⟩
  | alloc n => simp [Step.pts] at hps
  | write b => simp [Step.pts] at hps
  | fail e => simp [Step.pts] at hps

theorem stepsOK_of_no_planned_point (plan : Plan) (ss : List Step) (hnf : ∀ s ∈ ss, ∀ e, s ≠ .fail e)
    (h : ∀ p ∈ plan, p ∉ ptsOf ss) : StepsOK plan ss := by
  intro s hs
  by_contra hb
  have hb' : s.bad plan = true := by simpa using hb
  obtain ⟨p, hp, hpl⟩ := (any_bad_iff plan ss hnf).mp ⟨s, hs, hb'⟩
  exact h p hpl hp

/-! ### ledger, inputs, trace of `scan` -/

theorem scanBody_liveExt (cfg : Cfg) (plan : Plan) (ts : TileSched) (t : Nat) (w : World) :
    LiveExt (some t) w (scanBody cfg plan ts t w).2 := by
  have hpre := execSteps_liveExt plan (some t) (preSteps cfg t) w
  unfold scanBody
  rcases hp : execSteps plan (some t) (preSteps cfg t) w with ⟨_ | e, w1⟩
  · rw [hp] at hpre; simp only at hpre ⊢
    split
    · exact hpre
    · have hpool := runPool_inv (jobFull plan t) (jobPart plan t ts) cfg.inner (fun w' => LiveExt (some t) w w')
        (fun j w' h => h.trans (execSteps_liveExt plan (some t) j.2 w'))
        (Or.inr (fun j w' h => h.trans (execSteps_liveExt plan (some t) _ w')))
        (poolOrder cfg.inner ts.picks (jobsOf cfg t)) w1 hpre
      rcases hr : runPool (jobFull plan t) (jobPart plan t ts) cfg.inner
          (poolOrder cfg.inner ts.picks (jobsOf cfg t)) w1 with ⟨_ | e, w2⟩
      · rw [hr] at hpool; simp only at hpool ⊢
        exact hpool.trans (execSteps_liveExt plan (some t) _ w2)
      · rw [hr] at hpool; exact hpool
  · rw [hp] at hpre; exact hpre

theorem flatSteps_touches (cfg : Cfg) (t : Nat) (hc : cfg.copies = true) :
    ∀ s ∈ flatSteps cfg t, s.touches = false := by
  intro s hs
  rcases flatSteps_plain cfg t _ hs with ⟨p, rfl⟩ | ⟨n, rfl⟩ | rfl
  · rfl
  · rfl
  · rw [hc]; rfl

theorem scanBody_inputs (cfg : Cfg) (plan : Plan) (ts : TileSched) (t : Nat) (w : World)
    (hc : cfg.copies = true) : (scanBody cfg plan ts t w).2.inputs = w.inputs := by
  have hall := flatSteps_touches cfg t hc
  rw [flatSteps_eq] at hall
  have h1 : ∀ s ∈ preSteps cfg t, s.touches = false :=
    fun s hs => hall s (List.mem_append_left _ (List.mem_append_left _ hs))
  have h3 : ∀ s ∈ postSteps cfg t, s.touches = false := fun s hs => hall s (List.mem_append_right _ hs)
  have h2 : ∀ j ∈ jobsOf cfg t, ∀ s ∈ j.2, s.touches = false := by
    intro j hj s hs
    obtain ⟨i, hi, he⟩ := mem_jobsOf cfg t j hj
    refine hall s (List.mem_append_left _ (List.mem_append_right _ ?_))
    exact List.mem_flatten.mpr ⟨_, List.mem_map.mpr ⟨i, List.mem_range.mpr hi, rfl⟩, he ▸ hs⟩
  have hpre := execSteps_inputs plan (some t) (preSteps cfg t) w h1
  unfold scanBody
  rcases hp : execSteps plan (some t) (preSteps cfg t) w with ⟨_ | e, w1⟩
  · rw [hp] at hpre; simp only at hpre ⊢
    split
    · exact hpre
    · -- the invariant has to be carried only over jobs of this scan
      have hpool : ∀ (l : List (Nat × List Step)), (∀ j ∈ l, j ∈ jobsOf cfg t) → ∀ w', w'.inputs = w.inputs →
          (runPool (jobFull plan t) (jobPart plan t ts) cfg.inner l w').2.inputs = w.inputs := by
        intro l
        induction l with
        | nil => intro _ w' h; exact h
        | cons j rest ih =>
          intro hl w' hw'
          have hj := hl j List.mem_cons_self
          have hf : (jobFull plan t j w').2.inputs = w'.inputs := execSteps_inputs plan (some t) j.2 w' (h2 j hj)
          unfold runPool
          rcases hjf : jobFull plan t j w' with ⟨_ | e, w''⟩
          · rw [hjf] at hf; simp only at hf ⊢
            exact ih (fun j' hj' => hl j' (List.mem_cons_of_mem _ hj')) w'' (hf.trans hw')
          · rw [hjf] at hf; simp only at hf ⊢
            have : ∀ (l' : List (Nat × List Step)), (∀ j ∈ l', j ∈ jobsOf cfg t) → ∀ w0 : World, w0.inputs = w.inputs →
                (l'.foldl (fun w s => jobPart plan t ts s w) w0).inputs = w.inputs := by
              intro l'
              induction l' with
              | nil => intro _ w0 h; exact h
              | cons s l' ih' =>
                intro hl' w0 h0
                refine ih' (fun j hj => hl' j (List.mem_cons_of_mem _ hj)) _ ?_
                unfold jobPart
                rw [execSteps_inputs plan (some t) _ w0
                  (fun x hx => h2 s (hl' s List.mem_cons_self) x (List.mem_of_mem_take hx))]
                exact h0
            exact this _ (fun j' hj' => hl j' (List.mem_cons_of_mem _ (List.mem_of_mem_take hj'))) w'' (hf.trans hw')
      have hr := hpool (poolOrder cfg.inner ts.picks (jobsOf cfg t))
        (fun j hj => (poolOrder_mem _ _ _ _).mp hj) w1 hpre
      rcases hrp : runPool (jobFull plan t) (jobPart plan t ts) cfg.inner
          (poolOrder cfg.inner ts.picks (jobsOf cfg t)) w1 with ⟨_ | e, w2⟩
      · rw [hrp] at hr; simp only at hr ⊢
        rw [execSteps_inputs plan (some t) _ w2 h3]; exact hr
      · rw [hrp] at hr; exact hr
  · rw [hp] at hpre; exact hpre

theorem jobFull_trace (plan : Plan) (t : Nat) (j : Nat × List Step) (w : World) :
    TraceSub w (jobFull plan t j w).2 ∧
      ((jobFull plan t j w).1 = none → ∀ p ∈ ptsOf j.2, p ∈ (jobFull plan t j w).2.trace) := by
  refine ⟨execSteps_traceSub _ _ _ _, ?_⟩
  intro h p hp
  unfold jobFull at h ⊢
  rw [execSteps_trace_of_none _ _ _ _ h]
  exact List.mem_append_right _ hp

theorem scanBody_traceSub (cfg : Cfg) (plan : Plan) (ts : TileSched) (t : Nat) (w : World) :
    TraceSub w (scanBody cfg plan ts t w).2 := by
  have hpre := execSteps_traceSub plan (some t) (preSteps cfg t) w
  unfold scanBody
  rcases hp : execSteps plan (some t) (preSteps cfg t) w with ⟨_ | e, w1⟩
  · rw [hp] at hpre; simp only at hpre ⊢
    split
    · exact hpre
    · have hpool := runPool_inv (jobFull plan t) (jobPart plan t ts) cfg.inner (fun w' => TraceSub w w')
        (fun j w' h => h.trans (execSteps_traceSub plan (some t) j.2 w'))
        (Or.inr (fun j w' h => h.trans (execSteps_traceSub plan (some t) _ w')))
        (poolOrder cfg.inner ts.picks (jobsOf cfg t)) w1 hpre
      rcases hr : runPool (jobFull plan t) (jobPart plan t ts) cfg.inner
          (poolOrder cfg.inner ts.picks (jobsOf cfg t)) w1 with ⟨_ | e, w2⟩
      · rw [hr] at hpool; simp only at hpool ⊢
        exact hpool.trans (execSteps_traceSub plan (some t) _ w2)
      · rw [hr] at hpool; exact hpool
  · rw [hp] at hpre; exact hpre

/-- a `scan` body that ran to its end has reached every one of its program points -/
theorem scanBody_trace_of_none (cfg : Cfg) (plan : Plan) (ts : TileSched) (t : Nat) (w : World)
    (h : (scanBody cfg plan ts t w).1 = none) :
    ∀ p ∈ ptsOf (flatSteps cfg t), p ∈ (scanBody cfg plan ts t w).2.trace := by
  have hpre := execSteps_trace_of_none plan (some t) (preSteps cfg t) w
  unfold scanBody at h ⊢
  rcases hp : execSteps plan (some t) (preSteps cfg t) w with ⟨_ | e, w1⟩
  · rw [hp] at hpre h; simp only at hpre h ⊢
    have hpre' := hpre trivial
    by_cases hi : cfg.inner = 0
    · simp [hi] at h
    · simp only [hi, if_false] at h ⊢
      have hpool := runPool_trace_of_none (jobFull plan t) (jobPart plan t ts) cfg.inner (fun j => ptsOf j.2)
        (jobFull_trace plan t) (poolOrder cfg.inner ts.picks (jobsOf cfg t)) w1
      rcases hr : runPool (jobFull plan t) (jobPart plan t ts) cfg.inner
          (poolOrder cfg.inner ts.picks (jobsOf cfg t)) w1 with ⟨_ | e, w2⟩
      · rw [hr] at hpool h; simp only at hpool h ⊢
        obtain ⟨hsub, hjobs⟩ := hpool trivial
        have hpost := execSteps_trace_of_none plan (some t) (postSteps cfg t) w2 h
        have hsub2 := execSteps_traceSub plan (some t) (postSteps cfg t) w2
        intro p hp'
        rw [flatSteps_eq] at hp'
        simp only [ptsOf, List.flatMap_append, List.mem_append] at hp'
        rcases hp' with (hp' | hp') | hp'
        · apply hsub2; apply hsub; rw [hpre']; exact List.mem_append_right _ hp'
        · apply hsub2
          obtain ⟨s, hs, hps⟩ := List.mem_flatMap.mp hp'
          obtain ⟨l, hl, hsl⟩ := List.mem_flatten.mp hs
          obtain ⟨i, hi', rfl⟩ := List.mem_map.mp hl
          obtain ⟨j, hj, he⟩ := jobsOf_mem cfg t i (List.mem_range.mp hi')
          refine hjobs j ((poolOrder_mem _ _ _ _).mpr hj) p ?_
          rw [he]; exact List.mem_flatMap.mpr ⟨s, hsl, hps⟩
        · rw [hpost]; exact List.mem_append_right _ hp'
      · rw [hr] at h; simp at h
  · rw [hp] at h; simp at h

/-- what the body of a `scan` raises is a planned fault at one of its own points, or the `n_jobs = 0` error -/
theorem scanBody_some (cfg : Cfg) (plan : Plan) (ts : TileSched) (t : Nat) (w : World) (e0 : Exc)
    (hb : (scanBody cfg plan ts t w).1 = some e0) :
    (∃ p ∈ plan, p ∈ ptsOf (flatSteps cfg t) ∧ e0 = .fault p) ∨ e0 = .badArg := by
  unfold scanBody at hb
  rcases hp : execSteps plan (some t) (preSteps cfg t) w with ⟨_ | e1, w1⟩
  · rw [hp] at hb; simp only at hb
    by_cases hi : cfg.inner = 0
    · simp only [hi, if_true, Option.some.injEq] at hb; exact Or.inr hb.symm
    · simp only [hi, if_false] at hb
      rcases hr : runPool (jobFull plan t) (jobPart plan t ts) cfg.inner
          (poolOrder cfg.inner ts.picks (jobsOf cfg t)) w1 with ⟨_ | e2, w2⟩
      · rw [hr] at hb; simp only at hb
        rcases execSteps_some _ _ _ _ _ hb with ⟨p, hps, hpl, rfl⟩ | hf
        · refine Or.inl ⟨p, hpl, ?_, rfl⟩
          rw [flatSteps_eq]
          simp only [ptsOf, List.flatMap_append, List.mem_append]
          exact Or.inr (List.mem_flatMap.mpr ⟨_, hps, by simp [Step.pts]⟩)
        · exact absurd rfl (flatSteps_nofail cfg t _ (by
            rw [flatSteps_eq]; exact List.mem_append_right _ hf) e0)
      · rw [hr] at hb; simp only [Option.some.injEq] at hb
        subst hb
        have hr' : (runPool (jobFull plan t) (jobPart plan t ts) cfg.inner
          (poolOrder cfg.inner ts.picks (jobsOf cfg t)) w1).1 = some e2 := by rw [hr]
        obtain ⟨j, hj, w0, hj0⟩ := runPool_some _ _ _ _ _ _ hr'
        have hj' := (poolOrder_mem _ _ _ _).mp hj
        obtain ⟨i, hi', he⟩ := mem_jobsOf cfg t j hj'
        have hmem : ∀ s ∈ j.2, s ∈ flatSteps cfg t := by
          intro s hs
          rw [flatSteps_eq]
          refine List.mem_append_left _ (List.mem_append_right _ ?_)
          exact List.mem_flatten.mpr ⟨_, List.mem_map.mpr ⟨i, List.mem_range.mpr hi', rfl⟩, he ▸ hs⟩
        rcases execSteps_some _ _ _ _ _ hj0 with ⟨p, hps, hpl, rfl⟩ | hf
        · refine Or.inl ⟨p, hpl, ?_, rfl⟩
          exact List.mem_flatMap.mpr ⟨_, hmem _ hps, by simp [Step.pts]⟩
        · exact absurd rfl (flatSteps_nofail cfg t _ (hmem _ hf) e2)
  · rw [hp] at hb; simp only [Option.some.injEq] at hb
    subst hb
    have hp' : (execSteps plan (some t) (preSteps cfg t) w).1 = some e1 := by rw [hp]
    rcases execSteps_some _ _ _ _ _ hp' with ⟨p, hps, hpl, rfl⟩ | hf
    · refine Or.inl ⟨p, hpl, ?_, rfl⟩
      rw [flatSteps_eq]
      simp only [ptsOf, List.flatMap_append, List.mem_append]
      exact Or.inl (Or.inl (List.mem_flatMap.mpr ⟨_, hps, by simp [Step.pts]⟩))
    · exact absurd rfl (flatSteps_nofail cfg t _ (by
        rw [flatSteps_eq]; exact List.mem_append_left _ (List.mem_append_left _ hf)) e1)

/-! ## tiles of `scan_subsets` -/

def TileOK (cfg : Cfg) (plan : Plan) (amb : Option Exc) (t : Nat) : Prop :=
  (⟨.subset, t, 0⟩ : Pos) ∉ plan ∧ BodyOK cfg plan t ∧ ambientFor cfg amb = none

theorem tileFull_fst_none (cfg : Cfg) (plan : Plan) (amb : Option Exc) (sch : Sched) (t : Nat) (w : World) :
    (tileFull cfg plan amb sch t w).1 = none ↔ TileOK cfg plan amb t := by
  unfold tileFull TileOK
  by_cases hs : (⟨.subset, t, 0⟩ : Pos) ∈ plan
  · have : plan.contains (⟨.subset, t, 0⟩ : Pos) = true := by simpa using hs
    simp [execSteps, step, hs]
  · have : plan.contains (⟨.subset, t, 0⟩ : Pos) = false := by simpa using hs
    simp only [execSteps, step, this, Bool.false_eq_true, if_false]
    rw [handler_fst_none, scanBody_fst_none]
    simp [hs]

theorem tileFull_fst_none' (cfg : Cfg) (plan : Plan) (amb : Option Exc) (sch : Sched)
    (bad : Nat → Bool) (hb : ∀ t, bad t = false ↔ TileOK cfg plan amb t) (t : Nat) (w : World) :
    (tileFull cfg plan amb sch t w).1 = none ↔ bad t = false := by
  rw [tileFull_fst_none, hb]


/-- membership in the list of all program points -/
theorem mem_allPoints (cfg : Cfg) (p : Pos) :
    p ∈ allPoints cfg ↔
      (∃ t < cfg.ntiles, p = ⟨.subset, t, 0⟩ ∨ p ∈ ptsOf (flatSteps cfg t)) ∨ p ∈ ptsOf (outerPost cfg) := by
  unfold allPoints
  simp only [List.mem_append, List.mem_flatMap, List.mem_range, List.mem_cons]


theorem tileFull_trace (cfg : Cfg) (plan : Plan) (amb : Option Exc) (sch : Sched) (t : Nat) (w : World) :
    TraceSub w (tileFull cfg plan amb sch t w).2 ∧
      ((tileFull cfg plan amb sch t w).1 = none →
        ∀ p ∈ (⟨.subset, t, 0⟩ : Pos) :: ptsOf (flatSteps cfg t), p ∈ (tileFull cfg plan amb sch t w).2.trace) := by
  have hsub := execSteps_traceSub plan none [.point ⟨.subset, t, 0⟩] w
  have htr := execSteps_trace_of_none plan none [.point ⟨.subset, t, 0⟩] w
  unfold tileFull
  rcases hs : execSteps plan none [.point ⟨.subset, t, 0⟩] w with ⟨_ | e, w1⟩
  · rw [hs] at hsub htr; simp only at hsub htr ⊢
    have hb := scanBody_traceSub cfg plan (sch.tiles.getD t {}) t w1
    refine ⟨?_, ?_⟩
    · intro p hp; rw [handler_trace]; exact hb p (hsub p hp)
    · intro hn p hp
      rw [handler_fst_none] at hn
      rw [handler_trace]
      rcases List.mem_cons.mp hp with rfl | hp
      · apply hb; rw [htr trivial]; simp [ptsOf, Step.pts]
      · exact scanBody_trace_of_none cfg plan _ t w1 hn.1 p hp
  · rw [hs] at hsub; simp only at hsub ⊢
    exact ⟨hsub, fun h => by simp at h⟩


theorem tileFull_live (cfg : Cfg) (plan : Plan) (amb : Option Exc) (sch : Sched) (t : Nat) (w : World)
    (hw : ∀ s ∈ w.live, s.mgr = none) : (tileFull cfg plan amb sch t w).2.live = w.live := by
  have hl := execSteps_live_noalloc plan none [.point ⟨.subset, t, 0⟩] w (by simp)
  unfold tileFull
  rcases hs : execSteps plan none [.point ⟨.subset, t, 0⟩] w with ⟨_ | e, w1⟩
  · rw [hs] at hl; simp only at hl ⊢
    rw [handler_live _ _ _ _ (scanBody_liveExt cfg plan _ t w1), hl]
    intro s hs'; rw [hl] at hs'; rw [hw s hs']; simp
  · rw [hs] at hl; exact hl

theorem outerPost_live (cfg : Cfg) (plan : Plan) (w : World) :
    (execSteps plan none (outerPost cfg) w).2.live = w.live := by
  apply execSteps_live_noalloc
  intro s hs n he
  unfold outerPost at hs
  split at hs
  · simp only [List.mem_cons, List.not_mem_nil, or_false] at hs; rw [hs] at he; cases he
  · simp at hs


theorem tileFull_inputs (cfg : Cfg) (plan : Plan) (amb : Option Exc) (sch : Sched) (t : Nat) (w : World)
    (hc : cfg.copies = true) : (tileFull cfg plan amb sch t w).2.inputs = w.inputs := by
  have hl := execSteps_inputs plan none [.point ⟨.subset, t, 0⟩] w (by simp [Step.touches])
  unfold tileFull
  rcases hs : execSteps plan none [.point ⟨.subset, t, 0⟩] w with ⟨_ | e, w1⟩
  · rw [hs] at hl; simp only at hl ⊢
    rw [handler_inputs, scanBody_inputs cfg plan _ t w1 hc, hl]
  · rw [hs] at hl; exact hl

theorem tilePart_inputs (cfg : Cfg) (plan : Plan) (amb : Option Exc) (pol : Policy) (sch : Sched) (t : Nat)
    (w : World) (hc : cfg.copies = true) : (tilePart cfg plan amb pol sch t w).inputs = w.inputs := by
  unfold tilePart
  cases pol with
  | drain => exact tileFull_inputs cfg plan amb sch t w hc
  | kill =>
    simp only
    have h1 := execSteps_inputs plan none [.point ⟨.subset, t, 0⟩] w (by simp [Step.touches])
    have h2 := execSteps_inputs plan (some t) ((flatSteps cfg t).take (sch.progress.getD t {}).steps)
      (execSteps plan none [.point ⟨.subset, t, 0⟩] w).2
      (fun s hs => flatSteps_touches cfg t hc s (List.mem_of_mem_take hs))
    split
    · show (release t _).inputs = _
      simp only [release]; rw [h2, h1]
    · rw [h2, h1]


end Pm.C16
