import PytmeModel.Proofs.C12

/-! Helper lemmas for the second part of C12 (bins, per-tilt wedge, wedge tail, tilt stacks). -/
namespace Pm.C12

theorem Arr.ofFn_congr {α : Type} (shape : List Nat) (f g : List Nat → α)
    (h : ∀ idx, inShape shape idx = true → f idx = g idx) : Arr.ofFn shape f = Arr.ofFn shape g := by
  unfold Arr.ofFn
  congr 1
  congr 1
  funext k
  exact h _ (inShape_unflat shape k.val k.isLt)


theorem foldl_max_ge : ∀ (l : List Nat) (a : Nat), a ≤ l.foldl max a ∧ ∀ n ∈ l, n ≤ l.foldl max a
  | [], a => ⟨Nat.le_refl _, by simp⟩
  | x :: xs, a => by
      have ih := foldl_max_ge xs (max a x)
      simp only [List.foldl_cons, List.mem_cons]
      refine ⟨by omega, ?_⟩
      rintro n (rfl | hn)
      · omega
      · exact ih.2 n hn


/-- the flagged-off axes keep their source position under negation -/
theorem srcIdx_negIdx_getD : ∀ (axs : List Ax) (flags : List Bool) (idx : List Nat) (t : Nat),
    inShape (axs.map Ax.n) idx = true → flagsOk axs flags = true → flags.getD t true = false →
    (srcIdx axs (negIdx flags (axs.map Ax.n) idx)).getD t 0 = (srcIdx axs idx).getD t 0
  | [], [], [], _, _, _, _ => rfl
  | [], _, _ :: _, _, h, _, _ => by simp [inShape] at h
  | [], _ :: _, [], _, _, h, _ => by simp [flagsOk] at h
  | _ :: _, _, [], _, h, _, _ => by simp [inShape] at h
  | _ :: _, [], _ :: _, _, _, h, _ => by simp [flagsOk] at h
  | a :: as, f :: fs, i :: is, 0, _, _, hft => by
      simp only [List.getD_cons_zero] at hft
      subst hft
      simp [negIdx, srcIdx]
  | a :: as, f :: fs, i :: is, t + 1, h, hf, hft => by
      simp only [List.map_cons, inShape_cons] at h
      simp only [flagsOk, Bool.and_eq_true] at hf
      simp only [List.getD_cons_succ] at hft
      simp only [List.map_cons, negIdx, srcIdx, List.zipWith_cons_cons, List.getD_cons_succ]
      exact srcIdx_negIdx_getD as fs is t h.2 hf.2 hft


/-- what the wedge tail needs of `*` and `>` on the values 0 and 1 -/
structure TailLaws {α : Type} (o : Ops α) : Prop where
  one_mul_one : o.mul o.one o.one = o.one
  one_mul_zero : o.mul o.one o.zero = o.zero
  zero_mul_one : o.mul o.zero o.one = o.zero
  zero_mul_zero : o.mul o.zero o.zero = o.zero
  zero_lt_one : o.lt o.zero o.one = true
  zero_lt_zero : o.lt o.zero o.zero = false

theorem ratOps_tailLaws : TailLaws ratOps where
  one_mul_one := by show (1 : Rat) * 1 = 1; simp
  one_mul_zero := by show (1 : Rat) * 0 = 0; simp
  zero_mul_one := by show (0 : Rat) * 1 = 0; simp
  zero_mul_zero := by show (0 : Rat) * 0 = 0; simp
  zero_lt_one := by show decide ((0 : Rat) < 1) = true; simp
  zero_lt_zero := by show decide ((0 : Rat) < 0) = false; simp

theorem freqIndex_zero (n : Nat) (h : 0 < n) : freqIndex n 0 = 0 := by
  rw [freqIndex_eq n 0 h]; split <;> omega

theorem getD_map_zero : ∀ (s : List Nat) (t : Nat), (s.map (fun _ => 0)).getD t 0 = 0
  | [], t => by simp
  | _ :: ss, 0 => by simp
  | _ :: ss, t + 1 => by simpa using getD_map_zero ss t

theorem getD_mem : ∀ (s : List Nat) (t : Nat), t < s.length → s.getD t 0 ∈ s
  | [], _, h => by simp at h
  | _ :: _, 0, _ => by simp
  | _ :: ss, t + 1, h => by
      simp only [List.getD_cons_succ]
      exact List.mem_cons_of_mem _ (getD_mem ss t (by simpa using h))

theorem inShape_zeros1 : ∀ (shape : List Nat), (∀ n ∈ shape, 1 ≤ n) → inShape shape (shape.map (fun _ => 0)) = true
  | [], _ => rfl
  | n :: ns, h => by
      simp only [List.map_cons, inShape_cons]
      exact ⟨by have := h n List.mem_cons_self; omega, inShape_zeros1 ns (fun m hm => h m (List.mem_cons_of_mem _ hm))⟩


/-- negation laws of the scalar operations up to an equivalence `E` (IEEE-754: equality of values with `+0` and
`-0` identified - `x + (-x)` and `r * 0` lose the sign of zero -; exact fields: equality) -/
structure LinLaws {α : Type} (o : Ops α) (E : α → α → Prop) : Prop where
  zero : E o.zero (o.neg o.zero)
  mul_neg : ∀ (r : α) (k : Int), E (o.mul r (o.ofInt (-k))) (o.neg (o.mul r (o.ofInt k)))
  add : ∀ a a' b b', E a (o.neg a') → E b (o.neg b') → E (o.add a b) (o.neg (o.add a' b'))
  sq_div : ∀ x y n, E x (o.neg y) → o.mul (o.div x n) (o.div x n) = o.mul (o.div y n) (o.div y n)

theorem ratOps_linLaws : LinLaws ratOps Eq where
  zero := by show (0 : Rat) = -0; simp
  mul_neg := by
    intro r k
    show r * (((-k : Int)) : Rat) = -(r * (k : Rat))
    push_cast; ring
  add := by
    intro a a' b b' h1 h2
    have h1' : a = -a' := h1
    have h2' : b = -b' := h2
    show a + b = -(a' + b')
    rw [h1', h2']; ring
  sq_div := by
    intro x y n h
    have h' : x = -y := h
    show (x / n) * (x / n) = (y / n) * (y / n)
    rw [h']; ring

section
variable {α : Type} (o : Ops α)

theorem foldl_linForm_neg {E : α → α → Prop} (N : LinLaws o E) : ∀ (row : List α) (k : List Int) (acc acc' : α),
    E acc (o.neg acc') →
    E ((List.zipWith (fun r k => o.mul r (o.ofInt k)) row (k.map (fun x => -x))).foldl o.add acc)
      (o.neg ((List.zipWith (fun r k => o.mul r (o.ofInt k)) row k).foldl o.add acc'))
  | [], _, _, _, h => by simpa using h
  | _ :: _, [], _, _, h => by simpa using h
  | r :: rs, k :: ks, acc, acc', h => by
      simp only [List.map_cons, List.zipWith_cons_cons, List.foldl_cons]
      exact foldl_linForm_neg N rs ks _ _ (N.add _ _ _ _ h (N.mul_neg r k))

end

end Pm.C12
