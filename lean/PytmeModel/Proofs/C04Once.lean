import PytmeModel.Proofs.C04Ext

/-! C04: `merge` in the given order is equal to one analyzer fed everything (table, scores, identifiers). -/
namespace Pm.C04
set_option linter.unusedSectionVars false
variable {K : Type} [DecidableEq K]

/-! ## merging in the given order = one analyzer fed everything: the table -/

theorem runFrom_table (h : List (Arr Int × K)) : ∀ (s : State K),
    (runFrom s h).table = tableOf s.table (h.map Prod.snd) := by
  induction h with
  | nil => intro s; rfl
  | cons x l ih =>
    intro s
    have := ih (submit s x.1 x.2)
    simpa [runFrom, tableOf, submit_table, addKey] using this

theorem run_table (shape : List Nat) (thr : Int) (h : List (Arr Int × K)) :
    (run shape thr h).table = tableOf [] (h.map Prod.snd) := runFrom_table h _

theorem tableOf_ok : ∀ (ks : List K) (t0 : Table K), TableOK t0 → TableOK (tableOf t0 ks) := by
  intro ks
  induction ks with
  | nil => intro t0 ok; exact ok
  | cons k ks ih => intro t0 ok; exact ih _ (setdefault_ok ok k)

theorem addKey_of_isSome {t : Table K} {k : K} (h : (lookup k t).isSome) : addKey t k = t := by
  obtain ⟨i, hi⟩ := Option.isSome_iff_exists.mp h
  simp [addKey, setdefault, hi]

theorem addKeys_addKey (t0 : Table K) (ok : TableOK t0) (T : Table K) (k : K) :
    addKeys t0 (addKey T k) = addKey (addKeys t0 T) k := by
  cases hk : lookup k T with
  | some i =>
    have e1 : addKey T k = T := addKey_of_isSome (by simp [hk])
    have hin : (lookup k (addKeys t0 T)).isSome := by
      rw [(addKeys_spec T t0 ok).2.2 k]
      right
      rw [← lookup_isSome_iff]; simp [hk]
    rw [e1, addKey_of_isSome hin]
  | none =>
    have e1 : addKey T k = T ++ [(k, T.length)] := by simp [addKey, setdefault, hk]
    rw [e1]
    simp [addKeys, List.foldl_append]

theorem addKeys_tableOf (t0 : Table K) (ok : TableOK t0) : ∀ (ks : List K) (T : Table K),
    addKeys t0 (tableOf T ks) = tableOf (addKeys t0 T) ks := by
  intro ks
  induction ks with
  | nil => intro T; rfl
  | cons k ks ih =>
    intro T
    simp only [tableOf, List.foldl_cons]
    have := ih (addKey T k)
    simp only [tableOf] at this
    rw [this, addKeys_addKey t0 ok]

theorem tableOf_append (t0 : Table K) (ks ks' : List K) : tableOf t0 (ks ++ ks') = tableOf (tableOf t0 ks) ks' := by
  simp [tableOf, List.foldl_append]

theorem newTable_fold_tiles (thr : Int) : ∀ (ts : List (Tile K)) (t0 : Table K), TableOK t0 →
    (ts.map (tileStore thr)).foldl (fun t S => addKeys t S.table) t0 = tableOf t0 (allKeys ts) := by
  intro ts
  induction ts with
  | nil => intro t0 _; rfl
  | cons t ts ih =>
    intro t0 ok
    simp only [List.map_cons, List.foldl_cons, allKeys, List.flatMap_cons]
    have e : (tileStore thr t).table = tableOf [] (t.hist.map Prod.snd) := run_table _ _ _
    rw [e, addKeys_tableOf t0 ok]
    have : addKeys t0 ([] : Table K) = t0 := rfl
    rw [this, tableOf_append]
    exact ih _ (tableOf_ok _ _ ok)

theorem newTable_tiles (thr : Int) (ts : List (Tile K)) :
    newTable (ts.map (tileStore thr)) = tableOf [] (allKeys ts) :=
  newTable_fold_tiles thr ts [] tableOK_nil

/-! ## … the cells -/

theorem bigHist_keys (thr : Int) (out : List Nat) (ts : List (Tile K)) :
    (bigHist thr out ts).map Prod.snd = allKeys ts := by
  induction ts with
  | nil => rfl
  | cons t ts ih =>
    simp only [bigHist, allKeys, List.flatMap_cons, List.map_append] at ih ⊢
    rw [ih]
    simp [tileEmb, List.map_map, Function.comp_def]

/-- rotation `k` belongs to the first submission of `H` that holds `v` at `p` -/
def FirstKey (H : List (Arr Int × K)) (p : List Nat) (k : K) (v : Int) : Prop :=
  ∃ (j : Nat) (a : Arr Int), H[j]? = some (a, k) ∧ a.getD p 0 = v ∧
    ∀ (j' : Nat) (a' : Arr Int) (k' : K), j' < j → H[j']? = some (a', k') → a'.getD p 0 < v

theorem FirstKey.append {H : List (Arr Int × K)} {p : List Nat} {k : K} {v : Int} (h : FirstKey H p k v)
    (E : List (Arr Int × K)) : FirstKey (H ++ E) p k v := by
  obtain ⟨j, a, hj, hv, hb⟩ := h
  have hjl := getElem?_lt hj
  refine ⟨j, a, by rw [List.getElem?_append_left hjl]; exact hj, hv, ?_⟩
  intro j' a' k' hj' hjj
  rw [List.getElem?_append_left (by omega)] at hjj
  exact hb j' a' k' hj' hjj

theorem FirstKey.unique {H : List (Arr Int × K)} {p : List Nat} {k k' : K} {v : Int}
    (h : FirstKey H p k v) (h' : FirstKey H p k' v) : k = k' := by
  obtain ⟨j, a, hj, hv, hb⟩ := h
  obtain ⟨j', a', hj', hv', hb'⟩ := h'
  have e : j = j' := by
    rcases Nat.lt_trichotomy j j' with l | e | l
    · have := hb' j a k l hj; omega
    · exact e
    · have := hb j' a' k' l hj'; omega
  subst e
  rw [hj] at hj'
  cases hj'
  rfl

def CellF (thr : Int) (new : Table K) (H : List (Arr Int × K)) (p : List Nat) (v r : Int) : Prop :=
  v = specMax thr (valsAt H p) ∧
  ((r = -1 ∧ v = thr) ∨ ∃ k i, lookup k new = some i ∧ r = (i : Int) ∧ FirstKey H p k v ∧ thr < v)

theorem valsAt_append (H E : List (Arr Int × K)) (p : List Nat) : valsAt (H ++ E) p = valsAt H p ++ valsAt E p := by
  simp [valsAt]

theorem embed_getD (thr : Int) {out : List Nat} (off shp : List Nat) (a : Arr Int) {p : List Nat}
    (hp : inShape out p = true) :
    (embed thr out off shp a).getD p 0 = match localIdx off shp p with
      | some q => a.getD q 0
      | none => thr := by
  simp only [embed]
  rw [Arr.getD_ofFn _ _ _ _ hp]
  cases localIdx off shp p <;> rfl

theorem valsAt_tileEmb_some (thr : Int) {out : List Nat} (t : Tile K) {p q : List Nat} (hp : inShape out p = true)
    (hl : localIdx t.offset t.shape p = some q) : valsAt (tileEmb thr out t) p = valsAt t.hist q := by
  simp only [valsAt, tileEmb, List.map_map]
  apply List.map_congr_left
  intro ak _
  simp only [Function.comp]
  rw [embed_getD thr _ _ _ hp, hl]

theorem valsAt_tileEmb_none (thr : Int) {out : List Nat} (t : Tile K) {p : List Nat} (hp : inShape out p = true)
    (hl : localIdx t.offset t.shape p = none) : ∀ x ∈ valsAt (tileEmb thr out t) p, x = thr := by
  intro x hx
  simp only [valsAt, tileEmb, List.map_map, List.mem_map] at hx
  obtain ⟨ak, _, rfl⟩ := hx
  simp only [Function.comp]
  rw [embed_getD thr _ _ _ hp, hl]

theorem specMax_all_le {v : Int} {l : List Int} (h : ∀ x ∈ l, x ≤ v) : specMax v l = v :=
  (specMax_eq_thr_iff v l).mpr h

theorem mergeStep_cellF {thr : Int} {out : List Nat} {new : Table K} {acc : Arr Int × Arr Int} (t : Tile K)
    {H : List (Arr Int × K)} {p : List Nat} (hp : inShape out p = true)
    (hnew : ∀ k i, lookup k (tileStore thr t).table = some i → (lookup k new).isSome)
    (c : CellF thr new H p (acc.1.getD p 0) (acc.2.getD p 0)) :
    CellF thr new (H ++ tileEmb thr out t) p ((mergeStep out new acc (tileStore thr t)).1.getD p 0)
      ((mergeStep out new acc (tileStore thr t)).2.getD p 0) := by
  obtain ⟨cv, cr⟩ := c
  have hge : thr ≤ acc.1.getD p 0 := by rw [cv]; exact le_specMax _ _
  have inv := invFirst_run t.shape thr t.hist
  have hshape : (tileStore thr t).scores.shape = t.shape := inv.base.shape_sc
  have hoff : (tileStore thr t).offset = t.offset := rfl
  have keep : ((acc.2.getD p 0 = -1 ∧ acc.1.getD p 0 = thr) ∨ ∃ k i, lookup k new = some i ∧ acc.2.getD p 0 = (i : Int) ∧
        FirstKey H p k (acc.1.getD p 0) ∧ thr < acc.1.getD p 0) →
      ((acc.2.getD p 0 = -1 ∧ acc.1.getD p 0 = thr) ∨ ∃ k i, lookup k new = some i ∧ acc.2.getD p 0 = (i : Int) ∧
        FirstKey (H ++ tileEmb thr out t) p k (acc.1.getD p 0) ∧ thr < acc.1.getD p 0) := by
    rintro (h | ⟨k, i, a, b, c, d⟩)
    · exact Or.inl h
    · exact Or.inr ⟨k, i, a, b, c.append _, d⟩
  simp only [mergeStep]
  rw [Arr.getD_ofFn _ _ _ _ hp, Arr.getD_ofFn _ _ _ _ hp, hshape, hoff]
  cases hl : localIdx t.offset t.shape p with
  | none =>
    simp only []
    refine ⟨?_, keep cr⟩
    rw [valsAt_append, specMax_append, ← cv]
    symm
    apply specMax_all_le
    intro x hx
    rw [valsAt_tileEmb_none thr t hp hl x hx]; exact hge
  | some q =>
    simp only []
    have hq := localIdx_inShape hl
    have sv : (tileStore thr t).scores.getD q 0 = specMax thr (valsAt t.hist q) := inv.base.score q hq
    have hmax : specMax thr (valsAt (H ++ tileEmb thr out t) p) =
        max (acc.1.getD p 0) ((tileStore thr t).scores.getD q 0) := by
      rw [valsAt_append, specMax_append, ← cv, valsAt_tileEmb_some thr t hp hl, sv, max_specMax _ hge]
    by_cases hgt : (tileStore thr t).scores.getD q 0 > acc.1.getD p 0
    · simp only [hgt, if_true]
      refine ⟨by rw [hmax]; omega, ?_⟩
      have hne : (tileStore thr t).rots.getD q 0 ≠ -1 := by
        rcases inv.base.rot q hq with ⟨_, h2⟩ | ⟨_, _, i, _, _, hr, _, _⟩
        · have : (tileStore thr t).scores.getD q 0 = thr := h2
          omega
        · have : (tileStore thr t).rots.getD q 0 = (i : Int) := hr
          omega
      obtain ⟨j, a, k, i, hj, hk, hri, ⟨⟨a1, k1, hj1, hv⟩, hb⟩⟩ := inv.first q hq hne
      rw [hj] at hj1; cases hj1
      have hk' : lookup k (tileStore thr t).table = some i := hk
      have hri' : (tileStore thr t).rots.getD q 0 = (i : Int) := hri
      have hv' : a.getD q 0 = (tileStore thr t).scores.getD q 0 := hv
      obtain ⟨n, hn⟩ := Option.isSome_iff_exists.mp (hnew k i hk')
      right
      refine ⟨k, n, hn, by rw [hri']; exact lutGet_lookupTable inv.base.table_ok hk' hn, ?_, by omega⟩
      refine ⟨H.length + j, embed thr out t.offset t.shape a, ?_, ?_, ?_⟩
      · rw [List.getElem?_append_right (by omega)]
        simp only [Nat.add_sub_cancel_left, tileEmb, List.getElem?_map, hj, Option.map_some]
      · rw [embed_getD thr _ _ _ hp, hl]; exact hv'
      · intro j' a' k' hj' hjj
        by_cases hlt : j' < H.length
        · rw [List.getElem?_append_left hlt] at hjj
          have : a'.getD p 0 ≤ acc.1.getD p 0 := by
            rw [cv]
            apply mem_le_specMax
            simp only [valsAt, List.mem_map]
            exact ⟨(a', k'), List.mem_of_getElem? hjj, rfl⟩
          omega
        · rw [List.getElem?_append_right (by omega)] at hjj
          simp only [tileEmb, List.getElem?_map] at hjj
          cases hx : t.hist[j' - H.length]? with
          | none => rw [hx] at hjj; cases hjj
          | some x =>
            rw [hx] at hjj
            simp only [Option.map_some, Option.some.injEq, Prod.mk.injEq] at hjj
            obtain ⟨ea, _⟩ := hjj
            subst ea
            rw [embed_getD thr _ _ _ hp, hl]
            show x.1.getD q 0 < _
            have := hb (j' - H.length) x.1 x.2 (by omega) hx
            have hs : (tileStore thr t).scores.getD q 0 = (run t.shape thr t.hist).scores.getD q 0 := rfl
            omega
    · simp only [hgt, if_false]
      exact ⟨by rw [hmax]; omega, keep cr⟩

theorem mergeFold_cellF {thr : Int} {out : List Nat} {new : Table K} {p : List Nat} (hp : inShape out p = true) :
    ∀ (ts : List (Tile K)) (acc : Arr Int × Arr Int) (H : List (Arr Int × K)),
    (∀ t ∈ ts, ∀ k i, lookup k (tileStore thr t).table = some i → (lookup k new).isSome) →
    CellF thr new H p (acc.1.getD p 0) (acc.2.getD p 0) →
    let F := (ts.map (tileStore thr)).foldl (mergeStep out new) acc
    CellF thr new (H ++ bigHist thr out ts) p (F.1.getD p 0) (F.2.getD p 0) := by
  intro ts
  induction ts with
  | nil => intro acc H _ c; simpa [bigHist] using c
  | cons t ts ih =>
    intro acc H hnew c
    have c' := mergeStep_cellF (out := out) (acc := acc) t hp (hnew t List.mem_cons_self) c
    have := ih (mergeStep out new acc (tileStore thr t)) (H ++ tileEmb thr out t)
      (fun x hx => hnew x (List.mem_cons_of_mem _ hx)) c'
    simpa [bigHist, List.append_assoc] using this

/-- `merge` in the given order (general path) is *equal* to one analyzer of the merged volume fed every submission
of every tile (embedded with the threshold outside its box), tile after tile: same table (with its order), and at
every voxel the same score and the same rotation identifier. -/
theorem mergeMany_eq_aggregate_at_once (thr : Int) (ts : List (Tile K)) :
    let out := outShape (ts.map (tileStore thr))
    let M := mergeMany thr (ts.map (tileStore thr))
    let B := run out thr (bigHist thr out ts)
    M.table = B.table ∧ M.scores.shape = B.scores.shape ∧
    ∀ p, inShape out p = true → M.scores.getD p 0 = B.scores.getD p 0 ∧ M.rots.getD p 0 = B.rots.getD p 0 := by
  intro out M B
  have htab : M.table = B.table := by
    show newTable (ts.map (tileStore thr)) = (run out thr (bigHist thr out ts)).table
    rw [newTable_tiles, run_table, bigHist_keys]
  have hshape := mergeFold_shape out (newTable (ts.map (tileStore thr))) (ts.map (tileStore thr))
    (Arr.ofFn out (fun _ => thr), Arr.ofFn out (fun _ => -1)) rfl rfl
  have invB := invFirst_run out thr (bigHist thr out ts)
  refine ⟨htab, ?_, ?_⟩
  · show ((ts.map (tileStore thr)).foldl (mergeStep out (newTable (ts.map (tileStore thr))))
        (Arr.ofFn out (fun _ => thr), Arr.ofFn out (fun _ => -1))).1.shape = _
    rw [hshape.1, invB.base.shape_sc]
  · intro p hp
    have hnew : ∀ t ∈ ts, ∀ k i, lookup k (tileStore thr t).table = some i →
        (lookup k (newTable (ts.map (tileStore thr)))).isSome := by
      intro t ht k i hk
      rw [newTable_keys]
      exact ⟨tileStore thr t, List.mem_map.mpr ⟨t, ht, rfl⟩, by simp [hk]⟩
    have c0 : CellF thr (newTable (ts.map (tileStore thr))) ([] : List (Arr Int × K)) p
        ((Arr.ofFn out (fun _ => thr)).getD p 0) ((Arr.ofFn out (fun _ => (-1 : Int))).getD p 0) := by
      rw [Arr.getD_ofFn _ _ _ _ hp, Arr.getD_ofFn _ _ _ _ hp]
      exact ⟨rfl, Or.inl ⟨rfl, rfl⟩⟩
    have cM := mergeFold_cellF hp ts (Arr.ofFn out (fun _ => thr), Arr.ofFn out (fun _ => (-1 : Int))) [] hnew c0
    simp only [List.nil_append] at cM
    have cM' : CellF thr M.table (bigHist thr out ts) p (M.scores.getD p 0) (M.rots.getD p 0) := cM
    obtain ⟨mv, mr⟩ := cM'
    have bv : B.scores.getD p 0 = specMax thr (valsAt (bigHist thr out ts) p) := invB.base.score p hp
    refine ⟨by rw [mv, bv], ?_⟩
    rcases mr with ⟨m1, m2⟩ | ⟨k, i, hk, hri, hfk, hlt⟩
    · -- nothing above the threshold: both hold the marker
      rcases invB.base.rot p hp with ⟨b1, _⟩ | ⟨_, _, _, _, _, _, _, blt⟩
      · rw [m1]; exact b1.symm
      · have : B.scores.getD p 0 = M.scores.getD p 0 := by rw [mv, bv]
        have blt' : thr < B.scores.getD p 0 := blt
        omega
    · have hBne : B.rots.getD p 0 ≠ -1 := by
        rcases invB.base.rot p hp with ⟨_, b2⟩ | ⟨_, _, i', _, _, hr', _, _⟩
        · have b2' : B.scores.getD p 0 = thr := b2
          have : B.scores.getD p 0 = M.scores.getD p 0 := by rw [mv, bv]
          omega
        · have : B.rots.getD p 0 = (i' : Int) := hr'
          omega
      obtain ⟨j, a, k', i', hj, hk', hri', ⟨⟨a1, k1, hj1, hv⟩, hb⟩⟩ := invB.first p hp hBne
      rw [hj] at hj1; cases hj1
      have hsame : B.scores.getD p 0 = M.scores.getD p 0 := by rw [mv, bv]
      have hfk' : FirstKey (bigHist thr out ts) p k' (M.scores.getD p 0) := by
        refine ⟨j, a, hj, ?_, ?_⟩
        · have : a.getD p 0 = B.scores.getD p 0 := hv
          rw [this, hsame]
        · intro j' a' k'' hj' hjj
          have := hb j' a' k'' hj' hjj
          have h2 : a'.getD p 0 < B.scores.getD p 0 := this
          rw [hsame] at h2; exact h2
      have ek : k = k' := hfk.unique hfk'
      subst ek
      have hk2 : lookup k M.table = some i' := by rw [htab]; exact hk'
      rw [hk] at hk2
      cases hk2
      rw [hri]; exact hri'.symm

end Pm.C04
