import PytmeModel.Proofs.C04Rep

/-! C04, second layer: the path without a lock, `only_unique_rotations`, rotation keys as matrix bytes,
results behind memory maps. -/
namespace Pm.C04
set_option linter.unusedSectionVars false
variable {K : Type} [DecidableEq K]

/-! ## no lock -/

theorem submitNoLock_eq (s : State K) (a : Arr Int) (k : K) : submitNoLock s a k = submit s a k := by
  unfold submitNoLock submit setdefault
  cases h : lookup k s.table <;> simp

theorem runNoLock_eq (shape : List Nat) (thr : Int) (h : List (Arr Int × K)) :
    runNoLock shape thr h = run shape thr h := by
  unfold runNoLock run runFrom
  congr 1
  funext s ak
  exact submitNoLock_eq s ak.1 ak.2

/-! ## python dict assignment -/

theorem dictSet_notin {A B : Type} [DecidableEq A] : ∀ (d : List (A × B)) (k : A) (v : B),
    k ∉ d.map Prod.fst → dictSet d k v = d ++ [(k, v)]
  | [], _, _, _ => rfl
  | (k', v') :: t, k, v, h => by
      simp only [List.map_cons, List.mem_cons, not_or] at h
      have hne : ¬ k' = k := fun e => h.1 e.symm
      simp only [dictSet, hne, if_false, List.cons_append]
      rw [dictSet_notin t k v h.2]

/-! ## `only_unique_rotations` -/

/-- the identifier → matrix analyzer `s` and the bytes → identifier analyzer `s'` hold the same data -/
structure InvRel (s : IState K) (s' : State K) : Prop where
  sc : s.scores = s'.scores
  rt : s.rots = s'.rots
  mp : s.imap = s'.table.map Prod.swap
  ids : s'.table.map Prod.snd = List.range s'.table.length

theorem invRel_init (shape : List Nat) (thr : Int) : InvRel (K := K) (initInv shape thr) (init shape thr) :=
  ⟨rfl, rfl, rfl, rfl⟩

theorem invRel_submit {s : IState K} {s' : State K} (r : InvRel s s') (a : Arr Int) {k : K}
    (hk : lookup k s'.table = none) : InvRel (submitInv s a k) (submit s' a k) := by
  have hlen : s.imap.length = s'.table.length := by rw [r.mp]; simp
  have hfst : s.imap.map Prod.fst = List.range s'.table.length := by
    rw [r.mp, List.map_map]
    have : (Prod.fst ∘ Prod.swap : K × Nat → Nat) = Prod.snd := by funext x; rfl
    rw [this, r.ids]
  have hnot : s.imap.length ∉ s.imap.map Prod.fst := by
    rw [hfst, hlen]; simp
  have hsd : setdefault s'.table k = (s'.table ++ [(k, s'.table.length)], s'.table.length) := by
    unfold setdefault; rw [hk]
  refine ⟨?_, ?_, ?_, ?_⟩
  · simp only [submitInv, submit, r.sc]; rfl
  · simp only [submitInv, submit, hsd, r.sc, r.rt, hlen]
  · simp only [submitInv, submit, hsd]
    rw [dictSet_notin _ _ _ hnot, hlen, r.mp]
    simp
  · simp only [submit, hsd]
    simp [r.ids, List.range_succ]

theorem invRel_fold : ∀ (h : List (Arr Int × K)) (s : IState K) (s' : State K), InvRel s s' →
    (h.map Prod.snd).Nodup → (∀ x ∈ h, lookup x.2 s'.table = none) →
    InvRel (h.foldl (fun s ak => submitInv s ak.1 ak.2) s) (runFrom s' h)
  | [], _, _, r, _, _ => r
  | (a, k) :: t, s, s', r, hn, hnone => by
      simp only [List.map_cons, List.nodup_cons] at hn
      have hk := hnone (a, k) List.mem_cons_self
      have r' := invRel_submit r a hk
      have htab : (submit s' a k).table = s'.table ++ [(k, s'.table.length)] := by
        simp only [submit, setdefault, hk]
      have hnone' : ∀ x ∈ t, lookup x.2 (submit s' a k).table = none := by
        intro x hx
        rw [htab, lookup_append, hnone x (List.mem_cons_of_mem _ hx)]
        have hne : ¬ k = x.2 := by
          intro e
          exact hn.1 (List.mem_map.mpr ⟨x, hx, e.symm⟩)
        simp [lookup, hne]
      simpa [runFrom] using invRel_fold t _ _ r' hn.2 hnone'

theorem invertMap_fold : ∀ (m : List (Nat × K)) (acc : Table K),
    (m.map Prod.snd).Nodup → (∀ x ∈ m, x.2 ∉ acc.map Prod.fst) →
    m.foldl (fun t ik => dictSet t ik.2 ik.1) acc = acc ++ m.map Prod.swap
  | [], acc, _, _ => by simp
  | (i, k) :: t, acc, hn, hd => by
      simp only [List.map_cons, List.nodup_cons] at hn
      simp only [List.foldl_cons]
      rw [dictSet_notin _ _ _ (hd (i, k) List.mem_cons_self)]
      rw [invertMap_fold t _ hn.2]
      · simp [Prod.swap]
      · intro x hx
        simp only [List.map_append, List.map_cons, List.map_nil, List.mem_append, List.mem_singleton, not_or]
        refine ⟨hd x (List.mem_cons_of_mem _ hx), ?_⟩
        intro e
        exact hn.1 (List.mem_map.mpr ⟨x, hx, e⟩)

theorem invertMap_swap (t : Table K) (hn : (t.map Prod.fst).Nodup) : invertMap (t.map Prod.swap) = t := by
  unfold invertMap
  rw [invertMap_fold _ [] (by simpa [List.map_map, Function.comp_def] using hn) (by simp)]
  simp [List.map_map, Function.comp_def]

/-- with pairwise different rotations the identifier → matrix analyzer reports exactly what the standard one does -/
theorem iterInv_eq_of_nodup (shape : List Nat) (thr : Int) (h : List (Arr Int × K)) (offset : List Nat)
    (hn : (h.map Prod.snd).Nodup) :
    iterInv (runInv shape thr h) offset = (run shape thr h).toStore offset := by
  have r := invRel_fold h _ _ (invRel_init (K := K) shape thr) hn (by intro x _; rfl)
  have ok := (inv_run shape thr h).table_ok
  unfold iterInv State.toStore
  have e1 : (runInv shape thr h).scores = (run shape thr h).scores := r.sc
  have e2 : (runInv shape thr h).rots = (run shape thr h).rots := r.rt
  have e3 : (runInv shape thr h).imap = (run shape thr h).table.map Prod.swap := r.mp
  rw [e1, e2, e3, invertMap_swap _ ok.2]

/-- the score map never depends on the identifiers -/
theorem runInv_scores_fold : ∀ (h : List (Arr Int × K)) (s : IState K) (s' : State K), s.scores = s'.scores →
    (h.foldl (fun s ak => submitInv s ak.1 ak.2) s).scores = (runFrom s' h).scores
  | [], _, _, e => e
  | (a, k) :: t, s, s', e => by
      have : (submitInv s a k).scores = (submit s' a k).scores := by
        simp only [submitInv, submit, e]; rfl
      simpa [runFrom] using runInv_scores_fold t _ _ this

theorem runInv_scores (shape : List Nat) (thr : Int) (h : List (Arr Int × K)) :
    (runInv shape thr h).scores = (run shape thr h).scores :=
  runInv_scores_fold h _ _ rfl

/-! ## keys are matrix bytes -/

theorem rowsOf_flatten {W : Type} (n : Nat) : ∀ (m : List (List W)), (∀ row ∈ m, row.length = n) →
    rowsOf n m.length m.flatten = m
  | [], _ => rfl
  | row :: rest, h => by
      have hr : row.length = n := h row List.mem_cons_self
      simp only [List.length_cons, List.flatten_cons, rowsOf]
      rw [List.take_left' hr, List.drop_left' hr, rowsOf_flatten n rest (fun x hx => h x (List.mem_cons_of_mem _ hx))]

/-- `np.frombuffer(m.tobytes()).reshape(n, n)` is `m` -/
theorem keyMat_matKey {W : Type} {n : Nat} {m : List (List W)} (hm : IsMat n m) : keyMat n (matKey m) = m := by
  unfold keyMat matKey
  have := rowsOf_flatten n m hm.2
  rw [hm.1] at this
  exact this

theorem matKey_injective {W : Type} {n : Nat} {m m' : List (List W)} (hm : IsMat n m) (hm' : IsMat n m')
    (e : matKey m = matKey m') : m = m' := by
  rw [← keyMat_matKey hm, ← keyMat_matKey hm', e]

theorem find_snd {t : Table K} (hs : (t.map Prod.snd).Nodup) {k : K} {i : Nat} (h : (k, i) ∈ t) :
    t.find? (fun kv => decide (kv.2 = i)) = some (k, i) := by
  induction t with
  | nil => cases h
  | cons kv t ih =>
    simp only [List.map_cons, List.nodup_cons] at hs
    rcases List.mem_cons.mp h with e | h'
    · subst e; simp
    · have hne : ¬ kv.2 = i := by
        intro e
        exact hs.1 (List.mem_map.mpr ⟨(k, i), h', e.symm⟩)
      simp only [List.find?_cons, hne, decide_false]
      exact ih hs.2 h'

/-- reading an identifier back through the table gives the rotation that owns it -/
theorem keyOf_of_lookup {t : Table K} (ok : TableOK t) {k : K} {i : Nat} (h : lookup k t = some i) :
    keyOf t (i : Int) = some k := by
  have hs : (t.map Prod.snd).Nodup := by rw [ok.1]; exact List.nodup_range
  unfold keyOf
  have : ¬ ((i : Int) < 0) := by omega
  simp only [this, if_false, Int.toNat_natCast]
  rw [find_snd hs (lookup_some_mem h)]
  rfl

/-! ## files -/

theorem FS.read_write (fs : FS) (p q : Nat) (a : Arr Int) :
    (fs.write p a).read q = if p = q ∧ p < fs.length then a else fs.read q := by
  unfold FS.read FS.write
  rw [List.getD_eq_getElem?_getD, List.getD_eq_getElem?_getD, List.getElem?_set]
  by_cases e : p = q
  · subst e
    by_cases l : p < fs.length
    · simp [l]
    · simp [l]
  · simp [e]

theorem FS.length_write (fs : FS) (p : Nat) (a : Arr Int) : (fs.write p a).length = fs.length := by
  simp [FS.write]

theorem FS.read_create_old (fs : FS) (a : Arr Int) {q : Nat} (h : q < fs.length) :
    (fs.create a).1.read q = fs.read q := by
  unfold FS.read FS.create
  rw [List.getD_eq_getElem?_getD, List.getD_eq_getElem?_getD, List.getElem?_append_left h]

theorem FS.read_create_new (fs : FS) (a : Arr Int) : (fs.create a).1.read (fs.create a).2 = a := by
  unfold FS.read FS.create
  simp [List.getD_eq_getElem?_getD]

theorem FS.length_create (fs : FS) (a : Arr Int) : (fs.create a).1.length = fs.length + 1 := by
  simp [FS.create]

/-- the paths of a memory-mapped store exist -/
def MStore.Valid (fs : FS) (m : MStore K) : Prop := m.scores < fs.length ∧ m.rots < fs.length

instance (fs : FS) (m : MStore K) : Decidable (m.Valid fs) := by
  unfold MStore.Valid; exact inferInstance

theorem load_congr {fs fs' : FS} {n : Nat} (hsame : ∀ q < n, fs'.read q = fs.read q) {m : MStore K}
    (hv : m.scores < n ∧ m.rots < n) : m.load fs' = m.load fs := by
  unfold MStore.load
  rw [hsame _ hv.1, hsame _ hv.2]

/-- reading the result of `tuple(analyzer)` with `use_memmap` through its memory maps gives the in-memory result,
and no existing file is touched -/
theorem iterMem_spec (fs : FS) (s : State K) (offset : List Nat) :
    (iterMem fs s offset).2.load (iterMem fs s offset).1 = s.toStore offset ∧
    (iterMem fs s offset).2.Valid (iterMem fs s offset).1 ∧
    (iterMem fs s offset).1.length = fs.length + 2 ∧
    ∀ q < fs.length, (iterMem fs s offset).1.read q = fs.read q := by
  refine ⟨?_, ?_, ?_, ?_⟩
  · simp only [iterMem, MStore.load, State.toStore]
    have h1 : ((fs.create s.scores).1.create s.rots).1.read (fs.create s.scores).2 = s.scores := by
      rw [FS.read_create_old _ _ (by simp [FS.create]), FS.read_create_new]
    have h2 : ((fs.create s.scores).1.create s.rots).1.read ((fs.create s.scores).1.create s.rots).2 = s.rots :=
      FS.read_create_new _ _
    rw [h1, h2]
  · simp [iterMem, MStore.Valid, FS.create]
  · simp [iterMem, FS.create]
  · intro q hq
    simp only [iterMem]
    rw [FS.read_create_old _ _ (by simp [FS.create]; omega), FS.read_create_old _ _ hq]

theorem mergeStepMem_fold {out : List Nat} {new : Table K} {fs : FS} :
    ∀ (ms : List (MStore K)) (fsj : FS), (∀ m ∈ ms, m.Valid fs) →
    fsj.length = fs.length + 2 → (∀ q < fs.length, fsj.read q = fs.read q) →
    let fs' := ms.foldl (mergeStepMem out new fs.length (fs.length + 1)) fsj
    fs'.length = fs.length + 2 ∧ (∀ q < fs.length, fs'.read q = fs.read q) ∧
    (fs'.read fs.length, fs'.read (fs.length + 1)) =
      (ms.map (MStore.load fs)).foldl (mergeStep out new) (fsj.read fs.length, fsj.read (fs.length + 1))
  | [], fsj, _, hl, hs => ⟨hl, hs, rfl⟩
  | m :: ms, fsj, hv, hl, hs => by
      have hm := hv m List.mem_cons_self
      have hload : m.load fsj = m.load fs := load_congr hs hm
      let r := mergeStep out new (fsj.read fs.length, fsj.read (fs.length + 1)) (m.load fs)
      have hstep : mergeStepMem out new fs.length (fs.length + 1) fsj m =
          (fsj.write fs.length r.1).write (fs.length + 1) r.2 := by
        simp only [mergeStepMem, hload, r]
      have hl' : ((fsj.write fs.length r.1).write (fs.length + 1) r.2).length = fs.length + 2 := by
        rw [FS.length_write, FS.length_write, hl]
      have hs' : ∀ q < fs.length, ((fsj.write fs.length r.1).write (fs.length + 1) r.2).read q = fs.read q := by
        intro q hq
        rw [FS.read_write, FS.read_write]
        have a : ¬ (fs.length + 1 = q ∧ fs.length + 1 < (fsj.write fs.length r.1).length) := by omega
        have b : ¬ (fs.length = q ∧ fs.length < fsj.length) := by omega
        simp only [a, b, if_false]
        exact hs q hq
      have h1 : ((fsj.write fs.length r.1).write (fs.length + 1) r.2).read fs.length = r.1 := by
        rw [FS.read_write, FS.read_write]
        have a : ¬ (fs.length + 1 = fs.length ∧ fs.length + 1 < (fsj.write fs.length r.1).length) := by omega
        have b : fs.length = fs.length ∧ fs.length < fsj.length := ⟨rfl, by omega⟩
        simp only [a, b, if_false, if_true, and_self]
      have h2 : ((fsj.write fs.length r.1).write (fs.length + 1) r.2).read (fs.length + 1) = r.2 := by
        rw [FS.read_write]
        have a : fs.length + 1 = fs.length + 1 ∧ fs.length + 1 < (fsj.write fs.length r.1).length :=
          ⟨rfl, by rw [FS.length_write]; omega⟩
        simp only [a, and_self, if_true]
      have ih := mergeStepMem_fold (out := out) (new := new) ms _
        (fun x hx => hv x (List.mem_cons_of_mem _ hx)) hl' hs'
      simp only [List.foldl_cons, List.map_cons, hstep]
      rw [h1, h2] at ih
      exact ih

/-- `merge(use_memmap=True)`, general path: reading the result through its memory maps gives exactly what the
in-memory merge of the (loaded) inputs gives; the input files are not modified; two files are created -/
theorem mergeManyMem_spec (thr : Int) (fs : FS) (ms : List (MStore K)) (hv : ∀ m ∈ ms, m.Valid fs) :
    (mergeManyMem thr fs ms).2.load (mergeManyMem thr fs ms).1 = mergeMany thr (ms.map (MStore.load fs)) ∧
    (mergeManyMem thr fs ms).1.length = fs.length + 2 ∧
    (∀ q < fs.length, (mergeManyMem thr fs ms).1.read q = fs.read q) ∧
    (mergeManyMem thr fs ms).2.Valid (mergeManyMem thr fs ms).1 := by
  let out := outShape (ms.map (MStore.load fs))
  let new := newTable (ms.map (MStore.load fs))
  let A0 : Arr Int := Arr.ofFn out (fun _ => thr)
  let R0 : Arr Int := Arr.ofFn out (fun _ => (-1 : Int))
  let fs2 : FS := ((fs.create A0).1.create R0).1
  have hl2 : fs2.length = fs.length + 2 := by simp [fs2, FS.create]
  have hs2 : ∀ q < fs.length, fs2.read q = fs.read q := by
    intro q hq
    simp only [fs2]
    rw [FS.read_create_old _ _ (by simp [FS.create]; omega), FS.read_create_old _ _ hq]
  have hA : fs2.read fs.length = A0 := by
    simp only [fs2]
    rw [FS.read_create_old _ _ (by simp [FS.create])]
    exact FS.read_create_new fs A0
  have hR : fs2.read (fs.length + 1) = R0 := by
    have := FS.read_create_new (fs.create A0).1 R0
    simpa [fs2, FS.create] using this
  obtain ⟨f1, f2, f3⟩ := mergeStepMem_fold (out := out) (new := new) ms fs2 hv hl2 hs2
  rw [hA, hR] at f3
  have hfs : (mergeManyMem thr fs ms).1 = ms.foldl (mergeStepMem out new fs.length (fs.length + 1)) fs2 := by
    simp [mergeManyMem, FS.create, out, new, fs2, A0, R0]
  have hst : (mergeManyMem thr fs ms).2 = ⟨fs.length, List.replicate out.length 0, fs.length + 1, new⟩ := by
    simp [mergeManyMem, FS.create, out, new]
  refine ⟨?_, ?_, ?_, ?_⟩
  · rw [hfs, hst]
    simp only [MStore.load, mergeMany]
    have e1 := congrArg Prod.fst f3
    have e2 := congrArg Prod.snd f3
    simp only at e1 e2
    rw [e1, e2]
  · rw [hfs]; exact f1
  · rw [hfs]; exact f2
  · rw [hfs, hst]
    simp only [MStore.Valid]
    omega

/-- `merge(..., use_memmap=True)` as it is called (single-entry shortcut, `None` entries): the same result as the
in-memory `merge` of what the memory maps hold -/
theorem mergeOptMem_spec (thr : Int) (fs : FS) (ps : List (Option (MStore K)))
    (hv : ∀ m, some m ∈ ps → m.Valid fs) :
    (mergeOptMem thr fs ps).2.map (MStore.load (mergeOptMem thr fs ps).1) =
      mergeOpt thr (ps.map (Option.map (MStore.load fs))) ∧
    (∀ q < fs.length, (mergeOptMem thr fs ps).1.read q = fs.read q) := by
  have hfm : (ps.map (Option.map (MStore.load fs))).filterMap id = (ps.filterMap id).map (MStore.load fs) := by
    induction ps with
    | nil => rfl
    | cons p ps ih =>
      have ih' := ih (fun m hm => hv m (List.mem_cons_of_mem _ hm))
      cases p with
      | none => simpa [List.filterMap_cons] using ih'
      | some m => simpa [List.filterMap_cons] using ih'
  have hvalid : ∀ m ∈ ps.filterMap id, m.Valid fs := by
    intro m hm
    apply hv
    simpa using hm
  have general : (match ps.filterMap id with
        | [] => (fs, none)
        | ms => ((mergeManyMem thr fs ms).1, some (mergeManyMem thr fs ms).2) : FS × Option (MStore K)).2.map
        (MStore.load (match ps.filterMap id with
        | [] => (fs, none)
        | ms => ((mergeManyMem thr fs ms).1, some (mergeManyMem thr fs ms).2) : FS × Option (MStore K)).1) =
      (match (ps.map (Option.map (MStore.load fs))).filterMap id with
        | [] => none
        | ss => some (mergeMany thr ss)) ∧
      (∀ q < fs.length, (match ps.filterMap id with
        | [] => (fs, none)
        | ms => ((mergeManyMem thr fs ms).1, some (mergeManyMem thr fs ms).2) : FS × Option (MStore K)).1.read q = fs.read q) := by
    rw [hfm]
    cases hms : ps.filterMap id with
    | nil => exact ⟨rfl, fun _ _ => rfl⟩
    | cons m ms =>
      have sp := mergeManyMem_spec thr fs (m :: ms) (by rw [← hms]; exact hvalid)
      simp only [List.map_cons, Option.map_some]
      refine ⟨?_, sp.2.2.1⟩
      rw [sp.1]; rfl
  match ps, hv, general with
  | [], _, g => exact g
  | [none], _, _ => exact ⟨rfl, fun _ _ => rfl⟩
  | [some m], _, _ => exact ⟨rfl, fun _ _ => rfl⟩
  | p1 :: p2 :: rest, _, g => exact g

/-! ## `MemmapHandler` -/

theorem memmapHandlerRun_cons (paths : Table K) (starts : List Nat) (fs : FS) (ak : Arr Int × K)
    (t : List (Arr Int × K)) :
    memmapHandlerRun paths starts fs (ak :: t) =
      (memmapHandlerCall paths starts fs ak.1 ak.2).bind (fun fs1 => memmapHandlerRun paths starts fs1 t) := by
  simp only [memmapHandlerRun, List.foldl_cons, Option.bind_some]
  cases memmapHandlerCall paths starts fs ak.1 ak.2 with
  | some fs1 => rfl
  | none =>
    simp only [Option.bind_none]
    induction t with
    | nil => rfl
    | cons x t ih => simpa [List.foldl_cons] using ih

theorem memmapHandler_spec (paths : Table K) (starts : List Nat) : ∀ (h : List (Arr Int × K)) (fs : FS),
    (∀ ak ∈ h, (lookup ak.2 paths).isSome) →
    ∃ fs', memmapHandlerRun paths starts fs h = some fs' ∧ fs'.length = fs.length ∧
      ∀ p, (fs'.read p).shape = (fs.read p).shape ∧
        ∀ idx, p < fs.length → inShape (fs.read p).shape idx = true →
          (fs'.read p).getD idx 0 = (fs.read p).getD idx 0 + handlerAdded paths starts h p idx
  | [], fs, _ => ⟨fs, rfl, rfl, fun p => ⟨rfl, fun idx _ _ => by simp [handlerAdded]⟩⟩
  | ak :: t, fs, hk => by
      obtain ⟨p0, hp0⟩ := Option.isSome_iff_exists.mp (hk ak List.mem_cons_self)
      let g : List Nat → Int := fun idx =>
        match localIdx starts ak.1.shape idx with
        | some q => (fs.read p0).getD idx 0 + ak.1.getD q 0
        | none => (fs.read p0).getD idx 0
      have hcall : memmapHandlerCall paths starts fs ak.1 ak.2 =
          some (fs.write p0 (Arr.ofFn (fs.read p0).shape g)) := by
        unfold memmapHandlerCall
        simp only [hp0]
        rfl
      obtain ⟨fs', hrun, hlen, hfiles⟩ := memmapHandler_spec paths starts t
        (fs.write p0 (Arr.ofFn (fs.read p0).shape g)) (fun x hx => hk x (List.mem_cons_of_mem _ hx))
      refine ⟨fs', ?_, ?_, ?_⟩
      · rw [memmapHandlerRun_cons, hcall]; exact hrun
      · rw [hlen, FS.length_write]
      · intro p
        obtain ⟨hsh, hval⟩ := hfiles p
        have hread : (fs.write p0 (Arr.ofFn (fs.read p0).shape g)).read p =
            if p0 = p ∧ p0 < fs.length then Arr.ofFn (fs.read p0).shape g else fs.read p := FS.read_write _ _ _ _
        rw [FS.length_write] at hval
        by_cases hc : p0 = p ∧ p0 < fs.length
        · have e := hc.1
          subst e
          rw [hread, if_pos hc] at hsh hval
          refine ⟨hsh, ?_⟩
          intro idx hlt hin
          have hin' : inShape (Arr.ofFn (fs.read p0).shape g).shape idx = true := hin
          rw [hval idx hlt hin', Arr.getD_ofFn _ _ _ _ hin]
          simp only [handlerAdded, hp0, if_true, g]
          cases localIdx starts ak.1.shape idx with
          | none => simp
          | some q => simp; omega
        · rw [hread, if_neg hc] at hsh hval
          refine ⟨hsh, ?_⟩
          intro idx hlt hin
          rw [hval idx hlt hin]
          have hne : ¬ (lookup ak.2 paths = some p) := by
            rw [hp0]; intro h'
            exact hc ⟨Option.some.inj h', by rw [Option.some.inj h']; exact hlt⟩
          simp only [handlerAdded, hne, if_false]
          omega

/-! ## `merge(score_threshold=…)` with a threshold at least as large as the stores' -/

theorem mergeStep_cell_raise {thr thr' : Int} {out : List Nat} {new : Table K} {acc : Arr Int × Arr Int} {S : Store K}
    {done ts : List (Tile K)} {p : List Nat} (hle : thr ≤ thr')
    (hp : inShape out p = true) (rep : Represents thr S ts)
    (hnew : ∀ k i, lookup k S.table = some i → (lookup k new).isSome)
    (c : CellOK thr' new done p (acc.1.getD p 0) (acc.2.getD p 0)) :
    CellOK thr' new (done ++ ts) p ((mergeStep out new acc S).1.getD p 0) ((mergeStep out new acc S).2.getD p 0) := by
  obtain ⟨cv, cr⟩ := c
  have hge' : thr' ≤ acc.1.getD p 0 := by rw [cv]; exact le_specMax _ _
  have hge : thr ≤ acc.1.getD p 0 := by omega
  have hsub : ∀ t ∈ done, t ∈ done ++ ts := fun t h => List.mem_append_left _ h
  have hsub' : ∀ t ∈ ts, t ∈ done ++ ts := fun t h => List.mem_append_right _ h
  have keep : ∀ (r : Int), ((r = -1 ∧ acc.1.getD p 0 = thr') ∨ ∃ k i, lookup k new = some i ∧ r = (i : Int) ∧
        Attains done p k (acc.1.getD p 0) ∧ thr' < acc.1.getD p 0) →
      ((r = -1 ∧ acc.1.getD p 0 = thr') ∨ ∃ k i, lookup k new = some i ∧ r = (i : Int) ∧
        Attains (done ++ ts) p k (acc.1.getD p 0) ∧ thr' < acc.1.getD p 0) := by
    rintro r (h | ⟨k, i, a, b, c, d⟩)
    · exact Or.inl h
    · exact Or.inr ⟨k, i, a, b, c.mono hsub, d⟩
  simp only [mergeStep]
  rw [Arr.getD_ofFn _ _ _ _ hp, Arr.getD_ofFn _ _ _ _ hp]
  cases hl : localIdx S.offset S.scores.shape p with
  | none =>
    simp only []
    refine ⟨?_, keep _ cr⟩
    rw [allVals_append, rep.outside p hl, List.append_nil]; exact cv
  | some q =>
    simp only []
    obtain ⟨sv, sr⟩ := rep.cell p q hl
    have hmax : specMax thr' (allVals (done ++ ts) p) = max (acc.1.getD p 0) (S.scores.getD q 0) := by
      rw [allVals_append, specMax_append, ← cv, sv, max_specMax _ hge]
    by_cases hgt : S.scores.getD q 0 > acc.1.getD p 0
    · simp only [hgt, if_true]
      refine ⟨by rw [hmax]; omega, ?_⟩
      rcases sr with ⟨_, h2⟩ | ⟨k, i, hk, hr, hat, ht⟩
      · omega
      · right
        have hs := hnew k i hk
        obtain ⟨j, hj⟩ := Option.isSome_iff_exists.mp hs
        exact ⟨k, j, hj, by rw [hr]; exact lutGet_lookupTable rep.table_ok hk hj, hat.mono hsub', by omega⟩
    · simp only [hgt, if_false]
      exact ⟨by rw [hmax]; omega, keep _ cr⟩

theorem mergeFold_cell_raise {thr' : Int} {out : List Nat} {new : Table K} {p : List Nat} (hp : inShape out p = true) :
    ∀ (pairs : List (Store K × List (Tile K))) (acc : Arr Int × Arr Int) (done : List (Tile K)),
    (∀ pr ∈ pairs, ∃ thr, thr ≤ thr' ∧ Represents thr pr.1 pr.2) →
    (∀ pr ∈ pairs, ∀ k i, lookup k pr.1.table = some i → (lookup k new).isSome) →
    CellOK thr' new done p (acc.1.getD p 0) (acc.2.getD p 0) →
    let F := (pairs.map Prod.fst).foldl (mergeStep out new) acc
    CellOK thr' new (done ++ (pairs.map Prod.snd).flatten) p (F.1.getD p 0) (F.2.getD p 0) := by
  intro pairs
  induction pairs with
  | nil => intro acc done _ _ c; simpa using c
  | cons pr pairs ih =>
    intro acc done hrep hnew c
    obtain ⟨thr, hle, rep⟩ := hrep pr List.mem_cons_self
    have c' := mergeStep_cell_raise (out := out) (acc := acc) hle hp rep (hnew pr List.mem_cons_self) c
    have := ih (mergeStep out new acc pr.1) (done ++ pr.2)
      (fun x hx => hrep x (List.mem_cons_of_mem _ hx)) (fun x hx => hnew x (List.mem_cons_of_mem _ hx)) c'
    simpa [List.append_assoc] using this

/-- the general path of `merge` called with a threshold `thr'`: stores that are correct aggregates for thresholds
not above `thr'` (each its own) merge into a correct aggregate for `thr'` -/
theorem mergeMany_represents_raise {thr' : Int} {d : Nat} (pairs : List (Store K × List (Tile K)))
    (hrep : ∀ pr ∈ pairs, ∃ thr, thr ≤ thr' ∧ Represents thr pr.1 pr.2) (hd : SameDim d (pairs.map Prod.fst)) :
    Represents thr' (mergeMany thr' (pairs.map Prod.fst)) (pairs.map Prod.snd).flatten := by
  have hnew : ∀ pr ∈ pairs, ∀ k i, lookup k pr.1.table = some i → (lookup k (newTable (pairs.map Prod.fst))).isSome := by
    intro pr hpr k i hk
    rw [newTable_keys]
    exact ⟨pr.1, List.mem_map.mpr ⟨pr, hpr, rfl⟩, by simp [hk]⟩
  have hshape := mergeFold_shape (outShape (pairs.map Prod.fst)) (newTable (pairs.map Prod.fst)) (pairs.map Prod.fst)
    (Arr.ofFn (outShape (pairs.map Prod.fst)) (fun _ => thr'), Arr.ofFn (outShape (pairs.map Prod.fst)) (fun _ => -1)) rfl rfl
  refine ⟨newTable_ok _, ?_, ?_, ?_⟩
  · intro k
    simp only [mergeMany]
    rw [newTable_keys]
    constructor
    · rintro ⟨S, hS, hk⟩
      obtain ⟨pr, hpr, rfl⟩ := List.mem_map.mp hS
      obtain ⟨_, _, rep⟩ := hrep pr hpr
      obtain ⟨t, ht, a, ha⟩ := (rep.keys k).mp hk
      exact ⟨t, List.mem_flatten.mpr ⟨pr.2, List.mem_map.mpr ⟨pr, hpr, rfl⟩, ht⟩, a, ha⟩
    · rintro ⟨t, ht, a, ha⟩
      obtain ⟨ts, hts, htm⟩ := List.mem_flatten.mp ht
      obtain ⟨pr, hpr, rfl⟩ := List.mem_map.mp hts
      obtain ⟨_, _, rep⟩ := hrep pr hpr
      exact ⟨pr.1, List.mem_map.mpr ⟨pr, hpr, rfl⟩, (rep.keys k).mpr ⟨t, htm, a, ha⟩⟩
  · intro p hp
    simp only [mergeMany] at hp
    rw [hshape.1, localIdx_zero] at hp
    have hout : ¬ inShape (outShape (pairs.map Prod.fst)) p = true := by
      intro h; simp [h] at hp
    apply allVals_flatten_nil
    intro ts hts
    obtain ⟨pr, hpr, rfl⟩ := List.mem_map.mp hts
    obtain ⟨_, _, rep⟩ := hrep pr hpr
    apply rep.outside
    cases hl : localIdx pr.1.offset pr.1.scores.shape p with
    | none => rfl
    | some q =>
      exfalso; apply hout
      exact localIdx_inShape_of_le hl (boxEnd_le_outShape hd (List.mem_map.mpr ⟨pr, hpr, rfl⟩))
  · intro p q hl
    simp only [mergeMany] at hl ⊢
    rw [hshape.1, localIdx_zero] at hl
    by_cases hp : inShape (outShape (pairs.map Prod.fst)) p = true
    · simp [hp] at hl; subst hl
      have c0 : CellOK thr' (newTable (pairs.map Prod.fst)) ([] : List (Tile K)) p
          ((Arr.ofFn (outShape (pairs.map Prod.fst)) (fun _ => thr')).getD p 0)
          ((Arr.ofFn (outShape (pairs.map Prod.fst)) (fun _ => (-1 : Int))).getD p 0) := by
        rw [Arr.getD_ofFn _ _ _ _ hp, Arr.getD_ofFn _ _ _ _ hp]
        exact ⟨rfl, Or.inl ⟨rfl, rfl⟩⟩
      have := mergeFold_cell_raise hp pairs (Arr.ofFn (outShape (pairs.map Prod.fst)) (fun _ => thr'), Arr.ofFn (outShape (pairs.map Prod.fst)) (fun _ => (-1 : Int))) [] hrep hnew c0
      simpa using this
    · simp [hp] at hl

/-! ## `only_unique_rotations`, any history: identifiers are positions in the history -/

theorem maxUpdate_fst_getD (sc mx rt : Arr Int) (ri : Int) (idx : List Nat) (h : inShape mx.shape idx = true) :
    (maxUpdate sc mx rt ri).1.getD idx 0 = max (mx.getD idx 0) (sc.getD idx 0) := by
  simp only [maxUpdate]
  rw [Arr.getD_ofFn _ _ _ _ h]
  split <;> omega

theorem maxUpdate_snd_getD (sc mx rt : Arr Int) (ri : Int) (idx : List Nat) (h : inShape mx.shape idx = true) :
    (maxUpdate sc mx rt ri).2.getD idx 0 = if sc.getD idx 0 > mx.getD idx 0 then ri else rt.getD idx 0 := by
  simp only [maxUpdate]
  rw [Arr.getD_ofFn _ _ _ _ h]

/-- what is true of the identifier → matrix analyzer after exactly the history `h` (any history) -/
structure InvI (shape : List Nat) (thr : Int) (h : List (Arr Int × K)) (s : IState K) : Prop where
  shape_sc : s.scores.shape = shape
  imap_eq : s.imap = (List.range h.length).zip (h.map Prod.snd)
  score : ∀ idx, inShape shape idx = true → s.scores.getD idx 0 = specMax thr (valsAt h idx)
  rot : ∀ idx, inShape shape idx = true →
    (s.rots.getD idx 0 = -1 ∧ s.scores.getD idx 0 = thr) ∨
    (∃ (i : Nat) (a : Arr Int) (k : K), h[i]? = some (a, k) ∧ s.rots.getD idx 0 = (i : Int) ∧
      a.getD idx 0 = s.scores.getD idx 0 ∧ thr < s.scores.getD idx 0)

theorem invI_init (shape : List Nat) (thr : Int) : InvI (K := K) shape thr [] (initInv shape thr) where
  shape_sc := rfl
  imap_eq := rfl
  score := by
    intro idx h
    simp only [initInv, valsAt, List.map_nil, specMax_nil]
    rw [Arr.getD_ofFn _ _ _ _ h]
  rot := by
    intro idx h
    left
    simp only [initInv]
    rw [Arr.getD_ofFn _ _ _ _ h, Arr.getD_ofFn _ _ _ _ h]
    exact ⟨rfl, rfl⟩

theorem invI_submit {shape : List Nat} {thr : Int} {h : List (Arr Int × K)} {s : IState K}
    (inv : InvI shape thr h s) (a : Arr Int) (k : K) : InvI shape thr (h ++ [(a, k)]) (submitInv s a k) := by
  have hlen : s.imap.length = h.length := by rw [inv.imap_eq]; simp
  have hnot : s.imap.length ∉ s.imap.map Prod.fst := by
    rw [hlen, inv.imap_eq]
    intro hm
    obtain ⟨x, hx, e⟩ := List.mem_map.mp hm
    have := (List.of_mem_zip hx).1
    rw [e] at this
    simp at this
  refine ⟨?_, ?_, ?_, ?_⟩
  · simp only [submitInv, maxUpdate]; exact inv.shape_sc
  · simp only [submitInv]
    rw [dictSet_notin _ _ _ hnot, hlen, inv.imap_eq]
    simp only [List.length_append, List.length_singleton, List.map_append, List.map_cons, List.map_nil,
      List.range_succ]
    rw [List.zip_append (by simp)]
    simp
  · intro idx hin
    have hin' : inShape s.scores.shape idx = true := by rw [inv.shape_sc]; exact hin
    simp only [submitInv]
    rw [maxUpdate_fst_getD _ _ _ _ _ hin', inv.score idx hin, valsAt_snoc, specMax_append]
    rfl
  · intro idx hin
    have hin' : inShape s.scores.shape idx = true := by rw [inv.shape_sc]; exact hin
    simp only [submitInv]
    rw [maxUpdate_fst_getD _ _ _ _ _ hin', maxUpdate_snd_getD _ _ _ _ _ hin']
    have hge : thr ≤ s.scores.getD idx 0 := by rw [inv.score idx hin]; exact le_specMax _ _
    by_cases hgt : a.getD idx 0 > s.scores.getD idx 0
    · right
      refine ⟨h.length, a, k, by simp, by simp [hgt, hlen], ?_, ?_⟩ <;> omega
    · rcases inv.rot idx hin with ⟨h1, h2⟩ | ⟨i, a', k', hm, hr, hv, ht⟩
      · left; simp only [hgt, if_false]; exact ⟨h1, by omega⟩
      · right
        have hi : i < h.length := by
          by_contra hc
          rw [List.getElem?_eq_none (by omega)] at hm
          cases hm
        refine ⟨i, a', k', by rw [List.getElem?_append_left hi]; exact hm, by simp only [hgt, if_false]; exact hr, ?_, ?_⟩ <;> omega

theorem invI_fold {shape : List Nat} {thr : Int} (h : List (Arr Int × K)) :
    ∀ (h0 : List (Arr Int × K)) (s : IState K), InvI shape thr h0 s →
      InvI shape thr (h0 ++ h) (h.foldl (fun s ak => submitInv s ak.1 ak.2) s) := by
  induction h with
  | nil => intro h0 s inv; simpa using inv
  | cons x l ih =>
    intro h0 s inv
    obtain ⟨a, k⟩ := x
    have := ih (h0 ++ [(a, k)]) (submitInv s a k) (invI_submit inv a k)
    simpa [List.append_assoc] using this

theorem invI_run (shape : List Nat) (thr : Int) (h : List (Arr Int × K)) : InvI shape thr h (runInv shape thr h) := by
  have := invI_fold h [] (initInv shape thr) (invI_init shape thr)
  simpa [runInv] using this

theorem mem_imap_of_getElem? {h : List (Arr Int × K)} {i : Nat} {a : Arr Int} {k : K} (hm : h[i]? = some (a, k)) :
    (i, k) ∈ (List.range h.length).zip (h.map Prod.snd) := by
  have hi : i < h.length := by
    by_contra hc
    rw [List.getElem?_eq_none (by omega)] at hm
    cases hm
  rw [List.mem_iff_getElem?]
  refine ⟨i, ?_⟩
  rw [List.getElem?_zip_eq_some]
  refine ⟨by simp [hi], ?_⟩
  simp [hm]

/-! ## several results written to files one after the other -/

theorem storeToFiles_spec (fs : FS) (s : Store K) :
    (storeToFiles fs s).1.length = fs.length + 2 ∧
    (∀ q < fs.length, (storeToFiles fs s).1.read q = fs.read q) ∧
    (storeToFiles fs s).1.read (storeToFiles fs s).2.scores = s.scores ∧
    (storeToFiles fs s).1.read (storeToFiles fs s).2.rots = s.rots ∧
    (storeToFiles fs s).2.scores = fs.length ∧ (storeToFiles fs s).2.rots = fs.length + 1 ∧
    (storeToFiles fs s).2.offset = s.offset ∧ (storeToFiles fs s).2.table = s.table := by
  refine ⟨by simp [storeToFiles, FS.create], ?_, ?_, ?_, by simp [storeToFiles, FS.create],
    by simp [storeToFiles, FS.create], rfl, rfl⟩
  · intro q hq
    simp only [storeToFiles]
    rw [FS.read_create_old _ _ (by simp [FS.create]; omega), FS.read_create_old _ _ hq]
  · simp only [storeToFiles]
    rw [FS.read_create_old _ _ (by simp [FS.create]), FS.read_create_new]
  · simp only [storeToFiles]
    exact FS.read_create_new _ _

theorem iterMemAll_spec : ∀ (ss : List (Store K)) (fs : FS),
    (iterMemAll fs ss).1.length = fs.length + 2 * ss.length ∧
    (∀ q < fs.length, (iterMemAll fs ss).1.read q = fs.read q) ∧
    (iterMemAll fs ss).2.map (MStore.load (iterMemAll fs ss).1) = ss ∧
    (∀ m ∈ (iterMemAll fs ss).2, m.Valid (iterMemAll fs ss).1)
  | [], fs => ⟨by simp [iterMemAll], fun _ _ => rfl, rfl, by intro m hm; cases hm⟩
  | s :: ss, fs => by
      obtain ⟨l1, o1, sc1, rt1, ps1, pr1, of1, tb1⟩ := storeToFiles_spec fs s
      obtain ⟨l2, o2, ld2, v2⟩ := iterMemAll_spec ss (storeToFiles fs s).1
      have hfs : (iterMemAll fs (s :: ss)).1 = (iterMemAll (storeToFiles fs s).1 ss).1 := rfl
      have hms : (iterMemAll fs (s :: ss)).2 = (storeToFiles fs s).2 :: (iterMemAll (storeToFiles fs s).1 ss).2 := rfl
      refine ⟨?_, ?_, ?_, ?_⟩
      · rw [hfs, l2, l1]; simp only [List.length_cons]; omega
      · intro q hq
        rw [hfs, o2 q (by omega), o1 q hq]
      · rw [hfs, hms, List.map_cons, ld2]
        congr 1
        simp only [MStore.load]
        rw [o2 _ (by rw [ps1, l1]; omega), o2 _ (by rw [pr1, l1]; omega), sc1, rt1, of1, tb1]
      · intro m hm
        rw [hms] at hm
        rw [hfs]
        rcases List.mem_cons.mp hm with e | hm'
        · subst e
          simp only [MStore.Valid]
          rw [ps1, pr1, l2, l1]
          omega
        · exact v2 m hm'

/-! ## the inverted dict, any history -/

theorem lookup_dictSet (t : Table K) (k k' : K) (v : Nat) :
    lookup k' (dictSet t k v) = if k = k' then some v else lookup k' t := by
  induction t with
  | nil =>
    simp only [dictSet, lookup]
  | cons kv t ih =>
    obtain ⟨k0, v0⟩ := kv
    simp only [dictSet]
    by_cases e : k0 = k
    · subst e
      simp only [if_true, lookup]
      by_cases e' : k0 = k' <;> simp [e']
    · simp only [e, if_false, lookup]
      by_cases e' : k0 = k'
      · subst e'
        simp [Ne.symm e]
      · simp only [e', if_false, ih]

/-- the value the inverted dict holds for `k`: the identifier of the *last* entry that carries `k` -/
def lastId (m : List (Nat × K)) (k : K) : Option Nat :=
  ((m.filter (fun ik => decide (ik.2 = k))).getLast?).map Prod.fst

theorem lastId_cons (x : Nat × K) (m : List (Nat × K)) (k : K) :
    lastId (x :: m) k = match lastId m k with
      | some i => some i
      | none => if x.2 = k then some x.1 else none := by
  unfold lastId
  by_cases e : x.2 = k
  · simp only [List.filter_cons, e, decide_true, if_true, List.getLast?_cons]
    generalize (List.filter (fun ik => decide (ik.2 = k)) m).getLast? = o
    cases o <;> rfl
  · simp only [List.filter_cons, e, decide_false, if_false, Bool.false_eq_true]
    generalize (List.filter (fun ik => decide (ik.2 = k)) m).getLast? = o
    cases o <;> rfl

theorem invertMap_fold_lookup (k : K) : ∀ (m : List (Nat × K)) (acc : Table K),
    lookup k (m.foldl (fun t ik => dictSet t ik.2 ik.1) acc) =
      match lastId m k with
      | some i => some i
      | none => lookup k acc
  | [], acc => rfl
  | x :: m, acc => by
      rw [List.foldl_cons, invertMap_fold_lookup k m, lastId_cons, lookup_dictSet]
      cases lastId m k with
      | some i => rfl
      | none =>
        by_cases e : x.2 = k <;> simp [e]

theorem invertMap_lookup (m : List (Nat × K)) (k : K) : lookup k (invertMap m) = lastId m k := by
  unfold invertMap
  rw [invertMap_fold_lookup]
  cases lastId m k <;> rfl

/-! ## ties keep the first -/

/-- the submission at position `j` is the first one whose array holds `v` at `idx`, and nothing before it reaches `v` -/
def FirstAt (h : List (Arr Int × K)) (idx : List Nat) (j : Nat) (v : Int) : Prop :=
  (∃ a k, h[j]? = some (a, k) ∧ a.getD idx 0 = v) ∧
  ∀ (j' : Nat) (a' : Arr Int) (k' : K), j' < j → h[j']? = some (a', k') → a'.getD idx 0 < v

/-- ties keep the first: invariant of one analyzer over its history -/
structure InvFirst (shape : List Nat) (thr : Int) (h : List (Arr Int × K)) (s : State K) : Prop where
  base : Inv shape thr h s
  first : ∀ idx, inShape shape idx = true → s.rots.getD idx 0 ≠ -1 →
    ∃ j a k i, h[j]? = some (a, k) ∧ lookup k s.table = some i ∧ s.rots.getD idx 0 = (i : Int) ∧
      FirstAt h idx j (s.scores.getD idx 0)

theorem invFirst_init (shape : List Nat) (thr : Int) : InvFirst (K := K) shape thr [] (init shape thr) where
  base := inv_init shape thr
  first := by
    intro idx hin hr
    exfalso; apply hr
    simp only [init]
    rw [Arr.getD_ofFn _ _ _ _ hin]

theorem getElem?_lt {α : Type} {l : List α} {j : Nat} {x : α} (h : l[j]? = some x) : j < l.length := by
  by_contra hc
  rw [List.getElem?_eq_none (by omega)] at h
  cases h

theorem invFirst_submit {shape : List Nat} {thr : Int} {h : List (Arr Int × K)} {s : State K}
    (inv : InvFirst shape thr h s) (a : Arr Int) (k : K) : InvFirst shape thr (h ++ [(a, k)]) (submit s a k) := by
  obtain ⟨hlk, hold, _⟩ := setdefault_spec s.table k
  refine ⟨inv_submit inv.base a k, ?_⟩
  intro idx hin hr
  have hin' : inShape s.scores.shape idx = true := by rw [inv.base.shape_sc]; exact hin
  rw [submit_scores_getD s a k idx hin', submit_rots_getD s a k idx hin', submit_table] at *
  have hge : thr ≤ s.scores.getD idx 0 := by rw [inv.base.score idx hin]; exact le_specMax _ _
  have hall : ∀ (j' : Nat) (a' : Arr Int) (k' : K), h[j']? = some (a', k') → a'.getD idx 0 ≤ s.scores.getD idx 0 := by
    intro j' a' k' hj
    rw [inv.base.score idx hin]
    apply mem_le_specMax
    simp only [valsAt, List.mem_map]
    exact ⟨(a', k'), List.mem_of_getElem? hj, rfl⟩
  by_cases hgt : a.getD idx 0 > s.scores.getD idx 0
  · refine ⟨h.length, a, k, (setdefault s.table k).2, by simp, hlk, by simp [hgt], ⟨⟨a, k, by simp, by omega⟩, ?_⟩⟩
    intro j' a' k' hj' hj
    rw [List.getElem?_append_left hj'] at hj
    have := hall j' a' k' hj
    omega
  · simp only [hgt, if_false] at hr ⊢
    obtain ⟨j, a0, k0, i, hj, hl, hri, ⟨⟨a1, k1, hj1, hv⟩, hbefore⟩⟩ := inv.first idx hin hr
    have hjl := getElem?_lt hj
    refine ⟨j, a0, k0, i, by rw [List.getElem?_append_left hjl]; exact hj, hold k0 i hl, hri, ⟨⟨a1, k1, ?_, by omega⟩, ?_⟩⟩
    · rw [List.getElem?_append_left hjl]; exact hj1
    · intro j' a' k' hj' hjj
      rw [List.getElem?_append_left (by omega)] at hjj
      have := hbefore j' a' k' hj' hjj
      omega

theorem invFirst_runFrom {shape : List Nat} {thr : Int} (h : List (Arr Int × K)) :
    ∀ (h0 : List (Arr Int × K)) (s : State K), InvFirst shape thr h0 s → InvFirst shape thr (h0 ++ h) (runFrom s h) := by
  induction h with
  | nil => intro h0 s inv; simpa [runFrom] using inv
  | cons x l ih =>
    intro h0 s inv
    obtain ⟨a, k⟩ := x
    have := ih (h0 ++ [(a, k)]) (submit s a k) (invFirst_submit inv a k)
    simpa [runFrom, List.append_assoc] using this

theorem invFirst_run (shape : List Nat) (thr : Int) (h : List (Arr Int × K)) : InvFirst shape thr h (run shape thr h) := by
  have := invFirst_runFrom h [] (init shape thr) (invFirst_init shape thr)
  simpa [run] using this

end Pm.C04
