import PytmeModel.Model.C10
import PytmeModel.Proofs.Common
import Mathlib.Data.Rat.Floor
import Mathlib.Tactic.Linarith
import Mathlib.Tactic.Ring
import Mathlib.Tactic.FieldSimp

/-! Helper lemmas for C10: half-even rounding on exact rationals, one accumulating update of a
dense grid, folds of updates, bounds filter. -/
namespace Pm.C10

/-! ## `rint` -/
theorem floor_eq (q : Rat) : q.floor = ⌊q⌋ := rfl

theorem rint_cases0 (q : Rat) :
    (q - (q.floor : Rat) < 1/2 ∧ rint q = q.floor) ∨ (1/2 < q - (q.floor : Rat) ∧ rint q = q.floor + 1) ∨
    (q - (q.floor : Rat) = 1/2 ∧ q.floor % 2 = 0 ∧ rint q = q.floor) ∨
    (q - (q.floor : Rat) = 1/2 ∧ q.floor % 2 ≠ 0 ∧ rint q = q.floor + 1) := by
  unfold rint
  by_cases h3 : q - (q.floor : Rat) < 1/2
  · left; exact ⟨h3, by simp only [if_pos h3]⟩
  · by_cases h4 : 1/2 < q - (q.floor : Rat)
    · right; left; exact ⟨h4, by simp only [if_neg h3, if_pos h4]⟩
    · have h5 : q - (q.floor : Rat) = 1/2 := le_antisymm (not_lt.mp h4) (not_lt.mp h3)
      by_cases h6 : q.floor % 2 = 0
      · right; right; left; exact ⟨h5, h6, by simp only [if_neg h3, if_neg h4, if_pos h6]⟩
      · right; right; right; exact ⟨h5, h6, by simp only [if_neg h3, if_neg h4, if_neg h6]⟩

theorem rint_cases (q : Rat) :
    (q - (⌊q⌋ : Rat) < 1/2 ∧ rint q = ⌊q⌋) ∨ (1/2 < q - (⌊q⌋ : Rat) ∧ rint q = ⌊q⌋ + 1) ∨
    (q - (⌊q⌋ : Rat) = 1/2 ∧ ⌊q⌋ % 2 = 0 ∧ rint q = ⌊q⌋) ∨
    (q - (⌊q⌋ : Rat) = 1/2 ∧ ⌊q⌋ % 2 ≠ 0 ∧ rint q = ⌊q⌋ + 1) := rint_cases0 q

theorem rint_bounds (q : Rat) : q - 1/2 ≤ (rint q : Rat) ∧ (rint q : Rat) ≤ q + 1/2 := by
  have h1 : ((⌊q⌋ : Int) : Rat) ≤ q := Int.floor_le q
  have h2 : q < ((⌊q⌋ : Int) : Rat) + 1 := Int.lt_floor_add_one q
  rcases rint_cases q with ⟨h, e⟩ | ⟨h, e⟩ | ⟨h, _, e⟩ | ⟨h, _, e⟩ <;> rw [e] <;> push_cast <;> constructor <;> linarith

/-- off ties the nearest integer is unique -/
theorem rint_unique (q : Rat) (z : Int) (h1 : q - 1/2 < (z : Rat)) (h2 : (z : Rat) < q + 1/2) : rint q = z := by
  have hb := rint_bounds q
  have : ((rint q : Int) : Rat) - z < 1 := by linarith
  have : (z : Rat) - (rint q : Int) < 1 := by linarith
  have a : rint q - z < 1 := by exact_mod_cast ‹((rint q : Int) : Rat) - z < 1›
  have b : z - rint q < 1 := by exact_mod_cast ‹(z : Rat) - (rint q : Int) < 1›
  omega

theorem isTie_iff (q : Rat) : isTie q = true ↔ q - (⌊q⌋ : Rat) = 1/2 := by
  unfold isTie; rw [floor_eq]; simp

theorem rint_sub_int (q : Rat) (k : Int) (h : isTie q = false ∨ k % 2 = 0) :
    rint (q - k) = rint q - k := by
  have hf : ⌊q - (k : Rat)⌋ = ⌊q⌋ - k := Int.floor_sub_intCast q k
  have hd : q - (k : Rat) - ((⌊q⌋ - k : Int) : Rat) = q - (⌊q⌋ : Rat) := by push_cast; ring
  rcases rint_cases q with ⟨c, e⟩ | ⟨c, e⟩ | ⟨c, p, e⟩ | ⟨c, p, e⟩ <;>
  rcases rint_cases (q - k) with ⟨c', e'⟩ | ⟨c', e'⟩ | ⟨c', p', e'⟩ | ⟨c', p', e'⟩ <;>
  rw [hf, hd] at c' <;> rw [e, e', hf] <;> first
    | omega
    | (exfalso; linarith)
    | (exfalso; rcases h with h | h
       · have := (isTie_iff q).mpr c; simp_all
       · rw [hf] at p'; omega)

/-! ## grid updates -/
theorem flatIdx_inj {s a b : List Nat} (ha : inShape s a = true) (hb : inShape s b = true)
    (h : flatIdx s a = flatIdx s b) : a = b := by
  rw [← unflat_flatIdx ha, ← unflat_flatIdx hb, h]

theorem zeros_shape (s : List Nat) : (zeros s).shape = s := rfl
theorem zeros_size (s : List Nat) : (zeros s).data.size = prodL (zeros s).shape := by simp [zeros]

theorem zeros_getD (s v : List Nat) : (zeros s).getD v 0 = 0 := by
  unfold Arr.getD zeros
  split
  · simp [Array.getD_eq_getD_getElem?, Array.getElem?_replicate]; split <;> rfl
  · rfl

theorem addAt_shape (g : Arr Int) (idx : List Nat) (w : Int) : (addAt g idx w).shape = g.shape := by
  unfold addAt; split <;> rfl

theorem addAt_size (g : Arr Int) (idx : List Nat) (w : Int) : (addAt g idx w).data.size = g.data.size := by
  unfold addAt; split
  · simp
  · rfl

/-- one accumulating update changes exactly the addressed voxel, by exactly the weight -/
theorem getD_addAt (g : Arr Int) (hsz : g.data.size = prodL g.shape) (idx v : List Nat) (w : Int)
    (hi : inShape g.shape idx = true) (hv : inShape g.shape v = true) :
    (addAt g idx w).getD v 0 = g.getD v 0 + (if v = idx then w else 0) := by
  have hlt := flatIdx_lt hi
  have hltv := flatIdx_lt hv
  unfold addAt
  simp only [hi, if_true]
  unfold Arr.getD
  simp only [hv, if_true]
  rw [Array.getD_eq_getD_getElem?, Array.getElem?_setIfInBounds, Array.getD_eq_getD_getElem?,
    Array.getD_eq_getD_getElem?]
  by_cases hvi : v = idx
  · subst hvi
    simp [hsz, hltv]
  · have : flatIdx g.shape idx ≠ flatIdx g.shape v := fun h => hvi (flatIdx_inj hv hi h.symm)
    simp [this, hvi]

theorem list_sum_set (l : List Int) (k : Nat) (hk : k < l.length) (x : Int) :
    (l.set k x).sum = l.sum - l[k] + x := by
  induction l generalizing k with
  | nil => simp at hk
  | cons a t ih =>
    cases k with
    | zero => simp; omega
    | succ k =>
      simp only [List.set_cons_succ, List.sum_cons, List.getElem_cons_succ]
      rw [ih k (by simpa using hk)]; omega

theorem sum_addAt (g : Arr Int) (hsz : g.data.size = prodL g.shape) (idx : List Nat) (w : Int)
    (hi : inShape g.shape idx = true) :
    (addAt g idx w).data.toList.sum = g.data.toList.sum + w := by
  have hlt := flatIdx_lt hi
  unfold addAt
  simp only [hi, if_true]
  rw [Array.toList_setIfInBounds, list_sum_set _ _ (by simpa [hsz] using hlt)]
  rw [Array.getD_eq_getD_getElem?]
  simp [hsz, hlt]
  omega


/-! ## folds of updates -/

def step (g : Arr Int) (pw : List Nat × Int) : Arr Int := addAt g pw.1 pw.2

theorem deposit_eq (shape : List Nat) (ps : List (List Nat × Int)) :
    deposit shape ps = ps.foldl step (zeros shape) := rfl

theorem foldl_shape (ps : List (List Nat × Int)) (g : Arr Int) : (ps.foldl step g).shape = g.shape := by
  induction ps generalizing g with
  | nil => rfl
  | cons p t ih => simp only [List.foldl_cons]; rw [ih]; exact addAt_shape _ _ _

theorem foldl_getD (ps : List (List Nat × Int)) (g : Arr Int) (hsz : g.data.size = prodL g.shape)
    (hps : ∀ pw ∈ ps, inShape g.shape pw.1 = true) (v : List Nat) (hv : inShape g.shape v = true) :
    (ps.foldl step g).getD v 0 = g.getD v 0 + ((ps.filter (fun pw => pw.1 = v)).map (·.2)).sum := by
  induction ps generalizing g with
  | nil => simp
  | cons p t ih =>
    simp only [List.foldl_cons]
    have hp := hps p (by simp)
    have hs : (step g p).shape = g.shape := addAt_shape _ _ _
    rw [ih (step g p) (by rw [hs]; unfold step; rw [addAt_size]; exact hsz)
      (fun pw h => by rw [hs]; exact hps pw (by simp [h])) (by rw [hs]; exact hv)]
    unfold step
    rw [getD_addAt g hsz p.1 v p.2 hp hv]
    by_cases h : p.1 = v
    · simp [h]; omega
    · have h' : ¬ v = p.1 := fun e => h e.symm
      simp [h, h']

theorem foldl_sum (ps : List (List Nat × Int)) (g : Arr Int) (hsz : g.data.size = prodL g.shape)
    (hps : ∀ pw ∈ ps, inShape g.shape pw.1 = true) :
    (ps.foldl step g).data.toList.sum = g.data.toList.sum + (ps.map (·.2)).sum := by
  induction ps generalizing g with
  | nil => simp
  | cons p t ih =>
    simp only [List.foldl_cons]
    have hp := hps p (by simp)
    have hs : (step g p).shape = g.shape := addAt_shape _ _ _
    rw [ih (step g p) (by rw [hs]; unfold step; rw [addAt_size]; exact hsz)
      (fun pw h => by rw [hs]; exact hps pw (by simp [h]))]
    unfold step
    rw [sum_addAt g hsz p.1 p.2 hp]
    simp; omega

theorem zeros_sum (s : List Nat) : (zeros s).data.toList.sum = 0 := by
  simp [zeros]

/-! ## bounds filter -/

theorem inBox_cons {s x : Int} {ss xs : List Int} :
    inBox (s :: ss) (x :: xs) = true ↔ (0 ≤ x ∧ x < s) ∧ inBox ss xs = true := by
  simp [inBox]

theorem inBox_toNats : ∀ {s p : List Int}, inBox s p = true → inShape (toNats s) (toNats p) = true
  | [], [], _ => rfl
  | [], _ :: _, h => by simp [inBox] at h
  | _ :: _, [], h => by simp [inBox] at h
  | s :: ss, x :: xs, h => by
      obtain ⟨⟨h0, h1⟩, hr⟩ := inBox_cons.mp h
      have ih := inBox_toNats hr
      simp only [toNats, List.map_cons] at ih ⊢
      rw [inShape_cons]
      exact ⟨by omega, ih⟩

theorem inBox_of_inShape : ∀ {s : List Int} {v : List Nat}, inShape (toNats s) v = true →
    inBox s (v.map Int.ofNat) = true
  | [], [], _ => rfl
  | [], _ :: _, h => by simp [toNats, inShape] at h
  | _ :: _, [], h => by simp [toNats, inShape] at h
  | s :: ss, x :: xs, h => by
      simp only [toNats, List.map_cons] at h
      obtain ⟨h1, hr⟩ := inShape_cons.mp h
      simp only [List.map_cons]
      rw [inBox_cons]
      exact ⟨⟨by simp, by simp only [Int.ofNat_eq_natCast]; omega⟩, inBox_of_inShape hr⟩

theorem toNats_eq_iff : ∀ {s p : List Int} {v : List Nat}, inBox s p = true →
    (toNats p = v ↔ p = v.map Int.ofNat)
  | [], [], v, _ => by cases v <;> simp [toNats]
  | [], _ :: _, _, h => by simp [inBox] at h
  | _ :: _, [], _, h => by simp [inBox] at h
  | s :: ss, x :: xs, v, h => by
      obtain ⟨⟨h0, h1⟩, hr⟩ := inBox_cons.mp h
      cases v with
      | nil => simp [toNats]
      | cons y ys =>
        have ih := toNats_eq_iff (v := ys) hr
        simp only [toNats, List.map_cons, List.cons.injEq] at ih ⊢
        rw [ih]
        constructor
        · rintro ⟨a, b⟩; exact ⟨by simp only [Int.ofNat_eq_natCast]; omega, b⟩
        · rintro ⟨a, b⟩; exact ⟨by simp only [Int.ofNat_eq_natCast] at a; omega, b⟩

theorem sum_kept_eq (all : List (List Int × Int)) (s : List Int) (v : List Nat)
    (hv : inShape (toNats s) v = true) :
    ((((all.filter (fun pw => inBox s pw.1)).map (fun pw => (toNats pw.1, pw.2))).filter
        (fun pw => pw.1 = v)).map (·.2)).sum
      = ((all.filter (fun pw => pw.1 = v.map Int.ofNat)).map (·.2)).sum := by
  induction all with
  | nil => rfl
  | cons a t ih =>
    rcases a with ⟨p, w⟩
    by_cases hb : inBox s p = true
    · have e := toNats_eq_iff (v := v) hb
      by_cases hq : p = v.map Int.ofNat
      · have h1 : toNats p = v := e.mpr hq
        subst hq
        simp only [List.filter_cons, hb, if_true, List.map_cons, h1, decide_true, List.sum_cons]
        rw [← ih]
      · have h1 : ¬ toNats p = v := fun h => hq (e.mp h)
        simp only [List.filter_cons, hb, if_true, List.map_cons, h1, decide_false, hq]
        exact ih
    · have hq : ¬ p = v.map Int.ofNat := fun h => hb (h ▸ inBox_of_inShape hv)
      simp only [List.filter_cons, hb, hq, decide_false]
      exact ih

theorem kept_inShape (all : List (List Int × Int)) (s : List Int) :
    ∀ pw ∈ (all.filter (fun pw => inBox s pw.1)).map (fun pw => (toNats pw.1, pw.2)),
      inShape (toNats s) pw.1 = true := by
  intro pw h
  simp only [List.mem_map, List.mem_filter] at h
  obtain ⟨a, ⟨_, hb⟩, rfl⟩ := h
  exact inBox_toNats hb

theorem length_filter_not {α : Type} (l : List α) (p : α → Bool) :
    l.length - (l.filter p).length = (l.filter (fun x => !p x)).length := by
  induction l with
  | nil => rfl
  | cons a t ih =>
    have := List.length_filter_le p t
    by_cases h : p a = true
    · simp [h]; omega
    · simp [h]; omega

/-! ## left shift of the origin -/

theorem axis_shift (c o r : Rat) (l : Int) (hr : r ≠ 0) (h : isTie ((c - o) / r) = false ∨ l % 2 = 0) :
    axisIdx c (o + (l : Rat) * r) r = axisIdx c o r - l := by
  unfold axisIdx
  have : (c - (o + (l : Rat) * r)) / r = (c - o) / r - (l : Rat) := by field_simp; ring
  rw [this]; exact rint_sub_int _ _ h

/-- also at ties: the shifted index is still *a* nearest integer of the quotient w.r.t. the shifted origin -/
theorem axis_shift_nearest (c o r : Rat) (l : Int) (hr : r ≠ 0) :
    (c - (o + (l : Rat) * r)) / r - 1/2 ≤ ((axisIdx c o r - l : Int) : Rat) ∧
    ((axisIdx c o r - l : Int) : Rat) ≤ (c - (o + (l : Rat) * r)) / r + 1/2 := by
  have : (c - (o + (l : Rat) * r)) / r = (c - o) / r - (l : Rat) := by field_simp; ring
  rw [this]
  have hb := rint_bounds ((c - o) / r)
  unfold axisIdx
  push_cast
  constructor <;> linarith [hb.1, hb.2]

theorem idx_shift : ∀ (c o : List Rat) (l : List Int) (r : List Rat), (∀ x ∈ r, x ≠ 0) →
    tieFree c o l r = true →
    idxOf (zip3 (fun (o : Rat) (l : Int) (r : Rat) => o + (l : Rat) * r) o l r) r c = subPos (idxOf o r c) l
  | [], _, _, _, _, _ => by simp [idxOf, zip3, subPos]
  | _ :: _, [], _, _, _, _ => by simp [idxOf, zip3, subPos]
  | _ :: _, _ :: _, [], _, _, _ => by simp [idxOf, zip3, subPos]
  | _ :: _, _ :: _, _ :: _, [], _, _ => by simp [idxOf, zip3, subPos]
  | c :: cs, o :: os, l :: ls, r :: rs, hr, ht => by
      simp only [tieFree, Bool.and_eq_true, Bool.or_eq_true, Bool.not_eq_eq_eq_not, Bool.not_true,
        beq_iff_eq] at ht
      have ih := idx_shift cs os ls rs (fun x hx => hr x (by simp [hx])) ht.2
      simp only [idxOf, zip3, subPos, List.zipWith_cons_cons] at ih ⊢
      rw [ih, axis_shift c o r l (hr r (by simp)) ht.1]


/-! ## frames without a shift -/

theorem frame_noshift (nd : Nat) (coords : List (List Rat)) (shape : Option (List Int)) (r : List Rat)
    (origin : Option (List Rat)) (h : (origin.isSome && shape.isNone) = false) :
    (frame nd coords shape r origin).shift = List.replicate nd 0 ∧
    (frame nd coords shape r origin).origin = (frame nd coords shape r origin).origin0 := by
  unfold frame
  simp [h]

theorem subPos_zeros : ∀ (p : List Int) (nd : Nat), p.length ≤ nd → subPos p (List.replicate nd 0) = p
  | [], _, _ => by simp [subPos]
  | x :: xs, 0, h => by simp at h
  | x :: xs, n + 1, h => by
      have ih := subPos_zeros xs n (by simpa using h)
      simp only [subPos, List.replicate_succ, List.zipWith_cons_cons] at ih ⊢
      rw [ih]; simp

theorem zip3_length_le {α β γ δ : Type} (f : α → β → γ → δ) : ∀ (a : List α) (b : List β) (c : List γ),
    (zip3 f a b c).length ≤ a.length
  | [], _, _ => by simp [zip3]
  | _ :: _, [], _ => by simp [zip3]
  | _ :: _, _ :: _, [] => by simp [zip3]
  | _ :: as, _ :: bs, _ :: cs => by simp [zip3]; exact zip3_length_le f as bs cs

theorem sum_filter_split {α : Type} (l : List α) (p q : α → Bool) (w : α → Int) :
    ((l.filter q).map w).sum =
      (((l.filter p).filter q).map w).sum + (((l.filter (fun x => !p x)).filter q).map w).sum := by
  induction l with
  | nil => rfl
  | cons a t ih =>
    by_cases hp : p a = true <;> by_cases hq : q a = true <;> simp [hp, hq, ih] <;> omega

theorem frame_given (nd : Nat) (coords : List (List Rat)) (s : List Int) (r o : List Rat) :
    frame nd coords (some s) r (some o) = ⟨o, List.replicate nd 0, s, o⟩ := by
  simp [frame]

/-! ## derived shape: index plumbing, column minima / maxima -/

theorem inBox_of_forall : ∀ (s p : List Int), s.length = p.length →
    (∀ k, k < p.length → 0 ≤ p.getD k 0 ∧ p.getD k 0 < s.getD k 0) → inBox s p = true
  | [], [], _, _ => rfl
  | [], _ :: _, h, _ => by simp at h
  | _ :: _, [], h, _ => by simp at h
  | s :: ss, x :: xs, hl, h => by
      rw [inBox_cons]
      refine ⟨by simpa using h 0 (by simp), inBox_of_forall ss xs (by simpa using hl) ?_⟩
      intro k hk
      simpa using h (k + 1) (by simpa using hk)

theorem zip3_length {α β γ δ : Type} (f : α → β → γ → δ) : ∀ (a : List α) (b : List β) (c : List γ) (n : Nat),
    a.length = n → b.length = n → c.length = n → (zip3 f a b c).length = n
  | [], _, _, n, h, _, _ => by simpa [zip3] using h
  | _ :: _, [], _, n, h1, h2, _ => by simp at h1 h2; omega
  | _ :: _, _ :: _, [], n, h1, _, h3 => by simp at h1 h3; omega
  | _ :: as, _ :: bs, _ :: cs, n, h1, h2, h3 => by
      cases n with
      | zero => simp at h1
      | succ n =>
        simp only [zip3, List.length_cons]
        rw [zip3_length f as bs cs n (by simpa using h1) (by simpa using h2) (by simpa using h3)]

theorem zip3_getD {α β γ δ : Type} (f : α → β → γ → δ) (da : α) (db : β) (dc : γ) (dd : δ) :
    ∀ (a : List α) (b : List β) (c : List γ) (k : Nat), k < a.length → k < b.length → k < c.length →
    (zip3 f a b c).getD k dd = f (a.getD k da) (b.getD k db) (c.getD k dc)
  | [], _, _, _, h, _, _ => by simp at h
  | _ :: _, [], _, _, _, h, _ => by simp at h
  | _ :: _, _ :: _, [], _, _, _, h => by simp at h
  | x :: as, y :: bs, z :: cs, k, h1, h2, h3 => by
      cases k with
      | zero => simp [zip3]
      | succ k =>
        simp only [zip3, List.getD_cons_succ]
        exact zip3_getD f da db dc dd as bs cs k (by simpa using h1) (by simpa using h2) (by simpa using h3)

theorem subPos_length : ∀ (p l : List Int) (n : Nat), p.length = n → l.length = n → (subPos p l).length = n := by
  intro p l n h1 h2; simp [subPos, h1, h2]

theorem subPos_getD : ∀ (p l : List Int) (k : Nat), k < p.length → k < l.length →
    (subPos p l).getD k 0 = p.getD k 0 - l.getD k 0
  | [], _, _, h, _ => by simp at h
  | _ :: _, [], _, _, h => by simp at h
  | x :: xs, y :: ys, k, h1, h2 => by
      cases k with
      | zero => simp [subPos]
      | succ k =>
        have := subPos_getD xs ys k (by simpa using h1) (by simpa using h2)
        simpa [subPos] using this

theorem foldl_max_ge (l : List Int) (a : Int) : a ≤ l.foldl max a ∧ ∀ x ∈ l, x ≤ l.foldl max a := by
  induction l generalizing a with
  | nil => simp
  | cons y t ih =>
    simp only [List.foldl_cons, List.mem_cons]
    obtain ⟨h1, h2⟩ := ih (max a y)
    refine ⟨by omega, ?_⟩
    rintro x (rfl | hx)
    · omega
    · exact h2 x hx

theorem le_maxL (l : List Int) (x : Int) (h : x ∈ l) : x ≤ maxL l := by
  cases l with
  | nil => simp at h
  | cons a t =>
    simp only [maxL]
    rcases List.mem_cons.mp h with rfl | h
    · exact (foldl_max_ge t _).1
    · exact (foldl_max_ge t a).2 x h

theorem foldl_min_le (l : List Int) (a : Int) : l.foldl min a ≤ a ∧ ∀ x ∈ l, l.foldl min a ≤ x := by
  induction l generalizing a with
  | nil => simp
  | cons y t ih =>
    simp only [List.foldl_cons, List.mem_cons]
    obtain ⟨h1, h2⟩ := ih (min a y)
    refine ⟨by omega, ?_⟩
    rintro x (rfl | hx)
    · omega
    · exact h2 x hx

theorem minL_le (l : List Int) (x : Int) (h : x ∈ l) : minL l ≤ x := by
  cases l with
  | nil => simp at h
  | cons a t =>
    simp only [minL]
    rcases List.mem_cons.mp h with rfl | h
    · exact (foldl_min_le t _).1
    · exact (foldl_min_le t a).2 x h

theorem qmin_le (a b : Rat) : qmin a b ≤ a ∧ qmin a b ≤ b := by
  unfold qmin; split
  · exact ⟨le_refl _, by assumption⟩
  · exact ⟨le_of_lt (not_le.mp (by assumption)), le_refl _⟩

theorem foldl_qmin_le (l : List Rat) (a : Rat) : l.foldl qmin a ≤ a ∧ ∀ x ∈ l, l.foldl qmin a ≤ x := by
  induction l generalizing a with
  | nil => simp
  | cons y t ih =>
    simp only [List.foldl_cons, List.mem_cons]
    obtain ⟨h1, h2⟩ := ih (qmin a y)
    refine ⟨le_trans h1 (qmin_le a y).1, ?_⟩
    rintro x (rfl | hx)
    · exact le_trans h1 (qmin_le a x).2
    · exact h2 x hx

theorem minQ_le (l : List Rat) (x : Rat) (h : x ∈ l) : minQ l ≤ x := by
  cases l with
  | nil => simp at h
  | cons a t =>
    simp only [minQ]
    rcases List.mem_cons.mp h with rfl | h
    · exact (foldl_qmin_le t _).1
    · exact (foldl_qmin_le t a).2 x h

theorem rint_nonneg (q : Rat) (h : 0 ≤ q) : 0 ≤ rint q := by
  have hb := (rint_bounds q).1
  have : (-1 : Rat) < (rint q : Rat) := by linarith
  have : (-1 : Int) < rint q := by exact_mod_cast this
  omega

theorem range_map_getD {α : Type} (f : Nat → α) (d : α) (nd k : Nat) (h : k < nd) :
    ((List.range nd).map f).getD k d = f k := by
  simp [List.getD_eq_getElem?_getD, h]

theorem mem_col {α : Type} (d : α) (k : Nat) (rows : List (List α)) (row : List α) (h : row ∈ rows) :
    row.getD k d ∈ col d k rows := by
  unfold col; exact List.mem_map.mpr ⟨row, h, rfl⟩


theorem frame_shape_none (nd : Nat) (coords : List (List Rat)) (r : List Rat) (origin : Option (List Rat)) :
    (frame nd coords none r origin).shape = (List.range nd).map (fun k => maxL (col 0 k
      ((coords.map (idxOf (frame nd coords none r origin).origin0 r)).map
        (fun p => subPos p (frame nd coords none r origin).shift))) + 1) := by
  cases origin <;> rfl

theorem frame_shift_some (nd : Nat) (coords : List (List Rat)) (r o : List Rat) :
    (frame nd coords none r (some o)).shift =
      (List.range nd).map (fun k => minL (col 0 k (coords.map (idxOf o r)))) := rfl

theorem frame_origin0_some (nd : Nat) (coords : List (List Rat)) (r o : List Rat) :
    (frame nd coords none r (some o)).origin0 = o := rfl

theorem frame_shift_none (nd : Nat) (coords : List (List Rat)) (r : List Rat) :
    (frame nd coords none r none).shift = List.replicate nd 0 := rfl

theorem frame_origin0_none (nd : Nat) (coords : List (List Rat)) (r : List Rat) :
    (frame nd coords none r none).origin0 = (List.range nd).map (fun k => minQ (col 0 k coords)) := rfl



/-! ## exact-key lookup in an association list without duplicate keys -/
theorem find_key_of_mem {β : Type} (l : List (String × β)) (hn : (l.map (·.1)).Nodup) (k : String) (v : β)
    (hm : (k, v) ∈ l) : l.find? (fun e => e.1 == k) = some (k, v) := by
  induction l with
  | nil => simp at hm
  | cons e t ih =>
    rw [List.map_cons, List.nodup_cons] at hn
    rcases List.mem_cons.mp hm with h | h
    · subst h; simp
    · have hne : (e.1 == k) = false := by
        apply beq_false_of_ne
        intro he
        apply hn.1
        rw [he]
        exact List.mem_map.mpr ⟨(k, v), h, rfl⟩
      rw [List.find?_cons, hne]
      exact ih hn.2 h

end Pm.C10
