import PytmeModel.Model.C13
import Mathlib.Tactic.Ring
import Mathlib.Tactic.Linarith
import Mathlib.Data.Nat.GCD.Basic

/-! `next_fast_len`: the search always ends on an FFTW-fast length, and on the smallest one -/
namespace Pm.C13

theorem strip_one (p f : Nat) (hp : 1 < p) : strip p f 1 = 1 := by
  cases f with
  | zero => rfl
  | succ f =>
    unfold strip
    have : ¬ (1 % p = 0) := by rw [Nat.mod_eq_of_lt hp]; decide
    simp [this]

theorem strip_two_pow : ∀ (k f : Nat), k ≤ f → strip 2 f (2 ^ k) = 1
  | 0, f, _ => strip_one 2 f (by decide)
  | k + 1, 0, h => by omega
  | k + 1, f + 1, h => by
    unfold strip
    have hpos : 0 < 2 ^ (k + 1) := Nat.pow_pos (by decide)
    have hmod : 2 ^ (k + 1) % 2 = 0 := by rw [Nat.pow_succ]; exact Nat.mul_mod_left _ _
    have hdiv : 2 ^ (k + 1) / 2 = 2 ^ k := by rw [Nat.pow_succ]; exact Nat.mul_div_cancel _ (by decide)
    simp only [hpos, hmod, and_self, if_true, hdiv, show (1 < 2) from by decide]
    exact strip_two_pow k f (by omega)

theorem isFast_two_pow (k : Nat) : isFast (2 ^ k) = true := by
  unfold isFast
  have h2 : strip 2 (2 ^ k) (2 ^ k) = 1 := strip_two_pow k _ (Nat.le_of_lt Nat.lt_two_pow_self)
  simp only [h2, strip_one 3 _ (by decide), strip_one 5 _ (by decide), strip_one 7 _ (by decide)]
  rfl

/-- a power of two lies in `[n, 2n]` -/
theorem exists_two_pow (n : Nat) (hn : 1 ≤ n) : ∃ k, n ≤ 2 ^ k ∧ 2 ^ k ≤ 2 * n := by
  induction n using Nat.strong_induction_on with
  | _ n ih =>
    by_cases h1 : n = 1
    · exact ⟨0, by subst h1; decide, by subst h1; decide⟩
    · obtain ⟨k, hk1, hk2⟩ := ih ((n + 1) / 2) (by omega) (by omega)
      by_cases hc : 2 * 2 ^ k ≤ 2 * n
      · exact ⟨k + 1, by rw [Nat.pow_succ]; omega, by rw [Nat.pow_succ]; omega⟩
      · exact ⟨k, by omega, by omega⟩

/-- nothing the search skipped is fast -/
theorem nextFastFrom_minimal : ∀ (f n k : Nat), n ≤ k → k < nextFastFrom f n → isFast k = false
  | 0, n, k, h1, h2 => by simp [nextFastFrom] at h2; omega
  | f + 1, n, k, h1, h2 => by
    unfold nextFastFrom at h2
    split at h2
    · omega
    · rename_i hnf
      by_cases hk : k = n
      · subst hk; simpa using hnf
      · exact nextFastFrom_minimal f (n + 1) k (by omega) h2

theorem nextFastFrom_fast_or (f n : Nat) : isFast (nextFastFrom f n) = true ∨ nextFastFrom f n = n + f := by
  induction f generalizing n with
  | zero => right; simp [nextFastFrom]
  | succ f ih =>
    unfold nextFastFrom
    split
    · left; assumption
    · rcases ih (n + 1) with h | h
      · left; exact h
      · right; omega

theorem nextFastLen_fast (n : Nat) (hn : 1 ≤ n) : isFast (nextFastLen n) = true := by
  unfold nextFastLen
  have : ¬ n = 0 := by omega
  simp only [this, if_false]
  rcases nextFastFrom_fast_or (n + 1) n with h | h
  · exact h
  · obtain ⟨k, hk1, hk2⟩ := exists_two_pow n hn
    have := nextFastFrom_minimal (n + 1) n (2 ^ k) hk1 (by omega)
    rw [isFast_two_pow] at this
    cases this

theorem nextFastLen_minimal (n k : Nat) (h1 : n ≤ k) (h2 : k < nextFastLen n) : isFast k = false := by
  unfold nextFastLen at h2
  split at h2
  · omega
  · exact nextFastFrom_minimal (n + 1) n k h1 h2

theorem nextFastLen_le_two_mul (n : Nat) : nextFastLen n ≤ 2 * n := by
  by_cases hn : n = 0
  · subst hn; decide
  · obtain ⟨k, hk1, hk2⟩ := exists_two_pow n (by omega)
    by_contra hc
    have := nextFastLen_minimal n (2 ^ k) hk1 (by omega)
    rw [isFast_two_pow] at this
    cases this


theorem strip_decomp (p : Nat) : ∀ (f n : Nat), ∃ k, n = p ^ k * strip p f n
  | 0, n => ⟨0, by simp [strip]⟩
  | f + 1, n => by
    unfold strip
    split
    · rename_i hc
      obtain ⟨k, hk⟩ := strip_decomp p f (n / p)
      refine ⟨k + 1, ?_⟩
      have hn : n = p * (n / p) := by
        have := Nat.div_add_mod n p
        rw [hc.2.2] at this; omega
      calc n = p * (n / p) := hn
        _ = p * (p ^ k * strip p f (n / p)) := by rw [← hk]
        _ = p ^ (k + 1) * strip p f (n / p) := by rw [Nat.pow_succ]; ring
    · exact ⟨0, by simp⟩

/-- soundness of the fast-length test: whatever passes is `2^a 3^b 5^c 7^d · r` with `r ∈ {1, 11, 13}` -/
theorem isFast_sound (n : Nat) (h : isFast n = true) :
    ∃ a b c d r, (r = 1 ∨ r = 11 ∨ r = 13) ∧ n = 2 ^ a * 3 ^ b * 5 ^ c * 7 ^ d * r := by
  unfold isFast at h
  simp only [Bool.or_eq_true, beq_iff_eq] at h
  obtain ⟨a, ha⟩ := strip_decomp 2 n n
  obtain ⟨b, hb⟩ := strip_decomp 3 n (strip 2 n n)
  obtain ⟨c, hc⟩ := strip_decomp 5 n (strip 3 n (strip 2 n n))
  obtain ⟨d, hd⟩ := strip_decomp 7 n (strip 5 n (strip 3 n (strip 2 n n)))
  refine ⟨a, b, c, d, strip 7 n (strip 5 n (strip 3 n (strip 2 n n))), by tauto, ?_⟩
  calc n = 2 ^ a * strip 2 n n := ha
    _ = 2 ^ a * (3 ^ b * strip 3 n (strip 2 n n)) := by rw [← hb]
    _ = 2 ^ a * (3 ^ b * (5 ^ c * strip 5 n (strip 3 n (strip 2 n n)))) := by rw [← hc]
    _ = 2 ^ a * (3 ^ b * (5 ^ c * (7 ^ d * strip 7 n (strip 5 n (strip 3 n (strip 2 n n)))))) := by rw [← hd]
    _ = _ := by ring


theorem strip_pow_mul (p : Nat) (hp : 1 < p) : ∀ (k f q : Nat), k ≤ f → 0 < q → ¬ p ∣ q → strip p f (p ^ k * q) = q
  | 0, f, q, _, hq, hd => by
    rw [Nat.pow_zero, Nat.one_mul]
    cases f with
    | zero => rfl
    | succ f =>
      unfold strip
      have : ¬ (q % p = 0) := fun h => hd (Nat.dvd_of_mod_eq_zero h)
      simp [this]
  | k + 1, 0, q, h, _, _ => by omega
  | k + 1, f + 1, q, h, hq, hd => by
    unfold strip
    have hpos : 0 < p ^ (k + 1) * q := Nat.mul_pos (Nat.pow_pos (by omega)) hq
    have hmod : p ^ (k + 1) * q % p = 0 := by
      rw [Nat.pow_succ, Nat.mul_assoc, Nat.mul_comm (p ^ k), Nat.mul_assoc]; exact Nat.mul_mod_right _ _
    have hdiv : p ^ (k + 1) * q / p = p ^ k * q := by
      rw [Nat.pow_succ, Nat.mul_assoc, Nat.mul_comm (p ^ k), Nat.mul_assoc]
      rw [Nat.mul_div_cancel_left _ (by omega : 0 < p)]; ring
    simp only [hp, hpos, hmod, and_self, if_true, hdiv]
    exact strip_pow_mul p hp k f q (by omega) hq hd

theorem not_dvd_of_coprime {p q : Nat} (hp : 1 < p) (h : Nat.Coprime p q) : ¬ p ∣ q := fun hd => by
  have := Nat.Coprime.eq_one_of_dvd h hd; omega

theorem exp_le_of_mul_eq (p k rest n : Nat) (hp : 1 < p) (hr : 0 < rest) (h : n = p ^ k * rest) : k ≤ n := by
  have h1 : k < p ^ k := Nat.lt_pow_self hp
  have h2 : p ^ k ≤ p ^ k * rest := Nat.le_mul_of_pos_right _ hr
  omega

theorem isFast_complete (a b c d r : Nat) (hr : r = 1 ∨ r = 11 ∨ r = 13) :
    isFast (2 ^ a * 3 ^ b * 5 ^ c * 7 ^ d * r) = true := by
  have hr0 : 0 < r := by rcases hr with h | h | h <;> omega
  have c2r : Nat.Coprime 2 r := by rcases hr with h | h | h <;> subst h <;> decide
  have c3r : Nat.Coprime 3 r := by rcases hr with h | h | h <;> subst h <;> decide
  have c5r : Nat.Coprime 5 r := by rcases hr with h | h | h <;> subst h <;> decide
  have c7r : Nat.Coprime 7 r := by rcases hr with h | h | h <;> subst h <;> decide
  set n := 2 ^ a * 3 ^ b * 5 ^ c * 7 ^ d * r with hn
  have p3 : 0 < 3 ^ b := Nat.pow_pos (by decide)
  have p5 : 0 < 5 ^ c := Nat.pow_pos (by decide)
  have p7 : 0 < 7 ^ d := Nat.pow_pos (by decide)
  have p2 : 0 < 2 ^ a := Nat.pow_pos (by decide)
  have e2 : n = 2 ^ a * (3 ^ b * 5 ^ c * 7 ^ d * r) := by rw [hn]; ring
  have e3 : 3 ^ b * 5 ^ c * 7 ^ d * r = 3 ^ b * (5 ^ c * 7 ^ d * r) := by ring
  have e5 : 5 ^ c * 7 ^ d * r = 5 ^ c * (7 ^ d * r) := by ring
  have q7 : 0 < 7 ^ d * r := Nat.mul_pos p7 hr0
  have q5 : 0 < 5 ^ c * 7 ^ d * r := by rw [e5]; exact Nat.mul_pos p5 q7
  have q3 : 0 < 3 ^ b * 5 ^ c * 7 ^ d * r := by rw [e3]; exact Nat.mul_pos p3 q5
  have fa : a ≤ n := exp_le_of_mul_eq 2 a _ n (by decide) q3 e2
  have fb : b ≤ n := exp_le_of_mul_eq 3 b (2 ^ a * (5 ^ c * 7 ^ d * r)) n (by decide) (Nat.mul_pos p2 q5) (by rw [hn]; ring)
  have fc : c ≤ n := exp_le_of_mul_eq 5 c (2 ^ a * 3 ^ b * (7 ^ d * r)) n (by decide)
    (Nat.mul_pos (Nat.mul_pos p2 p3) q7) (by rw [hn]; ring)
  have fd : d ≤ n := exp_le_of_mul_eq 7 d (2 ^ a * 3 ^ b * 5 ^ c * r) n (by decide)
    (Nat.mul_pos (Nat.mul_pos (Nat.mul_pos p2 p3) p5) hr0) (by rw [hn]; ring)
  have s2 : strip 2 n n = 3 ^ b * 5 ^ c * 7 ^ d * r := by
    conv => lhs; arg 3; rw [e2]
    refine strip_pow_mul 2 (by decide) a n _ fa q3 (not_dvd_of_coprime (by decide) ?_)
    exact Nat.Coprime.mul_right (Nat.Coprime.mul_right (Nat.Coprime.mul_right
      (Nat.Coprime.pow_right b (by decide)) (Nat.Coprime.pow_right c (by decide))) (Nat.Coprime.pow_right d (by decide))) c2r
  have s3 : strip 3 n (3 ^ b * 5 ^ c * 7 ^ d * r) = 5 ^ c * 7 ^ d * r := by
    rw [e3]
    refine strip_pow_mul 3 (by decide) b n _ fb q5 (not_dvd_of_coprime (by decide) ?_)
    exact Nat.Coprime.mul_right (Nat.Coprime.mul_right
      (Nat.Coprime.pow_right c (by decide)) (Nat.Coprime.pow_right d (by decide))) c3r
  have s5 : strip 5 n (5 ^ c * 7 ^ d * r) = 7 ^ d * r := by
    rw [e5]
    refine strip_pow_mul 5 (by decide) c n _ fc q7 (not_dvd_of_coprime (by decide) ?_)
    exact Nat.Coprime.mul_right (Nat.Coprime.pow_right d (by decide)) c5r
  have s7 : strip 7 n (7 ^ d * r) = r :=
    strip_pow_mul 7 (by decide) d n r fd hr0 (not_dvd_of_coprime (by decide) c7r)
  unfold isFast
  simp only [s2, s3, s5, s7]
  rcases hr with h | h | h <;> subst h <;> rfl

end Pm.C13
