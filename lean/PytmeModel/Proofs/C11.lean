import PytmeModel.Model.C11
import Mathlib.Tactic.Ring
import Mathlib.Tactic.Linarith

/-! Helper lemmas for C11: splitting/joining token lists, stripping, header-driven column selection. -/
namespace Pm.C11

theorem splitBy_none (p : Char → Bool) (t : Str) (h : ∀ c ∈ t, p c = false) : splitBy p t = [t] := by
  induction t with
  | nil => rfl
  | cons c cs ih =>
    have hc : p c = false := h c (by simp)
    have := ih (fun x hx => h x (by simp [hx]))
    simp [splitBy, hc, this]

theorem splitBy_append_sep (p : Char → Bool) (t : Str) (sep : Char) (rest : Str)
    (h : ∀ c ∈ t, p c = false) (hs : p sep = true) :
    splitBy p (t ++ sep :: rest) = t :: splitBy p rest := by
  induction t with
  | nil => simp [splitBy, hs]
  | cons c cs ih =>
    have hc : p c = false := h c (by simp)
    have := ih (fun x hx => h x (by simp [hx]))
    simp [splitBy, hc, this]

/-- splitting a joined token list gives the tokens back -/
theorem splitBy_joinSep (p : Char → Bool) (sep : Char) (hs : p sep = true) (ts : List Str)
    (hne : ts ≠ []) (h : ∀ t ∈ ts, ∀ c ∈ t, p c = false) : splitBy p (joinSep sep ts) = ts := by
  induction ts with
  | nil => exact absurd rfl hne
  | cons t ts ih =>
    cases ts with
    | nil => simpa [joinSep] using splitBy_none p t (h t (by simp))
    | cons t' ts' =>
      simp only [joinSep]
      rw [splitBy_append_sep p t sep _ (h t (by simp)) hs]
      rw [ih (by simp) (fun x hx => h x (by simp [hx]))]

theorem dropWhile_eq_self {α} (p : α → Bool) (l : List α) (h : ∀ c, l.head? = some c → p c = false) :
    l.dropWhile p = l := by
  cases l with
  | nil => rfl
  | cons a as => simp [h a (by simp)]

theorem strip_eq_self (s : Str) (h1 : ∀ c, s.head? = some c → isWs c = false)
    (h2 : ∀ c, s.getLast? = some c → isWs c = false) : strip s = s := by
  unfold strip lstrip rstrip
  rw [dropWhile_eq_self isWs s h1]
  rw [dropWhile_eq_self isWs s.reverse (by simpa [List.head?_reverse] using h2)]
  simp

theorem joinSep_head? (sep : Char) (t : Str) (ts : List Str) (ht : t ≠ []) :
    (joinSep sep (t :: ts)).head? = t.head? := by
  cases ts with
  | nil => simp [joinSep]
  | cons t' ts' =>
    cases t with
    | nil => exact absurd rfl ht
    | cons c cs => simp [joinSep]

theorem joinSep_ne_nil (sep : Char) (t : Str) (ts : List Str) (ht : t ≠ []) : joinSep sep (t :: ts) ≠ [] := by
  cases t with
  | nil => exact absurd rfl ht
  | cons c cs => cases ts <;> simp [joinSep]

theorem joinSep_getLast_mem (sep : Char) (ts : List Str) (h : ∀ t ∈ ts, t ≠ []) :
    ∀ c, (joinSep sep ts).getLast? = some c → ∃ t ∈ ts, c ∈ t := by
  induction ts with
  | nil => intro c hc; simp [joinSep] at hc
  | cons t ts ih =>
    cases ts with
    | nil =>
      intro c hc
      simp only [joinSep] at hc
      exact ⟨t, by simp, List.mem_of_getLast? hc⟩
    | cons t' ts' =>
      intro c hc
      have hJ := joinSep_ne_nil sep t' ts' (h t' (by simp))
      have hc' : (t ++ sep :: joinSep sep (t' :: ts')).getLast? = some c := by simpa [joinSep] using hc
      rw [List.getLast?_append, List.getLast?_cons] at hc'
      cases hl : (joinSep sep (t' :: ts')).getLast? with
      | none => rw [List.getLast?_eq_none_iff] at hl; exact absurd hl hJ
      | some x =>
        rw [hl] at hc'
        simp at hc'
        obtain ⟨u, hu, hcu⟩ := ih (fun x hx => h x (by simp [hx])) x hl
        exact ⟨u, List.mem_cons_of_mem _ hu, hc' ▸ hcu⟩

/-- a row of non-empty whitespace-free tokens -/
def rowWf (toks : List Str) : Prop := toks ≠ [] ∧ ∀ t ∈ toks, t ≠ [] ∧ ∀ c ∈ t, isWs c = false

theorem strip_joinSep (sep : Char) (toks : List Str) (h : rowWf toks) :
    strip (joinSep sep toks) = joinSep sep toks := by
  obtain ⟨hne, ht⟩ := h
  apply strip_eq_self
  · intro c hc
    cases toks with
    | nil => exact absurd rfl hne
    | cons t ts =>
      rw [joinSep_head? sep t ts (ht t (by simp)).1] at hc
      exact (ht t (by simp)).2 c (List.mem_of_mem_head? hc)
  · intro c hc
    obtain ⟨t, htm, hct⟩ := joinSep_getLast_mem sep toks (fun t h => (ht t h).1) c hc
    exact (ht t htm).2 c hct

theorem isWs_nl : isWs '\n' = true := by decide

theorem mem_joinSep (sep : Char) (ts : List Str) (c : Char) (h : c ∈ joinSep sep ts) :
    c = sep ∨ ∃ t ∈ ts, c ∈ t := by
  induction ts with
  | nil => simp [joinSep] at h
  | cons t ts ih =>
    cases ts with
    | nil => right; exact ⟨t, by simp, by simpa [joinSep] using h⟩
    | cons t' ts' =>
      simp only [joinSep, List.mem_append, List.mem_cons] at h
      rcases h with h | h | h
      · right; exact ⟨t, by simp, h⟩
      · left; exact h
      · rcases ih h with h | ⟨u, hu, hc⟩
        · left; exact h
        · right; exact ⟨u, List.mem_cons_of_mem _ hu, hc⟩

theorem renderLines_cons (sep : Char) (toks : List Str) (rest : List (List Str)) :
    renderLines sep (toks :: rest) = joinSep sep toks ++ '\n' :: renderLines sep rest := by
  simp [renderLines]

/-- parsing rendered lines gives the token table back, followed by the empty last line -/
theorem parseLines_renderLines (sep : Char) (hsep : isWs sep = true) (hnl : sep ≠ '\n') (table : List (List Str))
    (h : ∀ toks ∈ table, rowWf toks) :
    parseLines sep (renderLines sep table) = table ++ [[[]]] := by
  induction table with
  | nil => simp [parseLines, renderLines, splitOn, splitBy, strip, lstrip, rstrip]
  | cons toks rest ih =>
    have hw := h toks (by simp)
    have ih' := ih (fun t ht => h t (by simp [ht]))
    have hn : ∀ c ∈ joinSep sep toks, (c == '\n') = false := by
      intro c hc
      rcases mem_joinSep sep toks c hc with rfl | ⟨t, ht, hct⟩
      · simpa using hnl
      · have := (hw.2 t ht).2 c hct
        cases hcn : c == '\n' with
        | false => rfl
        | true => rw [beq_iff_eq] at hcn; subst hcn; rw [isWs_nl] at this; cases this
    have hs : ∀ t ∈ toks, ∀ c ∈ t, (c == sep) = false := by
      intro t ht c hct
      have := (hw.2 t ht).2 c hct
      cases hcn : c == sep with
      | false => rfl
      | true => rw [beq_iff_eq] at hcn; subst hcn; rw [hsep] at this; cases this
    unfold parseLines splitOn at ih' ⊢
    rw [renderLines_cons, splitBy_append_sep _ _ _ _ hn (by simp)]
    rw [List.map_cons, ih', strip_joinSep sep toks hw]
    rw [splitBy_joinSep (· == sep) sep (by simp) toks hw.1 hs]
    rfl

theorem selectCols_all (pred : Str → Bool) (hs cs hs' cs' : List Str)
    (h : ∀ x ∈ hs, pred x = true) (hl : hs.length = cs.length) :
    selectCols pred (hs ++ hs') (cs ++ cs') = (selectCols pred hs' cs').map (cs ++ ·) := by
  induction hs generalizing cs with
  | nil =>
    cases cs with
    | nil =>
      simp only [List.nil_append]
      generalize selectCols pred hs' cs' = r
      cases r <;> simp [Except.map]
    | cons => simp at hl
  | cons x xs ih =>
    cases cs with
    | nil => simp at hl
    | cons c cs =>
      have hx := h x (by simp)
      have := ih cs (fun y hy => h y (by simp [hy])) (by simpa using hl)
      simp only [List.cons_append, selectCols, hx, if_true, this]
      generalize selectCols pred hs' cs' = r
      cases r <;> simp [Except.map, bind, Except.bind, pure, Except.pure]

theorem selectCols_none (pred : Str → Bool) (hs cs hs' cs' : List Str)
    (h : ∀ x ∈ hs, pred x = false) (hl : hs.length = cs.length) :
    selectCols pred (hs ++ hs') (cs ++ cs') = selectCols pred hs' cs' := by
  induction hs generalizing cs with
  | nil =>
    cases cs with
    | nil => rfl
    | cons => simp at hl
  | cons x xs ih =>
    cases cs with
    | nil => simp at hl
    | cons c cs =>
      have hx := h x (by simp)
      have := ih cs (fun y hy => h y (by simp [hy])) (by simpa using hl)
      simp [selectCols, hx, this]

theorem selectCols_none_nil (pred : Str → Bool) (hs cs : List Str)
    (h : ∀ x ∈ hs, pred x = false) : selectCols pred hs cs = .ok [] := by
  induction hs generalizing cs with
  | nil => cases cs <;> rfl
  | cons x xs ih =>
    have hx := h x (by simp)
    cases cs with
    | nil => simp [selectCols, hx]; exact ih [] (fun y hy => h y (by simp [hy]))
    | cons c cs => simp [selectCols, hx]; exact ih cs (fun y hy => h y (by simp [hy]))

/-- consecutive keys never increase -/
def descChain : List Str → Bool
  | [] => true
  | [_] => true
  | x :: y :: rest => !strLt x y && descChain (y :: rest)

theorem sortDesc_zip_of_chain (names : List Str) (idx : List Nat) (h : descChain names = true) :
    sortDesc (names.zip idx) = names.zip idx := by
  induction names generalizing idx with
  | nil => simp [sortDesc]
  | cons x xs ih =>
    cases idx with
    | nil => simp [sortDesc]
    | cons i is =>
      have hxs : descChain xs = true := by
        cases xs with
        | nil => rfl
        | cons y ys => simp [descChain] at h; exact h.2
      have := ih is hxs
      simp only [sortDesc, List.zip_cons_cons, List.foldr_cons] at this ⊢
      rw [this]
      cases xs with
      | nil => simp [insertDesc]
      | cons y ys =>
        cases is with
        | nil => simp [insertDesc]
        | cons j js =>
          simp [descChain] at h
          simp [insertDesc, h.1]

theorem descChain_take (l : List Str) (d : Nat) (h : descChain l = true) : descChain (l.take d) = true := by
  induction l generalizing d with
  | nil => simp [descChain]
  | cons x xs ih =>
    cases d with
    | zero => simp [descChain]
    | succ d =>
      cases xs with
      | nil => simp [descChain]
      | cons y ys =>
        cases d with
        | zero => simp [descChain]
        | succ d =>
          simp [descChain] at h
          have := ih (d + 1) h.2
          simp only [List.take_succ_cons] at this ⊢
          simp [descChain, h.1, this]

theorem sortOrder_of_chain (names : List Str) (h : descChain names = true) :
    sortOrder names = List.range names.length := by
  unfold sortOrder withPos
  rw [sortDesc_zip_of_chain names _ h]
  rw [List.map_snd_zip]
  simp

theorem chain_trans : descChain (naming.map (fun c => [c])) = true := by decide
theorem chain_euler : descChain (naming.map (fun c => eulerPrefix ++ [c])) = true := by decide

theorem transNames_chain (d : Nat) : descChain (transNames d) = true := by
  unfold transNames; rw [List.map_take]; exact descChain_take _ _ chain_trans

theorem eulerNames_chain (r : Nat) : descChain (eulerNames r) = true := by
  unfold eulerNames; rw [List.map_take]; exact descChain_take _ _ chain_euler

theorem naming_trans : ∀ c ∈ naming, isTransName [c] = true ∧ isEulerName [c] = false := by decide
theorem naming_euler : ∀ c ∈ naming, isTransName (eulerPrefix ++ [c]) = false ∧ isEulerName (eulerPrefix ++ [c]) = true
    ∧ isSortedEulerName (eulerPrefix ++ [c]) = true := by decide
theorem tail_names : isTransName scoreS = false ∧ isTransName detailS = false ∧ isEulerName scoreS = false ∧
    isEulerName detailS = false := by decide


theorem transNames_length (d : Nat) (hd : d ≤ 26) : (transNames d).length = d := by
  simp [transNames, naming]; omega
theorem eulerNames_length (r : Nat) (hr : r ≤ 26) : (eulerNames r).length = r := by
  simp [eulerNames, naming]; omega

theorem mem_transNames {d : Nat} {h : Str} (hm : h ∈ transNames d) : ∃ c ∈ naming, h = [c] := by
  simp only [transNames, List.mem_map] at hm
  obtain ⟨c, hc, rfl⟩ := hm
  exact ⟨c, List.mem_of_mem_take hc, rfl⟩
theorem mem_eulerNames {r : Nat} {h : Str} (hm : h ∈ eulerNames r) : ∃ c ∈ naming, h = eulerPrefix ++ [c] := by
  simp only [eulerNames, List.mem_map] at hm
  obtain ⟨c, hc, rfl⟩ := hm
  exact ⟨c, List.mem_of_mem_take hc, rfl⟩

theorem mapM_ok {α β : Type} (f : α → Except Err β) (g : α → β) (l : List α)
    (h : ∀ x ∈ l, f x = .ok (g x)) : l.mapM f = .ok (l.map g) := by
  induction l with
  | nil => rfl
  | cons x xs ih =>
    rw [List.mapM_cons, h x (by simp), ih (fun y hy => h y (by simp [hy]))]
    rfl

/-- a row with `d` translation and `r` angle tokens -/
structure RowOk (d r : Nat) (row : Row) : Prop where
  lt : row.trans.length = d
  lr : row.rot.length = r

theorem filter_header (d r : Nat) :
    (textHeader d r).filter isTransName = transNames d ∧
    (textHeader d r).filter isEulerName = eulerNames r ∧
    (textHeader d r).filter isSortedEulerName = eulerNames r := by
  have hT : ∀ h ∈ transNames d, isTransName h = true ∧ isEulerName h = false := by
    intro h hm; obtain ⟨c, hc, rfl⟩ := mem_transNames hm; exact naming_trans c hc
  have hE : ∀ h ∈ eulerNames r, isTransName h = false ∧ isEulerName h = true ∧ isSortedEulerName h = true := by
    intro h hm; obtain ⟨c, hc, rfl⟩ := mem_eulerNames hm; exact naming_euler c hc
  have ht := tail_names
  unfold textHeader
  refine ⟨?_, ?_, ?_⟩
  · rw [List.filter_append, List.filter_append, List.filter_eq_self.mpr (fun h hm => (hT h hm).1),
      List.filter_eq_nil_iff.mpr (fun h hm => by simp [(hE h hm).1])]
    simp [List.filter, ht.1, ht.2.1]
  · rw [List.filter_append, List.filter_append, List.filter_eq_nil_iff.mpr (fun h hm => by simp [(hT h hm).2]),
      List.filter_eq_self.mpr (fun h hm => (hE h hm).2.1)]
    simp [List.filter, ht.2.2.1, ht.2.2.2]
  · rw [List.filter_append, List.filter_append,
      List.filter_eq_nil_iff.mpr (fun h hm => by simp [isSortedEulerName, (hT h hm).2]),
      List.filter_eq_self.mpr (fun h hm => (hE h hm).2.2)]
    simp [List.filter, isSortedEulerName, ht.2.2.1, ht.2.2.2]

theorem getD_tail (l : List Str) (s t : Str) :
    (l ++ [s, t]).getD l.length [] = s ∧ (l ++ [s, t]).getD (l.length + 1) [] = t := by
  constructor
  · simp [List.getD_eq_getElem?_getD]
  · simp [List.getD_eq_getElem?_getD, List.getElem?_append_right]

theorem readRow_written (d r : Nat) (hd : d ≤ 26) (hr : r ≤ 26) (row : Row) (ok : RowOk d r row) :
    readRow (textHeader d r) row.tokens = .ok row := by
  have hT : ∀ h ∈ transNames d, isTransName h = true ∧ isEulerName h = false := by
    intro h hm; obtain ⟨c, hc, rfl⟩ := mem_transNames hm; exact naming_trans c hc
  have hE : ∀ h ∈ eulerNames r, isTransName h = false ∧ isEulerName h = true := by
    intro h hm; obtain ⟨c, hc, rfl⟩ := mem_eulerNames hm; exact ⟨(naming_euler c hc).1, (naming_euler c hc).2.1⟩
  have ht := tail_names
  have h1 : selectCols isTransName (textHeader d r) row.tokens = .ok row.trans := by
    unfold textHeader Row.tokens
    rw [List.append_assoc, List.append_assoc,
      selectCols_all _ _ _ _ _ (fun h hm => (hT h hm).1) (by rw [transNames_length d hd, ok.lt]),
      selectCols_none_nil]
    · simp [Except.map]
    · intro x hx
      rcases List.mem_append.mp hx with hx | hx
      · exact (hE x hx).1
      · simp at hx; rcases hx with rfl | rfl
        · exact ht.1
        · exact ht.2.1
  have h2 : selectCols isEulerName (textHeader d r) row.tokens = .ok row.rot := by
    unfold textHeader Row.tokens
    rw [List.append_assoc, List.append_assoc,
      selectCols_none _ _ _ _ _ (fun h hm => (hT h hm).2) (by rw [transNames_length d hd, ok.lt]),
      selectCols_all _ _ _ _ _ (fun h hm => (hE h hm).2) (by rw [eulerNames_length r hr, ok.lr]),
      selectCols_none_nil]
    · simp [Except.map]
    · intro x hx
      simp at hx; rcases hx with rfl | rfl
      · exact ht.2.2.1
      · exact ht.2.2.2
  unfold readRow
  rw [h1, h2]
  have hlen : row.tokens.length = (row.trans ++ row.rot).length + 2 := by simp [Row.tokens]; omega
  have hs : row.tokens.getD (row.tokens.length - 2) [] = row.score := by
    rw [hlen]; exact (getD_tail (row.trans ++ row.rot) row.score row.detail).1
  have hd' : row.tokens.getD (row.tokens.length - 1) [] = row.detail := by
    rw [hlen]; exact (getD_tail (row.trans ++ row.rot) row.score row.detail).2
  simp only [bind, Except.bind, pure, Except.pure, hs, hd']

theorem pick_range (row : List Str) : pick row (List.range row.length) = .ok row := by
  unfold pick
  rw [mapM_ok _ (fun i => row.getD i []) _ ?_]
  · congr 1
    apply List.ext_getElem
    · simp
    · intro i h1 h2; simp at h1 h2 ⊢; simp [List.getD_eq_getElem?_getD, h2]
  · intro i hi
    simp only [List.mem_range] at hi
    simp [List.getElem?_eq_getElem hi, List.getD_eq_getElem?_getD, pure, Except.pure]

theorem filter_written (rows : List Row) :
    (rows.map Row.tokens ++ [[[]]]).filter (fun c => decide (1 < c.length)) = rows.map Row.tokens := by
  rw [List.filter_append]
  rw [List.filter_eq_self.mpr]
  · simp [List.filter]
  · intro c hc
    simp only [List.mem_map] at hc
    obtain ⟨row, _, rfl⟩ := hc
    simp [Row.tokens]; omega

theorem readTable_written (d r : Nat) (hd : d ≤ 26) (hr1 : 1 ≤ r) (hr : r ≤ 26) (rows : List Row)
    (ok : ∀ row ∈ rows, RowOk d r row) :
    readTable (textHeader d r) (rows.map Row.tokens ++ [[[]]]) = .ok (Table.ofRows d r rows) := by
  obtain ⟨hfT, hfE, hfS⟩ := filter_header d r
  have hrows : (rows.map Row.tokens).mapM (readRow (textHeader d r)) = .ok rows := by
    rw [List.mapM_map]
    rw [mapM_ok (readRow (textHeader d r) ∘ Row.tokens) id rows (fun row hm => readRow_written d r hd hr row (ok row hm))]
    simp
  have hoT : sortOrder (transNames d) = List.range d := by
    rw [sortOrder_of_chain _ (transNames_chain d), transNames_length d hd]
  have hoE : sortOrder (eulerNames r) = List.range r := by
    rw [sortOrder_of_chain _ (eulerNames_chain r), eulerNames_length r hr]
  have hlen : (textHeader d r).length = d + r + 2 := by
    simp [textHeader, transNames_length d hd, eulerNames_length r hr]; omega
  unfold readTable
  rw [filter_written, hrows, hfT, hfE, hfS, hoT, hoE, hlen, transNames_length d hd, eulerNames_length r hr]
  have hne : (d == d + r + 2) = false := by simp; omega
  have hz : (rows.length * r == 0 && rows.length != 0) = false := by
    cases hn : rows.length with
    | zero => simp
    | succ k =>
      have : (k + 1) * r ≠ 0 := Nat.mul_ne_zero (by omega) (by omega)
      simp [this]
  have hmT : List.mapM (fun x => pick x (List.range d)) (List.map (fun x : Row => x.trans) rows)
      = .ok (rows.map (fun x => x.trans)) := by
    rw [List.mapM_map, mapM_ok _ (fun x : Row => x.trans) rows]
    intro row hm
    have := pick_range row.trans
    rw [(ok row hm).lt] at this
    exact this
  have hmR : List.mapM (fun x => pick x (List.range r)) (List.map (fun x : Row => x.rot) rows)
      = .ok (rows.map (fun x => x.rot)) := by
    rw [List.mapM_map, mapM_ok _ (fun x : Row => x.rot) rows]
    intro row hm
    have := pick_range row.rot
    rw [(ok row hm).lr] at this
    exact this
  have hany : ((List.range r).any fun i => decide (r ≤ i)) = false := by
    simp [List.any_eq_false]
  simp only [hne, hz, hmT, hmR, hany, bind, Except.bind, pure, Except.pure, Bool.false_eq_true, if_false,
    List.length_range, Table.ofRows]

theorem normIndex_spec (n : Nat) (i : Int) (j : Nat) (h : normIndex n i = .ok j) :
    j < n ∧ ((0 ≤ i ∧ (j : Int) = i) ∨ (i < 0 ∧ (j : Int) = i + n)) := by
  unfold normIndex at h
  split at h
  · injection h with h; subst h; omega
  · split at h
    · injection h with h; subst h; omega
    · cases h

theorem normIndex_ok (n : Nat) (i : Int) (h : -(n : Int) ≤ i ∧ i < n) : ∃ j, normIndex n i = .ok j := by
  unfold normIndex
  by_cases h0 : 0 ≤ i ∧ i < n
  · exact ⟨_, by rw [if_pos h0]; rfl⟩
  · rw [if_neg h0]
    have : i < 0 ∧ -(n : Int) ≤ i := by omega
    exact ⟨_, by rw [if_pos this]; rfl⟩

theorem takeIdx_cons {α : Type} (l : List α) (i : Int) (is : List Int) :
    takeIdx l (i :: is) = (do
      let k ← normIndex l.length i
      let x ← (match l[k]? with | some x => pure x | Option.none => throw Err.indexError : Except Err α)
      let rest ← takeIdx l is
      pure (x :: rest)) := by
  unfold takeIdx
  rw [List.mapM_cons]
  simp only [bind_assoc, map_eq_pure_bind]
  rfl

/-- integer-array selection: as many rows as indices, the k-th one is the source row at the
(wrapped) k-th index -/
theorem takeIdx_spec {α : Type} (l : List α) (idx : List Int) (out : List α) (h : takeIdx l idx = .ok out) :
    out.length = idx.length ∧
    ∀ k (hk : k < idx.length), ∃ j, normIndex l.length idx[k] = .ok j ∧ j < l.length ∧ out[k]? = l[j]? := by
  induction idx generalizing out with
  | nil =>
    simp [takeIdx, pure, Except.pure] at h
    subst h; simp
  | cons i is ih =>
    rw [takeIdx_cons] at h
    cases hn : normIndex l.length i with
    | error e => rw [hn] at h; cases h
    | ok j =>
      rw [hn] at h
      have hj := (normIndex_spec _ _ _ hn).1
      simp only [bind, Except.bind, List.getElem?_eq_getElem hj, pure, Except.pure] at h
      cases hr : takeIdx l is with
      | error e => rw [hr] at h; cases h
      | ok rest =>
        rw [hr] at h
        injection h with h
        subst h
        obtain ⟨hl, hk⟩ := ih rest hr
        refine ⟨by simp [hl], ?_⟩
        intro k hk'
        cases k with
        | zero => exact ⟨j, by simpa using hn, hj, by simp [List.getElem?_eq_getElem hj]⟩
        | succ k =>
          obtain ⟨j', h1, h2, h3⟩ := hk k (by simpa using hk')
          exact ⟨j', by simpa using h1, h2, by simpa using h3⟩

/-- every index in `[-n, n)` is accepted -/
theorem takeIdx_ok {α : Type} (l : List α) (idx : List Int) (h : ∀ i ∈ idx, -(l.length : Int) ≤ i ∧ i < l.length) :
    ∃ out, takeIdx l idx = .ok out := by
  induction idx with
  | nil => exact ⟨[], rfl⟩
  | cons i is ih =>
    obtain ⟨rest, hr⟩ := ih (fun x hx => h x (by simp [hx]))
    obtain ⟨j, hj⟩ := normIndex_ok l.length i (h i (by simp))
    have hlt := (normIndex_spec _ _ _ hj).1
    refine ⟨l[j] :: rest, ?_⟩
    rw [takeIdx_cons, hj, hr]
    simp [bind, Except.bind, List.getElem?_eq_getElem hlt, pure, Except.pure]

/-- boolean selection = the rows whose mask entry is true, in their original order -/
theorem maskSel_eq_filter {α : Type} (l : List α) (mask : List Bool) :
    maskSel l mask = ((l.zip mask).filter (·.2)).map (·.1) := by
  induction l generalizing mask with
  | nil => cases mask <;> simp [maskSel]
  | cons x xs ih =>
    cases mask with
    | nil => simp [maskSel]
    | cons b bs => cases b <;> simp [maskSel, ih]

theorem takeMask_spec {α : Type} (l : List α) (mask : List Bool) (h : mask.length = l.length) :
    takeMask l mask = .ok (((l.zip mask).filter (·.2)).map (·.1)) := by
  unfold takeMask
  simp [h, maskSel_eq_filter, pure, Except.pure]

theorem maskSel_sublist {α : Type} (l : List α) (mask : List Bool) : (maskSel l mask).Sublist l := by
  induction l generalizing mask with
  | nil => cases mask <;> simp [maskSel]
  | cons x xs ih =>
    cases mask with
    | nil => simp [maskSel]
    | cons b bs =>
      cases b
      · simpa [maskSel] using (ih bs).cons x
      · simpa [maskSel] using (ih bs).cons_cons x

/-- a number token: non-empty, no whitespace -/
def tokWf (t : Str) : Prop := t ≠ [] ∧ ∀ c ∈ t, isWs c = false

instance : DecidablePred tokWf := fun t => by unfold tokWf; infer_instance

theorem naming_noWs : ∀ c ∈ naming, isWs c = false := by decide
theorem eulerPrefix_noWs : ∀ c ∈ eulerPrefix, isWs c = false := by decide
theorem tail_noWs : (∀ c ∈ scoreS, isWs c = false) ∧ (∀ c ∈ detailS, isWs c = false) := by decide

theorem header_rowWf (d r : Nat) : rowWf (textHeader d r) := by
  refine ⟨by simp [textHeader], ?_⟩
  intro t ht
  simp only [textHeader, List.mem_append, List.mem_cons, List.mem_nil_iff, or_false] at ht
  rcases ht with (ht | ht) | rfl | rfl
  · obtain ⟨c, hc, rfl⟩ := mem_transNames ht
    exact ⟨by simp, by intro x hx; simp at hx; rw [hx]; exact naming_noWs c hc⟩
  · obtain ⟨c, hc, rfl⟩ := mem_eulerNames ht
    refine ⟨by simp [eulerPrefix], ?_⟩
    intro x hx
    rcases List.mem_append.mp hx with hx | hx
    · exact eulerPrefix_noWs x hx
    · simp at hx; rw [hx]; exact naming_noWs c hc
  · exact ⟨by simp [scoreS], tail_noWs.1⟩
  · exact ⟨by simp [detailS], tail_noWs.2⟩

theorem splitOn_nl_renderLines (sep : Char) (hsep : isWs sep = true) (hnl : sep ≠ '\n') (table : List (List Str))
    (h : ∀ toks ∈ table, rowWf toks) :
    splitOn '\n' (renderLines sep table) = table.map (joinSep sep) ++ [[]] := by
  induction table with
  | nil => simp [renderLines, splitOn, splitBy]
  | cons toks rest ih =>
    have hw := h toks (by simp)
    have ih' := ih (fun t ht => h t (by simp [ht]))
    have hn : ∀ c ∈ joinSep sep toks, (c == '\n') = false := by
      intro c hc
      rcases mem_joinSep sep toks c hc with rfl | ⟨t, ht, hct⟩
      · simpa using hnl
      · have := (hw.2 t ht).2 c hct
        cases hcn : c == '\n' with
        | false => rfl
        | true => rw [beq_iff_eq] at hcn; subst hcn; rw [isWs_nl] at this; cases this
    unfold splitOn at ih' ⊢
    rw [renderLines_cons, splitBy_append_sep _ _ _ _ hn (by simp), ih']
    simp

theorem splitOn_joinSep (sep : Char) (hsep : isWs sep = true) (toks : List Str) (hw : rowWf toks) :
    splitOn sep (strip (joinSep sep toks)) = toks := by
  have hs : ∀ t ∈ toks, ∀ c ∈ t, (c == sep) = false := by
    intro t ht c hct
    have := (hw.2 t ht).2 c hct
    cases hcn : c == sep with
    | false => rfl
    | true => rw [beq_iff_eq] at hcn; subst hcn; rw [hsep] at this; cases this
  unfold splitOn
  rw [strip_joinSep sep toks hw, splitBy_joinSep (· == sep) sep (by simp) toks hw.1 hs]

/-! Dynamo -/
structure TblWf (r : TblRow) : Prop where
  ang : r.ang.length = 3
  trans : r.trans.length = 3
  toks : ∀ t ∈ r.index :: r.score :: (r.ang ++ r.trans), tokWf t

def TblRow.out (r : TblRow) : TblOut := ⟨r.trans, r.ang, r.score⟩

theorem readTblRow_written (r : TblRow) (sampling : Str) (h : TblWf r) :
    readTblRow (r.tokens sampling) = .ok r.out ∧ (r.tokens sampling).length = 38 := by
  unfold TblRow.tokens
  obtain ⟨i, ang, trans, sc⟩ := r
  obtain ⟨ha, ht, _⟩ := h
  simp only at ha ht
  match ang, ha with
  | [a0, a1, a2], _ =>
    match trans, ht with
    | [z, y, x], _ => exact ⟨rfl, rfl⟩

/-- boolean form of `tokWf` (lets `decide`/`simp` discharge the constant columns) -/
def tokOk (t : Str) : Bool := !t.isEmpty && t.all (fun c => !isWs c)

theorem tokOk_iff (t : Str) : tokOk t = true ↔ tokWf t := by
  unfold tokOk tokWf
  cases t with
  | nil => simp
  | cons c cs => simp

theorem rowWf_of_all (toks : List Str) (hne : toks ≠ []) (h : toks.all tokOk = true) : rowWf toks := by
  refine ⟨hne, ?_⟩
  intro t ht
  exact (tokOk_iff t).mp (List.all_eq_true.mp h t ht)

theorem tbl_consts : tokOk t0 = true ∧ tokOk t1 = true ∧ tokOk t3 = true ∧ tokOk ['-','9','0'] = true ∧
    tokOk ['9','0'] = true ∧ tokOk ['-','6','0'] = true ∧ tokOk ['6','0'] = true := by decide

theorem tblTokens_rowWf (r : TblRow) (sampling : Str) (h : TblWf r) (hs : tokWf sampling) :
    rowWf (r.tokens sampling) := by
  unfold TblRow.tokens
  apply rowWf_of_all
  · simp [tblTokens]
  · have hall : ∀ t ∈ r.index :: r.score :: (r.ang ++ r.trans), tokOk t = true :=
      fun t ht => (tokOk_iff t).mpr (h.toks t ht)
    have hi := hall r.index (by simp)
    have hsc := hall r.score (by simp)
    have ha : r.ang.all tokOk = true := List.all_eq_true.mpr (fun t ht => hall t (by simp [ht]))
    have ht : r.trans.all tokOk = true := List.all_eq_true.mpr (fun t ht => hall t (by simp [ht]))
    have hsa := (tokOk_iff sampling).mpr hs
    obtain ⟨c0, c1, c3, c4, c5, c6, c7⟩ := tbl_consts
    simp [tblTokens, List.all_append, List.all_cons, List.all_reverse, hi, hsc, ha, ht, hsa, c0, c1, c3, c4, c5, c6, c7]

/-! STAR -/
theorem splitOn_nl_lines (L : List Str) (h : ∀ l ∈ L, ∀ c ∈ l, (c == '\n') = false) :
    splitOn '\n' (L.flatMap (fun l => l ++ ['\n'])) = L ++ [[]] := by
  induction L with
  | nil => simp [splitOn, splitBy]
  | cons l rest ih =>
    have ih' := ih (fun t ht => h t (by simp [ht]))
    unfold splitOn at ih' ⊢
    have : (l :: rest).flatMap (fun l => l ++ ['\n']) = l ++ '\n' :: rest.flatMap (fun l => l ++ ['\n']) := by simp
    rw [this, splitBy_append_sep _ _ _ _ (h l (by simp)) (by simp), ih']
    simp

theorem splitWs_joinSep (sep : Char) (hsep : isWs sep = true) (toks : List Str) (hw : rowWf toks) :
    splitWs (joinSep sep toks) = toks := by
  unfold splitWs
  rw [splitBy_joinSep isWs sep hsep toks hw.1 (fun t ht => (hw.2 t ht).2)]
  rw [List.filter_eq_self]
  intro t ht
  have := (hw.2 t ht).1
  cases t with
  | nil => exact absurd rfl this
  | cons => rfl

/-- a line that `_parse_star` appends to the current block -/
def isDataLine (l : Str) : Bool :=
  !startsWith ['d','a','t','a'] l && !startsWith ['_'] l && !startsWith ['l','o','o','p'] l && !(splitWs l).isEmpty

theorem parseFold_data (ret : Cats) (cat : Option Str) (blk : List (List Str)) (lines : List Str)
    (h : ∀ l ∈ lines, isDataLine l = true) :
    parseFold none ⟨ret, cat, blk⟩ lines = .ok ⟨ret, cat, blk ++ lines.map splitWs⟩ := by
  induction lines generalizing blk with
  | nil => simp [parseFold, pure, Except.pure]
  | cons l ls ih =>
    have hl := h l (by simp)
    simp only [isDataLine, Bool.and_eq_true, Bool.not_eq_true'] at hl
    obtain ⟨⟨⟨h1, h2⟩, h3⟩, h4⟩ := hl
    have hstep : parseStep none ⟨ret, cat, blk⟩ l = .ok ⟨ret, cat, blk ++ [splitWs l]⟩ := by
      simp [parseStep, h1, h2, h3, h4, splitLine, pure, Except.pure]
    simp only [parseFold, hstep, bind, Except.bind]
    rw [ih (blk ++ [splitWs l]) (fun x hx => h x (by simp [hx]))]
    simp

theorem foldl_min_const (block : List (List Str)) (m : Nat) (h : ∀ r ∈ block, r.length = m) :
    block.foldl (fun a r => min a r.length) m = m := by
  induction block with
  | nil => rfl
  | cons r rs ih =>
    simp only [List.foldl_cons, h r (by simp), Nat.min_self]
    exact ih (fun x hx => h x (by simp [hx]))

theorem transpose_uniform (block : List (List Str)) (m : Nat) (hne : block ≠ []) (h : ∀ r ∈ block, r.length = m) :
    transpose block = (List.range m).map (fun j => block.map (fun r => r.getD j [])) := by
  cases block with
  | nil => exact absurd rfl hne
  | cons r rs =>
    simp only [transpose, List.headD_cons, h r (by simp)]
    rw [foldl_min_const (r :: rs) m h]

end Pm.C11
