import PytmeModel.Model.C01
import Mathlib.Algebra.BigOperators.Group.Finset.Basic
import Mathlib.Algebra.BigOperators.Intervals
import Mathlib.Tactic.Ring
import Mathlib.Tactic.Linarith

/-! Circular-convolution reindexing: the central index lemma of C01/C02, in any dimension. -/
open Finset
namespace Pm.C01

theorem sumRange_eq_sum {α} [AddCommMonoid α] (n : Nat) (f : Nat → α) :
    sumRange n f = ∑ i ∈ range n, f i := by
  induction n with
  | zero => simp [sumRange]
  | succ k ih => simp [sumRange, ih, Finset.sum_range_succ]

theorem sumRange_congr {α} [Add α] [Zero α] (n : Nat) (f g : Nat → α) (h : ∀ i, i < n → f i = g i) :
    sumRange n f = sumRange n g := by
  induction n with
  | zero => rfl
  | succ k ih =>
    simp only [sumRange]
    rw [ih (fun i hi => h i (Nat.lt_succ_of_lt hi)), h k (Nat.lt_succ_self k)]

theorem sumShape_congr {α} [Add α] [Zero α] (ns : List Nat) (F G : List Nat → α)
    (h : ∀ idx, inShape ns idx = true → F idx = G idx) : sumShape ns F = sumShape ns G := by
  induction ns generalizing F G with
  | nil => exact h [] rfl
  | cons n ns ih =>
    simp only [sumShape]
    apply sumRange_congr
    intro i hi
    apply ih
    intro idx hidx
    apply h
    simp [inShape, hi, hidx]

theorem sumShape_zero {α} [AddCommMonoid α] (ns : List Nat) : sumShape ns (fun _ => (0:α)) = 0 := by
  induction ns with
  | nil => simp [sumShape]
  | cons a as ih =>
    simp only [sumShape]
    have : (fun i : Nat => sumShape as (fun _ : List Nat => (0:α))) = fun _ => 0 := by
      funext i; exact ih
    rw [this, sumRange_eq_sum]; simp

theorem emod_cases' (x : Int) (N : Int) (hN : 0 < N) (h1 : -N ≤ x) (h2 : x < N) :
    x % N = if x < 0 then x + N else x := by
  split
  · have : (x + N) % N = x + N := Int.emod_eq_of_lt (by omega) (by omega)
    rw [← this]; simp
  · exact Int.emod_eq_of_lt (by omega) h2

/-- General 1-D reindexing: `F j r` is the summand for target index `j` and (reversed,
top-left padded) template index `r`; it vanishes outside `[0,n) × [0,m)`.  Reading the circular
sum at raw position `u` gives the windowed sum.  `hwrap` covers both paddings: with full padding
(`N ≥ n+m-1`) it holds for every `u`, without padding it holds when the window lies inside. -/
theorem circ_reindex_1d {α} [AddCommMonoid α] (n m N : Nat) (hm : 0 < m) (hnN : n ≤ N)
    (F : Int → Int → α)
    (hF : ∀ j r : Int, (j < 0 ∨ (n:Int) ≤ j ∨ r < 0 ∨ (m:Int) ≤ r) → F j r = 0)
    (u : Int)
    (hwrap : u + N - ((n:Int) - 1) ≥ m ∨ u ≥ (n:Int) - 1)
    (huN : u < N) (hu : 0 ≤ u) :
    ∑ j ∈ range N, F (j:Int) ((u - j) % (N:Int))
      = ∑ k ∈ range m, F (u - ((m:Int) - 1) + k) ((m:Int) - 1 - k) := by
  classical
  have hNpos : (0:Int) < N := by omega
  have key : ∀ j : Nat, j ∈ range N → F (j:Int) ((u - j) % (N:Int)) ≠ 0 →
      0 ≤ u - j ∧ u - (j:Int) < m ∧ (u - (j:Int)) % (N:Int) = u - j ∧ (j:Int) < n := by
    intro j hj hne
    have hjN : (j:Int) < N := by exact_mod_cast (mem_range.mp hj)
    have hjn : (j:Int) < n := by
      by_contra h; exact hne (hF _ _ (Or.inr (Or.inl (by omega))))
    have hx1 : -(N:Int) ≤ u - j := by omega
    have hx2 : u - (j:Int) < N := by omega
    have hc := emod_cases' _ _ hNpos hx1 hx2
    by_cases hneg : u - (j:Int) < 0
    · rw [if_pos hneg] at hc
      exfalso; apply hne; rw [hc]
      apply hF; right; right; right
      rcases hwrap with h | h <;> omega
    · rw [if_neg hneg] at hc
      refine ⟨by omega, ?_, hc, hjn⟩
      by_contra h; apply hne; rw [hc]; apply hF; right; right; right; omega
  refine Finset.sum_bij_ne_zero (fun j _ _ => ((j:Int) - u + ((m:Int) - 1)).toNat) ?_ ?_ ?_ ?_
  · intro j hj hne
    obtain ⟨h0, h1, _, _⟩ := key j hj hne
    simp only [mem_range]; omega
  · intro j1 hj1 hne1 j2 hj2 hne2 h
    obtain ⟨a0, a1, _, _⟩ := key j1 hj1 hne1
    obtain ⟨b0, b1, _, _⟩ := key j2 hj2 hne2
    have e : ((j1:Int) - u + ((m:Int) - 1)) = ((j2:Int) - u + ((m:Int) - 1)) := by
      have := congrArg (fun z : Nat => (z:Int)) h
      simpa [Int.toNat_of_nonneg (show 0 ≤ (j1:Int) - u + ((m:Int) - 1) by omega),
             Int.toNat_of_nonneg (show 0 ≤ (j2:Int) - u + ((m:Int) - 1) by omega)] using this
    omega
  · intro k hk hne
    have hkm : (k:Int) < m := by exact_mod_cast (mem_range.mp hk)
    have hj0 : 0 ≤ u - ((m:Int) - 1) + k := by
      by_contra h; exact hne (hF _ _ (Or.inl (by omega)))
    have hjn : u - ((m:Int) - 1) + k < n := by
      by_contra h; exact hne (hF _ _ (Or.inr (Or.inl (by omega))))
    refine ⟨(u - ((m:Int) - 1) + k).toNat, ?_, ?_, ?_⟩
    · simp only [mem_range]; omega
    · rw [Int.toNat_of_nonneg hj0]
      have e : u - (u - ((m:Int) - 1) + k) = (m:Int) - 1 - k := by ring
      rw [e, Int.emod_eq_of_lt (by omega) (by omega)]; exact hne
    · rw [Int.toNat_of_nonneg hj0]
      have : u - ((m:Int) - 1) + k - u + ((m:Int) - 1) = (k:Int) := by ring
      rw [this]; simp
  · intro j hj hne
    obtain ⟨h0, h1, hc, _⟩ := key j hj hne
    rw [hc]
    have a : 0 ≤ (j:Int) - u + ((m:Int) - 1) := by omega
    rw [Int.toNat_of_nonneg a]
    have e1 : u - ((m:Int) - 1) + ((j:Int) - u + ((m:Int) - 1)) = j := by ring
    have e2 : (m:Int) - 1 - ((j:Int) - u + ((m:Int) - 1)) = u - j := by ring
    rw [e1, e2]

/-- per-axis side conditions of the reindexing, for all axes -/
def AxesOk : List Nat → List Nat → List Nat → List Int → Prop
  | [], [], [], [] => True
  | n :: ns, m :: ms, N :: Ns, u :: us =>
      (0 < m ∧ n ≤ N ∧ (u + N - ((n:Int) - 1) ≥ m ∨ u ≥ (n:Int) - 1) ∧ u < N ∧ 0 ≤ u) ∧ AxesOk ns ms Ns us
  | _, _, _, _ => False

/-- `(j, r)` lies outside the support box `[0,ns) × [0,ms)` on some axis -/
def OutOfRange : List Nat → List Nat → List Int → List Int → Prop
  | n :: ns, m :: ms, j :: js, r :: rs =>
      (j < 0 ∨ (n:Int) ≤ j ∨ r < 0 ∨ (m:Int) ≤ r) ∨ OutOfRange ns ms js rs
  | _, _, _, _ => False

/-- `j` lies outside the box `[0, ns)` on some axis -/
def OutOfBox : List Nat → List Int → Prop
  | n :: ns, j :: js => (j < 0 ∨ (n:Int) ≤ j) ∨ OutOfBox ns js
  | _, _ => False

/-- **n-D reindexing** (any number of axes): the circular sum over the torus `Ns`, read at raw
position `us`, equals the sum over the template box `ms` of the summand at the window position. -/
theorem circ_reindex_nd {α} [AddCommMonoid α] :
    ∀ (ns ms Ns : List Nat) (us : List Int) (F : List Int → List Int → α),
      AxesOk ns ms Ns us →
      (∀ j r, OutOfRange ns ms j r → F j r = 0) →
      sumShape Ns (fun j => F (natsToInts j) (wrapSub Ns us j))
        = sumShape ms (fun k => F (winIdx ms us k) (revK ms k))
  | [], [], [], [], F, _, _ => by simp [sumShape, natsToInts, wrapSub, winIdx, revK]
  | n :: ns, m :: ms, N :: Ns, u :: us, F, hax, hF => by
    obtain ⟨⟨hm, hnN, hwrap, huN, hu⟩, hrest⟩ := hax
    simp only [sumShape]
    -- outer axis
    have houter := circ_reindex_1d n m N hm hnN
      (fun j0 r0 => sumShape Ns (fun idx => F (j0 :: natsToInts idx) (r0 :: wrapSub Ns us idx)))
      (by
        intro j r h
        have : (fun idx : List Nat => F (j :: natsToInts idx) (r :: wrapSub Ns us idx)) = fun _ => 0 := by
          funext idx; apply hF; exact Or.inl h
        rw [this]; exact sumShape_zero Ns)
      u hwrap huN hu
    rw [sumRange_eq_sum, sumRange_eq_sum]
    have e1 : ∀ i : Nat, sumShape Ns (fun idx => F (natsToInts (i :: idx)) (wrapSub (N :: Ns) (u :: us) (i :: idx)))
        = sumShape Ns (fun idx => F ((i:Int) :: natsToInts idx) (((u - (i:Int)) % (N:Int)) :: wrapSub Ns us idx)) := by
      intro i; rfl
    simp only [e1]
    rw [houter]
    apply Finset.sum_congr rfl
    intro k _
    have ih := circ_reindex_nd ns ms Ns us
      (fun j r => F ((u - ((m:Int) - 1) + (k:Int)) :: j) (((m:Int) - 1 - (k:Int)) :: r)) hrest
      (by intro j r h; apply hF; exact Or.inr h)
    exact ih
  | [], _ :: _, _, _, _, h, _ => by cases h
  | [], [], _ :: _, _, _, h, _ => by cases h
  | [], [], [], _ :: _, _, h, _ => by cases h
  | _ :: _, [], _, _, _, h, _ => by cases h
  | _ :: _, _ :: _, [], _, _, h, _ => by cases h
  | _ :: _, _ :: _, _ :: _, [], _, h, _ => by cases h

end Pm.C01
