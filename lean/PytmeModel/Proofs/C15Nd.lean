import PytmeModel.Proofs.C15

/-! n-D lifts for `Props/C15.lean`: arrays, frames, trim boxes, histories, the heap. -/
namespace Pm.C15

/-- specification of the source index: `idx + start` on every axis if that voxel exists -/
def shiftIdx : List Nat → Box → List Nat → Option (List Nat)
  | n :: ns, b :: bs, j :: js =>
      if 0 ≤ (j : Int) + b.1 ∧ (j : Int) + b.1 < n then
        (shiftIdx ns bs js).map (fun t => ((j : Int) + b.1).toNat :: t)
      else none
  | [], [], [] => some []
  | _, _, _ => none

theorem plans_cons (n : Nat) (ns : List Nat) (b : Int × Int) (bs : Box) :
    plans (n :: ns) (b :: bs) = adjustAxis n b.1 b.2 :: plans ns bs := rfl

/-- read the old array at an optional source index, the pad value where there is none -/
def readSrc {α : Type} (a : Arr α) (pad : α) : Option (List Nat) → α
  | some s => a.getD s pad
  | none => pad

theorem adjustData_getD {α : Type} (a : Arr α) (box : Box) (pad d : α) (idx : List Nat)
    (hin : inShape (adjustData a box pad).shape idx = true) :
    (adjustData a box pad).getD idx d = readSrc a pad (srcIdx (plans a.shape box) idx) := by
  unfold adjustData at hin ⊢
  refine (Arr.getD_ofFn _ _ _ _ hin).trans ?_
  cases srcIdx (plans a.shape box) idx <;> rfl

theorem srcIdx_eq_shiftIdx (shape : List Nat) (box : Box) (idx : List Nat)
    (hlen : box.length = shape.length) (hstop : ∀ b ∈ box, 0 ≤ b.2)
    (hin : inShape ((plans shape box).map AxisPlan.newLen) idx = true) :
    srcIdx (plans shape box) idx = shiftIdx shape box idx := by
  induction shape generalizing box idx with
  | nil =>
    cases box with
    | nil => cases idx with
      | nil => rfl
      | cons j js => simp [plans, inShape] at hin
    | cons b bs => simp at hlen
  | cons n ns ih =>
    cases box with
    | nil => simp at hlen
    | cons b bs =>
      cases idx with
      | nil => simp [plans_cons, inShape] at hin
      | cons j js =>
        rw [plans_cons] at hin ⊢
        simp only [List.map_cons, inShape_cons] at hin
        obtain ⟨hj, hrest⟩ := hin
        have hb : 0 ≤ b.2 := hstop b (by simp)
        have ih' := ih bs js (by simpa using hlen) (fun x hx => hstop x (by simp [hx])) hrest
        simp only [srcIdx, shiftIdx]
        rw [adjustAxis_srcOf n b.1 b.2 hb j hj, ih']
        split_ifs with hc
        · cases shiftIdx ns bs js <;> simp
        · rfl

theorem shiftIdx_some (shape : List Nat) (box : Box) (idx s : List Nat)
    (h : shiftIdx shape box idx = some s) :
    inShape shape s = true ∧
      s.map (fun (x : Nat) => (x : Int)) = List.zipWith (fun (j : Nat) (b : Int × Int) => (j : Int) + b.1) idx box := by
  induction shape generalizing box idx s with
  | nil =>
    cases box <;> cases idx <;> simp [shiftIdx] at h
    subst h; simp [inShape]
  | cons n ns ih =>
    cases box with
    | nil => cases idx <;> simp [shiftIdx] at h
    | cons b bs =>
      cases idx with
      | nil => simp [shiftIdx] at h
      | cons j js =>
        simp only [shiftIdx] at h
        split_ifs at h with hc
        cases hr : shiftIdx ns bs js with
        | none => simp [hr] at h
        | some t =>
          simp only [hr, Option.map_some, Option.some.injEq] at h
          subst h
          obtain ⟨i1, i2⟩ := ih bs js t hr
          refine ⟨?_, ?_⟩
          · rw [inShape_cons]; exact ⟨by omega, i1⟩
          · simp only [List.map_cons, List.zipWith_cons_cons, i2]
            congr 1; omega

theorem adjustData_shape_eq {α : Type} (a : Arr α) (box : Box) (pad : α)
    (hlen : box.length = a.shape.length) (hstop : ∀ b ∈ box, 0 ≤ b.2) :
    (adjustData a box pad).shape = box.map (fun b => (max (b.2 - b.1) 0).toNat) := by
  show (plans a.shape box).map AxisPlan.newLen = _
  generalize a.shape = shape at hlen
  induction shape generalizing box with
  | nil => cases box <;> simp_all [plans]
  | cons n ns ih =>
    cases box with
    | nil => simp at hlen
    | cons b bs =>
      rw [plans_cons]
      simp only [List.map_cons]
      rw [ih bs (fun x hx => hstop x (by simp [hx])) (by simpa using hlen)]
      congr 1
      have := adjustAxis_newLen n b.1 b.2 (hstop b (by simp))
      omega

/-- nothing inside the box is lost -/
theorem conserve_aux (shape : List Nat) (box : Box) (s : List Nat)
    (hstop : ∀ b ∈ box, 0 ≤ b.2) (hs : inShape shape s = true)
    (hbox : List.Forall₂ (fun (x : Nat) (b : Int × Int) => b.1 ≤ (x : Int) ∧ (x : Int) < b.2) s box) :
    ∃ idx, inShape ((plans shape box).map AxisPlan.newLen) idx = true ∧
      idx.map (fun (x : Nat) => (x : Int)) = List.zipWith (fun (x : Nat) (b : Int × Int) => (x : Int) - b.1) s box ∧
      shiftIdx shape box idx = some s := by
  induction hbox generalizing shape with
  | nil =>
    cases shape with
    | nil => exact ⟨[], by simp [plans, inShape], by simp, by simp [shiftIdx]⟩
    | cons n ns => simp [inShape] at hs
  | @cons x b xs bs hxb _ ih =>
    cases shape with
    | nil => simp [inShape] at hs
    | cons n ns =>
      rw [inShape_cons] at hs
      obtain ⟨idx, h1, h2, h3⟩ := ih ns (fun y hy => hstop y (by simp [hy])) hs.2
      have hb : 0 ≤ b.2 := hstop b (by simp)
      have hl := adjustAxis_newLen n b.1 b.2 hb
      refine ⟨((x : Int) - b.1).toNat :: idx, ?_, ?_, ?_⟩
      · rw [plans_cons]; simp only [List.map_cons, inShape_cons]
        exact ⟨by omega, h1⟩
      · simp only [List.map_cons, List.zipWith_cons_cons, h2]
        congr 1; omega
      · simp only [shiftIdx]
        have e : ((((x : Int) - b.1).toNat : Nat) : Int) + b.1 = x := by omega
        rw [e, h3]
        simp [hs.1]

theorem adjustData_conserves {α : Type} (a : Arr α) (box : Box) (pad d : α) (s : List Nat)
    (hlen : box.length = a.shape.length) (hstop : ∀ b ∈ box, 0 ≤ b.2)
    (hs : inShape a.shape s = true)
    (hbox : List.Forall₂ (fun (x : Nat) (b : Int × Int) => b.1 ≤ (x : Int) ∧ (x : Int) < b.2) s box) :
    ∃ idx, inShape (adjustData a box pad).shape idx = true ∧
      idx.map (fun (x : Nat) => (x : Int)) = List.zipWith (fun (x : Nat) (b : Int × Int) => (x : Int) - b.1) s box ∧
      (adjustData a box pad).getD idx d = a.getD s pad := by
  obtain ⟨idx, h1, h2, h3⟩ := conserve_aux a.shape box s hstop hs hbox
  refine ⟨idx, h1, h2, ?_⟩
  rw [adjustData_getD a box pad d idx h1, srcIdx_eq_shiftIdx a.shape box idx hlen hstop h1, h3]
  rfl

/-! ## frames -/

theorem srcIdx_inShape (shape : List Nat) (box : Box) (idx s : List Nat)
    (hlen : box.length = shape.length) (h : srcIdx (plans shape box) idx = some s) :
    inShape shape s = true := by
  induction shape generalizing box idx s with
  | nil =>
    cases box with
    | nil => cases idx <;> simp [plans, srcIdx] at h; subst h; rfl
    | cons b bs => simp at hlen
  | cons n ns ih =>
    cases box with
    | nil => simp at hlen
    | cons b bs =>
      rw [plans_cons] at h
      cases idx with
      | nil => simp [srcIdx] at h
      | cons j js =>
        simp only [srcIdx] at h
        cases h1 : (adjustAxis n b.1 b.2).srcOf j with
        | none => simp [h1] at h
        | some s0 =>
          cases h2 : srcIdx (plans ns bs) js with
          | none => simp [h1, h2] at h
          | some ss =>
            simp only [h1, h2, Option.some.injEq] at h
            subst h
            rw [inShape_cons]
            exact ⟨(adjustAxis_srcOf_some n b.1 b.2 j s0 h1).2, ih bs js ss (by simpa using hlen) h2⟩

theorem phys_adjust {β : Type} [CommRing β] (shape : List Nat) (box : Box) (f : Frame β)
    (idx s : List Nat) (h : srcIdx (plans shape box) idx = some s) :
    phys (adjustFrame f box) idx = phys f s := by
  induction box generalizing shape f idx s with
  | nil =>
    have : plans shape [] = [] := by simp [plans]
    rw [this] at h
    cases idx <;> simp [srcIdx] at h
    subst h
    simp [phys, adjustFrame]
  | cons b bs ih =>
    cases shape with
    | nil =>
      have : plans [] (b :: bs) = [] := by simp [plans]
      rw [this] at h
      cases idx <;> simp [srcIdx] at h
      subst h
      simp [phys]
    | cons n ns =>
      rw [plans_cons] at h
      cases idx with
      | nil => simp [srcIdx] at h
      | cons j js =>
        simp only [srcIdx] at h
        cases h1 : (adjustAxis n b.1 b.2).srcOf j with
        | none => simp [h1] at h
        | some s0 =>
          cases h2 : srcIdx (plans ns bs) js with
          | none => simp [h1, h2] at h
          | some ss =>
            simp only [h1, h2, Option.some.injEq] at h
            subst h
            cases f with
            | nil => simp [phys, adjustFrame]
            | cons o fs =>
              have hs := (adjustAxis_srcOf_some n b.1 b.2 j s0 h1).1
              have hc : ((s0 : Int) : β) = ((j : Int) : β) + (b.1 : β) := by
                rw [hs]; push_cast; ring
              have ih' := ih ns fs js ss h2
              simp only [phys, adjustFrame, List.zipWith_cons_cons] at ih' ⊢
              rw [ih', hc]
              congr 1; ring

theorem adjustFrame_snd {β : Type} [CommRing β] (f : Frame β) (box : Box) (h : box.length = f.length) :
    (adjustFrame f box).map Prod.snd = f.map Prod.snd := by
  induction f generalizing box with
  | nil => simp [adjustFrame]
  | cons o fs ih =>
    cases box with
    | nil => simp at h
    | cons b bs =>
      simp only [adjustFrame, List.zipWith_cons_cons, List.map_cons] at ih ⊢
      rw [ih bs (by simpa using h)]

theorem pad_shape_eq {α β : Type} [CommRing β] (d : Dens α β) (newShape : List Nat) (center : Bool) (v : α)
    (h : newShape.length = d.data.shape.length) :
    (d.pad newShape center v).data.shape = newShape := by
  show (plans d.data.shape (Dens.padBox center d.data.shape newShape)).map AxisPlan.newLen = newShape
  generalize d.data.shape = shape at h
  induction shape generalizing newShape with
  | nil => cases newShape <;> simp_all [plans, Dens.padBox]
  | cons n ns ih =>
    cases newShape with
    | nil => simp at h
    | cons m ms =>
      have : Dens.padBox center (n :: ns) (m :: ms) = padBoxAxis center n m :: Dens.padBox center ns ms := rfl
      rw [this, plans_cons]
      simp only [List.map_cons]
      rw [ih ms (by simpa using h), pad_newLen]

/-! ## trim_box -/

theorem firstHitFrom_spec (p : Nat → Bool) (f k i : Nat) (hk : k ≤ i) (hi : i < k + f) (hp : p i = true) :
    ∃ s, firstHitFrom p f k = some s ∧ k ≤ s ∧ s ≤ i ∧ p s = true := by
  induction f generalizing k with
  | zero => omega
  | succ f ih =>
    unfold firstHitFrom
    by_cases hpk : p k = true
    · rw [if_pos hpk]; exact ⟨k, rfl, Nat.le_refl _, hk, hpk⟩
    · rw [if_neg hpk]
      have : k ≠ i := by rintro rfl; exact hpk hp
      obtain ⟨s, h1, h2, h3, h4⟩ := ih (k + 1) (by omega) (by omega)
      exact ⟨s, h1, by omega, h3, h4⟩

theorem firstHitFrom_some (p : Nat → Bool) (f k s : Nat) (h : firstHitFrom p f k = some s) :
    k ≤ s ∧ s < k + f ∧ p s = true := by
  induction f generalizing k with
  | zero => simp [firstHitFrom] at h
  | succ f ih =>
    unfold firstHitFrom at h
    by_cases hpk : p k = true
    · rw [if_pos hpk] at h; simp only [Option.some.injEq] at h; subst h; exact ⟨Nat.le_refl _, by omega, hpk⟩
    · rw [if_neg hpk] at h
      obtain ⟨h1, h2, h3⟩ := ih (k + 1) h
      exact ⟨by omega, by omega, h3⟩

theorem lastHit_spec (p : Nat → Bool) (n i : Nat) (hi : i < n) (hp : p i = true) :
    ∃ l, lastHit p n = some l ∧ i ≤ l ∧ l < n ∧ p l = true := by
  induction n with
  | zero => omega
  | succ n ih =>
    unfold lastHit
    by_cases hpn : p n = true
    · rw [if_pos hpn]; exact ⟨n, rfl, by omega, by omega, hpn⟩
    · rw [if_neg hpn]
      have : i ≠ n := by rintro rfl; exact hpn hp
      obtain ⟨l, h1, h2, h3, h4⟩ := ih (by omega)
      exact ⟨l, h1, h2, by omega, h4⟩

theorem lastHit_some (p : Nat → Bool) (n l : Nat) (h : lastHit p n = some l) : l < n ∧ p l = true := by
  induction n with
  | zero => simp [lastHit] at h
  | succ n ih =>
    unfold lastHit at h
    by_cases hpn : p n = true
    · rw [if_pos hpn] at h; simp only [Option.some.injEq] at h; subst h; exact ⟨by omega, hpn⟩
    · rw [if_neg hpn] at h
      obtain ⟨h1, h2⟩ := ih h
      exact ⟨by omega, h2⟩

section trim
variable {α : Type} [LT α] [DecidableLT α]

theorem mem_allIdx (shape idx : List Nat) (h : inShape shape idx = true) : idx ∈ allIdx shape := by
  unfold allIdx
  rw [List.mem_map]
  exact ⟨flatIdx shape idx, List.mem_range.mpr (flatIdx_lt h), unflat_flatIdx h⟩

/-- a voxel above the cut-off shows up in the projection of every axis -/
theorem axisHit_of_above (a : Arr α) (cutoff : α) (idx : List Nat) (hin : inShape a.shape idx = true)
    (hab : cutoff < a.getD idx cutoff) (ax : Nat) (hax : ax < idx.length) :
    axisHit a cutoff ax idx[ax] = true := by
  unfold axisHit
  rw [List.any_eq_true]
  refine ⟨idx, mem_allIdx _ _ hin, ?_⟩
  simp [hax, hab]

/-- one axis: the box returned for an axis contains every projected hit, lies inside the axis
and is not empty -/
theorem trimAxis_spec (a : Arr α) (cutoff : α) (margin : Int) (ax n : Nat) (b : Int × Int)
    (hm : 0 ≤ margin) (h : trimAxis a cutoff margin ax n = some b) :
    (0 ≤ b.1 ∧ b.1 < b.2 ∧ b.2 ≤ (n : Int)) ∧
    ∀ j, j < n → axisHit a cutoff ax j = true → b.1 ≤ (j : Int) ∧ (j : Int) < b.2 := by
  unfold trimAxis at h
  cases hf : firstHit (axisHit a cutoff ax) n with
  | none => simp [hf] at h
  | some f =>
    cases hl : lastHit (axisHit a cutoff ax) n with
    | none => simp [hf, hl] at h
    | some l =>
      simp only [hf, hl, Option.some.injEq] at h
      subst h
      obtain ⟨l1, l2⟩ := lastHit_some _ _ _ hl
      obtain ⟨f1, f2, f3⟩ := firstHitFrom_some _ _ _ _ hf
      obtain ⟨s, e1, _, e3, _⟩ := firstHitFrom_spec (axisHit a cutoff ax) n 0 l (by omega) (by omega) l2
      have hfl : f ≤ l := by
        unfold firstHit at hf; rw [hf] at e1; simp only [Option.some.injEq] at e1; omega
      refine ⟨by simp only; omega, ?_⟩
      intro j hj hp
      obtain ⟨s', e1', _, e3', _⟩ := firstHitFrom_spec (axisHit a cutoff ax) n 0 j (by omega) (by omega) hp
      obtain ⟨l', g1, g2, _, _⟩ := lastHit_spec (axisHit a cutoff ax) n j hj hp
      unfold firstHit at hf
      rw [hf] at e1'; rw [hl] at g1
      simp only [Option.some.injEq] at e1' g1
      subst e1' g1
      simp only; omega

theorem trimAxis_isSome (a : Arr α) (cutoff : α) (margin : Int) (ax n j : Nat)
    (hj : j < n) (hp : axisHit a cutoff ax j = true) :
    ∃ b, trimAxis a cutoff margin ax n = some b := by
  obtain ⟨s, e1, _⟩ := firstHitFrom_spec (axisHit a cutoff ax) n 0 j (by omega) (by omega) hp
  obtain ⟨l, g1, _⟩ := lastHit_spec (axisHit a cutoff ax) n j hj hp
  unfold trimAxis firstHit
  rw [e1, g1]
  exact ⟨_, rfl⟩

theorem trimBoxAux_length (a : Arr α) (cutoff : α) (margin : Int) (ax : Nat) (ns : List Nat) (box : Box)
    (h : trimBoxAux a cutoff margin ax ns = some box) : box.length = ns.length := by
  induction ns generalizing ax box with
  | nil => simp [trimBoxAux] at h; subst h; rfl
  | cons n ns ih =>
    simp only [trimBoxAux] at h
    cases h1 : trimAxis a cutoff margin ax n with
    | none => simp [h1] at h
    | some b =>
      cases h2 : trimBoxAux a cutoff margin (ax + 1) ns with
      | none => simp [h1, h2] at h
      | some bs =>
        simp only [h1, h2, Option.some.injEq] at h
        subst h
        simp [ih (ax + 1) bs h2]

theorem trimBoxAux_within (a : Arr α) (cutoff : α) (margin : Int) (hm : 0 ≤ margin) (ax : Nat) (ns : List Nat)
    (box : Box) (h : trimBoxAux a cutoff margin ax ns = some box) :
    List.Forall₂ (fun (n : Nat) (b : Int × Int) => 0 ≤ b.1 ∧ b.1 < b.2 ∧ b.2 ≤ (n : Int)) ns box := by
  induction ns generalizing ax box with
  | nil => simp [trimBoxAux] at h; subst h; exact List.Forall₂.nil
  | cons n ns ih =>
    simp only [trimBoxAux] at h
    cases h1 : trimAxis a cutoff margin ax n with
    | none => simp [h1] at h
    | some b =>
      cases h2 : trimBoxAux a cutoff margin (ax + 1) ns with
      | none => simp [h1, h2] at h
      | some bs =>
        simp only [h1, h2, Option.some.injEq] at h
        subst h
        exact List.Forall₂.cons (trimAxis_spec a cutoff margin ax n b hm h1).1 (ih (ax + 1) bs h2)

/-- generalised over the axis offset: `js` are the trailing coordinates of a voxel whose projections
hit on axes `ax, ax+1, …` -/
theorem trimBoxAux_contains (a : Arr α) (cutoff : α) (margin : Int) (hm : 0 ≤ margin) (ax : Nat) (ns js : List Nat)
    (box : Box) (h : trimBoxAux a cutoff margin ax ns = some box) (hin : inShape ns js = true)
    (hit : ∀ k (hk : k < js.length), axisHit a cutoff (ax + k) js[k] = true) :
    List.Forall₂ (fun (x : Nat) (b : Int × Int) => b.1 ≤ (x : Int) ∧ (x : Int) < b.2) js box := by
  induction ns generalizing ax box js with
  | nil =>
    simp [trimBoxAux] at h; subst h
    cases js with
    | nil => exact List.Forall₂.nil
    | cons j js => simp [inShape] at hin
  | cons n ns ih =>
    cases js with
    | nil => simp [inShape] at hin
    | cons j js =>
      rw [inShape_cons] at hin
      simp only [trimBoxAux] at h
      cases h1 : trimAxis a cutoff margin ax n with
      | none => simp [h1] at h
      | some b =>
        cases h2 : trimBoxAux a cutoff margin (ax + 1) ns with
        | none => simp [h1, h2] at h
        | some bs =>
          simp only [h1, h2, Option.some.injEq] at h
          subst h
          have h0 := hit 0 (by simp)
          simp only [Nat.add_zero, List.getElem_cons_zero] at h0
          refine List.Forall₂.cons ((trimAxis_spec a cutoff margin ax n b hm h1).2 j hin.1 h0) ?_
          apply ih (ax + 1) js bs h2 hin.2
          intro k hk
          have := hit (k + 1) (by simp; omega)
          simpa [Nat.add_assoc, Nat.add_comm 1 k] using this

theorem trimBoxAux_isSome (a : Arr α) (cutoff : α) (margin : Int) (ax : Nat) (ns js : List Nat)
    (hin : inShape ns js = true)
    (hit : ∀ k (hk : k < js.length), axisHit a cutoff (ax + k) js[k] = true) :
    ∃ box, trimBoxAux a cutoff margin ax ns = some box := by
  induction ns generalizing ax js with
  | nil => exact ⟨[], rfl⟩
  | cons n ns ih =>
    cases js with
    | nil => simp [inShape] at hin
    | cons j js =>
      rw [inShape_cons] at hin
      have h0 := hit 0 (by simp)
      simp only [Nat.add_zero, List.getElem_cons_zero] at h0
      obtain ⟨b, hb⟩ := trimAxis_isSome a cutoff margin ax n j hin.1 h0
      obtain ⟨bs, hbs⟩ := ih (ax + 1) js hin.2 (by
        intro k hk
        have := hit (k + 1) (by simp; omega)
        simpa [Nat.add_assoc, Nat.add_comm 1 k] using this)
      exact ⟨b :: bs, by simp [trimBoxAux, hb, hbs]⟩

theorem hits_of_above (a : Arr α) (cutoff : α) (idx : List Nat) (hin : inShape a.shape idx = true)
    (hab : cutoff < a.getD idx cutoff) :
    ∀ k (hk : k < idx.length), axisHit a cutoff (0 + k) idx[k] = true := by
  intro k hk
  rw [Nat.zero_add]
  exact axisHit_of_above a cutoff idx hin hab k hk

theorem trimBox_contains (a : Arr α) (cutoff : α) (margin : Int) (box : Box) (idx : List Nat) (hm : 0 ≤ margin)
    (hbox : trimBox a cutoff margin = some box) (hin : inShape a.shape idx = true)
    (habove : cutoff < a.getD idx cutoff) :
    List.Forall₂ (fun (x : Nat) (b : Int × Int) => b.1 ≤ (x : Int) ∧ (x : Int) < b.2) idx box :=
  trimBoxAux_contains a cutoff margin hm 0 a.shape idx box hbox hin (hits_of_above a cutoff idx hin habove)

theorem trimBox_within (a : Arr α) (cutoff : α) (margin : Int) (box : Box) (hm : 0 ≤ margin)
    (hbox : trimBox a cutoff margin = some box) :
    List.Forall₂ (fun (n : Nat) (b : Int × Int) => 0 ≤ b.1 ∧ b.1 < b.2 ∧ b.2 ≤ (n : Int)) a.shape box :=
  trimBoxAux_within a cutoff margin hm 0 a.shape box hbox

theorem trimBox_isSome (a : Arr α) (cutoff : α) (margin : Int) (idx : List Nat)
    (hin : inShape a.shape idx = true) (habove : cutoff < a.getD idx cutoff) :
    (trimBox a cutoff margin).isSome = true := by
  obtain ⟨box, h⟩ := trimBoxAux_isSome a cutoff margin 0 a.shape idx hin (hits_of_above a cutoff idx hin habove)
  unfold trimBox; rw [h]; rfl

theorem trimBox_length (a : Arr α) (cutoff : α) (margin : Int) (box : Box)
    (h : trimBox a cutoff margin = some box) : box.length = a.shape.length :=
  trimBoxAux_length a cutoff margin 0 a.shape box h

end trim

/-! ## histories -/

theorem getD_default_irrel {α : Type} (a : Arr α) (hwf : a.data.size = prodL a.shape) (idx : List Nat)
    (hin : inShape a.shape idx = true) (x y : α) : a.getD idx x = a.getD idx y := by
  have := flatIdx_lt hin
  simp [Arr.getD, hin, Array.getD, hwf, this]

theorem adjustData_wf {α : Type} (a : Arr α) (box : Box) (pad : α) :
    (adjustData a box pad).data.size = prodL (adjustData a box pad).shape := by
  unfold adjustData
  exact Arr.size_ofFn _ _

section hist
variable {α β : Type} [LT α] [DecidableLT α] [CommRing β]

theorem boxOf_length (data : Arr α) (op : Op α) (bp : Box × α)
    (h : boxOf data.shape data op = some bp) : bp.1.length = data.shape.length := by
  cases op with
  | adjust box pad =>
    simp only [boxOf] at h
    split_ifs at h with hc
    simp only [Option.some.injEq] at h; subst h; exact hc
  | pad ns c v =>
    simp only [boxOf] at h
    split_ifs at h with hc
    simp only [Option.some.injEq] at h; subst h
    simp [Dens.padBox, hc]
  | trim cutoff margin pad =>
    simp only [boxOf, Option.map_eq_some_iff] at h
    obtain ⟨b, hb, rfl⟩ := h
    exact trimBox_length data cutoff margin b hb
  | copy => simp [boxOf] at h

omit [LT α] [DecidableLT α] in
/-- one box operation: the value found at `mid` is the old value at its source, which has the same
physical coordinate -/
theorem step_trace (d : Dens α β) (box : Box) (pad x : α) (mid s : List Nat)
    (hwf : d.data.data.size = prodL d.data.shape) (hlen : box.length = d.data.shape.length)
    (hin : inShape (d.adjustBox box pad).data.shape mid = true)
    (hs : srcIdx (plans d.data.shape box) mid = some s) :
    (d.adjustBox box pad).data.getD mid x = d.data.getD s x ∧
      phys (d.adjustBox box pad).frame mid = phys d.frame s ∧ inShape d.data.shape s = true := by
  have hsin := srcIdx_inShape d.data.shape box mid s hlen hs
  refine ⟨?_, phys_adjust d.data.shape box d.frame mid s hs, hsin⟩
  show (adjustData d.data box pad).getD mid x = _
  rw [adjustData_getD d.data box pad x mid hin, hs]
  show d.data.getD s pad = _
  exact getD_default_irrel d.data hwf s hsin pad x

theorem history_cons (op : Op α) (ops : List (Op α)) (d d' : Dens α β) (idx idx0 : List Nat) (x : α)
    (hstep : step d op = (boxOf d.data.shape d.data op).map (fun bp => d.adjustBox bp.1 bp.2))
    (htrace : traceFrom d (op :: ops) idx =
      match boxOf d.data.shape d.data op with
      | some bp => (traceFrom (d.adjustBox bp.1 bp.2) ops idx).bind (fun mid => srcIdx (plans d.data.shape bp.1) mid)
      | none => none)
    (ih : ∀ (d1 : Dens α β) (m : List Nat), d1.data.data.size = prodL d1.data.shape → runFrom d1 ops = some d' →
      traceFrom d1 ops idx = some m →
      d'.data.getD idx x = d1.data.getD m x ∧ phys d'.frame idx = phys d1.frame m ∧ inShape d1.data.shape m = true)
    (hwf : d.data.data.size = prodL d.data.shape)
    (hrun : runFrom d (op :: ops) = some d') (htr : traceFrom d (op :: ops) idx = some idx0) :
    d'.data.getD idx x = d.data.getD idx0 x ∧ phys d'.frame idx = phys d.frame idx0 ∧
      inShape d.data.shape idx0 = true := by
  rw [htrace] at htr
  simp only [runFrom, hstep] at hrun
  cases hb : boxOf d.data.shape d.data op with
  | none => simp [hb] at hrun
  | some bp =>
    simp only [hb, Option.map_some, Option.bind_some] at hrun htr
    cases hm : traceFrom (d.adjustBox bp.1 bp.2) ops idx with
    | none => simp [hm] at htr
    | some mid =>
      simp only [hm, Option.bind_some] at htr
      obtain ⟨i1, i2, i3⟩ := ih (d.adjustBox bp.1 bp.2) mid (adjustData_wf d.data bp.1 bp.2) hrun hm
      obtain ⟨j1, j2, j3⟩ := step_trace d bp.1 bp.2 x mid idx0 hwf (boxOf_length d.data op bp hb) i3 htr
      exact ⟨i1.trans j1, i2.trans j2, j3⟩

theorem history_trace (ops : List (Op α)) (d d' : Dens α β) (idx idx0 : List Nat) (x : α)
    (hwf : d.data.data.size = prodL d.data.shape)
    (hrun : runFrom d ops = some d') (htr : traceFrom d ops idx = some idx0)
    (hin : inShape d'.data.shape idx = true) :
    d'.data.getD idx x = d.data.getD idx0 x ∧ phys d'.frame idx = phys d.frame idx0 ∧
      inShape d.data.shape idx0 = true := by
  induction ops generalizing d idx0 with
  | nil =>
    simp only [runFrom, Option.some.injEq] at hrun
    simp only [traceFrom, Option.some.injEq] at htr
    subst hrun; subst htr
    exact ⟨rfl, rfl, hin⟩
  | cons op ops ih =>
    cases op with
    | copy =>
      simp only [runFrom, step, Option.bind_some] at hrun
      simp only [traceFrom] at htr
      exact ih d idx0 hwf hrun htr
    | adjust box pad =>
      exact history_cons _ ops d d' idx idx0 x rfl rfl (fun d1 m w r t => ih d1 m w r t) hwf hrun htr
    | pad ns c v =>
      exact history_cons _ ops d d' idx idx0 x rfl rfl (fun d1 m w r t => ih d1 m w r t) hwf hrun htr
    | trim cutoff margin pad =>
      exact history_cons _ ops d d' idx idx0 x rfl rfl (fun d1 m w r t => ih d1 m w r t) hwf hrun htr

end hist

/-! ## conservation with physical position; trimming; minimum_enclosing_box -/

theorem forall₂_right_mem {A B : Type} {R : A → B → Prop} {P : B → Prop} {l1 : List A} {l2 : List B}
    (h : List.Forall₂ R l1 l2) (hp : ∀ a b, R a b → P b) : ∀ b ∈ l2, P b := by
  induction h with
  | nil => intro b hb; simp at hb
  | cons hab _ ih =>
    intro b hb
    rcases List.mem_cons.mp hb with rfl | hb
    · exact hp _ _ hab
    · exact ih b hb

theorem adjustBox_conserves_phys {α β : Type} [CommRing β] (d : Dens α β) (box : Box) (pad dflt : α) (s : List Nat)
    (hlen : box.length = d.data.shape.length) (hstop : ∀ b ∈ box, 0 ≤ b.2)
    (hs : inShape d.data.shape s = true)
    (hbox : List.Forall₂ (fun (x : Nat) (b : Int × Int) => b.1 ≤ (x : Int) ∧ (x : Int) < b.2) s box) :
    ∃ idx, inShape (d.adjustBox box pad).data.shape idx = true ∧
      (d.adjustBox box pad).data.getD idx dflt = d.data.getD s pad ∧
      phys (d.adjustBox box pad).frame idx = phys d.frame s := by
  obtain ⟨idx, h1, _, h3⟩ := conserve_aux d.data.shape box s hstop hs hbox
  have hsrc : srcIdx (plans d.data.shape box) idx = some s := by
    rw [srcIdx_eq_shiftIdx d.data.shape box idx hlen hstop h1, h3]
  refine ⟨idx, h1, ?_, phys_adjust d.data.shape box d.frame idx s hsrc⟩
  show (adjustData d.data box pad).getD idx dflt = _
  rw [adjustData_getD d.data box pad dflt idx h1, hsrc]
  rfl

section trim2
variable {α β : Type} [LT α] [DecidableLT α] [CommRing β]

/-- trimming (`adjust_box(trim_box(cutoff, margin))`) keeps every voxel above the cut-off, at its
physical coordinate -/
theorem trim_keeps (d : Dens α β) (cutoff pad dflt : α) (margin : Int) (box : Box) (idx : List Nat)
    (hm : 0 ≤ margin) (hbox : trimBox d.data cutoff margin = some box)
    (hin : inShape d.data.shape idx = true) (habove : cutoff < d.data.getD idx cutoff) :
    ∃ idx', inShape (d.adjustBox box pad).data.shape idx' = true ∧
      (d.adjustBox box pad).data.getD idx' dflt = d.data.getD idx pad ∧
      phys (d.adjustBox box pad).frame idx' = phys d.frame idx := by
  have hw := trimBox_within d.data cutoff margin box hm hbox
  have hstop : ∀ b ∈ box, 0 ≤ b.2 :=
    forall₂_right_mem (P := fun b : Int × Int => 0 ≤ b.2) hw (fun n b h => by omega)
  exact adjustBox_conserves_phys d box pad dflt idx (trimBox_length d.data cutoff margin box hbox) hstop hin
    (trimBox_contains d.data cutoff margin box idx hm hbox hin habove)

/-- extents of the cloud above the cut-off: every such voxel lies in `[lo, hi]` on every axis -/
theorem extentAux_contains (a : Arr α) (cutoff : α) (ax : Nat) (ns js : List Nat) (e : List (Nat × Nat))
    (h : extentAux a cutoff ax ns = some e) (hin : inShape ns js = true)
    (hit : ∀ k (hk : k < js.length), axisHit a cutoff (ax + k) js[k] = true) :
    List.Forall₂ (fun (x : Nat) (lh : Nat × Nat) => lh.1 ≤ x ∧ x ≤ lh.2) js e := by
  induction ns generalizing ax e js with
  | nil =>
    simp [extentAux] at h; subst h
    cases js with
    | nil => exact List.Forall₂.nil
    | cons j js => simp [inShape] at hin
  | cons n ns ih =>
    cases js with
    | nil => simp [inShape] at hin
    | cons j js =>
      rw [inShape_cons] at hin
      simp only [extentAux] at h
      cases hf : firstHit (axisHit a cutoff ax) n with
      | none => simp [hf] at h
      | some f =>
        cases hl : lastHit (axisHit a cutoff ax) n with
        | none => simp [hf, hl] at h
        | some l =>
          cases hr : extentAux a cutoff (ax + 1) ns with
          | none => simp [hf, hl, hr] at h
          | some r =>
            simp only [hf, hl, hr, Option.some.injEq] at h
            subst h
            have h0 := hit 0 (by simp)
            simp only [Nat.add_zero, List.getElem_cons_zero] at h0
            obtain ⟨s', e1', _, e3', _⟩ := firstHitFrom_spec (axisHit a cutoff ax) n 0 j (by omega) (by omega) h0
            obtain ⟨l', g1, g2, _, _⟩ := lastHit_spec (axisHit a cutoff ax) n j hin.1 h0
            unfold firstHit at hf
            rw [hf] at e1'; rw [hl] at g1
            simp only [Option.some.injEq] at e1' g1
            subst e1' g1
            refine List.Forall₂.cons ⟨e3', g2⟩ ?_
            apply ih (ax + 1) js r hr hin.2
            intro k hk
            have := hit (k + 1) (by simp; omega)
            simpa [Nat.add_assoc, Nat.add_comm 1 k] using this

theorem meboxAxis_contains' (side lo hi x : Nat) (h1 : lo ≤ x) (h2 : x ≤ hi) (hc : hi - lo + 1 ≤ side) :
    (meboxAxis side lo hi).1 ≤ (x : Int) ∧ (x : Int) < (meboxAxis side lo hi).2 := by
  unfold meboxAxis; simp only; omega

/-- `minimum_enclosing_box` contains every voxel above the cut-off whenever the recorded cube side
satisfies its contract `hi - lo + 1 ≤ side` on every axis -/
theorem mebox_contains_aux (a : Arr α) (cutoff : α) (side : Nat) (box : Box) (idx : List Nat)
    (hbox : mebox a cutoff side = some box)
    (hc : ∀ e, extentAux a cutoff 0 a.shape = some e → ∀ lh ∈ e, lh.2 - lh.1 + 1 ≤ side)
    (hin : inShape a.shape idx = true) (habove : cutoff < a.getD idx cutoff) :
    List.Forall₂ (fun (x : Nat) (b : Int × Int) => b.1 ≤ (x : Int) ∧ (x : Int) < b.2) idx box := by
  unfold mebox at hbox
  cases he : extentAux a cutoff 0 a.shape with
  | none => simp [he] at hbox
  | some e =>
    simp only [he, Option.map_some, Option.some.injEq] at hbox
    subst hbox
    have hcon := extentAux_contains a cutoff 0 a.shape idx e he hin (hits_of_above a cutoff idx hin habove)
    have hce := hc e he
    clear he hin habove hc
    induction hcon with
    | nil => exact List.Forall₂.nil
    | @cons x lh xs es hx _ ih =>
      simp only [List.map_cons]
      refine List.Forall₂.cons ?_ (ih (fun y hy => hce y (by simp [hy])))
      exact meboxAxis_contains' side lh.1 lh.2 x hx.1 hx.2 (hce lh (by simp))

end trim2

/-- `centered`: the padded shape is odd and at least both the source box and the enclosing box -/
theorem centeredAxis_spec (a b : Nat) :
    let m := max a b
    (m + (1 - m % 2)) % 2 = 1 ∧ a ≤ m + (1 - m % 2) ∧ b ≤ m + (1 - m % 2) := by
  simp only; omega

/-! ## per-axis arguments -/

theorem broadcastAxes_length {β : Type} (ndim : Nat) (l r : List β) (h : broadcastAxes ndim l = some r) :
    r.length = ndim := by
  unfold broadcastAxes at h
  split_ifs at h with h0
  simp only at h
  split_ifs at h with h1
  simp only [Option.some.injEq] at h
  subst h; exact h1

theorem broadcastAxes_scalar {β : Type} (ndim : Nat) (x : β) :
    broadcastAxes ndim [x] = some (List.replicate ndim x) := by
  simp [broadcastAxes]

theorem broadcastAxes_full {β : Type} (l : List β) (h : l ≠ []) : broadcastAxes l.length l = some l := by
  have hpos : 0 < l.length := List.length_pos_iff.mpr h
  have hne : l.length ≠ 0 := by omega
  have hr : l.flatMap (fun x => List.replicate (l.length / l.length) x) = l := by
    rw [Nat.div_self hpos]
    induction l with
    | nil => rfl
    | cons a t ih =>
      cases t with
      | nil => simp
      | cons b t' => simp [List.flatMap_cons] at *
  simp only [broadcastAxes, hne, if_false, hr, if_true]

/-! ## heap -/

section heap
variable {γ : Type} [Inhabited γ]

theorem read_alloc_lt (h : Heap γ) (v : γ) (a : Nat) (ha : a < h.cells.length) :
    (h.alloc v).1.read a = h.read a := by
  simp [Heap.alloc, Heap.read, List.getD_eq_getElem?_getD, List.getElem?_append_left ha]

theorem read_alloc_new (h : Heap γ) (v : γ) : (h.alloc v).1.read (h.alloc v).2 = v := by
  simp [Heap.alloc, Heap.read, List.getD_eq_getElem?_getD]

omit [Inhabited γ] in
theorem alloc_length (h : Heap γ) (v : γ) : (h.alloc v).1.cells.length = h.cells.length + 1 := by
  simp [Heap.alloc]

theorem read_write_ne (h : Heap γ) (a b : Nat) (v : γ) (hab : a ≠ b) : (h.write a v).read b = h.read b := by
  simp [Heap.write, Heap.read, List.getD_eq_getElem?_getD, List.getElem?_set_ne hab]

/-- explicit result of `copyD`: four fresh addresses -/
theorem copyD_refs (h : Heap γ) (d : DRef) :
    (copyD h d).2 = ⟨h.cells.length, h.cells.length + 3, h.cells.length + 4, h.cells.length + 2⟩ ∧
    (copyD h d).1.cells.length = h.cells.length + 5 := by
  simp [copyD, construct, Heap.alloc]

theorem copyD_cells (h : Heap γ) (d : DRef) (hwf : ∀ r ∈ d.refs, r < h.cells.length) :
    (copyD h d).1.cells = h.cells ++ [h.read d.data, h.read d.origin, h.read d.md, h.read d.origin, h.read d.rate] := by
  simp only [DRef.refs, List.mem_cons, List.not_mem_nil, or_false, forall_eq_or_imp, forall_eq] at hwf
  obtain ⟨h1, h2, h3, h4⟩ := hwf
  simp [copyD, construct, Heap.alloc, Heap.read, List.getD_eq_getElem?_getD, List.getElem?_append, h1, h2, h3, h4]

theorem copyD_fresh (h : Heap γ) (d : DRef) (hwf : ∀ r ∈ d.refs, r < h.cells.length) :
    let c := (copyD h d).2
    let h' := (copyD h d).1
    (∀ r ∈ c.refs, ∀ s ∈ d.refs, r ≠ s) ∧
    (h'.read c.data = h.read d.data ∧ h'.read c.origin = h.read d.origin ∧
      h'.read c.rate = h.read d.rate ∧ h'.read c.md = h.read d.md) ∧
    (∀ r ∈ c.refs, ∀ v, ∀ s ∈ d.refs, (h'.write r v).read s = h.read s) ∧
    (∀ s ∈ d.refs, ∀ v, ∀ r ∈ c.refs, (h'.write s v).read r = h'.read r) := by
  intro c h'
  have hr := (copyD_refs h d).1
  have hc := copyD_cells h d hwf
  have hfresh : ∀ r ∈ c.refs, ∀ s ∈ d.refs, r ≠ s := by
    intro r hr' s hs
    have := hwf s hs
    simp only [c, hr, DRef.refs, List.mem_cons, List.not_mem_nil, or_false] at hr'
    omega
  have hold : ∀ s ∈ d.refs, h'.read s = h.read s := by
    intro s hs
    have := hwf s hs
    simp [h', Heap.read, hc, List.getD_eq_getElem?_getD, List.getElem?_append_left this]
  refine ⟨hfresh, ?_, ?_, ?_⟩
  · simp [c, h', hr, Heap.read, hc, List.getD_eq_getElem?_getD]
  · intro r hr' v s hs
    rw [read_write_ne _ _ _ _ (hfresh r hr' s hs)]
    exact hold s hs
  · intro s hs v r hr'
    exact read_write_ne _ _ _ _ (fun e => hfresh r hr' s hs e.symm)

theorem emptyD_fresh (h : Heap γ) (d : DRef) (hwf : ∀ r ∈ d.refs, r < h.cells.length) :
    ∀ r ∈ (emptyD h d).2.refs, ∀ s ∈ d.refs, r ≠ s := by
  intro r hr s hs
  have := hwf s hs
  simp [emptyD, construct, Heap.alloc, DRef.refs] at hr
  omega

end heap

end Pm.C15
