import PytmeModel.Model.C09
import PytmeModel.Proofs.C09
import Mathlib.Tactic.IntervalCases

/-! Helper lemmas for C09, part 2: the file-level mmCIF reader (`Parser.__init__` line filter,
`_consolidate_strings`, `_split_in_blocks`, `_loop_block_to_dict`) applied to a loop written by
`_write_mmcif`. -/
namespace Pm.C09

/-! ## joining lines -/

theorem joinWith_cons_ne (sep a : Str) (rest : List Str) (h : rest ≠ []) :
    joinWith sep (a :: rest) = a ++ sep ++ joinWith sep rest := by
  cases rest with
  | nil => exact absurd rfl h
  | cons _ _ => rfl

/-- lines each terminated by the separator, followed by a joined non-empty list -/
theorem flatten_sep_joinWith (sep : Str) (ls rs : List Str) (h : rs ≠ []) :
    (ls.map (· ++ sep)).flatten ++ joinWith sep rs = joinWith sep (ls ++ rs) := by
  induction ls with
  | nil => rfl
  | cons a rest ih =>
    have : rest ++ rs ≠ [] := by simp [h]
    simp only [List.map_cons, List.flatten_cons, List.cons_append, joinWith_cons_ne sep a _ this,
      List.append_assoc, ih]

theorem joinWith_snoc_nil (sep : Str) (ls : List Str) (h : ls ≠ []) :
    joinWith sep ls ++ sep = joinWith sep (ls ++ [[]]) := by
  induction ls with
  | nil => exact absurd rfl h
  | cons a rest ih =>
    cases rest with
    | nil => simp [joinWith]
    | cons b rest' =>
      have ih' := ih (by simp)
      simp only [List.cons_append, joinWith, List.append_assoc] at ih' ⊢
      rw [ih']

/-! ## `_consolidate_strings` without text fields -/

theorem consolidate_plain (ls : List Str) (h : ∀ l ∈ ls, startsWith [';'] l = false) (fuel : Nat)
    (hf : ls.length ≤ fuel) (acc : List Str) :
    consolidate fuel ls acc = some (acc.reverse ++ ls.map removeDq) := by
  induction ls generalizing fuel acc with
  | nil => cases fuel <;> simp [consolidate]
  | cons l rest ih =>
    cases fuel with
    | zero => simp at hf
    | succ f =>
      have hl := h l (List.mem_cons_self ..)
      simp only [consolidate, hl, Bool.false_eq_true, if_false]
      rw [ih (fun x hx => h x (List.mem_cons_of_mem _ hx)) f (by simpa using hf)]
      simp

/-! ## prefixes -/

theorem isPrefixOf_append_sep (p s r : Str) (c : Char) (hc : c ∉ p)
    (h : p.isPrefixOf (s ++ c :: r) = true) : p.isPrefixOf s = true := by
  induction p generalizing s with
  | nil => simp
  | cons x xs ih =>
    cases s with
    | nil =>
      simp only [List.nil_append, List.isPrefixOf, Bool.and_eq_true, beq_iff_eq] at h
      exact absurd h.1 (fun e => hc (e ▸ List.mem_cons_self ..))
    | cons y ys =>
      simp only [List.cons_append, List.isPrefixOf, Bool.and_eq_true, beq_iff_eq] at h ⊢
      exact ⟨h.1, ih ys (fun hm => hc (List.mem_cons_of_mem _ hm)) h.2⟩

/-! ## `_split_in_blocks` inside one category -/

/-- a line that `_split_in_blocks` appends to the current block of category `c` -/
def PlainFor (c : Str) (line : Str) : Prop :=
  startsWith "data_".toList line = false ∧ startsWith "loop_".toList line = false ∧
  (startsWith ['_'] line = true → firstDot line = c)

theorem splitBlocksAux_plain (c : Str) (ls rest : List Str) (h : ∀ l ∈ ls, PlainFor c l)
    (block : List Str) (acc : List Block) :
    splitBlocksAux (ls ++ rest) (some c) block acc = splitBlocksAux rest (some c) (ls.reverse ++ block) acc := by
  induction ls generalizing block with
  | nil => rfl
  | cons l ls ih =>
    obtain ⟨h1, h2, h3⟩ := h l (List.mem_cons_self ..)
    have hc : ¬ (startsWith ['_'] l = true ∧ some (firstDot l) ≠ some c) := by
      rintro ⟨a, b⟩; exact b (by rw [h3 a])
    simp only [List.cons_append, splitBlocksAux, h1, h2, Bool.false_eq_true, if_false, if_neg hc]
    rw [ih (fun x hx => h x (List.mem_cons_of_mem _ hx))]
    simp

/-- the header line of one loop column: `f"_{category}.{k}"` -/
def nameLine (cat k : Str) : Str := '_' :: cat ++ ['.'] ++ k

/-- a column name that survives the header syntax -/
def NameOk (k : Str) : Prop := Clean k ∧ '.' ∉ k ∧ '"' ∉ k

instance (k : Str) : Decidable (NameOk k) := by unfold NameOk; infer_instance

theorem splitOn_dot_nameLine (cat k : Str) (hc : '.' ∉ cat) :
    splitOn '.' (nameLine cat k) = ('_' :: cat) :: splitOn '.' k := by
  unfold splitOn nameLine
  have e : '_' :: cat ++ ['.'] ++ k = ('_' :: cat) ++ ('.' :: k) := by simp
  rw [e, splitOnAux_append '.' ('_' :: cat) ('.' :: k) [] (by simp [hc])]
  simp [splitOnAux]

theorem firstDot_nameLine (cat k : Str) (hc : '.' ∉ cat) : firstDot (nameLine cat k) = '_' :: cat := by
  unfold firstDot; rw [splitOn_dot_nameLine cat k hc]; rfl

theorem splitOn_not_mem (c : Char) (k : Str) (h : c ∉ k) : splitOn c k = [k] := by
  unfold splitOn
  have := splitOnAux_append c k [] [] h
  simp only [List.append_nil] at this
  rw [this]; simp [splitOnAux]

theorem nameOf_nameLine (cat k : Str) (hc : '.' ∉ cat) (hk : NameOk k) : nameOf (nameLine cat k) = some k := by
  unfold nameOf
  rw [splitOn_dot_nameLine cat k hc, splitOn_not_mem '.' k hk.2.1]
  simp [rstrip_clean hk.1]

theorem startsWith_nameLine (cat k : Str) : startsWith ('_' :: cat) (nameLine cat k) = true := by
  unfold startsWith nameLine
  have e : '_' :: cat ++ ['.'] ++ k = ('_' :: cat) ++ ('.' :: k) := by simp
  rw [e]
  exact List.isPrefixOf_iff_prefix.mpr (List.prefix_append _ _)

theorem plainFor_nameLine (cat k : Str) (hc : '.' ∉ cat) : PlainFor ('_' :: cat) (nameLine cat k) := by
  refine ⟨?_, ?_, fun _ => firstDot_nameLine cat k hc⟩ <;> simp [startsWith, nameLine, List.isPrefixOf]

theorem removeDq_nameLine (cat k : Str) (hc : '"' ∉ cat) (hk : '"' ∉ k) :
    removeDq (nameLine cat k) = nameLine cat k := by
  apply removeDq_of_not_mem
  simp [nameLine, hc, hk]

/-- `_split_in_blocks` on one loop: header lines of one category followed by rows that look like
neither a header nor a keyword give one block holding all the lines -/
theorem splitBlocks_loop (cat : Str) (hc : '.' ∉ cat) (names rows : List Str) (hn : names ≠ [])
    (hrows : ∀ r ∈ rows, PlainFor ('_' :: cat) r) :
    splitBlocks ("loop_".toList :: (names.map (nameLine cat) ++ rows)) =
      some [⟨cat, "loop_".toList :: (names.map (nameLine cat) ++ rows)⟩] := by
  cases names with
  | nil => exact absurd rfl hn
  | cons k0 ks =>
    have h1 : startsWith "data_".toList "loop_".toList = false := by decide
    have h2 : startsWith ['_'] "loop_".toList = false := by decide
    have h3 : startsWith "loop_".toList "loop_".toList = true := by decide
    unfold splitBlocks
    simp only [List.map_cons, List.cons_append]
    rw [splitBlocksAux]
    simp only [h1, h2, h3, Bool.false_eq_true, false_and, if_false, if_true, firstDot_nameLine cat k0 hc]
    have hall : ∀ l ∈ nameLine cat k0 :: (ks.map (nameLine cat) ++ rows), PlainFor ('_' :: cat) l := by
      intro l hl
      rcases List.mem_cons.mp hl with rfl | hl
      · exact plainFor_nameLine cat k0 hc
      · rcases List.mem_append.mp hl with hl | hl
        · obtain ⟨k, _, rfl⟩ := List.mem_map.mp hl
          exact plainFor_nameLine cat k hc
        · exact hrows l hl
    have := splitBlocksAux_plain ('_' :: cat) _ [] hall ["loop_".toList] []
    rw [List.append_nil] at this
    rw [this]
    simp [splitBlocksAux]

/-! ## the rows of a written loop, one by one -/

/-- the `i`-th line of a written loop -/
def rowLine (cols : List (List Str)) (i : Nat) : Str :=
  rowOf (cols.map (fun c => (formatString (c.getD i []),
    maxLen (c.map formatString) + 1 - (formatString (c.getD i [])).length)))

theorem foldl_min_const (n : Nat) (l : List Nat) (h : ∀ x ∈ l, x = n) : l.foldl min n = n := by
  induction l with
  | nil => rfl
  | cons x xs ih =>
    have := h x (List.mem_cons_self ..)
    subst this
    simp only [List.foldl_cons, Nat.min_self]
    exact ih (fun y hy => h y (List.mem_cons_of_mem _ hy))

/-- columns of one common length `n` give exactly `n` lines, the `i`-th built from the `i`-th values -/
theorem loopRows_eq (cols : List (List Str)) (n : Nat) (hne : cols ≠ []) (hlen : ∀ c ∈ cols, c.length = n) :
    loopRows cols = (List.range n).map (rowLine cols) := by
  unfold loopRows
  have hn : (match (List.map (fun c => List.map (ljust (maxLen c + 1)) c)
        (List.map (fun x => List.map formatString x) cols)).map List.length with
      | [] => 0
      | l :: ls => ls.foldl min l) = n := by
    cases cols with
    | nil => exact absurd rfl hne
    | cons c0 rest =>
      simp only [List.map_cons, List.map_map, List.length_map]
      rw [hlen c0 (List.mem_cons_self ..)]
      apply foldl_min_const
      intro x hx
      obtain ⟨c, hc, rfl⟩ := List.mem_map.mp hx
      simp [hlen c (List.mem_cons_of_mem _ hc)]
  show List.map _ (List.range (match (List.map (fun c => List.map (ljust (maxLen c + 1)) c)
        (List.map (fun x => List.map formatString x) cols)).map List.length with
      | [] => 0
      | l :: ls => ls.foldl min l)) = _
  rw [hn]
  apply List.map_congr_left
  intro i hi
  have hi' : i < n := List.mem_range.mp hi
  unfold rowLine
  rw [← flatten_ljust cols (fun c => formatString (c.getD i [])) (fun c => maxLen (c.map formatString) + 1)]
  congr 1
  simp only [List.map_map]
  apply List.map_congr_left
  intro c hc
  have : i < c.length := by rw [hlen c hc]; exact hi'
  simp [List.getD_eq_getElem?_getD, this]

theorem getD_mem {α : Type} (l : List α) (i : Nat) (d : α) (h : i < l.length) : l.getD i d ∈ l := by
  simp only [List.getD_eq_getElem?_getD, List.getElem?_eq_getElem h, Option.getD_some]
  exact List.getElem_mem _

/-- both branches of `_split_line`, after the quote removal, return the `i`-th values of the columns -/
theorem splitLine_removeDq_rowLine (cols : List (List Str)) (hv : ∀ c ∈ cols, ∀ v ∈ c, TokOk v) (i : Nat)
    (hi : ∀ c ∈ cols, i < c.length) :
    splitLine (removeDq (rowLine cols i)) = cols.map (fun c => tok (c.getD i [])) := by
  unfold rowLine
  rw [removeDq_rowOf, List.map_map, splitLine_rowOf]
  · rw [List.map_map]
    apply List.map_congr_left
    intro c hc
    exact removeDq_formatString (hv c hc _ (getD_mem c i [] (hi c hc)))
  · intro cell hcell
    obtain ⟨c, hc, rfl⟩ := List.mem_map.mp hcell
    have ht := hv c hc _ (getD_mem c i [] (hi c hc))
    simp only [Function.comp]
    rw [removeDq_formatString ht]
    refine ⟨tok_ok ht, tok_ne_nil _, ?_⟩
    have : (formatString (c.getD i [])).length ≤ maxLen (c.map formatString) :=
      length_le_maxLen (List.mem_map.mpr ⟨_, getD_mem c i [] (hi c hc), rfl⟩)
    omega

/-! ## how a written row begins -/

/-- the first value of a row must not make the line look like a comment, a text field, a header or a
keyword of the file syntax -/
def lineStartOk (s : Str) : Bool :=
  !(startsWith ['#'] s || startsWith [';'] s || startsWith ['_'] s || startsWith "data_".toList s
    || startsWith "loop_".toList s)

theorem formatString_cases {v : Str} (h : TokOk v) :
    (v = [] ∧ formatString v = ['.']) ∨ (v ≠ [] ∧ formatString v = '"' :: (v ++ ['"'])) ∨
    (v ≠ [] ∧ formatString v = v) := by
  unfold formatString
  rw [strip_clean h.1, contains_space_clean h.1]
  cases v with
  | nil => exact Or.inl ⟨rfl, rfl⟩
  | cons c t =>
    right
    simp only [List.isEmpty_cons, Bool.false_eq_true, if_false]
    split
    · exact Or.inl ⟨by simp, rfl⟩
    · exact Or.inr ⟨by simp, rfl⟩

theorem not_mem_newline_of_clean {v : Str} (h : Clean v) : '\n' ∉ v := by
  intro hm; have := h _ hm; simp [isWs] at this

theorem formatString_no_newline {v : Str} (h : TokOk v) : '\n' ∉ formatString v := by
  have hn := not_mem_newline_of_clean h.1
  rcases formatString_cases h with ⟨_, e⟩ | ⟨_, e⟩ | ⟨_, e⟩ <;> rw [e] <;> simp [hn]

theorem rowOf_no_newline (cells : List (Str × Nat)) (h : ∀ c ∈ cells, '\n' ∉ c.1) : '\n' ∉ rowOf cells := by
  induction cells with
  | nil => simp [rowOf]
  | cons c rest ih =>
    obtain ⟨t, k⟩ := c
    have := h (t, k) (List.mem_cons_self ..)
    simp only [rowOf, List.mem_append, not_or]
    exact ⟨⟨this, by simp [spaces]⟩, ih (fun d hd => h d (List.mem_cons_of_mem _ hd))⟩

theorem rowLine_no_newline (cols : List (List Str)) (hv : ∀ c ∈ cols, ∀ v ∈ c, TokOk v) (i : Nat)
    (hi : ∀ c ∈ cols, i < c.length) : '\n' ∉ rowLine cols i := by
  apply rowOf_no_newline
  intro cell hcell
  obtain ⟨c, hc, rfl⟩ := List.mem_map.mp hcell
  exact formatString_no_newline (hv c hc _ (getD_mem c i [] (hi c hc)))

theorem lineStartOk_iff (s : Str) : lineStartOk s = true ↔
    startsWith ['#'] s = false ∧ startsWith [';'] s = false ∧ startsWith ['_'] s = false ∧
    startsWith "data_".toList s = false ∧ startsWith "loop_".toList s = false := by
  simp [lineStartOk, and_assoc]

theorem startsWith_single (c y : Char) (t : Str) : startsWith [c] (y :: t) = (c == y) := by
  simp [startsWith, List.isPrefixOf]

theorem tok_lineStartOk {v : Str} (h : lineStartOk v = true) : lineStartOk (tok v) = true := by
  unfold tok; cases v with
  | nil => decide
  | cons _ _ => exact h

/-- a written row is kept by the line filter of `Parser.__init__` and is no text field -/
theorem row_kept (v tail : Str) (hv : TokOk v) (hs : lineStartOk v = true) :
    (!(formatString v ++ tail).isEmpty && (formatString v ++ tail).head? != some '#') = true ∧
    startsWith [';'] (formatString v ++ tail) = false := by
  obtain ⟨h1, h2, -⟩ := (lineStartOk_iff v).mp hs
  rcases formatString_cases hv with ⟨_, e⟩ | ⟨_, e⟩ | ⟨hne, e⟩
  · rw [e]; exact ⟨by simp, by simp [startsWith_single]⟩
  · rw [e]; exact ⟨by simp, by simp [startsWith_single]⟩
  · rw [e]
    cases v with
    | nil => exact absurd rfl hne
    | cons y ys =>
      rw [startsWith_single] at h1 h2
      simp only [List.cons_append, startsWith_single, h2, and_true]
      simp only [beq_eq_false_iff_ne, ne_eq] at h1
      simp [Ne.symm h1]

/-- after the quote removal a written row is an ordinary body line for `_split_in_blocks` -/
theorem row_plain (c v r : Str) (k : Nat) (hs : lineStartOk v = true) :
    PlainFor c (tok v ++ spaces (k + 1) ++ r) := by
  obtain ⟨-, -, h3, h4, h5⟩ := (lineStartOk_iff _).mp (tok_lineStartOk hs)
  have e : tok v ++ spaces (k + 1) ++ r = tok v ++ ' ' :: (spaces k ++ r) := by
    simp [spaces, List.replicate_succ]
  rw [e]
  have key : ∀ p : Str, ' ' ∉ p → startsWith p (tok v) = false →
      startsWith p (tok v ++ ' ' :: (spaces k ++ r)) = false := by
    intro p hp hf
    cases hh : startsWith p (tok v ++ ' ' :: (spaces k ++ r)) with
    | false => rfl
    | true =>
      have := isPrefixOf_append_sep p (tok v) (spaces k ++ r) ' ' hp hh
      unfold startsWith at hf; rw [hf] at this; cases this
  refine ⟨key _ (by decide) h4, key _ (by decide) h5, ?_⟩
  intro h
  rw [key _ (by decide) h3] at h; cases h

theorem row_no_header (c v r : Str) (k : Nat) (hs : lineStartOk v = true) :
    startsWith ('_' :: c) (tok v ++ spaces (k + 1) ++ r) = false := by
  obtain ⟨-, -, h3, -, -⟩ := (lineStartOk_iff _).mp (tok_lineStartOk hs)
  have hne := tok_ne_nil v
  cases htv : tok v with
  | nil => exact absurd htv hne
  | cons y ys =>
    rw [htv, startsWith_single] at h3
    simp [startsWith, List.isPrefixOf, h3]

theorem rowLine_cons (c0 : List Str) (rest : List (List Str)) (i : Nat) :
    rowLine (c0 :: rest) i = formatString (c0.getD i []) ++
      (spaces (maxLen (c0.map formatString) + 1 - (formatString (c0.getD i [])).length) ++ rowLine rest i) := by
  simp [rowLine, rowOf]

theorem removeDq_rowLine_cons (c0 : List Str) (rest : List (List Str)) (i : Nat) (hi : i < c0.length)
    (hv : TokOk (c0.getD i [])) :
    ∃ k r, removeDq (rowLine (c0 :: rest) i) = tok (c0.getD i []) ++ spaces (k + 1) ++ r := by
  have hl : (formatString (c0.getD i [])).length ≤ maxLen (c0.map formatString) :=
    length_le_maxLen (List.mem_map.mpr ⟨_, getD_mem c0 i [] hi, rfl⟩)
  refine ⟨maxLen (c0.map formatString) - (formatString (c0.getD i [])).length, removeDq (rowLine rest i), ?_⟩
  rw [rowLine_cons, removeDq_append, removeDq_append, removeDq_formatString hv, removeDq_spaces, List.append_assoc]
  congr 3
  omega

/-! ## the lines of a written loop -/

/-- the category `_write_mmcif` writes the atoms to -/
abbrev atomSite : Str := "atom_site".toList

/-- what a loop table must satisfy to survive the file syntax: at least one column and `n ≥ 1` rows,
distinct header-safe column names, values without white space or double quote (empty allowed), and
first-column values that do not start like a comment / text field / header / keyword -/
structure LoopOk (t : Table) (n : Nat) : Prop where
  rows : 0 < n
  cols : t ≠ []
  names : ∀ kv ∈ t, NameOk kv.1
  nodup : (t.map (·.1)).Nodup
  len : ∀ kv ∈ t, kv.2.length = n
  vals : ∀ kv ∈ t, ∀ v ∈ kv.2, TokOk v
  start : ∀ v ∈ (t.headD default).2, lineStartOk v = true

theorem writeLoop_eq_join (t : Table) (rows : List Str) (hr : rows ≠ []) :
    "#\nloop_\n".toList ++ (t.map (fun kv => '_' :: atomSite ++ ['.'] ++ kv.1 ++ ['\n'])).flatten
      ++ joinWith ['\n'] rows ++ ['\n'] =
    joinWith ['\n'] (["#".toList, "loop_".toList] ++ t.map (fun kv => nameLine atomSite kv.1) ++ (rows ++ [[]])) := by
  rw [← flatten_sep_joinWith ['\n'] _ (rows ++ [[]]) (by simp), ← joinWith_snoc_nil ['\n'] rows hr]
  have e1 : "#\nloop_\n".toList = (["#".toList, "loop_".toList].map (· ++ ['\n'])).flatten := by decide
  rw [e1, List.map_append, List.flatten_append, List.map_map]
  simp only [List.append_assoc]
  rfl

theorem fileLines_writeLoop (t : Table) (n : Nat) (h : LoopOk t n) :
    fileLines (writeLoop atomSite t) =
      "loop_".toList :: (t.map (fun kv => nameLine atomSite kv.1) ++ (List.range n).map (rowLine (t.map (·.2)))) := by
  obtain ⟨kv0, trest, rfl⟩ : ∃ kv0 trest, t = kv0 :: trest := by
    cases t with
    | nil => exact absurd rfl h.cols
    | cons a b => exact ⟨a, b, rfl⟩
  have hcols : (kv0 :: trest).map (·.2) ≠ [] := by simp
  have hlen : ∀ c ∈ (kv0 :: trest).map (·.2), c.length = n := by
    intro c hc; obtain ⟨kv, hkv, rfl⟩ := List.mem_map.mp hc; exact h.len kv hkv
  have hvals : ∀ c ∈ (kv0 :: trest).map (·.2), ∀ v ∈ c, TokOk v := by
    intro c hc; obtain ⟨kv, hkv, rfl⟩ := List.mem_map.mp hc; exact h.vals kv hkv
  have hrows : (List.range n).map (rowLine ((kv0 :: trest).map (·.2))) ≠ [] := by
    have := h.rows
    intro e
    have := congrArg List.length e
    simp at this; omega
  unfold writeLoop fileLines
  rw [loopRows_eq _ n hcols hlen, writeLoop_eq_join _ _ hrows, splitOn_joinWith '\n' _ (by simp)]
  · -- the filter
    have hrow : ∀ i, i < n → (!(rowLine ((kv0 :: trest).map (·.2)) i).isEmpty &&
        (rowLine ((kv0 :: trest).map (·.2)) i).head? != some '#') = true := by
      intro i hi
      simp only [List.map_cons, rowLine_cons]
      have hi0 : i < kv0.2.length := by rw [h.len kv0 (List.mem_cons_self ..)]; exact hi
      have hm := getD_mem kv0.2 i [] hi0
      exact (row_kept _ _ (h.vals kv0 (List.mem_cons_self ..) _ hm) (h.start _ hm)).1
    simp only [List.filter_append, List.cons_append, List.nil_append, List.filter_cons]
    have f1 : (!("#".toList).isEmpty && ("#".toList).head? != some '#') = false := by decide
    have f2 : (!("loop_".toList).isEmpty && ("loop_".toList).head? != some '#') = true := by decide
    have f3 : (!([] : Str).isEmpty && ([] : Str).head? != some '#') = false := by decide
    simp only [f1, f2, f3, Bool.false_eq_true, if_false, if_true, List.filter_nil, List.append_nil]
    congr 1
    have g1 : ∀ (l : List (Str × List Str)),
        (l.map (fun kv => nameLine atomSite kv.1)).filter (fun l => !l.isEmpty && l.head? != some '#')
          = l.map (fun kv => nameLine atomSite kv.1) := by
      intro l
      rw [List.filter_eq_self]
      intro x hx
      obtain ⟨kv, _, rfl⟩ := List.mem_map.mp hx
      simp [nameLine]
    have g2 : ((List.range n).map (rowLine ((kv0 :: trest).map (·.2)))).filter
        (fun l => !l.isEmpty && l.head? != some '#') = (List.range n).map (rowLine ((kv0 :: trest).map (·.2))) := by
      rw [List.filter_eq_self]
      intro x hx
      obtain ⟨i, hi, rfl⟩ := List.mem_map.mp hx
      exact hrow i (List.mem_range.mp hi)
    have g1' := g1 (kv0 :: trest)
    simp only [List.map_cons, List.filter_cons] at g1' g2 ⊢
    rw [g2]
    have hk0 : (!(nameLine atomSite kv0.1).isEmpty && (nameLine atomSite kv0.1).head? != some '#') = true := by
      simp [nameLine]
    simp only [hk0, if_true] at g1' ⊢
    rw [g1 trest]
  · -- no newline inside any line
    intro l hl
    simp only [List.cons_append, List.nil_append, List.mem_cons, List.mem_append, List.mem_map,
      List.mem_range, List.not_mem_nil, or_false] at hl
    rcases hl with rfl | rfl | ⟨kv, hkv, rfl⟩ | ⟨i, hi, rfl⟩ | rfl
    · decide
    · decide
    · have := not_mem_newline_of_clean (h.names kv (List.mem_cons.mpr hkv)).1
      have h2 : '\n' ∉ atomSite := by decide
      simp [nameLine, this, h2]
    · exact rowLine_no_newline _ hvals i (fun c hc => by rw [hlen c hc]; exact hi)
    · simp

/-! ## `_loop_block_to_dict` and the whole parser on a written loop -/

/-- rows that all carry a full set of tokens are never merged by "reunites broken lines" -/
theorem reunite_full_rows' (n : Nat) (rows : List (List Str)) (hn : 0 < n) (h : ∀ r ∈ rows, r.length = n) :
    reunite n rows = rows := by
  cases rows with
  | nil => rfl
  | cons a rest =>
    simp only [reunite]
    induction rest generalizing a with
    | nil => rfl
    | cons b rest' ih =>
      have ha := h a (List.mem_cons_self ..)
      have hb := h b (List.mem_cons_of_mem _ (List.mem_cons_self ..))
      simp only [reuniteAux]
      rw [if_neg (by omega)]
      congr 1
      exact ih b (fun r hr => h r (List.mem_cons_of_mem _ hr))

theorem takeWhile_append_stop {α : Type} (p : α → Bool) (l : List α) (x : α) (r : List α)
    (hl : ∀ a ∈ l, p a = true) (hx : p x = false) : (l ++ x :: r).takeWhile p = l := by
  induction l with
  | nil => simp [hx]
  | cons a l ih =>
    simp only [List.cons_append, List.takeWhile_cons, hl a (List.mem_cons_self ..), if_true]
    rw [ih (fun b hb => hl b (List.mem_cons_of_mem _ hb))]

theorem map_range_getD {α β : Type} (l : List α) (d : α) (f : α → β) :
    (List.range l.length).map (fun i => f (l.getD i d)) = l.map f := by
  apply List.ext_getElem
  · simp
  · intro i h1 h2
    simp only [List.length_map, List.length_range] at h1
    simp [List.getD_eq_getElem?_getD, h1]

/-- the table `_loop_block_to_dict` builds from the lines of a written loop -/
theorem loopToDict_written (t : Table) (n : Nat) (h : LoopOk t n) :
    loopToDict ⟨atomSite, "loop_".toList :: (t.map (fun kv => nameLine atomSite kv.1) ++
      ((List.range n).map (rowLine (t.map (·.2)))).map removeDq)⟩ =
      some (t.map (fun kv => (kv.1, kv.2.map tok))) := by
  obtain ⟨kv0, trest, ht⟩ : ∃ kv0 trest, t = kv0 :: trest := by
    cases t with
    | nil => exact absurd rfl h.cols
    | cons a b => exact ⟨a, b, rfl⟩
  obtain ⟨m, rfl⟩ : ∃ m, n = m + 1 := ⟨n - 1, by have := h.rows; omega⟩
  have hlen : ∀ c ∈ t.map (·.2), c.length = m + 1 := by
    intro c hc; obtain ⟨kv, hkv, rfl⟩ := List.mem_map.mp hc; exact h.len kv hkv
  have hvals : ∀ c ∈ t.map (·.2), ∀ v ∈ c, TokOk v := by
    intro c hc; obtain ⟨kv, hkv, rfl⟩ := List.mem_map.mp hc; exact h.vals kv hkv
  -- the first row stops the header
  have hrow0 : startsWith ('_' :: atomSite) (removeDq (rowLine (t.map (·.2)) 0)) = false := by
    subst ht
    have hi0 : 0 < kv0.2.length := by rw [h.len kv0 (List.mem_cons_self ..)]; omega
    have hm := getD_mem kv0.2 0 [] hi0
    obtain ⟨k, r, e⟩ := removeDq_rowLine_cons kv0.2 (trest.map (·.2)) 0 hi0 (h.vals kv0 (List.mem_cons_self ..) _ hm)
    simp only [List.map_cons]
    rw [e]
    exact row_no_header _ _ _ _ (h.start _ hm)
  have hbody : ((List.range (m + 1)).map (rowLine (t.map (·.2)))).map removeDq =
      removeDq (rowLine (t.map (·.2)) 0) :: ((List.range m).map (fun i => rowLine (t.map (·.2)) (i + 1))).map removeDq := by
    rw [List.range_succ_eq_map]; simp [List.map_map, Function.comp_def]
  have hhdr : (t.map (fun kv => nameLine atomSite kv.1) ++
      ((List.range (m + 1)).map (rowLine (t.map (·.2)))).map removeDq).takeWhile (startsWith ('_' :: atomSite))
      = t.map (fun kv => nameLine atomSite kv.1) := by
    rw [hbody]
    apply takeWhile_append_stop _ _ _ _ _ hrow0
    intro a ha
    obtain ⟨kv, _, rfl⟩ := List.mem_map.mp ha
    exact startsWith_nameLine _ _
  have hnames : (t.map (fun kv => nameLine atomSite kv.1)).mapM nameOf = some (t.map (·.1)) :=
    mapM_map_some t _ nameOf (·.1) (fun kv hkv => nameOf_nameLine atomSite kv.1 (by decide) (h.names kv hkv))
  have hsplit : (((List.range (m + 1)).map (rowLine (t.map (·.2)))).map removeDq).map splitLine =
      (List.range (m + 1)).map (fun i => (t.map (·.2)).map (fun c => tok (c.getD i []))) := by
    rw [List.map_map, List.map_map]
    apply List.map_congr_left
    intro i hi
    have hi' := List.mem_range.mp hi
    exact splitLine_removeDq_rowLine _ hvals i (fun c hc => by rw [hlen c hc]; exact hi')
  have htl : 0 < t.length := by rw [ht]; simp
  unfold loopToDict
  simp only [List.drop_one, List.tail_cons, hhdr, List.length_append, List.length_map, List.length_range]
  rw [if_neg (by omega)]
  simp only [hnames, Option.bind_eq_bind, Option.bind_some, List.drop_left', List.length_map]
  rw [if_neg (by simpa using h.nodup)]
  simp only [Option.pure_def, Option.some.injEq]
  rw [hsplit, reunite_full_rows' _ _ htl (by
    intro r hr; obtain ⟨i, _, rfl⟩ := List.mem_map.mp hr; simp)]
  apply List.ext_getElem
  · simp
  · intro j h1 h2
    simp only [List.length_map, List.length_range] at h1
    simp only [List.getElem_map, List.getElem_range]
    congr 1
    · simp [List.getD_eq_getElem?_getD, h1]
    · rw [List.filter_eq_self.mpr (by
        intro r hr; obtain ⟨i, _, rfl⟩ := List.mem_map.mp hr; simpa using h1)]
      rw [List.map_map]
      have hl : (t[j]).2.length = m + 1 := h.len _ (List.getElem_mem _)
      rw [← map_range_getD (t[j]).2 [] tok, hl]
      apply List.map_congr_left
      intro i _
      simp [List.getD_eq_getElem?_getD, h1]

/-- **the file-level reader on a written loop.**  `Parser.__init__` (line filter), `_consolidate_strings`,
`_split_in_blocks` and `_loop_block_to_dict` applied to the text `_write_mmcif` emits for a loop table
return that table, every value `v` as `tok v` (the empty value as "."), the columns under their names and in
their order, the rows in their order -/
theorem parseCif_writeLoop (t : Table) (n : Nat) (h : LoopOk t n) :
    parseCif (writeLoop atomSite t) = some (t.map (fun kv => (kv.1, kv.2.map tok))) := by
  obtain ⟨kv0, trest, ht⟩ : ∃ kv0 trest, t = kv0 :: trest := by
    cases t with
    | nil => exact absurd rfl h.cols
    | cons a b => exact ⟨a, b, rfl⟩
  have hlen : ∀ c ∈ t.map (·.2), c.length = n := by
    intro c hc; obtain ⟨kv, hkv, rfl⟩ := List.mem_map.mp hc; exact h.len kv hkv
  -- no line is a text field
  have hsemi : ∀ l ∈ "loop_".toList :: (t.map (fun kv => nameLine atomSite kv.1) ++
      (List.range n).map (rowLine (t.map (·.2)))), startsWith [';'] l = false := by
    intro l hl
    simp only [List.mem_cons, List.mem_append, List.mem_map, List.mem_range] at hl
    rcases hl with rfl | ⟨kv, _, rfl⟩ | ⟨i, hi, rfl⟩
    · decide
    · simp [nameLine, startsWith_single]
    · subst ht
      simp only [List.map_cons, rowLine_cons]
      have hi0 : i < kv0.2.length := by rw [h.len kv0 (List.mem_cons_self ..)]; exact hi
      have hm := getD_mem kv0.2 i [] hi0
      exact (row_kept _ _ (h.vals kv0 (List.mem_cons_self ..) _ hm) (h.start _ hm)).2
  -- the rows after the quote removal are ordinary body lines
  have hplain : ∀ r ∈ ((List.range n).map (rowLine (t.map (·.2)))).map removeDq, PlainFor ('_' :: atomSite) r := by
    intro r hr
    simp only [List.map_map, List.mem_map, List.mem_range, Function.comp] at hr
    obtain ⟨i, hi, rfl⟩ := hr
    subst ht
    have hi0 : i < kv0.2.length := by rw [h.len kv0 (List.mem_cons_self ..)]; exact hi
    have hm := getD_mem kv0.2 i [] hi0
    obtain ⟨k, r, e⟩ := removeDq_rowLine_cons kv0.2 (trest.map (·.2)) i hi0 (h.vals kv0 (List.mem_cons_self ..) _ hm)
    simp only [List.map_cons]
    rw [e]
    exact row_plain _ _ _ _ (h.start _ hm)
  have hnl2 : t.map (fun kv => nameLine atomSite kv.1) = (t.map (·.1)).map (nameLine atomSite) := by
    rw [List.map_map]; rfl
  have hnl : (t.map (fun kv => nameLine atomSite kv.1)).map removeDq = (t.map (·.1)).map (nameLine atomSite) := by
    rw [List.map_map, List.map_map]
    apply List.map_congr_left
    intro kv hkv
    exact removeDq_nameLine _ _ (by decide) (h.names kv hkv).2.2
  unfold parseCif
  rw [fileLines_writeLoop t n h]
  simp only [Option.bind_eq_bind]
  rw [consolidate_plain _ hsemi _ (Nat.le_succ _)]
  simp only [List.reverse_nil, List.nil_append, List.map_cons, List.map_append, Option.bind_some, hnl]
  have e0 : removeDq "loop_".toList = "loop_".toList := by decide
  rw [e0, splitBlocks_loop atomSite (by decide) _ _ (by rw [ht]; simp) hplain]
  simp only [Option.bind_some, List.reverse_cons, List.reverse_nil, List.nil_append, List.find?_cons]
  have e1 : (atomSite == "atom_site".toList) = true := by decide
  simp only [e1, Option.bind_some, List.head?_cons, ne_eq, not_true_eq_false, if_false]
  rw [← hnl2]
  exact loopToDict_written t n h

end Pm.C09
