import PytmeModel.Model.C09
import Mathlib.Tactic.Ring
import Mathlib.Tactic.Linarith
import Mathlib.Tactic.IntervalCases

/-! Helper lemmas for C09: stripping padded fields, decimal text, fixed-column slices. -/
namespace Pm.C09

/-! ## white space and padding -/

/-- no white-space character anywhere in the string -/
def Clean (s : Str) : Prop := ∀ c ∈ s, isWs c = false

theorem Clean.nil : Clean [] := by intro c h; cases h

theorem Clean.append {s t : Str} (hs : Clean s) (ht : Clean t) : Clean (s ++ t) := by
  intro c h; rcases List.mem_append.mp h with h | h
  · exact hs c h
  · exact ht c h

theorem Clean.reverse {s : Str} (hs : Clean s) : Clean s.reverse := by
  intro c h; exact hs c (List.mem_reverse.mp h)

theorem isWs_space : isWs ' ' = true := by decide

theorem dropWhile_isWs_clean {s : Str} (hs : Clean s) : s.dropWhile isWs = s := by
  cases s with
  | nil => rfl
  | cons c t => simp [List.dropWhile_cons, hs c (List.mem_cons_self ..)]

theorem lstrip_spaces_append (k : Nat) (s : Str) : lstrip (spaces k ++ s) = lstrip s := by
  induction k with
  | zero => simp [spaces]
  | succ k ih =>
    simp only [spaces, List.replicate_succ, List.cons_append, lstrip, List.dropWhile_cons, isWs_space, if_true] at ih ⊢
    exact ih

theorem lstrip_clean {s : Str} (hs : Clean s) : lstrip s = s := dropWhile_isWs_clean hs

theorem rstrip_append_spaces (k : Nat) (s : Str) : rstrip (s ++ spaces k) = rstrip s := by
  unfold rstrip
  have : (s ++ spaces k).reverse = spaces k ++ s.reverse := by simp [spaces]
  rw [this]
  have := lstrip_spaces_append k s.reverse
  unfold lstrip at this
  rw [this]

theorem rstrip_clean {s : Str} (hs : Clean s) : rstrip s = s := by
  unfold rstrip; rw [dropWhile_isWs_clean hs.reverse]; simp

theorem strip_clean {s : Str} (hs : Clean s) : strip s = s := by
  unfold strip; rw [lstrip_clean hs, rstrip_clean hs]

theorem strip_ljust {s : Str} (hs : Clean s) (w : Nat) : strip (ljust w s) = s := by
  unfold strip ljust
  cases s with
  | nil =>
    have h := lstrip_spaces_append (w - 0) []
    simp only [List.append_nil, List.nil_append, List.length_nil] at h ⊢
    rw [h]; rfl
  | cons c t =>
    have hc : isWs c = false := hs c (List.mem_cons_self ..)
    have : lstrip (c :: t ++ spaces (w - (c :: t).length)) = c :: t ++ spaces (w - (c :: t).length) := by
      simp [lstrip, List.dropWhile_cons, hc]
    rw [this, rstrip_append_spaces, rstrip_clean hs]

theorem strip_rjust {s : Str} (hs : Clean s) (w : Nat) : strip (rjust w s) = s := by
  unfold strip rjust
  rw [lstrip_spaces_append, lstrip_clean hs, rstrip_clean hs]

theorem strip_spaces (k : Nat) : strip (spaces k) = [] := by
  have := strip_ljust Clean.nil k
  simpa [ljust] using this

theorem length_ljust (w : Nat) (s : Str) (h : s.length ≤ w) : (ljust w s).length = w := by
  simp [ljust, spaces]; omega

theorem length_rjust (w : Nat) (s : Str) (h : s.length ≤ w) : (rjust w s).length = w := by
  simp [rjust, spaces]; omega

/-! ## decimal text -/

theorem digitVal_digitChar (d : Nat) (h : d < 10) : digitVal? (digitChar d) = some d := by
  interval_cases d <;> decide

theorem digitChar_not_ws (d : Nat) (h : d < 10) : isWs (digitChar d) = false := by
  interval_cases d <;> decide

theorem digitChar_ne (d : Nat) (h : d < 10) :
    digitChar d ≠ '-' ∧ digitChar d ≠ '+' ∧ digitChar d ≠ '.' ∧ digitChar d ≠ '\n' := by
  interval_cases d <;> decide

/-- every character of `showNat n` is a decimal digit -/
def IsDigit (c : Char) : Prop := ∃ d, d < 10 ∧ c = digitChar d

theorem showNatAux_digits (f n : Nat) : ∀ c ∈ showNatAux f n, IsDigit c := by
  induction f generalizing n with
  | zero => intro c h; simp [showNatAux] at h; exact ⟨n % 10, by omega, h⟩
  | succ f ih =>
    intro c h
    unfold showNatAux at h
    split at h
    · simp at h; exact ⟨n, by omega, h⟩
    · rcases List.mem_append.mp h with h | h
      · exact ih _ c h
      · simp at h; exact ⟨n % 10, by omega, h⟩

theorem showNat_digits (n : Nat) : ∀ c ∈ showNat n, IsDigit c := showNatAux_digits n n

theorem showNatAux_ne_nil (f n : Nat) : showNatAux f n ≠ [] := by
  cases f with
  | zero => simp [showNatAux]
  | succ f => unfold showNatAux; split <;> simp

theorem showNat_ne_nil (n : Nat) : showNat n ≠ [] := showNatAux_ne_nil n n

theorem parseNatAux_snoc (s : Str) (c : Char) (acc : Nat) :
    parseNatAux (s ++ [c]) acc =
      (parseNatAux s acc).bind (fun v => (digitVal? c).map (fun d => v * 10 + d)) := by
  induction s generalizing acc with
  | nil => simp [parseNatAux]; cases digitVal? c <;> simp [parseNatAux]
  | cons x xs ih =>
    simp only [List.cons_append, parseNatAux]
    cases digitVal? x with
    | none => simp
    | some d => exact ih _

theorem parseNatAux_showNatAux (f n : Nat) (h : n ≤ f) : parseNatAux (showNatAux f n) 0 = some n := by
  induction f generalizing n with
  | zero =>
    have : n = 0 := by omega
    subst this; decide
  | succ f ih =>
    unfold showNatAux
    split
    · rename_i h10
      simp [parseNatAux, digitVal_digitChar n h10]
    · rename_i h10
      rw [parseNatAux_snoc, ih (n / 10) (by omega), digitVal_digitChar _ (by omega)]
      simp; omega

theorem parseNat_showNat (n : Nat) : parseNat (showNat n) = some n := by
  unfold parseNat
  have h1 : (showNat n).isEmpty = false := by
    cases h : showNat n with
    | nil => exact absurd h (showNat_ne_nil n)
    | cons c t => rfl
  rw [h1]
  exact parseNatAux_showNatAux n n (Nat.le_refl _)

theorem showNat_head (n : Nat) : ∃ c t, showNat n = c :: t ∧ IsDigit c := by
  cases h : showNat n with
  | nil => exact absurd h (showNat_ne_nil n)
  | cons c t => exact ⟨c, t, rfl, showNat_digits n c (by rw [h]; exact List.mem_cons_self ..)⟩

theorem parseInt_showNat (n : Nat) : parseInt (showNat n) = some (n : Int) := by
  obtain ⟨c, t, h, d, hd, hc⟩ := showNat_head n
  have hne := digitChar_ne d hd
  have hp := parseNat_showNat n
  rw [h] at hp ⊢
  unfold parseInt
  split
  · rename_i r heq; injection heq with h1 _; exact absurd (hc ▸ h1) hne.1
  · rename_i r heq; injection heq with h1 _; exact absurd (hc ▸ h1) hne.2.1
  · simp [hp]

theorem parseInt_showInt (i : Int) : parseInt (showInt i) = some i := by
  unfold showInt
  split
  · rename_i hneg
    have h := Int.natAbs_of_nonneg (a := -i) (by omega)
    rw [Int.natAbs_neg] at h
    simp [parseInt, parseNat_showNat, h]
  · rename_i hneg
    rw [parseInt_showNat]; congr 1; exact Int.natAbs_of_nonneg (by omega)

theorem isDigit_clean {s : Str} (h : ∀ c ∈ s, IsDigit c) : Clean s := by
  intro c hc; obtain ⟨d, hd, rfl⟩ := h c hc; exact digitChar_not_ws d hd

theorem showInt_clean (i : Int) : Clean (showInt i) := by
  unfold showInt; split
  · intro c hc
    rcases List.mem_cons.mp hc with h | h
    · subst h; decide
    · exact isDigit_clean (showNat_digits _) c h
  · exact isDigit_clean (showNat_digits _)

theorem intCell_showInt_rjust (i : Int) (w : Nat) : intCell (rjust w (showInt i)) = some i := by
  unfold intCell
  simp only [strip_rjust (showInt_clean i)]
  have : (showInt i == ['.']) = false := by
    unfold showInt; split
    · simp
    · obtain ⟨c, t, h, d, hd, hc⟩ := showNat_head i.natAbs
      rw [h]; have := (digitChar_ne d hd).2.2.1
      simp; intro e; exact absurd (hc ▸ e) this
  simp [this, parseInt_showInt]

/-- fractional digits are digits -/
def DecOk (d : Dec) : Prop := ∀ x ∈ d.frac, x < 10

theorem parseDigits_map (l : List Nat) (h : ∀ x ∈ l, x < 10) : parseDigits (l.map digitChar) = some l := by
  induction l with
  | nil => rfl
  | cons x xs ih =>
    simp only [List.map_cons, parseDigits, digitVal_digitChar x (h x (List.mem_cons_self ..)),
      ih (fun y hy => h y (List.mem_cons_of_mem _ hy))]

theorem takeWhile_digits (s rest : Str) (h : ∀ c ∈ s, IsDigit c) :
    (s ++ '.' :: rest).takeWhile (· ≠ '.') = s ∧ (s ++ '.' :: rest).dropWhile (· ≠ '.') = '.' :: rest := by
  induction s with
  | nil => simp
  | cons c t ih =>
    obtain ⟨d, hd, hc⟩ := h c (List.mem_cons_self ..)
    have hne : c ≠ '.' := hc ▸ (digitChar_ne d hd).2.2.1
    have := ih (fun x hx => h x (List.mem_cons_of_mem _ hx))
    have hd' : decide (c ≠ '.') = true := by simp [hne]
    simp only [List.cons_append, List.takeWhile_cons, List.dropWhile_cons, hd', if_true]
    exact ⟨by rw [this.1], this.2⟩

theorem parseDec_unsigned (ip : Nat) (frac : List Nat) (h : ∀ x ∈ frac, x < 10) (neg : Bool) :
    (match (showNat ip ++ '.' :: frac.map digitChar).dropWhile (· ≠ '.') with
      | [] => (parseNat ((showNat ip ++ '.' :: frac.map digitChar).takeWhile (· ≠ '.'))).map (fun n => (⟨neg, n, []⟩ : Dec))
      | _ :: fpS =>
        if ((showNat ip ++ '.' :: frac.map digitChar).takeWhile (· ≠ '.')).isEmpty && fpS.isEmpty then none else
        match (if ((showNat ip ++ '.' :: frac.map digitChar).takeWhile (· ≠ '.')).isEmpty then some 0
               else parseNat ((showNat ip ++ '.' :: frac.map digitChar).takeWhile (· ≠ '.'))), parseDigits fpS with
        | some n, some ds => some ⟨neg, n, ds⟩
        | _, _ => none) = some ⟨neg, ip, frac⟩ := by
  obtain ⟨h1, h2⟩ := takeWhile_digits (showNat ip) (frac.map digitChar) (showNat_digits ip)
  rw [h1, h2]
  have hne : (showNat ip).isEmpty = false := by
    cases h : showNat ip with
    | nil => exact absurd h (showNat_ne_nil ip)
    | cons _ _ => rfl
  simp [hne, parseNat_showNat, parseDigits_map frac h]

theorem parseDec_showDec (d : Dec) (h : DecOk d) : parseDec (showDec d) = some d := by
  obtain ⟨neg, ip, frac⟩ := d
  unfold showDec
  cases neg with
  | true =>
    simp only [if_true, List.append_assoc, List.singleton_append, List.cons_append, List.nil_append]
    unfold parseDec
    simp only
    exact parseDec_unsigned ip frac h true
  | false =>
    simp only [Bool.false_eq_true, if_false, List.append_assoc, List.singleton_append, List.nil_append]
    obtain ⟨c, t, hs, dg, hd, hc⟩ := showNat_head ip
    have hne := digitChar_ne dg hd
    have key := parseDec_unsigned ip frac h false
    rw [hs] at key ⊢
    unfold parseDec
    have h1 : c ≠ '-' := hc ▸ hne.1
    have h2 : c ≠ '+' := hc ▸ hne.2.1
    split
    · rename_i heq
      split at heq
      · rename_i r hh; simp only [List.cons_append] at hh; injection hh with e _; exact absurd e h1
      · rename_i r hh; simp only [List.cons_append] at hh; injection hh with e _; exact absurd e h2
      · injection heq with e1 e2; subst e1; subst e2; exact key

theorem showDec_clean (d : Dec) (h : DecOk d) : Clean (showDec d) := by
  unfold showDec
  refine Clean.append (Clean.append (Clean.append ?_ (isDigit_clean (showNat_digits _))) ?_) ?_
  · split
    · intro c hc; simp at hc; subst hc; decide
    · exact Clean.nil
  · intro c hc; simp at hc; subst hc; decide
  · intro c hc
    obtain ⟨x, hx, rfl⟩ := List.mem_map.mp hc
    exact digitChar_not_ws x (h x hx)

/-! ## fixed columns: slice assignment and slicing -/

theorem length_splice (l s : Str) (lo hi : Nat) (h1 : lo ≤ hi) (h2 : hi ≤ l.length)
    (hs : s.length = hi - lo) : (splice l lo hi s).length = l.length := by
  simp [splice]; omega

theorem slice_full (s : Str) (n : Nat) (h : s.length ≤ n) : slice s 0 n = s := by
  simp [slice, List.take_of_length_le h]

/-- reading inside a column that was just written returns that part of the written text -/
theorem slice_splice_inside (l s : Str) (lo hi a b : Nat) (h1 : lo ≤ hi) (h2 : hi ≤ l.length)
    (hs : s.length = hi - lo) (ha : lo ≤ a) (hab : a ≤ b) (hb : b ≤ hi) :
    slice (splice l lo hi s) a b = slice s (a - lo) (b - lo) := by
  unfold slice splice
  have hl : (l.take lo).length = lo := by simp; omega
  rw [List.append_assoc, List.drop_append, hl]
  have : List.drop a (List.take lo l) = [] := by
    apply List.drop_eq_nil_iff.mpr; omega
  rw [this, List.nil_append, List.drop_append_of_le_length (by omega), List.take_append_of_le_length]
  · congr 1; omega
  · simp; omega

/-- reading away from a written column is unaffected by it -/
theorem slice_splice_disjoint (l s : Str) (lo hi a b : Nat) (h1 : lo ≤ hi) (h2 : hi ≤ l.length)
    (hs : s.length = hi - lo) (hab : a ≤ b) (hd : b ≤ lo ∨ hi ≤ a) :
    slice (splice l lo hi s) a b = slice l a b := by
  unfold slice splice
  have hl : (l.take lo).length = lo := by simp; omega
  rcases hd with hd | hd
  · rw [List.append_assoc, List.drop_append_of_le_length (by omega), List.take_append_of_le_length (by simp; omega)]
    rw [List.drop_take, List.take_take]
    congr 1; omega
  · rw [List.append_assoc, List.drop_append, hl, List.drop_append, hs]
    have e1 : List.drop a (List.take lo l) = [] := by
      apply List.drop_eq_nil_iff.mpr; omega
    have e2 : List.drop (a - lo) s = [] := by
      apply List.drop_eq_nil_iff.mpr; omega
    rw [e1, e2, List.nil_append, List.nil_append, List.drop_drop]
    congr 2; omega

/-- every written text has exactly the width of its column, inside a line of width `W` -/
def ColsOk (W : Nat) (txt : F → Str) (cols : List Col) : Prop :=
  ∀ c ∈ cols, c.lo ≤ c.hi ∧ c.hi ≤ W ∧ (txt c.f).length = c.hi - c.lo

def Disjoint (c d : Col) : Prop := c.hi ≤ d.lo ∨ d.hi ≤ c.lo

instance : DecidableRel Disjoint := fun c d => by unfold Disjoint; infer_instance

theorem writeCols_cons (c : Col) (cs : List Col) (txt : F → Str) (line : Str) :
    writeCols (c :: cs) txt line = writeCols cs txt (splice line c.lo c.hi (txt c.f)) := rfl

theorem length_writeCols (cols : List Col) (txt : F → Str) (line : Str)
    (h : ColsOk line.length txt cols) : (writeCols cols txt line).length = line.length := by
  induction cols generalizing line with
  | nil => rfl
  | cons c cs ih =>
    obtain ⟨h1, h2, h3⟩ := h c (List.mem_cons_self ..)
    have hl := length_splice line (txt c.f) c.lo c.hi h1 h2 h3
    rw [writeCols_cons, ih _ (by rw [hl]; exact fun d hd => h d (List.mem_cons_of_mem _ hd)), hl]

theorem slice_writeCols_disjoint (cols : List Col) (txt : F → Str) (line : Str) (a b : Nat)
    (h : ColsOk line.length txt cols) (hab : a ≤ b) (hd : ∀ c ∈ cols, b ≤ c.lo ∨ c.hi ≤ a) :
    slice (writeCols cols txt line) a b = slice line a b := by
  induction cols generalizing line with
  | nil => rfl
  | cons c cs ih =>
    obtain ⟨h1, h2, h3⟩ := h c (List.mem_cons_self ..)
    have hl := length_splice line (txt c.f) c.lo c.hi h1 h2 h3
    rw [writeCols_cons, ih _ (by rw [hl]; exact fun d hd => h d (List.mem_cons_of_mem _ hd))
      (fun d hd' => hd d (List.mem_cons_of_mem _ hd'))]
    exact slice_splice_disjoint _ _ _ _ _ _ h1 h2 h3 hab (hd c (List.mem_cons_self ..))

/-- **any** table of pairwise disjoint columns round-trips: a slice inside a written column
reads back that part of the text written there, whatever was written elsewhere -/
theorem slice_writeCols_mem (cols : List Col) (txt : F → Str) (line : Str) (wc : Col) (a b : Nat)
    (h : ColsOk line.length txt cols) (hp : cols.Pairwise Disjoint) (hm : wc ∈ cols)
    (ha : wc.lo ≤ a) (hab : a ≤ b) (hb : b ≤ wc.hi) :
    slice (writeCols cols txt line) a b = slice (txt wc.f) (a - wc.lo) (b - wc.lo) := by
  induction cols generalizing line with
  | nil => cases hm
  | cons c cs ih =>
    obtain ⟨h1, h2, h3⟩ := h c (List.mem_cons_self ..)
    have hl := length_splice line (txt c.f) c.lo c.hi h1 h2 h3
    have hcs : ColsOk (splice line c.lo c.hi (txt c.f)).length txt cs := by
      rw [hl]; exact fun d hd => h d (List.mem_cons_of_mem _ hd)
    rw [writeCols_cons]
    rcases List.mem_cons.mp hm with rfl | hm'
    · rw [slice_writeCols_disjoint cs txt _ a b hcs hab]
      · exact slice_splice_inside _ _ _ _ _ _ h1 h2 h3 ha hab hb
      · intro d hd
        rcases (List.pairwise_cons.mp hp).1 d hd with hh | hh
        · left; omega
        · right; omega
    · exact ih _ hcs (List.pairwise_cons.mp hp).2 hm'

theorem mem_splice {l s : Str} {lo hi : Nat} {c : Char} (h : c ∈ splice l lo hi s) : c ∈ l ∨ c ∈ s := by
  unfold splice at h
  rcases List.mem_append.mp h with h | h
  · rcases List.mem_append.mp h with h | h
    · exact Or.inl (List.mem_of_mem_take h)
    · exact Or.inr h
  · exact Or.inl (List.mem_of_mem_drop h)

theorem mem_writeCols {cols : List Col} {txt : F → Str} {line : Str} {c : Char}
    (h : c ∈ writeCols cols txt line) : c ∈ line ∨ ∃ col ∈ cols, c ∈ txt col.f := by
  induction cols generalizing line with
  | nil => exact Or.inl h
  | cons d ds ih =>
    rw [writeCols_cons] at h
    rcases ih h with h | ⟨col, hc, hm⟩
    · rcases mem_splice h with h | h
      · exact Or.inl h
      · exact Or.inr ⟨d, List.mem_cons_self .., h⟩
    · exact Or.inr ⟨col, List.mem_cons_of_mem _ hc, hm⟩

/-! ## column-wise conversion -/

theorem mapM_map_some {α β γ : Type} (l : List α) (r : α → β) (f : β → Option γ) (g : α → γ)
    (h : ∀ x ∈ l, f (r x) = some (g x)) : (l.map r).mapM f = some (l.map g) := by
  induction l with
  | nil => rfl
  | cons x xs ih =>
    simp only [List.map_cons, List.mapM_cons, h x (List.mem_cons_self ..),
      ih (fun y hy => h y (List.mem_cons_of_mem _ hy))]
    rfl

theorem floatColumn_map {α : Type} (l : List α) (r : α → Str) (g : α → Dec)
    (h : ∀ x ∈ l, parseDec (strip (r x)) = some (g x)) : floatColumn (l.map r) = l.map g := by
  unfold floatColumn
  rw [mapM_map_some l r (fun s => parseDec (strip s)) g h]

/-! ## lines of a file -/

theorem splitOnAux_append (c : Char) (s rest cur : Str) (h : c ∉ s) :
    splitOnAux c (s ++ rest) cur = splitOnAux c rest (s.reverse ++ cur) := by
  induction s generalizing cur with
  | nil => rfl
  | cons x xs ih =>
    have hx : x ≠ c := fun e => h (e ▸ List.mem_cons_self ..)
    simp only [List.cons_append, splitOnAux, hx, if_false]
    rw [ih _ (fun hm => h (List.mem_cons_of_mem _ hm))]
    simp

/-- `"\n".join(lines).split("\n") = lines` when no line contains a newline -/
theorem splitOn_joinWith (c : Char) (ls : List Str) (hne : ls ≠ []) (h : ∀ l ∈ ls, c ∉ l) :
    splitOn c (joinWith [c] ls) = ls := by
  unfold splitOn
  induction ls with
  | nil => exact absurd rfl hne
  | cons a rest ih =>
    cases rest with
    | nil =>
      have := splitOnAux_append c a [] [] (h a (List.mem_cons_self ..))
      simp only [List.append_nil] at this
      simp [joinWith, this, splitOnAux]
    | cons b rest' =>
      have ih' := ih (by simp) (fun l hl => h l (List.mem_cons_of_mem _ hl))
      simp only [joinWith, List.append_assoc]
      rw [splitOnAux_append c a _ [] (h a (List.mem_cons_self ..))]
      simp only [List.append_nil, List.singleton_append, splitOnAux, if_true, List.reverse_reverse]
      rw [ih']

/-! ## mmCIF tokens -/

/-- a value that survives the loop syntax: no white space, no double quote -/
def TokOk (v : Str) : Prop := Clean v ∧ '"' ∉ v

/-- what is read back for a written value: the empty string becomes the placeholder "." -/
def tok (v : Str) : Str := if v.isEmpty then ['.'] else v

theorem removeDq_of_not_mem {v : Str} (h : '"' ∉ v) : removeDq v = v := by
  unfold removeDq
  rw [List.filter_eq_self]
  intro c hc
  have : c ≠ '"' := fun e => h (e ▸ hc)
  simp [this]

theorem removeDq_append (a b : Str) : removeDq (a ++ b) = removeDq a ++ removeDq b := by
  simp [removeDq]

theorem removeDq_spaces (k : Nat) : removeDq (spaces k) = spaces k :=
  removeDq_of_not_mem (by simp [spaces])

theorem contains_space_clean {v : Str} (h : Clean v) : v.contains ' ' = false := by
  cases hc : v.contains ' ' with
  | false => rfl
  | true =>
    have hm : ' ' ∈ v := by simpa using hc
    have := h _ hm
    simp [isWs] at this

/-- the written form of a clean value, with double quotes taken out again by the reader, is the
value itself, or "." for the empty value: never empty, never containing white space -/
theorem removeDq_formatString {v : Str} (h : TokOk v) : removeDq (formatString v) = tok v := by
  unfold formatString tok
  rw [strip_clean h.1, contains_space_clean h.1]
  cases v with
  | nil => rfl
  | cons c t =>
    simp only [List.isEmpty_cons, Bool.false_eq_true, if_false]
    split
    · have : removeDq ('"' :: (c :: t ++ ['"'])) = removeDq (c :: t) := by
        have e : '"' :: (c :: t ++ ['"']) = ['"'] ++ (c :: t) ++ ['"'] := by simp
        rw [e, removeDq_append, removeDq_append]
        simp [removeDq]
      rw [this, removeDq_of_not_mem h.2]
    · exact removeDq_of_not_mem h.2

theorem tok_ne_nil (v : Str) : tok v ≠ [] := by
  unfold tok; cases v <;> simp

theorem tok_ok {v : Str} (h : TokOk v) : TokOk (tok v) := by
  unfold tok; cases v with
  | nil => exact ⟨by intro c hc; simp at hc; subst hc; decide, by simp⟩
  | cons c t => exact h

theorem formatString_length_pos {v : Str} : 0 < (formatString v).length := by
  unfold formatString
  split
  · simp
  · split
    · simp
    · split
      · simp
      · rename_i h _ _
        cases v with
        | nil => simp [strip, lstrip, rstrip] at h
        | cons _ _ => simp

/-- a loop row as the writer lays it out: tokens followed by at least... `k` blanks each -/
def rowOf : List (Str × Nat) → Str
  | [] => []
  | (t, k) :: rest => t ++ spaces k ++ rowOf rest

theorem splitWsAux_clean (t rest cur : Str) (h : Clean t) :
    splitWsAux (t ++ rest) cur = splitWsAux rest (t.reverse ++ cur) := by
  induction t generalizing cur with
  | nil => rfl
  | cons x xs ih =>
    have hx : isWs x = false := h x (List.mem_cons_self ..)
    simp only [List.cons_append, splitWsAux, hx, Bool.false_eq_true, if_false]
    rw [ih _ (fun c hc => h c (List.mem_cons_of_mem _ hc))]
    simp

theorem splitWsAux_spaces (k : Nat) (rest : Str) : splitWsAux (spaces k ++ rest) [] = splitWsAux rest [] := by
  induction k with
  | zero => rfl
  | succ k ih =>
    simp only [spaces, List.replicate_succ, List.cons_append, splitWsAux, isWs_space, if_true,
      List.isEmpty_nil] at ih ⊢
    exact ih

theorem splitWs_token (t rest : Str) (k : Nat) (h : Clean t) (hne : t ≠ []) :
    splitWsAux (t ++ spaces (k + 1) ++ rest) [] = t :: splitWsAux rest [] := by
  rw [List.append_assoc, splitWsAux_clean _ _ _ h]
  have hne' : (t.reverse ++ ([] : Str)).isEmpty = false := by
    cases t with
    | nil => exact absurd rfl hne
    | cons _ _ => simp
  simp only [spaces, List.replicate_succ, List.cons_append, splitWsAux, isWs_space, if_true, hne',
    Bool.false_eq_true, if_false]
  have := splitWsAux_spaces k rest
  simp only [spaces] at this
  rw [this]; simp

/-- `str.split()` on a written row returns its tokens -/
theorem splitWs_rowOf (cells : List (Str × Nat)) (h : ∀ c ∈ cells, Clean c.1 ∧ c.1 ≠ [] ∧ 1 ≤ c.2) :
    splitWs (rowOf cells) = cells.map (·.1) := by
  unfold splitWs
  induction cells with
  | nil => rfl
  | cons c rest ih =>
    obtain ⟨t, k⟩ := c
    obtain ⟨h1, h2, h3⟩ := h (t, k) (List.mem_cons_self ..)
    obtain ⟨k', rfl⟩ : ∃ k', k = k' + 1 := ⟨k - 1, by simp only at h3; omega⟩
    simp only [rowOf, List.map_cons]
    rw [splitWs_token t _ k' h1 h2, ih (fun d hd => h d (List.mem_cons_of_mem _ hd))]

theorem splitQuotedAux_tok (t rest cur : Str) (h : TokOk t) :
    splitQuotedAux (t ++ rest) cur false = splitQuotedAux rest (t.reverse ++ cur) false := by
  induction t generalizing cur with
  | nil => rfl
  | cons x xs ih =>
    have hx : x ≠ ' ' := fun e => by have := h.1 x (List.mem_cons_self ..); rw [e] at this; simp [isWs] at this
    have hq : x ≠ '"' := fun e => h.2 (e ▸ List.mem_cons_self ..)
    simp only [List.cons_append, splitQuotedAux, hx, hq, false_and, if_false]
    rw [ih _ ⟨fun c hc => h.1 c (List.mem_cons_of_mem _ hc), fun hm => h.2 (List.mem_cons_of_mem _ hm)⟩]
    simp

theorem splitQuotedAux_spaces (k : Nat) (rest : Str) :
    splitQuotedAux (spaces k ++ rest) [] false = splitQuotedAux rest [] false := by
  induction k with
  | zero => rfl
  | succ k ih =>
    simp only [spaces, List.replicate_succ, List.cons_append, splitQuotedAux, Bool.not_false, and_self,
      if_true, List.isEmpty_nil] at ih ⊢
    exact ih

theorem splitQuoted_token (t rest : Str) (k : Nat) (h : TokOk t) (hne : t ≠ []) :
    splitQuotedAux (t ++ spaces (k + 1) ++ rest) [] false = t :: splitQuotedAux rest [] false := by
  rw [List.append_assoc, splitQuotedAux_tok _ _ _ h]
  have hne' : (t.reverse ++ ([] : Str)).isEmpty = false := by
    cases t with
    | nil => exact absurd rfl hne
    | cons _ _ => simp
  simp only [spaces, List.replicate_succ, List.cons_append, splitQuotedAux, Bool.not_false, and_self,
    if_true, hne', Bool.false_eq_true, if_false]
  have := splitQuotedAux_spaces k rest
  simp only [spaces] at this
  rw [this]; simp

/-- the last token of a row without its trailing blanks -/
theorem splitQuoted_last (t : Str) (h : TokOk t) (hne : t ≠ []) :
    splitQuotedAux t [] false = [t] := by
  have := splitQuotedAux_tok t [] [] h
  simp only [List.append_nil] at this
  rw [this]
  cases t with
  | nil => exact absurd rfl hne
  | cons _ _ => simp [splitQuotedAux]

/-- rows without their final blanks -/
def rowBody : List (Str × Nat) → Str
  | [] => []
  | [(t, _)] => t
  | (t, k) :: rest => t ++ spaces k ++ rowBody rest

theorem rowOf_eq_body (cells : List (Str × Nat)) (hne : cells ≠ []) :
    rowOf cells = rowBody cells ++ spaces (cells.getLast hne).2 := by
  induction cells with
  | nil => exact absurd rfl hne
  | cons c rest ih =>
    obtain ⟨t, k⟩ := c
    cases rest with
    | nil => simp [rowOf, rowBody]
    | cons d rest' =>
      have := ih (by simp)
      simp only [rowOf, rowBody, List.getLast_cons_cons] at this ⊢
      rw [this]; simp [List.append_assoc]

theorem splitQuoted_rowBody (cells : List (Str × Nat)) (h : ∀ c ∈ cells, TokOk c.1 ∧ c.1 ≠ [] ∧ 1 ≤ c.2) :
    splitQuotedAux (rowBody cells) [] false = cells.map (·.1) := by
  induction cells with
  | nil => rfl
  | cons c rest ih =>
    obtain ⟨t, k⟩ := c
    obtain ⟨h1, h2, h3⟩ := h (t, k) (List.mem_cons_self ..)
    cases rest with
    | nil => simp only [rowBody, List.map_cons, List.map_nil]; exact splitQuoted_last t h1 h2
    | cons d rest' =>
      obtain ⟨k', rfl⟩ : ∃ k', k = k' + 1 := ⟨k - 1, by simp only at h3; omega⟩
      simp only [rowBody, List.map_cons]
      rw [splitQuoted_token t _ k' h1 h2]
      have := ih (fun e he => h e (List.mem_cons_of_mem _ he))
      simp only [List.map_cons] at this
      rw [this]

theorem rowBody_ends (cells : List (Str × Nat)) (hne : cells ≠ [])
    (h : ∀ c ∈ cells, TokOk c.1 ∧ c.1 ≠ [] ∧ 1 ≤ c.2) :
    (∃ c t, rowBody cells = c :: t ∧ isWs c = false) ∧ (∃ p c, rowBody cells = p ++ [c] ∧ isWs c = false) := by
  induction cells with
  | nil => exact absurd rfl hne
  | cons c rest ih =>
    obtain ⟨t, k⟩ := c
    obtain ⟨h1, h2, h3⟩ := h (t, k) (List.mem_cons_self ..)
    have hhead : ∀ (rest : Str), ∃ c u, t ++ rest = c :: u ∧ isWs c = false := by
      intro rest
      cases t with
      | nil => exact absurd rfl h2
      | cons x xs => exact ⟨x, xs ++ rest, rfl, h1.1 x (List.mem_cons_self ..)⟩
    cases rest with
    | nil =>
      simp only [rowBody]
      refine ⟨by simpa using hhead [], ?_⟩
      obtain ⟨p, c, e⟩ : ∃ p c, t = p ++ [c] := ⟨t.dropLast, t.getLast h2, (List.dropLast_concat_getLast h2).symm⟩
      exact ⟨p, c, e, h1.1 c (by rw [e]; simp)⟩
    | cons d rest' =>
      obtain ⟨_, p, c, e, hc⟩ := ih (by simp) (fun e he => h e (List.mem_cons_of_mem _ he))
      simp only [rowBody]
      refine ⟨by simpa [List.append_assoc] using hhead (spaces k ++ rowBody (d :: rest')), ?_⟩
      exact ⟨t ++ spaces k ++ p, c, by rw [e]; simp [List.append_assoc], hc⟩

theorem strip_rowOf (cells : List (Str × Nat)) (hne : cells ≠ [])
    (h : ∀ c ∈ cells, TokOk c.1 ∧ c.1 ≠ [] ∧ 1 ≤ c.2) : strip (rowOf cells) = rowBody cells := by
  obtain ⟨⟨c, t, e1, hc⟩, ⟨p, d, e2, hd⟩⟩ := rowBody_ends cells hne h
  rw [rowOf_eq_body cells hne]
  unfold strip
  have hl : lstrip (rowBody cells ++ spaces (cells.getLast hne).2) = rowBody cells ++ spaces (cells.getLast hne).2 := by
    rw [e1]; simp [lstrip, hc]
  rw [hl, rstrip_append_spaces, e2]
  unfold rstrip
  simp [hd]

/-- **both branches of `_split_line`** return exactly the tokens of a written row -/
theorem splitLine_rowOf (cells : List (Str × Nat)) (h : ∀ c ∈ cells, TokOk c.1 ∧ c.1 ≠ [] ∧ 1 ≤ c.2) :
    splitLine (rowOf cells) = cells.map (·.1) := by
  unfold splitLine
  split
  · by_cases hne : cells = []
    · subst hne; rfl
    · rw [strip_rowOf cells hne h, splitQuoted_rowBody cells h]
  · exact splitWs_rowOf cells (fun c hc => ⟨(h c hc).1.1, (h c hc).2⟩)

/-! ## rows of a written loop -/

theorem length_le_maxLen {l : List Str} {s : Str} (h : s ∈ l) : s.length ≤ maxLen l := by
  induction l with
  | nil => cases h
  | cons x xs ih =>
    simp only [maxLen]
    rcases List.mem_cons.mp h with rfl | h
    · omega
    · have := ih h; omega

theorem foldl_min_le (l : Nat) (ls : List Nat) : ls.foldl min l ≤ l ∧ ∀ x ∈ ls, ls.foldl min l ≤ x := by
  induction ls generalizing l with
  | nil => simp
  | cons y ys ih =>
    simp only [List.foldl_cons]
    obtain ⟨h1, h2⟩ := ih (min l y)
    refine ⟨by omega, ?_⟩
    intro x hx
    rcases List.mem_cons.mp hx with rfl | hx
    · omega
    · exact h2 x hx

theorem removeDq_rowOf (cells : List (Str × Nat)) :
    removeDq (rowOf cells) = rowOf (cells.map (fun c => (removeDq c.1, c.2))) := by
  induction cells with
  | nil => rfl
  | cons c rest ih =>
    obtain ⟨t, k⟩ := c
    simp only [rowOf, List.map_cons, removeDq_append, removeDq_spaces, ih]

theorem flatten_ljust (cols : List (List Str)) (g : List Str → Str) (W : List Str → Nat) :
    (cols.map (fun c => ljust (W c) (g c))).flatten = rowOf (cols.map (fun c => (g c, W c - (g c).length))) := by
  induction cols with
  | nil => rfl
  | cons c rest ih =>
    simp only [List.map_cons, List.flatten_cons, rowOf]
    rw [ih]; rfl

/-- every line of a written loop is, for some row index `i` valid in every column, the
concatenation of the formatted `i`-th values, each left-justified to its column width + 1 -/
theorem mem_loopRows {cols : List (List Str)} {line : Str} (h : line ∈ loopRows cols) :
    ∃ i, (∀ c ∈ cols, i < c.length) ∧
      line = rowOf (cols.map (fun c => (formatString (c.getD i []),
        maxLen (c.map formatString) + 1 - (formatString (c.getD i [])).length))) := by
  unfold loopRows at h
  simp only [List.mem_map, List.mem_range] at h
  obtain ⟨i, hi, rfl⟩ := h
  have hlen : ∀ c ∈ cols, i < c.length := by
    intro c hc
    cases hcols : cols with
    | nil => rw [hcols] at hc; cases hc
    | cons c0 rest =>
      rw [hcols] at hi hc
      simp only [List.map_cons, List.map_map, List.length_map] at hi
      obtain ⟨h1, h2⟩ := foldl_min_le c0.length (rest.map (fun c => c.length))
      have hi' : i < List.foldl min c0.length (rest.map (fun c => c.length)) := by
        have e : (List.map (List.length ∘ (fun c => List.map (ljust (maxLen c + 1)) c) ∘ fun x => List.map formatString x) rest)
            = rest.map (fun c => c.length) := by
          apply List.map_congr_left; intro c _; simp
        rw [e] at hi; exact hi
      rcases List.mem_cons.mp hc with rfl | hc
      · omega
      · have := h2 c.length (List.mem_map.mpr ⟨c, hc, rfl⟩); omega
  refine ⟨i, hlen, ?_⟩
  rw [← flatten_ljust cols (fun c => formatString (c.getD i [])) (fun c => maxLen (c.map formatString) + 1)]
  congr 1
  simp only [List.map_map]
  apply List.map_congr_left
  intro c hc
  have := hlen c hc
  simp [List.getD_eq_getElem?_getD, this]

/-! ## widths of numbers -/

theorem showNatAux_length (f n k : Nat) (hk : 1 ≤ k) (h : n < 10 ^ k) : (showNatAux f n).length ≤ k := by
  induction f generalizing n k with
  | zero => simp [showNatAux]; omega
  | succ f ih =>
    unfold showNatAux
    split
    · simp; omega
    · rename_i h10
      have hk2 : 2 ≤ k := by
        rcases Nat.lt_or_ge k 2 with hlt | hge
        · have : k = 1 := by omega
          subst this; simp at h; omega
        · exact hge
      obtain ⟨k', rfl⟩ : ∃ k', k = k' + 1 := ⟨k - 1, by omega⟩
      have : n / 10 < 10 ^ k' := by
        rw [Nat.div_lt_iff_lt_mul (by decide)]; rw [Nat.pow_succ] at h; exact h
      have := ih (n / 10) k' (by omega) this
      simp; omega

theorem showNat_length (n k : Nat) (hk : 1 ≤ k) (h : n < 10 ^ k) : (showNat n).length ≤ k :=
  showNatAux_length n n k hk h


instance (s : Str) : Decidable (Clean s) := by unfold Clean; infer_instance
instance (d : Dec) : Decidable (DecOk d) := by unfold DecOk; infer_instance
instance (s : Str) : Decidable (TokOk s) := by unfold TokOk; infer_instance

/-! ## files not written by pyTME: loop rows broken over lines, columns in another order, unknown columns -/

/-- the pieces of one row are glued together as long as they fit -/
theorem reuniteAux_pieces (n : Nat) (cur : List Str) (ps rest : List (List Str))
    (h : cur.length + ps.flatten.length ≤ n) :
    reuniteAux n cur (ps ++ rest) = reuniteAux n (cur ++ ps.flatten) rest := by
  induction ps generalizing cur with
  | nil => simp
  | cons p ps ih =>
    have h' : cur.length + (p.length + ps.flatten.length) ≤ n := by
      simpa [List.flatten_cons, List.length_append] using h
    have h1 : cur.length + p.length ≤ n := by omega
    simp only [List.cons_append, reuniteAux, if_pos h1]
    rw [ih (cur ++ p) (by simp only [List.length_append]; omega)]
    simp [List.flatten_cons, List.append_assoc]

/-- a complete row is closed by whatever non-empty piece follows -/
theorem reuniteAux_full (n : Nat) (cur : List Str) (rest : List (List Str)) (hc : cur.length = n)
    (hr : ∀ q ∈ rest, q ≠ []) : reuniteAux n cur rest = cur :: reunite n rest := by
  cases rest with
  | nil => simp [reuniteAux, reunite]
  | cons q qs =>
    have hq : 0 < q.length := List.length_pos_iff.mpr (hr q (List.mem_cons_self ..))
    simp only [reuniteAux, reunite]
    rw [if_neg (by omega)]

/-- with distinct column names the order of the columns does not matter for a look-up -/
theorem lookup_perm {t t' : Table} (hp : t.Perm t') (hn : (t.map (·.1)).Nodup) (k : Str) :
    lookup t k = lookup t' k := by
  unfold lookup
  induction hp with
  | nil => rfl
  | cons x _ ih =>
    simp only [List.map_cons, List.nodup_cons] at hn
    simp only [List.find?_cons]
    split
    · rfl
    · exact ih hn.2
  | swap x y l =>
    simp only [List.map_cons, List.nodup_cons, List.mem_cons, not_or] at hn
    simp only [List.find?_cons]
    by_cases hx : (x.1 == k) = true <;> by_cases hy : (y.1 == k) = true
    · exact absurd ((beq_iff_eq.mp hy).trans (beq_iff_eq.mp hx).symm) hn.1.1
    · simp [hx, hy]
    · simp [hx, hy]
    · simp [hx, hy]
  | trans h1 _ ih1 ih2 =>
    have hn2 := (List.Perm.nodup_iff (List.Perm.map _ h1)).mp hn
    exact (ih1 hn).trans (ih2 hn2)

theorem lookup_cons_ne (kv : Str × List Str) (t : Table) (k : Str) (h : kv.1 ≠ k) :
    lookup (kv :: t) k = lookup t k := by
  simp [lookup, h]

end Pm.C09
