import PytmeModel.Proofs.C04Run

/-! Several submitters, one analyzer, steps interleaved under the lock (C04): every schedule is a serial history. -/
namespace Pm.C04
set_option linter.unusedSectionVars false
variable {K : Type} [DecidableEq K]

theorem Arr.ofFn_congr {α : Type} (shape : List Nat) (f g : List Nat → α)
    (h : ∀ idx, inShape shape idx = true → f idx = g idx) : Arr.ofFn shape f = Arr.ofFn shape g := by
  unfold Arr.ofFn
  congr 1
  apply congrArg
  funext k
  exact h _ (inShape_unflat shape k.val k.isLt)

/-- `indices = scores > max_scores` -/
def maskOf (a mx : Arr Int) : Arr Bool := Arr.ofFn mx.shape (fun idx => decide (a.getD idx 0 > mx.getD idx 0))

/-- the submissions of process `j` that the log holds, in order -/
def consumed (log : List (Nat × Arr Int × K)) (j : Nat) : List (Arr Int × K) :=
  (log.filter (fun e => e.1 = j)).map Prod.snd

/-- where the lock holder is inside its submission `(a, k)`, relative to the state `s0` it found -/
def HolderRel (s0 : State K) (a : Arr Int) (k : K) (shared : State K) : PC → Prop
  | .idle => False
  | .locked => shared = s0
  | .indexed i => shared = ⟨s0.scores, s0.rots, (setdefault s0.table k).1⟩ ∧ i = (setdefault s0.table k).2
  | .masked i m => shared = ⟨s0.scores, s0.rots, (setdefault s0.table k).1⟩ ∧ i = (setdefault s0.table k).2 ∧
      m = maskOf a s0.scores
  | .wrote i m => shared = ⟨(maxUpdate a s0.scores s0.rots i).1, s0.rots, (setdefault s0.table k).1⟩ ∧
      i = (setdefault s0.table k).2 ∧ m = maskOf a s0.scores

structure LInv (shape : List Nat) (thr : Int) (work : Nat → List (Arr Int × K)) (sys : Sys K)
    (log : List (Nat × Arr Int × K)) : Prop where
  acct : ∀ j, consumed log j ++ (sys.procs j).todo = work j
  free : sys.lock = none → (∀ j, (sys.procs j).pc = .idle) ∧ sys.shared = run shape thr (log.map Prod.snd)
  held : ∀ h, sys.lock = some h → (∀ j, j ≠ h → (sys.procs j).pc = .idle) ∧
    ∃ a k rest, (sys.procs h).todo = (a, k) :: rest ∧
      HolderRel (run shape thr (log.map Prod.snd)) a k sys.shared (sys.procs h).pc

theorem write_scores_eq (a : Arr Int) (s0 : State K) (i : Nat) :
    Arr.ofFn s0.scores.shape (fun idx => if (maskOf a s0.scores).getD idx false then a.getD idx 0 else s0.scores.getD idx 0)
      = (maxUpdate a s0.scores s0.rots i).1 := by
  simp only [maxUpdate]
  apply Arr.ofFn_congr
  intro idx h
  have hm := Arr.getD_ofFn s0.scores.shape idx (fun idx => decide (a.getD idx 0 > s0.scores.getD idx 0)) false h
  simp only [maskOf, hm]
  simp

theorem write_rots_eq (a : Arr Int) (s0 : State K) (i : Nat) :
    Arr.ofFn (maxUpdate a s0.scores s0.rots i).1.shape
        (fun idx => if (maskOf a s0.scores).getD idx false then (i : Int) else s0.rots.getD idx 0)
      = (maxUpdate a s0.scores s0.rots i).2 := by
  simp only [maxUpdate]
  apply Arr.ofFn_congr
  intro idx h
  have hm := Arr.getD_ofFn s0.scores.shape idx (fun idx => decide (a.getD idx 0 > s0.scores.getD idx 0)) false h
  simp only [maskOf, hm]
  simp

theorem consumed_snoc_self (log : List (Nat × Arr Int × K)) (j : Nat) (x : Arr Int × K) :
    consumed (log ++ [(j, x)]) j = consumed log j ++ [x] := by
  simp [consumed, List.filter_append]

theorem consumed_snoc_other (log : List (Nat × Arr Int × K)) {j h : Nat} (x : Arr Int × K) (hne : j ≠ h) :
    consumed (log ++ [(h, x)]) j = consumed log j := by
  have : ¬ h = j := fun e => hne e.symm
  simp [consumed, List.filter_append, this]

theorem step_nil (b : Bool) (sys : Sys K) (pid : Nat) (h : (sys.procs pid).todo = []) : step b sys pid = sys := by
  simp [step, h]

theorem step_idle_free (sys : Sys K) (pid : Nat) {a : Arr Int} {k : K} {rest : List (Arr Int × K)}
    (h : (sys.procs pid).todo = (a, k) :: rest) (hpc : (sys.procs pid).pc = .idle) (hl : sys.lock = none) :
    step true sys pid = { sys with lock := some pid, procs := setProc sys.procs pid ⟨(a, k) :: rest, .locked⟩ } := by
  simp [step, h, hpc, hl]

theorem step_idle_taken (sys : Sys K) (pid : Nat) {a : Arr Int} {k : K} {rest : List (Arr Int × K)} {h' : Nat}
    (h : (sys.procs pid).todo = (a, k) :: rest) (hpc : (sys.procs pid).pc = .idle) (hl : sys.lock = some h') :
    step true sys pid = sys := by
  simp [step, h, hpc, hl]

theorem step_locked (b : Bool) (sys : Sys K) (pid : Nat) {a : Arr Int} {k : K} {rest : List (Arr Int × K)}
    (h : (sys.procs pid).todo = (a, k) :: rest) (hpc : (sys.procs pid).pc = .locked) :
    step b sys pid = { sys with shared := { sys.shared with table := (setdefault sys.shared.table k).1 },
                                procs := setProc sys.procs pid ⟨(a, k) :: rest, .indexed (setdefault sys.shared.table k).2⟩ } := by
  simp [step, h, hpc]

theorem step_indexed (b : Bool) (sys : Sys K) (pid : Nat) {a : Arr Int} {k : K} {rest : List (Arr Int × K)} {i : Nat}
    (h : (sys.procs pid).todo = (a, k) :: rest) (hpc : (sys.procs pid).pc = .indexed i) :
    step b sys pid = { sys with procs := setProc sys.procs pid ⟨(a, k) :: rest, .masked i (maskOf a sys.shared.scores)⟩ } := by
  simp [step, h, hpc, maskOf]

theorem step_masked (b : Bool) (sys : Sys K) (pid : Nat) {a : Arr Int} {k : K} {rest : List (Arr Int × K)} {i : Nat} {m : Arr Bool}
    (h : (sys.procs pid).todo = (a, k) :: rest) (hpc : (sys.procs pid).pc = .masked i m) :
    step b sys pid = { sys with
      shared := { sys.shared with scores := Arr.ofFn sys.shared.scores.shape (fun idx => if m.getD idx false then a.getD idx 0 else sys.shared.scores.getD idx 0) },
      procs := setProc sys.procs pid ⟨(a, k) :: rest, .wrote i m⟩ } := by
  simp [step, h, hpc]

theorem step_wrote (sys : Sys K) (pid : Nat) {a : Arr Int} {k : K} {rest : List (Arr Int × K)} {i : Nat} {m : Arr Bool}
    (h : (sys.procs pid).todo = (a, k) :: rest) (hpc : (sys.procs pid).pc = .wrote i m) :
    step true sys pid =
      { shared := { sys.shared with rots := Arr.ofFn sys.shared.scores.shape (fun idx => if m.getD idx false then (i : Int) else sys.shared.rots.getD idx 0) },
        lock := none, procs := setProc sys.procs pid ⟨rest, .idle⟩ } := by
  simp [step, h, hpc]

/-- one step under the lock keeps the invariant; the log grows by the finished submission exactly when the
holder releases the lock -/
theorem linv_step {shape : List Nat} {thr : Int} {work : Nat → List (Arr Int × K)} {sys : Sys K}
    {log : List (Nat × Arr Int × K)} (inv : LInv shape thr work sys log) (pid : Nat) :
    ∃ log', LInv shape thr work (step true sys pid) log' := by
  cases htodo : (sys.procs pid).todo with
  | nil => exact ⟨log, by rw [step_nil _ _ _ htodo]; exact inv⟩
  | cons ak rest =>
    obtain ⟨a, k⟩ := ak
    cases hpc : (sys.procs pid).pc with
    | idle =>
      cases hlock : sys.lock with
      | some h' => exact ⟨log, by rw [step_idle_taken _ _ htodo hpc hlock]; exact inv⟩
      | none =>
        rw [step_idle_free _ _ htodo hpc hlock]
        obtain ⟨hidle, hshared⟩ := inv.free hlock
        refine ⟨log, ⟨?_, ?_, ?_⟩⟩
        · intro j
          by_cases hj : j = pid
          · subst hj; simp [setProc]; simpa [htodo] using inv.acct j
          · simp [setProc, hj]; exact inv.acct j
        · intro h; simp at h
        · intro h hh
          simp at hh; subst hh
          refine ⟨fun j hj => by simp [setProc, hj]; exact hidle j, a, k, rest, by simp [setProc], ?_⟩
          simp [setProc, HolderRel, hshared]
    | locked =>
      have hl : sys.lock = some pid := by
        cases hlock : sys.lock with
        | none => have := (inv.free hlock).1 pid; rw [hpc] at this; cases this
        | some h =>
          by_cases e : pid = h
          · rw [e]
          · have := (inv.held h hlock).1 pid e; rw [hpc] at this; cases this
      obtain ⟨hothers, a', k', rest', ht', hrel⟩ := inv.held pid hl
      rw [htodo] at ht'; cases ht'
      rw [hpc] at hrel
      simp only [HolderRel] at hrel
      rw [step_locked _ _ _ htodo hpc]
      refine ⟨log, ⟨?_, ?_, ?_⟩⟩
      · intro j
        by_cases hj : j = pid
        · subst hj; simp [setProc]; simpa [htodo] using inv.acct j
        · simp [setProc, hj]; exact inv.acct j
      · intro h; simp [hl] at h
      · intro h hh
        simp [hl] at hh; subst hh
        refine ⟨fun j hj => by simp [setProc, hj]; exact hothers j hj, a, k, rest, by simp [setProc], ?_⟩
        simp [setProc, HolderRel, hrel]
    | indexed i =>
      have hl : sys.lock = some pid := by
        cases hlock : sys.lock with
        | none => have := (inv.free hlock).1 pid; rw [hpc] at this; cases this
        | some h =>
          by_cases e : pid = h
          · rw [e]
          · have := (inv.held h hlock).1 pid e; rw [hpc] at this; cases this
      obtain ⟨hothers, a', k', rest', ht', hrel⟩ := inv.held pid hl
      rw [htodo] at ht'; cases ht'
      rw [hpc] at hrel
      simp only [HolderRel] at hrel
      rw [step_indexed _ _ _ htodo hpc]
      refine ⟨log, ⟨?_, ?_, ?_⟩⟩
      · intro j
        by_cases hj : j = pid
        · subst hj; simp [setProc]; simpa [htodo] using inv.acct j
        · simp [setProc, hj]; exact inv.acct j
      · intro h; simp [hl] at h
      · intro h hh
        simp [hl] at hh; subst hh
        refine ⟨fun j hj => by simp [setProc, hj]; exact hothers j hj, a, k, rest, by simp [setProc], ?_⟩
        simp [setProc, HolderRel, hrel.1, hrel.2]
    | masked i m =>
      have hl : sys.lock = some pid := by
        cases hlock : sys.lock with
        | none => have := (inv.free hlock).1 pid; rw [hpc] at this; cases this
        | some h =>
          by_cases e : pid = h
          · rw [e]
          · have := (inv.held h hlock).1 pid e; rw [hpc] at this; cases this
      obtain ⟨hothers, a', k', rest', ht', hrel⟩ := inv.held pid hl
      rw [htodo] at ht'; cases ht'
      rw [hpc] at hrel
      simp only [HolderRel] at hrel
      obtain ⟨hs, hi, hm⟩ := hrel
      rw [step_masked _ _ _ htodo hpc]
      refine ⟨log, ⟨?_, ?_, ?_⟩⟩
      · intro j
        by_cases hj : j = pid
        · subst hj; simp [setProc]; simpa [htodo] using inv.acct j
        · simp [setProc, hj]; exact inv.acct j
      · intro h; simp [hl] at h
      · intro h hh
        simp [hl] at hh; subst hh
        refine ⟨fun j hj => by simp [setProc, hj]; exact hothers j hj, a, k, rest, by simp [setProc], ?_⟩
        simp only [setProc, if_true, HolderRel]
        refine ⟨?_, hi, hm⟩
        rw [hs, hm]
        simp only []
        rw [write_scores_eq a _ i]
    | wrote i m =>
      have hl : sys.lock = some pid := by
        cases hlock : sys.lock with
        | none => have := (inv.free hlock).1 pid; rw [hpc] at this; cases this
        | some h =>
          by_cases e : pid = h
          · rw [e]
          · have := (inv.held h hlock).1 pid e; rw [hpc] at this; cases this
      obtain ⟨hothers, a', k', rest', ht', hrel⟩ := inv.held pid hl
      rw [htodo] at ht'; cases ht'
      rw [hpc] at hrel
      simp only [HolderRel] at hrel
      obtain ⟨hs, hi, hm⟩ := hrel
      rw [step_wrote _ _ htodo hpc]
      refine ⟨log ++ [(pid, a, k)], ⟨?_, ?_, ?_⟩⟩
      · intro j
        by_cases hj : j = pid
        · subst hj
          rw [consumed_snoc_self]
          simp [setProc]
          simpa [htodo] using inv.acct j
        · rw [consumed_snoc_other _ _ hj]
          simp [setProc, hj]; exact inv.acct j
      · intro _
        refine ⟨?_, ?_⟩
        · intro j
          by_cases hj : j = pid
          · simp [setProc, hj]
          · simp [setProc, hj]; exact hothers j hj
        · simp only [List.map_append, List.map_cons, List.map_nil]
          rw [run_snoc, hs, hm]
          simp only [submit]
          rw [← hi, write_rots_eq a _ i]
      · intro h hh; simp at hh

theorem linv_init (shape : List Nat) (thr : Int) (work : List (List (Arr Int × K))) :
    LInv shape thr (fun j => work.getD j []) (sysInit shape thr work) [] where
  acct := by intro j; simp [consumed, sysInit]
  free := by intro _; exact ⟨fun _ => rfl, rfl⟩
  held := by intro h hh; simp [sysInit] at hh

theorem linv_sched {shape : List Nat} {thr : Int} {work : Nat → List (Arr Int × K)} (sched : List Nat) :
    ∀ (sys : Sys K) (log : List (Nat × Arr Int × K)), LInv shape thr work sys log →
    ∃ log', LInv shape thr work (runSched true sys sched) log' := by
  induction sched with
  | nil => intro sys log inv; exact ⟨log, inv⟩
  | cons pid sched ih =>
    intro sys log inv
    obtain ⟨log1, inv1⟩ := linv_step inv pid
    exact ih _ log1 inv1

end Pm.C04
