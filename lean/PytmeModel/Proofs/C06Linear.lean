import PytmeModel.Model.C06
import PytmeModel.Proofs.Common
import Mathlib.Algebra.Order.Floor.Ring
import Mathlib.Data.Rat.Floor
import Mathlib.Algebra.BigOperators.Group.List.Basic
import Mathlib.Algebra.BigOperators.Ring.List
import Mathlib.Algebra.Order.Ring.Rat
import Mathlib.Algebra.Field.Rat
import Mathlib.Algebra.Order.AbsoluteValue.Basic
import Mathlib.Tactic.Ring
import Mathlib.Tactic.NormNum
import Mathlib.Tactic.Linarith

/-! Order-1 (multilinear) interpolation — the mathematics behind `linInterp` (`Model/C06.lean`).

`interpRec` is the interpolant as an iterated one-dimensional interpolation, over any ordered field with a floor
function; `linCorners_sum` shows that the `2^d`-corner sum the executable model evaluates is `interpRec` at `K = ℚ`.
All properties (partition of unity, bounds, affine exactness, grid points) are proved for `interpRec` and transferred. -/
set_option linter.unusedSimpArgs false
set_option linter.unusedSectionVars false
namespace Pm.C06

section generic
variable {K : Type} [Field K] [LinearOrder K] [IsStrictOrderedRing K] [FloorRing K]

/-- order-1 interpolation of `g : ℤ^d → K` at `xs`, axis by axis: on each axis the two nodes `⌊x⌋`, `⌊x⌋ + 1` with the
weights `1 − frac x`, `frac x` -/
def interpRec : List K → (List Int → K) → K
  | [], g => g []
  | x :: xs, g => (1 - Int.fract x) * interpRec xs (fun is => g (⌊x⌋ :: is))
      + Int.fract x * interpRec xs (fun is => g ((⌊x⌋ + 1) :: is))

/-- the corner `is` of the cell of `xs` carries a non-zero weight: on every axis it is `⌊x⌋`, or `⌊x⌋ + 1` for a
position that is not on the grid plane of that axis -/
def Relevant (xs : List K) (is : List Int) : Prop :=
  List.Forall₂ (fun x i => i = ⌊x⌋ ∨ (i = ⌊x⌋ + 1 ∧ Int.fract x ≠ 0)) xs is

/-- `Σ β_i x_i` -/
def dotL (β x : List K) : K := (List.zipWith (· * ·) β x).sum

@[simp] theorem dotL_nil_left (x : List K) : dotL ([] : List K) x = 0 := by simp [dotL]
@[simp] theorem dotL_nil_right (β : List K) : dotL β ([] : List K) = 0 := by simp [dotL]
@[simp] theorem dotL_cons (b : K) (bs : List K) (x : K) (xs : List K) :
    dotL (b :: bs) (x :: xs) = b * x + dotL bs xs := by simp [dotL]

theorem interpRec_congr : ∀ (xs : List K) (g g' : List Int → K),
    (∀ is, Relevant xs is → g is = g' is) → interpRec xs g = interpRec xs g'
  | [], g, g', h => h [] List.Forall₂.nil
  | x :: xs, g, g', h => by
      simp only [interpRec]
      have h1 := interpRec_congr xs (fun is => g (⌊x⌋ :: is)) (fun is => g' (⌊x⌋ :: is))
        (fun is his => h _ (List.Forall₂.cons (Or.inl rfl) his))
      rw [h1]
      by_cases hf : Int.fract x = 0
      · rw [hf, zero_mul, zero_mul]
      · have h2 := interpRec_congr xs (fun is => g ((⌊x⌋ + 1) :: is)) (fun is => g' ((⌊x⌋ + 1) :: is))
          (fun is his => h _ (List.Forall₂.cons (Or.inr ⟨rfl, hf⟩) his))
        rw [h2]

/-- convexity: the interpolant lies between the extreme values of the corners that carry weight -/
theorem interpRec_bounds (lo hi : K) : ∀ (xs : List K) (g : List Int → K),
    (∀ is, Relevant xs is → lo ≤ g is ∧ g is ≤ hi) → lo ≤ interpRec xs g ∧ interpRec xs g ≤ hi
  | [], g, h => h [] List.Forall₂.nil
  | x :: xs, g, h => by
      simp only [interpRec]
      obtain ⟨a1, a2⟩ := interpRec_bounds lo hi xs (fun is => g (⌊x⌋ :: is))
        (fun is his => h _ (List.Forall₂.cons (Or.inl rfl) his))
      have f0 := Int.fract_nonneg x
      have f1 := (Int.fract_lt_one x).le
      by_cases hf : Int.fract x = 0
      · rw [hf]; constructor <;> linarith
      · obtain ⟨b1, b2⟩ := interpRec_bounds lo hi xs (fun is => g ((⌊x⌋ + 1) :: is))
          (fun is his => h _ (List.Forall₂.cons (Or.inr ⟨rfl, hf⟩) his))
        constructor
        · nlinarith [mul_nonneg (sub_nonneg.2 f1) (sub_nonneg.2 a1), mul_nonneg f0 (sub_nonneg.2 b1)]
        · nlinarith [mul_nonneg (sub_nonneg.2 f1) (sub_nonneg.2 a2), mul_nonneg f0 (sub_nonneg.2 b2)]

/-- affine exactness: data that is an affine function of the index on the corners that carry weight is interpolated
to the same affine function of the position -/
theorem interpRec_affine : ∀ (xs : List K) (g : List Int → K) (α : K) (β : List K),
    (∀ is, Relevant xs is → g is = α + dotL β (is.map (fun (z : Int) => (z : K)))) →
    interpRec xs g = α + dotL β xs
  | [], g, α, β, h => by simpa [interpRec] using h [] List.Forall₂.nil
  | x :: xs, g, α, [], h => by
      simp only [interpRec]
      have h1 := interpRec_affine xs (fun is => g (⌊x⌋ :: is)) α []
        (fun is his => by simpa using h _ (List.Forall₂.cons (Or.inl rfl) his))
      rw [h1]
      by_cases hf : Int.fract x = 0
      · rw [hf]; simp
      · have h2 := interpRec_affine xs (fun is => g ((⌊x⌋ + 1) :: is)) α []
          (fun is his => by simpa using h _ (List.Forall₂.cons (Or.inr ⟨rfl, hf⟩) his))
        rw [h2]; simp; ring
  | x :: xs, g, α, b :: bs, h => by
      simp only [interpRec]
      have h1 := interpRec_affine xs (fun is => g (⌊x⌋ :: is)) (α + b * (⌊x⌋ : K)) bs
        (fun is his => by
          have := h _ (List.Forall₂.cons (Or.inl rfl) his)
          simp only [List.map_cons, dotL_cons] at this
          rw [this]; ring)
      rw [h1]
      have hx : x = (⌊x⌋ : K) + Int.fract x := (Int.floor_add_fract x).symm
      by_cases hf : Int.fract x = 0
      · rw [hf] at hx ⊢
        rw [dotL_cons]
        conv_rhs => rw [hx]
        ring
      · have h2 := interpRec_affine xs (fun is => g ((⌊x⌋ + 1) :: is)) (α + b * ((⌊x⌋ : K) + 1)) bs
          (fun is his => by
            have := h _ (List.Forall₂.cons (Or.inr ⟨rfl, hf⟩) his)
            simp only [List.map_cons, dotL_cons, Int.cast_add, Int.cast_one] at this
            rw [this]; ring)
        rw [h2, dotL_cons]
        conv_rhs => rw [hx]
        ring

theorem interpRec_nonneg : ∀ (xs : List K) (g : List Int → K),
    (∀ is, Relevant xs is → 0 ≤ g is) → 0 ≤ interpRec xs g
  | [], g, h => h [] List.Forall₂.nil
  | x :: xs, g, h => by
      simp only [interpRec]
      have a1 := interpRec_nonneg xs (fun is => g (⌊x⌋ :: is)) (fun is his => h _ (List.Forall₂.cons (Or.inl rfl) his))
      have f0 := Int.fract_nonneg x
      have f1 := (Int.fract_lt_one x).le
      by_cases hf : Int.fract x = 0
      · rw [hf]; simp only [sub_zero, one_mul, zero_mul, add_zero]; exact a1
      · have b1 := interpRec_nonneg xs (fun is => g ((⌊x⌋ + 1) :: is))
          (fun is his => h _ (List.Forall₂.cons (Or.inr ⟨rfl, hf⟩) his))
        exact add_nonneg (mul_nonneg (sub_nonneg.2 f1) a1) (mul_nonneg f0 b1)

/-- at a grid point the interpolant is the sample itself -/
theorem interpRec_int : ∀ (ks : List Int) (g : List Int → K),
    interpRec (ks.map (fun (z : Int) => (z : K))) g = g ks
  | [], g => rfl
  | k :: ks, g => by
      simp only [List.map_cons, interpRec, Int.fract_intCast, Int.floor_intCast, sub_zero, one_mul, zero_mul,
        add_zero]
      exact interpRec_int ks _

/-- the interpolant is linear in the data -/
theorem interpRec_add : ∀ (xs : List K) (g h : List Int → K),
    interpRec xs (fun is => g is + h is) = interpRec xs g + interpRec xs h
  | [], g, h => rfl
  | x :: xs, g, h => by
      simp only [interpRec]
      rw [interpRec_add xs, interpRec_add xs]; ring

theorem interpRec_smul (c : K) : ∀ (xs : List K) (g : List Int → K),
    interpRec xs (fun is => c * g is) = c * interpRec xs g
  | [], g => rfl
  | x :: xs, g => by
      simp only [interpRec]
      rw [interpRec_smul c xs, interpRec_smul c xs]; ring

/-- the position lies inside the array: `0 ≤ x_i ≤ n_i − 1` on every axis, ranks agreeing -/
def InsideL (src : List K) (shape : List Nat) : Prop :=
  List.Forall₂ (fun (x : K) (n : Nat) => 0 ≤ x ∧ x ≤ (((n : Int) - 1 : Int) : K)) src shape

/-- the signed multi-index addresses a voxel of the shape -/
def InBoxL (shape : List Nat) (is : List Int) : Prop :=
  List.Forall₂ (fun (n : Nat) (i : Int) => 0 ≤ i ∧ i < (n : Int)) shape is

end generic

/-! ## the executable model at `K = ℚ` -/
section rat

theorem linNodes_eq (x : Rat) : linNodes x = [(⌊x⌋, 1 - Int.fract x), (⌊x⌋ + 1, Int.fract x)] := rfl

theorem foldl_add_eq_sum {β : Type} (F : β → Rat) : ∀ (l : List β) (z : Rat),
    l.foldl (fun acc b => acc + F b) z = z + (l.map F).sum
  | [], z => by simp
  | b :: l, z => by simp [foldl_add_eq_sum F l, add_assoc]

/-- the `2^d`-corner sum of the model is the iterated one-dimensional interpolation -/
theorem linCorners_sum : ∀ (xs : List Rat) (g : List Int → Rat),
    ((linCorners xs).map (fun (iw : List Int × Rat) => iw.2 * g iw.1)).sum = interpRec xs g
  | [], g => by simp [linCorners, interpRec]
  | x :: xs, g => by
      have h := fun (k : Int) (w : Rat) =>
        calc (((linCorners xs).map (fun (iw : List Int × Rat) => (k :: iw.1, w * iw.2))).map
                (fun (iw : List Int × Rat) => iw.2 * g iw.1)).sum
            = ((linCorners xs).map (fun (iw : List Int × Rat) => w * (iw.2 * g (k :: iw.1)))).sum := by
              rw [List.map_map]; congr 1; apply List.map_congr_left; intro iw _; simp [mul_assoc]
          _ = w * interpRec xs (fun is => g (k :: is)) := by
              rw [List.sum_map_mul_left, linCorners_sum xs (fun is => g (k :: is))]
      simp only [linCorners, linNodes_eq, List.flatMap_cons, List.flatMap_nil, List.append_nil, List.map_append,
        List.sum_append, h, interpRec]

theorem insideL_iff : ∀ (src : List Rat) (shape : List Nat),
    InsideL src shape ↔ (src.length = shape.length ∧
      (List.zip src shape).all (fun (xn : Rat × Nat) => decide (0 ≤ xn.1) && decide (xn.1 ≤ ((xn.2 : Int) - 1 : Int))) = true)
  | [], [] => by simp [InsideL]
  | [], _ :: _ => by simp [InsideL]
  | _ :: _, [] => by simp [InsideL]
  | x :: xs, n :: ns => by
      have ih := insideL_iff xs ns
      simp only [InsideL] at ih ⊢
      rw [List.forall₂_cons, ih]
      simp only [List.length_cons, List.zip_cons_cons, List.all_cons, Bool.and_eq_true, decide_eq_true_eq,
        Nat.add_right_cancel_iff]
      tauto

theorem linInterp_inside (a : Arr Rat) (src : List Rat) (h : InsideL src a.shape) :
    linInterp a src = interpRec src (fun is => a.getI is 0) := by
  obtain ⟨h1, h2⟩ := (insideL_iff _ _).1 h
  unfold linInterp
  rw [if_neg (by simpa using h1), if_pos h2, foldl_add_eq_sum (fun (iw : List Int × Rat) => iw.2 * a.getI iw.1 0),
    zero_add]
  exact linCorners_sum src (fun is => a.getI is 0)

theorem linInterp_outside (a : Arr Rat) (src : List Rat) (h : ¬ InsideL src a.shape) : linInterp a src = 0 := by
  rw [insideL_iff] at h
  unfold linInterp
  by_cases h1 : src.length = a.shape.length
  · rw [if_neg (by simpa using h1), if_neg (fun h2 => h ⟨h1, h2⟩)]
  · rw [if_pos h1]

/-- inside the array every corner that carries weight is a voxel of the array (a corner index `n` only occurs with
weight `0`) -/
theorem relevant_inBox : ∀ (src : List Rat) (shape : List Nat) (is : List Int),
    InsideL src shape → Relevant src is → InBoxL shape is
  | [], [], [], _, _ => List.Forall₂.nil
  | [], _ :: _, _, h, _ => by cases h
  | [], [], _ :: _, _, h => by cases h
  | _ :: _, [], _, h, _ => by cases h
  | _ :: _, _ :: _, [], _, h => by cases h
  | x :: xs, n :: ns, i :: is, h, hr => by
      obtain ⟨⟨x0, x1⟩, h'⟩ := List.forall₂_cons.1 h
      obtain ⟨hi, hr'⟩ := List.forall₂_cons.1 hr
      refine List.Forall₂.cons ?_ (relevant_inBox xs ns is h' hr')
      have hfl : (⌊x⌋ : Rat) ≤ x := Int.floor_le x
      have hle : ⌊x⌋ ≤ (n : Int) - 1 := by exact_mod_cast hfl.trans x1
      rcases hi with rfl | ⟨rfl, hf⟩
      · exact ⟨Int.floor_nonneg.2 x0, by omega⟩
      · refine ⟨by have := Int.floor_nonneg.2 x0; omega, ?_⟩
        have hne : x ≠ (((n : Int) - 1 : Int) : Rat) := by
          intro he; apply hf; rw [he]; exact Int.fract_intCast _
        have : ⌊x⌋ < (n : Int) - 1 := Int.floor_lt.2 (lt_of_le_of_ne x1 hne)
        omega

theorem inBoxL_iff : ∀ (shape : List Nat) (is : List Int),
    InBoxL shape is ↔ (is.all (fun i => decide (0 ≤ i)) = true ∧ inShape shape (is.map Int.toNat) = true)
  | [], [] => by simp [InBoxL, inShape]
  | [], _ :: _ => by simp [InBoxL, inShape]
  | _ :: _, [] => by simp [InBoxL, inShape]
  | n :: ns, i :: is => by
      have ih := inBoxL_iff ns is
      simp only [InBoxL] at ih ⊢
      rw [List.forall₂_cons, ih]
      simp only [List.all_cons, Bool.and_eq_true, decide_eq_true_eq, List.map_cons, inShape_cons]
      constructor
      · rintro ⟨⟨h0, h1⟩, h2, h3⟩; exact ⟨⟨h0, h2⟩, by omega, h3⟩
      · rintro ⟨⟨h0, h2⟩, h1, h3⟩; exact ⟨⟨h0, by omega⟩, h2, h3⟩

theorem getI_of_inBox (a : Arr Rat) (is : List Int) (h : InBoxL a.shape is) :
    a.getI is 0 = a.getD (is.map Int.toNat) 0 ∧ inShape a.shape (is.map Int.toNat) = true := by
  obtain ⟨h1, h2⟩ := (inBoxL_iff _ _).1 h
  exact ⟨by unfold Arr.getI; rw [if_pos h1], h2⟩

theorem getI_of_not_inBox (a : Arr Rat) (is : List Int) (h : ¬ InBoxL a.shape is) : a.getI is 0 = 0 := by
  rw [inBoxL_iff] at h
  unfold Arr.getI
  by_cases h1 : is.all (fun i => decide (0 ≤ i)) = true
  · rw [if_pos h1]
    unfold Arr.getD
    rw [if_neg (fun h2 => h ⟨h1, h2⟩)]
  · rw [if_neg h1]

theorem map_toNat_cast : ∀ (ns : List Nat) (o : List Int), InBoxL ns o →
    (o.map Int.toNat).map (fun (z : Nat) => (z : Int)) = o
  | [], [], _ => rfl
  | [], _ :: _, h => by cases h
  | _ :: _, [], h => by cases h
  | n :: ns, i :: is, h => by
      obtain ⟨⟨h0, _⟩, h'⟩ := List.forall₂_cons.1 h
      simp only [List.map_cons, map_toNat_cast ns is h']
      congr 1; omega

theorem inBoxL_natCast : ∀ (ns idx : List Nat), inShape ns idx = true → InBoxL ns (idx.map (fun (z : Nat) => (z : Int)))
  | [], [], _ => List.Forall₂.nil
  | [], _ :: _, h => by simp [inShape] at h
  | _ :: _, [], h => by simp [inShape] at h
  | n :: ns, i :: is, h => by
      obtain ⟨h1, h2⟩ := inShape_cons.1 h
      refine List.Forall₂.cons ?_ (inBoxL_natCast ns is h2)
      show (0 : Int) ≤ (i : Int) ∧ (i : Int) < (n : Int)
      exact ⟨by omega, by exact_mod_cast h1⟩

theorem getI_natCast (a : Arr Rat) (idx : List Nat) : a.getI (idx.map (fun (z : Nat) => (z : Int))) 0 = a.getD idx 0 := by
  unfold Arr.getI
  have h1 : (idx.map (fun (z : Nat) => (z : Int))).all (fun i => decide (0 ≤ i)) = true := by
    simp [List.all_map]
  have h2 : (idx.map (fun (z : Nat) => (z : Int))).map Int.toNat = idx := by
    rw [List.map_map]
    conv_rhs => rw [← List.map_id idx]
    exact List.map_congr_left (fun z _ => by simp)
  rw [if_pos h1, h2]


theorem insideL_of_inBox : ∀ (ns : List Nat) (ks : List Int), InBoxL ns ks →
    InsideL (ks.map (fun (z : Int) => (z : Rat))) ns
  | [], [], _ => List.Forall₂.nil
  | [], _ :: _, h => by cases h
  | _ :: _, [], h => by cases h
  | n :: ns, k :: ks, h => by
      obtain ⟨⟨h0, h1⟩, h'⟩ := List.forall₂_cons.1 h
      refine List.Forall₂.cons ?_ (insideL_of_inBox ns ks h')
      show (0 : Rat) ≤ ((k : Int) : Rat) ∧ ((k : Int) : Rat) ≤ (((n : Int) - 1 : Int) : Rat)
      have : k ≤ (n : Int) - 1 := by omega
      exact ⟨Int.cast_nonneg h0, Int.cast_le.2 this⟩

theorem inBox_of_insideL : ∀ (ns : List Nat) (ks : List Int), InsideL (ks.map (fun (z : Int) => (z : Rat))) ns →
    InBoxL ns ks
  | [], [], _ => List.Forall₂.nil
  | _ :: _, [], h => by cases h
  | [], _ :: _, h => by cases h
  | n :: ns, k :: ks, h => by
      obtain ⟨⟨h0, h1⟩, h'⟩ := List.forall₂_cons.1 h
      refine List.Forall₂.cons ?_ (inBox_of_insideL ns ks h')
      have h0' : (0 : Rat) ≤ ((k : Int) : Rat) := h0
      have h1' : ((k : Int) : Rat) ≤ (((n : Int) - 1 : Int) : Rat) := h1
      have : k ≤ (n : Int) - 1 := Int.cast_le.1 h1'
      exact ⟨Int.cast_nonneg_iff.1 h0', by omega⟩

/-- **grid points**: at an integer position the model returns the voxel itself (`0` outside the array) -/
theorem linInterp_int (a : Arr Rat) (ks : List Int) : linInterp a (ks.map (fun (z : Int) => (z : Rat))) = a.getI ks 0 := by
  by_cases h : InsideL (ks.map (fun (z : Int) => (z : Rat))) a.shape
  · rw [linInterp_inside a _ h, interpRec_int]
  · rw [linInterp_outside a _ h, getI_of_not_inBox a ks (fun hb => h (insideL_of_inBox _ _ hb))]

theorem ratIdx_toNat (ns : List Nat) (is : List Int) (h : InBoxL ns is) :
    ratIdx (is.map Int.toNat) = is.map (fun (z : Int) => (z : Rat)) := by
  have := map_toNat_cast ns is h
  conv_rhs => rw [← this]
  simp only [ratIdx, List.map_map]
  rfl

/-- **range**: inside the array the interpolated value lies between the extreme voxel values -/
theorem linInterp_bounds (a : Arr Rat) (src : List Rat) (lo hi : Rat) (hin : InsideL src a.shape)
    (hv : ∀ idx, inShape a.shape idx = true → lo ≤ a.getD idx 0 ∧ a.getD idx 0 ≤ hi) :
    lo ≤ linInterp a src ∧ linInterp a src ≤ hi := by
  rw [linInterp_inside a src hin]
  refine interpRec_bounds lo hi src _ (fun is his => ?_)
  obtain ⟨h1, h2⟩ := getI_of_inBox a is (relevant_inBox src a.shape is hin his)
  rw [h1]; exact hv _ h2

/-- **affine exactness**: an array that is an affine function of the voxel index is interpolated to the same affine
function of the position, everywhere inside the array -/
theorem linInterp_affine (a : Arr Rat) (src : List Rat) (α : Rat) (β : List Rat) (hin : InsideL src a.shape)
    (hv : ∀ idx, inShape a.shape idx = true → a.getD idx 0 = α + dotL β (ratIdx idx)) :
    linInterp a src = α + dotL β src := by
  rw [linInterp_inside a src hin]
  refine interpRec_affine src _ α β (fun is his => ?_)
  have hb := relevant_inBox src a.shape is hin his
  obtain ⟨h1, h2⟩ := getI_of_inBox a is hb
  rw [h1, hv _ h2, ratIdx_toNat _ _ hb]

/-- the weights of the `2^d` corners -/
theorem linCorners_length : ∀ (xs : List Rat), (linCorners xs).length = 2 ^ xs.length
  | [] => rfl
  | x :: xs => by
      simp only [linCorners, linNodes_eq, List.flatMap_cons, List.flatMap_nil, List.append_nil, List.length_append,
        List.length_map, linCorners_length xs, List.length_cons]
      ring

theorem linCorners_nonneg : ∀ (xs : List Rat) (iw : List Int × Rat), iw ∈ linCorners xs → 0 ≤ iw.2
  | [], iw, h => by
      simp only [linCorners, List.mem_singleton] at h
      rw [h]; norm_num
  | x :: xs, iw, h => by
      simp only [linCorners, linNodes_eq, List.flatMap_cons, List.flatMap_nil, List.append_nil, List.mem_append,
        List.mem_map] at h
      have f0 := Int.fract_nonneg x
      have f1 := (Int.fract_lt_one x).le
      rcases h with ⟨jw, hj, rfl⟩ | ⟨jw, hj, rfl⟩
      · exact mul_nonneg (by linarith) (linCorners_nonneg xs jw hj)
      · exact mul_nonneg f0 (linCorners_nonneg xs jw hj)

theorem linCorners_sum_one (xs : List Rat) : ((linCorners xs).map (fun (iw : List Int × Rat) => iw.2)).sum = 1 := by
  have h := linCorners_sum xs (fun _ => (1 : Rat))
  simp only [mul_one] at h
  rw [h]
  have := interpRec_affine xs (fun _ => (1 : Rat)) 1 [] (fun is _ => by simp)
  simpa using this

/-- every corner is one of the two grid neighbours on each axis -/
theorem linCorners_neighbours : ∀ (xs : List Rat) (iw : List Int × Rat), iw ∈ linCorners xs →
    List.Forall₂ (fun (x : Rat) (i : Int) => i = ⌊x⌋ ∨ i = ⌊x⌋ + 1) xs iw.1
  | [], iw, h => by
      simp only [linCorners, List.mem_singleton] at h
      rw [h]; exact List.Forall₂.nil
  | x :: xs, iw, h => by
      simp only [linCorners, linNodes_eq, List.flatMap_cons, List.flatMap_nil, List.append_nil, List.mem_append,
        List.mem_map] at h
      rcases h with ⟨jw, hj, rfl⟩ | ⟨jw, hj, rfl⟩
      · exact List.Forall₂.cons (Or.inl rfl) (linCorners_neighbours xs jw hj)
      · exact List.Forall₂.cons (Or.inr rfl) (linCorners_neighbours xs jw hj)

/-- non-negative data gives a non-negative value at every position (inside or outside) -/
theorem linInterp_nonneg (a : Arr Rat) (src : List Rat)
    (hv : ∀ idx, inShape a.shape idx = true → 0 ≤ a.getD idx 0) : 0 ≤ linInterp a src := by
  by_cases hin : InsideL src a.shape
  · rw [linInterp_inside a src hin]
    refine interpRec_nonneg src _ (fun is his => ?_)
    obtain ⟨h1, h2⟩ := getI_of_inBox a is (relevant_inBox src a.shape is hin his)
    rw [h1]; exact hv _ h2
  · rw [linInterp_outside a src hin]

/-- no overshoot anywhere: `|out| ≤ max |a|` at every position -/
theorem linInterp_abs_le (a : Arr Rat) (src : List Rat) (M : Rat) (hM : 0 ≤ M)
    (hv : ∀ idx, inShape a.shape idx = true → |a.getD idx 0| ≤ M) : |linInterp a src| ≤ M := by
  by_cases hin : InsideL src a.shape
  · have := linInterp_bounds a src (-M) M hin (fun idx h => abs_le.1 (hv idx h))
    exact abs_le.2 this
  · rw [linInterp_outside a src hin, abs_zero]; exact hM

end rat

end Pm.C06
