import PytmeModel.Model.C18Cli
import PytmeModel.Proofs.Common
import Mathlib.Tactic.Ring
import Mathlib.Tactic.Linarith
import Mathlib.Data.List.Nodup

/-! helper lemmas for the command-line decision logic of C18 -/
namespace Pm.C18

theorem maskVox_pos (d : Nat) (shape : List Nat) (v : Vox) : (maskVox d shape v).pos = v.pos := by
  unfold maskVox; split <;> rfl

theorem maskVox_of_inWindow (d : Nat) (shape : List Nat) (v : Vox) (h : inWindow d shape v.pos = true) :
    maskVox d shape v = v := by
  unfold maskVox; simp [h]

theorem maskVox_zero (shape : List Nat) (v : Vox) : maskVox 0 shape v = v := by
  unfold maskVox; simp

theorem maskVox_score (d : Nat) (shape : List Nat) (v : Vox) :
    (maskVox d shape v).score = v.score ∨ (maskVox d shape v).score = 0 := by
  unfold maskVox; split
  · right; rfl
  · left; rfl

/-! ### the descending sort -/

theorem insertDesc_perm (v : Vox) : ∀ l : List Vox, (insertDesc v l).Perm (v :: l)
  | [] => List.Perm.refl _
  | w :: ws => by
    unfold insertDesc
    split
    · exact List.Perm.refl _
    · exact ((insertDesc_perm v ws).cons w).trans (List.Perm.swap v w ws)

theorem sortDesc_perm : ∀ l : List Vox, (sortDesc l).Perm l
  | [] => List.Perm.refl _
  | v :: vs => (insertDesc_perm v (sortDesc vs)).trans ((sortDesc_perm vs).cons v)

def Desc (l : List Vox) : Prop := l.Pairwise (fun a b => b.score ≤ a.score)

theorem insertDesc_desc (v : Vox) : ∀ l : List Vox, Desc l → Desc (insertDesc v l)
  | [], _ => by simp [insertDesc, Desc]
  | w :: ws, h => by
    unfold Desc at h ⊢
    rw [List.pairwise_cons] at h
    unfold insertDesc
    split
    · rename_i hlt
      rw [List.pairwise_cons]
      refine ⟨?_, List.pairwise_cons.mpr h⟩
      intro b hb
      rcases List.mem_cons.mp hb with rfl | hb
      · omega
      · have := h.1 b hb; omega
    · rename_i hge
      rw [List.pairwise_cons]
      refine ⟨?_, insertDesc_desc v ws h.2⟩
      intro b hb
      rcases List.mem_cons.mp ((insertDesc_perm v ws).subset hb) with rfl | hb
      · omega
      · exact h.1 b hb

theorem sortDesc_desc : ∀ l : List Vox, Desc (sortDesc l)
  | [] => by simp [sortDesc, Desc]
  | v :: vs => insertDesc_desc v _ (sortDesc_desc vs)

/-- in a descending list an element lies among the first `#{w : w.score ≥ c.score}` entries -/
theorem mem_take_count_of_desc (c : Vox) : ∀ l : List Vox, Desc l → c ∈ l →
    c ∈ l.take (l.filter (fun w => decide (c.score ≤ w.score))).length
  | [], _, h => by simp at h
  | a :: t, hd, h => by
    unfold Desc at hd
    rw [List.pairwise_cons] at hd
    rcases List.mem_cons.mp h with rfl | ht
    · simp
    · have ha : c.score ≤ a.score := hd.1 c ht
      have ih := mem_take_count_of_desc c t hd.2 ht
      simp only [List.filter_cons, ha, decide_true, if_true, List.length_cons, List.take_succ_cons]
      exact List.mem_cons_of_mem _ ih

theorem mem_take_mono {α} {c : α} : ∀ {l : List α} {m k : Nat}, m ≤ k → c ∈ l.take m → c ∈ l.take k
  | [], _, _, _, h => by simp at h
  | a :: t, 0, _, _, h => by simp at h
  | a :: t, m + 1, 0, hk, _ => by omega
  | a :: t, m + 1, k + 1, hk, h => by
    rw [List.take_succ_cons] at h ⊢
    rcases List.mem_cons.mp h with rfl | h
    · exact List.mem_cons_self
    · exact List.mem_cons_of_mem _ (mem_take_mono (by omega) h)

theorem filter_length_perm {p : Vox → Bool} {l₁ l₂ : List Vox} (h : l₁.Perm l₂) :
    (l₁.filter p).length = (l₂.filter p).length := (h.filter p).length_eq

/-- masking can only lower the number of voxels at or above a positive level -/
theorem filter_map_mask_le (d : Nat) (shape : List Nat) (s : Int) (hs : 0 < s) : ∀ vox : List Vox,
    ((vox.map (maskVox d shape)).filter (fun w => decide (s ≤ w.score))).length ≤
      (vox.filter (fun w => decide (s ≤ w.score))).length
  | [] => by simp
  | v :: vs => by
    have ih := filter_map_mask_le d shape s hs vs
    simp only [List.map_cons, List.filter_cons]
    rcases maskVox_score d shape v with h | h
    · rw [h]; split <;> simp <;> omega
    · rw [h]
      have : ¬ s ≤ 0 := by omega
      simp only [this, decide_false, Bool.false_eq_true, if_false]
      split <;> simp <;> omega

/-- `flatIdx` inverts `unflat` (own copy: the property files do not depend on each other's proof files) -/
theorem flatIdx_unflat : ∀ (shape : List Nat) (k : Nat), k < prodL shape → flatIdx shape (unflat shape k) = k
  | [], k, h => by
      simp only [prodL] at h
      simp only [flatIdx]; omega
  | s :: ss, k, h => by
      simp only [prodL] at h
      have hpos : 0 < prodL ss := by
        rcases Nat.eq_zero_or_pos (prodL ss) with h0 | h0
        · rw [h0] at h; simp at h
        · exact h0
      simp only [unflat, flatIdx]
      rw [flatIdx_unflat ss (k % prodL ss) (Nat.mod_lt _ hpos)]
      exact Nat.div_add_mod' k (prodL ss)

theorem allIdx_nodup (shape : List Nat) : (allIdx shape).Nodup := by
  unfold allIdx
  refine List.Nodup.map_on ?_ List.nodup_range
  intro x hx y hy h
  rw [List.mem_range] at hx hy
  rw [← flatIdx_unflat shape x hx, ← flatIdx_unflat shape y hy, h]

theorem map_pos_zipWith : ∀ (l1 : List (List Nat)) (l2 : List Int),
    (List.zipWith Vox.mk l1 l2).map Vox.pos = l1.take l2.length
  | [], _ => by simp
  | _ :: _, [] => by simp
  | a :: l1, b :: l2 => by simp [map_pos_zipWith l1 l2]

/-- every voxel position occurs once in the voxel list -/
theorem zipWith_vox_nodup (l1 : List (List Nat)) (l2 : List Int) (h : l1.Nodup) : (List.zipWith Vox.mk l1 l2).Nodup := by
  refine List.Nodup.of_map Vox.pos ?_
  rw [map_pos_zipWith]
  exact h.sublist (List.take_sublist _ _)

theorem length_le_one_of_nodup_all_eq {α} (a : α) : ∀ l : List α, l.Nodup → (∀ x ∈ l, x = a) → l.length ≤ 1
  | [], _, _ => by simp
  | [_], _, _ => by simp
  | x :: y :: t, hn, hall => by
    exfalso
    have hx := hall x List.mem_cons_self
    have hy := hall y (List.mem_cons_of_mem _ List.mem_cons_self)
    rw [List.nodup_cons] at hn
    exact hn.1 (by rw [hx, ← hy]; exact List.mem_cons_self)

end Pm.C18
