import PytmeModel.Model.C12
import PytmeModel.Proofs.Common
import Mathlib.Tactic.Ring
import Mathlib.Tactic.Linarith
import Mathlib.Algebra.Order.Field.Rat

/-! Helper lemmas for C12: per-axis frequency index arithmetic, the laws assumed of the scalar
operations, and the list plumbing that lifts per-axis facts to n-D masks. -/
namespace Pm.C12

/-! ## per-axis arithmetic -/

theorem freqIndex_eq (n j : Nat) (hj : j < n) :
    freqIndex n j = if j + n / 2 < n then (j : Int) else (j : Int) - n := by
  unfold freqIndex
  split
  · rename_i h; rw [Nat.mod_eq_of_lt h]; omega
  · rename_i h
    have h2 : (j + n / 2) % n = j + n / 2 - n := by
      rw [Nat.mod_eq_sub_mod (by omega)]; exact Nat.mod_eq_of_lt (by omega)
    rw [h2]; omega

theorem negPos_eq (n j : Nat) (hj : j < n) : negPos n j = if j = 0 then 0 else n - j := by
  unfold negPos
  split
  · rename_i h; subst h; simp
  · exact Nat.mod_eq_of_lt (by omega)

theorem negPos_lt (n j : Nat) (hj : j < n) : negPos n j < n := by
  unfold negPos; exact Nat.mod_lt _ (by omega)

theorem shiftSrc_lt (n j : Nat) (hn : 0 < n) : shiftSrc n j < n := by
  unfold shiftSrc rollSrc
  have h := Int.emod_lt_of_pos ((j : Int) - (shiftAmt n : Int)) (by omega : (0 : Int) < (n : Int))
  have h0 := Int.emod_nonneg ((j : Int) - (shiftAmt n : Int)) (by omega : (n : Int) ≠ 0)
  omega

private theorem emod_of (a r : Int) (n : Nat) (q : Int) (h : a = r + n * q) (h0 : 0 ≤ r) (h1 : r < n) :
    a % (n : Int) = r := by
  subst h; rw [Int.add_mul_emod_self_left]; exact Int.emod_eq_of_lt h0 h1

/-- the roll of `shift_fourier` places at `j` the centred position `j - ⌈n/2⌉ (mod n)` -/
theorem shiftSrc_eq (n j : Nat) (hj : j < n) :
    shiftSrc n j = if j + n / 2 < n then j + n / 2 else j + n / 2 - n := by
  unfold shiftSrc rollSrc shiftAmt
  split
  · rename_i h
    have : ((j : Int) - ((n / 2 + n % 2 : Nat) : Int)) % (n : Int) = ((j + n / 2 : Nat) : Int) :=
      emod_of _ _ n (-1) (by push_cast; omega) (by omega) (by omega)
    rw [this]; exact Int.toNat_natCast _
  · rename_i h
    have : ((j : Int) - ((n / 2 + n % 2 : Nat) : Int)) % (n : Int) = ((j + n / 2 - n : Nat) : Int) :=
      emod_of _ _ n 0 (by omega) (by omega) (by omega)
    rw [this]; exact Int.toNat_natCast _

/-- centred grid value found at DC-first position `j` = the signed frequency index -/
theorem k_shiftSrc (n j : Nat) (hj : j < n) :
    ((shiftSrc n j : Nat) : Int) - ((center n : Nat) : Int) = freqIndex n j := by
  rw [shiftSrc_eq n j hj, freqIndex_eq n j hj]; unfold center
  split <;> omega

/-! ## laws of the scalar operations -/

/-- sign symmetry of division and squaring (true of IEEE-754 arithmetic and of every field) -/
structure SignLaws {α : Type} (o : Ops α) : Prop where
  sq_neg : ∀ (k : Int) (d : α),
    o.mul (o.div (o.ofInt (-k)) d) (o.div (o.ofInt (-k)) d) = o.mul (o.div (o.ofInt k) d) (o.div (o.ofInt k) d)
  div_neg_neg : ∀ a b : Int, o.div (o.ofInt (-a)) (o.ofInt (-b)) = o.div (o.ofInt a) (o.ofInt b)

/-- what is needed at the zero frequency -/
structure ZeroLaws {α : Type} (o : Ops α) : Prop where
  zero_div : ∀ m : Nat, 0 < m → o.div (o.ofInt 0) (o.ofNat m) = o.zero
  mul_zero : o.mul o.zero o.zero = o.zero
  add_zero : o.add o.zero o.zero = o.zero
  sqrt_zero : o.sqrt o.zero = o.zero

theorem ratOps_signLaws : SignLaws ratOps where
  sq_neg := by
    intro k d
    show ((((-k : Int) : Rat)) / d) * ((((-k : Int) : Rat)) / d) = ((k : Rat) / d) * ((k : Rat) / d)
    push_cast; ring
  div_neg_neg := by
    intro a b
    show (((-a : Int) : Rat)) / (((-b : Int) : Rat)) = (a : Rat) / (b : Rat)
    push_cast; exact neg_div_neg_eq _ _

theorem ratOps_zeroLaws : ZeroLaws ratOps where
  zero_div := by
    intro m _
    show (((0 : Int) : Rat)) / ((m : Nat) : Rat) = 0
    simp
  mul_zero := by show (0 : Rat) * 0 = 0; simp
  add_zero := by show (0 : Rat) + 0 = 0; simp
  sqrt_zero := rfl

section
variable {α : Type} (o : Ops α)

theorem term_of_k (L : SignLaws o) (a a' : Ax) (i i' : Nat) (hn : a.norm = a'.norm)
    (hk : a.k i = a'.k i' ∨ a.k i = -(a'.k i')) : term o a i = term o a' i' := by
  unfold term
  rcases hk with h | h
  · simp only [h, hn]
  · simp only [h, hn]; exact L.sq_neg _ _

/-- squared grid value at DC-first position `j` of a shifted axis -/
theorem term_src (a : Ax) (j : Nat) (hj : j < a.n) (hrf : a.rf = false) :
    term o a (a.src j) =
      o.mul (o.div (o.ofInt (freqIndex a.n j)) (o.ofNat a.norm)) (o.div (o.ofInt (freqIndex a.n j)) (o.ofNat a.norm)) := by
  unfold term Ax.src Ax.k
  simp only [hrf, Bool.false_eq_true, if_false]
  rw [k_shiftSrc a.n j hj]

/-- negation keeps or flips the frequency index (the Nyquist term of an even axis is its own negative) -/
theorem freqIndex_negPos (n j : Nat) (hj : j < n) :
    freqIndex n (negPos n j) = freqIndex n j ∨ freqIndex n (negPos n j) = -(freqIndex n j) := by
  rw [freqIndex_eq n _ (negPos_lt n j hj), freqIndex_eq n j hj, negPos_eq n j hj]
  by_cases h0 : j = 0
  · subst h0; simp
  · simp only [h0, if_false]
    split <;> split <;> omega

/-- away from the Nyquist term the index is exactly negated -/
theorem freqIndex_negPos_exact (n j : Nat) (hj : j < n) (hny : 2 * j ≠ n) :
    freqIndex n (negPos n j) = -(freqIndex n j) := by
  rw [freqIndex_eq n _ (negPos_lt n j hj), freqIndex_eq n j hj, negPos_eq n j hj]
  by_cases h0 : j = 0
  · subst h0; simp only [if_true]; split <;> omega
  · simp only [h0, if_false]
    split <;> split <;> omega

theorem term_src_neg (L : SignLaws o) (a : Ax) (j : Nat) (hj : j < a.n) (hrf : a.rf = false) :
    term o a (a.src (negPos a.n j)) = term o a (a.src j) := by
  rw [term_src o a _ (negPos_lt _ _ hj) hrf, term_src o a j hj hrf]
  rcases freqIndex_negPos a.n j hj with h | h
  · rw [h]
  · rw [h]; exact L.sq_neg _ _

/-! ## lifting to index lists -/

theorem inShape_srcIdx : ∀ (axs : List Ax) (idx : List Nat),
    inShape (axs.map Ax.n) idx = true → inShape (axs.map Ax.n) (srcIdx axs idx) = true
  | [], [], _ => rfl
  | [], _ :: _, h => by simp [inShape] at h
  | _ :: _, [], h => by simp [inShape] at h
  | a :: as, i :: is, h => by
      simp only [List.map_cons, inShape_cons] at h
      simp only [srcIdx, List.zipWith_cons_cons, List.map_cons, inShape_cons]
      refine ⟨?_, inShape_srcIdx as is h.2⟩
      unfold Ax.src
      split
      · exact h.1
      · exact shiftSrc_lt _ _ (by omega)

theorem inShape_negIdx : ∀ (axs : List Ax) (flags : List Bool) (idx : List Nat),
    inShape (axs.map Ax.n) idx = true → flagsOk axs flags = true →
    inShape (axs.map Ax.n) (negIdx flags (axs.map Ax.n) idx) = true
  | [], [], [], _, _ => rfl
  | [], _, _ :: _, h, _ => by simp [inShape] at h
  | [], _ :: _, [], _, h => by simp [flagsOk] at h
  | _ :: _, _, [], h, _ => by simp [inShape] at h
  | _ :: _, [], _ :: _, _, h => by simp [flagsOk] at h
  | a :: as, f :: fs, i :: is, h, hf => by
      simp only [List.map_cons, inShape_cons] at h
      simp only [flagsOk, Bool.and_eq_true] at hf
      simp only [List.map_cons, negIdx, inShape_cons]
      refine ⟨?_, inShape_negIdx as fs is h.2 hf.2⟩
      split
      · exact negPos_lt _ _ h.1
      · exact h.1

theorem terms_neg (L : SignLaws o) : ∀ (axs : List Ax) (flags : List Bool) (idx : List Nat),
    inShape (axs.map Ax.n) idx = true → flagsOk axs flags = true →
    List.zipWith (term o) axs (srcIdx axs (negIdx flags (axs.map Ax.n) idx))
      = List.zipWith (term o) axs (srcIdx axs idx)
  | [], [], [], _, _ => rfl
  | [], _, _ :: _, h, _ => by simp [inShape] at h
  | [], _ :: _, [], _, h => by simp [flagsOk] at h
  | _ :: _, _, [], h, _ => by simp [inShape] at h
  | _ :: _, [], _ :: _, _, h => by simp [flagsOk] at h
  | a :: as, f :: fs, i :: is, h, hf => by
      simp only [List.map_cons, inShape_cons] at h
      simp only [flagsOk, Bool.and_eq_true] at hf
      simp only [List.map_cons, negIdx, srcIdx, List.zipWith_cons_cons]
      have ih := terms_neg L as fs is h.2 hf.2
      simp only [srcIdx] at ih
      rw [ih]
      congr 1
      cases f with
      | false => rfl
      | true =>
        have hrf : a.rf = false := by
          cases hr : a.rf with
          | false => rfl
          | true => simp [hr] at hf
        simp only [if_true]
        exact term_src_neg o L a i h.1 hrf

theorem radial_neg (L : SignLaws o) (axs : List Ax) (flags : List Bool) (idx : List Nat)
    (h : inShape (axs.map Ax.n) idx = true) (hf : flagsOk axs flags = true) :
    radial o axs (srcIdx axs (negIdx flags (axs.map Ax.n) idx)) = radial o axs (srcIdx axs idx) := by
  unfold radial radial2; rw [terms_neg o L axs flags idx h hf]

theorem axesHalf_n : ∀ (shape : List Nat) (rf : Bool), (axesHalf shape rf).map Ax.n = shape
  | [], _ => rfl
  | n :: ns, rf => by
      simp only [axesHalf, List.map_cons, axesHalf_n ns rf]
      split <;> rfl

theorem axesOne_n (shape : List Nat) : (axesOne shape).map Ax.n = shape := by
  unfold axesOne; induction shape with
  | nil => rfl
  | cons n ns ih => simp only [List.map_cons, ih]

/-- reading a shifted array: the value of the centred array at the source position -/
theorem shiftFourier_getD (m : Arr α) (axs : List Ax) (d d' : α) (idx : List Nat)
    (h : inShape m.shape idx = true) :
    (shiftFourier m axs d).getD idx d' = m.getD (srcIdx axs idx) d := by
  unfold shiftFourier
  rw [Arr.getD_ofFn _ _ _ _ h]

end

end Pm.C12
