import PytmeModel.Model.C06
import PytmeModel.Proofs.C06
import PytmeModel.Proofs.C06Linear
import PytmeModel.Proofs.C06LinearMoment
import Mathlib.Tactic.IntervalCases
import Mathlib.Algebra.Field.Rat
import Mathlib.Tactic.NormNum
import Mathlib.Tactic.FinCases

/-! Concrete instances used by the non-vacuity examples of `Props/C06.lean` (kept out of the property file so
that they are not counted as property theorems). -/
namespace Pm.C06

/-! ## non-vacuity: concrete instances satisfying the hypotheses -/

/-- a 3-D grid rotation exchanging axes 0 and 2: `(x, y, z) ↦ (z, y, −x)`, on shape `(5, 6, 5)` -/
def exR3 : Mat 3 Int := matOfRows 3 [[0, 0, 1], [0, 1, 0], [-1, 0, 0]]
def exR3inv : Mat 3 Int := matOfRows 3 [[0, 0, -1], [0, 1, 0], [1, 0, 0]]
def exQ3 : Fin 3 → Fin 3 := fun i => ⟨2 - i.val, by omega⟩
def exS3 : Fin 3 → Int := fun i => if i.val = 0 then 1 else if i.val = 1 then 1 else -1
def exS3inv : Fin 3 → Int := fun i => if i.val = 0 then -1 else 1
def exN3 : Fin 3 → Nat := fun i => if i.val = 1 then 6 else 5
def exF3 : Vec 3 Int → Int := fun x => 100 * x 0 + 10 * x 1 + x 2 + 1
def exX3 : Vec 3 Int := vecOfList 3 [1, 5, 4]

theorem exR3_signed : IsSignedPerm exR3 exQ3 exS3 := by
  constructor
  · intro i; fin_cases i <;> simp [exS3]
  · intro i j; fin_cases i <;> fin_cases j <;> rfl
theorem exR3inv_signed : IsSignedPerm exR3inv exQ3 exS3inv := by
  constructor
  · intro i; fin_cases i <;> simp [exS3inv]
  · intro i j; fin_cases i <;> fin_cases j <;> rfl
theorem exR3_inv : matMul exR3inv exR3 = ident 3 := by funext i j; fin_cases i <;> fin_cases j <;> rfl
theorem exR3_inv' : matMul exR3 exR3inv = ident 3 := by funext i j; fin_cases i <;> fin_cases j <;> rfl
theorem exN3_inv : ∀ i, exN3 (exQ3 i) = exN3 i := by intro i; fin_cases i <;> rfl

/-- a rational rotation (3-4-5), translation and centre for the matrix / coordinate theorems -/
def exRq : Mat 2 Rat := matOfRows 2 [[3/5, -4/5], [4/5, 3/5]]
def exRqinv : Mat 2 Rat := matOfRows 2 [[3/5, 4/5], [-4/5, 3/5]]
def exT : Vec 2 Rat := vecOfList 2 [1/2, -3]
def exC : Vec 2 Rat := vecOfList 2 [5/2, 3]
def exPts : Fin 3 → Vec 2 Rat := fun k => vecOfList 2 ([[0, 0], [4, 0], [2, 9]].getD k.val [])
theorem exRq_orth : matMul (transpose exRq) exRq = ident 2 := by funext i j; fin_cases i <;> fin_cases j <;> decide +kernel
theorem exRq_inv : matMul exRqinv exRq = ident 2 := by funext i j; fin_cases i <;> fin_cases j <;> decide +kernel
theorem exRq_inv' : matMul exRq exRqinv = ident 2 := by funext i j; fin_cases i <;> fin_cases j <;> decide +kernel


/-! ## order-1 interpolation -/

/-- a 4 × 5 array with a one-voxel zero border, a sub-voxel translation `(1/2, −3/4)`, some centre -/
def exA2 : Arr Rat := ⟨[4, 5], #[0,0,0,0,0, 0,3,5,0,0, 0,2,7,0,0, 0,0,0,0,0]⟩
def exT2 : Vec 2 Rat := vecOfList 2 [1/2, -3/4]
def exC2 : Vec 2 Rat := vecOfList 2 [3/2, 2]

instance (n : Nat) (t : Rat) (x : Int) : Decidable (SuppOK n t x) := by unfold SuppOK; infer_instance

/-- every non-zero voxel of `exA2`, shifted by `exT2`, stays inside -/
theorem exA2_supp : ∀ idx, inShape exA2.shape idx = true → exA2.getD idx 0 ≠ 0 →
    ∀ i : Fin 2, SuppOK (exA2.shape.getD i.val 0) (exT2 i) ((idx.getD i.val 0 : Nat) : Int) := by
  intro idx h
  match idx, h with
  | [i, j], h =>
    have h' : i < 4 ∧ j < 5 := by simpa [exA2, inShape] using h
    obtain ⟨hi, hj⟩ := h'
    interval_cases i <;> interval_cases j <;> decide +kernel
  | [], h => simp [exA2, inShape] at h
  | [_], h => simp [exA2, inShape] at h
  | _ :: _ :: _ :: _, h => simp [exA2, inShape] at h

/-- the values of `exA2` lie in `[0, 7]` -/
theorem exA2_range : ∀ idx, inShape exA2.shape idx = true → (0 : Rat) ≤ exA2.getD idx 0 ∧ exA2.getD idx 0 ≤ 7 := by
  intro idx h
  match idx, h with
  | [i, j], h =>
    have h' : i < 4 ∧ j < 5 := by simpa [exA2, inShape] using h
    obtain ⟨hi, hj⟩ := h'
    interval_cases i <;> interval_cases j <;> decide +kernel
  | [], h => simp [exA2, inShape] at h
  | [_], h => simp [exA2, inShape] at h
  | _ :: _ :: _ :: _, h => simp [exA2, inShape] at h

/-- the affine ramp `2 + 3x − y/2` on 3 × 4 voxels, and a constant array -/
def exRamp : Arr Rat := Arr.ofFn [3, 4] (fun idx => 2 + 3 * ((idx.getD 0 0 : Nat) : Rat) + (-1/2) * ((idx.getD 1 0 : Nat) : Rat))
def exConst : Arr Rat := Arr.ofFn [3, 4] (fun _ => 5)

theorem exRamp_affine : ∀ idx, inShape exRamp.shape idx = true →
    exRamp.getD idx 0 = 2 + dotL [3, -1/2] (ratIdx idx) := by
  intro idx h
  have h0 : inShape [3, 4] idx = true := h
  rw [exRamp, Arr.getD_ofFn _ _ _ _ h0]
  match idx, h0 with
  | [i, j], _ => simp [ratIdx, dotL]; ring
  | [], h => simp [inShape] at h
  | [_], h => simp [inShape] at h
  | _ :: _ :: _ :: _, h => simp [inShape] at h

theorem exConst_const : ∀ idx, inShape exConst.shape idx = true → exConst.getD idx 0 = 5 := by
  intro idx h
  have h0 : inShape [3, 4] idx = true := h
  rw [exConst, Arr.getD_ofFn _ _ _ _ h0]

/-- a position inside the 3 × 4 arrays, off the grid on both axes -/
theorem exInside : InsideL [(1/2 : Rat), 9/4] [3, 4] :=
  (insideL_iff _ _).2 ⟨rfl, by decide +kernel⟩


end Pm.C06
