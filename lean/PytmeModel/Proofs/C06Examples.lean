import PytmeModel.Model.C06
import PytmeModel.Proofs.C06
import Mathlib.Algebra.Field.Rat
import Mathlib.Tactic.NormNum
import Mathlib.Tactic.FinCases

/-! Concrete instances used by the non-vacuity examples of `Props/C06.lean` (kept out of the property file so
that they are not counted as property theorems). -/
namespace Pm.C06

/-! ## non-vacuity: concrete instances satisfying the hypotheses -/

/-- a 3-D grid rotation exchanging axes 0 and 2: `(x, y, z) ↦ (z, y, −x)`, on shape `(5, 6, 5)` -/
def exR3 : Mat 3 Int := matOfRows 3 [[0, 0, 1], [0, 1, 0], [-1, 0, 0]]
def exR3inv : Mat 3 Int := matOfRows 3 [[0, 0, -1], [0, 1, 0], [1, 0, 0]]
def exQ3 : Fin 3 → Fin 3 := fun i => ⟨2 - i.val, by omega⟩
def exS3 : Fin 3 → Int := fun i => if i.val = 0 then 1 else if i.val = 1 then 1 else -1
def exS3inv : Fin 3 → Int := fun i => if i.val = 0 then -1 else 1
def exN3 : Fin 3 → Nat := fun i => if i.val = 1 then 6 else 5
def exF3 : Vec 3 Int → Int := fun x => 100 * x 0 + 10 * x 1 + x 2 + 1
def exX3 : Vec 3 Int := vecOfList 3 [1, 5, 4]

theorem exR3_signed : IsSignedPerm exR3 exQ3 exS3 := by
  constructor
  · intro i; fin_cases i <;> simp [exS3]
  · intro i j; fin_cases i <;> fin_cases j <;> rfl
theorem exR3inv_signed : IsSignedPerm exR3inv exQ3 exS3inv := by
  constructor
  · intro i; fin_cases i <;> simp [exS3inv]
  · intro i j; fin_cases i <;> fin_cases j <;> rfl
theorem exR3_inv : matMul exR3inv exR3 = ident 3 := by funext i j; fin_cases i <;> fin_cases j <;> rfl
theorem exR3_inv' : matMul exR3 exR3inv = ident 3 := by funext i j; fin_cases i <;> fin_cases j <;> rfl
theorem exN3_inv : ∀ i, exN3 (exQ3 i) = exN3 i := by intro i; fin_cases i <;> rfl

/-- a rational rotation (3-4-5), translation and centre for the matrix / coordinate theorems -/
def exRq : Mat 2 Rat := matOfRows 2 [[3/5, -4/5], [4/5, 3/5]]
def exRqinv : Mat 2 Rat := matOfRows 2 [[3/5, 4/5], [-4/5, 3/5]]
def exT : Vec 2 Rat := vecOfList 2 [1/2, -3]
def exC : Vec 2 Rat := vecOfList 2 [5/2, 3]
def exPts : Fin 3 → Vec 2 Rat := fun k => vecOfList 2 ([[0, 0], [4, 0], [2, 9]].getD k.val [])
theorem exRq_orth : matMul (transpose exRq) exRq = ident 2 := by funext i j; fin_cases i <;> fin_cases j <;> decide +kernel
theorem exRq_inv : matMul exRqinv exRq = ident 2 := by funext i j; fin_cases i <;> fin_cases j <;> decide +kernel
theorem exRq_inv' : matMul exRq exRqinv = ident 2 := by funext i j; fin_cases i <;> fin_cases j <;> decide +kernel


end Pm.C06
