import PytmeModel.Proofs.DftConv
import Mathlib.Algebra.Ring.GeomSum
import Mathlib.Algebra.Field.Basic
import Mathlib.Tactic.Ring
import Mathlib.Tactic.Linarith
import Mathlib.Tactic.FieldSimp

/-! Fourier inversion on `ℤ/N` over a field that contains a primitive `N`-th root of unity and in which `N` is
invertible (ℂ with `ω = exp(-2πi/N)`): the transform is injective, so "the array whose transform is the product of the
transforms" is *the* circular convolution. -/
open Finset
namespace Pm.C01

variable {K : Type} [Field K]

/-- `ω` is a primitive `N`-th root of unity (stated without Mathlib's bundled notion) -/
structure PrimRoot (N : Nat) (ω : K) : Prop where
  pow_N : ω ^ N = 1
  ne_one : ∀ l, 0 < l → l < N → ω ^ l ≠ 1

theorem geom_sum_root (ζ : K) (N : Nat) (h1 : ζ ^ N = 1) (hne : ζ ≠ 1) : ∑ k ∈ range N, ζ ^ k = 0 := by
  have h := geom_sum_mul ζ N
  rw [h1, sub_self] at h
  rcases mul_eq_zero.mp h with h | h
  · exact h
  · exact absurd (sub_eq_zero.mp h) hne

/-- orthogonality of the characters of `ℤ/N` -/
theorem char_orth (N : Nat) (ω : K) (hp : PrimRoot N ω) (i j : Nat) (hi : i < N) (hj : j < N) :
    ∑ k ∈ range N, ω ^ (i * k) * ω ^ ((N - j) * k) = if i = j then (N : K) else 0 := by
  have e : ∀ k, ω ^ (i * k) * ω ^ ((N - j) * k) = (ω ^ (i + (N - j))) ^ k := by
    intro k; rw [← pow_add, ← pow_mul]; congr 1; ring
  simp only [e]
  split
  · rename_i h
    subst h
    have : ω ^ (i + (N - i)) = 1 := by
      have : i + (N - i) = N := by omega
      rw [this, hp.pow_N]
    simp [this]
  · rename_i h
    apply geom_sum_root
    · rw [← pow_mul, mul_comm, pow_mul, hp.pow_N, one_pow]
    · rw [← pow_mod_of_pow_eq_one ω N hp.pow_N]
      apply hp.ne_one
      · by_contra h0
        have h0' : (i + (N - j)) % N = 0 := by omega
        have : N ∣ i + (N - j) := Nat.dvd_of_mod_eq_zero h0'
        obtain ⟨c, hc⟩ := this
        have hc1 : c = 1 := by
          have h1 : 0 < c := by
            rcases Nat.eq_zero_or_pos c with h | h
            · subst h; omega
            · exact h
          have h2 : c < 2 := by
            by_contra h3
            have : 2 ≤ c := by omega
            have : N * 2 ≤ N * c := Nat.mul_le_mul_left N this
            omega
          omega
        subst hc1
        omega
      · exact Nat.mod_lt _ (by omega)

/-- **Fourier inversion** (un-normalised): `Σ_k â(k) ω^{-jk} = N · a(j)` for `j < N` -/
theorem idft_dft (N : Nat) (ω : K) (hp : PrimRoot N ω) (a : Nat → K) (j : Nat) (hj : j < N) :
    ∑ k ∈ range N, dftN N ω a k * ω ^ ((N - j) * k) = (N : K) * a j := by
  unfold dftN
  calc ∑ k ∈ range N, (∑ i ∈ range N, a i * ω ^ (i * k)) * ω ^ ((N - j) * k)
      = ∑ k ∈ range N, ∑ i ∈ range N, a i * (ω ^ (i * k) * ω ^ ((N - j) * k)) := by
        apply Finset.sum_congr rfl; intro k _; rw [Finset.sum_mul]
        apply Finset.sum_congr rfl; intro i _; ring
    _ = ∑ i ∈ range N, ∑ k ∈ range N, a i * (ω ^ (i * k) * ω ^ ((N - j) * k)) := Finset.sum_comm
    _ = ∑ i ∈ range N, a i * (if i = j then (N : K) else 0) := by
        apply Finset.sum_congr rfl; intro i hi
        rw [← Finset.mul_sum, char_orth N ω hp i j (mem_range.mp hi) hj]
    _ = (N : K) * a j := by
        rw [Finset.sum_eq_single j]
        · simp; ring
        · intro i _ hij; simp [hij]
        · intro h; exact absurd (mem_range.mpr hj) h

/-- the transform is injective on sequences of length `N` -/
theorem dftN_injective (N : Nat) (ω : K) (hp : PrimRoot N ω) (hN : (N : K) ≠ 0) (a b : Nat → K)
    (h : ∀ k, k < N → dftN N ω a k = dftN N ω b k) (j : Nat) (hj : j < N) : a j = b j := by
  have ha := idft_dft N ω hp a j hj
  have hb := idft_dft N ω hp b j hj
  have : ∑ k ∈ range N, dftN N ω a k * ω ^ ((N - j) * k) = ∑ k ∈ range N, dftN N ω b k * ω ^ ((N - j) * k) := by
    apply Finset.sum_congr rfl; intro k hk; rw [h k (mem_range.mp hk)]
  rw [ha, hb] at this
  exact mul_left_cancel₀ hN this

/-! ### n dimensions -/

/-- every axis has a primitive root of its own length and an invertible length -/
def RootsPrim : List Nat → List K → Prop
  | [], _ => True
  | N :: Ns, ωs => PrimRoot N (ωs.headD 1) ∧ ((N : K) ≠ 0) ∧ RootsPrim Ns ωs.tail

theorem RootsPrim.rootsOk : ∀ (Ns : List Nat) (ωs : List K), RootsPrim Ns ωs → RootsOk Ns ωs
  | [], _, _ => trivial
  | _ :: Ns, ωs, h => ⟨h.1.pow_N, RootsPrim.rootsOk Ns ωs.tail h.2.2⟩

/-- the separable n-D transform is injective on fields over the box -/
theorem dftS_injective : ∀ (Ns : List Nat) (ωs : List K) (_ : RootsPrim Ns ωs) (F G : List Int → K),
    (∀ ks, inShape Ns ks = true → dftS Ns ωs F ks = dftS Ns ωs G ks) →
    ∀ idx, inShape Ns idx = true → F (natsToInts idx) = G (natsToInts idx)
  | [], _, _, F, G, h, idx, hidx => by
    cases idx with
    | nil => simpa [dftS, natsToInts] using h [] rfl
    | cons _ _ => simp [inShape] at hidx
  | N :: Ns, ωs, hp, F, G, h, idx, hidx => by
    cases idx with
    | nil => simp [inShape] at hidx
    | cons i is =>
      simp only [inShape, Bool.and_eq_true, decide_eq_true_eq] at hidx
      obtain ⟨hi, his⟩ := hidx
      obtain ⟨hp0, hN, hpt⟩ := hp
      -- for every frequency tail, the 1-D transforms along the first axis agree, hence the slices' transforms agree
      have hslice : ∀ ks', inShape Ns ks' = true →
          dftS Ns ωs.tail (fun x => F ((i : Int) :: x)) ks' = dftS Ns ωs.tail (fun x => G ((i : Int) :: x)) ks' := by
        intro ks' hks'
        apply dftN_injective N (ωs.headD 1) hp0 hN
          (fun j => dftS Ns ωs.tail (fun x => F ((j : Int) :: x)) ks')
          (fun j => dftS Ns ωs.tail (fun x => G ((j : Int) :: x)) ks') _ i hi
        intro k hk
        have := h (k :: ks') (by simp [inShape, hk, hks'])
        simpa [dftS] using this
      have := dftS_injective Ns ωs.tail hpt (fun x => F ((i : Int) :: x)) (fun x => G ((i : Int) :: x)) hslice is his
      simpa [natsToInts] using this

/-- **`circ` is the only field whose transform is the product of the transforms.**  If an array `X` on the box `Ns`
has, at every frequency, the separable DFT `â·b̂` — which is what `irfftn(rfftn(a)·rfftn(b))` returns when the FFT
library computes the transform and its inverse — then `X` *is* the model's circular convolution at every voxel. -/
theorem circ_unique_nd (Ns : List Nat) (ωs : List K) (hp : RootsPrim Ns ωs) (a b X : List Int → K)
    (hX : ∀ ks, inShape Ns ks = true → dftS Ns ωs X ks = dftS Ns ωs a ks * dftS Ns ωs b ks)
    (u : List Nat) (hu : inShape Ns u = true) : X (natsToInts u) = circ Ns a b (natsToInts u) := by
  apply dftS_injective Ns ωs hp X (fun v => circ Ns a b v) _ u hu
  intro ks hks
  rw [hX ks hks, dftS_circ Ns ωs (RootsPrim.rootsOk Ns ωs hp) a b ks]

end Pm.C01
