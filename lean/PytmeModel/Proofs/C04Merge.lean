import PytmeModel.Proofs.C04Run

/-! Merging partial results (C04): boxes, the new table, the lookup table, the fold over stores. -/
namespace Pm.C04
set_option linter.unusedSectionVars false

/-! ## per-axis domination of shapes -/

/-- same rank and `a[i] ≤ b[i]` on every axis -/
def leL : List Nat → List Nat → Prop
  | [], [] => True
  | a :: as, b :: bs => a ≤ b ∧ leL as bs
  | _, _ => False

theorem leL_refl : ∀ a : List Nat, leL a a
  | [] => trivial
  | _ :: as => ⟨Nat.le_refl _, leL_refl as⟩

theorem leL_trans : ∀ {a b c : List Nat}, leL a b → leL b c → leL a c
  | [], [], [], _, _ => trivial
  | _ :: _, _ :: _, _ :: _, h1, h2 => ⟨Nat.le_trans h1.1 h2.1, leL_trans h1.2 h2.2⟩
  | [], [], _ :: _, _, h2 => by simp [leL] at h2
  | [], _ :: _, _, h1, _ => by simp [leL] at h1
  | _ :: _, [], _, h1, _ => by simp [leL] at h1
  | _ :: _, _ :: _, [], _, h2 => by simp [leL] at h2

theorem leL_length : ∀ {a b : List Nat}, leL a b → a.length = b.length
  | [], [], _ => rfl
  | _ :: _, _ :: _, h => by simp [leL_length h.2]
  | [], _ :: _, h => by simp [leL] at h
  | _ :: _, [], h => by simp [leL] at h

theorem leL_zipWith_max_left : ∀ {a b : List Nat}, a.length = b.length → leL a (List.zipWith max a b)
  | [], [], _ => trivial
  | x :: as, y :: bs, h => by
      simp only [List.zipWith_cons_cons, leL]
      exact ⟨by omega, leL_zipWith_max_left (by simpa using h)⟩
  | [], _ :: _, h => by simp at h
  | _ :: _, [], h => by simp at h

theorem leL_zipWith_max_right : ∀ {a b : List Nat}, a.length = b.length → leL b (List.zipWith max a b)
  | [], [], _ => trivial
  | x :: as, y :: bs, h => by
      simp only [List.zipWith_cons_cons, leL]
      exact ⟨by omega, leL_zipWith_max_right (by simpa using h)⟩
  | [], _ :: _, h => by simp at h
  | _ :: _, [], h => by simp at h

/-- a voxel covered by the box `[off, off+sh)` lies inside every shape that dominates `off+sh` -/
theorem localIdx_inShape_of_le : ∀ {off sh p q out : List Nat}, localIdx off sh p = some q →
    leL (List.zipWith (· + ·) off sh) out → inShape out p = true
  | [], [], [], _, [], _, _ => rfl
  | [], [], [], _, _ :: _, _, hle => by simp [leL] at hle
  | [], [], _ :: _, _, _, h, _ => by simp [localIdx] at h
  | [], _ :: _, _, _, _, h, _ => by simp [localIdx] at h
  | _ :: _, [], _, _, _, h, _ => by simp [localIdx] at h
  | _ :: _, _ :: _, [], _, _, h, _ => by simp [localIdx] at h
  | _ :: _, _ :: _, _ :: _, _, [], _, hle => by simp [leL] at hle
  | o :: os, s :: ss, x :: xs, q, b :: bs, h, hle => by
      simp only [localIdx] at h
      split at h
      · rename_i hx
        cases h' : localIdx os ss xs with
        | none => simp [h'] at h
        | some q' =>
          simp only [List.zipWith_cons_cons, leL] at hle
          simp only [inShape_cons]
          exact ⟨by omega, localIdx_inShape_of_le h' hle.2⟩
      · cases h

variable {K : Type} [DecidableEq K]

/-- the box of a store: per-axis `offset + extent` -/
def boxEnd (S : Store K) : List Nat := List.zipWith (· + ·) S.offset S.scores.shape

/-- every store has rank `d` (offset and array) -/
def SameDim (d : Nat) (ss : List (Store K)) : Prop :=
  ∀ S ∈ ss, S.offset.length = d ∧ S.scores.shape.length = d

theorem boxEnd_length {d : Nat} {S : Store K} (h : S.offset.length = d ∧ S.scores.shape.length = d) :
    (boxEnd S).length = d := by
  simp [boxEnd, h.1, h.2]

theorem growFold_spec (d : Nat) : ∀ (ss : List (Store K)) (acc : List Nat), acc.length = d → SameDim d ss →
    let r := ss.foldl (fun acc S => growShape acc S.offset S.scores.shape) acc
    r.length = d ∧ leL acc r ∧ ∀ S ∈ ss, leL (boxEnd S) r := by
  intro ss
  induction ss with
  | nil => intro acc h _; exact ⟨h, leL_refl _, by simp⟩
  | cons S ss ih =>
    intro acc hacc hd
    have hS := hd S List.mem_cons_self
    have hb := boxEnd_length hS
    have hlen : (growShape acc S.offset S.scores.shape).length = d := by
      simp [growShape, hacc, hS.1, hS.2]
    have hd' : SameDim d ss := fun T hT => hd T (List.mem_cons_of_mem _ hT)
    obtain ⟨r1, r2, r3⟩ := ih (growShape acc S.offset S.scores.shape) hlen hd'
    have e : acc.length = (boxEnd S).length := by rw [hacc, hb]
    refine ⟨r1, ?_, ?_⟩
    · exact leL_trans (leL_zipWith_max_left e) r2
    · intro T hT
      rcases List.mem_cons.mp hT with rfl | hT
      · exact leL_trans (leL_zipWith_max_right e) r2
      · exact r3 T hT

/-- the merged volume contains the box of every store -/
theorem boxEnd_le_outShape {d : Nat} {ss : List (Store K)} (hd : SameDim d ss) {S : Store K} (hS : S ∈ ss) :
    leL (boxEnd S) (outShape ss) := by
  cases ss with
  | nil => cases hS
  | cons T ts =>
    have hT := hd T List.mem_cons_self
    have := growFold_spec d (T :: ts) (List.replicate T.scores.shape.length 0) (by simp [hT.2]) hd
    exact this.2.2 S hS

theorem outShape_length {d : Nat} {ss : List (Store K)} (hd : SameDim d ss) (hne : ss ≠ []) :
    (outShape ss).length = d := by
  cases ss with
  | nil => exact absurd rfl hne
  | cons T ts =>
    have hT := hd T List.mem_cons_self
    exact (growFold_spec d (T :: ts) (List.replicate T.scores.shape.length 0) (by simp [hT.2]) hd).1

/-! ## the merged table -/

theorem lookup_isSome_iff (k : K) (t : Table K) : (lookup k t).isSome ↔ k ∈ t.map Prod.fst := by
  have := lookup_eq_none_iff k t
  cases h : lookup k t with
  | none => simp [h] at this ⊢; exact this
  | some i =>
    simp [h] at this ⊢
    obtain ⟨x, hx⟩ := this
    exact ⟨x, hx⟩

theorem addKeys_spec : ∀ (src t : Table K), TableOK t →
    TableOK (addKeys t src) ∧
    (∀ k i, lookup k t = some i → lookup k (addKeys t src) = some i) ∧
    (∀ k, (lookup k (addKeys t src)).isSome ↔ ((lookup k t).isSome ∨ k ∈ src.map Prod.fst)) := by
  intro src
  induction src with
  | nil => intro t ok; simp [addKeys, ok]
  | cons kv src ih =>
    intro t ok
    obtain ⟨_, hold, hkeys⟩ := setdefault_spec t kv.1
    obtain ⟨a, b, c⟩ := ih (addKey t kv.1) (setdefault_ok ok kv.1)
    refine ⟨a, ?_, ?_⟩
    · intro k i h; exact b k i (hold k i h)
    · intro k
      have := c k
      simp only [addKeys, List.foldl_cons] at this ⊢
      rw [this]
      simp only [addKey]
      rw [hkeys k]
      simp only [List.map_cons, List.mem_cons]
      constructor
      · rintro ((h | h) | h)
        · exact Or.inl h
        · exact Or.inr (Or.inl h)
        · exact Or.inr (Or.inr h)
      · rintro (h | h | h)
        · exact Or.inl (Or.inl h)
        · exact Or.inl (Or.inr h)
        · exact Or.inr h

theorem newTableFold_spec : ∀ (ss : List (Store K)) (t : Table K), TableOK t →
    let r := ss.foldl (fun t S => addKeys t S.table) t
    TableOK r ∧ (∀ k i, lookup k t = some i → lookup k r = some i) ∧
    (∀ k, (lookup k r).isSome ↔ ((lookup k t).isSome ∨ ∃ S ∈ ss, (lookup k S.table).isSome)) := by
  intro ss
  induction ss with
  | nil => intro t ok; simp [ok]
  | cons S ss ih =>
    intro t ok
    obtain ⟨a, b, c⟩ := addKeys_spec S.table t ok
    obtain ⟨a', b', c'⟩ := ih (addKeys t S.table) a
    refine ⟨a', fun k i h => b' k i (b k i h), ?_⟩
    intro k
    have := c' k
    simp only [List.foldl_cons] at this ⊢
    rw [this, c k, ← lookup_isSome_iff]
    constructor
    · rintro ((h | h) | ⟨T, hT, h⟩)
      · exact Or.inl h
      · exact Or.inr ⟨S, List.mem_cons_self, h⟩
      · exact Or.inr ⟨T, List.mem_cons_of_mem _ hT, h⟩
    · rintro (h | ⟨T, hT, h⟩)
      · exact Or.inl (Or.inl h)
      · rcases List.mem_cons.mp hT with rfl | hT
        · exact Or.inl (Or.inr h)
        · exact Or.inr ⟨T, hT, h⟩

theorem newTable_ok (ss : List (Store K)) : TableOK (newTable ss) :=
  (newTableFold_spec ss [] tableOK_nil).1

theorem newTable_keys (ss : List (Store K)) (k : K) :
    (lookup k (newTable ss)).isSome ↔ ∃ S ∈ ss, (lookup k S.table).isSome := by
  have := (newTableFold_spec ss [] tableOK_nil).2.2 k
  simpa [newTable, lookup] using this

/-! ## `lookup_table` -/

theorem foldl_set_length (f : K → Int) : ∀ (t : Table K) (l : List Int),
    (t.foldl (fun l kv => l.set kv.2 (f kv.1)) l).length = l.length := by
  intro t
  induction t with
  | nil => intro l; rfl
  | cons kv t ih => intro l; simp [ih]

theorem foldl_set_notin (f : K → Int) (d : Int) (i : Nat) : ∀ (t : Table K) (l : List Int),
    i ∉ t.map Prod.snd → (t.foldl (fun l kv => l.set kv.2 (f kv.1)) l).getD i d = l.getD i d := by
  intro t
  induction t with
  | nil => intro l _; rfl
  | cons kv t ih =>
    intro l h
    simp only [List.map_cons, List.mem_cons, not_or] at h
    simp only [List.foldl_cons]
    rw [ih _ h.2]
    simp only [List.getD_eq_getElem?_getD]
    rw [List.getElem?_set_ne (fun e => h.1 e.symm)]

theorem foldl_set_mem (f : K → Int) (d : Int) : ∀ (t : Table K) (l : List Int) (k : K) (i : Nat),
    (t.map Prod.snd).Nodup → (k, i) ∈ t → i < l.length →
    (t.foldl (fun l kv => l.set kv.2 (f kv.1)) l).getD i d = f k := by
  intro t
  induction t with
  | nil => intro l k i _ h; cases h
  | cons kv t ih =>
    intro l k i hn hm hi
    simp only [List.map_cons, List.nodup_cons] at hn
    simp only [List.foldl_cons]
    rcases List.mem_cons.mp hm with e | hm
    · subst e
      rw [foldl_set_notin f d _ t _ hn.1]
      simp [List.getD_eq_getElem?_getD, hi]
    · exact ih _ k i hn.2 hm (by simpa using hi)

/-- an identifier of the store's table is translated to the identifier of the same key in the new table -/
theorem lutGet_lookupTable {t new : Table K} (ok : TableOK t) {k : K} {i j : Nat}
    (h : lookup k t = some i) (hn : lookup k new = some j) :
    lutGet (lookupTable t new) (i : Int) = (j : Int) := by
  have hs : (t.map Prod.snd).Nodup := by rw [ok.1]; exact List.nodup_range
  have hi := ok.lookup_lt h
  unfold lutGet lookupTable
  have hneg : ¬ ((i : Int) < 0) := by omega
  simp only [hneg, if_false, Int.toNat_natCast]
  rw [foldl_set_mem (fun k => Int.ofNat ((lookup k new).getD 0)) (-2) t _ k i hs (lookup_some_mem h) (by simp; omega)]
  simp [hn]

end Pm.C04
