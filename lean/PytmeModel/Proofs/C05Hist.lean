import PytmeModel.Proofs.C05Fast

/-! Helper lemmas for C05: invariants of `__call__` histories and of `merge`. -/
namespace Pm.C05

/-! ## admissible oracle answers -/

/-- the recorded library answers used while `s` is submitted in state `st` meet their contracts
(`none` — the deterministic model — always does, see `orcOk_none`) -/
def OrcOk (cfg : Cfg) (strat : Strategy) (st : List Peak) (s : Sub) : Prop :=
  (strat = .sort → TopkOk s.scores.data.toList (min cfg.nPeaks s.scores.data.toList.length)
      (selectTopk s.scores.data.toList (min cfg.nPeaks s.scores.data.toList.length) s.orc.callTopk)) ∧
  (strat = .scipy → ∀ c ∈ callScipy s.scores s.orc.plm, inShape s.scores.shape c = true) ∧
  TopkOk ((st ++ callStage cfg s.scores s.rot (callPeaks cfg strat s.scores s.orc)).map (·.score))
    (min (st ++ callStage cfg s.scores s.rot (callPeaks cfg strat s.scores s.orc)).length cfg.nPeaks)
    (selectTopk ((st ++ callStage cfg s.scores s.rot (callPeaks cfg strat s.scores s.orc)).map (·.score))
      (min (st ++ callStage cfg s.scores s.rot (callPeaks cfg strat s.scores s.orc)).length cfg.nPeaks) s.orc.updTopk)

def HistOk (cfg : Cfg) (strat : Strategy) : List Peak → List Sub → Prop
  | _, [] => True
  | st, s :: ss => OrcOk cfg strat st s ∧ HistOk cfg strat (submit cfg strat st s) ss

/-- extra contracts needed only for the global-maximum clause -/
def MaxOrcOk (cfg : Cfg) (strat : Strategy) (s : Sub) : Prop :=
  (strat = .fast → PermOk (fastTileMax cfg.minDist s.scores).length (fastPerm cfg.minDist s.scores s.orc.argsort)) ∧
  (strat = .scipy → ∃ c ∈ callScipy s.scores s.orc.plm, IsMaxAt s.scores c)

theorem orcOk_none {cfg : Cfg} {strat : Strategy} (hs : strat ≠ .scipy) (st : List Peak) (s : Sub)
    (h1 : s.orc.callTopk = none) (h2 : s.orc.updTopk = none) : OrcOk cfg strat st s := by
  refine ⟨fun _ => ?_, fun h => absurd h hs, ?_⟩
  · rw [h1]; exact selectTopk_none_ok _ _
  · rw [h2]; exact selectTopk_none_ok _ _

theorem histOk_none {cfg : Cfg} {strat : Strategy} (hs : strat ≠ .scipy) : ∀ (subs : List Sub) (st : List Peak),
    (∀ s ∈ subs, s.orc.callTopk = none ∧ s.orc.updTopk = none) → HistOk cfg strat st subs
  | [], _, _ => trivial
  | s :: ss, st, h =>
      ⟨orcOk_none hs st s (h s (by simp)).1 (h s (by simp)).2,
       histOk_none hs ss _ (fun s' hs' => h s' (List.mem_cons_of_mem _ hs'))⟩

theorem maxOrcOk_none {cfg : Cfg} {strat : Strategy} (hs : strat ≠ .scipy) (s : Sub)
    (h : s.orc.argsort = none) : MaxOrcOk cfg strat s := by
  refine ⟨fun _ => ?_, fun h' => absurd h' hs⟩
  rw [h]; exact fastPerm_none_ok _ _

/-! ## `call_peaks` of every strategy -/

theorem callPeaks_inShape {cfg : Cfg} {strat : Strategy} {a : Arr Int} {o : Orc} (hwf : WF a)
    (hsort : strat = .sort → TopkOk a.data.toList (min cfg.nPeaks a.data.toList.length)
      (selectTopk a.data.toList (min cfg.nPeaks a.data.toList.length) o.callTopk))
    (hsci : strat = .scipy → ∀ c ∈ callScipy a o.plm, inShape a.shape c = true)
    {c : List Nat} (hc : c ∈ callPeaks cfg strat a o) : inShape a.shape c = true := by
  cases strat with
  | sort => exact callSort_inShape hwf (hsort rfl) hc
  | maxFilter => exact callMaxFilter_inShape hc
  | fast => exact callFast_inShape hc
  | recursive => exact callRecursive_inShape hc
  | scipy => exact hsci rfl c hc

theorem callPeaks_hasMax {cfg : Cfg} {strat : Strategy} {a : Arr Int} {o : Orc} (hwf : WF a)
    (hn : 0 < cfg.nPeaks) (hlo : cfg.minScore = none)
    (hsort : strat = .sort → TopkOk a.data.toList (min cfg.nPeaks a.data.toList.length)
      (selectTopk a.data.toList (min cfg.nPeaks a.data.toList.length) o.callTopk))
    (hfast : strat = .fast → PermOk (fastTileMax cfg.minDist a).length (fastPerm cfg.minDist a o.argsort))
    (hsci : strat = .scipy → ∃ c ∈ callScipy a o.plm, IsMaxAt a c) :
    ∃ c ∈ callPeaks cfg strat a o, IsMaxAt a c := by
  cases strat with
  | sort => exact callSort_hasMax hwf hn (hsort rfl)
  | maxFilter => exact callMaxFilter_hasMax _ hwf
  | fast => exact callFast_hasMax _ hwf (hfast rfl)
  | recursive => exact callRecursive_hasMax hwf hn hlo
  | scipy => exact hsci rfl

/-! ## one submission -/

/-- `p` is a peak that submission `s` justifies: an in-bounds translation of `s`'s array carrying
that array's value and `s`'s rotation, inside the score window and the margin. -/
def Submitted (cfg : Cfg) (s : Sub) (p : Peak) : Prop :=
  ∃ c : List Nat, inShape s.scores.shape c = true ∧ p.pos = c.map Int.ofNat ∧ p.rot = s.rot ∧
    p.score = s.scores.getD c 0 ∧ inWindow cfg p.score = true ∧
    (0 < cfg.minBoundary → inMargin cfg.minBoundary s.scores.shape c = true)

theorem submit_mem {cfg : Cfg} {strat : Strategy} {st : List Peak} {s : Sub} (hwf : WF s.scores)
    (hok : OrcOk cfg strat st s) {p : Peak} (hp : p ∈ submit cfg strat st s) :
    p ∈ st ∨ Submitted cfg s p := by
  unfold submit at hp
  simp only at hp
  split at hp
  · exact Or.inl hp
  · rcases update_mem hp with h | h
    · exact Or.inl h
    · right
      obtain ⟨c, hc, rfl, hw, hm⟩ := callStage_mem h
      exact ⟨c, callPeaks_inShape hwf hok.1 hok.2.1 hc, rfl, rfl, rfl, hw, hm⟩

theorem submit_pairwise {cfg : Cfg} (strat : Strategy) (hmd : 0 < cfg.minDist) {st : List Peak} (s : Sub)
    (h : st.Pairwise (FarP cfg.minDist)) : (submit cfg strat st s).Pairwise (FarP cfg.minDist) := by
  unfold submit
  simp only
  split
  · exact h
  · exact update_pairwise hmd _ _ _

theorem submit_length {cfg : Cfg} {strat : Strategy} {st : List Peak} {s : Sub}
    (hok : OrcOk cfg strat st s) (h : st.length ≤ cfg.nPeaks) : (submit cfg strat st s).length ≤ cfg.nPeaks := by
  unfold submit
  simp only
  split
  · exact h
  · exact update_length_le hok.2.2

/-- `m` bounds every value of the array -/
def ArrLe (a : Arr Int) (m : Int) : Prop := ∀ idx, inShape a.shape idx = true → a.getD idx 0 ≤ m

theorem submit_max {cfg : Cfg} {strat : Strategy} {st : List Peak} {s : Sub} (hwf : WF s.scores)
    (hn : 0 < cfg.nPeaks) (hmb : cfg.minBoundary = 0) (hlo : cfg.minScore = none) (hhi : cfg.maxScore = none)
    (hok : OrcOk cfg strat st s) (hmax : MaxOrcOk cfg strat s) :
    ∃ p ∈ submit cfg strat st s, ArrLe s.scores p.score ∧ ∀ q ∈ st, q.score ≤ p.score := by
  obtain ⟨c, hc, hcmax⟩ := callPeaks_hasMax (o := s.orc) hwf hn hlo hok.1 hmax.1 hmax.2
  have hplain := callStage_plain hmb hlo hhi s.scores s.rot (callPeaks cfg strat s.scores s.orc)
  have hmem : mkPeak s.scores s.rot c ∈ callStage cfg s.scores s.rot (callPeaks cfg strat s.scores s.orc) := by
    rw [hplain]; exact List.mem_map_of_mem hc
  have hne : st ++ callStage cfg s.scores s.rot (callPeaks cfg strat s.scores s.orc) ≠ [] := by
    intro h
    have := List.append_eq_nil_iff.mp h
    rw [this.2] at hmem; simp at hmem
  obtain ⟨p, hp, hbest⟩ := update_max (o := s.orc.updTopk) hn hne hok.2.2
  refine ⟨p, ?_, ?_, ?_⟩
  · unfold submit
    simp only
    rw [if_neg]
    · exact hp
    · intro hemp
      rw [List.isEmpty_iff] at hemp
      rw [hemp] at hmem; simp at hmem
  · intro idx hidx
    have h1 := hcmax.2 idx hidx
    have h2 := hbest _ (List.mem_append_right _ hmem)
    simp only [mkPeak] at h2
    omega
  · intro q hq
    exact hbest q (List.mem_append_left _ hq)

/-! ## histories (`foldl`) -/

theorem run_aux_submitted {cfg : Cfg} {strat : Strategy} : ∀ (subs prev : List Sub) (st : List Peak),
    (∀ s ∈ subs, WF s.scores) → HistOk cfg strat st subs →
    (∀ p ∈ st, ∃ s ∈ prev, Submitted cfg s p) →
    ∀ p ∈ subs.foldl (submit cfg strat) st, ∃ s ∈ prev ++ subs, Submitted cfg s p
  | [], prev, st, _, _, hinv => by simpa using hinv
  | s :: ss, prev, st, hwf, hok, hinv => by
      intro p hp
      simp only [List.foldl_cons] at hp
      have := run_aux_submitted ss (prev ++ [s]) (submit cfg strat st s)
        (fun s' hs' => hwf s' (List.mem_cons_of_mem _ hs')) hok.2
        (by
          intro q hq
          rcases submit_mem (hwf s (by simp)) hok.1 hq with h | h
          · obtain ⟨s', hs', hsub⟩ := hinv q h
            exact ⟨s', List.mem_append_left _ hs', hsub⟩
          · exact ⟨s, by simp, h⟩) p hp
      simpa [List.append_assoc] using this

theorem run_aux_pairwise {cfg : Cfg} (strat : Strategy) (hmd : 0 < cfg.minDist) : ∀ (subs : List Sub) (st : List Peak),
    st.Pairwise (FarP cfg.minDist) → (subs.foldl (submit cfg strat) st).Pairwise (FarP cfg.minDist)
  | [], _, h => h
  | s :: ss, _, h => run_aux_pairwise strat hmd ss _ (submit_pairwise strat hmd s h)

theorem run_aux_length {cfg : Cfg} {strat : Strategy} : ∀ (subs : List Sub) (st : List Peak),
    HistOk cfg strat st subs → st.length ≤ cfg.nPeaks → (subs.foldl (submit cfg strat) st).length ≤ cfg.nPeaks
  | [], _, _, h => h
  | _ :: ss, _, hok, h => run_aux_length ss _ hok.2 (submit_length hok.1 h)

theorem run_aux_max {cfg : Cfg} {strat : Strategy} (hn : 0 < cfg.nPeaks) (hmb : cfg.minBoundary = 0)
    (hlo : cfg.minScore = none) (hhi : cfg.maxScore = none) : ∀ (subs prev : List Sub) (st : List Peak),
    (∀ s ∈ subs, WF s.scores) → HistOk cfg strat st subs → (∀ s ∈ subs, MaxOrcOk cfg strat s) →
    (prev ≠ [] → ∃ p ∈ st, ∀ s ∈ prev, ArrLe s.scores p.score) →
    (prev ++ subs ≠ [] → ∃ p ∈ subs.foldl (submit cfg strat) st, ∀ s ∈ prev ++ subs, ArrLe s.scores p.score)
  | [], prev, st, _, _, _, hinv => by simpa using hinv
  | s :: ss, prev, st, hwf, hok, hmx, hinv => by
      intro _
      simp only [List.foldl_cons]
      have hstep : (prev ++ [s] ≠ [] → ∃ p ∈ submit cfg strat st s, ∀ s' ∈ prev ++ [s], ArrLe s'.scores p.score) := by
        intro _
        obtain ⟨p, hp, hps, hpst⟩ := submit_max (hwf s (by simp)) hn hmb hlo hhi hok.1 (hmx s (by simp))
        refine ⟨p, hp, ?_⟩
        intro s' hs'
        rcases List.mem_append.mp hs' with h | h
        · obtain ⟨q, hq, hqprev⟩ := hinv (List.ne_nil_of_mem h)
          intro idx hidx
          have := hqprev s' h idx hidx
          have := hpst q hq
          omega
        · simp only [List.mem_singleton] at h; subst h; exact hps
      have := run_aux_max hn hmb hlo hhi ss (prev ++ [s]) (submit cfg strat st s)
        (fun s' hs' => hwf s' (List.mem_cons_of_mem _ hs')) hok.2
        (fun s' hs' => hmx s' (List.mem_cons_of_mem _ hs')) hstep
      simpa [List.append_assoc] using this (by simp)

/-! ## merge -/

theorem shiftPeak_score (off : Option (List Int)) (p : Peak) : (shiftPeak off p).score = p.score := by
  unfold shiftPeak; cases off <;> rfl

theorem shiftPeak_rot (off : Option (List Int)) (p : Peak) : (shiftPeak off p).rot = p.rot := by
  unfold shiftPeak; cases off <;> rfl

/-- the recorded top-k answers used by the successive `_update`s of a merge meet their contract -/
def MergeOk (cfg : Cfg) (off : Option (List Int)) : List Peak → List (Option (List Peak) × Option (List Nat)) → Prop
  | _, [] => True
  | base, (none, _) :: rest => MergeOk cfg off base rest
  | base, (some c, o) :: rest =>
      TopkOk ((base ++ c.map (shiftPeak off)).map (·.score)) (min (base ++ c.map (shiftPeak off)).length cfg.nPeaks)
        (selectTopk ((base ++ c.map (shiftPeak off)).map (·.score)) (min (base ++ c.map (shiftPeak off)).length cfg.nPeaks) o) ∧
      MergeOk cfg off (update cfg base (c.map (shiftPeak off)) o) rest

theorem mergeOk_none {cfg : Cfg} {off : Option (List Int)} : ∀ (parts : List (Option (List Peak) × Option (List Nat))) (base : List Peak),
    (∀ pt ∈ parts, pt.2 = none) → MergeOk cfg off base parts
  | [], _, _ => trivial
  | (none, _) :: rest, base, h => mergeOk_none rest base (fun pt hpt => h pt (List.mem_cons_of_mem _ hpt))
  | (some c, o) :: rest, base, h => by
      have : o = none := h (some c, o) (by simp)
      subst this
      exact ⟨selectTopk_none_ok _ _, mergeOk_none rest _ (fun pt hpt => h pt (List.mem_cons_of_mem _ hpt))⟩

theorem merge_mem {cfg : Cfg} {off : Option (List Int)} : ∀ (parts : List (Option (List Peak) × Option (List Nat))) (base : List Peak) (p : Peak),
    p ∈ merge cfg off base parts →
    p ∈ base ∨ ∃ pt ∈ parts, ∃ c, pt.1 = some c ∧ ∃ q ∈ c, p = shiftPeak off q
  | [], base, p, h => by left; simpa [merge] using h
  | (none, _) :: rest, base, p, h => by
      rw [merge] at h
      rcases merge_mem rest base p h with h1 | ⟨pt, hpt, hx⟩
      · exact Or.inl h1
      · exact Or.inr ⟨pt, List.mem_cons_of_mem _ hpt, hx⟩
  | (some c, o) :: rest, base, p, h => by
      rw [merge] at h
      rcases merge_mem rest _ p h with h1 | ⟨pt, hpt, hx⟩
      · rcases update_mem h1 with h2 | h2
        · exact Or.inl h2
        · right
          obtain ⟨q, hq, rfl⟩ := List.mem_map.mp h2
          exact ⟨(some c, o), by simp, c, rfl, q, hq, rfl⟩
      · exact Or.inr ⟨pt, List.mem_cons_of_mem _ hpt, hx⟩

theorem merge_pairwise {cfg : Cfg} {off : Option (List Int)} (hmd : 0 < cfg.minDist) :
    ∀ (parts : List (Option (List Peak) × Option (List Nat))) (base : List Peak),
    base.Pairwise (FarP cfg.minDist) → (merge cfg off base parts).Pairwise (FarP cfg.minDist)
  | [], _, h => by simpa [merge] using h
  | (none, _) :: rest, base, h => by rw [merge]; exact merge_pairwise hmd rest base h
  | (some c, o) :: rest, base, _ => by
      rw [merge]; exact merge_pairwise hmd rest _ (update_pairwise hmd _ _ _)

theorem merge_length {cfg : Cfg} {off : Option (List Int)} :
    ∀ (parts : List (Option (List Peak) × Option (List Nat))) (base : List Peak),
    MergeOk cfg off base parts → base.length ≤ cfg.nPeaks → (merge cfg off base parts).length ≤ cfg.nPeaks
  | [], _, _, h => by simpa [merge] using h
  | (none, _) :: rest, base, hok, h => by rw [merge]; exact merge_length rest base hok h
  | (some c, o) :: rest, base, hok, _ => by
      rw [merge]; exact merge_length rest _ hok.2 (update_length_le hok.1)

/-- the best peak of everything merged so far survives -/
theorem merge_max {cfg : Cfg} {off : Option (List Int)} (hn : 0 < cfg.nPeaks) :
    ∀ (parts : List (Option (List Peak) × Option (List Nat))) (base : List Peak),
    MergeOk cfg off base parts →
    ∀ m : Int, ((∃ q ∈ base, m ≤ q.score) ∨ ∃ pt ∈ parts, ∃ c, pt.1 = some c ∧ ∃ q ∈ c, m ≤ q.score) →
      ∃ p ∈ merge cfg off base parts, m ≤ p.score
  | [], base, _, m, h => by
      rcases h with h | ⟨pt, hpt, _⟩
      · simpa [merge] using h
      · simp at hpt
  | (none, o) :: rest, base, hok, m, h => by
      rw [merge]
      apply merge_max hn rest base hok m
      rcases h with h | ⟨pt, hpt, c, hc, hq⟩
      · exact Or.inl h
      · rcases List.mem_cons.mp hpt with rfl | hpt'
        · simp at hc
        · exact Or.inr ⟨pt, hpt', c, hc, hq⟩
  | (some c, o) :: rest, base, hok, m, h => by
      rw [merge]
      apply merge_max hn rest _ hok.2 m
      rcases h with ⟨q, hq, hm⟩ | ⟨pt, hpt, c', hc', q, hq, hm⟩
      · left
        obtain ⟨p, hp, hbest⟩ := update_max (o := o) hn (List.ne_nil_of_mem (List.mem_append_left _ hq)) hok.1
        exact ⟨p, hp, by have := hbest q (List.mem_append_left _ hq); omega⟩
      · rcases List.mem_cons.mp hpt with rfl | hpt'
        · left
          simp only [Option.some.injEq] at hc'; subst hc'
          have hmem : shiftPeak off q ∈ base ++ c.map (shiftPeak off) :=
            List.mem_append_right _ (List.mem_map_of_mem hq)
          obtain ⟨p, hp, hbest⟩ := update_max (o := o) hn (List.ne_nil_of_mem hmem) hok.1
          refine ⟨p, hp, ?_⟩
          have := hbest _ hmem
          rw [shiftPeak_score] at this
          omega
        · exact Or.inr ⟨pt, hpt', c', hc', q, hq, hm⟩

end Pm.C05
