import PytmeModel.Proofs.C13Window

namespace Pm.C13
theorem rollSrc_lt (N : Nat) (s : Int) (i : Nat) (hN : 0 < N) : rollSrc N s i < N := by
  unfold rollSrc
  have h1 := Int.emod_nonneg ((i : Int) - s) (by omega : (N : Int) ≠ 0)
  have h2 := Int.emod_lt_of_pos ((i : Int) - s) (by omega : (0 : Int) < N)
  omega

theorem rollSrc_rollSrc (N : Nat) (s s' : Int) (i : Nat) (hN : 0 < N) :
    rollSrc N s (rollSrc N s' i) = rollSrc N (s + s') i := by
  unfold rollSrc
  have h1 := Int.emod_nonneg ((i : Int) - s') (by omega : (N : Int) ≠ 0)
  rw [Int.toNat_of_nonneg h1, Int.emod_sub_emod]
  congr 2; ring

theorem rollSrc_zero (N : Nat) (i : Nat) (h : i < N) : rollSrc N 0 i = i := by
  unfold rollSrc
  rw [Int.sub_zero, Int.emod_eq_of_lt (by omega) (by omega)]
  simp

theorem shiftAxis_larger_pad (n m : Nat) (h : n < m) :
    shiftAxis true true n m false = (((2 * m - 1 - n) / 2 : Nat) : Int) - (((m - 1) / 2 : Nat) : Int) := by
  unfold shiftAxis shapeDiff padOffset baseShift
  have hneg : (n : Int) - m < 0 := by omega
  simp only [if_true, hneg, Bool.false_eq_true, if_false]
  rcases Nat.mod_two_eq_zero_or_one n with hn2 | hn2 <;> rcases Nat.mod_two_eq_zero_or_one m with hm2 | hm2
  all_goals
    simp only [hn2, hm2]
    simp
    rw [Int.tdiv_eq_ediv_of_nonneg (by omega)]
    omega

theorem rigidMatrix_3d (a b c d e f g h i c0 c1 c2 t0 t1 t2 : Int) :
    rigidMatrix [[a, b, c], [d, e, f], [g, h, i]] [c0, c1, c2] [t0, t1, t2]
      = [[a, b, c, -t0 + c0 - (a * c0 + b * c1 + c * c2)], [d, e, f, -t1 + c1 - (d * c0 + e * c1 + f * c2)],
         [g, h, i, -t2 + c2 - (g * c0 + h * c1 + i * c2)], [0, 0, 0, 1]] := by
  simp [rigidMatrix, matMul, identM, translM, linM, List.range, List.range.loop]
  refine ⟨?_, ?_, ?_⟩ <;> ring

theorem rollIdx_rollIdx : ∀ (shape : List Nat) (s s' : List Int) (idx : List Nat), inShape shape idx = true →
    s.length = shape.length → s'.length = shape.length →
    rollIdx shape s (rollIdx shape s' idx) = rollIdx shape (List.zipWith (· + ·) s s') idx
  | [], [], [], [], _, _, _ => rfl
  | N :: Ns, a :: as, b :: bs, i :: is, h, h1, h2 => by
    obtain ⟨hi, hr⟩ := inShape_cons.mp h
    have ih := rollIdx_rollIdx Ns as bs is hr (by simpa using h1) (by simpa using h2)
    unfold rollIdx at ih ⊢
    simp only [zip3With, List.zipWith_cons_cons]
    rw [rollSrc_rollSrc N a b i (by omega), ih]
  | [], _ :: _, _, _, _, h1, _ => by simp at h1
  | [], [], _ :: _, _, _, _, h2 => by simp at h2
  | [], [], [], _ :: _, h, _, _ => by simp [inShape] at h
  | _ :: _, [], _, _, _, h1, _ => by simp at h1
  | _ :: _, _ :: _, [], _, _, _, h2 => by simp at h2
  | _ :: _, _ :: _, _ :: _, [], h, _, _ => by simp [inShape] at h

theorem rollIdx_inShape : ∀ (shape : List Nat) (s : List Int) (idx : List Nat), inShape shape idx = true →
    s.length = shape.length → inShape shape (rollIdx shape s idx) = true
  | [], [], [], _, _ => rfl
  | N :: Ns, a :: as, i :: is, h, h1 => by
    obtain ⟨hi, hr⟩ := inShape_cons.mp h
    have ih := rollIdx_inShape Ns as is hr (by simpa using h1)
    unfold rollIdx at ih ⊢
    simp only [zip3With]
    rw [inShape_cons]
    exact ⟨rollSrc_lt N a i (by omega), ih⟩
  | [], _ :: _, _, _, h1 => by simp at h1
  | [], [], _ :: _, h, _ => by simp [inShape] at h
  | _ :: _, [], _, _, h1 => by simp at h1
  | _ :: _, _ :: _, [], h, _ => by simp [inShape] at h

theorem rollIdx_zero : ∀ (shape idx : List Nat), inShape shape idx = true →
    rollIdx shape (shape.map fun _ => (0 : Int)) idx = idx
  | [], [], _ => rfl
  | N :: Ns, i :: is, h => by
    obtain ⟨hi, hr⟩ := inShape_cons.mp h
    have ih := rollIdx_zero Ns is hr
    unfold rollIdx at ih ⊢
    simp only [List.map_cons, zip3With]
    rw [rollSrc_zero N i hi, ih]
  | [], _ :: _, h => by simp [inShape] at h
  | _ :: _, [], h => by simp [inShape] at h

end Pm.C13
