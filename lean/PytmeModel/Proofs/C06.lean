import PytmeModel.Model.C06
import PytmeModel.Proofs.Common
import Mathlib.Algebra.BigOperators.Fin
import Mathlib.Algebra.BigOperators.Ring.Finset
import Mathlib.Tactic.Ring
import Mathlib.Tactic.Linarith
import Mathlib.Tactic.FieldSimp
import Mathlib.Algebra.BigOperators.Field
import Mathlib.Algebra.Order.Field.Basic
import Mathlib.Algebra.Order.AbsoluteValue.Basic

/-! Helper lemmas for C06: `sumFin` is the `Finset` sum, homogeneous matrices compose like affine maps. -/
set_option linter.unusedSimpArgs false
set_option linter.unusedTactic false
set_option linter.unreachableTactic false
namespace Pm.C06
open Finset

theorem sumFin_eq_sum {α : Type} [AddCommMonoid α] : ∀ (d : Nat) (f : Fin d → α), sumFin d f = ∑ i, f i
  | 0, f => by simp [sumFin]
  | d+1, f => by rw [sumFin, sumFin_eq_sum d, Fin.sum_univ_castSucc]

theorem allFin_iff : ∀ (d : Nat) (p : Fin d → Bool), allFin d p = true ↔ ∀ i, p i = true
  | 0, p => by simp [allFin]
  | d+1, p => by
      rw [allFin, Bool.and_eq_true, allFin_iff d]
      constructor
      · rintro ⟨h1, h2⟩ i
        refine Fin.lastCases h2 (fun j => h1 j) i
      · intro h
        exact ⟨fun j => h _, h _⟩

section
variable {α : Type} [CommRing α]

/-- homogeneous matrix `[[A, b], [0, 1]]` -/
def aff {d : Nat} (A : Mat d α) (b : Vec d α) : Mat (d+1) α := fun i j =>
  if hi : i.val < d then
    if hj : j.val < d then A ⟨i.val, hi⟩ ⟨j.val, hj⟩ else b ⟨i.val, hi⟩
  else if j.val < d then 0 else 1

theorem matVec_eq {n : Nat} (A : Mat n α) (v : Vec n α) (i : Fin n) :
    matVec A v i = ∑ j, A i j * v j := by
  simp [matVec, sumFin_eq_sum]

theorem matMul_eq {n : Nat} (A B : Mat n α) (i k : Fin n) :
    matMul A B i k = ∑ j, A i j * B j k := by
  simp [matMul, sumFin_eq_sum]

theorem ident_eq_aff (d : Nat) : (ident (d+1) : Mat (d+1) α) = aff (ident d) (fun _ => 0) := by
  funext i j
  simp only [ident, aff]
  have hi' := i.isLt
  have hj' := j.isLt
  by_cases hi : i.val < d <;> by_cases hj : j.val < d
  · have : ¬ (j.val = d) := by omega
    simp [hi, hj, this, Fin.ext_iff]
  · have h1 : j.val = d := by omega
    have h2 : i.val ≠ j.val := by omega
    simp [hi, hj, h1, h2, Fin.ext_iff]
    try omega
  · have : i.val ≠ j.val := by omega
    simp [hi, hj, Fin.ext_iff, this]
  · have : i.val = j.val := by omega
    simp [hi, hj, Fin.ext_iff, this]

theorem transMat_eq_aff {d : Nat} (b : Vec d α) : transMat b = aff (ident d) b := by
  funext i j
  simp only [transMat, ident, aff]
  have hi' := i.isLt
  have hj' := j.isLt
  by_cases hi : i.val < d <;> by_cases hj : j.val < d
  · have : ¬ (j.val = d) := by omega
    simp [hi, hj, this, Fin.ext_iff]
  · have h1 : j.val = d := by omega
    have h2 : i.val ≠ j.val := by omega
    simp [hi, hj, h1, h2, Fin.ext_iff]
    try omega
  · have : i.val ≠ j.val := by omega
    simp [hi, hj, Fin.ext_iff, this]
  · have : i.val = j.val := by omega
    simp [hi, hj, Fin.ext_iff, this]

theorem embedRot_eq_aff {d : Nat} (A : Mat d α) : embedRot A = aff A (fun _ => 0) := by
  funext i j
  simp only [embedRot, ident, aff]
  have hi' := i.isLt
  have hj' := j.isLt
  by_cases hi : i.val < d <;> by_cases hj : j.val < d
  · have : ¬ (j.val = d) := by omega
    simp [hi, hj, this, Fin.ext_iff]
  · have h1 : j.val = d := by omega
    have h2 : i.val ≠ j.val := by omega
    simp [hi, hj, h1, h2, Fin.ext_iff]
    try omega
  · have : i.val ≠ j.val := by omega
    simp [hi, hj, Fin.ext_iff, this]
  · have : i.val = j.val := by omega
    simp [hi, hj, Fin.ext_iff, this]

theorem matMul_aff {d : Nat} (A A' : Mat d α) (b b' : Vec d α) :
    matMul (aff A b) (aff A' b') = aff (matMul A A') (fun i => matVec A b' i + b i) := by
  funext i k
  rw [matMul_eq, Fin.sum_univ_castSucc]
  by_cases hi : i.val < d <;> by_cases hk : k.val < d <;>
    simp [aff, hi, hk, matMul_eq, matVec_eq]

theorem affineSrc_aff {d : Nat} (A : Mat d α) (b : Vec d α) (o : Vec d α) (i : Fin d) :
    affineSrc (aff A b) o i = matVec A o i + b i := by
  simp [affineSrc, aff, matVec_eq, sumFin_eq_sum]

theorem matMul_ident_left {n : Nat} (A : Mat n α) : matMul (ident n) A = A := by
  funext i k; simp [matMul_eq, ident]

theorem matMul_ident_right {n : Nat} (A : Mat n α) : matMul A (ident n) = A := by
  funext i k; simp [matMul_eq, ident]

theorem matVec_ident {n : Nat} (v : Vec n α) : matVec (ident n) v = v := by
  funext i; simp [matVec_eq, ident]

theorem matVec_add {n : Nat} (A : Mat n α) (u v : Vec n α) (i : Fin n) :
    matVec A (fun j => u j + v j) i = matVec A u i + matVec A v i := by
  simp [matVec_eq, mul_add, Finset.sum_add_distrib]

theorem matVec_sub {n : Nat} (A : Mat n α) (u v : Vec n α) (i : Fin n) :
    matVec A (fun j => u j - v j) i = matVec A u i - matVec A v i := by
  simp [matVec_eq, mul_sub, Finset.sum_sub_distrib]

theorem matVec_neg {n : Nat} (A : Mat n α) (u : Vec n α) (i : Fin n) :
    matVec A (fun j => - u j) i = - matVec A u i := by
  simp [matVec_eq]

theorem matVec_zero {n : Nat} (A : Mat n α) (i : Fin n) : matVec A (fun _ => (0:α)) i = 0 := by
  simp [matVec_eq]

theorem matVec_smul {n : Nat} (A : Mat n α) (k : α) (u : Vec n α) (i : Fin n) :
    matVec A (fun j => k * u j) i = k * matVec A u i := by
  simp only [matVec_eq, Finset.mul_sum]
  exact Finset.sum_congr rfl (fun j _ => by ring)

theorem matVec_matVec {n : Nat} (A B : Mat n α) (v : Vec n α) (i : Fin n) :
    matVec A (matVec B v) i = matVec (matMul A B) v i := by
  simp only [matVec_eq, matMul_eq, Finset.mul_sum, Finset.sum_mul]
  rw [Finset.sum_comm]
  exact Finset.sum_congr rfl (fun j _ => Finset.sum_congr rfl (fun k _ => by ring))

theorem aff_corner {d : Nat} (A : Mat d α) (b : Vec d α) : aff A b (Fin.last d) (Fin.last d) = 1 := by
  simp [aff]

theorem aff_bottom {d : Nat} (A : Mat d α) (b : Vec d α) (j : Fin d) : aff A b (Fin.last d) j.castSucc = 0 := by
  simp [aff]

end

/-! ## coordinate version -/
section
variable {K : Type} [Field K]

theorem mean_eq {N d : Nat} (x : Fin N → Vec d K) (i : Fin d) : mean x i = (∑ k, x k i) / (N : K) := by
  simp [mean, sumFin_eq_sum]

/-- the mean commutes with `v ↦ R(v − c)` -/
theorem mean_rot {N d : Nat} (hN : (N : K) ≠ 0) (R : Mat d K) (x : Fin N → Vec d K) (c : Vec d K) (i : Fin d) :
    mean (fun k => matVec R (fun j => x k j - c j)) i = matVec R (fun j => mean x j - c j) i := by
  simp only [mean_eq, matVec_eq]
  rw [Finset.sum_comm, Finset.sum_div]
  refine Finset.sum_congr rfl (fun j _ => ?_)
  rw [← Finset.mul_sum, Finset.sum_sub_distrib, Finset.sum_const, Finset.card_univ, Fintype.card_fin,
    nsmul_eq_mul]
  field_simp

theorem mean_add_const {N d : Nat} (hN : (N : K) ≠ 0) (x : Fin N → Vec d K) (b : Vec d K) (i : Fin d) :
    mean (fun k j => x k j + b j) i = mean x i + b i := by
  simp only [mean_eq]
  rw [Finset.sum_add_distrib, Finset.sum_const, Finset.card_univ, Fintype.card_fin, nsmul_eq_mul]
  field_simp

/-- an orthogonal matrix preserves the squared length (any commutative ring would do) -/
theorem matVec_norm_sq {d : Nat} (R : Mat d K) (hR : matMul (transpose R) R = ident d) (v : Vec d K) :
    ∑ i, matVec R v i * matVec R v i = ∑ i, v i * v i := by
  have hRR : ∀ j k, ∑ i, R i j * R i k = if j = k then 1 else 0 := by
    intro j k
    have h := congrFun (congrFun hR j) k
    simpa [matMul_eq, transpose, ident] using h
  simp only [matVec_eq, Finset.sum_mul_sum]
  rw [Finset.sum_comm]
  have : ∀ j, ∑ i, ∑ k, R i j * v j * (R i k * v k) = ∑ k, v j * v k * ∑ i, R i j * R i k := by
    intro j
    rw [Finset.sum_comm]
    refine Finset.sum_congr rfl (fun k _ => ?_)
    rw [Finset.mul_sum]
    exact Finset.sum_congr rfl (fun i _ => by ring)
  simp only [this, hRR]
  simp

end

/-! ## the grid group -/

/-- `R` is a signed permutation matrix: row `i` has the single non-zero entry `s i = ±1` in column `q i`. -/
def IsSignedPerm {d : Nat} (R : Mat d Int) (q : Fin d → Fin d) (s : Fin d → Int) : Prop :=
  (∀ i, s i = 1 ∨ s i = -1) ∧ ∀ i j, R i j = if j = q i then s i else 0

theorem matVec_signedPerm {d : Nat} {R : Mat d Int} {q : Fin d → Fin d} {s : Fin d → Int}
    (h : IsSignedPerm R q s) (v : Vec d Int) (i : Fin d) : matVec R v i = s i * v (q i) := by
  simp [matVec_eq, h.2, ite_mul]

theorem inBox_iff {d : Nat} (n : Fin d → Nat) (x : Vec d Int) :
    inBox n x = true ↔ ∀ i, 0 ≤ x i ∧ x i < (n i : Int) := by
  simp [inBox, allFin_iff]

theorem isEven_iff {d : Nat} (s2 : Vec d Int) : isEven s2 = true ↔ ∀ i, s2 i % 2 = 0 := by
  simp [isEven, allFin_iff]

/-- reading at an on-grid doubled coordinate -/
theorem resample_double {α : Type} [Zero α] {d : Nat} (n : Fin d → Nat) (f : Vec d Int → α) (x : Vec d Int) :
    resample n f (fun i => 2 * x i) = some (if inBox n x then f x else 0) := by
  have h1 : isEven (fun i => 2 * x i) = true := by rw [isEven_iff]; intro i; omega
  have h2 : (fun i => (2 * x i) / 2) = x := by funext i; omega
  simp only [resample, h1, if_true, h2]

theorem pull2_eq_push2 {d : Nat} (n : Fin d → Nat) (M : Mat d Int) (o : Vec d Int) :
    pull2 n M (fun _ => 0) o = push2 n M (fun _ => 0) o := by
  funext i; simp [pull2, push2]

/-- a signed permutation that leaves the shape invariant maps the index box into itself, on grid points -/
theorem push2_signedPerm_box {d : Nat} {R : Mat d Int} {q : Fin d → Fin d} {s : Fin d → Int}
    (h : IsSignedPerm R q s) (n : Fin d → Nat) (hn : ∀ i, n (q i) = n i) (x : Vec d Int)
    (hx : inBox n x = true) :
    ∃ y : Vec d Int, inBox n y = true ∧ ∀ i, push2 n R (fun _ => 0) x i = 2 * y i := by
  rw [inBox_iff] at hx
  refine ⟨fun i => if s i = 1 then x (q i) else (n i : Int) - 1 - x (q i), ?_, ?_⟩
  · rw [inBox_iff]
    intro i
    have := hx (q i)
    have hq := hn i
    rcases h.1 i with h1 | h1 <;> simp only [h1] <;> norm_num <;> omega
  · intro i
    have hq := hn i
    simp only [push2, matVec_signedPerm h]
    rcases h.1 i with h1 | h1 <;> simp only [h1, hq] <;> norm_num <;> ring


/-! ## the noise clean-up of `Density.rigid_transform` -/
section clean
set_option linter.unusedSectionVars false
variable {K : Type} [Field K] [LinearOrder K] [IsStrictOrderedRing K]

theorem absV_eq_abs (v : K) : absV v = |v| := by
  simp [absV, abs_eq_max_neg]

theorem absMax_nonneg (l : List K) : 0 ≤ absMax l := by
  induction l with
  | nil => simp [absMax]
  | cons v l ih => simp only [absMax, List.foldr_cons]; exact le_max_of_le_right ih

theorem absV_le_absMax {l : List K} {v : K} (h : v ∈ l) : absV v ≤ absMax l := by
  induction l with
  | nil => cases h
  | cons w l ih =>
      simp only [absMax, List.foldr_cons]
      rcases List.mem_cons.mp h with rfl | h'
      · exact le_max_left _ _
      · exact le_max_of_le_right (ih h')

theorem absMax_scale (s : K) (hs : 0 ≤ s) (l : List K) : absMax (l.map (s * ·)) = s * absMax l := by
  induction l with
  | nil => simp [absMax]
  | cons v l ih =>
      simp only [absMax, List.map_cons, List.foldr_cons] at ih ⊢
      rw [ih, absV_eq_abs, absV_eq_abs, abs_mul, abs_of_nonneg hs, mul_max_of_nonneg _ _ hs]

end clean

end Pm.C06
