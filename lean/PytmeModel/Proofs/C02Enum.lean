import PytmeModel.Model.C02
import PytmeModel.Model.C02Run
import PytmeModel.Props.C04
import PytmeModel.Props.C14
import Mathlib.Tactic.Ring
import Mathlib.Tactic.Linarith

/-! Helper lemmas for the job enumeration of `scan_subsets` (C02). -/
namespace Pm.C02

/-! ## the copies of C14's `split_shape` are C14's -/

theorem splitAxis_eq_C14 (N k : Nat) : splitAxis N k = Pm.C14.splitAxis N k := rfl

theorem productL_eq_C14 {α : Type} : ∀ ls : List (List α), productL ls = Pm.C14.productL ls
  | [] => rfl
  | l :: ls => by simp only [productL, Pm.C14.productL, productL_eq_C14 ls]

theorem splitShape_eq_C14 (shape splits : List Nat) : splitShape shape splits = Pm.C14.splitShape shape splits := by
  unfold splitShape Pm.C14.splitShape
  rw [productL_eq_C14]
  rfl

theorem paddedExtent_eq_C14 (N : Nat) (sl : Nat × Nat) (p : Nat) :
    paddedExtent N sl p = (Pm.C14.tileAxis N sl.1 sl.2 p).extent := rfl

theorem targetPad_eq_C14 (tmpl : List Nat) :
    targetPad tmpl true = tmpl.map Pm.C14.targetPadding := by
  simp [targetPad, Pm.C14.targetPadding]

/-! ## enumeration: membership, order, length -/

theorem zipIdx_map_indep {α β : Type} (l : List α) (h : α × Nat → β) (k : α → β) (hk : ∀ x i, h (x, i) = k x) (n : Nat) :
    (l.zipIdx n).map h = l.map k := by
  induction l generalizing n with
  | nil => rfl
  | cons x xs ih => simp [List.zipIdx_cons, hk, ih]

theorem mem_zipIdx_of_mem {α : Type} (l : List α) (x : α) (hx : x ∈ l) (n : Nat) : ∃ i, (x, i) ∈ l.zipIdx n := by
  induction l generalizing n with
  | nil => cases hx
  | cons y ys ih =>
    rcases List.mem_cons.mp hx with rfl | h
    · exact ⟨n, by simp [List.zipIdx_cons]⟩
    · obtain ⟨i, hi⟩ := ih h (n + 1)
      exact ⟨i, by simp [List.zipIdx_cons, hi]⟩

theorem fst_mem_of_mem_zipIdx {α : Type} (l : List α) (x : α) (i n : Nat) (h : (x, i) ∈ l.zipIdx n) : x ∈ l := by
  induction l generalizing n with
  | nil => simp at h
  | cons y ys ih =>
    simp only [List.zipIdx_cons, List.mem_cons, Prod.mk.injEq] at h
    rcases h with ⟨rfl, _⟩ | h
    · exact List.mem_cons_self
    · exact List.mem_cons_of_mem _ (ih _ h)

variable {R : Type}

theorem mem_enumJobs (tgt tmpl tS mS : List Nat) (outer inner : Nat) (rots : List R) (pe : Bool) (J : Job R)
    (h : J ∈ enumJobs tgt tmpl tS mS outer inner rots pe) :
    ∃ tm ∈ splitPairs tgt tmpl tS mS, ∃ i, J = mkJob tgt tmpl outer inner rots pe tm i := by
  unfold enumJobs at h
  obtain ⟨⟨tm, i⟩, hp, rfl⟩ := List.mem_map.mp h
  exact ⟨tm, fst_mem_of_mem_zipIdx _ _ _ _ hp, i, rfl⟩

theorem enumJobs_of_mem (tgt tmpl tS mS : List Nat) (outer inner : Nat) (rots : List R) (pe : Bool)
    (tm : List (Nat × Nat) × List (Nat × Nat)) (h : tm ∈ splitPairs tgt tmpl tS mS) :
    ∃ i, mkJob tgt tmpl outer inner rots pe tm i ∈ enumJobs tgt tmpl tS mS outer inner rots pe := by
  obtain ⟨i, hi⟩ := mem_zipIdx_of_mem _ tm h 0
  exact ⟨i, List.mem_map.mpr ⟨(tm, i), hi, rfl⟩⟩

theorem enumJobs_length (tgt tmpl tS mS : List Nat) (outer inner : Nat) (rots : List R) (pe : Bool) :
    (enumJobs tgt tmpl tS mS outer inner rots pe).length = (splitPairs tgt tmpl tS mS).length := by
  simp [enumJobs]

theorem splitPairs_length (tgt tmpl tS mS : List Nat) :
    (splitPairs tgt tmpl tS mS).length = (splitShape tgt tS).length * (splitShape tmpl mS).length := by
  unfold splitPairs
  exact Pm.C14.length_flatMap_const _ _ _ (fun _ _ => by simp)

theorem enumJobs_index (tgt tmpl tS mS : List Nat) (outer inner : Nat) (rots : List R) (pe : Bool) :
    (enumJobs tgt tmpl tS mS outer inner rots pe).map Job.index = List.range (splitPairs tgt tmpl tS mS).length := by
  unfold enumJobs
  rw [List.map_map]
  have : (Job.index ∘ fun p : (List (Nat × Nat) × List (Nat × Nat)) × Nat => mkJob tgt tmpl outer inner rots pe p.1 p.2)
      = Prod.snd := by funext p; rfl
  rw [this, List.zipIdx_map_snd]
  simp [List.range_eq_range']

/-! ## what the schedule cannot change -/

/-- the schedule-free part of a job, computed from the pair alone -/
def coreOf (tgt tmpl : List Nat) (rots : List R) (pe : Bool) (tm : List (Nat × Nat) × List (Nat × Nat)) : JobCore R :=
  (mkJob tgt tmpl 1 1 rots pe tm 0).core

theorem splitRotations_flatten (rots : List R) (n : Nat) (h : 1 ≤ n) : (splitRotations rots n).flatten = rots := by
  obtain ⟨J, rfl⟩ : ∃ J, n = J + 1 := ⟨n - 1, by omega⟩
  unfold splitRotations
  simp only [Nat.add_sub_cancel]
  rw [List.range_succ, List.map_append, List.flatten_append]
  simp only [List.map_cons, List.map_nil, List.flatten_cons, List.flatten_nil, List.append_nil, if_true]
  have : (List.range J).map (fun n => if n = J then rots.drop (n * (rots.length / (J + 1)))
        else (rots.drop (n * (rots.length / (J + 1)))).take (rots.length / (J + 1)))
      = (List.range J).map (fun n => (rots.drop (n * (rots.length / (J + 1)))).take (rots.length / (J + 1))) := by
    apply List.map_congr_left
    intro n hn
    have : n ≠ J := by have := List.mem_range.mp hn; omega
    simp [this]
  rw [this]
  have chunks : ∀ (L : List R) (per c : Nat),
      ((List.range c).map (fun n => (L.drop (n * per)).take per)).flatten ++ L.drop (c * per) = L := by
    intro L per c
    induction c with
    | zero => simp
    | succ c ih =>
      rw [List.range_succ, List.map_append, List.flatten_append]
      simp only [List.map_cons, List.map_nil, List.flatten_cons, List.flatten_nil, List.append_nil]
      rw [List.append_assoc]
      have : (L.drop (c * per)).take per ++ L.drop ((c + 1) * per) = L.drop (c * per) := by
        have h : (c + 1) * per = c * per + per := by ring
        rw [h, ← List.drop_drop]
        exact List.take_append_drop per (L.drop (c * per))
      rw [this]
      exact ih
  exact chunks rots _ J

theorem mkJob_core (tgt tmpl : List Nat) (outer inner : Nat) (rots : List R) (pe : Bool)
    (tm : List (Nat × Nat) × List (Nat × Nat)) (i : Nat) (hi : 1 ≤ inner) :
    (mkJob tgt tmpl outer inner rots pe tm i).core = coreOf tgt tmpl rots pe tm := by
  simp only [coreOf, Job.core, mkJob, splitRotations_flatten rots inner hi, splitRotations_flatten rots 1 (le_refl 1)]

theorem enumJobs_core (tgt tmpl tS mS : List Nat) (outer inner : Nat) (rots : List R) (pe : Bool) (hi : 1 ≤ inner) :
    (enumJobs tgt tmpl tS mS outer inner rots pe).map Job.core
      = (splitPairs tgt tmpl tS mS).map (coreOf tgt tmpl rots pe) := by
  unfold enumJobs
  rw [List.map_map]
  exact zipIdx_map_indep _ _ _ (fun tm i => mkJob_core tgt tmpl outer inner rots pe tm i hi) 0

/-! ## the box a job reports: offset = slice start, extent = slice extent -/

theorem foldl_add_acc (l : List Nat) (a : Nat) : l.foldl (· + ·) a = a + l.foldl (· + ·) 0 := by
  induction l generalizing a with
  | nil => simp
  | cons x xs ih => simp only [List.foldl_cons]; rw [ih (a + x), ih (0 + x)]; omega

theorem foldl_add_eq_zero (l : List Nat) : l.foldl (· + ·) 0 = 0 ↔ ∀ x ∈ l, x = 0 := by
  induction l with
  | nil => simp
  | cons x xs ih =>
    simp only [List.foldl_cons, List.mem_cons, forall_eq_or_imp]
    rw [foldl_add_acc, ← ih]
    omega

/-- one axis: the cropped score array of a (padded) tile has the extent of the tile's slice -/
theorem outExtent_axis (N a b m : Nat) (pe valid : Bool) (h1 : a < b) (h2 : b ≤ N)
    (hv1 : valid = true → pe = true) (hv0 : valid = false → (if pe then m - m % 2 else 0) = 0) :
    outExtent valid (paddedExtent N (a, b) (if pe then m - m % 2 else 0)) m = b - a := by
  unfold outExtent paddedExtent
  cases valid with
  | true =>
    have := hv1 rfl; subst this
    simp only [if_true]
    omega
  | false =>
    have := hv0 rfl
    rw [this]
    simp only [Bool.false_eq_true, if_false]
    omega

theorem outShape_slices (pe valid : Bool) (hv1 : valid = true → pe = true) :
    ∀ (tgt : List Nat) (sl : List (Nat × Nat)) (tmpl : List Nat),
      List.Forall₂ (fun (r : Nat × Nat) (N : Nat) => r.1 < r.2 ∧ r.2 ≤ N) sl tgt → sl.length = tmpl.length →
      (valid = false → ∀ m ∈ tmpl, (if pe then m - m % 2 else 0) = 0) →
      List.zipWith (outExtent valid) (zipWith3 paddedExtent tgt sl (targetPad tmpl pe)) tmpl = sl.map (fun s => s.2 - s.1)
  | _, [], [], .nil, _, _ => by simp [zipWith3]
  | N :: tgt, (a, b) :: sl, m :: tmpl, .cons h hr, hl, hv0 => by
    simp only [targetPad, List.map_cons, zipWith3, List.zipWith_cons_cons]
    have ih := outShape_slices pe valid hv1 tgt sl tmpl hr (by simpa using hl)
      (fun hv x hx => hv0 hv x (List.mem_cons_of_mem _ hx))
    simp only [targetPad] at ih
    rw [ih, outExtent_axis N a b m pe valid h.1 h.2 hv1 (fun hv => hv0 hv m List.mem_cons_self)]
  | _, _ :: _, [], _, hl, _ => by simp at hl
  | _, [], _ :: _, _, hl, _ => by simp at hl

theorem forall₂_zip_left {α β γ : Type} (P : α → β × γ → Prop) (Q : α → β → Prop) (hPQ : ∀ a b c, P a (b, c) → Q a b) :
    ∀ (t : List α) (xs : List β) (ys : List γ), xs.length = ys.length → List.Forall₂ P t (List.zip xs ys) → List.Forall₂ Q t xs
  | _, [], [], _, .nil => .nil
  | _, x :: xs, y :: ys, hl, h => by
    simp only [List.zip_cons_cons] at h
    cases h with
    | cons h1 h2 => exact .cons (hPQ _ _ _ h1) (forall₂_zip_left P Q hPQ _ xs ys (by simpa using hl) h2)
  | _, [], _ :: _, hl, _ => by simp at hl
  | _, _ :: _, [], hl, _ => by simp at hl

/-- the tiles of `split_shape` are non-empty boxes inside the target -/
theorem splitShape_in_bounds (shape splits : List Nat) (h : shape.length = splits.length) (hpos : ∀ n ∈ shape, 0 < n)
    (t : List (Nat × Nat)) (ht : t ∈ splitShape shape splits) :
    List.Forall₂ (fun (r : Nat × Nat) (N : Nat) => r.1 < r.2 ∧ r.2 ≤ N) t shape := by
  rw [splitShape_eq_C14] at ht
  have := Pm.C14.splitShape_tiles_ok shape splits h hpos t ht
  exact forall₂_zip_left _ _ (fun a b c hp => ⟨hp.1, hp.2.1⟩) t shape splits h this

theorem forall₂_length {α β : Type} {P : α → β → Prop} : ∀ {l : List α} {m : List β}, List.Forall₂ P l m → l.length = m.length
  | _, _, .nil => rfl
  | _, _, .cons _ h => by simp [forall₂_length h]

theorem forall₂_mem_left {α β : Type} {P : α → β → Prop} : ∀ {l : List α} {m : List β}, List.Forall₂ P l m →
    ∀ a ∈ l, ∃ b ∈ m, P a b
  | _, _, .nil, _, h => by cases h
  | _, _, .cons hp hr, a, h => by
    rcases List.mem_cons.mp h with rfl | h
    · exact ⟨_, List.mem_cons_self, hp⟩
    · obtain ⟨b, hb, hpb⟩ := forall₂_mem_left hr a h
      exact ⟨b, List.mem_cons_of_mem _ hb, hpb⟩

theorem mem_splitPairs (tgt tmpl tS mS : List Nat) (tm : List (Nat × Nat) × List (Nat × Nat)) :
    tm ∈ splitPairs tgt tmpl tS mS ↔ tm.1 ∈ splitShape tgt tS ∧ tm.2 ∈ splitShape tmpl mS := by
  unfold splitPairs
  simp only [List.mem_flatMap, List.mem_map]
  constructor
  · rintro ⟨t, ht, m, hm, rfl⟩; exact ⟨ht, hm⟩
  · rintro ⟨h1, h2⟩; exact ⟨tm.1, h1, tm.2, h2, rfl⟩

/-- **Every job reports the box of its own target slice**: the offset handed to the analyzer is the slice start, and
(whole template) the score array left by `_postprocess` has the slice's extent — with edge padding ("valid" crop of the
padded tile) and without ("same" crop) alike. -/
theorem mkJob_box (tgt tmpl tS : List Nat) (outer inner : Nat) (rots : List R) (pe : Bool)
    (hl : tgt.length = tS.length) (hr : tgt.length = tmpl.length) (hpos : ∀ n ∈ tgt, 0 < n)
    (t : List (Nat × Nat)) (ht : t ∈ splitShape tgt tS) (i : Nat) :
    let J := mkJob tgt tmpl outer inner rots pe (t, tmpl.map (fun m => (0, m))) i
    J.offset = t.map Prod.fst ∧ J.outShape = t.map (fun s => s.2 - s.1) := by
  refine ⟨rfl, ?_⟩
  have hb := splitShape_in_bounds tgt tS hl hpos t ht
  have hlen : t.length = tmpl.length := by rw [forall₂_length hb, hr]
  simp only [mkJob, List.map_map]
  have e : (tmpl.map ((fun s : Nat × Nat => s.2 - s.1) ∘ fun m => (0, m))) = tmpl := by
    simp [Function.comp_def]
  rw [e]
  apply outShape_slices pe _ _ tgt t tmpl hb hlen
  · intro hv
    have hz := (foldl_add_eq_zero (targetPad tmpl pe)).mp (by simpa using hv)
    intro m hm
    exact hz _ (List.mem_map.mpr ⟨m, hm, rfl⟩)
  · intro hv
    cases pe with
    | true => rfl
    | false =>
      exfalso
      have : (targetPad tmpl false).foldl (· + ·) 0 = 0 :=
        (foldl_add_eq_zero _).mpr (by intro x hx; obtain ⟨m, _, rfl⟩ := List.mem_map.mp hx; rfl)
      simp [this] at hv

/-! ## positions: what a store cell at local index `q` stands for -/

open Pm.C04 in
/-- `merge` writes local cell `q` of a store at `offset + q`: the absolute voxel it was looked up for -/
theorem localIdx_add : ∀ {off sh p q : List Nat}, localIdx off sh p = some q → List.zipWith (· + ·) off q = p
  | [], [], [], q, h => by simp [localIdx] at h; subst h; rfl
  | o :: os, s :: ss, x :: xs, q, h => by
    simp only [localIdx] at h
    split at h
    · rename_i hc
      cases hr : localIdx os ss xs with
      | none => simp [hr] at h
      | some q' =>
        simp [hr] at h; subst h
        simp only [List.zipWith_cons_cons, localIdx_add hr]
        congr 1; omega
    · cases h
  | [], [], _ :: _, _, h => by simp [localIdx] at h
  | [], _ :: _, _, _, h => by simp [localIdx] at h
  | _ :: _, [], _, _, h => by simp [localIdx] at h
  | _ :: _, _ :: _, [], _, h => by simp [localIdx] at h

open Pm.C04 in
/-- a voxel inside a slice is a cell of the box `[start, start + extent)` -/
theorem localIdx_of_in_slice : ∀ (t : List (Nat × Nat)) (p : List Nat),
    List.Forall₂ (fun (r : Nat × Nat) (i : Nat) => r.1 ≤ i ∧ i < r.2) t p →
    ∃ q, localIdx (t.map Prod.fst) (t.map (fun s => s.2 - s.1)) p = some q
  | [], [], .nil => ⟨[], rfl⟩
  | (a, b) :: t, i :: p, .cons h hr => by
    obtain ⟨q, hq⟩ := localIdx_of_in_slice t p hr
    refine ⟨(i - a) :: q, ?_⟩
    simp only [List.map_cons, localIdx, hq]
    have : a ≤ i ∧ i < a + (b - a) := by have := h.1; have := h.2; simp only at *; omega
    simp [this]

open Pm.C04 in
/-- … and conversely a cell of that box is a voxel inside the slice -/
theorem in_slice_of_localIdx : ∀ (t : List (Nat × Nat)) (p q : List Nat), (∀ s ∈ t, s.1 ≤ s.2) →
    localIdx (t.map Prod.fst) (t.map (fun s => s.2 - s.1)) p = some q →
    List.Forall₂ (fun (r : Nat × Nat) (i : Nat) => r.1 ≤ i ∧ i < r.2) t p
  | [], [], _, _, _ => .nil
  | (a, b) :: t, i :: p, q, hs, h => by
    simp only [List.map_cons, localIdx] at h
    split at h
    · rename_i hc
      cases hr : localIdx (t.map Prod.fst) (t.map (fun s => s.2 - s.1)) p with
      | none => simp [hr] at h
      | some q' =>
        have hab := hs (a, b) List.mem_cons_self
        refine .cons ⟨hc.1, ?_⟩ (in_slice_of_localIdx t p q' (fun s hs' => hs s (List.mem_cons_of_mem _ hs')) hr)
        simp only at hab hc ⊢; omega
    · cases h
  | [], _ :: _, _, _, h => by simp [localIdx] at h
  | _ :: _, [], _, _, h => by simp [localIdx] at h

/-! ## the run: every chunk aggregated by an analyzer of its own, `scan` merges them, `scan_subsets` merges the jobs -/

section run
open Pm.C04
variable {K : Type} [DecidableEq K]

/-- everything the rotations of a job submit at the absolute voxel `p` -/
def coreVals (score : ScoreFn R K) (p : List Nat) (c : JobCore R) : List Int :=
  tileVals (⟨c.offset, c.outShape, c.rots.map (score c.targetSlice c.templateSlice)⟩ : Tile K) p

theorem merge_dims {thr : Int} {d : Nat} {ss : List (Store K)} (hd : SameDim d ss) {M : Store K}
    (hM : merge thr ss = some M) : M.offset.length = d ∧ M.scores.shape.length = d := by
  match ss, hd, hM with
  | [], _, hM => simp [merge] at hM
  | [s], hd, hM => simp [merge] at hM; subst hM; exact hd _ (List.mem_singleton.mpr rfl)
  | s1 :: s2 :: rest, hd, hM =>
    simp only [merge, Option.some.injEq] at hM
    subst hM
    have hl := outShape_length hd (by simp)
    have hs := mergeFold_shape (outShape (s1 :: s2 :: rest)) (newTable (s1 :: s2 :: rest)) (s1 :: s2 :: rest)
      (Arr.ofFn (outShape (s1 :: s2 :: rest)) (fun _ => thr), Arr.ofFn (outShape (s1 :: s2 :: rest)) (fun _ => -1)) rfl rfl
    refine ⟨by simp [mergeMany, hl], ?_⟩
    simp only [mergeMany]
    rw [hs.1, hl]

theorem merge_map_none {α : Type} {thr : Int} (l : List α) (f : α → Store K) (h : merge thr (l.map f) = none) : l = [] := by
  match l, h with
  | [], _ => rfl
  | [_], h => simp [merge] at h
  | _ :: _ :: _, h => simp [merge] at h

theorem represents_valOr {thr : Int} {T : Store K} {us : List (Tile K)} (RT : Represents thr T us) (p : List Nat) :
    T.valOr thr p = specMax thr (allVals us p) := by
  simp only [Store.valOr, Store.valAt?]
  cases hl : localIdx T.offset T.scores.shape p with
  | none => simp [RT.outside p hl, specMax_nil]
  | some q => simpa using (RT.cell p q hl).1

theorem allVals_flatMap {α : Type} (l : List α) (f : α → List (Tile K)) (p : List Nat) :
    allVals (l.flatMap f) p = l.flatMap (fun x => allVals (f x) p) := by
  induction l with
  | nil => rfl
  | cons x xs ih => simp [List.flatMap_cons, allVals_append, ih]

omit [DecidableEq K] in
theorem allVals_jobTiles (score : ScoreFn R K) (J : Job R) (p : List Nat) :
    allVals (jobTiles score J) p = coreVals score p J.core := by
  simp only [jobTiles, coreVals, Job.core]
  generalize J.chunks = chunks
  induction chunks with
  | nil => simp [allVals, tileVals, valsAt]; cases localIdx J.offset J.outShape p <;> rfl
  | cons c cs ih =>
    rw [List.map_cons, show ∀ (t : Tile K) ts, allVals (t :: ts) p = tileVals t p ++ allVals ts p from
      fun t ts => by simp [allVals], ih]
    simp only [tileVals, List.flatten_cons, List.map_append]
    cases localIdx J.offset J.outShape p with
    | none => rfl
    | some q => simp [valsAt]

theorem pairs_fst (thr : Int) (score : ScoreFn R K) (jobs : List (Job R)) :
    (jobs.map (scanJob thr score)).filterMap id
      = (jobs.filterMap (fun J => (scanJob thr score J).map (fun S => (S, jobTiles score J)))).map Prod.fst := by
  induction jobs with
  | nil => rfl
  | cons J js ih =>
    simp only [List.map_cons, List.filterMap_cons]
    cases hs : scanJob thr score J with
    | none => simpa using ih
    | some S => simpa using ih

theorem pairs_snd (thr : Int) (score : ScoreFn R K) (jobs : List (Job R)) :
    ((jobs.filterMap (fun J => (scanJob thr score J).map (fun S => (S, jobTiles score J)))).map Prod.snd).flatten
      = jobs.flatMap (jobTiles score) := by
  induction jobs with
  | nil => rfl
  | cons J js ih =>
    simp only [List.filterMap_cons, List.flatMap_cons]
    cases hs : scanJob thr score J with
    | none =>
      have : jobTiles score J = [] := merge_map_none _ _ hs
      simpa [this] using ih
    | some S => simpa using ih

/-- **what `scan_subsets` returns represents every (job, chunk, rotation) submission** — whatever the schedule -/
theorem scanSubsetsRun_represents {thr : Int} {d : Nat} (score : ScoreFn R K) (jobs : List (Job R))
    (hd : ∀ J ∈ jobs, J.offset.length = d ∧ J.outShape.length = d)
    {M : Store K} (hM : scanSubsetsRun thr score jobs = some M) :
    Represents thr M (jobs.flatMap (jobTiles score)) := by
  let pairs : List (Store K × List (Tile K)) :=
    jobs.filterMap (fun J => (scanJob thr score J).map (fun S => (S, jobTiles score J)))
  have tdims : ∀ J ∈ jobs, ∀ t ∈ jobTiles score J, t.offset.length = d ∧ t.shape.length = d := by
    intro J hJ t ht
    obtain ⟨c, _, rfl⟩ := List.mem_map.mp ht
    exact hd J hJ
  have hpairs : ∀ pr ∈ pairs, ∃ J ∈ jobs, scanJob thr score J = some pr.1 ∧ pr.2 = jobTiles score J := by
    intro pr hpr
    obtain ⟨J, hJ, h⟩ := List.mem_filterMap.mp hpr
    cases hs : scanJob thr score J with
    | none => simp [hs] at h
    | some S => simp [hs] at h; subst h; exact ⟨J, hJ, hs, rfl⟩
  have hrep : ∀ pr ∈ pairs, Represents thr pr.1 pr.2 := by
    intro pr hpr
    obtain ⟨J, hJ, hs, h2⟩ := hpairs pr hpr
    rw [h2]
    exact merge_tiles_represents (d := d) _ (tdims J hJ) hs
  have hsd : SameDim d (pairs.map Prod.fst) := by
    intro S hS
    obtain ⟨pr, hpr, rfl⟩ := List.mem_map.mp hS
    obtain ⟨J, hJ, hs, _⟩ := hpairs pr hpr
    refine merge_dims (d := d) ?_ hs
    intro T hT
    obtain ⟨t, ht, rfl⟩ := List.mem_map.mp hT
    simp only [tileStore, State.toStore, run_shape]
    exact tdims J hJ t ht
  have hps : (jobs.map (scanJob thr score)).filterMap id = pairs.map Prod.fst := pairs_fst thr score jobs
  have hfl : (pairs.map Prod.snd).flatten = jobs.flatMap (jobTiles score) := pairs_snd thr score jobs
  have R := mergeOpt_represents pairs hrep hsd _ hps hM
  rwa [hfl] at R

/-- the value `scan_subsets` returns at an absolute voxel: the largest of the threshold and everything any job's
rotations submitted there -/
theorem scanSubsetsRun_value {thr : Int} {d : Nat} (score : ScoreFn R K) (jobs : List (Job R))
    (hd : ∀ J ∈ jobs, J.offset.length = d ∧ J.outShape.length = d)
    {M : Store K} (hM : scanSubsetsRun thr score jobs = some M) (p : List Nat) :
    M.valOr thr p = specMax thr ((jobs.map Job.core).flatMap (coreVals score p)) := by
  rw [represents_valOr (scanSubsetsRun_represents score jobs hd hM) p, allVals_flatMap, List.flatMap_map]
  congr 1
  apply List.flatMap_congr
  intro J _
  exact allVals_jobTiles score J p

/-! ### ranks -/

theorem zipWith3_length {α β γ δ : Type} (f : α → β → γ → δ) : ∀ (a : List α) (b : List β) (c : List γ) (n : Nat),
    a.length = n → b.length = n → c.length = n → (zipWith3 f a b c).length = n
  | [], [], [], _, h, _, _ => by simpa [zipWith3] using h
  | _ :: as, _ :: bs, _ :: cs, n, ha, hb, hc => by
    obtain ⟨k, rfl⟩ : ∃ k, n = k + 1 := ⟨n - 1, by simp at ha; omega⟩
    simp only [zipWith3, List.length_cons]
    rw [zipWith3_length f as bs cs k (by simpa using ha) (by simpa using hb) (by simpa using hc)]
  | [], _ :: _, _, _, ha, hb, _ => by simp at ha hb; omega
  | [], [], _ :: _, _, ha, _, hc => by simp at ha hc; omega
  | _ :: _, [], _, _, ha, hb, _ => by simp at ha hb; omega
  | _ :: _, _ :: _, [], _, ha, _, hc => by simp at ha hc; omega

theorem mem_splitShape_length (shape splits : List Nat) (h : shape.length = splits.length) (t : List (Nat × Nat))
    (ht : t ∈ splitShape shape splits) : t.length = shape.length := by
  rw [splitShape_eq_C14] at ht
  unfold Pm.C14.splitShape at ht
  rw [Pm.C14.mem_productL] at ht
  rw [forall₂_length ht]
  simp [h]

omit [DecidableEq K] in
theorem mkJob_dims (tgt tmpl : List Nat) (outer inner : Nat) (rots : List R) (pe : Bool)
    (tm : List (Nat × Nat) × List (Nat × Nat)) (i n : Nat) (h1 : tgt.length = n) (h2 : tmpl.length = n)
    (h3 : tm.1.length = n) (h4 : tm.2.length = n) :
    (mkJob tgt tmpl outer inner rots pe tm i).offset.length = n ∧ (mkJob tgt tmpl outer inner rots pe tm i).outShape.length = n := by
  refine ⟨by simp [mkJob, h3], ?_⟩
  simp only [mkJob, List.length_zipWith, List.length_map, h4]
  rw [zipWith3_length _ _ _ _ n h1 h3 (by simp [targetPad, h2])]
  simp

omit [DecidableEq K] in
theorem enumJobs_dims (tgt tmpl tS mS : List Nat) (outer inner : Nat) (rots : List R) (pe : Bool)
    (h1 : tgt.length = tS.length) (h2 : tmpl.length = mS.length) (h3 : tgt.length = tmpl.length) :
    ∀ J ∈ enumJobs tgt tmpl tS mS outer inner rots pe, J.offset.length = tgt.length ∧ J.outShape.length = tgt.length := by
  intro J hJ
  obtain ⟨tm, htm, i, rfl⟩ := mem_enumJobs _ _ _ _ _ _ _ _ _ hJ
  obtain ⟨ht, hm⟩ := (mem_splitPairs _ _ _ _ tm).mp htm
  exact mkJob_dims tgt tmpl outer inner rots pe tm i tgt.length rfl h3.symm
    (mem_splitShape_length tgt tS h1 _ ht) (by rw [mem_splitShape_length tmpl mS h2 _ hm, h3])

end run

end Pm.C02
