import PytmeModel.Proofs.DftInv

/-! The inverse transform undoes the transform, n-D (exact arithmetic): what `irfftn ∘ rfftn = id` means for the
separable DFT of `Proofs/DftConv.lean`. -/
open Finset
namespace Pm.C01

variable {K : Type} [Field K]

/-- un-normalised inverse transform along the axes: `Σ_k X(k) ω^{-j k}` with `ω^{-jk}` written as `ω^{(N-j) k}` -/
def idftS : List Nat → List K → (List Nat → K) → List Nat → K
  | [], _, X, _ => X []
  | N :: Ns, ωs, X, js =>
      ∑ k ∈ range N, idftS Ns ωs.tail (fun ks => X (k :: ks)) js.tail * (ωs.headD 1) ^ ((N - js.headD 0) * k)

theorem idftS_sum : ∀ (Ns : List Nat) (ωs : List K) (M : Nat) (G : Nat → List Nat → K) (js : List Nat),
    idftS Ns ωs (fun ks => ∑ i ∈ range M, G i ks) js = ∑ i ∈ range M, idftS Ns ωs (G i) js
  | [], _, _, _, _ => rfl
  | N :: Ns, ωs, M, G, js => by
    simp only [idftS]
    have : ∀ k, idftS Ns ωs.tail (fun ks => ∑ i ∈ range M, G i (k :: ks)) js.tail
        = ∑ i ∈ range M, idftS Ns ωs.tail (fun ks => G i (k :: ks)) js.tail :=
      fun k => idftS_sum Ns ωs.tail M (fun i ks => G i (k :: ks)) js.tail
    simp only [this, Finset.sum_mul]
    exact Finset.sum_comm

theorem idftS_smul : ∀ (Ns : List Nat) (ωs : List K) (c : K) (X : List Nat → K) (js : List Nat),
    idftS Ns ωs (fun ks => X ks * c) js = idftS Ns ωs X js * c
  | [], _, _, _, _ => rfl
  | N :: Ns, ωs, c, X, js => by
    simp only [idftS]
    have : ∀ k, idftS Ns ωs.tail (fun ks => X (k :: ks) * c) js.tail = idftS Ns ωs.tail (fun ks => X (k :: ks)) js.tail * c :=
      fun k => idftS_smul Ns ωs.tail c (fun ks => X (k :: ks)) js.tail
    simp only [this, Finset.sum_mul]
    apply Finset.sum_congr rfl; intro k _; ring

theorem idftS_congr : ∀ (Ns : List Nat) (ωs : List K) (X Y : List Nat → K) (js : List Nat),
    (∀ ks, X ks = Y ks) → idftS Ns ωs X js = idftS Ns ωs Y js := by
  intro Ns ωs X Y js h
  have : X = Y := funext h
  rw [this]

/-- number of voxels of the box as a field element -/
def boxCard : List Nat → K
  | [] => 1
  | N :: Ns => (N : K) * boxCard Ns

/-- **Round trip**: the inverse transform of the transform is `|box| ·` the field, at every voxel of the box — for
every shape, every parity, every dimension. -/
theorem idftS_dftS : ∀ (Ns : List Nat) (ωs : List K) (_ : RootsPrim Ns ωs) (F : List Int → K) (js : List Nat),
    inShape Ns js = true →
    idftS Ns ωs (fun ks => dftS Ns ωs F ks) js = boxCard Ns * F (natsToInts js)
  | [], _, _, F, js, hjs => by
    cases js with
    | nil => simp [idftS, dftS, boxCard, natsToInts]
    | cons _ _ => simp [inShape] at hjs
  | N :: Ns, ωs, hp, F, js, hjs => by
    cases js with
    | nil => simp [inShape] at hjs
    | cons j js' =>
      simp only [inShape, Bool.and_eq_true, decide_eq_true_eq] at hjs
      obtain ⟨hj, hjs'⟩ := hjs
      obtain ⟨hp0, _, hpt⟩ := hp
      simp only [idftS, List.tail_cons, List.headD_cons]
      -- inner inverse transform of the k-th frequency slice
      have inner : ∀ k, idftS Ns ωs.tail (fun ks => dftS (N :: Ns) ωs F (k :: ks)) js'
          = boxCard Ns * dftN N (ωs.headD 1) (fun i => F ((i : Int) :: natsToInts js')) k := by
        intro k
        have e : (fun ks => dftS (N :: Ns) ωs F (k :: ks))
            = fun ks => ∑ i ∈ range N, dftS Ns ωs.tail (fun idx => F ((i : Int) :: idx)) ks * (ωs.headD 1) ^ (i * k) := by
          funext ks; simp [dftS, dftN]
        rw [e, idftS_sum]
        unfold dftN
        rw [Finset.mul_sum]
        apply Finset.sum_congr rfl
        intro i _
        rw [idftS_smul, idftS_dftS Ns ωs.tail hpt (fun idx => F ((i : Int) :: idx)) js' hjs']
        ring
      simp only [inner]
      have := idft_dft N (ωs.headD 1) hp0 (fun i => F ((i : Int) :: natsToInts js')) j hj
      calc ∑ k ∈ range N, boxCard Ns * dftN N (ωs.headD 1) (fun i => F ((i : Int) :: natsToInts js')) k * (ωs.headD 1) ^ ((N - j) * k)
          = boxCard Ns * ∑ k ∈ range N, dftN N (ωs.headD 1) (fun i => F ((i : Int) :: natsToInts js')) k * (ωs.headD 1) ^ ((N - j) * k) := by
            rw [Finset.mul_sum]; apply Finset.sum_congr rfl; intro k _; ring
        _ = boxCard (N :: Ns) * F (natsToInts (j :: js')) := by
            rw [this]; simp [boxCard, natsToInts]; ring

end Pm.C01
