import PytmeModel.Proofs.C17Scores
import Mathlib.Data.List.Count
import Mathlib.Data.List.Zip
import Mathlib.Algebra.BigOperators.Group.List.Basic

/-! Helper lemmas for the MutualInformation theorems of `Props/C17.lean` (10 × 10 contingency table of
paired bin indices). -/
namespace Pm.C17
section
variable {α : Type} [Field α]

theorem sumL_map_zero {ι : Type} : ∀ l : List ι, sumL (0 : α) (l.map (fun _ => (0 : α))) = 0
  | [] => rfl
  | _ :: l => by simp only [List.map_cons, sumL, sumL_map_zero l, add_zero]

theorem sumL_map_add {ι : Type} (f g : ι → α) : ∀ l : List ι,
    sumL 0 (l.map (fun i => f i + g i)) = sumL 0 (l.map f) + sumL 0 (l.map g)
  | [] => by simp [sumL]
  | a :: l => by simp only [List.map_cons, sumL, sumL_map_add f g l]; ring

theorem sumL_swap {ι κ : Type} (f : ι → κ → α) (m : List κ) : ∀ (l : List ι),
    sumL 0 (l.map (fun i => sumL 0 (m.map (fun j => f i j)))) =
      sumL 0 (m.map (fun j => sumL 0 (l.map (fun i => f i j))))
  | [] => by simp only [List.map_nil, sumL, sumL_map_zero]
  | a :: l => by
      simp only [List.map_cons, sumL, sumL_swap f m l]
      rw [← sumL_map_add]

theorem count_swap (pairs : List (Nat × Nat)) (i j : Nat) :
    (pairs.map Prod.swap).count (i, j) = pairs.count (j, i) := by
  have : (i, j) = Prod.swap (j, i) := rfl
  rw [this, List.count_map_of_injective _ _ Prod.swap_injective]

theorem miScore_symm_aux (eps : α) (bv bw : List Nat) :
    miScore 0 eps (fun k => (k : α)) bw bv = miScore 0 eps (fun k => (k : α)) bv bw := by
  unfold miScore
  simp only []
  rw [← List.zip_swap bv bw]
  generalize bv.zip bw = pairs
  rw [sumL_swap]
  apply congrArg
  apply List.map_congr_left
  intro i _
  apply congrArg
  apply List.map_congr_left
  intro j _
  simp only [List.length_map, count_swap, List.map_map]
  have e1 : (Prod.fst ∘ Prod.swap : Nat × Nat → Nat) = Prod.snd := rfl
  have e2 : (Prod.snd ∘ Prod.swap : Nat × Nat → Nat) = Prod.fst := rfl
  rw [e1, e2]
  ring
end

theorem ite_sum_zero (a b j : Nat) : ∀ (l : List Nat), a ∉ l →
    (l.map (fun i => if (a, b) == (i, j) then 1 else 0)).sum = 0
  | [], _ => rfl
  | x :: l, h => by
      have hx : a ≠ x := fun e => h (e ▸ List.mem_cons_self)
      have hl : a ∉ l := fun e => h (List.mem_cons_of_mem _ e)
      simp only [List.map_cons, List.sum_cons, ite_sum_zero a b j l hl]
      simp [hx]

theorem ite_sum_le (a b j : Nat) : ∀ (l : List Nat), l.Nodup →
    (l.map (fun i => if (a, b) == (i, j) then 1 else 0)).sum ≤ if b = j then 1 else 0
  | [], _ => by simp
  | x :: l, h => by
      have hn := List.nodup_cons.mp h
      simp only [List.map_cons, List.sum_cons]
      by_cases hx : a = x
      · subst hx
        rw [ite_sum_zero a b j l hn.1]
        by_cases hb : b = j <;> simp [hb]
      · have := ite_sum_le a b j l hn.2
        have h0 : (if (a, b) == (x, j) then 1 else 0) = 0 := by simp [hx]
        omega

theorem colsum_le (l : List Nat) (hl : l.Nodup) (j : Nat) : ∀ (pairs : List (Nat × Nat)),
    (l.map (fun i => pairs.count (i, j))).sum ≤ (pairs.map (·.2)).count j
  | [] => by simp
  | (a, b) :: ps => by
      have ih := colsum_le l hl j ps
      have e : (l.map (fun i => ((a, b) :: ps).count (i, j))).sum =
          (l.map (fun i => ps.count (i, j))).sum + (l.map (fun i => if (a, b) == (i, j) then 1 else 0)).sum := by
        rw [← List.sum_map_add]
        apply congrArg
        apply List.map_congr_left
        intro i _
        rw [List.count_cons]
      have h2 := ite_sum_le a b j l hl
      have h3 : (if ((a, b).2 == j) then 1 else 0) = (if b = j then 1 else 0) := by simp
      rw [e, List.map_cons, List.count_cons, h3]
      omega

section
variable {α : Type} [Field α] [LinearOrder α] [IsStrictOrderedRing α]

omit [LinearOrder α] [IsStrictOrderedRing α] in
theorem sumL_map_cast {ι : Type} (f : ι → Nat) : ∀ l : List ι,
    sumL (0 : α) (l.map (fun i => (f i : α))) = ((l.map f).sum : α)
  | [] => by simp [sumL]
  | a :: l => by simp only [List.map_cons, sumL, sumL_map_cast f l, List.sum_cons]; push_cast; ring

omit [LinearOrder α] [IsStrictOrderedRing α] in
theorem sumL_map_div {ι : Type} (f : ι → α) (s : α) : ∀ l : List ι,
    sumL 0 (l.map (fun i => f i / s)) = sumL 0 (l.map f) / s
  | [] => by simp [sumL]
  | a :: l => by simp only [List.map_cons, sumL, sumL_map_div f s l]; ring

theorem sumL_le_sumL {ι : Type} (f g : ι → α) : ∀ l : List ι, (∀ i ∈ l, f i ≤ g i) →
    sumL 0 (l.map f) ≤ sumL 0 (l.map g)
  | [], _ => by simp [sumL]
  | a :: l, h => by
      have := sumL_le_sumL f g l (fun i hi => h i (List.mem_cons_of_mem _ hi))
      have := h a List.mem_cons_self
      simp only [List.map_cons, sumL]
      linarith

theorem mi_term_le (eps : α) (heps : 0 ≤ eps) (c r s n : Nat) (hcr : c ≤ r) (hcs : c ≤ s) (hcn : c ≤ n) :
    (c : α) / n * ((c : α) / n) / ((r : α) / n * ((s : α) / n) + eps) ≤ (c : α) / (s : α) := by
  by_cases hc : c = 0
  · subst hc; simp
  · have c0 : (0 : α) < (c : α) := by exact_mod_cast Nat.pos_of_ne_zero hc
    have hn : (0 : α) < (n : α) := lt_of_lt_of_le c0 (by exact_mod_cast hcn)
    have hs : (0 : α) < (s : α) := lt_of_lt_of_le c0 (by exact_mod_cast hcs)
    have hr : (c : α) ≤ (r : α) := by exact_mod_cast hcr
    have ha : 0 < (c : α) / n := div_pos c0 hn
    have hd : 0 < (s : α) / n := div_pos hs hn
    have hab : (c : α) / n ≤ (r : α) / n := div_le_div_of_nonneg_right hr hn.le
    have hc' : (c : α) = (c : α) / n * n := by field_simp
    have hs' : (s : α) = (s : α) / n * n := by field_simp
    generalize (c : α) / n = a at *
    generalize (r : α) / n = b at *
    generalize (s : α) / n = d at *
    rw [hc', hs']
    have hD : 0 < b * d + eps := by
      have : 0 < b * d := mul_pos (lt_of_lt_of_le ha hab) hd
      linarith
    rw [div_le_div_iff₀ hD (mul_pos hd hn)]
    have h1 : a * d * n * a ≤ a * d * n * b :=
      mul_le_mul_of_nonneg_left hab (mul_nonneg (mul_nonneg ha.le hd.le) hn.le)
    have h2 : 0 ≤ a * n * eps := mul_nonneg (mul_nonneg ha.le hn.le) heps
    nlinarith [h1, h2]

/-- Σ over the 10 × 10 table ≤ number of non-empty weight bins -/
theorem miScore_le_aux (eps : α) (heps : 0 ≤ eps) (pairs : List (Nat × Nat)) (j : Nat) :
    sumL 0 ((List.range 10).map (fun i =>
      (pairs.count (i, j) : α) / (pairs.length : α) * ((pairs.count (i, j) : α) / (pairs.length : α)) /
        (((pairs.map (·.1)).count i : α) / (pairs.length : α) *
          (((pairs.map (·.2)).count j : α) / (pairs.length : α)) + eps))) ≤
      if 0 < (pairs.map (·.2)).count j then 1 else 0 := by
  have hb : ∀ i ∈ List.range 10,
      (pairs.count (i, j) : α) / (pairs.length : α) * ((pairs.count (i, j) : α) / (pairs.length : α)) /
        (((pairs.map (·.1)).count i : α) / (pairs.length : α) *
          (((pairs.map (·.2)).count j : α) / (pairs.length : α)) + eps) ≤
        (pairs.count (i, j) : α) / ((pairs.map (·.2)).count j : α) := by
    intro i _
    exact mi_term_le eps heps _ _ _ _ (List.count_le_count_map (f := (·.1)) (x := (i, j)))
      (List.count_le_count_map (f := (·.2)) (x := (i, j))) List.count_le_length
  refine (sumL_le_sumL _ _ _ hb).trans ?_
  rw [sumL_map_div, sumL_map_cast]
  have hcs := colsum_le (List.range 10) List.nodup_range j pairs
  by_cases h0 : 0 < (pairs.map (·.2)).count j
  · rw [if_pos h0]
    have hp : (0 : α) < ((pairs.map (·.2)).count j : α) := by exact_mod_cast h0
    rw [div_le_one hp]
    exact_mod_cast hcs
  · rw [if_neg h0]
    have : (pairs.map (·.2)).count j = 0 := by omega
    rw [this]; simp

end

section
variable {α : Type} [Field α] [LinearOrder α] [IsStrictOrderedRing α]

theorem miScore_le_aux2 (eps : α) (heps : 0 ≤ eps) (bv bw : List Nat) :
    miScore 0 eps (fun k => (k : α)) bv bw ≤
      sumL 0 ((List.range 10).map (fun j => if 0 < ((bv.zip bw).map (·.2)).count j then (1 : α) else 0)) := by
  unfold miScore
  simp only []
  rw [sumL_swap]
  apply sumL_le_sumL
  intro j _
  exact miScore_le_aux eps heps (bv.zip bw) j

omit [LinearOrder α] [IsStrictOrderedRing α] in
theorem sumL_ite_zero (i : Nat) (x : α) : ∀ l : List Nat, i ∉ l →
    sumL 0 (l.map (fun j => if i = j then x else 0)) = 0
  | [], _ => rfl
  | a :: l, h => by
      have ha : i ≠ a := fun e => h (e ▸ List.mem_cons_self)
      simp only [List.map_cons, sumL, sumL_ite_zero i x l (fun e => h (List.mem_cons_of_mem _ e)), if_neg ha, add_zero]

omit [LinearOrder α] [IsStrictOrderedRing α] in
theorem sumL_ite_eq (i : Nat) (x : α) : ∀ l : List Nat, l.Nodup → i ∈ l →
    sumL 0 (l.map (fun j => if i = j then x else 0)) = x
  | [], _, h => by simp at h
  | a :: l, hn, h => by
      have hn' := List.nodup_cons.mp hn
      simp only [List.map_cons, sumL]
      by_cases ha : i = a
      · subst ha
        rw [sumL_ite_zero i x l hn'.1]; simp
      · have hi : i ∈ l := by
          rcases List.mem_cons.mp h with e | e
          · exact absurd e ha
          · exact e
        rw [sumL_ite_eq i x l hn'.2 hi, if_neg ha]; simp

theorem count_zip_self (i j : Nat) : ∀ b : List Nat,
    (b.zip b).count (i, j) = if i = j then b.count i else 0
  | [] => by simp
  | a :: b => by
      rw [List.zip_cons_cons, List.count_cons, count_zip_self i j b, List.count_cons]
      by_cases hij : i = j
      · subst hij
        by_cases ha : a = i <;> simp [ha]
      · have : ¬ ((a, a) == (i, j)) = true := by
          simp only [beq_iff_eq, Prod.mk.injEq]; rintro ⟨h1, h2⟩; exact hij (h1 ▸ h2)
        simp [hij, this]

theorem miScore_self_aux (b : List Nat) :
    miScore 0 0 (fun k => (k : α)) b b =
      sumL 0 ((List.range 10).map (fun i => if 0 < b.count i then (1 : α) else 0)) := by
  unfold miScore
  simp only []
  have e1 : (b.zip b).map (·.1) = b := List.map_fst_zip (le_refl _)
  have e2 : (b.zip b).map (·.2) = b := List.map_snd_zip (le_refl _)
  have e3 : (b.zip b).length = b.length := by simp
  rw [e1, e2, e3]
  apply congrArg
  apply List.map_congr_left
  intro i hi
  have : ∀ j, ((b.zip b).count (i, j) : α) / (b.length : α) * (((b.zip b).count (i, j) : α) / (b.length : α)) /
        ((b.count i : α) / (b.length : α) * ((b.count j : α) / (b.length : α)) + 0) =
      if i = j then (if 0 < b.count i then (1 : α) else 0) else 0 := by
    intro j
    rw [count_zip_self]
    by_cases hij : i = j
    · subst hij
      simp only [if_true, add_zero]
      by_cases h0 : 0 < b.count i
      · rw [if_pos h0]
        have hc : (0 : α) < (b.count i : α) := by exact_mod_cast h0
        have hl : (0 : α) < (b.length : α) := lt_of_lt_of_le hc (by exact_mod_cast List.count_le_length)
        exact div_self (mul_pos (div_pos hc hl) (div_pos hc hl)).ne'
      · rw [if_neg h0]
        have : b.count i = 0 := by omega
        rw [this]; simp
    · simp [hij]
  simp only [this]
  exact sumL_ite_eq i _ (List.range 10) List.nodup_range hi

end

section
variable {α : Type} [Field α] [LinearOrder α] [IsStrictOrderedRing α]

omit [LinearOrder α] [IsStrictOrderedRing α] in
theorem miScore_self_eps (eps : α) (b : List Nat) :
    miScore 0 eps (fun k => (k : α)) b b =
      sumL 0 ((List.range 10).map (fun i =>
        (b.count i : α) / (b.length : α) * ((b.count i : α) / (b.length : α)) /
          ((b.count i : α) / (b.length : α) * ((b.count i : α) / (b.length : α)) + eps))) := by
  unfold miScore
  simp only []
  have e1 : (b.zip b).map (·.1) = b := List.map_fst_zip (le_refl _)
  have e2 : (b.zip b).map (·.2) = b := List.map_snd_zip (le_refl _)
  have e3 : (b.zip b).length = b.length := by simp
  rw [e1, e2, e3]
  apply congrArg
  apply List.map_congr_left
  intro i hi
  have : ∀ j, ((b.zip b).count (i, j) : α) / (b.length : α) * (((b.zip b).count (i, j) : α) / (b.length : α)) /
        ((b.count i : α) / (b.length : α) * ((b.count j : α) / (b.length : α)) + eps) =
      if i = j then ((b.count i : α) / (b.length : α) * ((b.count i : α) / (b.length : α)) /
          ((b.count i : α) / (b.length : α) * ((b.count i : α) / (b.length : α)) + eps)) else 0 := by
    intro j
    rw [count_zip_self]
    by_cases hij : i = j
    · subst hij; simp
    · simp [hij]
  simp only [this]
  exact sumL_ite_eq i _ (List.range 10) List.nodup_range hi

theorem mi_diag_ge (eps : α) (heps : 0 ≤ eps) (r n : Nat) (hr : 0 < r) (hrn : r ≤ n) :
    1 - eps * ((n : α) * (n : α)) ≤
      (r : α) / (n : α) * ((r : α) / (n : α)) / ((r : α) / (n : α) * ((r : α) / (n : α)) + eps) := by
  have r1 : (1 : α) ≤ (r : α) := by exact_mod_cast hr
  have hn : (0 : α) < (n : α) := lt_of_lt_of_le (by linarith) (by exact_mod_cast hrn : (r : α) ≤ (n : α))
  have hx : 0 < (r : α) / (n : α) := div_pos (by linarith) hn
  have hnx : (n : α) * ((r : α) / (n : α)) = (r : α) := by field_simp
  generalize (r : α) / (n : α) = x at *
  generalize (n : α) = m at *
  have hD : 0 < x * x + eps := by have := mul_pos hx hx; linarith
  rw [le_div_iff₀ hD]
  have h1 : 0 ≤ eps * ((m * x) * (m * x) - 1) := by
    apply mul_nonneg heps
    rw [hnx]
    nlinarith
  have h2 : 0 ≤ eps * eps * (m * m) := mul_nonneg (mul_nonneg heps heps) (mul_nonneg hn.le hn.le)
  have : x * x - (1 - eps * (m * m)) * (x * x + eps) = eps * ((m * x) * (m * x) - 1) + eps * eps * (m * m) := by
    ring
  linarith

omit [LinearOrder α] [IsStrictOrderedRing α] in
theorem sumL_map_mul_right {ι : Type} (f : ι → α) (c : α) : ∀ l : List ι,
    sumL 0 (l.map (fun i => f i * c)) = sumL 0 (l.map f) * c
  | [] => by simp [sumL]
  | a :: l => by simp only [List.map_cons, sumL, sumL_map_mul_right f c l]; ring

/-- planted value with the regulariser ≥ (number of non-empty bins)·(1 − eps·n²) -/
theorem miScore_self_ge (eps : α) (heps : 0 ≤ eps) (b : List Nat) :
    sumL 0 ((List.range 10).map (fun i => if 0 < b.count i then (1 : α) else 0)) *
        (1 - eps * ((b.length : α) * (b.length : α))) ≤
      miScore 0 eps (fun k => (k : α)) b b := by
  rw [miScore_self_eps, ← sumL_map_mul_right]
  apply sumL_le_sumL
  intro i _
  by_cases h0 : 0 < b.count i
  · rw [if_pos h0, one_mul]
    exact mi_diag_ge eps heps _ _ h0 List.count_le_length
  · rw [if_neg h0, zero_mul]
    have : b.count i = 0 := by omega
    rw [this]; simp

end
end Pm.C17
