import PytmeModel.Model.C11
import PytmeModel.Proofs.C11

/-! Helper lemmas for C11: the header-driven column order of the text reader (`sorted(zip(names, range), reverse=True)`)
on files whose named columns are written in an arbitrary order. -/
namespace Pm.C11

/-! ### the stable insertion sort, generic in keys and values -/

def insG {κ α : Type} (lt : κ → κ → Bool) (x : κ × α) : List (κ × α) → List (κ × α)
  | [] => [x]
  | y :: ys => if lt x.1 y.1 then y :: insG lt x ys else x :: y :: ys

def sortG {κ α : Type} (lt : κ → κ → Bool) (l : List (κ × α)) : List (κ × α) := l.foldr (insG lt) []

theorem insertDesc_eq (x : Str × Nat) (l : List (Str × Nat)) : insertDesc x l = insG strLt x l := by
  induction l with
  | nil => rfl
  | cons y ys ih => simp only [insertDesc, insG, ih]

theorem sortDesc_eq (l : List (Str × Nat)) : sortDesc l = sortG strLt l := by
  induction l with
  | nil => rfl
  | cons x xs ih =>
    simp only [sortDesc, sortG, List.foldr_cons] at ih ⊢
    rw [ih, insertDesc_eq]

theorem insG_perm {κ α : Type} (lt : κ → κ → Bool) (x : κ × α) (l : List (κ × α)) : (insG lt x l).Perm (x :: l) := by
  induction l with
  | nil => exact List.Perm.refl _
  | cons y ys ih =>
    simp only [insG]
    split
    · exact ((List.Perm.cons y ih).trans (List.Perm.swap x y ys))
    · exact List.Perm.refl _

theorem sortG_perm {κ α : Type} (lt : κ → κ → Bool) (l : List (κ × α)) : (sortG lt l).Perm l := by
  induction l with
  | nil => exact List.Perm.refl _
  | cons x xs ih =>
    simp only [sortG, List.foldr_cons] at ih ⊢
    exact (insG_perm lt x _).trans (List.Perm.cons x ih)

/-- translating the keys by a map that respects the comparison commutes with the sort -/
theorem insG_map_key {κ κ' α : Type} (lt : κ → κ → Bool) (lt' : κ' → κ' → Bool) (f : κ → κ') (x : κ × α)
    (l : List (κ × α)) (h : ∀ y ∈ l, lt' (f x.1) (f y.1) = lt x.1 y.1) :
    (insG lt x l).map (Prod.map f id) = insG lt' (Prod.map f id x) (l.map (Prod.map f id)) := by
  induction l with
  | nil => rfl
  | cons y ys ih =>
    have hy := h y (by simp)
    have := ih (fun z hz => h z (by simp [hz]))
    simp only [insG, List.map_cons, Prod.map_fst, hy]
    split
    · simp only [List.map_cons, this]
    · simp only [List.map_cons]

theorem sortG_map_key {κ κ' α : Type} (lt : κ → κ → Bool) (lt' : κ' → κ' → Bool) (f : κ → κ')
    (l : List (κ × α)) (h : ∀ x ∈ l, ∀ y ∈ l, lt' (f x.1) (f y.1) = lt x.1 y.1) :
    (sortG lt l).map (Prod.map f id) = sortG lt' (l.map (Prod.map f id)) := by
  induction l with
  | nil => rfl
  | cons x xs ih =>
    have ih' := ih (fun a ha b hb => h a (by simp [ha]) b (by simp [hb]))
    simp only [sortG, List.foldr_cons, List.map_cons] at ih' ⊢
    rw [← ih']
    apply insG_map_key
    intro y hy
    have : y ∈ xs := (sortG_perm lt xs).subset hy
    exact h x (by simp) y (by simp [this])

/-! ### natural-number keys: smaller key first -/

def ltN (a b : Nat) : Bool := decide (b < a)

theorem insG_sorted {α : Type} (x : Nat × α) (l : List (Nat × α)) (h : l.Pairwise (fun p q => p.1 ≤ q.1)) :
    (insG ltN x l).Pairwise (fun p q => p.1 ≤ q.1) := by
  induction l with
  | nil => simp [insG]
  | cons y ys ih =>
    rw [List.pairwise_cons] at h
    by_cases hlt : y.1 < x.1
    · have e : insG ltN x (y :: ys) = y :: insG ltN x ys := by simp [insG, ltN, hlt]
      rw [e, List.pairwise_cons]
      refine ⟨?_, ih h.2⟩
      intro z hz
      have := (insG_perm ltN x ys).subset hz
      rcases List.mem_cons.mp this with rfl | hz'
      · omega
      · exact h.1 z hz'
    · have e : insG ltN x (y :: ys) = x :: y :: ys := by simp [insG, ltN, hlt]
      have hle : x.1 ≤ y.1 := by omega
      rw [e, List.pairwise_cons, List.pairwise_cons]
      refine ⟨?_, h.1, h.2⟩
      intro z hz
      rcases List.mem_cons.mp hz with rfl | hz'
      · exact hle
      · exact Nat.le_trans hle (h.1 z hz')

theorem sortG_sorted {α : Type} (l : List (Nat × α)) : (sortG ltN l).Pairwise (fun p q => p.1 ≤ q.1) := by
  induction l with
  | nil => simp [sortG]
  | cons x xs ih =>
    simp only [sortG, List.foldr_cons] at ih ⊢
    exact insG_sorted x _ ih

/-- keys that are a permutation of `0..n-1` come out as `0..n-1` -/
theorem sortG_keys_range {α : Type} (l : List (Nat × α)) (n : Nat) (h : (l.map (·.1)).Perm (List.range n)) :
    (sortG ltN l).map (·.1) = List.range n := by
  apply List.Perm.eq_of_pairwise (le := fun a b : Nat => a ≤ b)
  · intro a b _ _ h1 h2; omega
  · have := sortG_sorted l
    rw [List.pairwise_map]
    exact this
  · exact List.pairwise_le_range
  · exact ((sortG_perm ltN l).map _).trans h

theorem mem_zip_range (ks : List Nat) (p : Nat × Nat) (h : p ∈ ks.zip (List.range ks.length)) :
    ks[p.2]? = some p.1 := by
  rw [List.range_eq_range', ← List.zipIdx_eq_zip_range'] at h
  exact List.mem_zipIdx_iff_getElem?.mp h

/-- **header-driven order**: names that are the images of a permutation `ks` of `0..n-1` under a key map on which
Python's string order is the reverse index order (`z > y > x > …`) are sorted so that picking the row's values in
the computed order restores the canonical order `0..n-1`, whatever the order in the file -/
theorem sortOrder_restores (ks : List Nat) (n : Nat) (hp : ks.Perm (List.range n)) (nm : Nat → Str)
    (hnm : ∀ a, a < n → ∀ b, b < n → strLt (nm a) (nm b) = ltN a b) (v : Nat → Str) :
    pick (ks.map v) (sortOrder (ks.map nm)) = .ok ((List.range n).map v) ∧
    (sortOrder (ks.map nm)).length = n ∧ ∀ i ∈ sortOrder (ks.map nm), i < n := by
  have hlen : ks.length = n := by simpa using hp.length_eq
  have hks : ∀ k ∈ ks, k < n := fun k hk => List.mem_range.mp (hp.subset hk)
  have ho : sortOrder (ks.map nm) = (sortG ltN (ks.zip (List.range n))).map (·.2) := by
    unfold sortOrder withPos
    rw [List.length_map, hlen, List.zip_map_left, sortDesc_eq,
      ← sortG_map_key ltN strLt nm _ (fun x hx y hy =>
        hnm x.1 (hks _ (List.of_mem_zip hx).1) y.1 (hks _ (List.of_mem_zip hy).1)), List.map_map]
    rfl
  have hS := sortG_perm ltN (ks.zip (List.range n))
  have hkeys : (sortG ltN (ks.zip (List.range n))).map (·.1) = List.range n := by
    apply sortG_keys_range
    rw [List.map_fst_zip (by simp [hlen])]
    exact hp
  rw [ho]
  refine ⟨?_, ?_, ?_⟩
  · unfold pick
    rw [List.mapM_map, mapM_ok _ (fun p : Nat × Nat => v p.1)]
    · have e : (List.range n).map v = (sortG ltN (ks.zip (List.range n))).map (fun p => v p.1) := by
        conv => lhs; rw [← hkeys, List.map_map]
        rfl
      rw [e]
    · intro p hp'
      have hm := hS.subset hp'
      rw [← hlen] at hm
      have := mem_zip_range ks p hm
      simp [List.getElem?_map, this, pure, Except.pure]
  · rw [List.length_map, hS.length_eq]; simp [hlen]
  · intro i hi
    obtain ⟨p, hp', rfl⟩ := List.mem_map.mp hi
    exact List.mem_range.mp (List.of_mem_zip (hS.subset hp')).2

/-! ### a text file with its named columns in another order -/

/-- the writer's d + r column names: z y x …, euler_z euler_y euler_x … -/
def colNames (d r : Nat) : List Str := transNames d ++ eulerNames r
/-- the tokens of a row that belong to those columns -/
def Row.colToks (row : Row) : List Str := row.trans ++ row.rot

/-- header with the named columns in the order `perm` (score and detail stay last, as the reader requires) -/
def permHeader (d r : Nat) (perm : List Nat) : List Str :=
  perm.map (fun k => (colNames d r).getD k []) ++ [scoreS, detailS]
def permTokens (perm : List Nat) (row : Row) : List Str :=
  perm.map (fun k => row.colToks.getD k []) ++ [row.score, row.detail]
/-- the file: same lines as `_to_text` would write, columns permuted -/
def writeTextPerm (d r : Nat) (perm : List Nat) (rows : List Row) : Str :=
  renderLines '\t' (permHeader d r perm :: rows.map (permTokens perm))

def tnF (k : Nat) : Str := [naming.getD k 'a']
def enF (k : Nat) : Str := eulerPrefix ++ [naming.getD k 'a']

theorem naming_order : ∀ a, a < 26 → ∀ b, b < 26 →
    strLt (tnF a) (tnF b) = ltN a b ∧ strLt (enF a) (enF b) = ltN a b := by decide +kernel

theorem naming_getD_mem (k : Nat) (hk : k < 26) : naming.getD k 'a' ∈ naming := by
  have : k < naming.length := hk
  simp [List.getD_eq_getElem?_getD, List.getElem?_eq_getElem this]

theorem transNames_getD (d k : Nat) (hd : d ≤ 26) (hk : k < d) : (transNames d).getD k [] = tnF k := by
  have h1 : k < naming.length := by show k < 26; omega
  simp [transNames, tnF, List.getD_eq_getElem?_getD, List.getElem?_take, hk, List.getElem?_eq_getElem h1]

theorem eulerNames_getD (r k : Nat) (hr : r ≤ 26) (hk : k < r) : (eulerNames r).getD k [] = enF k := by
  have h1 : k < naming.length := by show k < 26; omega
  simp [eulerNames, enF, List.getD_eq_getElem?_getD, List.getElem?_take, hk, List.getElem?_eq_getElem h1]

theorem colNames_getD (d r k : Nat) (hd : d ≤ 26) (hr : r ≤ 26) :
    (k < d → (colNames d r).getD k [] = tnF k) ∧ (d ≤ k → k < d + r → (colNames d r).getD k [] = enF (k - d)) := by
  constructor
  · intro hk
    rw [← transNames_getD d k hd hk]
    simp [colNames, List.getD_eq_getElem?_getD, List.getElem?_append_left, transNames_length d hd, hk]
  · intro h1 h2
    rw [← eulerNames_getD r (k - d) hr (by omega)]
    simp [colNames, List.getD_eq_getElem?_getD, List.getElem?_append_right, transNames_length d hd, h1]

theorem selectCols_perm (pred : Str → Bool) (ks : List Nat) (h c : Nat → Str) (q : Nat → Bool)
    (hq : ∀ k ∈ ks, pred (h k) = q k) (htl ctl : List Str) (hn : ∀ x ∈ htl, pred x = false) :
    selectCols pred (ks.map h ++ htl) (ks.map c ++ ctl) = .ok ((ks.filter q).map c) := by
  induction ks with
  | nil => simpa using selectCols_none_nil pred htl ctl hn
  | cons k ks ih =>
    have hk := hq k (by simp)
    have := ih (fun x hx => hq x (by simp [hx]))
    cases hqk : q k with
    | true =>
      rw [hqk] at hk
      simp [selectCols, hk, this, hqk, bind, Except.bind, pure, Except.pure]
    | false =>
      rw [hqk] at hk
      simp [selectCols, hk, this, hqk]

theorem filter_perm_header (pred : Str → Bool) (ks : List Nat) (h : Nat → Str) (q : Nat → Bool)
    (hq : ∀ k ∈ ks, pred (h k) = q k) (htl : List Str) (hn : ∀ x ∈ htl, pred x = false) :
    (ks.map h ++ htl).filter pred = (ks.filter q).map h := by
  have e : htl.filter pred = [] := List.filter_eq_nil_iff.mpr (fun x hx => by simp [hn x hx])
  rw [List.filter_append, e, List.append_nil, List.filter_map]
  congr 1
  apply List.filter_congr
  intro k hk
  exact hq k hk

theorem filter_lt_range (d r : Nat) : (List.range (d + r)).filter (fun k => decide (k < d)) = List.range d := by
  induction r with
  | zero =>
    rw [Nat.add_zero, List.filter_eq_self]
    intro k hk; simpa using hk
  | succ r ih =>
    rw [← Nat.add_assoc, List.range_succ, List.filter_append, ih]
    simp

theorem filter_ge_range (d r : Nat) :
    ((List.range (d + r)).filter (fun k => !decide (k < d))).map (fun k => k - d) = List.range r := by
  induction r with
  | zero =>
    rw [Nat.add_zero, List.filter_eq_nil_iff.mpr]
    · rfl
    · intro k hk; simpa using hk
  | succ r ih =>
    rw [← Nat.add_assoc, List.range_succ, List.filter_append, List.map_append, ih, List.range_succ]
    simp

/-- which of the three header tests a column name passes -/
theorem colNames_pred (d r k : Nat) (hd : d ≤ 26) (hr : r ≤ 26) (hk : k < d + r) :
    isTransName ((colNames d r).getD k []) = decide (k < d) ∧
    isEulerName ((colNames d r).getD k []) = !decide (k < d) ∧
    isSortedEulerName ((colNames d r).getD k []) = !decide (k < d) := by
  by_cases h : k < d
  · rw [(colNames_getD d r k hd hr).1 h]
    have := naming_trans _ (naming_getD_mem k (by omega))
    have hdk : decide (k < d) = true := by simpa using h
    rw [hdk]
    refine ⟨this.1, this.2, ?_⟩
    unfold isSortedEulerName
    rw [show isEulerName (tnF k) = false from this.2]; rfl
  · rw [(colNames_getD d r k hd hr).2 (by omega) hk]
    have := naming_euler _ (naming_getD_mem (k - d) (by omega))
    have hdk : decide (k < d) = false := by simpa using h
    rw [hdk]
    exact ⟨this.1, this.2.1, this.2.2⟩

theorem filter_written_perm (perm : List Nat) (rows : List Row) :
    (rows.map (permTokens perm) ++ [[[]]]).filter (fun c => decide (1 < c.length)) = rows.map (permTokens perm) := by
  rw [List.filter_append, List.filter_eq_self.mpr]
  · simp [List.filter]
  · intro c hc
    obtain ⟨row, _, rfl⟩ := List.mem_map.mp hc
    simp [permTokens]

theorem readTable_permuted (d r : Nat) (hd : d ≤ 26) (hr1 : 1 ≤ r) (hr : r ≤ 26) (perm : List Nat)
    (hp : perm.Perm (List.range (d + r))) (rows : List Row) (ok : ∀ row ∈ rows, RowOk d r row) :
    readTable (permHeader d r perm) (rows.map (permTokens perm) ++ [[[]]]) = .ok (Table.ofRows d r rows) := by
  have hperm : ∀ k ∈ perm, k < d + r := fun k hk => List.mem_range.mp (hp.subset hk)
  have ht := tail_names
  let cn : Nat → Str := fun k => (colNames d r).getD k []
  let pT := perm.filter (fun k => decide (k < d))
  let pR := perm.filter (fun k => !decide (k < d))
  have hpT : pT.Perm (List.range d) := by
    have := hp.filter (fun k => decide (k < d))
    rwa [filter_lt_range] at this
  have hpR : (pR.map (fun k => k - d)).Perm (List.range r) := by
    have := (hp.filter (fun k => !decide (k < d))).map (fun k => k - d)
    rwa [filter_ge_range] at this
  have hpRge : ∀ k ∈ pR, d ≤ k := by
    intro k hk
    have := (List.mem_filter.mp hk).2
    simpa using this
  have hshift : ∀ f : Nat → Str, pR.map f = (pR.map (fun k => k - d)).map (fun j => f (j + d)) := by
    intro f
    rw [List.map_map]
    apply List.map_congr_left
    intro k hk
    have := hpRge k hk
    simp [Nat.sub_add_cancel this]
  -- the header
  have hfT : (permHeader d r perm).filter isTransName = pT.map cn :=
    filter_perm_header _ perm cn _ (fun k hk => (colNames_pred d r k hd hr (hperm k hk)).1) _
      (by intro x hx; simp at hx; rcases hx with rfl | rfl; exact ht.1; exact ht.2.1)
  have hfE : (permHeader d r perm).filter isEulerName = pR.map cn :=
    filter_perm_header _ perm cn _ (fun k hk => (colNames_pred d r k hd hr (hperm k hk)).2.1) _
      (by intro x hx; simp at hx; rcases hx with rfl | rfl; exact ht.2.2.1; exact ht.2.2.2)
  have hfS : (permHeader d r perm).filter isSortedEulerName = pR.map cn :=
    filter_perm_header _ perm cn _ (fun k hk => (colNames_pred d r k hd hr (hperm k hk)).2.2) _
      (by intro x hx; simp at hx; rcases hx with rfl | rfl <;> simp [isSortedEulerName, ht.2.2.1, ht.2.2.2])
  have hlT : (pT.map cn).length = d := by simpa using hpT.length_eq
  have hlR : (pR.map cn).length = r := by simpa using hpR.length_eq
  have hlen : (permHeader d r perm).length = d + r + 2 := by
    simpa [permHeader] using hp.length_eq
  -- the rows
  let rd : Row → Row := fun row =>
    ⟨pT.map (fun k => row.colToks.getD k []), pR.map (fun k => row.colToks.getD k []), row.score, row.detail⟩
  have hrow : ∀ row : Row, readRow (permHeader d r perm) (permTokens perm row) = .ok (rd row) := by
    intro row
    have h1 : selectCols isTransName (permHeader d r perm) (permTokens perm row) = .ok (rd row).trans :=
      selectCols_perm _ perm cn _ _ (fun k hk => (colNames_pred d r k hd hr (hperm k hk)).1) _ _
        (by intro x hx; simp at hx; rcases hx with rfl | rfl; exact ht.1; exact ht.2.1)
    have h2 : selectCols isEulerName (permHeader d r perm) (permTokens perm row) = .ok (rd row).rot :=
      selectCols_perm _ perm cn _ _ (fun k hk => (colNames_pred d r k hd hr (hperm k hk)).2.1) _ _
        (by intro x hx; simp at hx; rcases hx with rfl | rfl; exact ht.2.2.1; exact ht.2.2.2)
    have hl : (permTokens perm row).length = (perm.map (fun k => row.colToks.getD k [])).length + 2 := by
      simp [permTokens]
    have hs := (getD_tail (perm.map (fun k => row.colToks.getD k [])) row.score row.detail)
    unfold readRow
    rw [h1, h2]
    simp only [bind, Except.bind, pure, Except.pure, hl, Nat.add_sub_cancel]
    have e1 : (perm.map (fun k => row.colToks.getD k [])).length + 2 - 1 =
        (perm.map (fun k => row.colToks.getD k [])).length + 1 := by omega
    rw [e1]
    unfold permTokens
    rw [hs.1, hs.2]
  have hrows : (rows.map (permTokens perm)).mapM (readRow (permHeader d r perm)) = .ok (rows.map rd) := by
    rw [List.mapM_map]
    exact mapM_ok _ rd rows (fun row _ => hrow row)
  -- the orders
  have hordT := fun v => sortOrder_restores pT d hpT cn (by
    intro a ha b hb
    show strLt ((colNames d r).getD a []) ((colNames d r).getD b []) = _
    rw [(colNames_getD d r a hd hr).1 ha, (colNames_getD d r b hd hr).1 hb]
    exact (naming_order a (by omega) b (by omega)).1) v
  have hordR := fun v => sortOrder_restores (pR.map (fun k => k - d)) r hpR (fun j => cn (j + d)) (by
    intro a ha b hb
    show strLt ((colNames d r).getD (a + d) []) ((colNames d r).getD (b + d) []) = _
    rw [(colNames_getD d r (a + d) hd hr).2 (by omega) (by omega), (colNames_getD d r (b + d) hd hr).2 (by omega) (by omega),
      Nat.add_sub_cancel, Nat.add_sub_cancel]
    exact (naming_order a (by omega) b (by omega)).2) v
  rw [hshift cn] at hfS
  have hmT : (List.map (fun x : Row => x.trans) (rows.map rd)).mapM (fun x => pick x (sortOrder (pT.map cn)))
      = .ok (rows.map (fun x => x.trans)) := by
    rw [List.mapM_map, List.mapM_map, mapM_ok _ (fun x : Row => x.trans) rows]
    intro row hm
    show pick (pT.map (fun k => row.colToks.getD k [])) _ = _
    rw [(hordT _).1]
    congr 1
    apply List.ext_getElem
    · simp [(ok row hm).lt]
    · intro i h1 h2
      simp at h1
      simp [Row.colToks, List.getD_eq_getElem?_getD, List.getElem?_append_left, (ok row hm).lt, h1]
  have hmR : (List.map (fun x : Row => x.rot) (rows.map rd)).mapM
      (fun x => pick x (sortOrder ((pR.map (fun k => k - d)).map (fun j => cn (j + d)))))
      = .ok (rows.map (fun x => x.rot)) := by
    rw [List.mapM_map, List.mapM_map, mapM_ok _ (fun x : Row => x.rot) rows]
    intro row hm
    show pick (pR.map (fun k => row.colToks.getD k [])) _ = _
    rw [hshift (fun k => row.colToks.getD k []), (hordR _).1]
    congr 1
    apply List.ext_getElem
    · simp [(ok row hm).lr]
    · intro i h1 h2
      simp at h1
      simp [Row.colToks, List.getD_eq_getElem?_getD, List.getElem?_append_right, (ok row hm).lt, List.getElem?_eq_getElem h2]
  have hany : ((sortOrder ((pR.map (fun k => k - d)).map (fun j => cn (j + d)))).any fun i => decide (r ≤ i)) = false := by
    rw [List.any_eq_false]
    intro i hi
    have := (hordR (fun _ => [])).2.2 i hi
    simpa using this
  have hne : (d == d + r + 2) = false := by simp; omega
  have hz : ((rows.map rd).length * r == 0 && (rows.map rd).length != 0) = false := by
    rw [List.length_map]
    cases hn : rows.length with
    | zero => simp
    | succ k =>
      have : (k + 1) * r ≠ 0 := Nat.mul_ne_zero (by omega) (by omega)
      simp [this]
  have hsc : (rows.map rd).map (fun x => x.score) = rows.map (fun x => x.score) := by rw [List.map_map]; rfl
  have hde : (rows.map rd).map (fun x => x.detail) = rows.map (fun x => x.detail) := by rw [List.map_map]; rfl
  unfold readTable
  rw [filter_written_perm, hrows, hfT, hfE, hfS, hlen, hlT, hlR]
  simp only [hne, hz, hmT, hmR, hany, bind, Except.bind, pure, Except.pure, Bool.false_eq_true, if_false,
    (hordT (fun _ => [])).2.1, (hordR (fun _ => [])).2.1, Table.ofRows, hsc, hde]

theorem getD_mem_of_lt (l : List Str) (k : Nat) (h : k < l.length) : l.getD k [] ∈ l := by
  simp [List.getD_eq_getElem?_getD, List.getElem?_eq_getElem h]

theorem map_getD_range (l : List Str) : (List.range l.length).map (fun k => l.getD k []) = l := by
  apply List.ext_getElem
  · simp
  · intro i h1 h2
    simp at h1
    simp [List.getD_eq_getElem?_getD, List.getElem?_eq_getElem h1]

theorem colNames_length (d r : Nat) (hd : d ≤ 26) (hr : r ≤ 26) : (colNames d r).length = d + r := by
  simp [colNames, transNames_length d hd, eulerNames_length r hr]

theorem permHeader_rowWf (d r : Nat) (hd : d ≤ 26) (hr : r ≤ 26) (perm : List Nat) (hp : ∀ k ∈ perm, k < d + r) :
    rowWf (permHeader d r perm) := by
  have hw := header_rowWf d r
  refine ⟨by simp [permHeader], ?_⟩
  intro t ht
  apply hw.2
  simp only [permHeader, List.mem_append, List.mem_map] at ht
  rcases ht with ⟨k, hk, rfl⟩ | ht
  · have := getD_mem_of_lt (colNames d r) k (by rw [colNames_length d r hd hr]; exact hp k hk)
    simp only [colNames, List.mem_append] at this
    simp only [textHeader, List.mem_append]
    exact Or.inl this
  · simp only [textHeader, List.mem_append]
    exact Or.inr ht

theorem permTokens_rowWf (d r : Nat) (perm : List Nat) (hp : ∀ k ∈ perm, k < d + r) (row : Row) (ok : RowOk d r row)
    (hw : ∀ t ∈ row.tokens, tokWf t) : rowWf (permTokens perm row) := by
  refine ⟨by simp [permTokens], ?_⟩
  intro t ht
  apply hw
  simp only [permTokens, List.mem_append, List.mem_map] at ht
  rcases ht with ⟨k, hk, rfl⟩ | ht
  · have := getD_mem_of_lt row.colToks k (by simp [Row.colToks, ok.lt, ok.lr]; exact hp k hk)
    simp only [Row.colToks] at this
    simp only [Row.tokens, List.mem_append]
    exact Or.inl (List.mem_append.mp this)
  · simp only [Row.tokens, List.mem_append]
    exact Or.inr ht

/-- the identity order is the file `_to_text` writes -/
theorem writeTextPerm_id (d r : Nat) (hd : d ≤ 26) (hr : r ≤ 26) (rows : List Row) (ok : ∀ row ∈ rows, RowOk d r row) :
    writeTextPerm d r (List.range (d + r)) rows = writeText d r rows := by
  unfold writeTextPerm writeText
  congr 2
  · unfold permHeader textHeader
    have := map_getD_range (colNames d r)
    rw [colNames_length d r hd hr] at this
    rw [this]; simp [colNames]
  · apply List.map_congr_left
    intro row hm
    unfold permTokens Row.tokens
    have := map_getD_range row.colToks
    have hl : row.colToks.length = d + r := by simp [Row.colToks, (ok row hm).lt, (ok row hm).lr]
    rw [hl] at this
    rw [this]; simp [Row.colToks]

end Pm.C11
