import PytmeModel.Model.C15
import Mathlib.Tactic.Ring

/-! Helper lemmas for the geometry histories of `Props/C15.lean` (extents, origin, rate through
box operations and resampling). -/
namespace Pm.C15

/-- one box operation, all axes: with `origin' = origin + start·rate` the coordinate of new index `i`
is the coordinate of old index `i + start` (lists truncate alike on both sides). -/
theorem gphys_box_aux (o : List Int) (r : List Nat) (b : Box) (idx : List Int) :
    List.zipWith (fun (or : Int × Nat) (i : Int) => or.1 + i * (or.2 : Int))
      (List.zip (List.zipWith (fun (or : Int × Nat) (p : Int × Int) => or.1 + p.1 * (or.2 : Int)) (List.zip o r) b) r) idx =
    List.zipWith (fun (or : Int × Nat) (i : Int) => or.1 + i * (or.2 : Int)) (List.zip o r)
      (List.zipWith (fun (i : Int) (p : Int × Int) => i + p.1) idx b) := by
  induction o generalizing r b idx with
  | nil => simp
  | cons a o ih =>
    cases r with
    | nil => simp
    | cons c r =>
      cases b with
      | nil => simp
      | cons p b =>
        cases idx with
        | nil => simp
        | cons i idx =>
          simp only [List.zip_cons_cons, List.zipWith_cons_cons, ih]
          congr 1
          ring

theorem gphys_box (g : Geo Int) (b : Box) (idx : List Int) :
    gphys (geoStep g (.box b)) idx = gphys g (List.zipWith (fun (i : Int) (p : Int × Int) => i + p.1) idx b) := by
  unfold gphys geoStep
  exact gphys_box_aux g.origin g.rate b idx

theorem geoRun_append (g : Geo Int) (ops1 ops2 : List GOp) :
    geoRun g (ops1 ++ ops2) = geoRun (geoRun g ops1) ops2 := by
  induction ops1 generalizing g with
  | nil => rfl
  | cons op ops ih => simp only [List.cons_append, geoRun, ih]

theorem geoRun_rate_eq (g : Geo Int) (ops : List GOp) : (geoRun g ops).rate = lastRate g.rate ops := by
  induction ops generalizing g with
  | nil => rfl
  | cons op ops ih =>
    cases op with
    | resample nr => simp only [geoRun, lastRate, ih, geoStep, resample]
    | box b => simp only [geoRun, lastRate, ih, geoStep]
    | copy => simp only [geoRun, lastRate, ih, geoStep]

theorem geoRun_gphys (g : Geo Int) (ops : List GOp) (idx : List Int)
    (h : ∀ op ∈ ops, op.isResample = false) :
    gphys (geoRun g ops) idx = gphys g (gtrace ops idx) := by
  induction ops generalizing g with
  | nil => rfl
  | cons op ops ih =>
    have hrest : ∀ op' ∈ ops, op'.isResample = false := fun op' hm => h op' (List.mem_cons_of_mem _ hm)
    cases op with
    | resample nr =>
      have := h (.resample nr) (List.mem_cons_self ..)
      simp [GOp.isResample] at this
    | box b =>
      simp only [geoRun, gtrace]
      rw [ih (geoStep g (.box b)) hrest, gphys_box]
    | copy =>
      simp only [geoRun, gtrace, geoStep]
      exact ih g hrest

end Pm.C15
