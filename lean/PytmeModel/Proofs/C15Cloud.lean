import PytmeModel.Proofs.C15Nd
import Mathlib.Algebra.BigOperators.Group.List.Basic
import Mathlib.Data.List.Nodup
import Mathlib.Logic.Function.Iterate

/-! Point clouds (`to_pointcloud`), `empty`, centre of mass and `to_memmap` / `to_numpy` for `Props/C15.lean`. -/
namespace Pm.C15

/-! ## `allIdx` enumerates the indices of a shape exactly once -/

theorem flatIdx_unflat : ∀ (shape : List Nat) (k : Nat), k < prodL shape → flatIdx shape (unflat shape k) = k
  | [], k, h => by
      have : k = 0 := by simpa [prodL] using h
      simp [flatIdx]
      exact this.symm
  | s :: ss, k, h => by
      have hp : 0 < prodL ss := by
        rcases Nat.eq_zero_or_pos (prodL ss) with h0 | h0
        · simp [prodL, h0] at h
        · exact h0
      simp only [unflat, flatIdx]
      rw [flatIdx_unflat ss (k % prodL ss) (Nat.mod_lt _ hp)]
      exact Nat.div_add_mod' k (prodL ss)

theorem mem_allIdx_iff (shape idx : List Nat) : idx ∈ allIdx shape ↔ inShape shape idx = true := by
  constructor
  · intro h
    unfold allIdx at h
    obtain ⟨k, hk, rfl⟩ := List.mem_map.mp h
    exact inShape_unflat shape k (List.mem_range.mp hk)
  · exact mem_allIdx shape idx

theorem allIdx_nodup (shape : List Nat) : (allIdx shape).Nodup := by
  unfold allIdx
  refine List.Nodup.map_on ?_ List.nodup_range
  intro x hx y hy hxy
  have h1 := flatIdx_unflat shape x (List.mem_range.mp hx)
  have h2 := flatIdx_unflat shape y (List.mem_range.mp hy)
  rw [hxy] at h1
  omega

/-! ## `to_pointcloud` -/

section cloud
variable {α : Type} [LT α] [DecidableLT α]

theorem toPointcloud_mem_iff (a : Arr α) (thr : α) (idx : List Nat) :
    idx ∈ toPointcloud a thr ↔ inShape a.shape idx = true ∧ thr < a.getD idx thr := by
  unfold toPointcloud
  rw [List.mem_filter, mem_allIdx_iff, decide_eq_true_iff]

theorem toPointcloud_nodup' (a : Arr α) (thr : α) : (toPointcloud a thr).Nodup :=
  (allIdx_nodup a.shape).filter _

/-- a point of the cloud of the adjusted array comes from a point of the cloud of the old one -/
theorem cloud_adjust_sound (a : Arr α) (hwf : a.data.size = prodL a.shape) (box : Box) (pad thr : α)
    (hpad : ¬ thr < pad) (hlen : box.length = a.shape.length) (idx : List Nat)
    (h : idx ∈ toPointcloud (adjustData a box pad) thr) :
    ∃ s, srcIdx (plans a.shape box) idx = some s ∧ s ∈ toPointcloud a thr ∧
      (adjustData a box pad).getD idx thr = a.getD s thr := by
  rw [toPointcloud_mem_iff] at h
  obtain ⟨hin, hab⟩ := h
  have hg := adjustData_getD a box pad thr idx hin
  rw [hg] at hab
  cases hs : srcIdx (plans a.shape box) idx with
  | none => rw [hs] at hab; exact absurd hab hpad
  | some s =>
    rw [hs] at hab
    have hsin := (srcIdx_inShape a.shape box idx s hlen hs)
    have e : a.getD s pad = a.getD s thr := getD_default_irrel a hwf s hsin pad thr
    refine ⟨s, rfl, ?_, ?_⟩
    · rw [toPointcloud_mem_iff]
      refine ⟨hsin, ?_⟩
      rw [← e]; exact hab
    · rw [hg, hs]; exact e

end cloud

/-! ## the source index is injective -/

theorem srcOf_inj (p : AxisPlan) (j1 j2 s : Nat) (h1 : p.srcOf j1 = some s) (h2 : p.srcOf j2 = some s) : j1 = j2 := by
  unfold AxisPlan.srcOf at h1 h2
  split at h1 <;> split at h2 <;> simp at h1 h2
  omega

theorem srcIdx_inj : ∀ (ps : List AxisPlan) (i1 i2 s : List Nat),
    srcIdx ps i1 = some s → srcIdx ps i2 = some s → i1 = i2 := by
  intro ps
  induction ps with
  | nil =>
    intro i1 i2 s h1 h2
    cases i1 <;> cases i2 <;> simp [srcIdx] at h1 h2 ⊢
  | cons p ps ih =>
    intro i1 i2 s h1 h2
    cases i1 with
    | nil => simp [srcIdx] at h1
    | cons j1 t1 =>
      cases i2 with
      | nil => simp [srcIdx] at h2
      | cons j2 t2 =>
        simp only [srcIdx] at h1 h2
        cases e1 : p.srcOf j1 <;> cases f1 : srcIdx ps t1 <;> rw [e1, f1] at h1 <;> simp at h1
        cases e2 : p.srcOf j2 <;> cases f2 : srcIdx ps t2 <;> rw [e2, f2] at h2 <;> simp at h2
        subst h1
        injection h2 with ha hb
        subst ha; subst hb
        rw [srcOf_inj p j1 j2 _ e1 e2, ih t1 t2 _ f1 f2]

/-! ## centre of mass: sums over the voxels move with the box -/

theorem sum_map_filter_zero {ι : Type} (l : List ι) (p : ι → Bool) (f : ι → Int)
    (h : ∀ x ∈ l, p x = false → f x = 0) : (l.map f).sum = ((l.filter p).map f).sum := by
  induction l with
  | nil => rfl
  | cons x xs ih =>
    have ih' := ih (fun y hy => h y (List.mem_cons_of_mem _ hy))
    by_cases hp : p x = true
    · simp [hp, ih']
    · have hp' : p x = false := by simpa using hp
      simp [hp', ih', h x List.mem_cons_self hp']

theorem sum_map_mul_sub {ι : Type} (l : List ι) (w g : ι → Int) (k : Int) :
    (l.map (fun s => w s * (g s - k))).sum = (l.map (fun s => w s * g s)).sum - k * (l.map w).sum := by
  induction l with
  | nil => simp
  | cons x xs ih => simp only [List.map_cons, List.sum_cons, ih]; ring

theorem comW_adjust_some (a : Arr Int) (hwf : a.data.size = prodL a.shape) (box : Box) (pad : Int) (cutoff : Option Int)
    (hlen : box.length = a.shape.length) (idx s : List Nat)
    (hin : inShape (adjustData a box pad).shape idx = true) (hs : srcIdx (plans a.shape box) idx = some s) :
    comW (adjustData a box pad) cutoff idx = comW a cutoff s := by
  unfold comW
  rw [adjustData_getD a box pad 0 idx hin, hs]
  show comV cutoff (a.getD s pad) = _
  rw [getD_default_irrel a hwf s (srcIdx_inShape a.shape box idx s hlen hs) pad 0]

theorem comW_adjust_none (a : Arr Int) (box : Box) (pad : Int) (cutoff : Option Int) (hpad : comV cutoff pad = 0)
    (idx : List Nat) (hin : inShape (adjustData a box pad).shape idx = true)
    (hs : srcIdx (plans a.shape box) idx = none) :
    comW (adjustData a box pad) cutoff idx = 0 := by
  unfold comW
  rw [adjustData_getD a box pad 0 idx hin, hs]
  exact hpad

/-- any weighted sum over the voxels of the adjusted array equals the sum over the old array, when the padded
voxels weigh nothing and every voxel that weighs lies inside the box -/
theorem sum_adjust (a : Arr Int) (hwf : a.data.size = prodL a.shape) (box : Box) (pad : Int) (cutoff : Option Int)
    (hlen : box.length = a.shape.length) (hstop : ∀ b ∈ box, 0 ≤ b.2) (hpad : comV cutoff pad = 0)
    (hsupp : ∀ s, inShape a.shape s = true → comW a cutoff s ≠ 0 →
      List.Forall₂ (fun (x : Nat) (b : Int × Int) => b.1 ≤ (x : Int) ∧ (x : Int) < b.2) s box)
    (g g' : List Nat → Int) (hg : ∀ idx s, srcIdx (plans a.shape box) idx = some s → g' idx = g s) :
    ((allIdx (adjustData a box pad).shape).map (fun idx => comW (adjustData a box pad) cutoff idx * g' idx)).sum =
      ((allIdx a.shape).map (fun s => comW a cutoff s * g s)).sum := by
  let A' := adjustData a box pad
  let p' : List Nat → Bool := fun idx => decide (comW A' cutoff idx ≠ 0)
  let p : List Nat → Bool := fun s => decide (comW a cutoff s ≠ 0)
  let φ : List Nat → List Nat := fun idx => (srcIdx (plans a.shape box) idx).getD []
  have K : ∀ idx, idx ∈ (allIdx A'.shape).filter p' →
      ∃ s, srcIdx (plans a.shape box) idx = some s ∧ inShape a.shape s = true ∧ comW a cutoff s = comW A' cutoff idx ∧
        comW A' cutoff idx ≠ 0 := by
    intro idx h
    rw [List.mem_filter, mem_allIdx_iff] at h
    obtain ⟨hin, hp⟩ := h
    have hne : comW A' cutoff idx ≠ 0 := by simpa [p'] using hp
    cases hs : srcIdx (plans a.shape box) idx with
    | none => exact absurd (comW_adjust_none a box pad cutoff hpad idx hin hs) hne
    | some s =>
      exact ⟨s, rfl, srcIdx_inShape a.shape box idx s hlen hs,
        (comW_adjust_some a hwf box pad cutoff hlen idx s hin hs).symm, hne⟩
  have hperm : ((allIdx A'.shape).filter p').map φ |>.Perm ((allIdx a.shape).filter p) := by
    rw [List.perm_ext_iff_of_nodup]
    · intro s
      constructor
      · intro h
        obtain ⟨idx, hi, rfl⟩ := List.mem_map.mp h
        obtain ⟨s, hs, hsin, hw, hne⟩ := K idx hi
        have : φ idx = s := by simp [φ, hs]
        rw [this, List.mem_filter, mem_allIdx_iff]
        refine ⟨hsin, ?_⟩
        simp only [p, decide_eq_true_eq]
        rw [hw]; exact hne
      · intro h
        rw [List.mem_filter, mem_allIdx_iff] at h
        obtain ⟨hsin, hp⟩ := h
        have hne : comW a cutoff s ≠ 0 := by simpa [p] using hp
        obtain ⟨idx, h1, _, h3⟩ := conserve_aux a.shape box s hstop hsin (hsupp s hsin hne)
        have hsrc : srcIdx (plans a.shape box) idx = some s := by
          rw [srcIdx_eq_shiftIdx a.shape box idx hlen hstop h1, h3]
        refine List.mem_map.mpr ⟨idx, ?_, by simp [φ, hsrc]⟩
        rw [List.mem_filter, mem_allIdx_iff]
        refine ⟨h1, ?_⟩
        simp only [p', decide_eq_true_eq]
        rw [show comW A' cutoff idx = comW a cutoff s from comW_adjust_some a hwf box pad cutoff hlen idx s h1 hsrc]
        exact hne
    · refine List.Nodup.map_on ?_ ((allIdx_nodup _).filter _)
      intro x hx y hy hxy
      obtain ⟨s1, hs1, _, _, _⟩ := K x hx
      obtain ⟨s2, hs2, _, _, _⟩ := K y hy
      have e1 : φ x = s1 := by simp [φ, hs1]
      have e2 : φ y = s2 := by simp [φ, hs2]
      rw [e1, e2] at hxy
      subst hxy
      exact srcIdx_inj _ x y s1 hs1 hs2
    · exact (allIdx_nodup _).filter _
  rw [sum_map_filter_zero (allIdx A'.shape) p' (fun idx => comW A' cutoff idx * g' idx)
        (by intro x _ hx; have : comW A' cutoff x = 0 := by simpa [p'] using hx
            simp [this]),
      sum_map_filter_zero (allIdx a.shape) p (fun s => comW a cutoff s * g s)
        (by intro x _ hx; have : comW a cutoff x = 0 := by simpa [p] using hx
            simp [this]),
      ← (hperm.map (fun s => comW a cutoff s * g s)).sum_eq, List.map_map]
  congr 1
  refine List.map_congr_left ?_
  intro idx hi
  obtain ⟨s, hs, _, hw, _⟩ := K idx hi
  have : φ idx = s := by simp [φ, hs]
  simp only [Function.comp, this, hw, hg idx s hs]

/-- the index along axis `ax` of the source voxel is the new index plus the start of the box -/
theorem srcIdx_getD : ∀ (shape : List Nat) (box : Box) (idx s : List Nat) (ax : Nat),
    box.length = shape.length → srcIdx (plans shape box) idx = some s → ax < box.length →
    ((s.getD ax 0 : Nat) : Int) = ((idx.getD ax 0 : Nat) : Int) + (box.getD ax (0, 0)).1 := by
  intro shape
  induction shape with
  | nil => intro box idx s ax hlen _ hax; simp at hlen; simp [hlen] at hax
  | cons n ns ih =>
    intro box idx s ax hlen h hax
    cases box with
    | nil => simp at hlen
    | cons b bs =>
      cases idx with
      | nil => simp [plans_cons, srcIdx] at h
      | cons j js =>
        rw [plans_cons] at h
        simp only [srcIdx] at h
        cases e1 : (adjustAxis n b.1 b.2).srcOf j <;> cases f1 : srcIdx (plans ns bs) js <;> rw [e1, f1] at h <;> simp at h
        subst h
        cases ax with
        | zero =>
          simp only [List.getD_cons_zero]
          exact (adjustAxis_srcOf_some n b.1 b.2 j _ e1).1
        | succ k =>
          simp only [List.getD_cons_succ]
          exact ih bs js _ k (by simpa using hlen) f1 (by simpa using hax)

/-! ## a growing `pad` keeps every voxel -/

theorem padBoxAxis_grow (center : Bool) (n new : Nat) (h : n ≤ new) :
    (padBoxAxis center n new).1 ≤ 0 ∧ (n : Int) ≤ (padBoxAxis center n new).2 ∧ 0 ≤ (padBoxAxis center n new).2 := by
  unfold padBoxAxis
  cases center <;> simp only [if_true, Bool.false_eq_true, if_false] <;> omega

theorem padBox_contains (center : Bool) (shape newShape : List Nat) (hg : List.Forall₂ (fun n m => n ≤ m) shape newShape) :
    ∀ s, inShape shape s = true →
      List.Forall₂ (fun (x : Nat) (b : Int × Int) => b.1 ≤ (x : Int) ∧ (x : Int) < b.2) s (Dens.padBox center shape newShape) := by
  induction hg with
  | nil =>
    intro s hs
    cases s with
    | nil => exact List.Forall₂.nil
    | cons _ _ => simp [inShape] at hs
  | @cons n m ns ms hnm _ ih =>
    intro s hs
    cases s with
    | nil => simp [inShape] at hs
    | cons x xs =>
      rw [inShape_cons] at hs
      have := padBoxAxis_grow center n m hnm
      exact List.Forall₂.cons ⟨by omega, by omega⟩ (ih xs hs.2)

theorem padBox_stop_nonneg (center : Bool) (shape newShape : List Nat) (hg : List.Forall₂ (fun n m => n ≤ m) shape newShape) :
    ∀ b ∈ Dens.padBox center shape newShape, 0 ≤ b.2 := by
  induction hg with
  | nil => intro b hb; simp [Dens.padBox] at hb
  | @cons n m ns ms hnm _ ih =>
    intro b hb
    simp only [Dens.padBox, List.zipWith_cons_cons, List.mem_cons] at hb
    rcases hb with rfl | hb
    · exact (padBoxAxis_grow center n m hnm).2.2
    · exact ih b hb

theorem padBox_length (center : Bool) (shape newShape : List Nat) (h : newShape.length = shape.length) :
    (Dens.padBox center shape newShape).length = shape.length := by
  simp [Dens.padBox, h]

/-! ## `core_mask` -/

theorem coreLoop_shape : ∀ (f : Nat) (m : Arr Bool) (acc : Arr Nat), (coreLoop f m acc).shape = acc.shape
  | 0, _, _ => rfl
  | f + 1, m, acc => by
      unfold coreLoop
      split
      · rw [coreLoop_shape f]; rfl
      · rfl

theorem erode_sub (m : Arr Bool) (idx : List Nat) (hin : inShape m.shape idx = true)
    (h : (erode m).getD idx false = true) : m.getD idx false = true := by
  unfold erode at h
  rw [Arr.getD_ofFn _ _ _ _ hin, Bool.and_eq_true] at h
  exact h.1

theorem any_of_getD (m : Arr Bool) (idx : List Nat) (h : m.getD idx false = true) : m.data.toList.any id = true := by
  unfold Arr.getD at h
  split at h
  · rw [List.any_eq_true]
    by_cases hlt : flatIdx m.shape idx < m.data.size
    · refine ⟨m.data[flatIdx m.shape idx], by simp, ?_⟩
      simpa [Array.getD, hlt] using h
    · simp [Array.getD, hlt] at h
  · simp at h

theorem coreLoop_spec : ∀ (f : Nat) (m : Arr Bool) (acc : Arr Nat), m.shape = acc.shape →
    ∀ idx, inShape acc.shape idx = true →
      acc.getD idx 0 ≤ (coreLoop f m acc).getD idx 0 ∧
      (acc.getD idx 0 < (coreLoop f m acc).getD idx 0 → m.getD idx false = true) ∧
      (0 < f → m.getD idx false = true → acc.getD idx 0 < (coreLoop f m acc).getD idx 0) := by
  intro f
  induction f with
  | zero => intro m acc _ idx _; simp [coreLoop]
  | succ f ih =>
    intro m acc hsh idx hin
    unfold coreLoop
    by_cases hany : m.data.toList.any id = true
    · rw [if_pos hany]
      have hacc' : (Arr.ofFn acc.shape (fun idx => acc.getD idx 0 + (if m.getD idx false then 1 else 0))).getD idx 0 =
          acc.getD idx 0 + (if m.getD idx false then 1 else 0) := Arr.getD_ofFn _ _ _ _ hin
      obtain ⟨i1, i2, _⟩ := ih (erode m) (Arr.ofFn acc.shape (fun idx => acc.getD idx 0 + (if m.getD idx false then 1 else 0)))
        (by show m.shape = acc.shape; exact hsh) idx hin
      rw [hacc'] at i1 i2
      refine ⟨by omega, ?_, ?_⟩
      · intro hlt
        by_cases hm : m.getD idx false = true
        · exact hm
        · simp only [hm, if_false, Bool.false_eq_true] at i1 i2
          exact erode_sub m idx (by rw [hsh]; exact hin) (i2 (by omega))
      · intro _ hm
        simp only [hm, if_true] at i1
        omega
    · rw [if_neg hany]
      refine ⟨Nat.le_refl _, fun h => absurd h (Nat.lt_irrefl _), ?_⟩
      intro _ hm
      exact absurd (any_of_getD m idx hm) hany

/-! ### how many erosions a voxel survives -/

theorem getD_true_inShape (m : Arr Bool) (idx : List Nat) (h : m.getD idx false = true) : inShape m.shape idx = true := by
  unfold Arr.getD at h
  split at h
  · assumption
  · simp at h

theorem iter_erode_shape (k : Nat) (m : Arr Bool) : (erode^[k] m).shape = m.shape := by
  induction k generalizing m with
  | zero => rfl
  | succ k ih => rw [Function.iterate_succ_apply, ih]; rfl

theorem iter_erode_sub (k : Nat) (m : Arr Bool) (idx : List Nat) (h : (erode^[k] m).getD idx false = true) :
    m.getD idx false = true := by
  induction k generalizing m with
  | zero => exact h
  | succ k ih =>
    rw [Function.iterate_succ_apply] at h
    have h1 := ih (erode m) h
    exact erode_sub m idx (getD_true_inShape (erode m) idx h1) h1

/-- value of the loop: the accumulator plus the number of rounds `k < fuel` in which the voxel is still in the mask -/
theorem coreLoop_count : ∀ (f : Nat) (m : Arr Bool) (acc : Arr Nat), m.shape = acc.shape →
    ∀ idx, inShape acc.shape idx = true →
      (coreLoop f m acc).getD idx 0 =
        acc.getD idx 0 + ((List.range f).filter (fun k => (erode^[k] m).getD idx false)).length := by
  intro f
  induction f with
  | zero => intro m acc _ idx _; simp [coreLoop]
  | succ f ih =>
    intro m acc hsh idx hin
    unfold coreLoop
    by_cases hany : m.data.toList.any id = true
    · rw [if_pos hany]
      have hacc' : (Arr.ofFn acc.shape (fun idx => acc.getD idx 0 + (if m.getD idx false then 1 else 0))).getD idx 0 =
          acc.getD idx 0 + (if m.getD idx false then 1 else 0) := Arr.getD_ofFn _ _ _ _ hin
      rw [ih (erode m) (Arr.ofFn acc.shape (fun idx => acc.getD idx 0 + (if m.getD idx false then 1 else 0)))
            (by show m.shape = acc.shape; exact hsh) idx hin, hacc', List.range_succ_eq_map, List.filter_cons]
      simp only [Function.iterate_zero, id_eq]
      by_cases hm : m.getD idx false = true
      · simp only [hm, if_true, List.length_cons, List.filter_map, List.length_map, Function.comp_def,
          Function.iterate_succ_apply]
        omega
      · simp only [hm, if_false, Bool.false_eq_true, List.filter_map, List.length_map, Function.comp_def,
          Function.iterate_succ_apply]
        omega
    · rw [if_neg hany]
      have hz : ∀ k, (erode^[k] m).getD idx false = false := by
        intro k
        cases hk : (erode^[k] m).getD idx false with
        | false => rfl
        | true => exact absurd (any_of_getD m idx (iter_erode_sub k m idx hk)) hany
      simp [hz]

theorem erode_getD (M : Arr Bool) (idx : List Nat) (hin : inShape M.shape idx = true) :
    (erode M).getD idx false = (M.getD idx false && (List.range M.shape.length).all (fun ax =>
      decide (0 < idx.getD ax 0) && M.getD (idx.set ax (idx.getD ax 0 - 1)) false &&
        M.getD (idx.set ax (idx.getD ax 0 + 1)) false)) :=
  Arr.getD_ofFn _ _ _ _ hin

/-- a voxel still in the mask after `k` erosions is at least `k` voxels away from both ends of every axis -/
theorem iter_erode_border (k : Nat) (m : Arr Bool) (idx : List Nat) (ax : Nat) (hax : ax < m.shape.length)
    (h : (erode^[k] m).getD idx false = true) :
    k ≤ idx.getD ax 0 ∧ idx.getD ax 0 + k < m.shape.getD ax 0 := by
  induction k generalizing idx with
  | zero =>
    have hin := getD_true_inShape m idx h
    refine ⟨Nat.zero_le _, ?_⟩
    have : ∀ (shape idx : List Nat) (ax : Nat), ax < shape.length → inShape shape idx = true →
        idx.getD ax 0 < shape.getD ax 0 := by
      intro shape
      induction shape with
      | nil => intro idx ax h; simp at h
      | cons n ns ihs =>
        intro idx ax h hi
        cases idx with
        | nil => simp [inShape] at hi
        | cons j js =>
          rw [inShape_cons] at hi
          cases ax with
          | zero => simpa using hi.1
          | succ a => simpa using ihs js a (by simpa using h) hi.2
    simpa using this m.shape idx ax hax hin
  | succ k ih =>
    rw [Function.iterate_succ_apply'] at h
    have hin : inShape (erode^[k] m).shape idx = true := by
      have := getD_true_inShape _ idx h
      exact this
    rw [erode_getD _ idx hin, Bool.and_eq_true, List.all_eq_true] at h
    have hax' : ax ∈ List.range (erode^[k] m).shape.length := by
      rw [iter_erode_shape]; exact List.mem_range.mpr hax
    have h2 := h.2 ax hax'
    simp only [Bool.and_eq_true, decide_eq_true_eq] at h2
    obtain ⟨⟨hpos, hl⟩, hr⟩ := h2
    have hlen : ax < idx.length := by
      rw [inShape_length hin, iter_erode_shape]; exact hax
    have b1 := ih (idx.set ax (idx.getD ax 0 - 1)) hl
    have b2 := ih (idx.set ax (idx.getD ax 0 + 1)) hr
    have e1 : (idx.set ax (idx.getD ax 0 - 1)).getD ax 0 = idx.getD ax 0 - 1 := by
      simp [List.getD_eq_getElem?_getD, List.getElem?_set_self hlen]
    have e2 : (idx.set ax (idx.getD ax 0 + 1)).getD ax 0 = idx.getD ax 0 + 1 := by
      simp [List.getD_eq_getElem?_getD, List.getElem?_set_self hlen]
    rw [e1] at b1; rw [e2] at b2
    omega

theorem filter_range_length_le (p : Nat → Bool) (B : Nat) (hp : ∀ k, p k = true → k < B) :
    ∀ f, ((List.range f).filter p).length ≤ B := by
  intro f
  have hsub : ∀ f, ((List.range f).filter p).length ≤ min f B := by
    intro f
    induction f with
    | zero => simp
    | succ f ih =>
      rw [List.range_succ, List.filter_append, List.length_append]
      by_cases hpf : p f = true
      · have := hp f hpf
        simp only [List.filter_cons, hpf, if_true, List.filter_nil, List.length_cons, List.length_nil]
        omega
      · simp only [List.filter_cons, hpf, if_false, List.filter_nil, List.length_nil, Bool.false_eq_true]
        omega
  exact Nat.le_trans (hsub f) (Nat.min_le_right _ _)

theorem filter_range_stable (p : Nat → Bool) (f : Nat) (hp : ∀ k, f ≤ k → p k = false) :
    ∀ K, f ≤ K → ((List.range K).filter p).length = ((List.range f).filter p).length := by
  intro K hK
  induction K with
  | zero => have : f = 0 := by omega
            subst this; rfl
  | succ K ih =>
    by_cases hf : f = K + 1
    · subst hf; rfl
    · rw [List.range_succ, List.filter_append, List.length_append, ih (by omega)]
      simp [hp K (by omega)]

theorem first_le_prodL (n : Nat) (ns : List Nat) (idx : List Nat) (h : inShape (n :: ns) idx = true) :
    n ≤ prodL (n :: ns) := by
  cases idx with
  | nil => simp [inShape] at h
  | cons j js =>
    rw [inShape_cons] at h
    have hpos : 0 < prodL ns := Nat.lt_of_le_of_lt (Nat.zero_le _) (flatIdx_lt h.2)
    exact Nat.le_mul_of_pos_right n hpos

/-! ### `core_mask` moves with a zero-padding box -/

/-- read a mask of the old box through the source index (background where there is none) -/
def embB (M : Arr Bool) (ps : List AxisPlan) (idx : List Nat) : Bool :=
  match srcIdx ps idx with
  | some s => M.getD s false
  | none => false

theorem inShape_getD_lt : ∀ (shape idx : List Nat) (ax : Nat), ax < shape.length → inShape shape idx = true →
    idx.getD ax 0 < shape.getD ax 0 := by
  intro shape
  induction shape with
  | nil => intro idx ax h; simp at h
  | cons n ns ihs =>
    intro idx ax h hi
    cases idx with
    | nil => simp [inShape] at hi
    | cons j js =>
      rw [inShape_cons] at hi
      cases ax with
      | zero => simpa using hi.1
      | succ a => simpa using ihs js a (by simpa using h) hi.2

theorem srcIdx_new_inShape : ∀ (ps : List AxisPlan) (idx s : List Nat), srcIdx ps idx = some s →
    inShape (ps.map AxisPlan.newLen) idx = true := by
  intro ps
  induction ps with
  | nil => intro idx s h; cases idx <;> simp [srcIdx] at h; rfl
  | cons p ps ih =>
    intro idx s h
    cases idx with
    | nil => simp [srcIdx] at h
    | cons j js =>
      simp only [srcIdx] at h
      cases e1 : p.srcOf j <;> cases f1 : srcIdx ps js <;> rw [e1, f1] at h <;> simp at h
      rw [List.map_cons, inShape_cons]
      refine ⟨?_, ih js _ f1⟩
      unfold AxisPlan.srcOf at e1
      unfold AxisPlan.newLen
      split at e1
      · omega
      · simp at e1

theorem srcIdx_old_inShape (shape : List Nat) (ps : List AxisPlan)
    (hps : List.Forall₂ (fun (n : Nat) (p : AxisPlan) => p.src = 0 ∧ p.len = n) shape ps) :
    ∀ (idx s : List Nat), srcIdx ps idx = some s → inShape shape s = true := by
  induction hps with
  | nil => intro idx s h; cases idx <;> simp [srcIdx] at h; subst h; rfl
  | @cons n p ns ps hp _ ih =>
    intro idx s h
    cases idx with
    | nil => simp [srcIdx] at h
    | cons j js =>
      simp only [srcIdx] at h
      cases e1 : p.srcOf j <;> cases f1 : srcIdx ps js <;> rw [e1, f1] at h <;> simp at h
      subst h
      rw [inShape_cons]
      refine ⟨?_, ih js _ f1⟩
      unfold AxisPlan.srcOf at e1
      split at e1
      · simp at e1; omega
      · simp at e1

theorem srcIdx_axis : ∀ (ps : List AxisPlan) (idx s : List Nat) (ax : Nat), srcIdx ps idx = some s → ax < ps.length →
    (ps.getD ax ⟨0, 0, 0, 0⟩).srcOf (idx.getD ax 0) = some (s.getD ax 0) := by
  intro ps
  induction ps with
  | nil => intro idx s ax _ h; simp at h
  | cons p ps ih =>
    intro idx s ax h hax
    cases idx with
    | nil => simp [srcIdx] at h
    | cons j js =>
      simp only [srcIdx] at h
      cases e1 : p.srcOf j <;> cases f1 : srcIdx ps js <;> rw [e1, f1] at h <;> simp at h
      subst h
      cases ax with
      | zero => simpa using e1
      | succ a => simpa using ih js _ a f1 (by simpa using hax)

theorem srcIdx_set : ∀ (ps : List AxisPlan) (idx s : List Nat) (ax j : Nat), srcIdx ps idx = some s → ax < ps.length →
    srcIdx ps (idx.set ax j) = ((ps.getD ax ⟨0, 0, 0, 0⟩).srcOf j).map (fun t => s.set ax t) := by
  intro ps
  induction ps with
  | nil => intro idx s ax j _ h; simp at h
  | cons p ps ih =>
    intro idx s ax j h hax
    cases idx with
    | nil => simp [srcIdx] at h
    | cons i is =>
      simp only [srcIdx] at h
      cases e1 : p.srcOf i <;> cases f1 : srcIdx ps is <;> rw [e1, f1] at h <;> simp at h
      subst h
      cases ax with
      | zero =>
        simp only [List.set_cons_zero, srcIdx, f1, List.getD_cons_zero]
        cases p.srcOf j <;> rfl
      | succ a =>
        simp only [List.set_cons_succ, srcIdx, e1, List.getD_cons_succ]
        rw [ih is _ a j f1 (by simpa using hax)]
        cases (ps.getD a ⟨0, 0, 0, 0⟩).srcOf j <;> rfl

theorem forall₂_getD {A B : Type} {R : A → B → Prop} {l1 : List A} {l2 : List B} (h : List.Forall₂ R l1 l2)
    (a : A) (b : B) : ∀ ax, ax < l1.length → R (l1.getD ax a) (l2.getD ax b) := by
  induction h with
  | nil => intro ax h; simp at h
  | cons hab _ ih =>
    intro ax hax
    cases ax with
    | zero => simpa using hab
    | succ k => simpa using ih k (by simpa using hax)

theorem getD_set_out (M : Arr Bool) (s : List Nat) (ax t : Nat) (hax : ax < s.length) (hl : s.length = M.shape.length)
    (ht : M.shape.getD ax 0 ≤ t) : M.getD (s.set ax t) false = false := by
  cases h : M.getD (s.set ax t) false with
  | false => rfl
  | true =>
    exfalso
    have hin := getD_true_inShape M _ h
    have := inShape_getD_lt M.shape (s.set ax t) ax (by omega) hin
    have e : (s.set ax t).getD ax 0 = t := by
      simp [List.getD_eq_getElem?_getD, List.getElem?_set_self hax]
    omega

theorem all_congr' {ι : Type} (l : List ι) (f g : ι → Bool) (h : ∀ x ∈ l, f x = g x) : l.all f = l.all g := by
  induction l with
  | nil => rfl
  | cons x xs ih =>
    simp only [List.all_cons, h x List.mem_cons_self, ih (fun y hy => h y (List.mem_cons_of_mem _ hy))]

theorem embB_set (M : Arr Bool) (ps : List AxisPlan) (idx s : List Nat) (ax j : Nat)
    (hs : srcIdx ps idx = some s) (hax : ax < ps.length) :
    embB M ps (idx.set ax j) =
      match (ps.getD ax ⟨0, 0, 0, 0⟩).srcOf j with
      | some t => M.getD (s.set ax t) false
      | none => false := by
  unfold embB
  rw [srcIdx_set ps idx s ax j hs hax]
  cases (ps.getD ax ⟨0, 0, 0, 0⟩).srcOf j <;> rfl

/-- erosion commutes with reading through a box that only adds background -/
theorem erode_emb (shape : List Nat) (ps : List AxisPlan)
    (hps : List.Forall₂ (fun (n : Nat) (p : AxisPlan) => p.src = 0 ∧ p.len = n) shape ps)
    (M' M : Arr Bool) (hM' : M'.shape = ps.map AxisPlan.newLen) (hM : M.shape = shape)
    (R : ∀ idx, M'.getD idx false = embB M ps idx) :
    ∀ idx, (erode M').getD idx false = embB (erode M) ps idx := by
  intro idx
  by_cases hin : inShape M'.shape idx = true
  · rw [erode_getD M' idx hin]
    simp only [R]
    cases hs : srcIdx ps idx with
    | none => simp [embB, hs]
    | some s =>
      have hsin : inShape M.shape s = true := by rw [hM]; exact srcIdx_old_inShape shape ps hps idx s hs
      have hlen1 : M'.shape.length = ps.length := by rw [hM']; simp
      have hlen2 : M.shape.length = ps.length := by rw [hM]; exact hps.length_eq
      have e0 : embB M ps idx = M.getD s false := by simp [embB, hs]
      have e1 : embB (erode M) ps idx = (erode M).getD s false := by simp [embB, hs]
      rw [e0, e1, erode_getD M s hsin, hlen1, hlen2]
      congr 1
      refine all_congr' _ _ _ ?_
      intro ax hax
      have hax' : ax < ps.length := List.mem_range.mp hax
      have f1 := srcIdx_axis ps idx s ax hs hax'
      have hp := forall₂_getD hps 0 (⟨0, 0, 0, 0⟩ : AxisPlan) ax (by rw [hps.length_eq]; exact hax')
      have hn : M.shape.getD ax 0 = shape.getD ax 0 := by rw [hM]
      have hsl : s.length = M.shape.length := inShape_length hsin
      rw [embB_set M ps idx s ax _ hs hax', embB_set M ps idx s ax _ hs hax']
      generalize ps.getD ax ⟨0, 0, 0, 0⟩ = p at f1 hp
      obtain ⟨hp1, hp2⟩ := hp
      unfold AxisPlan.srcOf at f1 ⊢
      split at f1
      · rename_i hr
        simp only [Option.some.injEq] at f1
        -- lower neighbour
        have hL : (decide (0 < idx.getD ax 0) &&
            (match (if p.left ≤ idx.getD ax 0 - 1 ∧ idx.getD ax 0 - 1 < p.left + p.len
                then some (p.src + (idx.getD ax 0 - 1 - p.left)) else none) with
              | some t => M.getD (s.set ax t) false
              | none => false)) =
            (decide (0 < s.getD ax 0) && M.getD (s.set ax (s.getD ax 0 - 1)) false) := by
          by_cases hlo : p.left < idx.getD ax 0
          · have c1 : p.left ≤ idx.getD ax 0 - 1 ∧ idx.getD ax 0 - 1 < p.left + p.len := by omega
            have c2 : p.src + (idx.getD ax 0 - 1 - p.left) = s.getD ax 0 - 1 := by omega
            have c3 : 0 < idx.getD ax 0 := by omega
            have c4 : 0 < s.getD ax 0 := by omega
            simp only [c1, and_self, if_true, c2, c3, c4, decide_true]
          · have c4 : ¬ 0 < s.getD ax 0 := by omega
            by_cases hz : 0 < idx.getD ax 0
            · have c1 : ¬ (p.left ≤ idx.getD ax 0 - 1 ∧ idx.getD ax 0 - 1 < p.left + p.len) := by omega
              simp only [c1, if_false, c4, decide_false, Bool.false_and, Bool.and_false]
            · simp only [hz, c4, decide_false, Bool.false_and]
        have hU : (match (if p.left ≤ idx.getD ax 0 + 1 ∧ idx.getD ax 0 + 1 < p.left + p.len
                then some (p.src + (idx.getD ax 0 + 1 - p.left)) else none) with
              | some t => M.getD (s.set ax t) false
              | none => false) = M.getD (s.set ax (s.getD ax 0 + 1)) false := by
          by_cases hup : idx.getD ax 0 + 1 < p.left + p.len
          · have c1 : p.left ≤ idx.getD ax 0 + 1 ∧ idx.getD ax 0 + 1 < p.left + p.len := by omega
            have c2 : p.src + (idx.getD ax 0 + 1 - p.left) = s.getD ax 0 + 1 := by omega
            simp only [c1, and_self, if_true, c2]
          · have c1 : ¬ (p.left ≤ idx.getD ax 0 + 1 ∧ idx.getD ax 0 + 1 < p.left + p.len) := by omega
            simp only [c1, if_false]
            exact (getD_set_out M s ax _ (by rw [hsl, hlen2]; exact hax') hsl (by rw [hn]; omega)).symm
        rw [hL, hU]
      · simp at f1
  · have h1 : (erode M').getD idx false = false := by
      unfold Arr.getD
      have : inShape (erode M').shape idx = false := by
        show inShape M'.shape idx = false
        simpa using hin
      simp [this]
    rw [h1]
    cases hs : srcIdx ps idx with
    | none => simp [embB, hs]
    | some s =>
      exfalso
      apply hin
      rw [hM']
      exact srcIdx_new_inShape ps idx s hs

theorem iter_erode_emb (shape : List Nat) (ps : List AxisPlan)
    (hps : List.Forall₂ (fun (n : Nat) (p : AxisPlan) => p.src = 0 ∧ p.len = n) shape ps)
    (M' M : Arr Bool) (hM' : M'.shape = ps.map AxisPlan.newLen) (hM : M.shape = shape)
    (R : ∀ idx, M'.getD idx false = embB M ps idx) (k : Nat) :
    ∀ idx, (erode^[k] M').getD idx false = embB (erode^[k] M) ps idx := by
  induction k with
  | zero => exact R
  | succ k ih =>
    rw [Function.iterate_succ_apply', Function.iterate_succ_apply']
    exact erode_emb shape ps hps _ _ (by rw [iter_erode_shape]; exact hM') (by rw [iter_erode_shape]; exact hM) ih

theorem plans_extending : ∀ (shape : List Nat) (box : Box),
    List.Forall₂ (fun (n : Nat) (b : Int × Int) => b.1 ≤ 0 ∧ (n : Int) ≤ b.2) shape box →
    List.Forall₂ (fun (n : Nat) (p : AxisPlan) => p.src = 0 ∧ p.len = n) shape (plans shape box) := by
  intro shape box h
  induction h with
  | nil => exact List.Forall₂.nil
  | @cons n b ns bs hb _ ih =>
    rw [plans_cons]
    refine List.Forall₂.cons ?_ ih
    have := (adjustAxis_fields n b.1 b.2).2.1 (by omega)
    omega

theorem getD_out {α : Type} (A : Arr α) (idx : List Nat) (d : α) (h : inShape A.shape idx = false) : A.getD idx d = d := by
  unfold Arr.getD
  simp [h]

/-! ## the setters -/

theorem length_flatMap_replicate {β : Type} (l : List β) (k : Nat) :
    (l.flatMap (fun x => List.replicate k x)).length = l.length * k := by
  induction l with
  | nil => simp
  | cons x xs ih => simp only [List.flatMap_cons, List.length_append, List.length_replicate, ih, List.length_cons, Nat.succ_mul]; omega

theorem setterAxes_props {β : Type} (ndim : Nat) (l r : List β) :
    (broadcastAxes ndim l = some r → setterAxes ndim l = some r) ∧
    (setterAxes ndim l = some r → (r.length = ndim ↔ broadcastAxes ndim l = some r)) ∧
    (setterAxes ndim l = some r → r.length = l.length * (ndim / l.length)) := by
  unfold broadcastAxes setterAxes
  by_cases h0 : l.length = 0
  · simp [h0]
  · simp only [h0, if_false]
    refine ⟨?_, ?_, ?_⟩
    · intro h
      split at h
      · exact h
      · simp at h
    · intro h
      simp only [Option.some.injEq] at h
      subst h
      constructor
      · intro hl; simp [hl]
      · intro hb
        split at hb
        · assumption
        · simp at hb
    · intro h
      simp only [Option.some.injEq] at h
      subst h
      exact length_flatMap_replicate l _

/-! ## `to_memmap` / `to_numpy` on the heap -/

section heap
variable {γ : Type} [Inhabited γ]

theorem remapD_spec (h : Heap γ) (d : DRef) (fresh : Bool) (hwf : ∀ r ∈ d.refs, r < h.cells.length) :
    let r := (remapD h d fresh).2
    let h' := (remapD h d fresh).1
    (r.origin = d.origin ∧ r.rate = d.rate ∧ r.md = d.md) ∧
    h'.read r.data = h.read d.data ∧
    (∀ s ∈ d.refs, h'.read s = h.read s) ∧
    (fresh = true → ∀ s ∈ d.refs, r.data ≠ s) ∧ (fresh = false → r = d ∧ h'.cells = h.cells) := by
  cases fresh with
  | false => simp [remapD]
  | true =>
    simp only [remapD]
    refine ⟨⟨rfl, rfl, rfl⟩, read_alloc_new h _, ?_, ?_, by simp⟩
    · intro s hs; exact read_alloc_lt h _ s (hwf s hs)
    · intro _ s hs
      have := hwf s hs
      simp only [Heap.alloc, if_true]
      omega

end heap

end Pm.C15
