import PytmeModel.Model.C05
import PytmeModel.Proofs.Common
import Mathlib.Tactic.Ring
import Mathlib.Tactic.Linarith

/-! Helper lemmas for C05: distance filter, top-k, `_update`. -/
namespace Pm.C05

/-! ## squared distance -/

theorem d2_comm : ∀ p q : List Int, d2 p q = d2 q p
  | [], [] => rfl
  | [], _ :: _ => rfl
  | _ :: _, [] => rfl
  | a :: as, b :: bs => by
      simp only [d2, d2_comm as bs]; ring

theorem d2_nonneg : ∀ p q : List Int, 0 ≤ d2 p q
  | [], [] => by simp [d2]
  | [], _ :: _ => by simp [d2]
  | _ :: _, [] => by simp [d2]
  | a :: as, b :: bs => by
      simp only [d2]
      have := d2_nonneg as bs
      have := mul_self_nonneg (a - b)
      linarith

theorem far_comm (md : Nat) (p q : List Int) : far md p q = far md q p := by
  unfold far; rw [d2_comm]

/-- what the C++ test means: kept pairs are strictly farther apart than `min_distance`
(Euclidean; in fact at least `min_distance + 1`). -/
theorem far_sep {md : Nat} {p q : List Int} (h : far md p q = true) :
    (md : Int) * (md : Int) < d2 p q := by
  unfold far at h
  have h' := of_decide_eq_true h
  have : ((md : Int) + 1) * ((md : Int) + 1) = (md : Int) * (md : Int) + 2 * (md : Int) + 1 := by ring
  have hm : (0 : Int) ≤ (md : Int) := Int.natCast_nonneg md
  linarith

/-- the relation the reported list satisfies pairwise -/
def FarP (md : Nat) (a b : Peak) : Prop := far md a.pos b.pos = true

/-! ## greedy pass -/

theorem greedyAux_pairwise (md : Nat) : ∀ (rest kept : List Peak),
    kept.Pairwise (FarP md) → (greedyAux md kept rest).Pairwise (FarP md)
  | [], kept, h => by simpa [greedyAux] using h
  | x :: xs, kept, h => by
      unfold greedyAux
      split
      · rename_i hall
        apply greedyAux_pairwise md xs
        rw [List.pairwise_append]
        refine ⟨h, List.pairwise_singleton _ _, ?_⟩
        intro a ha b hb
        simp only [List.mem_singleton] at hb
        subst hb
        have := (List.all_eq_true.mp hall) a ha
        unfold FarP; rw [far_comm]; exact this
      · exact greedyAux_pairwise md xs kept h

theorem greedyAux_mem (md : Nat) : ∀ (rest kept : List Peak) (p : Peak),
    p ∈ greedyAux md kept rest → p ∈ kept ∨ p ∈ rest
  | [], kept, p, h => by left; simpa [greedyAux] using h
  | x :: xs, kept, p, h => by
      unfold greedyAux at h
      split at h
      · rcases greedyAux_mem md xs _ p h with h1 | h1
        · rcases List.mem_append.mp h1 with h2 | h2
          · exact Or.inl h2
          · right; simp only [List.mem_singleton] at h2; simp [h2]
        · right; exact List.mem_cons_of_mem _ h1
      · rcases greedyAux_mem md xs _ p h with h1 | h1
        · exact Or.inl h1
        · right; exact List.mem_cons_of_mem _ h1

theorem greedyAux_kept (md : Nat) : ∀ (rest kept : List Peak) (p : Peak),
    p ∈ kept → p ∈ greedyAux md kept rest
  | [], kept, p, h => by simpa [greedyAux] using h
  | x :: xs, kept, p, h => by
      unfold greedyAux
      split
      · exact greedyAux_kept md xs _ p (List.mem_append_left _ h)
      · exact greedyAux_kept md xs _ p h

theorem greedyAux_length (md : Nat) : ∀ (rest kept : List Peak),
    (greedyAux md kept rest).length ≤ kept.length + rest.length
  | [], kept => by simp [greedyAux]
  | x :: xs, kept => by
      unfold greedyAux
      split
      · have := greedyAux_length md xs (kept ++ [x])
        simp only [List.length_append, List.length_cons, List.length_nil] at this ⊢
        omega
      · have := greedyAux_length md xs kept
        simp only [List.length_cons]; omega

theorem filterPoints_mem {md : Nat} {xs : List Peak} {p : Peak} (h : p ∈ filterPoints md xs) : p ∈ xs := by
  unfold filterPoints at h
  split at h
  · exact h
  · rcases greedyAux_mem md xs [] p h with h1 | h1
    · simp at h1
    · exact h1

theorem filterPoints_length (md : Nat) (xs : List Peak) : (filterPoints md xs).length ≤ xs.length := by
  unfold filterPoints
  split
  · exact Nat.le_refl _
  · have := greedyAux_length md xs []
    simpa using this

theorem filterPoints_pairwise {md : Nat} (hmd : 0 < md) (xs : List Peak) :
    (filterPoints md xs).Pairwise (FarP md) := by
  unfold filterPoints
  rw [if_neg (by omega)]
  exact greedyAux_pairwise md xs [] List.Pairwise.nil

/-- the first element in score order always survives -/
theorem filterPoints_head (md : Nat) (x : Peak) (xs : List Peak) : x ∈ filterPoints md (x :: xs) := by
  unfold filterPoints
  split
  · simp
  · unfold greedyAux
    simp only [List.all_nil, if_true]
    exact greedyAux_kept md xs _ x (by simp)

/-! ## top-k -/

/-- What the theorems need from a `topk_indices(scores, k)` answer: at most `k` valid indices and,
when something is requested of a non-empty array, a global maximiser first.  Implied by the full
contract `isTopK` that the harness checks on every recorded answer (`TopkOk_of_isTopK`), and met
by the deterministic `topkSort` (`topkSort_ok`). -/
def TopkOk (scores : List Int) (k : Nat) (order : List Nat) : Prop :=
  order.length ≤ k ∧ (∀ i ∈ order, i < scores.length) ∧
  (0 < k → 0 < scores.length → ∃ i0 rest, order = i0 :: rest ∧
      ∀ j, j < scores.length → scores.getD j 0 ≤ scores.getD i0 0)

theorem mem_insDesc (s : Nat → Int) (i x : Nat) : ∀ l : List Nat, x ∈ insDesc s i l ↔ x = i ∨ x ∈ l
  | [] => by simp [insDesc]
  | j :: js => by
      unfold insDesc
      split
      · simp
      · simp only [List.mem_cons, mem_insDesc s i x js]
        constructor
        · rintro (h | h | h)
          · exact Or.inr (Or.inl h)
          · exact Or.inl h
          · exact Or.inr (Or.inr h)
        · rintro (h | h | h)
          · exact Or.inr (Or.inl h)
          · exact Or.inl h
          · exact Or.inr (Or.inr h)

theorem mem_sortDescL (s : Nat → Int) (x : Nat) : ∀ l : List Nat, x ∈ sortDescL s l ↔ x ∈ l
  | [] => by simp [sortDescL]
  | i :: is => by
      simp only [sortDescL, mem_insDesc, mem_sortDescL s x is, List.mem_cons]

/-- descending: every later index scores at most as much as every earlier one -/
def Desc (s : Nat → Int) (l : List Nat) : Prop := l.Pairwise (fun a b => s b ≤ s a)

theorem insDesc_desc (s : Nat → Int) (i : Nat) : ∀ l : List Nat, Desc s l → Desc s (insDesc s i l)
  | [], _ => by simp [insDesc, Desc]
  | j :: js, h => by
      unfold insDesc
      have hj := List.pairwise_cons.mp h
      split
      · rename_i hlt
        unfold Desc
        rw [List.pairwise_cons]
        refine ⟨?_, h⟩
        intro b hb
        rcases List.mem_cons.mp hb with rfl | hb'
        · omega
        · have := hj.1 b hb'; omega
      · rename_i hge
        unfold Desc
        rw [List.pairwise_cons]
        refine ⟨?_, insDesc_desc s i js hj.2⟩
        intro b hb
        rcases (mem_insDesc s i b js).mp hb with rfl | hb'
        · omega
        · exact hj.1 b hb'

theorem sortDescL_desc (s : Nat → Int) : ∀ l : List Nat, Desc s (sortDescL s l)
  | [] => by simp [sortDescL, Desc]
  | i :: is => insDesc_desc s i _ (sortDescL_desc s is)

theorem length_insDesc (s : Nat → Int) (i : Nat) : ∀ l : List Nat, (insDesc s i l).length = l.length + 1
  | [] => by simp [insDesc]
  | j :: js => by
      unfold insDesc
      split
      · simp
      · simp [length_insDesc s i js]

theorem length_sortDescL (s : Nat → Int) : ∀ l : List Nat, (sortDescL s l).length = l.length
  | [] => by simp [sortDescL]
  | i :: is => by simp [sortDescL, length_insDesc, length_sortDescL s is]

/-- the deterministic top-k meets the contract -/
theorem topkSort_ok (scores : List Int) (k : Nat) : TopkOk scores k (topkSort scores k) := by
  unfold topkSort sortDesc
  set s := fun i => scores.getD i 0 with hs
  refine ⟨List.length_take_le _ _, ?_, ?_⟩
  · intro i hi
    have := List.mem_of_mem_take hi
    rw [mem_sortDescL] at this
    simpa using this
  · intro hk hn
    have hlen := length_sortDescL s (List.range scores.length)
    have hdesc := sortDescL_desc s (List.range scores.length)
    match hl : sortDescL s (List.range scores.length) with
    | [] => rw [hl] at hlen; simp at hlen; omega
    | i0 :: rest =>
      obtain ⟨k', rfl⟩ : ∃ k', k = k' + 1 := ⟨k - 1, by omega⟩
      refine ⟨i0, rest.take k', by simp [List.take], ?_⟩
      intro j hj
      have hjmem : j ∈ sortDescL s (List.range scores.length) := by
        rw [mem_sortDescL]; simpa using hj
      rw [hl] at hjmem hdesc
      rcases List.mem_cons.mp hjmem with rfl | hj'
      · exact Int.le_refl _
      · exact (List.pairwise_cons.mp hdesc).1 j hj'

theorem selectTopk_none_ok (scores : List Int) (k : Nat) : TopkOk scores k (selectTopk scores k none) :=
  topkSort_ok scores k

theorem descB_head (s : Nat → Int) : ∀ (a : Nat) (r : List Nat), descB s (a :: r) = true → ∀ x ∈ r, s x ≤ s a
  | _, [], _, x, hx => by simp at hx
  | a, b :: r, h, x, hx => by
      simp only [descB, Bool.and_eq_true, decide_eq_true_eq] at h
      rcases List.mem_cons.mp hx with rfl | hx'
      · exact h.1
      · have := descB_head s b r h.2 x hx'; omega

/-- the contract checked by the harness on every recorded library answer implies what the theorems use -/
theorem TopkOk_of_isTopK {scores : List Int} {k : Nat} {order : List Nat}
    (h : isTopK scores k order = true) : TopkOk scores k order := by
  unfold isTopK at h
  simp only [Bool.and_eq_true, decide_eq_true_eq, List.all_eq_true] at h
  obtain ⟨⟨⟨⟨hlen, hval⟩, _⟩, hdesc⟩, hout⟩ := h
  refine ⟨by omega, hval, ?_⟩
  intro hk _
  match order, hlen, hval, hdesc, hout with
  | [], hlen, _, _, _ => simp at hlen; omega
  | i0 :: rest, _, _, hdesc, hout =>
    refine ⟨i0, rest, rfl, ?_⟩
    intro j hj
    have := hout j (by simpa using hj)
    simp only [Bool.or_eq_true, List.contains_eq_mem, decide_eq_true_eq, List.all_eq_true] at this
    rcases this with hmem | hall
    · rcases List.mem_cons.mp hmem with rfl | hr
      · exact Int.le_refl _
      · exact descB_head _ i0 rest hdesc j hr
    · exact hall i0 (by simp)

/-! ## `_update` -/

theorem getD_map_score (l : List Peak) (j : Nat) (h : j < l.length) :
    (l.map (·.score)).getD j 0 = l[j].score := by
  simp [List.getD_eq_getElem?_getD, h]

theorem update_mem {cfg : Cfg} {st cands : List Peak} {o : Option (List Nat)} {p : Peak}
    (h : p ∈ update cfg st cands o) : p ∈ st ∨ p ∈ cands := by
  unfold update at h
  have h1 := filterPoints_mem h
  rw [List.mem_filterMap] at h1
  obtain ⟨i, _, hi⟩ := h1
  have : p ∈ st ++ cands := List.mem_of_getElem? hi
  exact List.mem_append.mp this

theorem update_pairwise {cfg : Cfg} (hmd : 0 < cfg.minDist) (st cands : List Peak) (o : Option (List Nat)) :
    (update cfg st cands o).Pairwise (FarP cfg.minDist) := by
  unfold update
  exact filterPoints_pairwise hmd _

theorem update_length_le {cfg : Cfg} {st cands : List Peak} {o : Option (List Nat)}
    (hok : TopkOk ((st ++ cands).map (·.score)) (min (st ++ cands).length cfg.nPeaks)
      (selectTopk ((st ++ cands).map (·.score)) (min (st ++ cands).length cfg.nPeaks) o)) :
    (update cfg st cands o).length ≤ cfg.nPeaks := by
  unfold update
  have h1 := filterPoints_length cfg.minDist
    ((selectTopk ((st ++ cands).map (·.score)) (min (st ++ cands).length cfg.nPeaks) o).filterMap
      (fun i => (st ++ cands)[i]?))
  have h2 := List.length_filterMap_le (fun i => (st ++ cands)[i]?)
    (selectTopk ((st ++ cands).map (·.score)) (min (st ++ cands).length cfg.nPeaks) o)
  have h3 := hok.1
  simp only at h1 h2 h3 ⊢
  omega

/-- the best of everything seen so far and everything new is reported -/
theorem update_max {cfg : Cfg} {st cands : List Peak} {o : Option (List Nat)}
    (hn : 0 < cfg.nPeaks) (hne : st ++ cands ≠ [])
    (hok : TopkOk ((st ++ cands).map (·.score)) (min (st ++ cands).length cfg.nPeaks)
      (selectTopk ((st ++ cands).map (·.score)) (min (st ++ cands).length cfg.nPeaks) o)) :
    ∃ p ∈ update cfg st cands o, ∀ q ∈ st ++ cands, q.score ≤ p.score := by
  have hlen : 0 < (st ++ cands).length := List.length_pos_iff.mpr hne
  obtain ⟨_, hval, hmax⟩ := hok
  obtain ⟨i0, rest, horder, hbest⟩ := hmax (by omega) (by simpa using hlen)
  have hi0 : i0 < (st ++ cands).length := by
    have := hval i0 (by rw [horder]; simp)
    simpa using this
  refine ⟨(st ++ cands)[i0], ?_, ?_⟩
  · unfold update
    simp only
    rw [horder, List.filterMap_cons]
    have : (st ++ cands)[i0]? = some (st ++ cands)[i0] := List.getElem?_eq_getElem hi0
    rw [this]
    exact filterPoints_head _ _ _
  · intro q hq
    obtain ⟨j, hj, rfl⟩ := List.getElem_of_mem hq
    have := hbest j (by simpa using hj)
    rw [getD_map_score _ j hj, getD_map_score _ i0 hi0] at this
    exact this

end Pm.C05
