import PytmeModel.Model.C10K
import PytmeModel.Proofs.C10
import Mathlib.Data.Rat.Floor
import Mathlib.Tactic.Linarith
import Mathlib.Tactic.Ring
import Mathlib.Tactic.FieldSimp
import Mathlib.Tactic.Positivity

/-! helper lemmas for the kernel part of C10 -/
namespace Pm.C10

/-- offset of voxel `v` from voxel `p` -/
def offs (v p : List Int) : List Int := List.zipWith (· - ·) v p

/-- the window `|v - p| ≤ k` on every axis -/
def inWin : List Int → List Int → List Int → Bool
  | p :: ps, k :: ks, v :: vs => (decide (p - k ≤ v) && decide (v ≤ p + k)) && inWin ps ks vs
  | [], [], [] => true
  | _, _, _ => false

theorem ceilQ_eq (q : Rat) : ceilQ q = ⌈q⌉ := by
  unfold ceilQ
  rw [floor_eq, Int.floor_neg, neg_neg]

/-! ### the sphere predicate -/

theorem sphereSum_nonneg : ∀ (d k : List Int), 0 ≤ sphereSum d k
  | [], _ => by simp [sphereSum]
  | _ :: _, [] => by simp [sphereSum]
  | d :: ds, k :: ks => by
      simp only [sphereSum]
      have := sphereSum_nonneg ds ks
      have := mul_self_nonneg ((d : Rat) / (k : Rat))
      linarith

theorem sphereSum_neg : ∀ (d k : List Int), sphereSum (d.map (fun x => -x)) k = sphereSum d k
  | [], _ => by simp [sphereSum]
  | _ :: _, [] => by simp [sphereSum]
  | d :: ds, k :: ks => by
      simp only [List.map_cons, sphereSum, sphereSum_neg ds ks]
      push_cast
      ring

theorem sphereSum_zero : ∀ (n : Nat) (k : List Int), sphereSum (List.replicate n 0) k = 0
  | 0, _ => by simp [sphereSum]
  | n + 1, [] => by simp [List.replicate_succ, sphereSum]
  | n + 1, k :: ks => by simp [List.replicate_succ, sphereSum, sphereSum_zero n ks]

theorem inSphere_cons {k d : Int} {ks ds : List Int} (h : inSphere (k :: ks) (d :: ds) = true) :
    (0 < k ∧ -k ≤ d ∧ d ≤ k) ∧ inSphere ks ds = true := by
  unfold inSphere at h ⊢
  simp only [List.all_cons, Bool.and_eq_true, decide_eq_true_eq, sphereSum] at h ⊢
  obtain ⟨⟨hk, hall⟩, hs⟩ := h
  have hs := of_decide_eq_true hs
  have hn := sphereSum_nonneg ds ks
  have hq := mul_self_nonneg ((d : Rat) / (k : Rat))
  have hkq : (0 : Rat) < (k : Rat) := by exact_mod_cast hk
  have h1 : ((d : Rat) / (k : Rat)) * ((d : Rat) / (k : Rat)) ≤ 1 := by linarith
  have h2 : (d : Rat) * (d : Rat) ≤ (k : Rat) * (k : Rat) := by
    have e : ((d : Rat) / (k : Rat)) * ((d : Rat) / (k : Rat)) = ((d : Rat) * (d : Rat)) / ((k : Rat) * (k : Rat)) := by
      field_simp
    rw [e, div_le_one (by positivity)] at h1
    exact h1
  have h3 : d * d ≤ k * k := by exact_mod_cast h2
  refine ⟨⟨hk, ?_, ?_⟩, ⟨hall, by linarith⟩⟩
  · nlinarith
  · nlinarith

/-- a voxel of the sphere is within the radius on every axis: the footprint array `mgrid[-k:k+1]` does not truncate it -/
theorem inSphere_inWin : ∀ (p k v : List Int), k.length = p.length → p.length = v.length →
    inSphere k (offs v p) = true → inWin p k v = true
  | [], [], [], _, _, _ => rfl
  | [], _ :: _, _, h, _, _ => by simp at h
  | _ :: _, [], _, h, _, _ => by simp at h
  | [], [], _ :: _, _, h, _ => by simp at h
  | _ :: _, _ :: _, [], _, h, _ => by simp at h
  | p :: ps, k :: ks, v :: vs, h1, h2, h => by
      simp only [offs, List.zipWith_cons_cons] at h
      obtain ⟨⟨_, ha, hb⟩, hr⟩ := inSphere_cons h
      have ih := inSphere_inWin ps ks vs (by simpa using h1) (by simpa using h2) hr
      simp only [inWin, Bool.and_eq_true, decide_eq_true_eq]
      exact ⟨⟨by omega, by omega⟩, ih⟩

/-! ### slices -/

theorem vdwAxis_ok (p k n : Int) (hp0 : 0 ≤ p) (hpn : p < n) (hk : 0 ≤ k) : (vdwAxis p k n).ok k n = true := by
  simp only [AxisSlice.ok, vdwAxis, sliceLen, Bool.and_eq_true]
  refine ⟨⟨⟨⟨?_, ?_⟩, ?_⟩, ?_⟩, ?_⟩ <;> (apply decide_eq_true; omega)

theorem slicesOk_of_inBox : ∀ (p k shape : List Int), inBox shape p = true → (∀ x ∈ k, 0 ≤ x) →
    slicesOk p k shape = true
  | [], _, _, _, _ => by simp [slicesOk]
  | _ :: _, [], _, _, _ => by simp [slicesOk]
  | _ :: _, _ :: _, [], _, _ => by simp [slicesOk]
  | p :: ps, k :: ks, n :: ns, h, hk => by
      obtain ⟨⟨h0, h1⟩, hr⟩ := inBox_cons.mp h
      simp only [slicesOk, Bool.and_eq_true]
      exact ⟨vdwAxis_ok p k n h0 h1 (hk k (by simp)),
        slicesOk_of_inBox ps ks ns hr (fun x hx => hk x (by simp [hx]))⟩

/-- what the two slices do, seen from a voxel: `v` is written iff it is in the box and in the window, and the
footprint entry added to it is the one at offset `v - p` -/
theorem vdwSrc_some : ∀ (p k shape v j : List Int), vdwSrc p k shape v = some j →
    inBox shape v = true ∧ inWin p k v = true ∧ List.zipWith (· - ·) j k = offs v p := by
  intro p k shape v
  fun_induction vdwSrc p k shape v with
  | case1 p ps k ks n ns v vs s hcond js hrec ih =>
      intro j hj
      simp only [Option.some.injEq] at hj
      subst hj
      obtain ⟨a, b, c⟩ := ih js hrec
      simp only [s, vdwAxis] at hcond
      refine ⟨inBox_cons.mpr ⟨by omega, a⟩, ?_, ?_⟩
      · simp only [inWin, Bool.and_eq_true, decide_eq_true_eq]; exact ⟨by omega, b⟩
      · simp only [offs, List.zipWith_cons_cons, List.cons.injEq] at c ⊢
        refine ⟨?_, c⟩
        simp only [s, vdwAxis]; omega
  | case2 => intro j hj; simp at hj
  | case3 => intro j hj; simp at hj
  | case4 => intro j hj; simp only [Option.some.injEq] at hj; subst hj; simp [inBox, inWin, offs]
  | case5 => intro j hj; simp at hj

theorem vdwSrc_none : ∀ (p k shape v : List Int), vdwSrc p k shape v = none →
    inBox shape v = false ∨ inWin p k v = false := by
  intro p k shape v
  fun_induction vdwSrc p k shape v with
  | case1 p ps k ks n ns v vs s hcond js hrec ih => intro h; simp at h
  | case2 p ps k ks n ns v vs s hcond hrec ih =>
      intro _
      rcases ih hrec with h | h
      · left; simp [inBox, h]
      · right; simp [inWin, h]
  | case3 p ps k ks n ns v vs s hcond =>
      intro _
      simp only [s, vdwAxis] at hcond
      by_cases hb : 0 ≤ v ∧ v < n
      · right
        simp only [inWin, Bool.and_eq_false_iff, decide_eq_false_iff_not]
        left
        by_cases h1 : p - k ≤ v
        · right; omega
        · left; exact h1
      · left
        simp only [inBox, Bool.and_eq_false_iff, decide_eq_false_iff_not]
        left
        by_cases h1 : 0 ≤ v
        · right; omega
        · left; exact h1
  | case4 => intro h; simp at h
  | case5 p k shape v hne hnil =>
      intro _
      -- the four lists do not have one common length
      match p, k, shape, v, hne, hnil with
      | [], [], [], [], _, hnil => exact (hnil rfl rfl rfl rfl).elim
      | _ :: _, _ :: _, _ :: _, _ :: _, hne, _ => exact (hne _ _ _ _ _ _ _ _ rfl rfl rfl rfl).elim
      | [], _, _, _ :: _, _, _ => right; cases k <;> simp [inWin]
      | _ :: _, _, _, [], _, _ => right; cases k <;> simp [inWin]
      | [], _ :: _, _, [], _, _ => right; simp [inWin]
      | [], [], _ :: _, [], _, _ => left; simp [inBox]
      | _ :: _, [], _, _ :: _, _, _ => right; simp [inWin]
      | _ :: _, _ :: _, [], _ :: _, _, _ => left; simp [inBox]

theorem inBox_length : ∀ {s p : List Int}, inBox s p = true → p.length = s.length
  | [], [], _ => rfl
  | [], _ :: _, h => by simp [inBox] at h
  | _ :: _, [], h => by simp [inBox] at h
  | _ :: _, _ :: _, h => by
      have := inBox_length (inBox_cons.mp h).2
      simp [this]

/-- one atom, through the slices: the voxel gets 1 iff it is in the box and inside the sphere around the atom's voxel -/
theorem vdwContribution_eq (shape p k v : List Int) (hk : k.length = p.length) (hp : p.length = shape.length) :
    vdwContribution shape p k v = if inBox shape v && inSphere k (offs v p) then 1 else 0 := by
  unfold vdwContribution
  cases h : vdwSrc p k shape v with
  | some j =>
    obtain ⟨a, _, c⟩ := vdwSrc_some p k shape v j h
    simp only [footprintAt, c, a, Bool.true_and]
  | none =>
    simp only
    rcases vdwSrc_none p k shape v h with a | b
    · simp [a]
    · have : inBox shape v = false ∨ inSphere k (offs v p) = false := by
        by_cases hb : inBox shape v = true
        · right
          have hl : p.length = v.length := by
            have := inBox_length hb
            omega
          by_contra hc
          have hc' : inSphere k (offs v p) = true := by simpa using hc
          have := inSphere_inWin p k v hk hl hc'
          rw [b] at this; exact Bool.false_ne_true this
        · left; simpa using hb
      rcases this with a | a <;> simp [a]

theorem vdwDeposit_ok (shape : List Int) (placedK : List (List Int × List Int))
    (hp : ∀ pk ∈ placedK, inBox shape pk.1 = true) (hk : ∀ pk ∈ placedK, ∀ x ∈ pk.2, 0 ≤ x) :
    vdwDeposit shape placedK = .ok (Arr.ofFn (toNats shape) (fun v =>
      (placedK.map (fun pk => vdwContribution shape pk.1 pk.2 (v.map Int.ofNat))).sum)) := by
  unfold vdwDeposit
  rw [if_pos]
  rw [List.all_eq_true]
  intro pk h
  exact slicesOk_of_inBox pk.1 pk.2 shape (hp pk h) (hk pk h)

theorem ceilQ_nonneg (q : Rat) (h : 0 ≤ q) : 0 ≤ ceilQ q := by
  rw [ceilQ_eq]; exact Int.ceil_nonneg h

theorem vdwRadius_nonneg (vdwr : Nat) (rate : List Rat) (hr : ∀ x ∈ rate, 0 < x) : ∀ k ∈ vdwRadius vdwr rate, 0 ≤ k := by
  intro k hk
  simp only [vdwRadius, List.mem_map] at hk
  obtain ⟨r, hr', rfl⟩ := hk
  apply ceilQ_nonneg
  have := hr r hr'
  positivity

theorem vdwRadius_pos (vdwr : Nat) (rate : List Rat) (hv : 0 < vdwr) (hr : ∀ x ∈ rate, 0 < x) :
    ∀ k ∈ vdwRadius vdwr rate, 0 < k := by
  intro k hk
  simp only [vdwRadius, List.mem_map] at hk
  obtain ⟨r, hr', rfl⟩ := hk
  rw [ceilQ_eq]
  apply Int.ceil_pos.mpr
  have := hr r hr'
  have : (0 : Rat) < (vdwr : Rat) := by exact_mod_cast hv
  positivity

/-! ### sums over a dense array -/

theorem ofFn_sum (shape : List Nat) (f : List Nat → Int) :
    (Arr.ofFn shape f).data.toList.sum = ((allIdx shape).map f).sum := by
  simp only [Arr.ofFn, allIdx, Array.toList_ofFn, List.map_map]
  rw [List.ofFn_eq_map]
  congr 1
  rw [← List.map_coe_finRange_eq_range, List.map_map]
  rfl

theorem sum_map_sum_comm {α β : Type} (l : List α) (m : List β) (g : β → α → Int) :
    (l.map (fun v => (m.map (fun a => g a v)).sum)).sum = (m.map (fun a => (l.map (fun v => g a v)).sum)).sum := by
  induction m with
  | nil => simp
  | cons a t ih =>
    simp only [List.map_cons, List.sum_cons]
    rw [← ih, ← List.sum_map_add]

/-! ### scattering support -/

/-- the voxels of one axis: exactly the in-range integers `v` with `p - R ≤ v` and `v + 1 ≤ p + R` -/
theorem scatRange_spec (p : Int) (R : Rat) (n v : Int) :
    ((scatRange p R n).1 ≤ v ∧ v < (scatRange p R n).2) ↔
      (0 ≤ v ∧ v < n) ∧ ((p : Rat) - R ≤ (v : Rat) ∧ (v : Rat) + 1 ≤ (p : Rat) + R) := by
  simp only [scatRange]
  rw [ceilQ_eq, floor_eq]
  have h1 : ⌈(p : Rat) - R⌉ ≤ v ↔ (p : Rat) - R ≤ (v : Rat) := Int.ceil_le
  have h2 : v + 1 ≤ ⌊(p : Rat) + R⌋ ↔ ((v + 1 : Int) : Rat) ≤ (p : Rat) + R := Int.le_floor
  have h3 : ((v + 1 : Int) : Rat) = (v : Rat) + 1 := by push_cast; ring
  rw [h3] at h2
  constructor
  · rintro ⟨a, b⟩
    exact ⟨⟨by omega, by omega⟩, h1.mp (by omega), h2.mp (by omega)⟩
  · rintro ⟨⟨a, b⟩, c, d⟩
    have := h1.mpr c
    have := h2.mpr d
    constructor <;> omega

theorem inRanges_inBox : ∀ (p : List Int) (R : List Rat) (shape v : List Int),
    p.length = shape.length → R.length = shape.length →
    inRanges (zip3 scatRange p R shape) v = true → inBox shape v = true
  | [], [], [], [], _, _, _ => rfl
  | [], [], [], _ :: _, _, _, h => by simp [zip3, inRanges] at h
  | _ :: _, _, [], _, h, _, _ => by simp at h
  | [], _, _ :: _, _, h, _, _ => by simp at h
  | _, [], _ :: _, _, _, h, _ => by simp at h
  | _, _ :: _, [], _, _, h, _ => by simp at h
  | _ :: _, _ :: _, _ :: _, [], _, _, h => by simp [zip3, inRanges] at h
  | p :: ps, R :: Rs, n :: ns, v :: vs, h1, h2, h => by
      simp only [zip3, inRanges, Bool.and_eq_true, decide_eq_true_eq] at h
      obtain ⟨⟨a, b⟩, hr⟩ := h
      have := (scatRange_spec p R n v).mp ⟨a, b⟩
      exact inBox_cons.mpr ⟨this.1, inRanges_inBox ps Rs ns vs (by simpa using h1) (by simpa using h2) hr⟩

/-! ### molmap -/

theorem rint_ge_of_le (q : Rat) (m : Int) (h : (m : Rat) ≤ q) : m ≤ rint q := by
  have := (rint_bounds q).1
  have h2 : (m : Rat) - 1/2 ≤ (rint q : Rat) := by linarith
  by_contra hc
  have : rint q + 1 ≤ m := by omega
  have : ((rint q + 1 : Int) : Rat) ≤ (m : Rat) := by exact_mod_cast this
  push_cast at this
  linarith

def molOrigin (nd pad : Nat) (rate : List Rat) (coords : List (List Rat)) : List Rat :=
  zip3 (fun (m : Rat) (r : Rat) (_ : Unit) => m - (pad : Rat) * r)
    ((List.range nd).map (fun k => minQ (col 0 k coords))) rate (List.replicate nd ())

theorem molmap_origin (nd pad : Nat) (rate : List Rat) (coords : List (List Rat)) (w : List Int) :
    (molmap nd pad rate coords w).origin = molOrigin nd pad rate coords := rfl

theorem molmap_positions (nd pad : Nat) (rate : List Rat) (coords : List (List Rat)) (w : List Int) :
    (molmap nd pad rate coords w).positions = coords.map (idxOf (molOrigin nd pad rate coords) rate) := rfl

theorem molmap_shape (nd pad : Nat) (rate : List Rat) (coords : List (List Rat)) (w : List Int) :
    (molmap nd pad rate coords w).shape = (List.range nd).map (fun k =>
      maxL (col 0 k (coords.map (idxOf (molOrigin nd pad rate coords) rate))) + (pad : Int) + 1) := rfl

theorem molOrigin_length (nd pad : Nat) (rate : List Rat) (coords : List (List Rat)) (hr : rate.length = nd) :
    (molOrigin nd pad rate coords).length = nd :=
  zip3_length _ _ _ _ nd (by simp) hr (by simp)

/-- every atom sits at least `pad` voxels from the low faces and `pad` voxels from the high faces -/
theorem molmap_margin (nd pad : Nat) (rate : List Rat) (coords : List (List Rat)) (w : List Int)
    (hrl : rate.length = nd) (hrp : ∀ k, k < nd → 0 < rate.getD k 0) (c : List Rat) (hc : c ∈ coords)
    (hcl : c.length = nd) (k : Nat) (hk : k < nd) :
    (pad : Int) ≤ (idxOf (molmap nd pad rate coords w).origin rate c).getD k 0 ∧
    (idxOf (molmap nd pad rate coords w).origin rate c).getD k 0 + (pad : Int) < (molmap nd pad rate coords w).shape.getD k 0 := by
  rw [molmap_origin, molmap_shape]
  have hol := molOrigin_length nd pad rate coords hrl
  constructor
  · unfold idxOf
    rw [zip3_getD axisIdx 0 0 0 0 _ _ _ k (by omega) (by omega) (by omega)]
    unfold molOrigin
    rw [zip3_getD _ 0 0 () 0 _ _ _ k (by simp; omega) (by omega) (by simp; omega), range_map_getD _ _ _ _ hk]
    have hmin := minQ_le _ _ (mem_col (0 : Rat) k coords c hc)
    have hr := hrp k hk
    unfold axisIdx
    apply rint_ge_of_le
    rw [le_div_iff₀ hr]
    push_cast
    linarith
  · rw [range_map_getD _ _ _ _ hk]
    have := le_maxL _ _ (mem_col 0 k _ _ (List.mem_map.mpr ⟨c, hc, rfl⟩) :
      (idxOf (molOrigin nd pad rate coords) rate c).getD k 0 ∈ col 0 k (coords.map (idxOf (molOrigin nd pad rate coords) rate)))
    omega

theorem molmap_inBox (nd pad : Nat) (rate : List Rat) (coords : List (List Rat)) (w : List Int)
    (hrl : rate.length = nd) (hrp : ∀ k, k < nd → 0 < rate.getD k 0) (c : List Rat) (hc : c ∈ coords)
    (hcl : c.length = nd) :
    inBox (molmap nd pad rate coords w).shape (idxOf (molmap nd pad rate coords w).origin rate c) = true := by
  have hl : (idxOf (molmap nd pad rate coords w).origin rate c).length = nd := by
    unfold idxOf
    exact zip3_length _ _ _ _ nd hcl (by rw [molmap_origin]; exact molOrigin_length nd pad rate coords hrl) hrl
  apply inBox_of_forall
  · rw [hl, molmap_shape]; simp
  · intro k hk
    rw [hl] at hk
    have := molmap_margin nd pad rate coords w hrl hrp c hc hcl k hk
    omega

theorem sum_ite_eq_length {α : Type} (l : List α) (q : α → Bool) :
    (l.map (fun v => if q v then (1 : Int) else 0)).sum = ((l.filter q).length : Int) := by
  induction l with
  | nil => rfl
  | cons a t ih =>
    by_cases h : q a = true
    · simp only [List.map_cons, List.sum_cons, h, if_true, List.filter_cons, List.length_cons, ih]; push_cast; ring
    · simp only [List.map_cons, List.sum_cons, h, List.filter_cons, ih]; simp

theorem zipWith_snd : ∀ (ps : List (List Int)) (ws : List Int), ws.length = ps.length →
    (List.zipWith (fun p w => (toNats p, w)) ps ws).map (·.2) = ws
  | [], [], _ => rfl
  | [], _ :: _, h => by simp at h
  | _ :: _, [], h => by simp at h
  | _ :: ps, _ :: ws, h => by simp [zipWith_snd ps ws (by simpa using h)]

theorem zipWith_mem : ∀ (ps : List (List Int)) (ws : List Int) (pw : List Nat × Int),
    pw ∈ List.zipWith (fun p w => (toNats p, w)) ps ws → ∃ p ∈ ps, pw.1 = toNats p
  | [], _, _, h => by simp at h
  | _ :: _, [], _, h => by simp at h
  | p :: ps, w :: ws, pw, h => by
      simp only [List.zipWith_cons_cons, List.mem_cons] at h
      rcases h with h | h
      · exact ⟨p, by simp, by rw [h]⟩
      · obtain ⟨q, hq, e⟩ := zipWith_mem ps ws pw h
        exact ⟨q, by simp [hq], e⟩

/-! ### `toVolumeK`: plumbing -/

theorem resolveRate_length (nd : Nat) (rate : Option (List Rat)) (r : List Rat) (h : resolveRate nd rate = some r) :
    r.length = nd := by
  unfold resolveRate at h
  split at h
  · cases h; simp
  · cases h; simp
  · split at h
    · cases h; assumption
    · cases h

theorem frame_shape_length (nd : Nat) (coords : List (List Rat)) (shape : Option (List Int)) (r : List Rat)
    (origin : Option (List Rat)) (hs : ∀ s, shape = some s → s.length = nd) :
    (frame nd coords shape r origin).shape.length = nd := by
  cases shape with
  | none => rw [frame_shape_none]; simp
  | some s =>
    have : (frame nd coords (some s) r origin).shape = s := by simp [frame]
    rw [this]; exact hs s rfl

/-- the atoms the kernel branches keep are the atoms the point-weight branch keeps -/
theorem keptK_positions (r : List Rat) (fr : Frame) (wt : WType) (sub : List Atom) :
    ((sub.map (fun a => (posOf r fr a.xyz.reverse, a.elem))).filter (fun pe => inBox fr.shape pe.1)).map (·.1) =
    (((placed r fr wt sub).filter (fun pw => inBox fr.shape pw.1)).map (·.1)) := by
  unfold placed
  simp only [List.filter_map, List.map_map]
  rfl

theorem keptK_length (r : List Rat) (fr : Frame) (wt : WType) (sub : List Atom) :
    ((sub.map (fun a => (posOf r fr a.xyz.reverse, a.elem))).filter (fun pe => inBox fr.shape pe.1)).length =
    ((placed r fr wt sub).filter (fun pw => inBox fr.shape pw.1)).length := by
  have := congrArg List.length (keptK_positions r fr wt sub)
  simpa using this

/-- the chain selection of `subset_by_chain` as a predicate on atoms -/
def chainSel (chain : Option String) (a : Atom) : Bool :=
  match chain with
  | none => true
  | some c => (c.splitOn ",").contains a.chain

theorem subsetByChain_eq_filter (chain : Option String) (l : List Atom) :
    subsetByChain chain l = l.filter (chainSel chain) := by
  cases chain with
  | none =>
    have : chainSel none = fun _ => true := rfl
    rw [this, List.filter_true]; rfl
  | some c => rfl

theorem mem_subsetByChain {chain : Option String} {l : List Atom} {a : Atom} (h : a ∈ subsetByChain chain l) : a ∈ l := by
  rw [subsetByChain_eq_filter] at h
  exact List.mem_of_mem_filter h

/-- mirror image of voxel `v` about voxel `p` -/
def mirror (p v : List Int) : List Int := List.zipWith (fun p v => 2 * p - v) p v

theorem offs_mirror : ∀ (p v : List Int), offs (mirror p v) p = (offs v p).map (fun x => -x)
  | [], _ => by simp [mirror, offs]
  | _ :: _, [] => by simp [mirror, offs]
  | p :: ps, v :: vs => by
      have ih := offs_mirror ps vs
      simp only [mirror, offs, List.zipWith_cons_cons, List.map_cons] at ih ⊢
      rw [ih]
      congr 1
      omega

theorem filter_eq_self_of_length {α : Type} (l : List α) (p : α → Bool) (h : (l.filter p).length = l.length) :
    l.filter p = l := by
  induction l with
  | nil => rfl
  | cons a t ih =>
    by_cases hp : p a = true
    · simp only [List.filter_cons, hp, if_true, List.length_cons, Nat.add_right_cancel_iff] at h ⊢
      rw [ih h]
    · have := List.length_filter_le p t
      simp only [List.filter_cons, hp, List.length_cons] at h
      simp at h
      omega


theorem offs_self : ∀ (p : List Int), offs p p = List.replicate p.length 0
  | [] => rfl
  | p :: ps => by
      have ih := offs_self ps
      simp only [offs, List.zipWith_cons_cons, List.length_cons, List.replicate_succ] at ih ⊢
      rw [ih]; simp


end Pm.C10
