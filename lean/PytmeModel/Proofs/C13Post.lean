import PytmeModel.Proofs.C13Window

/-! array-level post-processing (roll → cut → crop) for the `valid` mode and the un-padded `same` mode -/
namespace Pm.C13

/-- per axis: output voxel `t` of a crop `[st, st+ext)` of the rolled array reads raw voxel `src` -/
inductive AxisFacts : List Nat → List Int → List Nat → List Nat → List Nat → List Nat → Prop
  | nil : AxisFacts [] [] [] [] [] []
  | cons {N st ext t src : Nat} {s : Int} {Ns sts exts ts srcs : List Nat} {ss : List Int} :
      postSrc N s st t = src → st + t < N → t < ext → AxisFacts Ns ss sts exts ts srcs →
      AxisFacts (N :: Ns) (s :: ss) (st :: sts) (ext :: exts) (t :: ts) (src :: srcs)

theorem axisFacts_lists {Ns : List Nat} {ss : List Int} {sts exts ts srcs : List Nat}
    (h : AxisFacts Ns ss sts exts ts srcs) :
    rollIdx Ns ss (List.zipWith (· + ·) sts ts) = srcs ∧
    inShape Ns (List.zipWith (· + ·) sts ts) = true ∧ inShape exts ts = true ∧
    (List.zip sts exts).map (·.1) = sts ∧ (List.zip sts exts).map (·.2) = exts := by
  induction h with
  | nil => simp [rollIdx, zip3With, inShape]
  | cons h1 h2 h3 _ ih =>
    obtain ⟨i1, i2, i3, i4, i5⟩ := ih
    unfold rollIdx at i1 ⊢
    unfold postSrc at h1
    simp only [List.zipWith_cons_cons, zip3With, List.zip_cons_cons, List.map_cons, inShape_cons]
    exact ⟨by rw [h1, i1], ⟨h2, i2⟩, ⟨h3, i3⟩, by rw [i4], by rw [i5]⟩

/-- reading the post-processed map, given the per-axis facts and the crop boxes of the mode -/
theorem axisFacts_read {α : Type} (a : Arr α) (d : α) (mode : Mode) (conv s1 s2 : List Nat)
    {ss : List Int} {sts exts ts srcs : List Nat} (h : AxisFacts a.shape ss sts exts ts srcs)
    (hb : convCrops mode conv s1 s2 = some (List.zip sts exts)) :
    ∃ r, postMap a ss mode conv s1 s2 d = some r ∧ r.shape = exts ∧ r.getD ts d = a.getD srcs d := by
  obtain ⟨e1, e2, e3, e4, e5⟩ := axisFacts_lists h
  have hr : postMap a ss mode conv s1 s2 d
      = some (crop (rollArr a ss d) ((List.zip sts exts).map (·.1)) ((List.zip sts exts).map (·.2)) d) := by
    unfold postMap; rw [hb]
  refine ⟨_, hr, by rw [e5]; rfl, ?_⟩
  rw [e4, e5]
  unfold crop
  rw [Arr.getD_ofFn _ _ _ _ e3]
  unfold rollArr
  rw [Arr.getD_ofFn _ _ _ _ e2, e1]

theorem convCrop_valid_any (c n m : Nat) (hmn : m ≤ n) (hv : n - m + m % 2 ≤ c) :
    convCrop .valid c n m = some ((c - (n - m + m % 2)) / 2, n - m + m % 2) := by
  unfold convCrop
  simp only
  have hvl : validLen n m = ((n - m + m % 2 : Nat) : Int) := by unfold validLen; omega
  rw [hvl]
  have hneg : ¬ (((n - m + m % 2 : Nat) : Int) < 0) := by omega
  simp only [hneg, if_false, Int.toNat_natCast]
  rw [pySlice_center c _ hv]
  simp

/-- side conditions of the `valid` mode, per axis -/
inductive ValidOkN (pad : Bool) : List Nat → List Nat → List Bool → List Nat → List Nat → Prop
  | nil : ValidOkN pad [] [] [] [] []
  | cons {n m N j : Nat} {b : Bool} {ns ms Ns js : List Nat} {bs : List Bool} :
      0 < m → m ≤ n → Pm.C01.convLen n m pad ≤ N → j < n - m + m % 2 → ValidOkN pad ns ms bs Ns js →
      ValidOkN pad (n :: ns) (m :: ms) (b :: bs) (N :: Ns) (j :: js)

def convOf (pad : Bool) (tg tp : List Nat) : List Nat := List.zipWith (fun n m => Pm.C01.convLen n m pad) tg tp
def validExts (tg tp : List Nat) : List Nat := List.zipWith (fun n m => n - m + m % 2) tg tp
def validStarts (pad : Bool) (tg tp : List Nat) : List Nat :=
  List.zipWith (fun n m => (Pm.C01.convLen n m pad - (n - m + m % 2)) / 2) tg tp

theorem valid_facts (pad g : Bool) {tg tp : List Nat} {bm : List Bool} {Ns js : List Nat}
    (h : ValidOkN pad tg tp bm Ns js) :
    AxisFacts Ns (zip3With (shiftAxis pad g) tg tp bm) (validStarts pad tg tp) (validExts tg tp) js
      (List.zipWith (fun j m => j + m / 2 + (m - 1) / 2) js tp) ∧
    convCrops .valid (convOf pad tg tp) tg tp = some (List.zip (validStarts pad tg tp) (validExts tg tp)) := by
  induction h with
  | nil => exact ⟨AxisFacts.nil, rfl⟩
  | @cons n m N j b ns ms Ns js bs hm hmn hN hj _ ih =>
    obtain ⟨i1, i2⟩ := ih
    have hle : n - m + m % 2 ≤ Pm.C01.convLen n m pad := by
      cases pad
      · rw [Pm.C01.convLen_nopad n m hmn]; omega
      · rw [Pm.C01.convLen_pad n m hmn]; omega
    constructor
    · unfold validStarts validExts at i1 ⊢
      simp only [zip3With, List.zipWith_cons_cons]
      refine AxisFacts.cons (window_valid pad g n m N j b hm hmn hN hj) ?_ hj i1
      omega
    · unfold convCrops convOf validStarts validExts at i2 ⊢
      simp only [List.zipWith_cons_cons, zip3With, List.mapM_cons, id, List.zip_cons_cons]
      rw [convCrop_valid_any _ n m hmn hle, i2]
      rfl

/-- side conditions of the `same` mode without Fourier padding, per axis: template fits, window inside the target -/
inductive SameNoPadOk : List Nat → List Nat → List Bool → List Nat → List Nat → Prop
  | nil : SameNoPadOk [] [] [] [] []
  | cons {n m N t : Nat} {b : Bool} {ns ms Ns ts : List Nat} {bs : List Bool} :
      0 < m → m ≤ n → n ≤ N → m / 2 ≤ t → t + (m - 1) / 2 ≤ n - 1 → SameNoPadOk ns ms bs Ns ts →
      SameNoPadOk (n :: ns) (m :: ms) (b :: bs) (N :: Ns) (t :: ts)

theorem same_nopad_facts (g : Bool) {tg tp : List Nat} {bm : List Bool} {Ns ts : List Nat}
    (h : SameNoPadOk tg tp bm Ns ts) :
    AxisFacts Ns (zip3With (shiftAxis false g) tg tp bm) (tg.map fun _ => 0) tg ts
      (List.zipWith (fun t m => t + (m - 1) / 2) ts tp) ∧
    convCrops .same tg tg tp = some (List.zip (tg.map fun _ => 0) tg) := by
  induction h with
  | nil => exact ⟨AxisFacts.nil, rfl⟩
  | @cons n m N t b ns ms Ns ts bs hm hmn hN h0 h1 _ ih =>
    obtain ⟨i1, i2⟩ := ih
    constructor
    · simp only [zip3With, List.zipWith_cons_cons, List.map_cons]
      exact AxisFacts.cons (window_same_nopad g n m N t b hm hmn hN h0 h1) (by omega) (by omega) i1
    · unfold convCrops at i2 ⊢
      simp only [List.map_cons, zip3With, List.mapM_cons, id, List.zip_cons_cons]
      rw [convCrop_same_any n n m (Nat.le_refl _), i2]
      simp

end Pm.C13
