import PytmeModel.Model.C08
import PytmeModel.Proofs.Common
import Mathlib.Tactic.Ring
import Mathlib.Tactic.Linarith
import Mathlib.Data.List.GetD

/-! Helper lemmas for C08: little-endian words, constant-width `flatMap` indexing, reading
tokens back out of `pre ++ payload ++ post`. -/
namespace Pm.C08

theorem length_leBytes (b v : Nat) : (leBytes b v).length = b := by
  induction b generalizing v with
  | zero => rfl
  | succ b ih => simp [leBytes, ih]

theorem leVal_leBytes (b v : Nat) (h : v < 256 ^ b) : leVal (leBytes b v) = v := by
  induction b generalizing v with
  | zero => simp [leBytes, leVal]; simp at h; omega
  | succ b ih =>
    have h' : v / 256 < 256 ^ b := by
      rw [Nat.div_lt_iff_lt_mul (by decide)]; rw [Nat.pow_succ] at h; exact h
    simp only [leBytes, leVal, ih _ h']
    omega

theorem leBytes_byte (b v x : Nat) (hx : x ∈ leBytes b v) : x < 256 := by
  induction b generalizing v with
  | zero => simp [leBytes] at hx
  | succ b ih =>
    simp only [leBytes, List.mem_cons] at hx
    rcases hx with h | h
    · omega
    · exact ih _ h

theorem length_flatMap_const {α β : Type} (l : List α) (f : α → List β) (w : Nat)
    (hw : ∀ x ∈ l, (f x).length = w) : (l.flatMap f).length = l.length * w := by
  induction l with
  | nil => simp
  | cons x xs ih =>
    simp only [List.flatMap_cons, List.length_append, List.length_cons]
    rw [hw x (by simp), ih (fun y hy => hw y (by simp [hy]))]
    ring

/-- element `i*w + t` of a concatenation of width-`w` blocks is element `t` of block `i` -/
theorem getD_flatMap_const {α β : Type} (l : List α) (f : α → List β) (w : Nat)
    (hw : ∀ x ∈ l, (f x).length = w) (i t : Nat) (hi : i < l.length) (ht : t < w) (d : β) :
    (l.flatMap f).getD (i * w + t) d = (f (l[i]'hi)).getD t d := by
  induction l generalizing i with
  | nil => simp at hi
  | cons x xs ih =>
    have hx : (f x).length = w := hw x (by simp)
    simp only [List.flatMap_cons]
    cases i with
    | zero =>
      simp only [Nat.zero_mul, Nat.zero_add, List.getElem_cons_zero]
      rw [List.getD_append _ _ _ _ (by omega)]
    | succ i =>
      have hi' : i < xs.length := by simpa using hi
      have : (i + 1) * w + t = (f x).length + (i * w + t) := by rw [hx]; ring
      rw [this, List.getD_append_right _ _ _ _ (by omega)]
      simp only [Nat.add_sub_cancel_left, List.getElem_cons_succ]
      exact ih (fun y hy => hw y (by simp [hy])) i hi'

theorem range_map_getD {α : Type} (l : List α) (n : Nat) (h : l.length = n) (d : α) :
    (List.range n).map (fun t => l.getD t d) = l := by
  apply List.ext_getElem
  · simp [h]
  · intro i h1 h2
    simp only [List.getElem_map, List.getElem_range]
    rw [List.getD_eq_getElem _ _ h2]

theorem length_payload (b : Nat) (data : List Nat) : (payload b data).length = data.length * b := by
  unfold payload
  exact length_flatMap_const _ _ _ (fun x _ => length_leBytes b x)

/-- byte `t` of token `i` inside `pre ++ payload ++ post` -/
theorem getD_file (pre post : Bytes) (b : Nat) (data : List Nat) (i t : Nat)
    (hi : i < data.length) (ht : t < b) :
    (pre ++ payload b data ++ post).getD (pre.length + i * b + t) 0 = (leBytes b (data[i]'hi)).getD t 0 := by
  have hlen := length_payload b data
  have hlt : i * b + t < (payload b data).length := by
    rw [hlen]
    calc i * b + t < i * b + b := by omega
      _ = (i + 1) * b := by ring
      _ ≤ data.length * b := Nat.mul_le_mul_right _ hi
  rw [List.append_assoc, Nat.add_assoc, List.getD_append_right _ _ _ _ (by omega)]
  simp only [Nat.add_sub_cancel_left]
  rw [List.getD_append _ _ _ _ hlt]
  unfold payload
  exact getD_flatMap_const _ _ _ (fun x _ => length_leBytes b x) i t hi ht 0

/-- reading token `i` of the payload returns the token that was written -/
theorem rdTok_file (pre post : Bytes) (b : Nat) (data : List Nat) (i : Nat)
    (hi : i < data.length) (hv : data[i]'hi < 256 ^ b) :
    rdTok (pre ++ payload b data ++ post) (pre.length + i * b) b = data[i]'hi := by
  unfold rdTok
  have : (List.range b).map (fun t => (pre ++ payload b data ++ post).getD (pre.length + i * b + t) 0)
      = (List.range b).map (fun t => (leBytes b (data[i]'hi)).getD t 0) := by
    apply List.map_congr_left
    intro t ht
    exact getD_file pre post b data i t hi (by simpa using ht)
  rw [this, range_map_getD _ _ (length_leBytes b _), leVal_leBytes _ _ hv]

/-- reading `n` tokens from token position `k` returns tokens `k … k+n-1` -/
theorem readRow_file (pre post : Bytes) (b : Nat) (data : List Nat) (k n : Nat)
    (hk : k + n ≤ data.length) (hv : ∀ v ∈ data, v < 256 ^ b) :
    readRow (pre ++ payload b data ++ post) (pre.length + k * b) n b
      = (List.range n).map (fun j => data.getD (k + j) 0) := by
  unfold readRow
  apply List.map_congr_left
  intro j hj
  have hj' : j < n := by simpa using hj
  have hlt : k + j < data.length := by omega
  have : pre.length + k * b + j * b = pre.length + (k + j) * b := by ring
  rw [this, rdTok_file pre post b data (k + j) hlt (hv _ (List.getElem_mem hlt)),
    List.getD_eq_getElem _ _ hlt]

theorem readRow_all (pre post : Bytes) (b : Nat) (data : List Nat) (hv : ∀ v ∈ data, v < 256 ^ b) :
    readRow (pre ++ payload b data ++ post) pre.length data.length b = data := by
  have h := readRow_file pre post b data 0 data.length (by omega) hv
  simp only [Nat.zero_mul, Nat.add_zero, Nat.zero_add] at h
  rw [h, range_map_getD _ _ rfl]

theorem length_spaces (n : Nat) : (spaces n).length = n := by simp [spaces]

theorem length_readRow (f : Bytes) (off n b : Nat) : (readRow f off n b).length = n := by
  simp [readRow]

theorem uToI32_i32ToU (x : Int) (h1 : -2147483648 ≤ x) (h2 : x < 2147483648) : uToI32 (i32ToU x) = x := by
  unfold uToI32 i32ToU
  split <;> omega

theorem i32ToU_lt (x : Int) : i32ToU x < 256 ^ 4 := by
  unfold i32ToU
  have : (256 : Nat) ^ 4 = 4294967296 := by norm_num
  omega

theorem emHeader_length (code nz ny nx : Nat) (rate : Int) :
    (emHeader code [nz, ny, nx] rate).length = 512 := by
  simp [emHeader, emUserParams, length_payload, length_spaces, length_leBytes]

theorem rowOffset_eq (header ny nx b z y x0 k : Nat) :
    rowOffset header ny nx b z y x0 + k * b = header + ((z * ny + y) * nx + x0 + k) * b := by
  unfold rowOffset; ring

theorem readRows_getD (f : Bytes) (header ny nx b z0 z1 y0 y1 x0 x1 i j k : Nat)
    (hi : i < z1 - z0) (hj : j < y1 - y0) (hk : k < x1 - x0) :
    (readRows f header ny nx b z0 z1 y0 y1 x0 x1).getD (i * ((y1 - y0) * (x1 - x0)) + (j * (x1 - x0) + k)) 0
      = rdTok f (rowOffset header ny nx b (z0 + i) (y0 + j) x0 + k * b) b := by
  unfold readRows
  have hin : ∀ i' ∈ List.range (z1 - z0),
      ((List.range (y1 - y0)).flatMap (fun j =>
        readRow f (rowOffset header ny nx b (z0 + i') (y0 + j) x0) (x1 - x0) b)).length = (y1 - y0) * (x1 - x0) := by
    intro i' _
    rw [length_flatMap_const _ _ (x1 - x0) (fun _ _ => length_readRow _ _ _ _)]
    simp
  have hlt : j * (x1 - x0) + k < (y1 - y0) * (x1 - x0) := by
    calc j * (x1 - x0) + k < j * (x1 - x0) + (x1 - x0) := by omega
      _ = (j + 1) * (x1 - x0) := by ring
      _ ≤ (y1 - y0) * (x1 - x0) := Nat.mul_le_mul_right _ hj
  rw [getD_flatMap_const _ _ _ hin i _ (by simpa using hi) hlt]
  rw [getD_flatMap_const _ _ (x1 - x0) (fun _ _ => length_readRow _ _ _ _) j k (by simpa using hj) hk]
  simp only [List.getElem_range]
  unfold readRow
  rw [List.getD_eq_getElem _ _ (by simpa using hk)]
  simp

/-- the last byte any row touches lies inside the payload -/
theorem box_inside (nz ny nx z1 y1 x0 x1 b : Nat) (hz : z1 ≤ nz) (hy : y1 ≤ ny) (hx : x1 ≤ nx)
    (hz1 : 0 < z1) (hy1 : 0 < y1) (hx0 : x0 ≤ x1) :
    ((z1 - 1) * ny + (y1 - 1)) * nx * b + x0 * b + (x1 - x0) * b ≤ nz * ny * nx * b := by
  have h1 : (z1 - 1) * ny + (y1 - 1) + 1 ≤ nz * ny := by
    calc (z1 - 1) * ny + (y1 - 1) + 1 ≤ (z1 - 1) * ny + ny := by omega
      _ = (z1 - 1 + 1) * ny := by ring
      _ ≤ nz * ny := Nat.mul_le_mul_right _ (by omega)
  have h2 : ((z1 - 1) * ny + (y1 - 1)) * nx + x1 ≤ nz * ny * nx := by
    calc ((z1 - 1) * ny + (y1 - 1)) * nx + x1 ≤ ((z1 - 1) * ny + (y1 - 1)) * nx + nx := by omega
      _ = ((z1 - 1) * ny + (y1 - 1) + 1) * nx := by ring
      _ ≤ nz * ny * nx := Nat.mul_le_mul_right _ h1
  calc ((z1 - 1) * ny + (y1 - 1)) * nx * b + x0 * b + (x1 - x0) * b
      = (((z1 - 1) * ny + (y1 - 1)) * nx + (x0 + (x1 - x0))) * b := by ring
    _ = (((z1 - 1) * ny + (y1 - 1)) * nx + x1) * b := by rw [Nat.add_sub_cancel' hx0]
    _ ≤ nz * ny * nx * b := Nat.mul_le_mul_right _ h2


theorem endsWith_append_gz (name suf : List Char) :
    endsWith (name ++ ['.', 'g', 'z']) (suf ++ ['.', 'g', 'z']) = endsWith name suf := by
  simp [endsWith, List.isSuffixOf, List.reverse_append, List.isPrefixOf]

theorem not_endsWith_em_of_gz (name : List Char) :
    endsWith (name ++ ['.', 'g', 'z']) ['e', 'm'] = false ∧ endsWith (name ++ ['.', 'g', 'z']) ['h', '5'] = false := by
  simp [endsWith, List.isSuffixOf, List.reverse_append, List.isPrefixOf]

theorem gz_not_em (name : List Char) (h : endsWith name ['.', 'g', 'z'] = true) :
    endsWith name ['e', 'm'] = false ∧ endsWith name ['h', '5'] = false := by
  simp only [endsWith, List.isSuffixOf] at *
  generalize name.reverse = r at *
  match r with
  | [] => simp at h
  | c :: _ =>
    simp [List.isPrefixOf] at h ⊢
    obtain ⟨rfl, _⟩ := h
    simp

theorem long_suffix (name : List Char) (x y : Char) (h : endsWith name ['.', 'g', 'z'] = false) :
    endsWith name [x, y, '.', 'g', 'z'] = false := by
  simp only [endsWith, List.isSuffixOf] at *
  generalize name.reverse = r at *
  rcases r with _ | ⟨a, _ | ⟨b, _ | ⟨c, rest⟩⟩⟩ <;> simp_all [List.isPrefixOf]
  intro h1 h2 h3
  exact absurd h3 (h h1 h2)


end Pm.C08
