import PytmeModel.Model.C15
import PytmeModel.Proofs.Common
import Mathlib.Tactic.Ring
import Mathlib.Tactic.Linarith

/-! Helper lemmas for `Props/C15.lean`. -/
namespace Pm.C15

/-! ## one axis -/

/-- closed form of the plan, every box -/
theorem adjustAxis_fields (n : Nat) (s e : Int) :
    let p := adjustAxis n s e
    (p.left : Int) = max (-s) 0 ∧
    (0 ≤ e → (p.src : Int) = min (max s 0) n ∧ (p.len : Int) = max (min e n - min (max s 0) n) 0 ∧
      (p.right : Int) = max (e - max s 0 - max (min e n - min (max s 0) n) 0) 0) ∧
    (0 < p.len → (p.src : Int) = max s 0 ∧ p.src + p.len ≤ n) := by
  unfold adjustAxis pySlice pyNorm
  simp only
  refine ⟨by omega, ?_, ?_⟩
  · intro he
    split_ifs <;> omega
  · split_ifs <;> omega

theorem adjustAxis_newLen (n : Nat) (start stop : Int) (h : 0 ≤ stop) :
    ((adjustAxis n start stop).newLen : Int) = max (stop - start) 0 := by
  obtain ⟨f1, f2, _⟩ := adjustAxis_fields n start stop
  obtain ⟨f2, f3, f4⟩ := f2 h
  unfold AxisPlan.newLen
  omega

theorem adjustAxis_srcOf_some (n : Nat) (start stop : Int) (j s : Nat)
    (h : (adjustAxis n start stop).srcOf j = some s) : (s : Int) = j + start ∧ s < n := by
  obtain ⟨f1, _, f5⟩ := adjustAxis_fields n start stop
  unfold AxisPlan.srcOf at h
  split at h
  · rename_i hc
    simp only [Option.some.injEq] at h
    subst h
    obtain ⟨f5, f6⟩ := f5 (by omega)
    omega
  · simp at h

theorem adjustAxis_srcOf (n : Nat) (start stop : Int) (h : 0 ≤ stop) (j : Nat)
    (hj : j < (adjustAxis n start stop).newLen) :
    (adjustAxis n start stop).srcOf j =
      if 0 ≤ (j : Int) + start ∧ (j : Int) + start < n then some ((j : Int) + start).toNat else none := by
  obtain ⟨f1, f2, _⟩ := adjustAxis_fields n start stop
  obtain ⟨f2, f3, f4⟩ := f2 h
  unfold AxisPlan.newLen at hj
  unfold AxisPlan.srcOf
  split_ifs <;> first | omega | (congr 1 <;> omega)

/-! ## pad -/

theorem pad_newLen (center : Bool) (n new : Nat) :
    (adjustAxis n (padBoxAxis center n new).1 (padBoxAxis center n new).2).newLen = new := by
  have key : ∀ s e : Int, 0 ≤ e → e - s = new → (adjustAxis n s e).newLen = new := by
    intro s e he hd
    have := adjustAxis_newLen n s e he
    omega
  cases center
  · apply key <;> simp [padBoxAxis]
  · apply key <;> simp only [padBoxAxis, if_true] <;> omega

theorem pad_split_grow (n new : Nat) (h : n ≤ new) :
    let p := adjustAxis n (padBoxAxis true n new).1 (padBoxAxis true n new).2
    p.left = (new - n) / 2 ∧ p.right = (new - n) - (new - n) / 2 ∧ p.len = n ∧ p.src = 0 ∧
      p.left ≤ p.right ∧ p.right ≤ p.left + 1 := by
  have aux : ∀ s e : Int, s = -(((new : Int) - n) / 2) → e = (n : Int) + ((new : Int) - n) / 2 + ((new : Int) - n) % 2 →
      (adjustAxis n s e).left = (new - n) / 2 ∧ (adjustAxis n s e).right = (new - n) - (new - n) / 2 ∧
      (adjustAxis n s e).len = n ∧ (adjustAxis n s e).src = 0 ∧
      (adjustAxis n s e).left ≤ (adjustAxis n s e).right ∧ (adjustAxis n s e).right ≤ (adjustAxis n s e).left + 1 := by
    intro s e hs he
    obtain ⟨f1, f2, _⟩ := adjustAxis_fields n s e
    obtain ⟨f2, f3, f4⟩ := f2 (by omega)
    omega
  exact aux _ _ (by simp [padBoxAxis]) (by simp [padBoxAxis])

theorem pad_split_shrink (n new : Nat) (h : new ≤ n) :
    let p := adjustAxis n (padBoxAxis true n new).1 (padBoxAxis true n new).2
    p.left = 0 ∧ p.right = 0 ∧ p.len = new ∧ p.src = (n - new + 1) / 2 := by
  have aux : ∀ s e : Int, s = -(((new : Int) - n) / 2) → e = (n : Int) + ((new : Int) - n) / 2 + ((new : Int) - n) % 2 →
      (adjustAxis n s e).left = 0 ∧ (adjustAxis n s e).right = 0 ∧
      (adjustAxis n s e).len = new ∧ (adjustAxis n s e).src = (n - new + 1) / 2 := by
    intro s e hs he
    obtain ⟨f1, f2, _⟩ := adjustAxis_fields n s e
    obtain ⟨f2, f3, f4⟩ := f2 (by omega)
    omega
  exact aux _ _ (by simp [padBoxAxis]) (by simp [padBoxAxis])

theorem pad_append (n new : Nat) :
    let p := adjustAxis n (padBoxAxis false n new).1 (padBoxAxis false n new).2
    p.left = 0 ∧ p.src = 0 ∧ p.len = min n new ∧ p.right = new - n := by
  have aux : ∀ s e : Int, s = 0 → e = (new : Int) →
      (adjustAxis n s e).left = 0 ∧ (adjustAxis n s e).src = 0 ∧
      (adjustAxis n s e).len = min n new ∧ (adjustAxis n s e).right = new - n := by
    intro s e hs he
    obtain ⟨f1, f2, _⟩ := adjustAxis_fields n s e
    obtain ⟨f2, f3, f4⟩ := f2 (by omega)
    omega
  exact aux _ _ (by simp [padBoxAxis]) (by simp [padBoxAxis])

/-! ## resample -/

theorem resampleLen_near (n a b : Nat) (hb : 0 < b) :
    2 * (n * a) ≤ 2 * (b * resampleLen n a b) + b ∧ 2 * (b * resampleLen n a b) ≤ 2 * (n * a) + b := by
  unfold resampleLen roundHalfEven
  simp only
  have h1 := Nat.div_add_mod (n * a) b
  have h2 := Nat.mod_lt (n * a) hb
  generalize n * a = num at *
  generalize hq : num / b = q at *
  generalize hr : num % b = r at *
  have e : b * (q + 1) = b * q + b := by ring
  split_ifs <;> (try rw [e]) <;> omega

theorem resampleLen_exact (n a b : Nat) (hb : 0 < b) (k : Nat) (h : n * a = k * b) :
    resampleLen n a b = k := by
  unfold resampleLen roundHalfEven
  simp only
  rw [h, Nat.mul_mod_left, Nat.mul_div_cancel _ hb]
  simp [hb]

end Pm.C15
