import PytmeModel.Model.C11
import PytmeModel.Proofs.C11

/-! Helper lemmas for C11: the RELION STAR writer evaluated symbolically through `_parse_star`. -/
namespace Pm.C11

/-! ### association lists (`ret`, `ret[category]`) -/

theorem Cats.get?_none (c : Cats) (k : Str) (h : c.all (fun e => !(e.1 == k)) = true) : c.get? k = none := by
  induction c with
  | nil => rfl
  | cons e es ih =>
    simp only [List.all_cons, Bool.and_eq_true, Bool.not_eq_true'] at h
    simp only [Cats.get?, List.find?, h.1] at ih ⊢
    exact ih h.2

theorem any_false_of_all {α : Type} (c : List (Str × α)) (k : Str) (h : c.all (fun e => !(e.1 == k)) = true) :
    c.any (fun e => e.1 == k) = false := by
  induction c with
  | nil => rfl
  | cons e es ih =>
    simp only [List.all_cons, Bool.and_eq_true, Bool.not_eq_true'] at h
    simp [List.any_cons, h.1, ih h.2]

theorem Cats.set_new (c : Cats) (k : Str) (v : Dict) (h : c.all (fun e => !(e.1 == k)) = true) :
    c.set k v = c ++ [(k, v)] := by
  unfold Cats.set
  rw [any_false_of_all c k h]; rfl

theorem Dict.set_new (d : Dict) (k : Str) (v : List Str) (h : d.all (fun e => !(e.1 == k)) = true) :
    d.set k v = d ++ [(k, v)] := by
  unfold Dict.set
  rw [any_false_of_all d k h]; rfl

theorem map_noKey {α : Type} (pre : List (Str × α)) (k : Str) (v : α) (h : pre.all (fun e => !(e.1 == k)) = true) :
    pre.map (fun e => if e.1 == k then (k, v) else e) = pre := by
  induction pre with
  | nil => rfl
  | cons e es ih =>
    simp only [List.all_cons, Bool.and_eq_true, Bool.not_eq_true'] at h
    rw [List.map_cons, ih h.2, h.1]
    rfl

theorem Cats.get?_snoc (pre : Cats) (k : Str) (d : Dict) (h : pre.all (fun e => !(e.1 == k)) = true) :
    Cats.get? (pre ++ [(k, d)]) k = some d := by
  induction pre with
  | nil => simp [Cats.get?, List.find?]
  | cons e es ih =>
    simp only [List.all_cons, Bool.and_eq_true, Bool.not_eq_true'] at h
    simp only [Cats.get?, List.cons_append, List.find?, h.1] at ih ⊢
    exact ih h.2

theorem Cats.set_snoc (pre : Cats) (k : Str) (d v : Dict) (h : pre.all (fun e => !(e.1 == k)) = true) :
    Cats.set (pre ++ [(k, d)]) k v = pre ++ [(k, v)] := by
  unfold Cats.set
  have : (pre ++ [(k, d)]).any (fun e => e.1 == k) = true := by simp
  rw [this, if_pos rfl, List.map_append, map_noKey pre k v h]
  simp

/-! ### single steps of the `_parse_star` loop -/

/-- a line the loop appends to the current block (for the given delimiter) -/
def isDataLineD (delim : Option Char) (l : Str) : Bool :=
  !startsWith ['d','a','t','a'] l && !startsWith ['_'] l && !startsWith ['l','o','o','p'] l &&
    !(splitLine delim l).isEmpty

theorem parseStep_data (delim : Option Char) (ret : Cats) (cat : Option Str) (blk : List (List Str)) (l : Str)
    (h : isDataLineD delim l = true) :
    parseStep delim ⟨ret, cat, blk⟩ l = .ok ⟨ret, cat, blk ++ [splitLine delim l]⟩ := by
  simp only [isDataLineD, Bool.and_eq_true, Bool.not_eq_true'] at h
  obtain ⟨⟨⟨h1, h2⟩, h3⟩, h4⟩ := h
  simp [parseStep, h1, h2, h3, h4, pure, Except.pure]

theorem parseFold_dataD (delim : Option Char) (ret : Cats) (cat : Option Str) (blk : List (List Str)) (lines : List Str)
    (h : ∀ l ∈ lines, isDataLineD delim l = true) :
    parseFold delim ⟨ret, cat, blk⟩ lines = .ok ⟨ret, cat, blk ++ lines.map (splitLine delim)⟩ := by
  induction lines generalizing blk with
  | nil => simp [parseFold, pure, Except.pure]
  | cons l ls ih =>
    simp only [parseFold, parseStep_data delim ret cat blk l (h l (by simp)), bind, Except.bind]
    rw [ih (blk ++ [splitLine delim l]) (fun x hx => h x (by simp [hx]))]
    simp

/-- a column-name line -/
theorem parseStep_column (delim : Option Char) (ret : Cats) (cat : Str) (blk : List (List Str)) (l : Str) (d : Dict)
    (h1 : startsWith ['d','a','t','a'] l = false) (h2 : startsWith ['_'] l = true) (hg : ret.get? cat = some d) :
    parseStep delim ⟨ret, some cat, blk⟩ l = .ok ⟨ret.set cat (Dict.set d l []), some cat, blk⟩ := by
  simp [parseStep, h1, h2, hg, pure, Except.pure]

theorem parseStep_loop (delim : Option Char) (st : PState) (l : Str)
    (h1 : startsWith ['d','a','t','a'] l = false) (h2 : startsWith ['_'] l = false)
    (h3 : startsWith ['l','o','o','p'] l = true) : parseStep delim st l = .ok st := by
  simp [parseStep, h1, h2, h3, pure, Except.pure]

/-- the column-name lines of one category: each adds its key with an empty list -/
theorem parseFold_columns (delim : Option Char) (pre : Cats) (cat : Str) (blk : List (List Str)) (hs : List Str) (d : Dict)
    (hpre : pre.all (fun e => !(e.1 == cat)) = true)
    (h : ∀ l ∈ hs, startsWith ['d','a','t','a'] l = false ∧ startsWith ['_'] l = true) :
    parseFold delim ⟨pre ++ [(cat, d)], some cat, blk⟩ hs =
      .ok ⟨pre ++ [(cat, hs.foldl (fun d h => Dict.set d h []) d)], some cat, blk⟩ := by
  induction hs generalizing d with
  | nil => rfl
  | cons l ls ih =>
    obtain ⟨h1, h2⟩ := h l (by simp)
    simp only [parseFold, parseStep_column delim _ cat blk l d h1 h2 (Cats.get?_snoc pre cat d hpre), bind, Except.bind,
      Cats.set_snoc pre cat d _ hpre, List.foldl_cons]
    exact ih _ (fun x hx => h x (by simp [hx]))

theorem parseFold_append (delim : Option Char) (st : PState) (a b : List Str) :
    parseFold delim st (a ++ b) = (parseFold delim st a).bind (fun st' => parseFold delim st' b) := by
  induction a generalizing st with
  | nil => rfl
  | cons l ls ih =>
    simp only [List.cons_append, parseFold, bind]
    cases parseStep delim st l with
    | error e => rfl
    | ok st' => simp only [Except.bind]; exact ih st'

/-- the first `data_…` line of a file -/
theorem parseStep_first (delim : Option Char) (blk : List (List Str)) (l : Str)
    (h : startsWith ['d','a','t','a'] l = true) :
    parseStep delim ⟨[], none, blk⟩ l = .ok ⟨[(l, [])], some l, blk⟩ := by
  simp [parseStep, h, Cats.get?, Cats.set, pure, Except.pure]

/-- a `data_…` line that opens a new category: the columns of the previous one are filled from the
block, the block is cleared -/
theorem parseStep_next (delim : Option Char) (pre : Cats) (cat : Str) (d : Dict) (blk : List (List Str)) (l : Str)
    (h : startsWith ['d','a','t','a'] l = true) (hne : (cat != l) = true)
    (hpre : pre.all (fun e => !(e.1 == cat)) = true)
    (hnew : (pre ++ [(cat, flushMid d blk)]).all (fun e => !(e.1 == l)) = true) :
    parseStep delim ⟨pre ++ [(cat, d)], some cat, blk⟩ l =
      .ok ⟨pre ++ [(cat, flushMid d blk)] ++ [(l, [])], some l, []⟩ := by
  simp only [parseStep, h, if_true, hne, Cats.get?_snoc pre cat d hpre, Cats.set_snoc pre cat d _ hpre,
    Cats.get?_none _ l hnew, Cats.set_new _ l [] hnew, Option.isSome_none, Bool.false_eq_true, if_false]
  rfl

/-! ### keywords at the start of a joined line -/

theorem isPrefixOf_append_sep (p t : Str) (sep : Char) (rest : Str) (h : ∀ c ∈ p, (c == sep) = false) :
    p.isPrefixOf (t ++ sep :: rest) = p.isPrefixOf t := by
  induction p generalizing t with
  | nil => simp
  | cons a p' ih =>
    have ha := h a (by simp)
    cases t with
    | nil => simp [List.isPrefixOf, ha]
    | cons b t' =>
      simp only [List.cons_append, List.isPrefixOf]
      rw [ih t' (fun c hc => h c (by simp [hc]))]

/-- a keyword without the separator starts the joined line iff it starts the first token -/
theorem startsWith_joinSep (p : Str) (sep : Char) (h : ∀ c ∈ p, (c == sep) = false) (t : Str) (ts : List Str) :
    startsWith p (joinSep sep (t :: ts)) = startsWith p t := by
  cases ts with
  | nil => rfl
  | cons t' ts' => exact isPrefixOf_append_sep p t sep _ h

/-- first token of a particle line: not a keyword of the STAR parser, not a comment -/
def startOk (t : Str) : Bool :=
  !startsWith ['d','a','t','a'] t && !startsWith ['_'] t && !startsWith ['l','o','o','p'] t && !startsWith ['#'] t

/-- the filter `line and line[0] != "#"` -/
def keepLine (l : Str) : Bool := match l with | [] => false | c :: _ => c != '#'

theorem keepLine_of (l : Str) (hne : l ≠ []) (h : startsWith ['#'] l = false) : keepLine l = true := by
  cases l with
  | nil => exact absurd rfl hne
  | cons c cs =>
    simp only [startsWith, List.isPrefixOf, Bool.and_true] at h
    simp only [keepLine, bne, Bool.not_eq_true']
    cases hc : (c == '#') with
    | false => rfl
    | true => rw [beq_iff_eq] at hc; subst hc; simp at h

theorem splitTab_joinSep (toks : List Str) (hw : rowWf toks) : splitOn '\t' (joinSep '\t' toks) = toks := by
  have hs : ∀ t ∈ toks, ∀ c ∈ t, (c == '\t') = false := by
    intro t ht c hct
    have := (hw.2 t ht).2 c hct
    cases hcn : c == '\t' with
    | false => rfl
    | true => rw [beq_iff_eq] at hcn; subst hcn; exact absurd this (by decide)
  exact splitBy_joinSep (· == '\t') '\t' (by simp) toks hw.1 hs

/-- the two ways the reader is called on RELION files: `delimiter=None` and `delimiter="\t"` -/
def DelimOk (delim : Option Char) : Prop := delim = none ∨ delim = some '\t'

theorem splitLine_joinSep (delim : Option Char) (hd : DelimOk delim) (toks : List Str) (hw : rowWf toks) :
    splitLine delim (joinSep '\t' toks) = toks := by
  rcases hd with rfl | rfl
  · exact splitWs_joinSep '\t' (by decide) toks hw
  · exact splitTab_joinSep toks hw

/-- a tab-joined row of whitespace-free tokens whose first token is not a keyword is a data line, and is kept by the
comment filter -/
theorem dataLine_joinSep (delim : Option Char) (hd : DelimOk delim) (t : Str) (ts : List Str) (hw : rowWf (t :: ts))
    (hs : startOk t = true) :
    isDataLineD delim (joinSep '\t' (t :: ts)) = true ∧ keepLine (joinSep '\t' (t :: ts)) = true ∧
      ∀ c ∈ joinSep '\t' (t :: ts), (c == '\n') = false := by
  simp only [startOk, Bool.and_eq_true, Bool.not_eq_true'] at hs
  obtain ⟨⟨⟨h1, h2⟩, h3⟩, h4⟩ := hs
  refine ⟨?_, ?_, ?_⟩
  · simp only [isDataLineD, splitLine_joinSep delim hd _ hw, Bool.and_eq_true, Bool.not_eq_true']
    rw [startsWith_joinSep _ '\t' (by decide), startsWith_joinSep _ '\t' (by decide), startsWith_joinSep _ '\t' (by decide)]
    exact ⟨⟨⟨h1, h2⟩, h3⟩, rfl⟩
  · apply keepLine_of _ (joinSep_ne_nil '\t' t ts (hw.2 t (by simp)).1)
    rw [startsWith_joinSep _ '\t' (by decide)]; exact h4
  · intro c hc
    rcases mem_joinSep '\t' _ c hc with rfl | ⟨u, hu, hcu⟩
    · decide
    · have := (hw.2 u hu).2 c hcu
      cases hcn : c == '\n' with
      | false => rfl
      | true => rw [beq_iff_eq] at hcn; subst hcn; rw [isWs_nl] at this; cases this

/-! ### columns of a block and the final dictionary -/

theorem Dict.foldl_set_new (hs : List Str) (cs : List (List Str)) (acc : Dict)
    (hnd : (acc.map (·.1) ++ hs).Nodup) :
    (hs.zip cs).foldl (fun d hc => Dict.set d hc.1 hc.2) acc = acc ++ hs.zip cs := by
  induction hs generalizing cs acc with
  | nil => simp
  | cons h hs ih =>
    cases cs with
    | nil => simp
    | cons c cs =>
      have hfresh : acc.all (fun e => !(e.1 == h)) = true := by
        rw [List.all_eq_true]
        intro e he
        have hn := (List.nodup_append.mp hnd).2.2 e.1 (List.mem_map_of_mem he) h (by simp)
        simpa using hn
      simp only [List.zip_cons_cons, List.foldl_cons, Dict.set_new acc h c hfresh]
      rw [ih cs (acc ++ [(h, c)]) (by
        simpa [List.map_append, List.append_assoc] using hnd)]
      simp

/-- distinct header names: the dictionary is the list of (name, column) pairs in file order -/
theorem buildDict_nodup (hs : List Str) (cs : List (List Str)) (h : hs.Nodup) : buildDict hs cs = hs.zip cs := by
  unfold buildDict
  rw [Dict.foldl_set_new hs cs [] (by simpa using h)]
  rfl

theorem Dict.col_zip (hs : List Str) (cs : List (List Str)) (k : Str) (j : Nat)
    (hj : hs.idxOf k = j) (h1 : j < hs.length) (h2 : j < cs.length) :
    Dict.col (hs.zip cs) k = .ok (cs.getD j []) := by
  induction hs generalizing cs j with
  | nil => simp at h1
  | cons h hs ih =>
    cases cs with
    | nil => simp at h2
    | cons c cs =>
      rw [List.idxOf_cons] at hj
      cases hk : (h == k) with
      | true =>
        rw [hk, cond_true] at hj
        subst hj
        simp [Dict.col, List.find?, hk, pure, Except.pure]
      | false =>
        rw [hk, cond_false] at hj
        have hk' := hk
        subst hj
        have := ih cs (hs.idxOf k) rfl (by simpa using h1) (by simpa using h2)
        simp only [Dict.col, List.zip_cons_cons, List.find?, hk'] at this ⊢
        rw [this]
        simp

/-- `list(zip(*block)) if len(block) else [()] * len(headers)` for a block of `m`-column rows -/
theorem flush_columns (block : List (List Str)) (m : Nat) (h : ∀ r ∈ block, r.length = m) :
    (if block.isEmpty then List.replicate m [] else transpose block) =
      (List.range m).map (fun j => block.map (fun r => r.getD j [])) := by
  cases block with
  | nil =>
    simp only [List.isEmpty_nil, if_true, List.map_nil]
    apply List.ext_getElem <;> simp
  | cons r rs =>
    simp only [List.isEmpty_cons, Bool.false_eq_true, if_false]
    exact transpose_uniform (r :: rs) m (by simp) h

/-! ### the fixed lines of the written file -/

def dataOptics : Str := ['d','a','t','a','_','o','p','t','i','c','s']
def loopS : Str := ['l','o','o','p','_']
def verS : Str := ['#',' ','v','e','r','s','i','o','n',' ','3','0','0','0','1']
def cCtf : Str := ['_','r','l','n','C','t','f','I','m','a','g','e']

/-- the seven optics column names -/
def opticsCols : List Str := opticsHeader.drop 4
def opticsDict : Dict := opticsCols.map (fun h => (h, []))

/-- the particle column names, in file order -/
def pcols (name : NameArg) (ctf : Option Str) : List Str :=
  [cX, cY, cZ] ++ name.column.toList ++ [cRot, cTilt, cPsi, cOptics] ++
  (match ctf with | some _ => [cCtf] | Option.none => [])

/-- tokens of the one optics data line -/
def opticsToks (size sampling : Str) : List Str :=
  [t1, ['o','p','t','i','c','s','G','r','o','u','p','1'], ['2','.','7','0','0','0','0','0'],
   ['3','0','0','.','0','0','0','0','0','0'], size, t3, sampling]

/-- all lines of the file for given particle lines -/
def starFileLines (size sampling : Str) (name : NameArg) (ctf : Option Str) (body : List Str) : List Str :=
  opticsHeader ++ [joinSep '\t' (opticsToks size sampling)] ++ [[], verS] ++ particleHeader name ctf ++ body

theorem writeStar_eq (size sampling : Str) (name : NameArg) (ctf : Option Str) (rows : List StarRow) :
    writeStar size sampling name ctf rows =
      (starLines name ctf 0 rows).map (fun body =>
        (starFileLines size sampling name ctf body).flatMap (fun l => l ++ ['\n'])) := by
  unfold writeStar
  cases starLines name ctf 0 rows <;> rfl

def noNl (l : Str) : Bool := l.all (fun c => !(c == '\n'))

theorem noNl_iff (l : Str) : noNl l = true ↔ ∀ c ∈ l, (c == '\n') = false := by
  simp [noNl, List.all_eq_true]

theorem opticsHeader_noNl : opticsHeader.all noNl = true := by decide
theorem particleHeader_noNl (name : NameArg) (ctf : Option Str) : (particleHeader name ctf).all noNl = true := by
  cases name <;> cases ctf <;> simp only [particleHeader, NameArg.column] <;> decide

theorem opticsHeader_kept : opticsHeader.filter keepLine = dataOptics :: loopS :: opticsCols := by decide
theorem particleHeader_kept (name : NameArg) (ctf : Option Str) :
    (particleHeader name ctf).filter keepLine = dataParticles :: loopS :: pcols name ctf := by
  cases name <;> cases ctf <;> simp only [particleHeader, pcols, NameArg.column] <;> decide

theorem opticsCols_lines : ∀ l ∈ opticsCols, startsWith ['d','a','t','a'] l = false ∧ startsWith ['_'] l = true := by decide
theorem pcols_lines (name : NameArg) (ctf : Option Str) :
    ∀ l ∈ pcols name ctf, startsWith ['d','a','t','a'] l = false ∧ startsWith ['_'] l = true := by
  cases name <;> cases ctf <;> simp only [pcols, NameArg.column] <;> decide

theorem opticsCols_fold : opticsCols.foldl (fun d h => Dict.set d h []) [] = opticsDict := by decide
theorem pcols_fold (name : NameArg) (ctf : Option Str) :
    (pcols name ctf).foldl (fun d h => Dict.set d h []) [] = (pcols name ctf).map (fun h => (h, [])) := by
  cases name <;> cases ctf <;> simp only [pcols, NameArg.column] <;> decide

theorem pcols_nodup (name : NameArg) (ctf : Option Str) : (pcols name ctf).Nodup := by
  cases name <;> cases ctf <;> simp only [pcols, NameArg.column] <;> decide

theorem pcols_stripComment (name : NameArg) (ctf : Option Str) :
    (pcols name ctf).map stripComment = pcols name ctf := by
  cases name <;> cases ctf <;> simp only [pcols, NameArg.column] <;> decide

/-- number of particle columns -/
def ncols (name : NameArg) (ctf : Option Str) : Nat :=
  7 + (if name.column.isSome then 1 else 0) + (if ctf.isSome then 1 else 0)

theorem pcols_length (name : NameArg) (ctf : Option Str) : (pcols name ctf).length = ncols name ctf := by
  cases name <;> cases ctf <;> rfl

/-- position of the first angle column -/
def angAt (name : NameArg) : Nat := if name.column.isSome then 4 else 3

theorem pcols_idx (name : NameArg) (ctf : Option Str) :
    (pcols name ctf).idxOf cX = 0 ∧ (pcols name ctf).idxOf cY = 1 ∧ (pcols name ctf).idxOf cZ = 2 ∧
    (pcols name ctf).idxOf cRot = angAt name ∧ (pcols name ctf).idxOf cTilt = angAt name + 1 ∧
    (pcols name ctf).idxOf cPsi = angAt name + 2 ∧ angAt name + 2 < ncols name ctf := by
  cases name <;> cases ctf <;> simp only [pcols, NameArg.column, angAt, ncols, Option.isSome_some, Option.isSome_none] <;> decide

/-! ### the parser on the written lines -/

/-- a particle line as tokens: whitespace-free, first token not a keyword, one token per column -/
structure LineOk (m : Nat) (toks : List Str) : Prop where
  wf : rowWf toks
  first : startOk (toks.headD []) = true
  len : toks.length = m

theorem LineOk.facts (delim : Option Char) (hd : DelimOk delim) {m : Nat} {toks : List Str} (h : LineOk m toks) :
    isDataLineD delim (joinSep '\t' toks) = true ∧ keepLine (joinSep '\t' toks) = true ∧
      ∀ c ∈ joinSep '\t' toks, (c == '\n') = false := by
  obtain ⟨hw, hf, _⟩ := h
  cases toks with
  | nil => exact absurd rfl hw.1
  | cons t ts => exact dataLine_joinSep delim hd t ts hw hf

theorem opticsToks_ok (size sampling : Str) (hsz : tokWf size) (hsa : tokWf sampling) :
    LineOk 7 (opticsToks size sampling) := by
  refine ⟨rowWf_of_all _ (by simp [opticsToks]) ?_, (by decide : startOk t1 = true), rfl⟩
  have h1 := (tokOk_iff size).mpr hsz
  have h2 := (tokOk_iff sampling).mpr hsa
  have c : tokOk t1 = true ∧ tokOk ['o','p','t','i','c','s','G','r','o','u','p','1'] = true ∧
    tokOk ['2','.','7','0','0','0','0','0'] = true ∧ tokOk ['3','0','0','.','0','0','0','0','0','0'] = true ∧
    tokOk t3 = true := by decide
  simp [opticsToks, List.all_cons, h1, h2, c.1, c.2.1, c.2.2.1, c.2.2.2.1, c.2.2.2.2]

/-- **the parser on a written file**: for any particle lines given as token rows (one token per column,
whitespace-free, not starting like a keyword), `_parse_star` returns the optics category (its columns filled from
the one optics line) and the particle category whose dictionary pairs every column name, in file order, with the
list of the tokens of that column in row order -/
theorem parseStar_written (delim : Option Char) (hd : DelimOk delim) (size sampling : Str) (name : NameArg)
    (ctf : Option Str) (body : List (List Str)) (hsz : tokWf size) (hsa : tokWf sampling)
    (hb : ∀ toks ∈ body, LineOk (ncols name ctf) toks) :
    parseStar delim ((starFileLines size sampling name ctf (body.map (joinSep '\t'))).flatMap (fun l => l ++ ['\n'])) =
      .ok [(dataOptics, flushMid opticsDict [opticsToks size sampling]),
           (dataParticles, (pcols name ctf).zip
              ((List.range (ncols name ctf)).map (fun j => body.map (fun r => r.getD j []))))] := by
  have ho := opticsToks_ok size sampling hsz hsa
  obtain ⟨ho1, ho2, ho3⟩ := ho.facts delim hd
  have hbody : ∀ l ∈ body.map (joinSep '\t'), isDataLineD delim l = true ∧ keepLine l = true ∧
      ∀ c ∈ l, (c == '\n') = false := by
    intro l hl
    obtain ⟨toks, ht, rfl⟩ := List.mem_map.mp hl
    exact (hb toks ht).facts delim hd
  -- the lines
  have hnl : ∀ l ∈ starFileLines size sampling name ctf (body.map (joinSep '\t')), ∀ c ∈ l, (c == '\n') = false := by
    intro l hl
    simp only [starFileLines, List.mem_append, List.mem_cons, List.mem_nil_iff, or_false] at hl
    rcases hl with (((hl | rfl) | hl) | hl) | hl
    · exact (noNl_iff l).mp (List.all_eq_true.mp opticsHeader_noNl l hl)
    · exact ho3
    · rcases hl with rfl | rfl <;> decide
    · exact (noNl_iff l).mp (List.all_eq_true.mp (particleHeader_noNl name ctf) l hl)
    · exact (hbody l hl).2.2
  have hfilter : (starFileLines size sampling name ctf (body.map (joinSep '\t')) ++ [[]]).filter keepLine =
      (dataOptics :: loopS :: opticsCols) ++ [joinSep '\t' (opticsToks size sampling)] ++
        (dataParticles :: loopS :: pcols name ctf) ++ body.map (joinSep '\t') := by
    simp only [starFileLines, List.filter_append, opticsHeader_kept, particleHeader_kept]
    rw [List.filter_eq_self.mpr (fun l hl => (hbody l hl).2.1)]
    have e1 : [joinSep '\t' (opticsToks size sampling)].filter keepLine = [joinSep '\t' (opticsToks size sampling)] := by
      simp [List.filter, ho2]
    have e2 : [[], verS].filter keepLine = [] := by decide
    have e3 : [([] : Str)].filter keepLine = [] := by decide
    rw [e1, e2, e3]
    simp
  -- the state machine
  have s1 : parseFold delim ⟨[], none, []⟩ (dataOptics :: loopS :: opticsCols) =
      .ok ⟨[(dataOptics, opticsDict)], some dataOptics, []⟩ := by
    have a := parseStep_first delim [] dataOptics (by decide)
    have b := parseStep_loop delim ⟨[(dataOptics, [])], some dataOptics, []⟩ loopS (by decide) (by decide) (by decide)
    have c := parseFold_columns delim [] dataOptics [] opticsCols [] rfl opticsCols_lines
    simp only [parseFold, a, b, bind, Except.bind]
    rw [opticsCols_fold] at c
    exact c
  have s2 : parseFold delim ⟨[(dataOptics, opticsDict)], some dataOptics, []⟩ [joinSep '\t' (opticsToks size sampling)] =
      .ok ⟨[(dataOptics, opticsDict)], some dataOptics, [opticsToks size sampling]⟩ := by
    have := parseFold_dataD delim [(dataOptics, opticsDict)] (some dataOptics) [] [joinSep '\t' (opticsToks size sampling)]
      (by intro l hl; simp only [List.mem_cons, List.mem_nil_iff, or_false] at hl; subst hl; exact ho1)
    rw [this]
    simp [splitLine_joinSep delim hd _ ho.wf]
  have s3 : parseFold delim ⟨[(dataOptics, opticsDict)], some dataOptics, [opticsToks size sampling]⟩
      (dataParticles :: loopS :: pcols name ctf) =
      .ok ⟨[(dataOptics, flushMid opticsDict [opticsToks size sampling]),
            (dataParticles, (pcols name ctf).map (fun h => (h, [])))], some dataParticles, []⟩ := by
    have a := parseStep_next delim [] dataOptics opticsDict [opticsToks size sampling] dataParticles (by decide) (by decide)
      rfl (by simp only [List.nil_append, List.all_cons, List.all_nil, Bool.and_true]; decide)
    have b := parseStep_loop delim ⟨[(dataOptics, flushMid opticsDict [opticsToks size sampling]), (dataParticles, [])],
      some dataParticles, []⟩ loopS (by decide) (by decide) (by decide)
    have c := parseFold_columns delim [(dataOptics, flushMid opticsDict [opticsToks size sampling])] dataParticles []
      (pcols name ctf) [] (by simp only [List.all_cons, List.all_nil, Bool.and_true]; decide) (pcols_lines name ctf)
    simp only [List.nil_append, List.cons_append] at a
    simp only [parseFold, a, b, bind, Except.bind]
    rw [pcols_fold] at c
    exact c
  have s4 := parseFold_dataD delim [(dataOptics, flushMid opticsDict [opticsToks size sampling]),
      (dataParticles, (pcols name ctf).map (fun h => (h, [])))] (some dataParticles) [] (body.map (joinSep '\t'))
      (fun l hl => (hbody l hl).1)
  have hsplit : (body.map (joinSep '\t')).map (splitLine delim) = body := by
    rw [List.map_map]
    conv => rhs; rw [← List.map_id body]
    exact List.map_congr_left (fun toks ht => splitLine_joinSep delim hd toks (hb toks ht).wf)
  rw [hsplit, List.nil_append] at s4
  unfold parseStar
  rw [splitOn_nl_lines _ hnl]
  change (do
    let st ← parseFold delim ⟨[], none, []⟩ ((starFileLines size sampling name ctf (body.map (joinSep '\t')) ++ [[]]).filter keepLine)
    _) = _
  rw [hfilter, parseFold_append, parseFold_append, parseFold_append, s1]
  simp only [Except.bind, s2, s3, s4, bind]
  have hget : Cats.get? [(dataOptics, flushMid opticsDict [opticsToks size sampling]),
      (dataParticles, (pcols name ctf).map (fun h => (h, [])))] dataParticles =
      some ((pcols name ctf).map (fun h => (h, []))) :=
    Cats.get?_snoc [(dataOptics, _)] dataParticles _ (by simp only [List.all_cons, List.all_nil, Bool.and_true]; decide)
  have hset := Cats.set_snoc [(dataOptics, flushMid opticsDict [opticsToks size sampling])] dataParticles
    ((pcols name ctf).map (fun h => (h, [])))
    (flushEnd ((pcols name ctf).map (fun h => (h, []))) body)
    (by simp only [List.all_cons, List.all_nil, Bool.and_true]; decide)
  simp only [List.cons_append, List.nil_append] at hset
  simp only [hget, hset, pure, Except.pure]
  congr 3
  unfold flushEnd
  simp only [List.map_map, List.length_map]
  have hh : (pcols name ctf).map (stripComment ∘ fun h => (h, ([] : List Str)).1) = pcols name ctf := by
    have := pcols_stripComment name ctf
    simpa [Function.comp_def] using this
  rw [Function.comp_def] at hh ⊢
  simp only [] at hh ⊢
  rw [hh, pcols_length, flush_columns body (ncols name ctf) (fun r hr => (hb r hr).len),
    buildDict_nodup _ _ (pcols_nodup name ctf)]

/-! ### the writer -/

/-- the tokens of one particle line: x y z [name] rot tilt psi 1 [ctf] -/
def starToks (r : StarRow) (nm ctf : Option Str) : List Str :=
  r.trans.reverse ++ nm.toList ++ r.ang ++ [t1] ++ ctf.toList

/-- a particle as the writer receives it: three coordinates (stored z, y, x), three angles, all printed as
non-empty whitespace-free tokens; the x coordinate (first on the line) does not look like a STAR keyword or a
comment (no number does) -/
structure StarWf (r : StarRow) : Prop where
  trans : r.trans.length = 3
  ang : r.ang.length = 3
  toks : ∀ t ∈ r.trans ++ r.ang, tokWf t
  first : startOk (r.trans.getD 2 []) = true

/-- the `name` argument for `n` particles: nothing, one token, or a list with (at least) one token per particle -/
def NameOk (name : NameArg) (n : Nat) : Prop :=
  match name with
  | .none => True
  | .single s => tokWf s
  | .many l => ∀ k, k < n → ∃ s, l[k]? = some s ∧ tokWf s

/-- the name written on one line: present iff the header has a name column, and a proper token -/
def NmOk (name : NameArg) (nm : Option Str) : Prop :=
  nm.isSome = name.column.isSome ∧ ∀ s, nm = some s → tokWf s

theorem name_at (name : NameArg) (n i : Nat) (h : NameOk name n) (hi : i < n) :
    ∃ nm, name.at i = .ok nm ∧ NmOk name nm := by
  cases name with
  | none => exact ⟨Option.none, rfl, rfl, by intro s hs; cases hs⟩
  | single s => exact ⟨some s, rfl, rfl, by intro s' hs; cases hs; exact h⟩
  | many l =>
    obtain ⟨s, hs, hw⟩ := h i hi
    refine ⟨some s, by simp [NameArg.at, hs, pure, Except.pure], rfl, ?_⟩
    intro s' hs'; cases hs'; exact hw

theorem starLines_ok (name : NameArg) (ctf : Option Str) (rows : List StarRow) (i : Nat)
    (h : NameOk name (i + rows.length)) :
    ∃ nms : List (Option Str), nms.length = rows.length ∧ (∀ nm ∈ nms, NmOk name nm) ∧
      starLines name ctf i rows = .ok ((rows.zip nms).map (fun p => starLine p.1 p.2 ctf)) := by
  induction rows generalizing i with
  | nil => exact ⟨[], rfl, by simp, rfl⟩
  | cons r rs ih =>
    obtain ⟨nm, hnm, hok⟩ := name_at name _ i h (by simp)
    obtain ⟨nms, hl, hall, hrest⟩ := ih (i + 1) (by
      have : i + 1 + rs.length = i + (r :: rs).length := by simp; omega
      rw [this]; exact h)
    refine ⟨nm :: nms, by simp [hl], ?_, ?_⟩
    · intro x hx
      rcases List.mem_cons.mp hx with rfl | hx
      · exact hok
      · exact hall x hx
    · simp [starLines, hnm, hrest, bind, Except.bind, pure, Except.pure]

theorem tokOk_t1 : tokOk t1 = true := by decide

/-- one written particle line: it is the tab-join of its tokens, those form a proper data row with one token per
column, and the coordinate / angle tokens sit in the columns the header names -/
theorem starToks_ok (name : NameArg) (ctf : Option Str) (r : StarRow) (nm : Option Str) (hr : StarWf r)
    (hnm : NmOk name nm) (hc : ∀ s, ctf = some s → tokWf s) :
    starLine r nm ctf = joinSep '\t' (starToks r nm ctf) ∧ LineOk (ncols name ctf) (starToks r nm ctf) ∧
    (starToks r nm ctf).getD 0 [] = r.trans.getD 2 [] ∧ (starToks r nm ctf).getD 1 [] = r.trans.getD 1 [] ∧
    (starToks r nm ctf).getD 2 [] = r.trans.getD 0 [] ∧
    (starToks r nm ctf).getD (angAt name) [] = r.ang.getD 0 [] ∧
    (starToks r nm ctf).getD (angAt name + 1) [] = r.ang.getD 1 [] ∧
    (starToks r nm ctf).getD (angAt name + 2) [] = r.ang.getD 2 [] := by
  obtain ⟨trans, ang⟩ := r
  obtain ⟨ht, ha, htoks, hfirst⟩ := hr
  simp only at ht ha htoks hfirst
  obtain ⟨hsome, hnmw⟩ := hnm
  match trans, ht, ang, ha with
  | [z, y, x], _, [a, b, c], _ =>
    have hall : ∀ t ∈ [z, y, x, a, b, c], tokOk t = true := fun t ht => (tokOk_iff t).mpr (htoks t (by simpa using ht))
    have hz := hall z (by simp); have hy := hall y (by simp); have hx := hall x (by simp)
    have ha' := hall a (by simp); have hb := hall b (by simp); have hc' := hall c (by simp)
    have h1 := tokOk_t1
    simp only [ncols, angAt, ← hsome]
    cases nm with
    | none =>
      cases ctf with
      | none =>
        refine ⟨by simp [starLine, starToks, joinSep, t1], ⟨rowWf_of_all _ (by simp [starToks]) ?_, hfirst, rfl⟩, rfl, rfl, rfl, rfl, rfl, rfl⟩
        simp [starToks, hz, hy, hx, ha', hb, hc', h1]
      | some w =>
        have hw := (tokOk_iff w).mpr (hc w rfl)
        refine ⟨by simp [starLine, starToks, joinSep, t1], ⟨rowWf_of_all _ (by simp [starToks]) ?_, hfirst, rfl⟩, rfl, rfl, rfl, rfl, rfl, rfl⟩
        simp [starToks, hz, hy, hx, ha', hb, hc', h1, hw]
    | some s =>
      have hs := (tokOk_iff s).mpr (hnmw s rfl)
      cases ctf with
      | none =>
        refine ⟨by simp [starLine, starToks, joinSep, t1], ⟨rowWf_of_all _ (by simp [starToks]) ?_, hfirst, rfl⟩, rfl, rfl, rfl, rfl, rfl, rfl⟩
        simp [starToks, hz, hy, hx, ha', hb, hc', h1, hs]
      | some w =>
        have hw := (tokOk_iff w).mpr (hc w rfl)
        refine ⟨by simp [starLine, starToks, joinSep, t1], ⟨rowWf_of_all _ (by simp [starToks]) ?_, hfirst, rfl⟩, rfl, rfl, rfl, rfl, rfl, rfl⟩
        simp [starToks, hz, hy, hx, ha', hb, hc', h1, hs, hw]

/-- what `_from_relion_star` is expected to see for written particles: the coordinate columns in the stored
z, y, x order and the three angle columns, rows in order -/
def StarOut.ofRows (rows : List StarRow) : StarOut :=
  ⟨[rows.map (fun r => r.trans.getD 0 []), rows.map (fun r => r.trans.getD 1 []), rows.map (fun r => r.trans.getD 2 [])],
   [rows.map (fun r => r.ang.getD 0 []), rows.map (fun r => r.ang.getD 1 []), rows.map (fun r => r.ang.getD 2 [])]⟩

theorem zip_map_fst {α β γ : Type} (l : List α) (m : List β) (f : α × β → γ) (g : α → γ) (hl : m.length = l.length)
    (h : ∀ p ∈ l.zip m, f p = g p.1) : (l.zip m).map f = l.map g := by
  rw [List.map_congr_left h]
  rw [show (fun p : α × β => g p.1) = g ∘ Prod.fst from rfl, ← List.map_map, List.map_fst_zip (by omega)]

/-- the written file and what the reader extracts from it -/
theorem star_written_read (delim : Option Char) (hd : DelimOk delim) (size sampling : Str) (name : NameArg)
    (ctf : Option Str) (rows : List StarRow) (hsz : tokWf size) (hsa : tokWf sampling)
    (hn : NameOk name rows.length) (hc : ∀ s, ctf = some s → tokWf s) (hr : ∀ r ∈ rows, StarWf r) :
    ∃ text, writeStar size sampling name ctf rows = .ok text ∧ readStar delim text = .ok (StarOut.ofRows rows) ∧
      ∃ cols : List (List Str), cols.length = ncols name ctf ∧ (∀ c ∈ cols, c.length = rows.length) ∧
        particles delim text = .ok ((pcols name ctf).zip cols) := by
  obtain ⟨nms, hl, hnms, hlines⟩ := starLines_ok name ctf rows 0 (by simpa using hn)
  have hfacts : ∀ p ∈ rows.zip nms, _ := fun p hp =>
    starToks_ok name ctf p.1 p.2 (hr p.1 (List.of_mem_zip hp).1) (hnms p.2 (List.of_mem_zip hp).2) hc
  have hbody : (rows.zip nms).map (fun p => starLine p.1 p.2 ctf) =
      ((rows.zip nms).map (fun p => starToks p.1 p.2 ctf)).map (joinSep '\t') := by
    rw [List.map_map]
    exact List.map_congr_left (fun p hp => (hfacts p hp).1)
  have hb : ∀ toks ∈ (rows.zip nms).map (fun p => starToks p.1 p.2 ctf), LineOk (ncols name ctf) toks := by
    intro toks ht
    obtain ⟨p, hp, rfl⟩ := List.mem_map.mp ht
    exact (hfacts p hp).2.1
  have hparse := parseStar_written delim hd size sampling name ctf _ hsz hsa hb
  refine ⟨_, by rw [writeStar_eq, hlines, hbody]; rfl, ?_⟩
  have hpart : particles delim ((starFileLines size sampling name ctf
      (((rows.zip nms).map (fun p => starToks p.1 p.2 ctf)).map (joinSep '\t'))).flatMap (fun l => l ++ ['\n'])) =
      .ok ((pcols name ctf).zip ((List.range (ncols name ctf)).map
        (fun j => ((rows.zip nms).map (fun p => starToks p.1 p.2 ctf)).map (fun r => r.getD j [])))) := by
    unfold particles
    rw [hparse]
    have := Cats.get?_snoc [(dataOptics, flushMid opticsDict [opticsToks size sampling])] dataParticles
      ((pcols name ctf).zip ((List.range (ncols name ctf)).map
        (fun j => ((rows.zip nms).map (fun p => starToks p.1 p.2 ctf)).map (fun r => r.getD j []))))
      (by simp only [List.all_cons, List.all_nil, Bool.and_true]; decide)
    simp only [List.cons_append, List.nil_append] at this
    simp only [bind, Except.bind, this]
    rfl
  refine ⟨?_, _, by simp, ?_, hpart⟩
  · obtain ⟨iX, iY, iZ, iR, iT, iP, hlt⟩ := pcols_idx name ctf
    have hcol : ∀ (k : Str) (j : Nat), (pcols name ctf).idxOf k = j → j < ncols name ctf →
        ∀ g : StarRow → Str, (∀ p ∈ rows.zip nms, (starToks p.1 p.2 ctf).getD j [] = g p.1) →
        Dict.col ((pcols name ctf).zip ((List.range (ncols name ctf)).map
          (fun j => ((rows.zip nms).map (fun p => starToks p.1 p.2 ctf)).map (fun r => r.getD j [])))) k =
          .ok (rows.map g) := by
      intro k j hk hj g hg
      rw [Dict.col_zip _ _ k j hk (by rw [pcols_length]; exact hj) (by simpa using hj)]
      simp only [List.getD_eq_getElem?_getD, List.getElem?_map, List.getElem?_range hj, Option.map_some,
        Option.getD_some, List.map_map]
      congr 1
      apply zip_map_fst _ _ _ _ hl
      intro p hp
      simpa [List.getD_eq_getElem?_getD] using hg p hp
    unfold readStar
    rw [hpart]
    simp only [bind, Except.bind, Dict.transCols, Dict.angCols,
      hcol cZ 2 iZ (by omega) (fun r => r.trans.getD 0 []) (fun p hp => (hfacts p hp).2.2.2.2.1),
      hcol cY 1 iY (by omega) (fun r => r.trans.getD 1 []) (fun p hp => (hfacts p hp).2.2.2.1),
      hcol cX 0 iX (by omega) (fun r => r.trans.getD 2 []) (fun p hp => (hfacts p hp).2.2.1),
      hcol cRot _ iR (by omega) (fun r => r.ang.getD 0 []) (fun p hp => (hfacts p hp).2.2.2.2.2.1),
      hcol cTilt _ iT (by omega) (fun r => r.ang.getD 1 []) (fun p hp => (hfacts p hp).2.2.2.2.2.2.1),
      hcol cPsi _ iP (by omega) (fun r => r.ang.getD 2 []) (fun p hp => (hfacts p hp).2.2.2.2.2.2.2)]
    rfl
  · intro c hc'
    simp only [List.mem_map, List.mem_range] at hc'
    obtain ⟨j, _, rfl⟩ := hc'
    simp [hl]

end Pm.C11
