import PytmeModel.Model.C13
import PytmeModel.Proofs.Common
import Mathlib.Tactic.Ring
import Mathlib.Tactic.Linarith

/-! helper lemmas: centre of mass of weighted points, maximum-filter windows, rigid-transform offsets -/
namespace Pm.C13

/-! ### centre of mass -/

/-- all points moved by `s` along the axis -/
def shiftEntries (s : Nat) (es : List (Nat × Int)) : List (Nat × Int) := es.map fun e => (e.1 + s, e.2)

/-- all weights multiplied by `q` -/
def scaleEntries (q : Int) (es : List (Nat × Int)) : List (Nat × Int) := es.map fun e => (e.1, q * e.2)

theorem wSum_shift (cut : Option Int) (s : Nat) : ∀ es, wSum cut (shiftEntries s es) = wSum cut es
  | [] => rfl
  | (x, w) :: es => by
    have ih := wSum_shift cut s es
    simp only [shiftEntries, List.map_cons, wSum] at ih ⊢
    rw [ih]

theorem wMoment_shift (cut : Option Int) (s : Nat) :
    ∀ es, wMoment cut (shiftEntries s es) = wMoment cut es + (s : Int) * wSum cut es
  | [] => by simp [shiftEntries, wMoment, wSum]
  | (x, w) :: es => by
    have ih := wMoment_shift cut s es
    simp only [shiftEntries, List.map_cons, wMoment, wSum] at ih ⊢
    rw [ih]; push_cast; ring

theorem wSum_scale (q : Int) : ∀ es, wSum none (scaleEntries q es) = q * wSum none es
  | [] => by simp [scaleEntries, wSum]
  | (x, w) :: es => by
    have ih := wSum_scale q es
    simp only [scaleEntries, List.map_cons, wSum, keepW] at ih ⊢
    rw [ih]; ring

theorem wMoment_scale (q : Int) : ∀ es, wMoment none (scaleEntries q es) = q * wMoment none es
  | [] => by simp [scaleEntries, wMoment]
  | (x, w) :: es => by
    have ih := wMoment_scale q es
    simp only [scaleEntries, List.map_cons, wMoment, keepW] at ih ⊢
    rw [ih]; ring

theorem wSum_cut (c : Int) : ∀ es, wSum (some c) es = wSum none (es.filter fun e => decide (c < e.2))
  | [] => rfl
  | (x, w) :: es => by
    have ih := wSum_cut c es
    by_cases h : c < w <;> simp [wSum, keepW, h, List.filter_cons, ih]

theorem wMoment_cut (c : Int) : ∀ es, wMoment (some c) es = wMoment none (es.filter fun e => decide (c < e.2))
  | [] => rfl
  | (x, w) :: es => by
    have ih := wMoment_cut c es
    by_cases h : c < w <;> simp [wMoment, keepW, h, List.filter_cons, ih]

theorem keepW_nonneg (c w : Int) (hc : 0 ≤ c) : 0 ≤ keepW (some c) w := by
  simp only [keepW]; split <;> omega

/-- with non-negative kept weights the centre of mass lies between the smallest and the largest coordinate -/
theorem wMoment_bounds (cut : Option Int) (lo hi : Nat) : ∀ es : List (Nat × Int),
    (∀ e ∈ es, lo ≤ e.1 ∧ e.1 ≤ hi ∧ 0 ≤ keepW cut e.2) →
    (lo : Int) * wSum cut es ≤ wMoment cut es ∧ wMoment cut es ≤ (hi : Int) * wSum cut es
  | [], _ => by simp [wSum, wMoment]
  | (x, w) :: es, h => by
    obtain ⟨h1, h2, h3⟩ := h (x, w) (by simp)
    obtain ⟨i1, i2⟩ := wMoment_bounds cut lo hi es (fun e he => h e (by simp [he]))
    simp only [wSum, wMoment]
    have a1 : (lo : Int) * keepW cut w ≤ keepW cut w * (x : Int) := by
      rw [Int.mul_comm]; exact Int.mul_le_mul_of_nonneg_left (by exact_mod_cast h1) h3
    have a2 : keepW cut w * (x : Int) ≤ (hi : Int) * keepW cut w := by
      rw [Int.mul_comm (hi : Int)]; exact Int.mul_le_mul_of_nonneg_left (by exact_mod_cast h2) h3
    constructor <;> nlinarith

/-! ### maximum filter -/

theorem mem_allIdx (shape idx : List Nat) : idx ∈ allIdx shape ↔ inShape shape idx = true := by
  unfold allIdx
  rw [List.mem_map]
  constructor
  · rintro ⟨k, hk, rfl⟩
    exact inShape_unflat shape k (List.mem_range.mp hk)
  · intro h
    exact ⟨flatIdx shape idx, List.mem_range.mpr (flatIdx_lt h), unflat_flatIdx h⟩

theorem clampIdx_self (n s i : Nat) (h : i < n) :
    clampIdx n ((i : Int) - ((s / 2 : Nat) : Int) + ((s / 2 : Nat) : Int)) = i := by
  unfold clampIdx
  have : ¬ ((i : Int) - ((s / 2 : Nat) : Int) + ((s / 2 : Nat) : Int) < 0) := by omega
  simp only [this, if_false]
  omega

theorem self_mem_windowAxis (n s i : Nat) (h : i < n) (hs : 0 < s) : i ∈ windowAxis n s i := by
  unfold windowAxis
  rw [List.mem_map]
  exact ⟨s / 2, List.mem_range.mpr (by omega), clampIdx_self n s i h⟩

theorem self_mem_windowIdx (s : Nat) (hs : 0 < s) : ∀ (shape idx : List Nat), inShape shape idx = true →
    idx ∈ windowIdx shape s idx
  | [], [], _ => by simp [windowIdx]
  | n :: ns, i :: is, h => by
    obtain ⟨hi, hr⟩ := inShape_cons.mp h
    simp only [windowIdx, List.mem_flatMap, List.mem_map]
    exact ⟨i, self_mem_windowAxis n s i hi hs, is, self_mem_windowIdx s hs ns is hr, rfl⟩
  | [], _ :: _, h => by simp [inShape] at h
  | _ :: _, [], h => by simp [inShape] at h

theorem clampIdx_lt (n : Nat) (i : Int) (hn : 0 < n) : clampIdx n i < n := by
  unfold clampIdx; split <;> omega

/-- every window voxel lies inside the array -/
theorem windowIdx_inShape (s : Nat) : ∀ (shape idx j : List Nat), inShape shape idx = true →
    j ∈ windowIdx shape s idx → inShape shape j = true
  | [], [], j, _, hj => by simp [windowIdx] at hj; subst hj; rfl
  | n :: ns, i :: is, j, h, hj => by
    obtain ⟨hi, hr⟩ := inShape_cons.mp h
    simp only [windowIdx, List.mem_flatMap, List.mem_map] at hj
    obtain ⟨x, hx, js, hjs, rfl⟩ := hj
    rw [inShape_cons]
    refine ⟨?_, windowIdx_inShape s ns is js hr hjs⟩
    unfold windowAxis at hx
    rw [List.mem_map] at hx
    obtain ⟨_, _, rfl⟩ := hx
    exact clampIdx_lt n _ (by omega)
  | [], _ :: _, _, h, _ => by simp [inShape] at h
  | _ :: _, [], _, h, _ => by simp [inShape] at h

theorem mem_windowAxis_of_near (n s i q : Nat) (hq : q < n) (h1 : i ≤ q + s / 2) (h2 : q + s / 2 < i + s) :
    q ∈ windowAxis n s i := by
  unfold windowAxis
  rw [List.mem_map]
  refine ⟨q + s / 2 - i, List.mem_range.mpr (by omega), ?_⟩
  unfold clampIdx
  have e : (i : Int) - ((s / 2 : Nat) : Int) + ((q + s / 2 - i : Nat) : Int) = (q : Int) := by omega
  rw [e]
  have : ¬ ((q : Int) < 0) := by omega
  simp only [this, if_false]
  omega

/-- Chebyshev distance at most `r` -/
def Near (r : Nat) : List Nat → List Nat → Prop
  | [], [] => True
  | p :: ps, q :: qs => (p ≤ q + r ∧ q ≤ p + r) ∧ Near r ps qs
  | _, _ => False

theorem near_symm (r : Nat) : ∀ (p q : List Nat), Near r p q → Near r q p
  | [], [], _ => trivial
  | _ :: ps, _ :: qs, ⟨⟨h1, h2⟩, hr⟩ => ⟨⟨h2, h1⟩, near_symm r ps qs hr⟩
  | [], _ :: _, h => by cases h
  | _ :: _, [], h => by cases h

theorem mem_windowIdx_of_near (s : Nat) (hs : 0 < s) : ∀ (shape p q : List Nat), inShape shape p = true →
    inShape shape q = true → Near ((s - 1) / 2) p q → q ∈ windowIdx shape s p
  | [], [], [], _, _, _ => by simp [windowIdx]
  | n :: ns, i :: is, j :: js, hp, hq, ⟨⟨h1, h2⟩, hr⟩ => by
    obtain ⟨_, hpr⟩ := inShape_cons.mp hp
    obtain ⟨hj, hqr⟩ := inShape_cons.mp hq
    simp only [windowIdx, List.mem_flatMap, List.mem_map]
    exact ⟨j, mem_windowAxis_of_near n s i j hj (by omega) (by omega), js,
      mem_windowIdx_of_near s hs ns is js hpr hqr hr, rfl⟩
  | [], [], _ :: _, _, h, _ => by simp [inShape] at h
  | [], _ :: _, _, h, _, _ => by simp [inShape] at h
  | _ :: _, [], _, h, _, _ => by simp [inShape] at h
  | _ :: _, _ :: _, [], _, h, _ => by simp [inShape] at h

/-! ### rigid transform -/

theorem dot_sub : ∀ (r x c : List Int), x.length = c.length →
    dot r (List.zipWith (· - ·) x c) = dot r x - dot r c
  | [], _, _, _ => by simp [dot]
  | _ :: _, [], [], _ => by simp [dot]
  | a :: r, x :: xs, c :: cs, h => by
    have ih := dot_sub r xs cs (by simpa using h)
    simp only [List.zipWith_cons_cons, dot, ih]; ring
  | _ :: _, [], _ :: _, h => by simp at h
  | _ :: _, _ :: _, [], h => by simp at h

theorem rigidApply_aux (x c0 : List Int) (hx : x.length = c0.length) : ∀ (rows : List (List Int)) (ts cs : List Int),
    List.zipWith (· + ·) (rows.map fun row => dot row x)
        (zip3With (fun ti ci ri => -ti + ci - ri) ts cs (rows.map fun row => dot row c0))
      = zip3With (fun v ci ti => v + ci - ti) (rows.map fun row => dot row (List.zipWith (· - ·) x c0)) cs ts
  | [], ts, cs => by cases ts <;> cases cs <;> simp [zip3With]
  | row :: rows, [], cs => by cases cs <;> simp [zip3With]
  | row :: rows, _ :: _, [] => by simp [zip3With]
  | row :: rows, t :: ts, c :: cs => by
    have ih := rigidApply_aux x c0 hx rows ts cs
    simp only [List.map_cons, zip3With, List.zipWith_cons_cons, ih, dot_sub row x c0 hx]
    congr 1; ring

end Pm.C13
